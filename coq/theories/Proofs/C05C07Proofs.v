(* C05 / C07 — proofs about the transition model (Model/Machine.v) against the
   handler-lifecycle predicates (Spec/C05.v) and the auto-state predicates
   (Spec/C07.v). Lemmas only; the property theorems are restated in
   Props/C05.v and Props/C07.v and closed by [exact]. *)

From Coq Require Import List Bool Arith NArith Lia Permutation.
From AMV Require Import Base.ListSet Model.Schema Model.Resolver Model.Machine
  Spec.C01 Spec.C05 Spec.C07 Spec.C05b Spec.C05d Spec.C05e.
Import ListNotations.

(* ------------------------------------------------------------------ *)
(* basic list / set facts                                              *)
(* ------------------------------------------------------------------ *)

Lemma mem_In : forall x l, mem x l = true <-> In x l.
Proof.
  intros x l. unfold mem. rewrite existsb_exists. split.
  - intros [y [Hy Heq]]. apply Nat.eqb_eq in Heq. subst. exact Hy.
  - intros Hin. exists x. split; [exact Hin | apply Nat.eqb_refl].
Qed.

Lemma mem_false : forall x l, mem x l = false <-> ~ In x l.
Proof.
  intros x l. split.
  - intros Hf Hin. apply mem_In in Hin. congruence.
  - intros Hn. destruct (mem x l) eqn:E; [|reflexivity].
    apply mem_In in E. contradiction.
Qed.

Lemma mem_ext : forall l1 l2, (forall x, In x l1 <-> In x l2) ->
  forall x, mem x l1 = mem x l2.
Proof.
  intros l1 l2 Hext x. destruct (mem x l2) eqn:E.
  - apply mem_In. apply Hext. apply mem_In. exact E.
  - apply mem_false. intros Hin. apply Hext in Hin. apply mem_In in Hin. congruence.
Qed.

Lemma filter_all_true : forall (A : Type) (f : A -> bool) l,
  (forall x, f x = true) -> filter f l = l.
Proof.
  intros A f l H. induction l as [|x r IH]; [reflexivity|]. cbn. rewrite H, IH. reflexivity.
Qed.

Lemma diff_In : forall a b x, In x (diff a b) <-> In x a /\ ~ In x b.
Proof.
  intros a b x. unfold diff. rewrite filter_In. rewrite negb_true_iff, mem_false. tauto.
Qed.

Lemma uniq_acc_In : forall l seen x,
  In x (uniq_acc seen l) <-> In x l /\ ~ In x seen.
Proof.
  induction l as [|y r IH]; intros seen x; simpl.
  - tauto.
  - destruct (mem y seen) eqn:E.
    + rewrite IH. apply mem_In in E. split.
      * intros [H1 H2]. tauto.
      * intros [[H1|H1] H2]; [subst; contradiction | tauto].
    + apply mem_false in E. simpl. rewrite IH. simpl. split.
      * intros [H|[H1 H2]]; [subst; tauto | tauto].
      * intros [[H1|H1] H2]; [tauto|].
        destruct (Nat.eq_dec y x) as [Heq|Hne]; [tauto|]. right. tauto.
Qed.

Lemma uniq_acc_NoDup : forall l seen, NoDup (uniq_acc seen l).
Proof.
  induction l as [|y r IH]; intros seen; simpl.
  - constructor.
  - destruct (mem y seen) eqn:E.
    + apply IH.
    + constructor; [|apply IH].
      rewrite uniq_acc_In. simpl. tauto.
Qed.

Lemma uniq_NoDup : forall l, NoDup (uniq l).
Proof. intros l. apply uniq_acc_NoDup. Qed.

Lemma ins_perm : forall (A : Type) (less : A -> A -> bool) x rp,
  Permutation (ins less x rp) (x :: rp).
Proof.
  intros A less x rp. induction rp as [|p r IH]; simpl.
  - apply Permutation_refl.
  - destruct (less x p).
    + apply Permutation_trans with (p :: x :: r).
      * apply perm_skip. exact IH.
      * apply perm_swap.
    + apply Permutation_refl.
Qed.

Lemma fold_ins_perm : forall (A : Type) (less : A -> A -> bool) l acc,
  Permutation (fold_left (fun a x => ins less x a) l acc) (l ++ acc).
Proof.
  intros A less l. induction l as [|x r IH]; intros acc; simpl.
  - apply Permutation_refl.
  - apply Permutation_trans with (r ++ ins less x acc); [apply IH|].
    apply Permutation_trans with (r ++ x :: acc).
    + apply Permutation_app_head. apply ins_perm.
    + apply Permutation_sym. apply Permutation_middle.
Qed.

Lemma go_insertion_sort_perm : forall (A : Type) (less : A -> A -> bool) l,
  Permutation (go_insertion_sort less l) l.
Proof.
  intros A less l. unfold go_insertion_sort.
  apply Permutation_trans with (fold_left (fun a x => ins less x a) l []).
  - apply Permutation_sym. apply Permutation_rev.
  - pose proof (fold_ins_perm A less l []) as H. rewrite app_nil_r in H. exact H.
Qed.

Lemma sort_states_perm : forall sc topo l, Permutation (sort_states sc topo l) l.
Proof.
  intros sc topo l. unfold sort_states.
  eapply Permutation_trans; apply go_insertion_sort_perm.
Qed.

Lemma sort_states_In : forall sc topo l x, In x (sort_states sc topo l) <-> In x l.
Proof.
  intros sc topo l x. split; apply Permutation_in.
  - apply sort_states_perm.
  - apply Permutation_sym. apply sort_states_perm.
Qed.

Lemma sort_states_NoDup : forall sc topo l, NoDup l -> NoDup (sort_states sc topo l).
Proof.
  intros sc topo l Hnd. eapply Permutation_NoDup; [|exact Hnd].
  apply Permutation_sym. apply sort_states_perm.
Qed.

Lemma parse_require_fuel_NoDup : forall fuel sc states,
  NoDup states -> NoDup (parse_require_fuel fuel sc states).
Proof.
  induction fuel as [|f IH]; intros sc states Hnd; simpl; [exact Hnd|].
  destruct (Nat.eqb _ _); [exact Hnd|].
  apply IH. apply NoDup_filter. exact Hnd.
Qed.

Lemma NoDup_rev_l : forall (A : Type) (l : list A), NoDup l -> NoDup (rev l).
Proof.
  intros A l H. eapply Permutation_NoDup; [apply Permutation_rev | exact H].
Qed.

Lemma target_states_NoDup : forall c to_set, NoDup (target_states c to_set).
Proof.
  intros c to_set. unfold target_states. apply sort_states_NoDup.
  unfold target_unsorted, parse_require. apply parse_require_fuel_NoDup.
  apply NoDup_rev_l. apply uniq_NoDup.
Qed.

(* ------------------------------------------------------------------ *)
(* handler keys                                                        *)
(* ------------------------------------------------------------------ *)

Lemma hkey_eqb_eq : forall a b, hkey_eqb a b = true <-> a = b.
Proof.
  intros a b. split.
  - destruct a, b; simpl; intros H; try discriminate; try reflexivity;
      try (apply Nat.eqb_eq in H; subst; reflexivity).
    apply andb_true_iff in H. destruct H as [H1 H2].
    apply Nat.eqb_eq in H1. apply Nat.eqb_eq in H2. subst. reflexivity.
  - intros ->. destruct b; simpl; try reflexivity; try apply Nat.eqb_refl.
    rewrite !Nat.eqb_refl. reflexivity.
Qed.

Lemma hkey_eqb_refl : forall a, hkey_eqb a a = true.
Proof. intros a. apply hkey_eqb_eq. reflexivity. Qed.

Lemma hkey_eqb_neq : forall a b, a <> b -> hkey_eqb a b = false.
Proof.
  intros a b H. destruct (hkey_eqb a b) eqn:E; [|reflexivity].
  apply hkey_eqb_eq in E. contradiction.
Qed.

Definition rk (h : hlentry) : nat := phase_rank (hl_key h).

Lemma rank_final : forall k, is_final_key k = true <-> 3 <= phase_rank k.
Proof. intros k. destruct k; simpl; split; intros H; try reflexivity; try discriminate; lia. Qed.

Lemma rank_nonfinal : forall k, is_final_key k = false <-> phase_rank k <= 2.
Proof. intros k. destruct k; simpl; split; intros H; try reflexivity; try discriminate; lia. Qed.

(* ------------------------------------------------------------------ *)
(* non-decreasing lists                                                *)
(* ------------------------------------------------------------------ *)

Definition bounded (lo hi : nat) (l : list nat) : Prop :=
  nondecreasing l = true /\ Forall (fun x => lo <= x <= hi) l.

Lemma bounded_nil : forall lo hi, bounded lo hi [].
Proof. intros. split; [reflexivity | constructor]. Qed.

Lemma nondecreasing_cons : forall a l,
  nondecreasing (a :: l) = true <->
  (match l with [] => True | b :: _ => a <= b end) /\ nondecreasing l = true.
Proof.
  intros a l. destruct l as [|b r].
  - simpl. tauto.
  - change (nondecreasing (a :: b :: r)) with ((a <=? b) && nondecreasing (b :: r)).
    rewrite andb_true_iff, Nat.leb_le. tauto.
Qed.

Lemma bounded_app : forall a b c d l1 l2,
  bounded a b l1 -> bounded c d l2 -> b <= c -> a <= c -> b <= d ->
  bounded a d (l1 ++ l2).
Proof.
  intros a b c d l1 l2 [N1 F1] [N2 F2] Hbc Hac Hbd. split.
  - induction l1 as [|x r IH].
    + exact N2.
    + inversion F1 as [|? ? Fx Fr]; subst.
      apply nondecreasing_cons in N1. destruct N1 as [Hh Hr].
      change ((x :: r) ++ l2) with (x :: (r ++ l2)).
      apply nondecreasing_cons. split; [|apply IH; assumption].
      destruct r as [|y r'].
      * simpl. destruct l2 as [|z l2']; [exact I|].
        inversion F2; subst. lia.
      * simpl. exact Hh.
  - apply Forall_app. split.
    + eapply Forall_impl; [|exact F1]. simpl. intros x Hx. lia.
    + eapply Forall_impl; [|exact F2]. simpl. intros x Hx. lia.
Qed.

Lemma bounded_const : forall n l, Forall (fun x => x = n) l -> bounded n n l.
Proof.
  intros n l H. split.
  - induction l as [|x r IH]; [reflexivity|].
    inversion H; subst. apply nondecreasing_cons. split; [|apply IH; assumption].
    destruct r as [|y r']; [exact I|]. inversion H3; subst. lia.
  - eapply Forall_impl; [|exact H]. simpl. intros x ->. lia.
Qed.

Lemma bounded_weaken : forall a b c d l, bounded a b l -> c <= a -> b <= d -> bounded c d l.
Proof.
  intros a b c d l [N F] H1 H2. split; [exact N|].
  eapply Forall_impl; [|exact F]. simpl. intros x Hx. lia.
Qed.

(* ================================================================== *)
(* C05 (e), (f): the order of states (sort_states, topo_sort)          *)
(* ================================================================== *)

(* ------------------------------------------------------------------ *)
(* membership                                                          *)
(* ------------------------------------------------------------------ *)

Lemma srt_mem_true : forall x l, mem x l = true <-> In x l.
Proof.
  intros x l. unfold mem. rewrite existsb_exists. split.
  - intros [y [Hy He]]. apply Nat.eqb_eq in He. subst y. exact Hy.
  - intros H. exists x. split; [exact H | apply Nat.eqb_refl].
Qed.

Lemma srt_mem_false : forall x l, mem x l = false <-> ~ In x l.
Proof.
  intros x l. rewrite <- srt_mem_true. symmetry. apply not_true_iff_false.
Qed.

Lemma srt_uniq_acc_In : forall l seen x,
  In x (uniq_acc seen l) <-> In x l /\ ~ In x seen.
Proof.
  induction l as [|y r IH]; intros seen x; simpl.
  - tauto.
  - destruct (mem y seen) eqn:E.
    + apply srt_mem_true in E. rewrite IH. split.
      * intros [H1 H2]. split; [right; exact H1 | exact H2].
      * intros [[H1 | H1] H2]; [subst y; contradiction | split; assumption].
    + apply srt_mem_false in E. simpl. rewrite IH. simpl. split.
      * intros [H | [H1 H2]].
        -- subst y. split; [left; reflexivity | exact E].
        -- split; [right; exact H1 | intros H3; apply H2; right; exact H3].
      * intros [[H1 | H1] H2]; [left; exact H1|].
        destruct (Nat.eq_dec y x) as [Hyx | Hyx]; [left; exact Hyx|].
        right. split; [exact H1|]. intros [H3 | H3]; contradiction.
Qed.

Lemma srt_uniq_In : forall l x, In x (uniq l) <-> In x l.
Proof.
  intros l x. unfold uniq. rewrite srt_uniq_acc_In. simpl. tauto.
Qed.

Lemma srt_filter_nil : forall A (p : A -> bool) l,
  filter p l = [] <-> forall x, In x l -> p x = false.
Proof.
  intros A p l. induction l as [|y r IH]; simpl.
  - split; [intros _ x [] | reflexivity].
  - destruct (p y) eqn:E.
    + split; [discriminate|]. intros H. rewrite (H y) in E by (left; reflexivity). discriminate E.
    + rewrite IH. split.
      * intros H x [Hx | Hx]; [subst x; exact E | apply H; exact Hx].
      * intros H x Hx. apply H. right. exact Hx.
Qed.

(* ------------------------------------------------------------------ *)
(* "a is listed before b"                                              *)
(* ------------------------------------------------------------------ *)

Definition srt_before {A} (l : list A) (a b : A) : Prop :=
  exists l1 l2 l3, l = l1 ++ a :: l2 ++ b :: l3.

Lemma srt_before_nil : forall A (a b : A), ~ srt_before [] a b.
Proof.
  intros A a b [l1 [l2 [l3 H]]]. destruct l1; discriminate H.
Qed.

Lemma srt_before_cons : forall A (x : A) r a b,
  srt_before (x :: r) a b <-> (x = a /\ In b r) \/ srt_before r a b.
Proof.
  intros A x r a b. split.
  - intros [l1 [l2 [l3 H]]]. destruct l1 as [|y l1]; simpl in H; injection H as Hx Hr.
    + left. split; [exact Hx|]. subst r. apply in_or_app. right. left. reflexivity.
    + right. exists l1, l2, l3. exact Hr.
  - intros [[Hx Hin] | [l1 [l2 [l3 H]]]].
    + apply in_split in Hin. destruct Hin as [l2 [l3 Hr]].
      exists [], l2, l3. simpl. subst x r. reflexivity.
    + exists (x :: l1), l2, l3. simpl. rewrite H. reflexivity.
Qed.

Lemma srt_before_single : forall A (x a b : A), ~ srt_before [x] a b.
Proof.
  intros A x a b H. apply srt_before_cons in H. destruct H as [[_ []] | H].
  exact (srt_before_nil _ _ _ H).
Qed.

Lemma srt_before_In : forall A (l : list A) a b, srt_before l a b -> In a l /\ In b l.
Proof.
  intros A l a b [l1 [l2 [l3 H]]]. subst l. split.
  - apply in_or_app. right. left. reflexivity.
  - apply in_or_app. right. right. apply in_or_app. right. left. reflexivity.
Qed.

Lemma srt_before_app : forall A (l l' : list A) a b,
  srt_before (l ++ l') a b <->
  srt_before l a b \/ srt_before l' a b \/ (In a l /\ In b l').
Proof.
  intros A l l' a b. induction l as [|x l IH]; simpl.
  - split.
    + intros H. right. left. exact H.
    + intros [H | [H | [[] _]]]; [destruct (srt_before_nil _ _ _ H) | exact H].
  - rewrite !srt_before_cons, IH, in_app_iff. tauto.
Qed.

Lemma srt_before_rev : forall A (l : list A) a b,
  srt_before (rev l) a b <-> srt_before l b a.
Proof.
  intros A l a b. induction l as [|x l IH]; simpl.
  - split; intros H; destruct (srt_before_nil _ _ _ H).
  - rewrite srt_before_app, IH, <- in_rev. rewrite (srt_before_cons A x l b a). split.
    + intros [H | [H | [H1 [H2 | []]]]].
      * right. exact H.
      * destruct (srt_before_single _ _ _ _ H).
      * left. split; assumption.
    + intros [[H1 H2] | H].
      * right. right. split; [exact H2 | left; exact H1].
      * left. exact H.
Qed.

Lemma srt_ov_nil_iff : forall f l,
  order_violations f l = [] <-> forall a b, srt_before l a b -> f a b = false.
Proof.
  intros f l. induction l as [|x r IH]; simpl.
  - split; [|reflexivity]. intros _ a b H. destruct (srt_before_nil _ _ _ H).
  - split.
    + intros H a b Hb. apply app_eq_nil in H. destruct H as [H1 H2].
      apply map_eq_nil in H1. apply srt_before_cons in Hb. destruct Hb as [[Hx Hin] | Hb].
      * subst a. exact (proj1 (srt_filter_nil _ _ _) H1 b Hin).
      * exact (proj1 IH H2 a b Hb).
    + intros H.
      assert (H1 : filter (fun b => f x b) r = []).
      { apply srt_filter_nil. intros b Hb. apply H. apply srt_before_cons. left.
        split; [reflexivity | exact Hb]. }
      rewrite H1. simpl. apply IH. intros a b Hb. apply H. apply srt_before_cons.
      right. exact Hb.
Qed.

(* ------------------------------------------------------------------ *)
(* sublists                                                            *)
(* ------------------------------------------------------------------ *)

Inductive srt_sublist {A} : list A -> list A -> Prop :=
| srt_sub_nil : srt_sublist [] []
| srt_sub_skip : forall x l' l, srt_sublist l' l -> srt_sublist l' (x :: l)
| srt_sub_keep : forall x l' l, srt_sublist l' l -> srt_sublist (x :: l') (x :: l).

Lemma srt_sublist_In : forall A (l' l : list A), srt_sublist l' l -> forall x, In x l' -> In x l.
Proof.
  intros A l' l H. induction H as [|x l' l H IH|x l' l H IH]; intros y Hy.
  - exact Hy.
  - right. apply IH. exact Hy.
  - destruct Hy as [Hy | Hy]; [left; exact Hy | right; apply IH; exact Hy].
Qed.

Lemma srt_sublist_before : forall A (l' l : list A), srt_sublist l' l ->
  forall a b, srt_before l' a b -> srt_before l a b.
Proof.
  intros A l' l H. induction H as [|x l' l H IH|x l' l H IH]; intros a b Hb.
  - exact Hb.
  - apply srt_before_cons. right. apply IH. exact Hb.
  - apply srt_before_cons. apply srt_before_cons in Hb. destruct Hb as [[Hx Hin] | Hb].
    + left. split; [exact Hx | exact (srt_sublist_In _ _ _ H _ Hin)].
    + right. apply IH. exact Hb.
Qed.

Lemma srt_sublist_filter : forall A (p : A -> bool) l, srt_sublist (filter p l) l.
Proof.
  intros A p l. induction l as [|x l IH]; simpl.
  - constructor.
  - destruct (p x); constructor; exact IH.
Qed.

Lemma srt_sublist_refl : forall A (l : list A), srt_sublist l l.
Proof.
  intros A l. induction l as [|x l IH]; constructor; exact IH.
Qed.

Theorem order_violations_sublist_lemma : forall f (l l' : list nat),
  order_violations f l = [] -> srt_sublist l' l -> order_violations f l' = [].
Proof.
  intros f l l' H Hs. apply srt_ov_nil_iff. intros a b Hb.
  apply (proj1 (srt_ov_nil_iff f l) H). exact (srt_sublist_before _ _ _ Hs _ _ Hb).
Qed.

Theorem order_violations_filter_lemma : forall f p (l : list nat),
  order_violations f l = [] -> order_violations f (filter p l) = [].
Proof.
  intros f p l H. apply (order_violations_sublist_lemma f l); [exact H|].
  apply srt_sublist_filter.
Qed.

(* ------------------------------------------------------------------ *)
(* Go's insertion sort: only inverts pairs the comparator asks for      *)
(* ------------------------------------------------------------------ *)

Lemma srt_In_ins : forall A (less : A -> A -> bool) x rp y,
  In y (ins less x rp) <-> y = x \/ In y rp.
Proof.
  intros A less x rp y. induction rp as [|p r IH]; simpl.
  - split; [intros [H | []]; left; symmetry; exact H | intros [H | []]; left; symmetry; exact H].
  - destruct (less x p); simpl.
    + rewrite IH. tauto.
    + split.
      * intros [H | H]; [left; symmetry; exact H | right; exact H].
      * intros [H | H]; [left; symmetry; exact H | right; exact H].
Qed.

Lemma srt_before_ins : forall A (less : A -> A -> bool) x rp u v,
  srt_before (ins less x rp) u v ->
  srt_before rp u v \/ (u = x /\ In v rp) \/ (v = x /\ In u rp /\ less x u = true).
Proof.
  intros A less x rp. induction rp as [|p r IH]; simpl; intros u v H.
  - destruct (srt_before_single _ _ _ _ H).
  - destruct (less x p) eqn:E.
    + apply srt_before_cons in H. destruct H as [[Hp Hin] | H].
      * subst u. apply srt_In_ins in Hin. destruct Hin as [Hv | Hv].
        -- right. right. split; [exact Hv|]. split; [left; reflexivity | exact E].
        -- left. apply srt_before_cons. left. split; [reflexivity | exact Hv].
      * apply IH in H. destruct H as [H | [[Hu Hv] | [Hv [Hu Hl]]]].
        -- left. apply srt_before_cons. right. exact H.
        -- right. left. split; [exact Hu | right; exact Hv].
        -- right. right. split; [exact Hv|]. split; [right; exact Hu | exact Hl].
    + apply srt_before_cons in H. destruct H as [[Hx Hin] | H].
      * right. left. split; [symmetry; exact Hx | exact Hin].
      * left. exact H.
Qed.

Lemma srt_fold_ins_before : forall A (less : A -> A -> bool) l acc pre,
  (forall u v, srt_before acc u v -> srt_before pre v u \/ less v u = true) ->
  (forall x, In x acc -> In x pre) ->
  forall u v, srt_before (fold_left (fun acc x => ins less x acc) l acc) u v ->
    srt_before (pre ++ l) v u \/ less v u = true.
Proof.
  intros A less l. induction l as [|x l IH]; simpl; intros acc pre H1 H2 u v H.
  - rewrite app_nil_r. apply H1. exact H.
  - assert (Hassoc : pre ++ x :: l = (pre ++ [x]) ++ l)
      by (rewrite <- app_assoc; reflexivity).
    rewrite Hassoc.
    apply IH with (acc := ins less x acc); [ | | exact H].
    + intros u0 v0 Hb. apply srt_before_ins in Hb.
      destruct Hb as [Hb | [[Hu Hv] | [Hv [Hu Hl]]]].
      * destruct (H1 _ _ Hb) as [Hp | Hl]; [left | right; exact Hl].
        apply srt_before_app. left. exact Hp.
      * left. apply srt_before_app. right. right.
        split; [apply H2; exact Hv | left; symmetry; exact Hu].
      * right. subst v0. exact Hl.
    + intros y Hy. apply srt_In_ins in Hy. apply in_or_app.
      destruct Hy as [Hy | Hy]; [right; left; symmetry; exact Hy | left; apply H2; exact Hy].
Qed.

Lemma srt_gis_before : forall A (less : A -> A -> bool) l a b,
  srt_before (go_insertion_sort less l) a b -> srt_before l a b \/ less a b = true.
Proof.
  intros A less l a b H. unfold go_insertion_sort in H. apply (proj1 (srt_before_rev _ _ _ _)) in H.
  apply (srt_fold_ins_before A less l [] []) in H.
  - exact H.
  - intros u v Hb. destruct (srt_before_nil _ _ _ Hb).
  - intros x [].
Qed.

Lemma srt_In_fold_ins : forall A (less : A -> A -> bool) l acc y,
  In y (fold_left (fun acc x => ins less x acc) l acc) <-> In y l \/ In y acc.
Proof.
  intros A less l. induction l as [|x l IH]; simpl; intros acc y.
  - tauto.
  - rewrite IH, srt_In_ins. split.
    + intros [H | [H | H]]; [left; right; exact H | left; left; symmetry; exact H | right; exact H].
    + intros [[H | H] | H]; [right; left; symmetry; exact H | left; exact H | right; right; exact H].
Qed.

Lemma srt_In_gis : forall A (less : A -> A -> bool) l y,
  In y (go_insertion_sort less l) <-> In y l.
Proof.
  intros A less l y. unfold go_insertion_sort. rewrite <- in_rev, srt_In_fold_ins. simpl. tauto.
Qed.

(* key comparators: the output is sorted by the key *)

Lemma srt_ins_desc : forall A (less : A -> A -> bool) (key : A -> nat),
  (forall a b, less a b = (key a <? key b)) ->
  forall x rp, (forall u v, srt_before rp u v -> key v <= key u) ->
  forall u v, srt_before (ins less x rp) u v -> key v <= key u.
Proof.
  intros A less key Hless x rp. induction rp as [|p r IH]; simpl; intros Hrp u v H.
  - destruct (srt_before_single _ _ _ _ H).
  - assert (Hr : forall u0 v0, srt_before r u0 v0 -> key v0 <= key u0).
    { intros u0 v0 Hb. apply Hrp. apply srt_before_cons. right. exact Hb. }
    assert (Hp : forall v0, In v0 r -> key v0 <= key p).
    { intros v0 Hv. apply Hrp. apply srt_before_cons. left. split; [reflexivity | exact Hv]. }
    destruct (less x p) eqn:E; rewrite Hless in E.
    + apply Nat.ltb_lt in E. apply srt_before_cons in H. destruct H as [[Hu Hin] | H].
      * subst u. apply srt_In_ins in Hin. destruct Hin as [Hv | Hv].
        -- subst v. lia.
        -- apply Hp. exact Hv.
      * apply IH; [exact Hr | exact H].
    + apply Nat.ltb_ge in E. apply srt_before_cons in H. destruct H as [[Hu Hin] | H].
      * subst u. destruct Hin as [Hv | Hv].
        -- subst v. exact E.
        -- specialize (Hp v Hv). lia.
      * apply Hrp. exact H.
Qed.

Lemma srt_gis_key_sorted : forall A (less : A -> A -> bool) (key : A -> nat),
  (forall a b, less a b = (key a <? key b)) ->
  forall l a b, srt_before (go_insertion_sort less l) a b -> key a <= key b.
Proof.
  intros A less key Hless l a b H. unfold go_insertion_sort in H. apply (proj1 (srt_before_rev _ _ _ _)) in H.
  revert b a H.
  assert (Hfold : forall l0 acc, (forall u v, srt_before acc u v -> key v <= key u) ->
            forall u v, srt_before (fold_left (fun acc x => ins less x acc) l0 acc) u v ->
                        key v <= key u).
  { induction l0 as [|x l0 IH]; simpl; intros acc Hacc u v H.
    - apply Hacc. exact H.
    - apply (IH (ins less x acc)); [|exact H].
      apply (srt_ins_desc A less key Hless). exact Hacc. }
  apply Hfold. intros u v Hb. destruct (srt_before_nil _ _ _ Hb).
Qed.

(* ------------------------------------------------------------------ *)
(* pos_in                                                              *)
(* ------------------------------------------------------------------ *)

Lemma srt_pos_from_notin : forall l x k, ~ In x l -> pos_in_from k l x = 0.
Proof.
  induction l as [|y r IH]; simpl; intros x k H; [reflexivity|].
  destruct (Nat.eqb_spec x y) as [E | E].
  - exfalso. apply H. left. symmetry. exact E.
  - apply IH. intros Hr. apply H. right. exact Hr.
Qed.

Lemma srt_pos_from_in : forall l x k, In x l ->
  k < pos_in_from k l x /\ pos_in_from k l x <= k + length l.
Proof.
  induction l as [|y r IH]; simpl; intros x k H; [destruct H|].
  destruct (Nat.eqb_spec x y) as [E | E]; [lia|].
  destruct H as [H | H]; [exfalso; apply E; symmetry; exact H|].
  specialize (IH x (S k) H). lia.
Qed.

Lemma srt_pos_from_app : forall l l' x k, In x l ->
  pos_in_from k (l ++ l') x = pos_in_from k l x.
Proof.
  induction l as [|y r IH]; simpl; intros l' x k H; [destruct H|].
  destruct (Nat.eqb_spec x y) as [E | E]; [reflexivity|].
  destruct H as [H | H]; [exfalso; apply E; symmetry; exact H|].
  apply IH. exact H.
Qed.

Lemma srt_pos_from_snoc : forall l x k, ~ In x l ->
  pos_in_from k (l ++ [x]) x = S (k + length l).
Proof.
  induction l as [|y r IH]; simpl; intros x k H.
  - rewrite Nat.eqb_refl. lia.
  - destruct (Nat.eqb_spec x y) as [E | E].
    + exfalso. apply H. left. symmetry. exact E.
    + rewrite IH; [lia|]. intros Hr. apply H. right. exact Hr.
Qed.

Lemma srt_pos_in_In : forall l x, 0 < pos_in l x -> In x l.
Proof.
  intros l x H. destruct (in_dec Nat.eq_dec x l) as [Hin | Hin]; [exact Hin|].
  unfold pos_in in H. rewrite srt_pos_from_notin in H by exact Hin. lia.
Qed.

(* ------------------------------------------------------------------ *)
(* the Require graph                                                   *)
(* ------------------------------------------------------------------ *)

Fixpoint srt_reach (next : nat -> list nat) (k : nat) (x y : nat) : Prop :=
  match k with
  | O => x = y
  | S k' => exists z, In z (next x) /\ srt_reach next k' z y
  end.

Lemma srt_reach_snoc : forall next k x p y,
  srt_reach next k x p -> In y (next p) -> srt_reach next (S k) x y.
Proof.
  intros next k. induction k as [|k IH]; intros x p y H Hy.
  - simpl in H. subst p. exists y. split; [exact Hy | reflexivity].
  - destruct H as [z [Hz Hr]]. exists z. split; [exact Hz|]. exact (IH _ _ _ Hr Hy).
Qed.

Lemma srt_closure_reach : forall next n l k x y,
  In x l -> srt_reach next k x y -> k <= n -> In y (rel_closure n next l).
Proof.
  intros next n. induction n as [|n IH]; intros l k x y Hx Hr Hk.
  - assert (k = 0) by lia. subst k. simpl in Hr. subst y. exact Hx.
  - simpl. destruct k as [|k].
    + simpl in Hr. subst y. apply (IH _ 0 x x); [|reflexivity|lia].
      apply srt_uniq_In. apply in_or_app. left. exact Hx.
    + destruct Hr as [z [Hz Hr]]. apply (IH _ k z y); [|exact Hr|lia].
      apply srt_uniq_In. apply in_or_app. right. apply in_flat_map. exists x.
      split; [exact Hx | exact Hz].
Qed.

Lemma srt_req_lt : forall sc x c, In c (s_require (sget sc x)) -> x < length sc.
Proof.
  intros sc x c H. destruct (lt_dec x (length sc)) as [Hlt | Hge]; [exact Hlt|].
  unfold sget in H. rewrite nth_overflow in H by lia. destruct H.
Qed.

Lemma srt_aft_lt : forall sc x c, In c (s_after (sget sc x)) -> x < length sc.
Proof.
  intros sc x c H. destruct (lt_dec x (length sc)) as [Hlt | Hge]; [exact Hlt|].
  unfold sget in H. rewrite nth_overflow in H by lia. destruct H.
Qed.

Lemma srt_acyclic_no_cycle : forall sc k x,
  require_acyclic sc = true -> 1 <= k -> k <= length sc -> x < length sc ->
  srt_reach (fun y => s_require (sget sc y)) k x x -> False.
Proof.
  intros sc k x Hac Hk1 Hk2 Hx Hr. unfold require_acyclic in Hac.
  rewrite forallb_forall in Hac.
  assert (Hin : In x (all_states sc)).
  { unfold all_states. apply in_seq. lia. }
  specialize (Hac x Hin). apply negb_true_iff in Hac. apply srt_mem_false in Hac.
  apply Hac. destruct k as [|k]; [lia|]. destruct Hr as [z [Hz Hr]].
  apply (srt_closure_reach _ (length sc) _ k z x); [exact Hz | exact Hr | lia].
Qed.

(* the DFS stack of open nodes is a Require path ending in [node] *)
Fixpoint srt_path (sc : schema) (node : nat) (temp : list nat) : Prop :=
  match temp with
  | [] => True
  | p :: r => In node (s_require (sget sc p)) /\ srt_path sc p r
  end.

Lemma srt_path_reach : forall sc l1 node x l2,
  srt_path sc node (l1 ++ x :: l2) ->
  srt_reach (fun y => s_require (sget sc y)) (S (length l1)) x node.
Proof.
  intros sc l1. induction l1 as [|p l1 IH]; intros node x l2 H.
  - simpl in H. destruct H as [H _]. exists node. split; [exact H | reflexivity].
  - simpl in H. destruct H as [H1 H2]. specialize (IH _ _ _ H2).
    exact (srt_reach_snoc _ _ _ _ _ IH H1).
Qed.

Lemma srt_bounded_nodup_length : forall n l,
  NoDup l -> (forall x, In x l -> x < n) -> length l <= n.
Proof.
  intros n l Hnd Hb. rewrite <- (seq_length n 0). apply NoDup_incl_length; [exact Hnd|].
  intros x Hx. apply in_seq. specialize (Hb x Hx). lia.
Qed.

(* ------------------------------------------------------------------ *)
(* topo_visit                                                          *)
(* ------------------------------------------------------------------ *)

Definition srt_step (f : nat) (sc : schema) (temp : list nat)
  (a : option (list nat * list nat)) (nb : nat) : option (list nat * list nat) :=
  match a with
  | None => None
  | Some a' => topo_visit f sc nb temp a'
  end.

Lemma srt_visit_S : forall f sc node temp acc,
  topo_visit (S f) sc node temp acc =
  if mem node temp then None
  else if mem node (fst acc) then Some acc
  else match fold_left (srt_step f sc (node :: temp)) (s_require (sget sc node)) (Some acc) with
       | None => None
       | Some (vis, stack) => Some (node :: vis, stack ++ [node])
       end.
Proof. reflexivity. Qed.

Lemma srt_fold_none : forall f sc temp cs, fold_left (srt_step f sc temp) cs None = None.
Proof.
  intros f sc temp cs. induction cs as [|c cs IH]; simpl; [reflexivity | exact IH].
Qed.

Lemma srt_fold_cons : forall f sc temp c cs acc,
  fold_left (srt_step f sc temp) (c :: cs) (Some acc) =
  fold_left (srt_step f sc temp) cs (topo_visit f sc c temp acc).
Proof. reflexivity. Qed.

Definition srt_inv (sc : schema) (acc : list nat * list nat) : Prop :=
  (forall x, In x (fst acc) <-> In x (snd acc)) /\
  NoDup (snd acc) /\
  (forall a b, In a (snd acc) -> In b (s_require (sget sc a)) ->
     0 < pos_in (snd acc) b /\ pos_in (snd acc) b < pos_in (snd acc) a).

Lemma srt_inv_push : forall sc vis stack node,
  srt_inv sc (vis, stack) -> ~ In node stack ->
  (forall c, In c (s_require (sget sc node)) -> In c stack) ->
  srt_inv sc (node :: vis, stack ++ [node]).
Proof.
  intros sc vis stack node [I1 [I2 I3]] Hn Hc. simpl in I1, I2, I3.
  unfold srt_inv. simpl fst. simpl snd. split; [|split].
  - intros x. rewrite in_app_iff. simpl. rewrite I1. tauto.
  - apply Permutation_NoDup with (l := node :: stack).
    + apply Permutation_cons_append.
    + constructor; assumption.
  - intros a b Ha Hb. apply in_app_or in Ha. destruct Ha as [Ha | [Ha | []]].
    + destruct (I3 a b Ha Hb) as [P1 P2].
      assert (Hbs : In b stack) by (apply srt_pos_in_In; exact P1).
      unfold pos_in in *. rewrite !srt_pos_from_app by assumption. split; assumption.
    + subst a. assert (Hbs := Hc b Hb). unfold pos_in.
      rewrite srt_pos_from_app by assumption. rewrite srt_pos_from_snoc by assumption.
      destruct (srt_pos_from_in stack b 0 Hbs) as [P1 P2]. lia.
Qed.

(* partial correctness, independent of acyclicity *)
Lemma srt_visit_ok : forall sc fuel node temp acc acc',
  topo_visit fuel sc node temp acc = Some acc' -> srt_inv sc acc ->
  srt_inv sc acc' /\ In node (snd acc') /\
  exists ext, snd acc' = snd acc ++ ext /\ forall x, In x ext -> ~ In x temp.
Proof.
  intros sc fuel. induction fuel as [|f IHf]; intros node temp acc acc' Hv Hi.
  - discriminate Hv.
  - rewrite srt_visit_S in Hv.
    destruct (mem node temp) eqn:Et; [discriminate Hv|].
    destruct (mem node (fst acc)) eqn:Ea.
    + injection Hv as Hv. subst acc'. split; [exact Hi|]. split.
      * destruct Hi as [I1 _]. apply I1. apply srt_mem_true. exact Ea.
      * exists []. rewrite app_nil_r. split; [reflexivity | intros x []].
    + assert (Hfold : forall cs acc0 acc1,
                fold_left (srt_step f sc (node :: temp)) cs (Some acc0) = Some acc1 ->
                srt_inv sc acc0 ->
                srt_inv sc acc1 /\ (forall c, In c cs -> In c (snd acc1)) /\
                exists ext, snd acc1 = snd acc0 ++ ext /\
                            forall x, In x ext -> ~ In x (node :: temp)).
      { induction cs as [|c cs IHcs]; intros acc0 acc1 Hf Hi0.
        - simpl in Hf. injection Hf as Hf. subst acc1. split; [exact Hi0|].
          split; [intros c []|]. exists []. rewrite app_nil_r.
          split; [reflexivity | intros x []].
        - rewrite srt_fold_cons in Hf.
          destruct (topo_visit f sc c (node :: temp) acc0) as [acc2|] eqn:Ev.
          + destruct (IHf _ _ _ _ Ev Hi0) as [Hi2 [Hc2 [e1 [He1 Hn1]]]].
            destruct (IHcs _ _ Hf Hi2) as [Hi1 [Hcs [e2 [He2 Hn2]]]].
            split; [exact Hi1|]. split.
            * intros c0 [Hc0 | Hc0].
              -- subst c0. rewrite He2. apply in_or_app. left. exact Hc2.
              -- apply Hcs. exact Hc0.
            * exists (e1 ++ e2). rewrite He2, He1, app_assoc. split; [reflexivity|].
              intros x Hx. apply in_app_or in Hx. destruct Hx as [Hx | Hx]; auto.
          + rewrite srt_fold_none in Hf. discriminate Hf. }
      destruct (fold_left (srt_step f sc (node :: temp)) (s_require (sget sc node)) (Some acc))
        as [[vis stack]|] eqn:Ef; [|discriminate Hv].
      injection Hv as Hv. subst acc'.
      destruct (Hfold _ _ _ Ef Hi) as [Hi1 [Hcs [ext [He Hn]]]].
      simpl in He, Hcs. simpl snd.
      assert (Hnot : ~ In node stack).
      { intros Hin. rewrite He in Hin. apply in_app_or in Hin. destruct Hin as [Hin | Hin].
        - destruct Hi as [I1 _]. apply I1 in Hin. apply srt_mem_true in Hin. congruence.
        - apply (Hn node Hin). left. reflexivity. }
      split; [apply srt_inv_push; assumption|].
      split; [apply in_or_app; right; left; reflexivity|].
      exists (ext ++ [node]). rewrite He, app_assoc. split; [reflexivity|].
      intros x Hx. apply in_app_or in Hx. destruct Hx as [Hx | [Hx | []]].
      * intros Ht. apply (Hn x Hx). right. exact Ht.
      * subst x. apply srt_mem_false. exact Et.
Qed.

(* totality under acyclicity *)
Lemma srt_visit_total : forall sc, require_acyclic sc = true ->
  forall fuel node temp acc,
    S (length sc) <= fuel + length temp -> NoDup temp ->
    (forall x, In x temp -> x < length sc) -> srt_path sc node temp ->
    topo_visit fuel sc node temp acc <> None.
Proof.
  intros sc Hac fuel. induction fuel as [|f IHf]; intros node temp acc Hfuel Hnd Hb Hp.
  - exfalso. assert (Hl := srt_bounded_nodup_length _ _ Hnd Hb). simpl in Hfuel. lia.
  - assert (Hl := srt_bounded_nodup_length _ _ Hnd Hb).
    rewrite srt_visit_S.
    destruct (mem node temp) eqn:Et.
    + exfalso. apply srt_mem_true in Et. assert (Hlt := Hb node Et).
      apply in_split in Et. destruct Et as [l1 [l2 Et]]. subst temp.
      apply srt_path_reach in Hp. rewrite app_length in Hl. simpl in Hl.
      apply (srt_acyclic_no_cycle sc (S (length l1)) node Hac); [lia | lia | exact Hlt | exact Hp].
    + destruct (mem node (fst acc)); [discriminate|].
      apply srt_mem_false in Et.
      assert (Hfold : forall cs acc0, (forall c, In c cs -> In c (s_require (sget sc node))) ->
                fold_left (srt_step f sc (node :: temp)) cs (Some acc0) <> None).
      { induction cs as [|c cs IHcs]; intros acc0 Hcs.
        - simpl. discriminate.
        - rewrite srt_fold_cons.
          assert (Hc : In c (s_require (sget sc node))) by (apply Hcs; left; reflexivity).
          destruct (topo_visit f sc c (node :: temp) acc0) as [acc2|] eqn:Ev.
          + apply IHcs. intros c0 Hc0. apply Hcs. right. exact Hc0.
          + exfalso. revert Ev. apply IHf.
            * simpl. lia.
            * constructor; assumption.
            * intros x [Hx | Hx]; [subst x; exact (srt_req_lt _ _ _ Hc) | apply Hb; exact Hx].
            * simpl. split; [exact Hc | exact Hp]. }
      specialize (Hfold (s_require (sget sc node)) acc (fun c H => H)).
      destruct (fold_left (srt_step f sc (node :: temp)) (s_require (sget sc node)) (Some acc))
        as [[vis stack]|]; [discriminate | congruence].
Qed.

(* ------------------------------------------------------------------ *)
(* topo_sort                                                           *)
(* ------------------------------------------------------------------ *)

Lemma srt_topo_sort_eq : forall sc order,
  topo_sort sc order =
  match fold_left (srt_step (S (length sc)) sc [])
          (filter (fun n => match s_require (sget sc n) with [] => false | _ => true end) order)
          (Some ([], [])) with
  | None => []
  | Some (_, stack) => stack
  end.
Proof. reflexivity. Qed.

Lemma srt_top_fold : forall sc, require_acyclic sc = true ->
  forall starts acc0, srt_inv sc acc0 ->
  exists acc1, fold_left (srt_step (S (length sc)) sc []) starts (Some acc0) = Some acc1 /\
    srt_inv sc acc1 /\ (forall n, In n starts -> In n (snd acc1)) /\
    (forall x, In x (snd acc0) -> In x (snd acc1)).
Proof.
  intros sc Hac starts. induction starts as [|n starts IH]; intros acc0 Hi0.
  - exists acc0. simpl. split; [reflexivity|]. split; [exact Hi0|].
    split; [intros n [] | intros x Hx; exact Hx].
  - rewrite srt_fold_cons.
    destruct (topo_visit (S (length sc)) sc n [] acc0) as [acc2|] eqn:Ev.
    + destruct (srt_visit_ok _ _ _ _ _ _ Ev Hi0) as [Hi2 [Hn2 [e1 [He1 _]]]].
      destruct (IH acc2 Hi2) as [acc1 [Hf [Hi1 [Hs Hm]]]].
      exists acc1. split; [exact Hf|]. split; [exact Hi1|]. split.
      * intros m [Hm0 | Hm0]; [subst m; apply Hm; exact Hn2 | apply Hs; exact Hm0].
      * intros x Hx. apply Hm. rewrite He1. apply in_or_app. left. exact Hx.
    + exfalso. revert Ev. apply (srt_visit_total sc Hac).
      * simpl. lia.
      * constructor.
      * intros x [].
      * exact I.
Qed.

Lemma srt_inv_init : forall sc, srt_inv sc ([], []).
Proof.
  intros sc. unfold srt_inv. simpl. split; [tauto|]. split; [constructor | intros a b []].
Qed.

Lemma srt_topo_sort_ok : forall sc order, require_acyclic sc = true ->
  NoDup (topo_sort sc order) /\
  (forall a b, In a (topo_sort sc order) -> In b (s_require (sget sc a)) ->
     0 < pos_in (topo_sort sc order) b /\
     pos_in (topo_sort sc order) b < pos_in (topo_sort sc order) a) /\
  (forall n, In n order -> s_require (sget sc n) <> [] -> In n (topo_sort sc order)).
Proof.
  intros sc order Hac. rewrite srt_topo_sort_eq.
  destruct (srt_top_fold sc Hac
              (filter (fun n => match s_require (sget sc n) with [] => false | _ => true end) order)
              ([], []) (srt_inv_init sc)) as [[vis stack] [Hf [[I1 [I2 I3]] [Hs _]]]].
  rewrite Hf. simpl in I2, I3, Hs. split; [exact I2|]. split; [exact I3|].
  intros n Hn Hr. apply Hs. apply filter_In. split; [exact Hn|].
  destruct (s_require (sget sc n)); [congruence | reflexivity].
Qed.

(* ------------------------------------------------------------------ *)
(* GOAL (e): Require order                                             *)
(* ------------------------------------------------------------------ *)

Definition req_after (sc : schema) (a b : nat) : bool :=
  mem b (s_require (sget sc a))
  && negb (mem a (rel_closure (length sc) (fun x => s_require (sget sc x)) [b]))
  && negb (mem a (s_after (sget sc b))).

Theorem order_respects_require_lemma : forall (sc : schema) (order l : list nat),
  require_acyclic sc = true ->
  (forall x, x < length sc -> In x order) ->
  order_violations (req_after sc) (sort_states sc (topo_sort sc order) l) = [].
Proof.
  intros sc order l Hac Hord. apply srt_ov_nil_iff. intros a b Hb.
  destruct (req_after sc a b) eqn:E; [exfalso | reflexivity].
  unfold req_after in E. apply andb_true_iff in E. destruct E as [E Haft].
  apply andb_true_iff in E. destruct E as [Hreq _].
  apply negb_true_iff in Haft. apply srt_mem_true in Hreq.
  unfold sort_states in Hb. apply srt_gis_before in Hb. destruct Hb as [Hb | Hb].
  - apply (srt_gis_key_sorted nat (less_topo (topo_sort sc order)) (pos_in (topo_sort sc order)))
      in Hb; [|intros x y; reflexivity].
    destruct (srt_topo_sort_ok sc order Hac) as [_ [H3 Hin]].
    assert (Ha : In a (topo_sort sc order)).
    { apply Hin.
      - apply Hord. exact (srt_req_lt _ _ _ Hreq).
      - intros Hnil. rewrite Hnil in Hreq. destruct Hreq. }
    destruct (H3 a b Ha Hreq) as [_ P2]. lia.
  - unfold less_after in Hb. destruct (mem b (s_after (sget sc a))); [discriminate Hb|].
    rewrite Haft in Hb. discriminate Hb.
Qed.


(* the same for every sublist (e.g. the handlers actually called) of the sorted list *)
Theorem order_respects_require_sublist_lemma : forall (sc : schema) (order l l' : list nat),
  require_acyclic sc = true ->
  (forall x, x < length sc -> In x order) ->
  srt_sublist l' (sort_states sc (topo_sort sc order) l) ->
  order_violations (req_after sc) l' = [].
Proof.
  intros sc order l l' Hac Hord Hs.
  apply (order_violations_sublist_lemma _ (sort_states sc (topo_sort sc order) l)); [|exact Hs].
  apply order_respects_require_lemma; assumption.
Qed.

Theorem order_respects_require_filter_lemma : forall (sc : schema) (order l : list nat) p,
  require_acyclic sc = true ->
  (forall x, x < length sc -> In x order) ->
  order_violations (req_after sc) (filter p (sort_states sc (topo_sort sc order) l)) = [].
Proof.
  intros sc order l p Hac Hord. apply order_violations_filter_lemma.
  apply order_respects_require_lemma; assumption.
Qed.


Definition srt_mk (req aft : list nat) : sdef :=
  {| s_auto := false; s_multi := false; s_require := req; s_add := [];
     s_remove := []; s_after := aft |}.

Example order_respects_require_nonvacuous :
  let sc := [srt_mk [] []; srt_mk [0] []; srt_mk [1] []] in
  let order := [0; 1; 2] in
  let l := [2; 0; 1] in
  require_acyclic sc = true /\
  (forall x, x < length sc -> In x order) /\
  topo_sort sc order = [0; 1; 2] /\
  sort_states sc (topo_sort sc order) l = [0; 1; 2] /\
  req_after sc 2 1 = true /\ req_after sc 1 0 = true /\
  order_violations (req_after sc) l <> [] /\
  order_violations (req_after sc) (sort_states sc (topo_sort sc order) l) = [].
Proof.
  cbv zeta. split; [vm_compute; reflexivity|]. split.
  - simpl. intros x Hx. destruct x as [|[|[|x]]]; [tauto | tauto | tauto | lia].
  - vm_compute. repeat split; try reflexivity. discriminate.
Qed.

(* ------------------------------------------------------------------ *)
(* GOAL (f): After order                                               *)
(* ------------------------------------------------------------------ *)

Definition aft_after (sc : schema) (a b : nat) : bool :=
  mem b (s_after (sget sc a))
  && negb (mem a (rel_closure (length sc) (fun x => s_after (sget sc x)) [b])).

(* intended (FALSE of the model and of the implementation: the stable
   insertion sort only compares neighbours, After is not transitive):

   Theorem order_respects_after : forall sc topo l,
     forallb (fun x => negb (mem x (rel_closure (length sc) (fun y => s_after (sget sc y))
                                                (s_after (sget sc x))))) (all_states sc) = true ->
     NoDup l ->
     order_violations (aft_after sc) (sort_states sc topo l) = [].              *)

Theorem order_respects_after_refuted_lemma :
  exists (sc : schema) (topo l : list nat),
    refs_ok sc = true /\
    forallb (fun x => negb (mem x (rel_closure (length sc) (fun y => s_after (sget sc y))
                                               (s_after (sget sc x))))) (all_states sc) = true /\
    NoDup l /\
    sort_states sc topo l = [0; 2; 1] /\
    (exists a b, srt_before (sort_states sc topo l) a b /\
                 mem b (s_after (sget sc a)) = true /\ aft_after sc a b = true) /\
    order_violations (aft_after sc) (sort_states sc topo l) = [(0, 1)].
Proof.
  exists [srt_mk [] [1]; srt_mk [] [2]; srt_mk [] []], [], [0; 2; 1].
  split; [vm_compute; reflexivity|]. split; [vm_compute; reflexivity|].
  split.
  { constructor; [simpl; intros [H | [H | []]]; discriminate H|].
    constructor; [simpl; intros [H | []]; discriminate H|].
    constructor; [intros []|]. constructor. }
  split; [vm_compute; reflexivity|]. split.
  - exists 0, 1. split; [|split; vm_compute; reflexivity].
    exists [], [2], []. vm_compute. reflexivity.
  - vm_compute. reflexivity.
Qed.


(* adjacent pairs of the Go insertion sort, any comparator: for a
   immediately before b in the output, either the comparator does not ask
   for b before a, or a was moved in front of b on the comparator's request
   (b preceded a in the input and less a b). *)

Fixpoint srt_chain {A} (R : A -> A -> Prop) (l : list A) : Prop :=
  match l with
  | a :: ((b :: _) as r) => R a b /\ srt_chain R r
  | _ => True
  end.

Lemma srt_chain_split : forall A (R : A -> A -> Prop) l1 a b l2,
  srt_chain R (l1 ++ a :: b :: l2) -> R a b.
Proof.
  intros A R l1. induction l1 as [|x l1 IH]; intros a b l2 H.
  - simpl in H. destruct H as [H _]. exact H.
  - apply (IH a b l2). destruct l1 as [|y l1]; simpl in H; destruct H as [_ H]; exact H.
Qed.

Lemma srt_chain_ins : forall A (less : A -> A -> bool) (L : list A) x rp,
  (forall q, In q rp -> srt_before L q x) ->
  srt_chain (fun v u => less v u = false \/ (less u v = true /\ srt_before L v u)) rp ->
  srt_chain (fun v u => less v u = false \/ (less u v = true /\ srt_before L v u)) (ins less x rp).
Proof.
  intros A less L x rp. induction rp as [|p r IH]; intros Hq Hc.
  - simpl. exact I.
  - assert (Hqr : forall q, In q r -> srt_before L q x) by (intros q Hin; apply Hq; right; exact Hin).
    assert (Hpx : srt_before L p x) by (apply Hq; left; reflexivity).
    simpl. destruct (less x p) eqn:E.
    + destruct r as [|q r'].
      * simpl. split; [|exact I]. right. split; [exact E | exact Hpx].
      * simpl in Hc. destruct Hc as [Hpq Hc]. specialize (IH Hqr Hc).
        simpl in IH. simpl. destruct (less x q) eqn:E2.
        -- split; [exact Hpq | exact IH].
        -- split; [|exact IH]. right. split; [exact E | exact Hpx].
    + split; [left; exact E | exact Hc].
Qed.

Lemma srt_gis_adjacent : forall A (less : A -> A -> bool) l l1 a b l2,
  go_insertion_sort less l = l1 ++ a :: b :: l2 ->
  less b a = false \/ (less a b = true /\ srt_before l b a).
Proof.
  intros A less l l1 a b l2 H. unfold go_insertion_sort in H.
  assert (Hrev : fold_left (fun acc x => ins less x acc) l [] = rev l2 ++ b :: a :: rev l1).
  { rewrite <- (rev_involutive (fold_left _ l [])), H, rev_app_distr. simpl.
    rewrite <- !app_assoc. reflexivity. }
  assert (Hfold : forall rest acc pre, l = pre ++ rest ->
            (forall q, In q acc -> In q pre) ->
            srt_chain (fun v u => less v u = false \/ (less u v = true /\ srt_before l v u)) acc ->
            srt_chain (fun v u => less v u = false \/ (less u v = true /\ srt_before l v u))
                      (fold_left (fun acc x => ins less x acc) rest acc)).
  { induction rest as [|x rest IH]; intros acc pre Hl Hin Hc.
    - simpl. exact Hc.
    - simpl. apply (IH (ins less x acc) (pre ++ [x])).
      + rewrite <- app_assoc. exact Hl.
      + intros q Hq. apply srt_In_ins in Hq. apply in_or_app.
        destruct Hq as [Hq | Hq]; [right; left; symmetry; exact Hq | left; apply Hin; exact Hq].
      + apply srt_chain_ins; [|exact Hc]. intros q Hq. apply Hin in Hq.
        apply in_split in Hq. destruct Hq as [p1 [p2 Hq]]. subst pre.
        exists p1, p2, rest. rewrite Hl, <- app_assoc. reflexivity. }
  specialize (Hfold l [] [] eq_refl (fun q (H0 : In q []) => H0) I).
  rewrite Hrev in Hfold. exact (srt_chain_split _ _ _ _ _ _ Hfold).
Qed.

(* for the After comparator: an adjacent pair is out of After order only when
   the two states are mutually After each other *)
Lemma srt_after_adjacent_mutual : forall (sc : schema) (l l1 l2 : list nat) (a b : nat),
  go_insertion_sort (less_after sc) l = l1 ++ a :: b :: l2 ->
  mem b (s_after (sget sc a)) = true -> mem a (s_after (sget sc b)) = true.
Proof.
  intros sc l l1 l2 a b H Hba. apply srt_gis_adjacent in H. unfold less_after in H.
  rewrite Hba in H. destruct (mem a (s_after (sget sc b))); [reflexivity|].
  destruct H as [H | [H _]]; discriminate H.
Qed.

(* strongest true variant: no After violation (as counted by C05, code 580)
   between two ADJACENT states of the sorted list, for any schema (cyclic or
   not), any topology and any input list *)
Theorem order_respects_after_adjacent_partial_lemma :
  forall (sc : schema) (topo l l1 l2 : list nat) (a b : nat),
    sort_states sc topo l = l1 ++ a :: b :: l2 -> aft_after sc a b = false.
Proof.
  intros sc topo l l1 l2 a b H. unfold sort_states in H.
  unfold aft_after. destruct (mem b (s_after (sget sc a))) eqn:Hba; [|reflexivity].
  assert (Hab := srt_after_adjacent_mutual _ _ _ _ _ _ H Hba).
  apply srt_mem_true in Hab. simpl. apply negb_false_iff. apply srt_mem_true.
  assert (Hlt := srt_aft_lt _ _ _ Hab).
  apply (srt_closure_reach _ (length sc) [b] 1 b a).
  - left. reflexivity.
  - exists a. split; [exact Hab | reflexivity].
  - lia.
Qed.


(* bridge to the boolean [adjacent_in] used by C05 (codes 580 / 581) *)
Lemma srt_pos_from_head : forall r b k, pos_in_from k r b = S k -> exists r', r = b :: r'.
Proof.
  intros r b k H. destruct r as [|z r]; simpl in H; [discriminate H|].
  destruct (Nat.eqb_spec b z) as [E | E].
  - subst z. exists r. reflexivity.
  - exfalso. destruct (in_dec Nat.eq_dec b r) as [Hin | Hin].
    + destruct (srt_pos_from_in r b (S k) Hin) as [P1 _]. lia.
    + rewrite srt_pos_from_notin in H by exact Hin. discriminate H.
Qed.

Lemma srt_adjacent_from_split : forall l a b k, In a l ->
  S (pos_in_from k l a) = pos_in_from k l b -> exists l1 l2, l = l1 ++ a :: b :: l2.
Proof.
  induction l as [|y r IH]; intros a b k Hin H; [destruct Hin|].
  simpl in H. destruct (Nat.eqb_spec a y) as [Ea | Ea].
  - subst y. destruct (Nat.eqb_spec b a) as [Eb | Eb]; [lia|].
    symmetry in H. apply srt_pos_from_head in H. destruct H as [r' Hr]. subst r.
    exists [], r'. reflexivity.
  - destruct Hin as [Hin | Hin]; [exfalso; apply Ea; symmetry; exact Hin|].
    destruct (srt_pos_from_in r a (S k) Hin) as [P1 _].
    destruct (Nat.eqb_spec b y) as [Eb | Eb]; [lia|].
    destruct (IH a b (S k) Hin H) as [l1 [l2 Hl]]. exists (y :: l1), l2. rewrite Hl. reflexivity.
Qed.

Lemma srt_adjacent_in_split : forall l a b, In a l -> adjacent_in l a b = true ->
  exists l1 l2, l = l1 ++ a :: b :: l2.
Proof.
  intros l a b Hin H. unfold adjacent_in in H. apply Nat.eqb_eq in H.
  exact (srt_adjacent_from_split l a b 0 Hin H).
Qed.

Theorem order_respects_after_adjacent_in_partial_lemma :
  forall (sc : schema) (topo l : list nat) (a b : nat),
    In a (sort_states sc topo l) ->
    adjacent_in (sort_states sc topo l) a b = true -> aft_after sc a b = false.
Proof.
  intros sc topo l a b Hin H. destruct (srt_adjacent_in_split _ _ _ Hin H) as [l1 [l2 Hl]].
  exact (order_respects_after_adjacent_partial_lemma sc topo l l1 l2 a b Hl).
Qed.


Example order_respects_after_adjacent_partial_nonvacuous :
  let sc := [srt_mk [] [1]; srt_mk [] [2]; srt_mk [] []] in
  sort_states sc [] [0; 1; 2] = [] ++ 1 :: 0 :: [2] /\
  aft_after sc 0 1 = true /\ aft_after sc 1 0 = false.
Proof. vm_compute. repeat split; reflexivity. Qed.

(* the mutual case really leaves an adjacent pair out of After order *)
Example srt_after_adjacent_mutual_witness :
  let sc := [srt_mk [] [1]; srt_mk [] [0]] in
  go_insertion_sort (less_after sc) [0; 1] = [0; 1] /\
  mem 1 (s_after (sget sc 0)) = true /\ aft_after sc 0 1 = false.
Proof. vm_compute. repeat split; reflexivity. Qed.



(* ------------------------------------------------------------------ *)
(* the states of one phase, in call order, follow the phase list       *)
(* ------------------------------------------------------------------ *)

Definition pst (same : hkey -> bool) (hs : list hlentry) : list nat :=
  flat_map (fun h => if same (hl_key h) then
                       match key_state (hl_key h) with Some s => [s] | None => [] end
                     else []) hs.

Lemma phase_states_pst : forall rank same hs, phase_states rank same hs = uniq (pst same hs).
Proof. reflexivity. Qed.

Lemma pst_app : forall same a b, pst same (a ++ b) = pst same a ++ pst same b.
Proof. intros same a b. unfold pst. apply flat_map_app. Qed.

Definition is_exit (k : hkey) : bool := match k with HExit _ => true | _ => false end.
Definition is_enter (k : hkey) : bool := match k with HEnter _ => true | _ => false end.
Definition is_end (k : hkey) : bool := match k with HEnd _ => true | _ => false end.
Definition is_state (k : hkey) : bool := match k with HState _ => true | _ => false end.

(* [blocks seq L]: seq is L with every element repeated some number of times
   (possibly zero), possibly cut short *)
Inductive blocks : list nat -> list nat -> Prop :=
| bl_nil : forall L, blocks [] L
| bl_skip : forall x seq L, blocks seq L -> blocks seq (x :: L)
| bl_rep : forall x seq L, blocks seq (x :: L) -> blocks (x :: seq) (x :: L).

Lemma srt_sublist_nil_l : forall (A : Type) (l : list A), srt_sublist [] l.
Proof. intros A l. induction l as [|x r IH]; [constructor | apply srt_sub_skip; exact IH]. Qed.

Lemma srt_sublist_drop_head : forall (x : nat) l L,
  srt_sublist l (x :: L) -> ~ In x l -> srt_sublist l L.
Proof.
  intros x l L H Hn. inversion H as [|y l' L' Hs|y l' L' Hs]; subst.
  - exact Hs.
  - exfalso. apply Hn. left. reflexivity.
Qed.

Lemma srt_sublist_trans : forall (A : Type) (a b c : list A),
  srt_sublist a b -> srt_sublist b c -> srt_sublist a c.
Proof.
  intros A a b c H1 H2. revert a H1. induction H2 as [|x b' c' H2 IH|x b' c' H2 IH]; intros a H1.
  - exact H1.
  - apply srt_sub_skip. apply IH. exact H1.
  - inversion H1 as [|y a' l' Hs|y a' l' Hs]; subst.
    + apply srt_sub_skip. apply IH. exact Hs.
    + apply srt_sub_keep. apply IH. exact Hs.
Qed.

Lemma blocks_uniq_acc : forall seq L, blocks seq L ->
  forall seen, srt_sublist (uniq_acc seen seq) L.
Proof.
  intros seq L H. induction H as [L|x seq L H IH|x seq L H IH]; intros seen.
  - apply srt_sublist_nil_l.
  - apply srt_sub_skip. apply IH.
  - cbn [uniq_acc]. destruct (mem x seen) eqn:E.
    + apply IH.
    + apply srt_sub_keep. apply (srt_sublist_drop_head x); [apply IH|].
      intros Hin. apply uniq_acc_In in Hin. destruct Hin as [_ Hn]. apply Hn. left. reflexivity.
Qed.

Lemma blocks_uniq : forall seq L, blocks seq L -> srt_sublist (uniq seq) L.
Proof. intros seq L H. apply blocks_uniq_acc. exact H. Qed.

Lemma blocks_repeat : forall x m seq L, blocks seq L -> blocks (repeat x m ++ seq) (x :: L).
Proof.
  intros x m seq L H. induction m as [|m IH].
  - cbn. apply bl_skip. exact H.
  - cbn. apply bl_rep. exact IH.
Qed.

Lemma pst_same_key_l : forall same k l, Forall (fun h => hl_key h = k) l ->
  pst same l = if same k then match key_state k with Some x => repeat x (length l) | None => [] end
               else [].
Proof.
  intros same k l H. induction H as [|h r Hh Hr IH].
  - destruct (same k); [destruct (key_state k)|]; reflexivity.
  - cbn [pst flat_map]. fold (pst same r). rewrite IH, Hh.
    destruct (same k); [destruct (key_state k)|]; reflexivity.
Qed.

Lemma pst_same_key : forall same k new, Forall (fun h => hl_key h = k) new ->
  pst same (rev new) = if same k then match key_state k with Some x => repeat x (length new)
                                     | None => [] end
                       else [].
Proof.
  intros same k new H. rewrite (pst_same_key_l same k (rev new)).
  - rewrite rev_length. reflexivity.
  - apply Forall_forall. intros h Hh. apply in_rev in Hh. rewrite Forall_forall in H. apply H. exact Hh.
Qed.

Lemma pst_all_same : forall same hs, Forall (fun h => same (hl_key h) = true) hs ->
  pst same hs = pst (fun _ => true) hs.
Proof.
  intros same hs H. induction H as [|h r Hh Hr IH]; [reflexivity|].
  cbn [pst flat_map]. fold (pst same r). fold (pst (fun _ => true) r). rewrite IH, Hh. reflexivity.
Qed.

Lemma Forall_rev_l : forall (A : Type) (P : A -> Prop) l, Forall P l -> Forall P (rev l).
Proof.
  intros A P l H. apply Forall_forall. intros x Hx. apply in_rev in Hx.
  rewrite Forall_forall in H. apply H. exact Hx.
Qed.

Lemma pst_rank_nil : forall same n hs,
  (forall k, same k = true -> phase_rank k = n) ->
  Forall (fun h => phase_rank (hl_key h) <> n) hs -> pst same hs = [].
Proof.
  intros same n hs Hs H. induction H as [|h r Hh Hr IH]; [reflexivity|].
  cbn [pst flat_map]. fold (pst same r). rewrite IH.
  destruct (same (hl_key h)) eqn:E; [|reflexivity].
  exfalso. apply Hh. apply Hs. exact E.
Qed.

(* ------------------------------------------------------------------ *)
(* fault-free scripts, frame relations                                 *)
(* ------------------------------------------------------------------ *)

Definition fault_free (acts : list haction) : Prop :=
  forallb (fun a => match ha_fault a with FNone => true | _ => false end) acts = true.

Lemma fault_free_tl : forall a, fault_free a -> fault_free (tl a).
Proof.
  intros [|x r] H; [exact H|]. unfold fault_free in *. simpl in H.
  apply andb_true_iff in H. simpl. tauto.
Qed.

Lemma fault_free_hd : forall a, fault_free a -> ha_fault (hd default_action a) = FNone.
Proof.
  intros [|x r] H; [reflexivity|]. unfold fault_free in H. simpl in H.
  apply andb_true_iff in H. destruct H as [H _]. simpl.
  destruct (ha_fault x); [reflexivity | discriminate | discriminate].
Qed.

Definition no_auto (q : list mutation) : Prop := Forall (fun m => mu_auto m = false) q.

(* the handler loop works: the script has no faults left, the loop is alive *)
Definition good (s : st) : Prop :=
  fault_free (actions s) /\ loop_dead s = false /\ hung s = false.

Definition keeps (s s' : st) : Prop :=
  sc s' = sc s /\ topo s' = topo s /\ health s' = health s /\ exc s' = exc s /\
  bindings s' = bindings s /\ qlimit s' = qlimit s /\ clock s' = clock s /\
  active s' = active s /\ loop_dead s' = loop_dead s /\ hung s' = hung s /\
  crashed s' = crashed s /\ txs s' = txs s.

Lemma keeps_refl : forall s, keeps s s.
Proof. intros s. unfold keeps. repeat split. Qed.

Lemma keeps_trans : forall a b c, keeps a b -> keeps b c -> keeps a c.
Proof.
  unfold keeps. intros a b c H1 H2.
  destruct H1 as (A1 & A2 & A3 & A4 & A5 & A6 & A7 & A8 & A9 & A10 & A11 & A12).
  destruct H2 as (B1 & B2 & B3 & B4 & B5 & B6 & B7 & B8 & B9 & B10 & B11 & B12).
  repeat split; congruence.
Qed.

Lemma keeps_sc : forall s s', keeps s s' -> sc s' = sc s. Proof. unfold keeps; tauto. Qed.
Lemma keeps_topo : forall s s', keeps s s' -> topo s' = topo s. Proof. unfold keeps; tauto. Qed.
Lemma keeps_health : forall s s', keeps s s' -> health s' = health s. Proof. unfold keeps; tauto. Qed.
Lemma keeps_exc : forall s s', keeps s s' -> exc s' = exc s. Proof. unfold keeps; tauto. Qed.
Lemma keeps_bindings : forall s s', keeps s s' -> bindings s' = bindings s. Proof. unfold keeps; tauto. Qed.
Lemma keeps_clock : forall s s', keeps s s' -> clock s' = clock s. Proof. unfold keeps; tauto. Qed.
Lemma keeps_active : forall s s', keeps s s' -> active s' = active s. Proof. unfold keeps; tauto. Qed.
Lemma keeps_loop : forall s s', keeps s s' -> loop_dead s' = loop_dead s. Proof. unfold keeps; tauto. Qed.
Lemma keeps_hung : forall s s', keeps s s' -> hung s' = hung s. Proof. unfold keeps; tauto. Qed.
Lemma keeps_crashed : forall s s', keeps s s' -> crashed s' = crashed s. Proof. unfold keeps; tauto. Qed.
Lemma keeps_txs : forall s s', keeps s s' -> txs s' = txs s. Proof. unfold keeps; tauto. Qed.

Lemma keeps_has_handlers : forall s s', keeps s s' -> has_handlers s' = has_handlers s.
Proof. intros s s' H. unfold has_handlers. rewrite (keeps_bindings _ _ H). reflexivity. Qed.

Lemma keeps_good : forall s s', keeps s s' -> good s -> fault_free (actions s') -> good s'.
Proof.
  intros s s' K (G1 & G2 & G3) F. unfold good.
  rewrite (keeps_loop _ _ K), (keeps_hung _ _ K). tauto.
Qed.

(* steps that touch the queue side only *)
Definition qonly (s s' : st) : Prop :=
  keeps s s' /\ actions s' = actions s /\ hlog s' = hlog s /\
  (no_auto (queue s) -> no_auto (queue s')).

Lemma qonly_refl : forall s, qonly s s.
Proof. intros s. unfold qonly. split; [apply keeps_refl|]. tauto. Qed.

Lemma qonly_trans : forall a b c, qonly a b -> qonly b c -> qonly a c.
Proof.
  unfold qonly. intros a b c (K1 & A1 & H1 & Q1) (K2 & A2 & H2 & Q2).
  split; [eapply keeps_trans; eassumption|].
  repeat split; try congruence. tauto.
Qed.

Lemma queue_mutation_qonly : forall s mt sts args s' tk,
  queue_mutation s mt sts args = (s', tk) -> qonly s s'.
Proof.
  intros s mt sts args s' tk H. unfold queue_mutation in H.
  destruct (negb _ && negb args && is_dup (queue s) mt (uniq sts)).
  - inversion H; subst. apply qonly_refl.
  - inversion H; subst. unfold qonly. split; [unfold keeps; repeat split|].
    repeat split. cbn. intros Hq. apply Forall_app. split; [exact Hq|].
    constructor; [reflexivity | constructor].
Qed.

Lemma prepend_mut_qonly : forall s mu, mu_auto mu = false -> qonly s (prepend_mut s mu).
Proof.
  intros s mu Hm. unfold qonly. split; [unfold keeps; repeat split|].
  repeat split. cbn. intros Hq. constructor; assumption.
Qed.

Lemma set_err_qonly : forall s d h e, d = loop_dead s -> h = hung s ->
  qonly s (set_fault_flags s d h e).
Proof.
  intros s d h e -> ->. unfold qonly. split; [unfold keeps; repeat split|].
  repeat split. cbn. tauto.
Qed.

Lemma nested_add_qonly : forall s sts args s' r, nested_add s sts args = (s', r) -> qonly s s'.
Proof.
  intros s sts args s' r H. unfold nested_add in H.
  destruct (limit_hit s && _).
  - inversion H; subst. apply qonly_refl.
  - destruct (queue_mutation s MAdd sts args) as [s1 tk] eqn:E.
    apply queue_mutation_qonly in E.
    destruct (tk =? 0)%N; inversion H; subst; exact E.
Qed.

Lemma nested_remove_qonly : forall s sts args s' r, nested_remove s sts args = (s', r) -> qonly s s'.
Proof.
  intros s sts args s' r H. unfold nested_remove in H.
  destruct (limit_hit s && _).
  - inversion H; subst. apply qonly_refl.
  - destruct (Nat.eqb (length (queue s)) 0 && _).
    + inversion H; subst. apply qonly_refl.
    + destruct (queue_mutation s MRemove sts args) as [s1 tk] eqn:E.
      apply queue_mutation_qonly in E.
      destruct (tk =? 0)%N; inversion H; subst; exact E.
Qed.

Lemma nested_set_qonly : forall s sts args s' r, nested_set s sts args = (s', r) -> qonly s s'.
Proof.
  intros s sts args s' r H. unfold nested_set in H.
  destruct (limit_hit s).
  - inversion H; subst. apply qonly_refl.
  - destruct (queue_mutation s MSet sts args) as [s1 tk] eqn:E.
    apply queue_mutation_qonly in E.
    destruct (tk =? 0)%N; inversion H; subst; exact E.
Qed.

Lemma nested_api_qonly : forall s c s' r, nested_api s c = (s', r) -> qonly s s'.
Proof.
  intros s c s' r H. unfold nested_api in H. destruct (ac_kind c).
  - eapply nested_add_qonly; eassumption.
  - eapply nested_remove_qonly; eassumption.
  - eapply nested_set_qonly; eassumption.
  - destruct (mach_is s (ac_states c)).
    + eapply nested_remove_qonly; eassumption.
    + eapply nested_add_qonly; eassumption.
  - destruct (limit_hit s).
    + inversion H; subst. apply qonly_refl.
    + eapply qonly_trans; [|eapply nested_add_qonly; eassumption].
      apply set_err_qonly; reflexivity.
  - inversion H; subst. apply prepend_mut_qonly. reflexivity.
  - inversion H; subst. apply prepend_mut_qonly. reflexivity.
Qed.

Lemma run_calls_qonly : forall cs s s' rs, run_calls s cs = (s', rs) -> qonly s s'.
Proof.
  induction cs as [|c r IH]; intros s s' rs H.
  - simpl in H. inversion H; subst. apply qonly_refl.
  - simpl in H. destruct (nested_api s c) as [s1 res] eqn:E1.
    destruct (run_calls s1 r) as [s2 rs2] eqn:E2.
    inversion H; subst.
    eapply qonly_trans; [eapply nested_api_qonly; eassumption | eapply IH; eassumption].
Qed.

(* ------------------------------------------------------------------ *)
(* one handler event (call_bindings / handle), fault-free              *)
(* ------------------------------------------------------------------ *)

Definition count_bind (new : list hlentry) (i : nat) : nat :=
  length (filter (fun h => Nat.eqb (hl_binding h) i) new).

Definition entry_at (k : hkey) (s : st) (h : hlentry) : Prop :=
  hl_key h = k /\ hl_active h = active s /\ hl_clock h = clock s.

Definition rettrue (h : hlentry) : Prop := hl_ret h = true.

(* [new] is newest first: a veto is the newest entry *)
Definition vshape (ok : bool) (new : list hlentry) : Prop :=
  (ok = true /\ Forall rettrue new) \/
  (ok = false /\ exists e rest, new = e :: rest /\ hl_ret e = false /\ Forall rettrue rest).

Definition defines (bs : list (list hkey)) (i : nat) (k : hkey) : bool :=
  existsb (hkey_eqb k) (nth i bs []).

Lemma defines_nil : forall i k, defines [] i k = false.
Proof. intros i k. unfold defines. destruct i; reflexivity. Qed.

Lemma defines_shift : forall b rest bi i k,
  ((bi <=? i) && defines (b :: rest) (i - bi) k) =
  ((bi =? i) && existsb (hkey_eqb k) b) || ((S bi <=? i) && defines rest (i - S bi) k).
Proof.
  intros b rest bi i k. unfold defines.
  destruct (Nat.eq_dec bi i) as [->|Hne].
  - rewrite Nat.leb_refl, Nat.eqb_refl, Nat.sub_diag.
    replace (S i <=? i) with false by (symmetry; apply Nat.leb_gt; lia).
    simpl. rewrite orb_false_r. reflexivity.
  - replace (bi =? i) with false by (symmetry; apply Nat.eqb_neq; exact Hne).
    rewrite andb_false_l, orb_false_l. destruct (Nat.leb_spec bi i) as [Hle|Hgt].
    + replace (S bi <=? i) with true by (symmetry; apply Nat.leb_le; lia).
      replace (i - bi) with (S (i - S bi)) by lia. reflexivity.
    + replace (S bi <=? i) with false by (symmetry; apply Nat.leb_gt; lia).
      reflexivity.
Qed.

Lemma count_bind_app : forall a b i, count_bind (a ++ b) i = count_bind a i + count_bind b i.
Proof. intros a b i. unfold count_bind. rewrite filter_app, app_length. reflexivity. Qed.

Lemma call_bindings_ff : forall bs s t k bi s' r,
  good s ->
  call_bindings s t k bs bi false false = (s', r) ->
  keeps s s' /\ fault_free (actions s') /\ (no_auto (queue s) -> no_auto (queue s')) /\
  hr_invalidated r = false /\
  exists new, hlog s' = new ++ hlog s /\
    Forall (entry_at k s) new /\
    (is_final_key k = true -> hr_ok r = true) /\
    (hr_ok r = true ->
       forall i, count_bind new i = if (bi <=? i) && defines bs (i - bi) k then 1 else 0) /\
    (is_final_key k = false -> vshape (hr_ok r) new).
Proof.
  induction bs as [|b rest IH]; intros s t k bi s' r G H.
  - simpl in H. inversion H; subst. destruct G as (G1 & G2 & G3).
    split; [apply keeps_refl|]. split; [exact G1|]. split; [tauto|]. split; [reflexivity|].
    exists []. split; [reflexivity|]. split; [constructor|]. split; [|split].
    + intros _. reflexivity.
    + intros _ i. rewrite defines_nil, andb_false_r. reflexivity.
    + intros _. left. split; [reflexivity | constructor].
  - cbn [call_bindings] in H. destruct (existsb (hkey_eqb k) b) eqn:Eb.
    + destruct G as (G1 & G2 & G3). rewrite G2 in H. cbv beta iota zeta in H.
      destruct (run_calls (set_actions s (tl (actions s)))
                          (ha_calls (hd default_action (actions s)))) as [s1 rs] eqn:ER.
      rewrite (fault_free_hd _ G1) in H.
      apply run_calls_qonly in ER. destruct ER as (K1 & A1 & L1 & Q1).
      set (e := {| hl_key := k; hl_binding := bi;
                   hl_active := active (set_actions s (tl (actions s)));
                   hl_clock := clock (set_actions s (tl (actions s)));
                   hl_results := rs; hl_ret := ha_ret (hd default_action (actions s)) |}) in *.
      set (s2 := set_hlog s1 (e :: hlog s1)) in *.
      assert (K2 : keeps s s2).
      { eapply keeps_trans; [|eapply keeps_trans; [exact K1|]].
        - unfold keeps; repeat split.
        - unfold keeps; repeat split. }
      assert (A2 : actions s2 = tl (actions s)) by (cbn; rewrite A1; reflexivity).
      assert (L2 : hlog s2 = e :: hlog s) by (cbn; rewrite L1; reflexivity).
      assert (Q2 : no_auto (queue s) -> no_auto (queue s2)) by (cbn; exact Q1).
      assert (F2 : fault_free (actions s2)) by (rewrite A2; apply fault_free_tl; exact G1).
      assert (Ee : entry_at k s e) by (unfold entry_at; cbn; tauto).
      destruct (negb (is_final_key k) && negb (ha_ret (hd default_action (actions s)))) eqn:Ev.
      * inversion H; subst s' r. apply andb_true_iff in Ev. destruct Ev as [Ev1 Ev2].
        apply negb_true_iff in Ev1. apply negb_true_iff in Ev2.
        split; [exact K2|]. split; [exact F2|]. split; [exact Q2|]. split; [reflexivity|].
        exists [e]. split; [exact L2|]. split; [constructor; [exact Ee | constructor]|].
        split; [|split].
        -- intros Hf. congruence.
        -- cbn. intros Hx. discriminate.
        -- intros _. right. split; [reflexivity|]. exists e, []. split; [reflexivity|].
           split; [exact Ev2 | constructor].
      * assert (G' : good s2).
        { apply (keeps_good s s2 K2); [unfold good; tauto | exact F2]. }
        destruct (IH s2 t k (S bi) s' r G' H) as (K3 & F3 & Q3 & I3 & newr & L3 & E3 & C3a & C3 & V3).
        split; [eapply keeps_trans; eassumption|]. split; [exact F3|]. split; [tauto|].
        split; [exact I3|].
        exists (newr ++ [e]). split; [rewrite L3, L2, <- app_assoc; reflexivity|]. split.
        { apply Forall_app. split; [|constructor; [exact Ee | constructor]].
          eapply Forall_impl; [|exact E3]. intros h (Y1 & Y2 & Y3). unfold entry_at.
          rewrite <- (keeps_active _ _ K2), <- (keeps_clock _ _ K2). tauto. }
        split; [exact C3a|]. split.
        -- intros Hok. pose proof (C3 Hok) as Hc.
           intros i. rewrite count_bind_app, Hc, defines_shift, Eb.
           unfold count_bind. cbn [filter hl_binding e].
           destruct (bi =? i) eqn:Ebi.
           ++ apply Nat.eqb_eq in Ebi. subst i.
              replace (S bi <=? bi) with false by (symmetry; apply Nat.leb_gt; lia).
              reflexivity.
           ++ rewrite andb_false_l, orb_false_l. cbn [length]. apply Nat.add_0_r.
        -- intros Hf. rewrite Hf in Ev. cbn in Ev. apply negb_false_iff in Ev.
           destruct (V3 Hf) as [[Hok Hall]|[Hok (e' & rest' & Hn & Hr & Hall)]].
           ++ left. split; [exact Hok|]. apply Forall_app. split; [exact Hall|].
              constructor; [exact Ev | constructor].
           ++ right. split; [exact Hok|]. exists e', (rest' ++ [e]). subst newr.
              split; [reflexivity|]. split; [exact Hr|].
              apply Forall_app. split; [exact Hall|]. constructor; [exact Ev | constructor].
    + destruct (IH s t k (S bi) s' r G H) as (K3 & F3 & Q3 & I3 & newr & L3 & E3 & C3a & C3 & V3).
      split; [exact K3|]. split; [exact F3|]. split; [exact Q3|]. split; [exact I3|].
      exists newr. split; [exact L3|]. split; [exact E3|]. split; [exact C3a|]. split; [|exact V3].
      intros Hok. pose proof (C3 Hok) as Hc.
      intros i. rewrite Hc, defines_shift, Eb, andb_false_r. reflexivity.
Qed.

Lemma handle_ff : forall s t k s' t' ok,
  good s -> t_invalid t = false -> handle s t k = (s', t', ok) ->
  t' = t /\ keeps s s' /\ good s' /\ (no_auto (queue s) -> no_auto (queue s')) /\
  exists new, hlog s' = new ++ hlog s /\ Forall (entry_at k s) new /\
    (is_final_key k = true -> ok = true /\
       forall i, count_bind new i = if defines (bindings s) i k then 1 else 0) /\
    (is_final_key k = false -> vshape ok new) /\
    (ok = true -> forall i, count_bind new i = if defines (bindings s) i k then 1 else 0).
Proof.
  intros s t k s' t' ok G Hinv H. unfold handle in H. rewrite Hinv in H.
  destruct (call_bindings s t k (bindings s) 0 false false) as [s1 r] eqn:E.
  destruct (call_bindings_ff _ _ _ _ _ _ _ G E) as (K & F & Q & I & new & L & En & Ca & C & V).
  rewrite I in H. inversion H; subst s' t' ok.
  split; [reflexivity|]. split; [exact K|]. split; [eapply keeps_good; eassumption|].
  split; [exact Q|]. exists new. split; [exact L|]. split; [exact En|].
  assert (Cn : hr_ok r = true -> forall i, count_bind new i = if defines (bindings s) i k then 1 else 0).
  { intros Hok i. rewrite (C Hok). rewrite Nat.sub_0_r. reflexivity. }
  split; [|split; [exact V | exact Cn]].
  intros Hf. split; [exact (Ca Hf) | exact (Cn (Ca Hf))].
Qed.

(* ------------------------------------------------------------------ *)
(* negotiation phases                                                  *)
(* ------------------------------------------------------------------ *)

Definition tkeeps (t t' : tstate) : Prop :=
  t_mut t' = t_mut t /\ t_before t' = t_before t /\ t_clock_before t' = t_clock_before t /\
  t_enters t' = t_enters t /\ t_exits t' = t_exits t /\ t_accepted t' = t_accepted t /\
  t_invalid t' = t_invalid t /\ incl (t_target t') (t_target t).

Lemma tkeeps_refl : forall t, tkeeps t t.
Proof. intros t. unfold tkeeps. repeat split. apply incl_refl. Qed.

Lemma tkeeps_trans : forall a b c, tkeeps a b -> tkeeps b c -> tkeeps a c.
Proof.
  unfold tkeeps. intros a b c (A1 & A2 & A3 & A4 & A5 & A6 & A7 & A8)
    (B1 & B2 & B3 & B4 & B5 & B6 & B7 & B8).
  repeat split; try congruence. eapply incl_tran; eassumption.
Qed.

Lemma without_incl : forall l x, incl (without l x) l.
Proof.
  induction l as [|y r IH]; intros x; simpl; [apply incl_refl|].
  destruct (Nat.eqb x y).
  - apply incl_tl. apply incl_refl.
  - intros z [Hz|Hz]; [left; exact Hz | right; eapply IH; exact Hz].
Qed.

Lemma tkeeps_delete : forall t x, tkeeps t (with_target t (delete_state (t_target t) x)).
Proof. intros t x. unfold tkeeps. repeat split. cbn. apply without_incl. Qed.

Lemma tkeeps_mut : forall t t', tkeeps t t' -> t_mut t' = t_mut t. Proof. unfold tkeeps; tauto. Qed.
Lemma tkeeps_invalid : forall t t', tkeeps t t' -> t_invalid t' = t_invalid t. Proof. unfold tkeeps; tauto. Qed.

(* snapshot seen by a handler *)
Definition negent (s : st) (h : hlentry) : Prop :=
  hl_active h = active s /\ hl_clock h = clock s.

Definition nbase (lo hi : nat) (s : st) (t : tstate) (s' : st) (t' : tstate)
  (new : list hlentry) : Prop :=
  keeps s s' /\ good s' /\ (no_auto (queue s) -> no_auto (queue s')) /\ tkeeps t t' /\
  hlog s' = new ++ hlog s /\ Forall (negent s) new /\ bounded lo hi (map rk (rev new)).

Definition nshape (nr : nres) (new : list hlentry) : Prop :=
  (nr = NOk /\ Forall rettrue new) \/
  (nr = NCancel /\ exists e rest, new = e :: rest /\ hl_ret e = false /\ Forall rettrue rest).

(* [last]: the Go variable `ret` of emitSelfEvents on entry *)
Definition nspecL (last : bool) (lo hi : nat) (s : st) (t : tstate) (s' : st) (t' : tstate)
  (nr : nres) : Prop :=
  exists new, nbase lo hi s t s' t' new /\
    (last = true -> Forall rettrue new -> nr = NOk /\ t_target t' = t_target t) /\
    (last = true -> mu_auto (t_mut t) = false -> t_target t' = t_target t /\ nshape nr new).

Definition nspec := nspecL true.

Lemma nbase_refl : forall lo hi s t, good s -> nbase lo hi s t s t [].
Proof.
  intros lo hi s t G. unfold nbase. split; [apply keeps_refl|]. split; [exact G|].
  split; [tauto|]. split; [apply tkeeps_refl|]. split; [reflexivity|].
  split; [constructor | apply bounded_nil].
Qed.

Lemma nbase_seq : forall a b c d s t s1 t1 s2 t2 n1 n2,
  nbase a b s t s1 t1 n1 -> nbase c d s1 t1 s2 t2 n2 -> b <= c -> a <= c -> b <= d ->
  nbase a d s t s2 t2 (n2 ++ n1).
Proof.
  intros a b c d s t s1 t1 s2 t2 n1 n2 (K1 & G1 & Q1 & T1 & L1 & E1 & B1)
    (K2 & G2 & Q2 & T2 & L2 & E2 & B2) Hbc Hac Hbd.
  unfold nbase. split; [eapply keeps_trans; eassumption|]. split; [exact G2|].
  split; [tauto|]. split; [eapply tkeeps_trans; eassumption|].
  split; [rewrite L2, L1, app_assoc; reflexivity|]. split.
  - apply Forall_app. split; [|exact E1].
    eapply Forall_impl; [|exact E2]. intros h [Y1 Y2]. unfold negent.
    rewrite <- (keeps_active _ _ K1), <- (keeps_clock _ _ K1). tauto.
  - rewrite rev_app_distr, map_app. eapply bounded_app; eassumption.
Qed.

Lemma nbase_retarget : forall a b s t s1 t1 t2 n1,
  nbase a b s t s1 t1 n1 -> tkeeps t1 t2 -> nbase a b s t s1 t2 n1.
Proof.
  intros a b s t s1 t1 t2 n1 (K1 & G1 & Q1 & T1 & L1 & E1 & B1) T2.
  unfold nbase. split; [exact K1|]. split; [exact G1|]. split; [exact Q1|].
  split; [eapply tkeeps_trans; eassumption|]. tauto.
Qed.

Lemma nbase_weaken : forall a b c d s t s1 t1 n1,
  nbase a b s t s1 t1 n1 -> c <= a -> b <= d -> nbase c d s t s1 t1 n1.
Proof.
  intros a b c d s t s1 t1 n1 (K1 & G1 & Q1 & T1 & L1 & E1 & B1) H1 H2.
  unfold nbase. split; [exact K1|]. split; [exact G1|]. split; [exact Q1|].
  split; [exact T1|]. split; [exact L1|]. split; [exact E1|].
  eapply bounded_weaken; eassumption.
Qed.

Lemma nspec_refl : forall last lo hi s t, good s -> nspecL last lo hi s t s t NOk.
Proof.
  intros last lo hi s t G. exists []. split; [apply nbase_refl; exact G|]. split.
  - intros _ _. split; reflexivity.
  - intros _ _. split; [reflexivity|]. left. split; [reflexivity | constructor].
Qed.

Lemma nspec_weaken : forall last a b c d s t s1 t1 nr,
  nspecL last a b s t s1 t1 nr -> c <= a -> b <= d -> nspecL last c d s t s1 t1 nr.
Proof.
  intros last a b c d s t s1 t1 nr (new & B & A & V) H1 H2. exists new.
  split; [eapply nbase_weaken; eassumption|]. tauto.
Qed.

Lemma nspec_seq : forall last a b c d s t s1 t1 s2 t2 nr,
  nspec a b s t s1 t1 NOk -> nspecL last c d s1 t1 s2 t2 nr -> b <= c -> a <= c -> b <= d ->
  nspecL last a d s t s2 t2 nr.
Proof.
  intros last a b c d s t s1 t1 s2 t2 nr (n1 & B1 & A1 & V1) (n2 & B2 & A2 & V2) Hbc Hac Hbd.
  exists (n2 ++ n1). split; [eapply nbase_seq; eassumption|]. split.
  - intros Hl Hall. apply Forall_app in Hall. destruct Hall as [Hall2 Hall1].
    destruct (A1 eq_refl Hall1) as [_ Ht1]. destruct (A2 Hl Hall2) as [Hnr Ht2].
    split; [exact Hnr | congruence].
  - intros Hl Hm. destruct (V1 eq_refl Hm) as [Ht1 Hs1].
    assert (Hm1 : mu_auto (t_mut t1) = false).
    { destruct B1 as (_ & _ & _ & T1 & _). rewrite (tkeeps_mut _ _ T1). exact Hm. }
    destruct (V2 Hl Hm1) as [Ht2 Hs2]. split; [congruence|].
    assert (Hall1 : Forall rettrue n1).
    { destruct Hs1 as [[_ H]|[H _]]; [exact H | discriminate]. }
    destruct Hs2 as [[Hnr Hall2]|[Hnr (e & rest & Hn & Hr & Hall2)]].
    + left. split; [exact Hnr|]. apply Forall_app. tauto.
    + right. split; [exact Hnr|]. exists e, (rest ++ n1). subst n2.
      split; [reflexivity|]. split; [exact Hr|]. apply Forall_app. tauto.
Qed.

Lemma vshape_false_not_all : forall new, vshape false new -> ~ Forall rettrue new.
Proof.
  intros new [[H _]|[_ (e & rest & -> & Hr & _)]] Hall; [discriminate|].
  inversion Hall; subst. unfold rettrue in *. congruence.
Qed.

(* a veto inside an auto transition: whatever follows, the conditional clauses
   are vacuous *)
Lemma nspec_veto_seq : forall l l2 a b c d s t s1 t1 s2 t2 n1 nr,
  nbase a b s t s1 t1 n1 -> ~ Forall rettrue n1 -> mu_auto (t_mut t) = true ->
  nspecL l2 c d s1 t1 s2 t2 nr -> b <= c -> a <= c -> b <= d ->
  nspecL l a d s t s2 t2 nr.
Proof.
  intros l l2 a b c d s t s1 t1 s2 t2 n1 nr B1 Hv Hm (n2 & B2 & _ & _) Hbc Hac Hbd.
  exists (n2 ++ n1). split; [eapply nbase_seq; eassumption|]. split.
  - intros _ Hall. apply Forall_app in Hall. tauto.
  - intros _ Hm'. congruence.
Qed.

Lemma nspec_veto_end_auto : forall l a b s t s1 t1 n1 nr,
  nbase a b s t s1 t1 n1 -> ~ Forall rettrue n1 -> mu_auto (t_mut t) = true ->
  nspecL l a b s t s1 t1 nr.
Proof.
  intros l a b s t s1 t1 n1 nr B1 Hv Hm. exists n1. split; [exact B1|]. split.
  - intros _ Hall. tauto.
  - intros _ Hm'. congruence.
Qed.

Lemma nspec_veto_end : forall l a b s t s1 n1,
  nbase a b s t s1 t n1 -> vshape false n1 -> nspecL l a b s t s1 t NCancel.
Proof.
  intros l a b s t s1 n1 B1 Hv. exists n1. split; [exact B1|]. split.
  - intros _ Hall. exfalso. eapply vshape_false_not_all; eassumption.
  - intros _ _. split; [reflexivity|]. right. split; [reflexivity|].
    destruct Hv as [[H _]|[_ H]]; [discriminate | exact H].
Qed.

Lemma handle_nbase : forall s t k s1 t1 ok n,
  good s -> t_invalid t = false -> handle s t k = (s1, t1, ok) -> phase_rank k = n ->
  t1 = t /\ hung s1 = false /\
  exists new, nbase n n s t s1 t new /\
    (is_final_key k = true -> ok = true /\
       forall i, count_bind new i = if defines (bindings s) i k then 1 else 0) /\
    (is_final_key k = false -> vshape ok new) /\
    Forall (fun h => hl_key h = k) new.
Proof.
  intros s t k s1 t1 ok n G Hinv H Hn.
  destruct (handle_ff _ _ _ _ _ _ G Hinv H) as (Ht & K & G1 & Q & new & L & En & C & V & _).
  split; [exact Ht|]. split; [apply G1|]. exists new. split; [|split; [exact C|split; [exact V|]]].
  - unfold nbase. split; [exact K|]. split; [exact G1|]. split; [exact Q|].
    split; [apply tkeeps_refl|]. split; [exact L|]. split.
    + eapply Forall_impl; [|exact En]. intros h (Y1 & Y2 & Y3). split; assumption.
    + apply bounded_const. apply Forall_forall. intros x Hx.
      apply in_map_iff in Hx. destruct Hx as (h & <- & Hh). apply in_rev in Hh.
      rewrite Forall_forall in En. destruct (En h Hh) as (Y1 & _). unfold rk. rewrite Y1. exact Hn.
  - eapply Forall_impl; [|exact En]. intros h (Y1 & _). exact Y1.
Qed.

(* the common shape of one negotiation step: handle, then continue / veto *)
Lemma nspec_step_ok : forall last n s t s1 s2 t2 nr new,
  nbase n n s t s1 t new -> vshape true new ->
  nspecL last n n s1 t s2 t2 nr -> nspecL last n n s t s2 t2 nr.
Proof.
  intros last n s t s1 s2 t2 nr new B V R.
  eapply (nspec_seq last n n n n); [|exact R|lia|lia|lia].
  destruct V as [[_ Hall]|[H _]]; [|discriminate].
  exists new. split; [exact B|]. split.
  - intros _ _. split; reflexivity.
  - intros _ _. split; [reflexivity|]. left. split; [reflexivity | exact Hall].
Qed.

Lemma emit_exits_ff : forall l s t s' t' nr,
  good s -> t_invalid t = false -> emit_exits s t l = (s', t', nr) ->
  nspec 0 0 s t s' t' nr.
Proof.
  induction l as [|x r IH]; intros s t s' t' nr G Hinv H.
  - simpl in H. inversion H; subst. apply nspec_refl. exact G.
  - cbn [emit_exits] in H. destruct (handle s t (HExit x)) as [[s1 t1] ok] eqn:Eh.
    destruct (handle_nbase _ _ _ _ _ _ 0 G Hinv Eh eq_refl) as (-> & Hh & new & B & _ & V & _).
    specialize (V eq_refl). rewrite Hh in H.
    assert (G1 : good s1) by apply B.
    destruct ok.
    + eapply nspec_step_ok; [exact B | exact V | eapply IH; eassumption].
    + destruct (mu_auto (t_mut t) && is_auto_state s x) eqn:Ea.
      * apply andb_true_iff in Ea. destruct Ea as [Ea _].
        destruct (mem x (t_target t)).
        -- eapply (nspec_veto_seq true true 0 0 0 0).
           ++ eapply nbase_retarget; [exact B | apply (tkeeps_delete t x)].
           ++ apply vshape_false_not_all. exact V.
           ++ exact Ea.
           ++ eapply IH; [exact G1 | exact Hinv | exact H].
           ++ lia. ++ lia. ++ lia.
        -- inversion H; subst. eapply nspec_veto_end; eassumption.
      * inversion H; subst. eapply nspec_veto_end; eassumption.
Qed.

Lemma emit_enters_ff : forall l s t s' t' nr,
  good s -> t_invalid t = false -> emit_enters s t l = (s', t', nr) ->
  nspec 1 1 s t s' t' nr.
Proof.
  induction l as [|x r IH]; intros s t s' t' nr G Hinv H.
  - simpl in H. inversion H; subst. apply nspec_refl. exact G.
  - cbn [emit_enters] in H. destruct (handle s t (HEnter x)) as [[s1 t1] ok] eqn:Eh.
    destruct (handle_nbase _ _ _ _ _ _ 1 G Hinv Eh eq_refl) as (-> & Hh & new & B & _ & V & _).
    specialize (V eq_refl). rewrite Hh in H.
    assert (G1 : good s1) by apply B.
    destruct ok.
    + eapply nspec_step_ok; [exact B | exact V | eapply IH; eassumption].
    + destruct (mu_auto (t_mut t) && is_auto_state s x) eqn:Ea.
      * apply andb_true_iff in Ea. destruct Ea as [Ea _].
        destruct (mem x (t_target t)).
        -- eapply (nspec_veto_seq true true 1 1 1 1).
           ++ eapply nbase_retarget; [exact B | apply (tkeeps_delete t x)].
           ++ apply vshape_false_not_all. exact V.
           ++ exact Ea.
           ++ eapply IH; [exact G1 | exact Hinv | exact H].
           ++ lia. ++ lia. ++ lia.
        -- inversion H; subst. eapply nspec_veto_end_auto; [exact B | | exact Ea].
           apply vshape_false_not_all. exact V.
      * inversion H; subst. eapply nspec_veto_end; eassumption.
Qed.

Lemma emit_selfs_ff : forall fuel s t arr i last s' t' nr,
  good s -> t_invalid t = false -> emit_selfs fuel s t arr i last = (s', t', nr) ->
  nspecL last 2 2 s t s' t' nr.
Proof.
  induction fuel as [|f IH]; intros s t arr i last s' t' nr G Hinv H.
  - simpl in H. inversion H; subst. exists []. split; [apply nbase_refl; exact G|]. split.
    + intros -> _. split; reflexivity.
    + intros -> _. split; [reflexivity|]. left. split; [reflexivity | constructor].
  - cbn [emit_selfs] in H. destruct (nth_error arr i) as [[x|]|].
    + destruct (negb (is_active s x)).
      * eapply IH; eassumption.
      * destruct (handle s t (HSelf x)) as [[s1 t1] ok] eqn:Eh.
        destruct (handle_nbase _ _ _ _ _ _ 2 G Hinv Eh eq_refl) as (-> & Hh & new & B & _ & V & _).
        specialize (V eq_refl). rewrite Hh in H.
        assert (G1 : good s1) by apply B.
        destruct ok.
        -- apply IH in H; [|exact G1|exact Hinv].
           destruct V as [[_ Hall]|[Hx _]]; [|discriminate].
           eapply (nspec_seq true 2 2 2 2) in H; [| |lia|lia|lia].
           ++ destruct H as (n2 & B2 & A2 & V2). exists n2. split; [exact B2|]. tauto.
           ++ exists new. split; [exact B|]. split.
              ** intros _ _. split; reflexivity.
              ** intros _ _. split; [reflexivity|]. left. split; [reflexivity | exact Hall].
        -- destruct (mu_auto (t_mut t) && is_auto_state s x) eqn:Ea.
           ++ apply andb_true_iff in Ea. destruct Ea as [Ea _].
              destruct (mem x (t_target t)).
              ** eapply (nspec_veto_seq last false 2 2 2 2).
                 --- eapply nbase_retarget; [exact B | apply (tkeeps_delete t x)].
                 --- apply vshape_false_not_all. exact V.
                 --- exact Ea.
                 --- eapply IH; [exact G1 | exact Hinv | exact H].
                 --- lia. --- lia. --- lia.
              ** inversion H; subst. eapply nspec_veto_end_auto; [exact B | | exact Ea].
                 apply vshape_false_not_all. exact V.
           ++ inversion H; subst. eapply nspec_veto_end; eassumption.
    + eapply IH; eassumption.
    + inversion H; subst. exists []. split; [apply nbase_refl; exact G|]. split.
      * intros -> _. split; reflexivity.
      * intros -> _. split; [reflexivity|]. left. split; [reflexivity | constructor].
Qed.

Lemma emit_trans_inner_ff : forall after s t b s' t' nr,
  good s -> t_invalid t = false -> emit_trans_inner s t b after = (s', t', nr) ->
  nspec 2 2 s t s' t' nr.
Proof.
  induction after as [|a r IH]; intros s t b s' t' nr G Hinv H.
  - simpl in H. inversion H; subst. apply nspec_refl. exact G.
  - cbn [emit_trans_inner] in H. destruct (Nat.eqb b a).
    + eapply IH; eassumption.
    + destruct (handle s t (HTrans b a)) as [[s1 t1] ok] eqn:Eh.
      destruct (handle_nbase _ _ _ _ _ _ 2 G Hinv Eh eq_refl) as (-> & Hh & new & B & _ & V & _).
      specialize (V eq_refl). rewrite Hh in H.
      assert (G1 : good s1) by apply B.
      destruct ok.
      * eapply nspec_step_ok; [exact B | exact V | eapply IH; eassumption].
      * destruct (mu_auto (t_mut t) && is_auto_state s a) eqn:Ea.
        -- apply andb_true_iff in Ea. destruct Ea as [Ea _].
           eapply (nspec_veto_seq true true 2 2 2 2).
           ++ eapply nbase_retarget; [exact B | apply (tkeeps_delete t a)].
           ++ apply vshape_false_not_all. exact V.
           ++ exact Ea.
           ++ eapply IH; [exact G1 | exact Hinv | exact H].
           ++ lia. ++ lia. ++ lia.
        -- inversion H; subst. eapply nspec_veto_end; eassumption.
Qed.

Lemma nspec_inv : forall last a b s t s' t' nr,
  nspecL last a b s t s' t' nr -> good s' /\ t_invalid t' = t_invalid t.
Proof.
  intros last a b s t s' t' nr (new & B & _). destruct B as (_ & G & _ & T & _).
  split; [exact G | apply (tkeeps_invalid _ _ T)].
Qed.

Lemma emit_trans_ff : forall before after s t s' t' nr,
  good s -> t_invalid t = false -> emit_trans s t before after = (s', t', nr) ->
  nspec 2 2 s t s' t' nr.
Proof.
  induction before as [|b r IH]; intros after s t s' t' nr G Hinv H.
  - simpl in H. inversion H; subst. apply nspec_refl. exact G.
  - cbn [emit_trans] in H.
    destruct (emit_trans_inner s t b after) as [[s1 t1] nr1] eqn:Ei.
    apply emit_trans_inner_ff in Ei; [|exact G|exact Hinv].
    destruct (nspec_inv _ _ _ _ _ _ _ _ Ei) as [G1 Hinv1]. rewrite Hinv in Hinv1.
    destruct nr1.
    + eapply (nspec_seq true 2 2 2 2); [exact Ei | eapply IH; eassumption | lia | lia | lia].
    + inversion H; subst. exact Ei.
    + inversion H; subst. exact Ei.
Qed.

(* emitSelfEvents and emitStateStateEvents *)
Definition neg_tail (s2 : st) (t2 : tstate) : st * tstate * nres :=
  let r3 :=
    match mu_type (t_mut t2) with
    | MRemove => (s2, t2, NOk)
    | _ => emit_selfs (S (length (t_target t2))) s2 t2 (map Some (t_target t2)) 0 true
    end in
  match r3 with
  | (s3, t3, NOk) => emit_trans s3 t3 (t_before t3) (t_target t3)
  | other => other
  end.

Lemma negotiate_eq : forall s t,
  negotiate s t =
  match emit_exits s t (t_exits t) with
  | (s1, t1, NOk) =>
    match emit_enters s1 t1 (t_enters t1) with
    | (s2, t2, NOk) => neg_tail s2 t2
    | other => other
    end
  | other => other
  end.
Proof. reflexivity. Qed.

Lemma neg_tail_ff : forall s2 t2 s' t' nr,
  good s2 -> t_invalid t2 = false -> neg_tail s2 t2 = (s', t', nr) ->
  nspec 2 2 s2 t2 s' t' nr.
Proof.
  intros s2 t2 s' t' nr G2 Hinv2 H. unfold neg_tail in H. cbv zeta in H.
  assert (E3 : exists s3 t3 nr3,
    match mu_type (t_mut t2) with
    | MRemove => (s2, t2, NOk)
    | _ => emit_selfs (S (length (t_target t2))) s2 t2 (map Some (t_target t2)) 0 true
    end = (s3, t3, nr3) /\ nspec 2 2 s2 t2 s3 t3 nr3).
  { destruct (mu_type (t_mut t2)).
    - destruct (emit_selfs (S (length (t_target t2))) s2 t2 (map Some (t_target t2)) 0 true)
        as [[s3 t3] nr3] eqn:E3.
      exists s3, t3, nr3. split; [reflexivity|]. eapply emit_selfs_ff; eassumption.
    - exists s2, t2, NOk. split; [reflexivity|]. apply nspec_refl. exact G2.
    - destruct (emit_selfs (S (length (t_target t2))) s2 t2 (map Some (t_target t2)) 0 true)
        as [[s3 t3] nr3] eqn:E3.
      exists s3, t3, nr3. split; [reflexivity|]. eapply emit_selfs_ff; eassumption. }
  destruct E3 as (s3 & t3 & nr3 & E3 & N3). rewrite E3 in H.
  destruct (nspec_inv _ _ _ _ _ _ _ _ N3) as [G3 Hinv3]. rewrite Hinv2 in Hinv3.
  destruct nr3; [|inversion H; subst; exact N3|inversion H; subst; exact N3].
  apply emit_trans_ff in H; [|exact G3|exact Hinv3].
  eapply (nspec_seq true 2 2 2 2); [exact N3 | exact H | lia | lia | lia].
Qed.

Lemma negotiate_ff : forall s t s' t' nr,
  good s -> t_invalid t = false -> negotiate s t = (s', t', nr) ->
  nspec 0 2 s t s' t' nr.
Proof.
  intros s t s' t' nr G Hinv H. rewrite negotiate_eq in H.
  destruct (emit_exits s t (t_exits t)) as [[s1 t1] nr1] eqn:E1.
  apply emit_exits_ff in E1; [|exact G|exact Hinv].
  destruct (nspec_inv _ _ _ _ _ _ _ _ E1) as [G1 Hinv1]. rewrite Hinv in Hinv1.
  destruct nr1;
    [|inversion H; subst; eapply nspec_weaken; [exact E1|lia|lia]
     |inversion H; subst; eapply nspec_weaken; [exact E1|lia|lia]].
  destruct (emit_enters s1 t1 (t_enters t1)) as [[s2 t2] nr2] eqn:E2.
  apply emit_enters_ff in E2; [|exact G1|exact Hinv1].
  assert (E12 : nspec 0 1 s t s2 t2 nr2).
  { eapply (nspec_seq true 0 0 1 1); [exact E1 | exact E2 | lia | lia | lia]. }
  clear E1 E2.
  destruct (nspec_inv _ _ _ _ _ _ _ _ E12) as [G2 Hinv2]. rewrite Hinv in Hinv2.
  destruct nr2;
    [|inversion H; subst; eapply nspec_weaken; [exact E12|lia|lia]
     |inversion H; subst; eapply nspec_weaken; [exact E12|lia|lia]].
  apply neg_tail_ff in H; [|exact G2|exact Hinv2].
  eapply (nspec_seq true 0 1 2 2); [exact E12 | exact H | lia | lia | lia].
Qed.

(* the Exit / Enter handlers are called along the exits / enters lists *)
Lemma nspec_log : forall last lo hi s t s' t' nr,
  nspecL last lo hi s t s' t' nr ->
  exists new, hlog s' = new ++ hlog s /\
    Forall (fun h => lo <= phase_rank (hl_key h) <= hi) (rev new).
Proof.
  intros last lo hi s t s' t' nr (new & B & _). destruct B as (_ & _ & _ & _ & L & _ & [_ F]).
  exists new. split; [exact L|]. apply Forall_forall. intros h Hh.
  rewrite Forall_forall in F. apply (F (rk h)). apply in_map. exact Hh.
Qed.

Lemma rank_range_pst_nil : forall same n lo hi hs,
  (forall k, same k = true -> phase_rank k = n) -> (n < lo \/ hi < n) ->
  Forall (fun h => lo <= phase_rank (hl_key h) <= hi) hs -> pst same hs = [].
Proof.
  intros same n lo hi hs Hs Hn H. apply (pst_rank_nil same n); [exact Hs|].
  eapply Forall_impl; [|exact H]. cbn. intros h Hh. lia.
Qed.

Lemma is_exit_rank : forall k, is_exit k = true -> phase_rank k = 0.
Proof. intros k H. destruct k; try discriminate. reflexivity. Qed.
Lemma is_enter_rank : forall k, is_enter k = true -> phase_rank k = 1.
Proof. intros k H. destruct k; try discriminate. reflexivity. Qed.
Lemma is_end_rank : forall k, is_end k = true -> phase_rank k = 3.
Proof. intros k H. destruct k; try discriminate. reflexivity. Qed.
Lemma is_state_rank : forall k, is_state k = true -> phase_rank k = 4.
Proof. intros k H. destruct k; try discriminate. reflexivity. Qed.

Lemma emit_exits_ord : forall l s t s' t' nr,
  good s -> t_invalid t = false -> emit_exits s t l = (s', t', nr) ->
  forall new, hlog s' = new ++ hlog s -> blocks (pst is_exit (rev new)) l.
Proof.
  induction l as [|x r IH]; intros s t s' t' nr G Hinv H new L.
  - simpl in H. inversion H; subst. change (hlog s') with ([] ++ hlog s') in L at 1.
    apply app_inv_tail in L. subst new. apply bl_nil.
  - cbn [emit_exits] in H. destruct (handle s t (HExit x)) as [[s1 t1] ok] eqn:Eh.
    destruct (handle_nbase _ _ _ _ _ _ 0 G Hinv Eh eq_refl) as (-> & Hh & n1 & B & _ & _ & Hk).
    rewrite Hh in H. destruct B as (_ & G1 & _ & _ & L1 & _).
    assert (P1 : pst is_exit (rev n1) = repeat x (length n1)) by (apply (pst_same_key is_exit (HExit x)); exact Hk).
    assert (Hcont : forall tt, emit_exits s1 tt r = (s', t', nr) -> t_invalid tt = false ->
                    blocks (pst is_exit (rev new)) (x :: r)).
    { intros tt Hr Hi. destruct (nspec_log _ _ _ _ _ _ _ _ (emit_exits_ff _ _ _ _ _ _ G1 Hi Hr))
        as (n2 & L2 & _).
      assert (new = n2 ++ n1).
      { rewrite L2, L1, app_assoc in L. apply app_inv_tail in L. symmetry. exact L. }
      subst new. rewrite rev_app_distr, pst_app, P1. apply blocks_repeat.
      eapply IH; [exact G1 | exact Hi | exact Hr | exact L2]. }
    assert (Hstop : s' = s1 -> blocks (pst is_exit (rev new)) (x :: r)).
    { intros ->. rewrite L1 in L. apply app_inv_tail in L. subst new. rewrite P1.
      rewrite <- (app_nil_r (repeat x (length n1))). apply blocks_repeat. apply bl_nil. }
    destruct ok; [apply (Hcont t H Hinv)|].
    destruct (mu_auto (t_mut t) && is_auto_state s x).
    + destruct (mem x (t_target t)).
      * apply (Hcont _ H). exact Hinv.
      * inversion H; subst. apply Hstop. reflexivity.
    + inversion H; subst. apply Hstop. reflexivity.
Qed.

Lemma emit_enters_ord : forall l s t s' t' nr,
  good s -> t_invalid t = false -> emit_enters s t l = (s', t', nr) ->
  forall new, hlog s' = new ++ hlog s -> blocks (pst is_enter (rev new)) l.
Proof.
  induction l as [|x r IH]; intros s t s' t' nr G Hinv H new L.
  - simpl in H. inversion H; subst. change (hlog s') with ([] ++ hlog s') in L at 1.
    apply app_inv_tail in L. subst new. apply bl_nil.
  - cbn [emit_enters] in H. destruct (handle s t (HEnter x)) as [[s1 t1] ok] eqn:Eh.
    destruct (handle_nbase _ _ _ _ _ _ 1 G Hinv Eh eq_refl) as (-> & Hh & n1 & B & _ & _ & Hk).
    rewrite Hh in H. destruct B as (_ & G1 & _ & _ & L1 & _).
    assert (P1 : pst is_enter (rev n1) = repeat x (length n1)) by (apply (pst_same_key is_enter (HEnter x)); exact Hk).
    assert (Hcont : forall tt, emit_enters s1 tt r = (s', t', nr) -> t_invalid tt = false ->
                    blocks (pst is_enter (rev new)) (x :: r)).
    { intros tt Hr Hi. destruct (nspec_log _ _ _ _ _ _ _ _ (emit_enters_ff _ _ _ _ _ _ G1 Hi Hr))
        as (n2 & L2 & _).
      assert (new = n2 ++ n1).
      { rewrite L2, L1, app_assoc in L. apply app_inv_tail in L. symmetry. exact L. }
      subst new. rewrite rev_app_distr, pst_app, P1. apply blocks_repeat.
      eapply IH; [exact G1 | exact Hi | exact Hr | exact L2]. }
    assert (Hstop : s' = s1 -> blocks (pst is_enter (rev new)) (x :: r)).
    { intros ->. rewrite L1 in L. apply app_inv_tail in L. subst new. rewrite P1.
      rewrite <- (app_nil_r (repeat x (length n1))). apply blocks_repeat. apply bl_nil. }
    destruct ok; [apply (Hcont t H Hinv)|].
    destruct (mu_auto (t_mut t) && is_auto_state s x).
    + destruct (mem x (t_target t)).
      * apply (Hcont _ H). exact Hinv.
      * inversion H; subst. apply Hstop. reflexivity.
    + inversion H; subst. apply Hstop. reflexivity.
Qed.

Definition ordn (t : tstate) (new : list hlentry) : Prop :=
  srt_sublist (uniq (pst is_exit (rev new))) (t_exits t) /\
  srt_sublist (uniq (pst is_enter (rev new))) (t_enters t).

Lemma negotiate_ord : forall s t s' t' nr,
  good s -> t_invalid t = false -> negotiate s t = (s', t', nr) ->
  forall new, hlog s' = new ++ hlog s -> ordn t new.
Proof.
  intros s t s' t' nr G Hinv H new L. rewrite negotiate_eq in H.
  destruct (emit_exits s t (t_exits t)) as [[s1 t1] nr1] eqn:E1.
  pose proof (emit_exits_ff _ _ _ _ _ _ G Hinv E1) as N1.
  destruct (nspec_inv _ _ _ _ _ _ _ _ N1) as [G1 Hinv1]. rewrite Hinv in Hinv1.
  destruct (nspec_log _ _ _ _ _ _ _ _ N1) as (n1 & L1 & R1).
  pose proof (emit_exits_ord _ _ _ _ _ _ G Hinv E1 n1 L1) as O1.
  assert (Z1 : pst is_enter (rev n1) = []).
  { apply (rank_range_pst_nil is_enter 1 0 0); [exact is_enter_rank | right; lia | exact R1]. }
  assert (Hstop1 : s' = s1 -> ordn t new).
  { intros ->. rewrite L1 in L. apply app_inv_tail in L. subst new. unfold ordn. rewrite Z1.
    split; [apply blocks_uniq; exact O1 | apply srt_sublist_nil_l]. }
  destruct nr1; [|inversion H; subst; apply Hstop1; reflexivity
                 |inversion H; subst; apply Hstop1; reflexivity].
  destruct (emit_enters s1 t1 (t_enters t1)) as [[s2 t2] nr2] eqn:E2.
  pose proof (emit_enters_ff _ _ _ _ _ _ G1 Hinv1 E2) as N2.
  destruct (nspec_inv _ _ _ _ _ _ _ _ N2) as [G2 Hinv2]. rewrite Hinv1 in Hinv2.
  destruct (nspec_log _ _ _ _ _ _ _ _ N2) as (n2 & L2 & R2).
  pose proof (emit_enters_ord _ _ _ _ _ _ G1 Hinv1 E2 n2 L2) as O2.
  assert (Hen : t_enters t1 = t_enters t).
  { destruct N1 as (? & B & _). destruct B as (_ & _ & _ & T & _). apply T. }
  rewrite Hen in O2.
  assert (Z2 : pst is_exit (rev n2) = []).
  { apply (rank_range_pst_nil is_exit 0 1 1); [exact is_exit_rank | left; lia | exact R2]. }
  assert (Hstop2 : s' = s2 -> ordn t new).
  { intros ->. rewrite L2, L1, app_assoc in L. apply app_inv_tail in L. subst new. unfold ordn.
    rewrite rev_app_distr, !pst_app, Z1, Z2, app_nil_r. cbn [app].
    split; apply blocks_uniq; assumption. }
  destruct nr2; [|inversion H; subst; apply Hstop2; reflexivity
                 |inversion H; subst; apply Hstop2; reflexivity].
  pose proof (neg_tail_ff _ _ _ _ _ G2 Hinv2 H) as N3.
  destruct (nspec_log _ _ _ _ _ _ _ _ N3) as (n3 & L3 & R3).
  rewrite L3, L2, L1, !app_assoc in L. apply app_inv_tail in L. subst new. unfold ordn.
  rewrite !rev_app_distr, !pst_app, Z1, Z2.
  rewrite (rank_range_pst_nil is_exit 0 2 2 (rev n3) is_exit_rank (or_introl (Nat.lt_0_succ 1)) R3).
  rewrite (rank_range_pst_nil is_enter 1 2 2 (rev n3) is_enter_rank (or_introl (Nat.lt_succ_diag_r 1)) R3).
  rewrite !app_nil_r. cbn [app].
  split; apply blocks_uniq; assumption.
Qed.

(* ------------------------------------------------------------------ *)
(* every negotiation event of a completed phase was dispatched to      *)
(* every binding (or vetoed)                                           *)
(* ------------------------------------------------------------------ *)

Lemma count_key_app : forall a b k i, count_key (a ++ b) k i = count_key a k i + count_key b k i.
Proof. intros a b k i. unfold count_key. rewrite filter_app, app_length. reflexivity. Qed.

Lemma count_key_same : forall new k0 k i, Forall (fun h => hl_key h = k0) new ->
  count_key new k i = if hkey_eqb k0 k then count_bind new i else 0.
Proof.
  intros new k0 k i H. unfold count_key, count_bind.
  induction new as [|h r IH]; simpl.
  - destruct (hkey_eqb k0 k); reflexivity.
  - inversion H as [|h' r' Hh Hr]. specialize (IH Hr). rewrite Hh.
    destruct (hkey_eqb k0 k) eqn:E; cbn [andb].
    + destruct (hl_binding h =? i); cbn [length]; rewrite IH; reflexivity.
    + exact IH.
Qed.

Definition vetoed (k : hkey) (new : list hlentry) : Prop :=
  exists h, In h new /\ hl_key h = k /\ hl_ret h = false.

Definition consulted (bs : list (list hkey)) (new : list hlentry) (k : hkey) : Prop :=
  vetoed k new \/ forall i, count_key new k i = (if defines bs i k then 1 else 0).

Definition keysin (P : hkey -> Prop) (new : list hlentry) : Prop :=
  Forall (fun h => P (hl_key h)) new.

Definition cons_on (bs : list (list hkey)) (P : hkey -> Prop) (new : list hlentry) : Prop :=
  forall k, P k -> consulted bs new k.

Lemma keysin_weaken : forall (P Q : hkey -> Prop) new,
  (forall k, P k -> Q k) -> keysin P new -> keysin Q new.
Proof. intros P Q new H K. eapply Forall_impl; [|exact K]. intros h. apply H. Qed.

Lemma keysin_app : forall P a b, keysin P a -> keysin P b -> keysin P (a ++ b).
Proof. intros P a b Ha Hb. apply Forall_app. split; assumption. Qed.

Lemma cons_on_weaken : forall bs (P Q : hkey -> Prop) new,
  (forall k, Q k -> P k) -> cons_on bs P new -> cons_on bs Q new.
Proof. intros bs P Q new H C k Hk. apply C. apply H. exact Hk. Qed.

Lemma count_key_notin : forall (P : hkey -> Prop) new k i,
  keysin P new -> ~ P k -> count_key new k i = 0.
Proof.
  intros P new k i K Hn. unfold count_key. induction K as [|h r Hh Hr IH]; [reflexivity|].
  cbn [filter]. destruct (hkey_eqb (hl_key h) k) eqn:E.
  - apply hkey_eqb_eq in E. subst k. contradiction.
  - cbn [andb]. exact IH.
Qed.

Lemma vetoed_app : forall k a b, vetoed k a \/ vetoed k b -> vetoed k (a ++ b).
Proof.
  intros k a b [(h & Hh & R)|(h & Hh & R)]; exists h; (split; [|exact R]); apply in_or_app; tauto.
Qed.

Lemma cons_pad_l : forall bs (P Q : hkey -> Prop) n m,
  cons_on bs P n -> keysin Q m -> (forall k, P k -> ~ Q k) -> cons_on bs P (m ++ n).
Proof.
  intros bs P Q n m C K D k Hk. destruct (C k Hk) as [V|Cn].
  - left. apply vetoed_app. right. exact V.
  - right. intros i. rewrite count_key_app, Cn, (count_key_notin Q m k i K (D k Hk)). reflexivity.
Qed.

Lemma cons_pad_r : forall bs (P Q : hkey -> Prop) n m,
  cons_on bs P n -> keysin Q m -> (forall k, P k -> ~ Q k) -> cons_on bs P (n ++ m).
Proof.
  intros bs P Q n m C K D k Hk. destruct (C k Hk) as [V|Cn].
  - left. apply vetoed_app. left. exact V.
  - right. intros i. rewrite count_key_app, Cn, (count_key_notin Q m k i K (D k Hk)). lia.
Qed.

Lemma cons_app : forall bs (P1 P2 : hkey -> Prop) n1 n2,
  keysin P1 n1 -> keysin P2 n2 -> (forall k, P1 k -> ~ P2 k) ->
  cons_on bs P1 n1 -> cons_on bs P2 n2 ->
  keysin (fun k => P1 k \/ P2 k) (n2 ++ n1) /\ cons_on bs (fun k => P1 k \/ P2 k) (n2 ++ n1).
Proof.
  intros bs P1 P2 n1 n2 K1 K2 D C1 C2. split.
  - apply keysin_app; [eapply keysin_weaken; [|exact K2] | eapply keysin_weaken; [|exact K1]];
      intros k Hk; tauto.
  - intros k [Hk|Hk].
    + apply (cons_pad_l bs P1 P2 n1 n2 C1 K2 D k Hk).
    + apply (cons_pad_r bs P2 P1 n2 n1 C2 K1); [|exact Hk].
      intros k' H2 H1. exact (D k' H1 H2).
Qed.

Lemma cons_on_nil_false : forall bs, cons_on bs (fun _ => False) [].
Proof. intros bs k []. Qed.

Lemma handle_event : forall s t k s1 t1 ok,
  good s -> t_invalid t = false -> is_final_key k = false -> handle s t k = (s1, t1, ok) ->
  exists n1, hlog s1 = n1 ++ hlog s /\ keysin (fun k' => k = k') n1 /\
    cons_on (bindings s) (fun k' => k = k') n1 /\ (ok = true \/ vetoed k n1).
Proof.
  intros s t k s1 t1 ok G Hinv Hf H.
  destruct (handle_ff _ _ _ _ _ _ G Hinv H) as (_ & _ & _ & _ & n1 & L & En & _ & V & Cn).
  exists n1. split; [exact L|].
  assert (Hk : Forall (fun h => hl_key h = k) n1).
  { eapply Forall_impl; [|exact En]. intros h (Y & _). exact Y. }
  split; [eapply Forall_impl; [|exact Hk]; intros h Y; symmetry; exact Y|].
  assert (Hv : ok = false -> vetoed k n1).
  { intros ->. destruct (V Hf) as [[Hx _]|[_ (e & rest & -> & Hr & _)]]; [discriminate|].
    exists e. split; [left; reflexivity|]. split; [|exact Hr].
    inversion Hk; assumption. }
  split.
  - intros k' <-. destruct ok.
    + right. intros i. rewrite (count_key_same n1 k k i Hk), hkey_eqb_refl. apply Cn. reflexivity.
    + left. apply Hv. reflexivity.
  - destruct ok; [left; reflexivity | right; apply Hv; reflexivity].
Qed.

Lemma without_other : forall l x a, In a l -> ~ In a (without l x) -> a = x.
Proof.
  induction l as [|y r IH]; intros x a Hin Hn; [contradiction|].
  cbn in Hn. destruct (Nat.eqb x y) eqn:E.
  - apply Nat.eqb_eq in E. subst y. destruct Hin as [->|Hin]; [reflexivity | contradiction].
  - destruct Hin as [->|Hin].
    + exfalso. apply Hn. left. reflexivity.
    + apply IH with (1 := Hin). intros Hx. apply Hn. right. exact Hx.
Qed.

Lemma NoDup_without : forall l x, NoDup l -> NoDup (without l x).
Proof.
  intros l x H. induction H as [|y r Hn Hr IH]; [constructor|].
  cbn. destruct (Nat.eqb x y); [exact Hr|].
  constructor; [|exact IH]. intros Hin. apply Hn. eapply without_incl. exact Hin.
Qed.

Lemma In_map_inj : forall (f : nat -> hkey) l x,
  (forall a b, f a = f b -> a = b) -> In (f x) (map f l) -> In x l.
Proof.
  intros f l x Hf H. apply in_map_iff in H. destruct H as (y & Hy & Hin).
  apply Hf in Hy. subst y. exact Hin.
Qed.

(* one loop iteration followed by the rest of the loop *)
Lemma loop_step : forall bs k0 (P2 : hkey -> Prop) n1 n2,
  keysin (fun k => k0 = k) n1 -> cons_on bs (fun k => k0 = k) n1 ->
  ~ P2 k0 -> keysin P2 n2 -> cons_on bs P2 n2 ->
  keysin (fun k => k0 = k \/ P2 k) (n2 ++ n1) /\ cons_on bs (fun k => k0 = k \/ P2 k) (n2 ++ n1).
Proof.
  intros bs k0 P2 n1 n2 K1 C1 Hn K2 C2.
  apply cons_app; try assumption. intros k <-. exact Hn.
Qed.

(* the target only loses what a phase may delete *)
Definition del_ok (t t' : tstate) (Q : nat -> Prop) : Prop :=
  (forall a, In a (t_target t) -> ~ In a (t_target t') -> Q a) /\
  (NoDup (t_target t) -> NoDup (t_target t')).

Lemma del_ok_refl : forall t Q, del_ok t t Q.
Proof. intros t Q. split; [intros a H Hn; contradiction | tauto]. Qed.

Lemma del_ok_step : forall t t' x (Q : nat -> Prop),
  del_ok (with_target t (delete_state (t_target t) x)) t' Q -> Q x -> del_ok t t' Q.
Proof.
  intros t t' x Q [D1 D2] Hx. split.
  - intros a Ha Hn. destruct (in_dec Nat.eq_dec a (without (t_target t) x)) as [Hw|Hw].
    + apply D1; [exact Hw | exact Hn].
    + rewrite (without_other _ _ _ Ha Hw). exact Hx.
  - intros Hnd. apply D2. cbn. apply NoDup_without. exact Hnd.
Qed.

Lemma del_ok_weaken : forall t t' (Q Q' : nat -> Prop),
  (forall a, Q a -> Q' a) -> del_ok t t' Q -> del_ok t t' Q'.
Proof. intros t t' Q Q' H [D1 D2]. split; [intros a Ha Hn; apply H; eapply D1; eassumption | exact D2]. Qed.

Lemma emit_exits_cons : forall l s t s' t',
  good s -> t_invalid t = false -> NoDup l -> emit_exits s t l = (s', t', NOk) ->
  forall new, hlog s' = new ++ hlog s ->
    keysin (fun k => In k (map HExit l)) new /\
    cons_on (bindings s) (fun k => In k (map HExit l)) new /\
    del_ok t t' (fun a => In a l).
Proof.
  induction l as [|x r IH]; intros s t s' t' G Hinv Hnd H new L.
  - simpl in H. inversion H; subst. change (hlog s') with ([] ++ hlog s') in L at 1.
    apply app_inv_tail in L. subst new. split; [constructor|]. split; [intros k []|].
    apply del_ok_refl.
  - inversion Hnd as [|? ? Hx Hr]; subst.
    cbn [emit_exits] in H. destruct (handle s t (HExit x)) as [[s1 t1] ok] eqn:Eh.
    destruct (handle_event s t (HExit x) _ _ _ G Hinv eq_refl Eh) as (n1 & L1 & K1 & C1 & Hov).
    destruct (handle_nbase _ _ _ _ _ _ 0 G Hinv Eh eq_refl) as (-> & Hh & n1' & B & _).
    rewrite Hh in H. destruct B as (K & G1 & _).
    assert (Hcont : forall tt, emit_exits s1 tt r = (s', t', NOk) -> t_invalid tt = false ->
      keysin (fun k => In k (map HExit (x :: r))) new /\
      cons_on (bindings s) (fun k => In k (map HExit (x :: r))) new /\
      del_ok tt t' (fun a => In a r)).
    { intros tt Hr' Hi.
      destruct (nspec_log _ _ _ _ _ _ _ _ (emit_exits_ff _ _ _ _ _ _ G1 Hi Hr')) as (n2 & L2 & _).
      assert (new = n2 ++ n1).
      { rewrite L2, L1, app_assoc in L. apply app_inv_tail in L. symmetry. exact L. }
      subst new.
      destruct (IH _ _ _ _ G1 Hi Hr Hr' n2 L2) as (K2 & C2 & D2).
      rewrite (keeps_bindings _ _ K) in C2.
      destruct (loop_step (bindings s) (HExit x) (fun k => In k (map HExit r)) n1 n2 K1 C1)
        as [Ka Ca]; try assumption.
      { intros Hin. apply Hx. apply (In_map_inj HExit); [intros a b E; inversion E; reflexivity | exact Hin]. }
      split; [exact Ka|]. split; [exact Ca | exact D2]. }
    destruct ok.
    + destruct (Hcont t H Hinv) as (Ka & Ca & Da). split; [exact Ka|]. split; [exact Ca|].
      eapply del_ok_weaken; [|exact Da]. intros a Ha. right. exact Ha.
    + destruct (mu_auto (t_mut t) && is_auto_state s x); [|inversion H].
      destruct (mem x (t_target t)); [|inversion H].
      destruct (Hcont _ H Hinv) as (Ka & Ca & Da). split; [exact Ka|]. split; [exact Ca|].
      eapply del_ok_step; [eapply del_ok_weaken; [|exact Da]; intros a Ha; right; exact Ha|].
      left. reflexivity.
Qed.

Lemma emit_enters_cons : forall l s t s' t',
  good s -> t_invalid t = false -> NoDup l -> emit_enters s t l = (s', t', NOk) ->
  forall new, hlog s' = new ++ hlog s ->
    keysin (fun k => In k (map HEnter l)) new /\
    cons_on (bindings s) (fun k => In k (map HEnter l)) new /\
    del_ok t t' (fun a => vetoed (HEnter a) new).
Proof.
  induction l as [|x r IH]; intros s t s' t' G Hinv Hnd H new L.
  - simpl in H. inversion H; subst. change (hlog s') with ([] ++ hlog s') in L at 1.
    apply app_inv_tail in L. subst new. split; [constructor|]. split; [intros k []|].
    apply del_ok_refl.
  - inversion Hnd as [|? ? Hx Hr]; subst.
    cbn [emit_enters] in H. destruct (handle s t (HEnter x)) as [[s1 t1] ok] eqn:Eh.
    destruct (handle_event s t (HEnter x) _ _ _ G Hinv eq_refl Eh) as (n1 & L1 & K1 & C1 & Hov).
    destruct (handle_nbase _ _ _ _ _ _ 1 G Hinv Eh eq_refl) as (-> & Hh & n1' & B & _).
    rewrite Hh in H. destruct B as (K & G1 & _).
    assert (Hcont : forall tt, emit_enters s1 tt r = (s', t', NOk) -> t_invalid tt = false ->
      exists n2, new = n2 ++ n1 /\
      keysin (fun k => In k (map HEnter (x :: r))) new /\
      cons_on (bindings s) (fun k => In k (map HEnter (x :: r))) new /\
      del_ok tt t' (fun a => vetoed (HEnter a) new)).
    { intros tt Hr' Hi.
      destruct (nspec_log _ _ _ _ _ _ _ _ (emit_enters_ff _ _ _ _ _ _ G1 Hi Hr')) as (n2 & L2 & _).
      assert (new = n2 ++ n1).
      { rewrite L2, L1, app_assoc in L. apply app_inv_tail in L. symmetry. exact L. }
      subst new. exists n2. split; [reflexivity|].
      destruct (IH _ _ _ _ G1 Hi Hr Hr' n2 L2) as (K2 & C2 & D2).
      rewrite (keeps_bindings _ _ K) in C2.
      destruct (loop_step (bindings s) (HEnter x) (fun k => In k (map HEnter r)) n1 n2 K1 C1)
        as [Ka Ca]; try assumption.
      { intros Hin. apply Hx. apply (In_map_inj HEnter); [intros a b E; inversion E; reflexivity | exact Hin]. }
      split; [exact Ka|]. split; [exact Ca|].
      eapply del_ok_weaken; [|exact D2]. intros a Ha. apply vetoed_app. left. exact Ha. }
    destruct ok.
    + destruct (Hcont t H Hinv) as (n2 & _ & Ka & Ca & Da). tauto.
    + destruct (mu_auto (t_mut t) && is_auto_state s x); [|inversion H].
      destruct (mem x (t_target t)); [|inversion H].
      destruct (Hcont _ H Hinv) as (n2 & -> & Ka & Ca & Da). split; [exact Ka|]. split; [exact Ca|].
      eapply del_ok_step; [exact Da|]. apply vetoed_app. right.
      destruct Hov as [Hx'|Hx']; [discriminate | exact Hx'].
Qed.

Definition is_self (k : hkey) : bool := match k with HSelf _ => true | _ => false end.

Lemma emit_selfs_keys : forall fuel s t arr i last s' t' nr,
  good s -> t_invalid t = false -> emit_selfs fuel s t arr i last = (s', t', nr) ->
  forall new, hlog s' = new ++ hlog s ->
    keysin (fun k => is_self k = true) new /\ del_ok t t' (fun a => In a (active s)).
Proof.
  induction fuel as [|f IH]; intros s t arr i last s' t' nr G Hinv H new L.
  - simpl in H. inversion H; subst. change (hlog s') with ([] ++ hlog s') in L at 1.
    apply app_inv_tail in L. subst new. split; [constructor | apply del_ok_refl].
  - cbn [emit_selfs] in H. destruct (nth_error arr i) as [[x|]|].
    + destruct (negb (is_active s x)) eqn:Eact; [eapply IH; eassumption|].
      destruct (handle s t (HSelf x)) as [[s1 t1] ok] eqn:Eh.
      destruct (handle_event s t (HSelf x) _ _ _ G Hinv eq_refl Eh) as (n1 & L1 & K1 & _ & _).
      destruct (handle_nbase _ _ _ _ _ _ 2 G Hinv Eh eq_refl) as (-> & Hh & n1' & B & _).
      rewrite Hh in H. destruct B as (K & G1 & _).
      assert (K1' : keysin (fun k => is_self k = true) n1).
      { eapply keysin_weaken; [|exact K1]. intros k <-. reflexivity. }
      assert (Hxa : In x (active s)).
      { apply negb_false_iff in Eact. apply mem_In. exact Eact. }
      assert (Hcont : forall tt arr' l', emit_selfs f s1 tt arr' (S i) l' = (s', t', nr) ->
        t_invalid tt = false ->
        keysin (fun k => is_self k = true) new /\ del_ok tt t' (fun a => In a (active s))).
      { intros tt arr' l' Hr' Hi.
        destruct (nspec_log _ _ _ _ _ _ _ _ (emit_selfs_ff _ _ _ _ _ _ _ _ _ G1 Hi Hr')) as (n2 & L2 & _).
        assert (new = n2 ++ n1).
        { rewrite L2, L1, app_assoc in L. apply app_inv_tail in L. symmetry. exact L. }
        subst new. destruct (IH _ _ _ _ _ _ _ _ G1 Hi Hr' n2 L2) as (K2 & D2).
        split; [apply keysin_app; assumption|].
        rewrite (keeps_active _ _ K) in D2. exact D2. }
      assert (Hstop : s' = s1 -> t' = t ->
        keysin (fun k => is_self k = true) new /\ del_ok t t' (fun a => In a (active s))).
      { intros -> ->. rewrite L1 in L. apply app_inv_tail in L. subst new.
        split; [exact K1' | apply del_ok_refl]. }
      destruct ok; [apply (Hcont _ _ _ H Hinv)|].
      destruct (mu_auto (t_mut t) && is_auto_state s x).
      * destruct (mem x (t_target t)).
        -- destruct (Hcont _ _ _ H Hinv) as (Ka & Da). split; [exact Ka|].
           eapply del_ok_step; [exact Da | exact Hxa].
        -- inversion H; subst. apply Hstop; reflexivity.
      * inversion H; subst. apply Hstop; reflexivity.
    + eapply IH; eassumption.
    + inversion H; subst. change (hlog s') with ([] ++ hlog s') in L at 1.
      apply app_inv_tail in L. subst new. split; [constructor | apply del_ok_refl].
Qed.

Definition tkeys (b : nat) (after : list nat) : list hkey :=
  map (HTrans b) (filter (fun a => negb (Nat.eqb b a)) after).

Lemma emit_trans_inner_cons : forall after s t b s' t',
  good s -> t_invalid t = false -> NoDup after ->
  emit_trans_inner s t b after = (s', t', NOk) ->
  forall new, hlog s' = new ++ hlog s ->
    keysin (fun k => In k (tkeys b after)) new /\
    cons_on (bindings s) (fun k => In k (tkeys b after)) new.
Proof.
  induction after as [|a r IH]; intros s t b s' t' G Hinv Hnd H new L.
  - simpl in H. inversion H; subst. change (hlog s') with ([] ++ hlog s') in L at 1.
    apply app_inv_tail in L. subst new. split; [constructor | intros k []].
  - inversion Hnd as [|? ? Ha Hr]; subst.
    cbn [emit_trans_inner] in H. unfold tkeys. cbn [filter].
    destruct (Nat.eqb b a) eqn:Eba; cbn [negb].
    + apply (IH _ _ _ _ _ G Hinv Hr H new L).
    + destruct (handle s t (HTrans b a)) as [[s1 t1] ok] eqn:Eh.
      destruct (handle_event s t (HTrans b a) _ _ _ G Hinv eq_refl Eh) as (n1 & L1 & K1 & C1 & Hov).
      destruct (handle_nbase _ _ _ _ _ _ 2 G Hinv Eh eq_refl) as (-> & Hh & n1' & B & _).
      rewrite Hh in H. destruct B as (K & G1 & _).
      assert (Hcont : forall tt, emit_trans_inner s1 tt b r = (s', t', NOk) -> t_invalid tt = false ->
        keysin (fun k => In k (map (HTrans b) (a :: filter (fun a0 => negb (Nat.eqb b a0)) r))) new /\
        cons_on (bindings s)
          (fun k => In k (map (HTrans b) (a :: filter (fun a0 => negb (Nat.eqb b a0)) r))) new).
      { intros tt Hr' Hi.
        destruct (nspec_log _ _ _ _ _ _ _ _ (emit_trans_inner_ff _ _ _ _ _ _ _ G1 Hi Hr')) as (n2 & L2 & _).
        assert (new = n2 ++ n1).
        { rewrite L2, L1, app_assoc in L. apply app_inv_tail in L. symmetry. exact L. }
        subst new.
        destruct (IH _ _ _ _ _ G1 Hi Hr Hr' n2 L2) as (K2 & C2).
        rewrite (keeps_bindings _ _ K) in C2.
        destruct (loop_step (bindings s) (HTrans b a) (fun k => In k (tkeys b r)) n1 n2 K1 C1)
          as [Ka Ca]; try assumption.
        { intros Hin. unfold tkeys in Hin. apply in_map_iff in Hin.
          destruct Hin as (y & Ey & Hy). inversion Ey; subst y. apply filter_In in Hy. tauto. }
        split; [exact Ka | exact Ca]. }
      destruct ok; [apply (Hcont t H Hinv)|].
      destruct (mu_auto (t_mut t) && is_auto_state s a); [|inversion H].
      apply (Hcont _ H Hinv).
Qed.

Definition allt (before after : list nat) : list hkey := flat_map (fun b => tkeys b after) before.

Lemma emit_trans_cons : forall before after s t s' t',
  good s -> t_invalid t = false -> NoDup before -> NoDup after ->
  emit_trans s t before after = (s', t', NOk) ->
  forall new, hlog s' = new ++ hlog s ->
    keysin (fun k => In k (allt before after)) new /\
    cons_on (bindings s) (fun k => In k (allt before after)) new.
Proof.
  induction before as [|b r IH]; intros after s t s' t' G Hinv Hndb Hnda H new L.
  - simpl in H. inversion H; subst. change (hlog s') with ([] ++ hlog s') in L at 1.
    apply app_inv_tail in L. subst new. split; [constructor | intros k []].
  - inversion Hndb as [|? ? Hb Hr]; subst.
    cbn [emit_trans] in H.
    destruct (emit_trans_inner s t b after) as [[s1 t1] nr1] eqn:Ei.
    pose proof (emit_trans_inner_ff _ _ _ _ _ _ _ G Hinv Ei) as N1.
    destruct (nspec_inv _ _ _ _ _ _ _ _ N1) as [G1 Hinv1]. rewrite Hinv in Hinv1.
    destruct (nspec_log _ _ _ _ _ _ _ _ N1) as (n1 & L1 & _).
    destruct nr1; [|inversion H|inversion H].
    destruct (emit_trans_inner_cons _ _ _ _ _ _ G Hinv Hnda Ei n1 L1) as (K1 & C1).
    destruct (nspec_log _ _ _ _ _ _ _ _ (emit_trans_ff _ _ _ _ _ _ _ G1 Hinv1 H)) as (n2 & L2 & _).
    assert (new = n2 ++ n1).
    { rewrite L2, L1, app_assoc in L. apply app_inv_tail in L. symmetry. exact L. }
    subst new.
    destruct (IH _ _ _ _ _ G1 Hinv1 Hr Hnda H n2 L2) as (K2 & C2).
    assert (Hb1 : bindings s1 = bindings s).
    { destruct N1 as (? & B & _). destruct B as (K & _). apply (keeps_bindings _ _ K). }
    rewrite Hb1 in C2.
    destruct (cons_app (bindings s) (fun k => In k (tkeys b after)) (fun k => In k (allt r after))
                n1 n2 K1 K2) as [Ka Ca]; try assumption.
    { intros k Hk1 Hk2. unfold tkeys in Hk1. apply in_map_iff in Hk1. destruct Hk1 as (a & <- & _).
      unfold allt in Hk2. apply in_flat_map in Hk2. destruct Hk2 as (b' & Hb' & Hk2).
      unfold tkeys in Hk2. apply in_map_iff in Hk2. destruct Hk2 as (a' & E & _).
      inversion E; subst b'. contradiction. }
    unfold allt. cbn [flat_map]. split.
    + eapply keysin_weaken; [|exact Ka]. intros k Hk. apply in_or_app. exact Hk.
    + eapply cons_on_weaken; [|exact Ca]. intros k Hk. apply in_app_or in Hk. exact Hk.
Qed.


Lemma nspec_frame : forall last lo hi s t s' t' nr,
  nspecL last lo hi s t s' t' nr ->
  good s' /\ t_invalid t' = t_invalid t /\ bindings s' = bindings s /\ active s' = active s /\
  t_before t' = t_before t /\ t_enters t' = t_enters t /\ t_exits t' = t_exits t /\
  t_mut t' = t_mut t.
Proof.
  intros last lo hi s t s' t' nr (new & B & _).
  destruct B as (K & G & _ & (T1 & T2 & _ & T4 & T5 & _ & T7 & _) & _).
  split; [exact G|]. split; [exact T7|]. split; [apply (keeps_bindings _ _ K)|].
  split; [apply (keeps_active _ _ K)|]. tauto.
Qed.

Lemma nspec_A : forall lo hi s t s' t' nr,
  nspecL true lo hi s t s' t' nr ->
  forall new, hlog s' = new ++ hlog s -> Forall rettrue new -> t_target t' = t_target t.
Proof.
  intros lo hi s t s' t' nr (n & B & A & _) new L Hall.
  destruct B as (_ & _ & _ & _ & L' & _). rewrite L' in L. apply app_inv_tail in L. subst n.
  apply (A eq_refl Hall).
Qed.

Lemma selfs_trans_cons : forall fuel s2 t2 arr i s3 t3 s' t',
  good s2 -> t_invalid t2 = false -> NoDup (t_before t2) -> NoDup (t_target t2) ->
  emit_selfs fuel s2 t2 arr i true = (s3, t3, NOk) ->
  emit_trans s3 t3 (t_before t3) (t_target t3) = (s', t', NOk) ->
  forall new, hlog s' = new ++ hlog s2 ->
  exists tgt3,
    (forall a, In a (t_target t2) -> ~ In a tgt3 -> In a (active s2)) /\
    (Forall rettrue new -> tgt3 = t_target t2) /\
    keysin (fun k => is_self k = true \/ In k (allt (t_before t2) tgt3)) new /\
    cons_on (bindings s2) (fun k => In k (allt (t_before t2) tgt3)) new.
Proof.
  intros fuel s2 t2 arr i s3 t3 s' t' G2 Hinv2 Hnb Hnt Es Et new L.
  pose proof (emit_selfs_ff _ _ _ _ _ _ _ _ _ G2 Hinv2 Es) as N3.
  destruct (nspec_frame _ _ _ _ _ _ _ _ N3) as (G3 & Hinv3 & Hb3 & _ & Hbe3 & _).
  rewrite Hinv2 in Hinv3.
  destruct (nspec_log _ _ _ _ _ _ _ _ N3) as (n3 & L3 & _).
  destruct (emit_selfs_keys _ _ _ _ _ _ _ _ _ G2 Hinv2 Es n3 L3) as (K3 & [D3a D3b]).
  destruct (nspec_log _ _ _ _ _ _ _ _ (emit_trans_ff _ _ _ _ _ _ _ G3 Hinv3 Et)) as (n4 & L4 & _).
  assert (new = n4 ++ n3).
  { rewrite L4, L3, app_assoc in L. apply app_inv_tail in L. symmetry. exact L. }
  subst new. rewrite Hbe3 in Et.
  destruct (emit_trans_cons _ _ _ _ _ _ G3 Hinv3 Hnb (D3b Hnt) Et n4 L4) as (K4 & C4).
  rewrite Hb3 in C4.
  exists (t_target t3). split; [exact D3a|]. split.
  { intros Hall. apply Forall_app in Hall. apply (nspec_A _ _ _ _ _ _ _ N3 n3 L3). tauto. }
  split.
  - apply keysin_app.
    + eapply keysin_weaken; [|exact K4]. intros k Hk. right. exact Hk.
    + eapply keysin_weaken; [|exact K3]. intros k Hk. left. exact Hk.
  - apply (cons_pad_r _ _ (fun k => is_self k = true) n4 n3 C4 K3).
    intros k Hk. unfold allt in Hk. apply in_flat_map in Hk. destruct Hk as (b & _ & Hk).
    unfold tkeys in Hk. apply in_map_iff in Hk. destruct Hk as (a & <- & _). discriminate.
Qed.

Lemma neg_tail_cons : forall s2 t2 s' t',
  good s2 -> t_invalid t2 = false -> NoDup (t_before t2) -> NoDup (t_target t2) ->
  neg_tail s2 t2 = (s', t', NOk) ->
  forall new, hlog s' = new ++ hlog s2 ->
  exists tgt3,
    (forall a, In a (t_target t2) -> ~ In a tgt3 -> In a (active s2)) /\
    (Forall rettrue new -> tgt3 = t_target t2) /\
    keysin (fun k => is_self k = true \/ In k (allt (t_before t2) tgt3)) new /\
    cons_on (bindings s2) (fun k => In k (allt (t_before t2) tgt3)) new.
Proof.
  intros s2 t2 s' t' G2 Hinv2 Hnb Hnt H new L. unfold neg_tail in H. cbv zeta in H.
  destruct (mu_type (t_mut t2)).
  - destruct (emit_selfs (S (length (t_target t2))) s2 t2 (map Some (t_target t2)) 0 true)
      as [[s3 t3] nr3] eqn:Es.
    destruct nr3; [|inversion H|inversion H].
    eapply selfs_trans_cons; eassumption.
  - destruct (emit_trans_cons _ _ _ _ _ _ G2 Hinv2 Hnb Hnt H new L) as (K4 & C4).
    exists (t_target t2). split; [intros a Ha Hn; contradiction|]. split; [reflexivity|].
    split; [|exact C4].
    eapply keysin_weaken; [|exact K4]. intros k Hk. right. exact Hk.
  - destruct (emit_selfs (S (length (t_target t2))) s2 t2 (map Some (t_target t2)) 0 true)
      as [[s3 t3] nr3] eqn:Es.
    destruct nr3; [|inversion H|inversion H].
    eapply selfs_trans_cons; eassumption.
Qed.

(* the keys consulted by a completed negotiation *)
Definition negP (t : tstate) (tgt3 : list nat) (k : hkey) : Prop :=
  In k (map HExit (t_exits t)) \/ In k (map HEnter (t_enters t)) \/
  In k (allt (t_before t) tgt3).

Definition negc (bs : list (list hkey)) (act : list nat) (t : tstate) (new : list hlentry)
  : Prop :=
  exists tgt3,
    (forall a, In a (t_target t) -> ~ In a tgt3 ->
       In a (t_exits t) \/ vetoed (HEnter a) new \/ In a act) /\
    (Forall rettrue new -> tgt3 = t_target t) /\
    cons_on bs (negP t tgt3) new.

Lemma negotiate_cons : forall s t s' t',
  good s -> t_invalid t = false ->
  NoDup (t_exits t) -> NoDup (t_enters t) -> NoDup (t_before t) -> NoDup (t_target t) ->
  negotiate s t = (s', t', NOk) ->
  forall new, hlog s' = new ++ hlog s -> negc (bindings s) (active s) t new.
Proof.
  intros s t s' t' G Hinv Hnx Hne Hnb Hnt H new L. rewrite negotiate_eq in H.
  destruct (emit_exits s t (t_exits t)) as [[s1 t1] nr1] eqn:E1.
  pose proof (emit_exits_ff _ _ _ _ _ _ G Hinv E1) as N1.
  destruct (nspec_frame _ _ _ _ _ _ _ _ N1) as (G1 & Hinv1 & Hb1 & Ha1 & Hbe1 & Hen1 & _).
  rewrite Hinv in Hinv1.
  destruct (nspec_log _ _ _ _ _ _ _ _ N1) as (n1 & L1 & _).
  destruct nr1; [|inversion H|inversion H].
  destruct (emit_exits_cons _ _ _ _ _ G Hinv Hnx E1 n1 L1) as (K1 & C1 & [D1a D1b]).
  destruct (emit_enters s1 t1 (t_enters t1)) as [[s2 t2] nr2] eqn:E2.
  pose proof (emit_enters_ff _ _ _ _ _ _ G1 Hinv1 E2) as N2.
  destruct (nspec_frame _ _ _ _ _ _ _ _ N2) as (G2 & Hinv2 & Hb2 & Ha2 & Hbe2 & _).
  rewrite Hinv1 in Hinv2.
  destruct (nspec_log _ _ _ _ _ _ _ _ N2) as (n2 & L2 & _).
  destruct nr2; [|inversion H|inversion H].
  rewrite Hen1 in E2.
  destruct (emit_enters_cons _ _ _ _ _ G1 Hinv1 Hne E2 n2 L2) as (K2 & C2 & [D2a D2b]).
  rewrite Hb1 in C2.
  assert (Hnb2 : NoDup (t_before t2)) by (rewrite Hbe2, Hbe1; exact Hnb).
  destruct (nspec_log _ _ _ _ _ _ _ _ (neg_tail_ff _ _ _ _ _ G2 Hinv2 H)) as (n3 & L3 & _).
  destruct (neg_tail_cons _ _ _ _ G2 Hinv2 Hnb2 (D2b (D1b Hnt)) H n3 L3) as (tgt3 & D3 & A3 & K3 & C3).
  rewrite Hb2, Hb1 in C3. rewrite Hbe2, Hbe1 in K3, C3. rewrite Ha2, Ha1 in D3.
  assert (new = n3 ++ n2 ++ n1).
  { rewrite L3, L2, L1, !app_assoc in L. apply app_inv_tail in L. rewrite <- app_assoc in L.
    symmetry. exact L. }
  subst new.
  destruct (cons_app (bindings s) _ _ n1 n2 K1 K2) as [K12 C12]; try assumption.
  { intros k Hk1 Hk2. apply in_map_iff in Hk1. destruct Hk1 as (a & <- & _).
    apply in_map_iff in Hk2. destruct Hk2 as (a' & E & _). discriminate. }
  exists tgt3. split; [|split].
  2:{ intros Hall. apply Forall_app in Hall. destruct Hall as [Hall3 Hall].
      apply Forall_app in Hall. destruct Hall as [Hall2 Hall1].
      rewrite (A3 Hall3), (nspec_A _ _ _ _ _ _ _ N2 n2 L2 Hall2).
      apply (nspec_A _ _ _ _ _ _ _ N1 n1 L1 Hall1). }
  - intros a Ha Hn.
    destruct (in_dec Nat.eq_dec a (t_target t1)) as [H1|H1]; [|left; apply D1a; assumption].
    destruct (in_dec Nat.eq_dec a (t_target t2)) as [H2|H2].
    + right. right. apply D3; assumption.
    + right. left. apply vetoed_app. right. apply vetoed_app. left. apply D2a; assumption.
  - intros k [Hk|[Hk|Hk]].
    + apply (cons_pad_l _ _ (fun k => is_self k = true \/ In k (allt (t_before t) tgt3)) _ n3 C12 K3);
        [|left; exact Hk].
      intros k' [Hk'|Hk'] [Hs|Hs].
      * apply in_map_iff in Hk'. destruct Hk' as (a & <- & _). discriminate.
      * apply in_map_iff in Hk'. destruct Hk' as (a & <- & _).
        unfold allt in Hs. apply in_flat_map in Hs. destruct Hs as (b & _ & Hs).
        unfold tkeys in Hs. apply in_map_iff in Hs. destruct Hs as (a' & E & _). discriminate.
      * apply in_map_iff in Hk'. destruct Hk' as (a & <- & _). discriminate.
      * apply in_map_iff in Hk'. destruct Hk' as (a & <- & _).
        unfold allt in Hs. apply in_flat_map in Hs. destruct Hs as (b & _ & Hs).
        unfold tkeys in Hs. apply in_map_iff in Hs. destruct Hs as (a' & E & _). discriminate.
    + apply (cons_pad_l _ _ (fun k => is_self k = true \/ In k (allt (t_before t) tgt3)) _ n3 C12 K3);
        [|right; exact Hk].
      intros k' [Hk'|Hk'] [Hs|Hs].
      * apply in_map_iff in Hk'. destruct Hk' as (a & <- & _). discriminate.
      * apply in_map_iff in Hk'. destruct Hk' as (a & <- & _).
        unfold allt in Hs. apply in_flat_map in Hs. destruct Hs as (b & _ & Hs).
        unfold tkeys in Hs. apply in_map_iff in Hs. destruct Hs as (a' & E & _). discriminate.
      * apply in_map_iff in Hk'. destruct Hk' as (a & <- & _). discriminate.
      * apply in_map_iff in Hk'. destruct Hk' as (a & <- & _).
        unfold allt in Hs. apply in_flat_map in Hs. destruct Hs as (b & _ & Hs).
        unfold tkeys in Hs. apply in_map_iff in Hs. destruct Hs as (a' & E & _). discriminate.
    + apply (cons_pad_r _ _ (fun k => In k (map HExit (t_exits t)) \/ In k (map HEnter (t_enters t)))
               n3 (n2 ++ n1) C3 K12); [|exact Hk].
      intros k' Hk' [Hs|Hs];
        unfold allt in Hk'; apply in_flat_map in Hk'; destruct Hk' as (b & _ & Hk');
        unfold tkeys in Hk'; apply in_map_iff in Hk'; destruct Hk' as (a' & <- & _);
        apply in_map_iff in Hs; destruct Hs as (a & E & _); discriminate.
Qed.

(* ------------------------------------------------------------------ *)
(* final handlers                                                      *)
(* ------------------------------------------------------------------ *)

Definition fkey (t : tstate) (x : nat) : hkey :=
  if mem x (t_enters t) then HState x else HEnd x.

Lemma emit_finals_ff : forall l s t s' t' o,
  good s -> t_invalid t = false -> emit_finals s t l = (s', t', o) ->
  t' = t /\ o = None /\ keeps s s' /\ good s' /\ (no_auto (queue s) -> no_auto (queue s')) /\
  exists new, hlog s' = new ++ hlog s /\ Forall (negent s) new /\
    Forall (fun h => exists x, In x l /\ hl_key h = fkey t x) new /\
    blocks (pst (fun _ => true) (rev new)) l /\
    forall k i, count_key new k i =
      (if defines (bindings s) i k then 1 else 0)
      * length (filter (fun x => hkey_eqb (fkey t x) k) l).
Proof.
  induction l as [|x r IH]; intros s t s' t' o G Hinv H.
  - simpl in H. inversion H; subst. split; [reflexivity|]. split; [reflexivity|].
    split; [apply keeps_refl|]. split; [exact G|]. split; [tauto|].
    exists []. split; [reflexivity|]. split; [constructor|]. split; [constructor|].
    split; [apply bl_nil|].
    intros k i. simpl. rewrite Nat.mul_0_r. reflexivity.
  - cbn [emit_finals] in H. fold (fkey t x) in H.
    destruct (handle s t (fkey t x)) as [[s1 t1] ok] eqn:Eh.
    assert (Hfin : is_final_key (fkey t x) = true).
    { unfold fkey. destruct (mem x (t_enters t)); reflexivity. }
    destruct (handle_nbase _ _ _ _ _ _ _ G Hinv Eh eq_refl)
      as (-> & Hh & new & B & C & _ & Hk).
    destruct (C Hfin) as [-> Hc].
    destruct B as (K1 & G1 & Q1 & _ & L1 & E1 & _).
    destruct (IH _ _ _ _ _ G1 Hinv H) as (-> & -> & K2 & G2 & Q2 & n2 & L2 & E2 & X2 & Bl2 & C2).
    split; [reflexivity|]. split; [reflexivity|]. split; [eapply keeps_trans; eassumption|].
    split; [exact G2|]. split; [tauto|].
    exists (n2 ++ new). split; [rewrite L2, L1, app_assoc; reflexivity|]. split.
    { apply Forall_app. split; [|exact E1].
      eapply Forall_impl; [|exact E2]. intros h [Y1 Y2]. unfold negent.
      rewrite <- (keeps_active _ _ K1), <- (keeps_clock _ _ K1). tauto. }
    split.
    { apply Forall_app. split.
      - eapply Forall_impl; [|exact X2]. intros h (y & Hy & Hky). exists y. split; [right; exact Hy|exact Hky].
      - eapply Forall_impl; [|exact Hk]. intros h Hkh. exists x. split; [left; reflexivity|exact Hkh]. }
    split.
    { rewrite rev_app_distr, pst_app, (pst_same_key _ (fkey t x) new Hk).
      replace (key_state (fkey t x)) with (Some x)
        by (unfold fkey; destruct (mem x (t_enters t)); reflexivity).
      apply blocks_repeat. exact Bl2. }
    intros k i. rewrite count_key_app, C2, (count_key_same new (fkey t x) k i Hk), Hc.
    rewrite (keeps_bindings _ _ K1). cbn [filter].
    destruct (hkey_eqb (fkey t x) k) eqn:Ek.
    + apply hkey_eqb_eq in Ek. subst k. cbn [length]. lia.
    + lia.
Qed.

Lemma emit_finals_app : forall l1 l2 s t,
  emit_finals s t (l1 ++ l2) =
  let '(s1, t1, o) := emit_finals s t l1 in
  match o with None => emit_finals s1 t1 l2 | Some k => (s1, t1, Some k) end.
Proof.
  induction l1 as [|x r IH]; intros l2 s t.
  - simpl. destruct (emit_finals s t l2) as [[s1 t1] o]. reflexivity.
  - cbn [app emit_finals].
    destruct (handle s t (if mem x (t_enters t) then HState x else HEnd x)) as [[s1 t1] ok].
    destruct ok; [apply IH | reflexivity].
Qed.

(* ------------------------------------------------------------------ *)
(* run_tx cut into its phases                                          *)
(* ------------------------------------------------------------------ *)

Definition tx_neg (s : st) (t0 : tstate) : st * tstate * nres :=
  if has_handlers s && negb (negb (t_accepted t0)) then negotiate s t0 else (s, t0, NOk).

Definition tx_anyenter (s s1 : st) (t1 : tstate) (canceled2 : bool) : st * tstate * bool :=
  if has_handlers s && negb canceled2 then
    let '(sx, tx, ok) := handle s1 t1 HAnyEnter in (sx, tx, negb ok)
  else (s1, t1, canceled2).

Definition tx_retarget (mu : mutation) (s2 : st) (t1 : tstate) : tstate :=
  if mu_auto mu then
    let called := mu_called mu in
    let rejected := diff called (t_target t1) in
    let clean := diff called rejected in
    let tg := target_states (rctx_of s2 t1) (states_to_set MAdd clean (active s2)) in
    with_exit_enter (sc s2) (topo s2) (active s2) (with_target t1 tg)
  else t1.

Definition tx_check_end (mu : mutation) (hfrom : nat) (s2 : st) (t1 : tstate) (canceled3 : bool)
  : st * result :=
  let acc := t_accepted t1 && negb canceled3 in
  let rec := {| tx_type := mu_type mu; tx_called := mu_called mu; tx_auto := mu_auto mu;
                tx_check := true; tx_qtick := mu_qtick mu;
                tx_before := t_clock_before t1; tx_after := t_clock_before t1;
                tx_active_before := t_before t1; tx_target := t_target t1;
                tx_accepted := acc; tx_mach_after := clock s2;
                tx_hfrom := hfrom; tx_hto := length (hlog s2) |} in
  (add_ev (add_tx s2 rec) EvEnd, if canceled3 then Canceled else Executed).

Definition tx_cancel_end (mu : mutation) (hfrom : nat) (s2 : st) (t2 : tstate) : st * result :=
  let rec := {| tx_type := mu_type mu; tx_called := mu_called mu; tx_auto := mu_auto mu;
                tx_check := false; tx_qtick := mu_qtick mu;
                tx_before := t_clock_before t2; tx_after := clock s2;
                tx_active_before := t_before t2; tx_target := t_target t2;
                tx_accepted := false; tx_mach_after := clock s2;
                tx_hfrom := hfrom; tx_hto := length (hlog s2) |} in
  (add_ev (add_tx s2 rec) EvEnd, Canceled).

Definition tx_finals (s3 : st) (t2 : tstate) : st * tstate * bool :=
  if has_handlers s3 then
    match emit_finals s3 t2 (t_exits t2 ++ t_enters t2) with
    | (sx, tx, Some k) => (if hung sx then sx else recover_final_phase sx tx k, tx, true)
    | (sx, tx, None) => (sx, tx, false)
    end
  else (s3, t2, false).

Definition tx_anystate (s4 : st) (t3 : tstate) (fcancel : bool) : st * tstate * bool :=
  if has_handlers s4 && negb fcancel then
    let '(sx, tx, ok) := handle s4 t3 HAnyState in (sx, tx, negb ok)
  else (s4, t3, fcancel).

Definition tx_apply (mu : mutation) (hfrom : nat) (s2 : st) (t2 : tstate) : st * result :=
  let cl := set_active_clock (sc s2) (clock s2) (active s2) (mu_called mu) (t_target t2) in
  let s3 := add_ev (set_mach s2 cl (t_target t2)) EvFinals in
  let '(s4, t3, fcancel) := tx_finals s3 t2 in
  if hung s4 then (s4, Canceled) else
  let changed := negb (nclock_eqb (clock s4) (t_clock_before t3)) in
  let '(s5, t4, fcancel2) := tx_anystate s4 t3 fcancel in
  if hung s5 then (s5, Canceled) else
  let s6 := if negb fcancel2 && changed && negb (mu_auto mu) && negb (is_health s5 mu)
            then prepend_auto s5 else s5 in
  let res :=
    if fcancel2 then Canceled else
    match mu_type mu with
    | MRemove => if mach_not s6 (mu_called mu) then Executed else Canceled
    | _ => if mu_auto mu then
             (if length (t_before t4) <? length (t_target t4) then Executed else Canceled)
           else (if mach_is s6 (t_target t4) then Executed else Canceled)
    end in
  let rec := {| tx_type := mu_type mu; tx_called := mu_called mu; tx_auto := mu_auto mu;
                tx_check := false; tx_qtick := mu_qtick mu;
                tx_before := t_clock_before t4; tx_after := cl;
                tx_active_before := t_before t4; tx_target := t_target t4;
                tx_accepted := t_accepted t4 && negb fcancel2; tx_mach_after := clock s6;
                tx_hfrom := hfrom; tx_hto := length (hlog s6) |} in
  (add_ev (add_tx s6 rec) EvEnd, res).

Definition run_tx' (s : st) (mu : mutation) : st * result :=
  let hfrom := length (hlog s) in
  let t0 := new_transition s mu in
  let s := add_ev (add_ev s EvInit) EvStart in
  let canceled0 := negb (t_accepted t0) in
  let '(s1, t1, nr) := tx_neg s t0 in
  match nr with
  | NCrash => (set_crashed s1, Canceled)
  | _ =>
    if hung s1 then (s1, Canceled) else
    let canceled1 := canceled0 || match nr with NCancel => true | _ => false end in
    let canceled2 :=
      if has_handlers s then
        canceled1 || (mu_auto mu && Nat.eqb (length (t_target t1)) 0)
      else canceled1 in
    let '(s2, t1, canceled3) := tx_anyenter s s1 t1 canceled2 in
    if hung s2 then (s2, Canceled) else
    if mu_check mu then tx_check_end mu hfrom s2 t1 canceled3
    else
      let t2 := tx_retarget mu s2 t1 in
      if negb canceled3 then tx_apply mu hfrom s2 t2 else tx_cancel_end mu hfrom s2 t2
  end.

Lemma run_tx_eq : forall s mu, run_tx s mu = run_tx' s mu.
Proof. intros s mu. reflexivity. Qed.

(* ------------------------------------------------------------------ *)
(* the apply phase                                                     *)
(* ------------------------------------------------------------------ *)

Definition same_cfg (s s' : st) : Prop :=
  sc s' = sc s /\ topo s' = topo s /\ health s' = health s /\ exc s' = exc s /\
  bindings s' = bindings s /\ qlimit s' = qlimit s.

Lemma keeps_same_cfg : forall s s', keeps s s' -> same_cfg s s'.
Proof. unfold keeps, same_cfg. tauto. Qed.

Lemma same_cfg_trans : forall a b c, same_cfg a b -> same_cfg b c -> same_cfg a c.
Proof.
  unfold same_cfg. intros a b c (A1 & A2 & A3 & A4 & A5 & A6) (B1 & B2 & B3 & B4 & B5 & B6).
  repeat split; congruence.
Qed.

Definition auto_mut (cands : list nat) : mutation :=
  {| mu_type := MAdd; mu_called := cands; mu_auto := true; mu_check := false;
     mu_args := false; mu_qtick := 0 |}.

Lemma nclock_clock_eqb : forall a b, nclock_eqb a b = clock_eqb b a.
Proof.
  induction a as [|x r IH]; intros [|y q]; simpl; try reflexivity.
  rewrite IH, N.eqb_sym. reflexivity.
Qed.

Lemma filter_single : forall (f : nat -> bool) x l,
  NoDup l -> (forall y, In y l -> f y = true -> y = x) ->
  length (filter f l) = if mem x l && f x then 1 else 0.
Proof.
  intros f x l Hnd. induction Hnd as [|y r Hnin Hnd IH]; intros Hf.
  - reflexivity.
  - assert (IH' := IH (fun z Hz => Hf z (or_intror Hz))).
    cbn [filter]. destruct (f y) eqn:Efy.
    + assert (y = x) by (apply Hf; [left; reflexivity | exact Efy]). subst y.
      cbn [length]. rewrite IH'.
      replace (mem x r) with false by (symmetry; apply mem_false; exact Hnin).
      unfold mem. cbn [existsb]. rewrite Nat.eqb_refl, Efy. reflexivity.
    + rewrite IH'. unfold mem. cbn [existsb]. fold (mem x r).
      destruct (Nat.eqb x y) eqn:Exy.
      * apply Nat.eqb_eq in Exy. subst y. rewrite Efy, !andb_false_r. reflexivity.
      * reflexivity.
Qed.

Definition fin_seen (tg : list nat) (cl : list N) (h : hlentry) : Prop :=
  hl_active h = tg /\ hl_clock h = cl.

(* what the queue looks like after the transition, depending on the trigger *)
Definition queue_after (trig : bool) (cands : list nat) (s s' : st) : Prop :=
  match trig, cands with
  | true, c :: cs => exists q, queue s' = auto_mut (c :: cs) :: q /\
                               (no_auto (queue s) -> no_auto q)
  | _, _ => no_auto (queue s) -> no_auto (queue s')
  end.

Lemma tx_apply_ff : forall mu hfrom s2 t2 s' r,
  good s2 -> t_invalid t2 = false -> t_accepted t2 = true ->
  tx_apply mu hfrom s2 t2 = (s', r) ->
  let cl := set_active_clock (sc s2) (clock s2) (active s2) (mu_called mu) (t_target t2) in
  exists fins,
    hlog s' = fins ++ hlog s2 /\ same_cfg s2 s' /\ good s' /\ crashed s' = crashed s2 /\
    txs s' =
      {| tx_type := mu_type mu; tx_called := mu_called mu; tx_auto := mu_auto mu;
         tx_check := false; tx_qtick := mu_qtick mu;
         tx_before := t_clock_before t2; tx_after := cl;
         tx_active_before := t_before t2; tx_target := t_target t2;
         tx_accepted := true; tx_mach_after := cl;
         tx_hfrom := hfrom; tx_hto := length (hlog s') |} :: txs s2 /\
    active s' = t_target t2 /\ clock s' = cl /\
    Forall (fin_seen (t_target t2) cl) fins /\
    (exists f1 f2, fins = f2 ++ f1 /\
       Forall (fun h => exists x, In x (t_exits t2 ++ t_enters t2) /\ hl_key h = fkey t2 x) f1 /\
       (forall l1 l2, t_exits t2 ++ t_enters t2 = l1 ++ l2 ->
          exists g1 g2, f1 = g2 ++ g1 /\
            Forall (fun h => exists x, In x l1 /\ hl_key h = fkey t2 x) g1 /\
            Forall (fun h => exists x, In x l2 /\ hl_key h = fkey t2 x) g2 /\
            blocks (pst (fun _ => true) (rev g1)) l1 /\
            blocks (pst (fun _ => true) (rev g2)) l2) /\
       Forall (fun h => hl_key h = HAnyState) f2) /\
    (forall k i, k <> HAnyState -> count_key fins k i =
       (if defines (bindings s2) i k then 1 else 0)
       * length (filter (fun x => hkey_eqb (fkey t2 x) k) (t_exits t2 ++ t_enters t2))) /\
    queue_after (negb (nclock_eqb cl (t_clock_before t2)) && negb (mu_auto mu)
                 && negb (is_health s2 mu))
                (auto_candidates (sc s2) (t_target t2)) s2 s'.
Proof.
  intros mu hfrom s2 t2 s' r G Hinv Hacc H cl. unfold tx_apply in H. fold cl in H.
  set (s3 := add_ev (set_mach s2 cl (t_target t2)) EvFinals) in *.
  assert (G3 : good s3) by exact G.
  assert (C3 : same_cfg s2 s3) by (unfold same_cfg; repeat split).
  (* final handlers of the changed states *)
  assert (F : exists s4 f1, tx_finals s3 t2 = (s4, t2, false) /\ keeps s3 s4 /\ good s4 /\
            (no_auto (queue s3) -> no_auto (queue s4)) /\ hlog s4 = f1 ++ hlog s3 /\
            Forall (negent s3) f1 /\
            Forall (fun h => exists x, In x (t_exits t2 ++ t_enters t2) /\ hl_key h = fkey t2 x) f1 /\
            (forall l1 l2, t_exits t2 ++ t_enters t2 = l1 ++ l2 ->
               exists g1 g2, f1 = g2 ++ g1 /\
                 Forall (fun h => exists x, In x l1 /\ hl_key h = fkey t2 x) g1 /\
                 Forall (fun h => exists x, In x l2 /\ hl_key h = fkey t2 x) g2 /\
                 blocks (pst (fun _ => true) (rev g1)) l1 /\
                 blocks (pst (fun _ => true) (rev g2)) l2) /\
            (forall k i, count_key f1 k i =
               (if defines (bindings s3) i k then 1 else 0)
               * length (filter (fun x => hkey_eqb (fkey t2 x) k) (t_exits t2 ++ t_enters t2)))).
  { unfold tx_finals. destruct (has_handlers s3) eqn:Hh.
    - destruct (emit_finals s3 t2 (t_exits t2 ++ t_enters t2)) as [[sx tx] o] eqn:Ef.
      destruct (emit_finals_ff _ _ _ _ _ _ G3 Hinv Ef)
        as (-> & -> & K & G4 & Q & f1 & L & E & X & _ & C).
      exists sx, f1. split; [reflexivity|]. split; [exact K|]. split; [exact G4|].
      split; [exact Q|]. split; [exact L|]. split; [exact E|]. split; [exact X|].
      split; [|exact C].
      intros l1 l2 Hsplit. rewrite Hsplit, emit_finals_app in Ef.
      destruct (emit_finals s3 t2 l1) as [[sa ta] oa] eqn:Ea.
      destruct (emit_finals_ff _ _ _ _ _ _ G3 Hinv Ea)
        as (-> & -> & Ka & Ga & _ & g1 & La & _ & Xa & Bla & _).
      destruct (emit_finals_ff _ _ _ _ _ _ Ga Hinv Ef)
        as (_ & _ & _ & _ & _ & g2 & Lb & _ & Xb & Blb & _).
      exists g1, g2. split; [|split; [exact Xa|split; [exact Xb|split; assumption]]].
      rewrite La, app_assoc in Lb. rewrite L in Lb. apply app_inv_tail in Lb. exact Lb.
    - exists s3, []. split; [reflexivity|]. split; [apply keeps_refl|]. split; [exact G3|].
      split; [tauto|]. split; [reflexivity|]. split; [constructor|]. split; [constructor|].
      split.
      + intros l1 l2 _. exists [], []. split; [reflexivity|]. split; [constructor|].
        split; [constructor|]. split; apply bl_nil.
      + intros k i. unfold count_key. cbn [filter length].
        unfold has_handlers in Hh. apply negb_false_iff, Nat.eqb_eq in Hh.
        destruct (bindings s3); [|discriminate]. rewrite defines_nil. reflexivity. }
  destruct F as (s4 & f1 & EF & K4 & G4 & Q4 & L4 & E4 & X4 & S4 & C4).
  rewrite EF in H. destruct G4 as (G4a & G4b & G4c). rewrite G4c in H.
  assert (G4 : good s4) by (unfold good; tauto).
  (* AnyState *)
  assert (A : exists s5 f2, tx_anystate s4 t2 false = (s5, t2, false) /\ keeps s4 s5 /\ good s5 /\
            (no_auto (queue s4) -> no_auto (queue s5)) /\ hlog s5 = f2 ++ hlog s4 /\
            Forall (negent s4) f2 /\ Forall (fun h => hl_key h = HAnyState) f2).
  { unfold tx_anystate. rewrite andb_true_r. destruct (has_handlers s4) eqn:Hh.
    - destruct (handle s4 t2 HAnyState) as [[sx tx] ok] eqn:Eh.
      destruct (handle_nbase _ _ _ _ _ _ 5 G4 Hinv Eh eq_refl) as (-> & _ & f2 & B & C & _ & Hk).
      destruct (C eq_refl) as [-> _].
      destruct B as (K5 & G5 & Q5 & _ & L5 & E5 & _).
      exists sx, f2. repeat (split; [assumption|]). split; [reflexivity|].
      repeat (split; [assumption|]). exact Hk.
    - exists s4, []. split; [reflexivity|]. split; [apply keeps_refl|]. split; [exact G4|].
      split; [tauto|]. split; [reflexivity|]. split; constructor. }
  destruct A as (s5 & f2 & EA & K5 & G5 & Q5 & L5 & E5 & X5).
  rewrite EA in H. destruct G5 as (G5a & G5b & G5c). rewrite G5c in H.
  assert (G5 : good s5) by (unfold good; tauto).
  cbn [negb andb] in H.
  assert (K35 : keeps s3 s5) by (eapply keeps_trans; eassumption).
  assert (Hcl5 : clock s5 = cl) by (rewrite (keeps_clock _ _ K35); reflexivity).
  assert (Hac5 : active s5 = t_target t2) by (rewrite (keeps_active _ _ K35); reflexivity).
  assert (Hcl4 : clock s4 = cl) by (rewrite (keeps_clock _ _ K4); reflexivity).
  rewrite Hcl4 in H.
  assert (Hhealth : is_health s5 mu = is_health s2 mu).
  { unfold is_health. rewrite (keeps_health _ _ K35). reflexivity. }
  rewrite Hhealth in H.
  set (trig := negb (nclock_eqb cl (t_clock_before t2)) && negb (mu_auto mu)
               && negb (is_health s2 mu)) in *.
  set (s6 := if trig then prepend_auto s5 else s5) in *.
  assert (P6 : keeps s5 s6 /\ actions s6 = actions s5 /\ hlog s6 = hlog s5 /\
               queue_after trig (auto_candidates (sc s2) (t_target t2)) s5 s6).
  { unfold s6. destruct trig.
    - unfold prepend_auto. rewrite Hac5, (keeps_sc _ _ K35).
      change (sc s3) with (sc s2).
      destruct (auto_candidates (sc s2) (t_target t2)) as [|c cs].
      + split; [apply keeps_refl|]. split; [reflexivity|]. split; [reflexivity|].
        unfold queue_after. tauto.
      + split; [unfold keeps; repeat split|]. split; [reflexivity|]. split; [reflexivity|].
        unfold queue_after. exists (queue s5). split; [reflexivity | tauto].
    - split; [apply keeps_refl|]. split; [reflexivity|]. split; [reflexivity|].
      unfold queue_after. destruct (auto_candidates (sc s2) (t_target t2)); tauto. }
  destruct P6 as (K6 & A6 & L6 & Q6).
  inversion H; subst s' r. clear H.
  exists (f2 ++ f1).
  assert (K36 : keeps s3 s6) by (eapply keeps_trans; eassumption).
  split; [cbn; rewrite L6, L5, L4, app_assoc; reflexivity|].
  split; [eapply same_cfg_trans; [exact C3 | eapply same_cfg_trans;
            [apply keeps_same_cfg; exact K36 | unfold same_cfg; repeat split]]|].
  split.
  { unfold good. cbn. rewrite A6, (keeps_loop _ _ K6), (keeps_hung _ _ K6). tauto. }
  split; [cbn; rewrite (keeps_crashed _ _ K36); reflexivity|].
  split.
  { cbn. rewrite (keeps_txs _ _ K36), Hacc, (keeps_clock _ _ K6), Hcl5. cbn. reflexivity. }
  split; [cbn; rewrite (keeps_active _ _ K6); exact Hac5|].
  split; [cbn; rewrite (keeps_clock _ _ K6); exact Hcl5|].
  split.
  { apply Forall_app. split.
    - eapply Forall_impl; [|exact E5]. intros h [Y1 Y2]. unfold fin_seen.
      rewrite Y1, Y2, (keeps_active _ _ K4), Hcl4. split; reflexivity.
    - eapply Forall_impl; [|exact E4]. intros h [Y1 Y2]. unfold fin_seen.
      rewrite Y1, Y2. split; reflexivity. }
  split.
  { exists f1, f2. split; [reflexivity|]. split; [exact X4|]. split; [exact S4 | exact X5]. }
  split.
  { intros k i Hk. rewrite count_key_app, C4.
    rewrite (count_key_same f2 HAnyState k i X5).
    rewrite (hkey_eqb_neq HAnyState k) by congruence. reflexivity. }
  unfold queue_after in *. destruct trig.
  - destruct (auto_candidates (sc s2) (t_target t2)) as [|c cs].
    + cbn. tauto.
    + destruct Q6 as (q & Hq & Hn). exists q. split; [exact Hq|]. cbn in *. tauto.
  - cbn. destruct (auto_candidates (sc s2) (t_target t2)); cbn in *; tauto.
Qed.

(* ------------------------------------------------------------------ *)
(* the front of run_tx: newTransition, negotiation, AnyEnter           *)
(* ------------------------------------------------------------------ *)

Definition exen_ok (scm : schema) (tp act : list nat) (t : tstate) : Prop :=
  t_exits t = sort_states scm tp (diff act (t_target t)) /\
  t_enters t = filter (fun x => negb (mem x act)
                         || (s_multi (sget scm x) && mem x (mu_called (t_mut t)))) (t_target t).

Lemma new_transition_facts : forall s mu,
  t_mut (new_transition s mu) = mu /\ t_before (new_transition s mu) = active s /\
  t_clock_before (new_transition s mu) = clock s /\ t_invalid (new_transition s mu) = false /\
  t_target (new_transition s mu) = resolve (sc s) (topo s) (active s) (mu_type mu) (mu_called mu) /\
  t_accepted (new_transition s mu) = setup_accepted s mu (t_target (new_transition s mu)) /\
  (t_accepted (new_transition s mu) = true ->
   exen_ok (sc s) (topo s) (active s) (new_transition s mu)).
Proof.
  intros s mu. unfold new_transition.
  set (c := {| rc_schema := sc s; rc_before := active s; rc_mtype := mu_type mu;
               rc_called := mu_called mu; rc_topology := topo s |}).
  set (tg := target_states c (states_to_set (mu_type mu) (mu_called mu) (active s))).
  destruct (setup_accepted s mu tg) eqn:Ea; cbn [t_mut t_before t_clock_before t_invalid
    t_target t_accepted with_exit_enter].
  - split; [reflexivity|]. split; [reflexivity|]. split; [reflexivity|].
    split; [reflexivity|]. split; [reflexivity|]. split; [symmetry; exact Ea|].
    intros _. unfold exen_ok. cbn. split; reflexivity.
  - split; [reflexivity|]. split; [reflexivity|]. split; [reflexivity|].
    split; [reflexivity|]. split; [reflexivity|]. split; [symmetry; exact Ea|].
    discriminate.
Qed.

(* a sub-sequence of (a filter of) some sorted list *)
Definition sorted_sub (scm : schema) (tp : list nat) (l : list nat) : Prop :=
  exists L p, srt_sublist l (filter p (sort_states scm tp L)).

Lemma sorted_sub_nil : forall scm tp, sorted_sub scm tp [].
Proof. intros scm tp. exists [], (fun _ => true). apply srt_sublist_nil_l. Qed.

Lemma sorted_sub_exits : forall scm tp act t l,
  exen_ok scm tp act t -> srt_sublist l (t_exits t) -> sorted_sub scm tp l.
Proof.
  intros scm tp act t l [He _] H. exists (diff act (t_target t)), (fun _ => true).
  rewrite filter_all_true by reflexivity. rewrite <- He. exact H.
Qed.

Lemma sorted_sub_enters : forall scm tp act t l c ts,
  exen_ok scm tp act t -> t_target t = target_states c ts ->
  rc_schema c = scm -> rc_topology c = tp ->
  srt_sublist l (t_enters t) -> sorted_sub scm tp l.
Proof.
  intros scm tp act t l c ts [_ Hn] Ht Hs Hp H. rewrite Hn, Ht in H.
  unfold target_states in H. rewrite Hs, Hp in H. eexists. eexists. exact H.
Qed.

Definition veto_head (negs : list hlentry) : Prop :=
  exists e rest, negs = e :: rest /\ hl_ret e = false /\ Forall rettrue rest.

Lemma tx_anyenter_ff : forall sA s1 t1 c2 s2 t1' c3,
  good s1 -> t_invalid t1 = false -> tx_anyenter sA s1 t1 c2 = (s2, t1', c3) ->
  t1' = t1 /\ exists n2, nbase 2 2 s1 t1 s2 t1 n2 /\
    ((c3 = c2 /\ n2 = [] /\ has_handlers sA && negb c2 = false) \/
     (c2 = false /\ has_handlers sA = true /\ vshape (negb c3) n2)) /\
    keysin (fun k => HAnyEnter = k) n2.
Proof.
  intros sA s1 t1 c2 s2 t1' c3 G Hinv H. unfold tx_anyenter in H.
  destruct (has_handlers sA && negb c2) eqn:Eh.
  - destruct (handle s1 t1 HAnyEnter) as [[sx tx] ok] eqn:Ehd.
    destruct (handle_nbase _ _ _ _ _ _ 2 G Hinv Ehd eq_refl) as (-> & _ & n2 & B & _ & V & Hk).
    inversion H; subst. split; [reflexivity|]. exists n2. split; [exact B|]. split.
    + right.
      apply andb_true_iff in Eh. destruct Eh as [E1 E2]. apply negb_true_iff in E2.
      split; [exact E2|]. split; [exact E1|]. rewrite negb_involutive. exact (V eq_refl).
    + eapply Forall_impl; [|exact Hk]. intros h Y. symmetry. exact Y.
  - inversion H; subst. split; [reflexivity|]. exists []. split; [apply nbase_refl; exact G|].
    split; [left; tauto | constructor].
Qed.

Lemma negc_pad : forall bs act t n m,
  negc bs act t n -> keysin (fun k => is_final_key k = true \/ HAnyEnter = k) m ->
  negc bs act t (m ++ n).
Proof.
  intros bs act t n m (tgt3 & D & A & C) K. exists tgt3. split; [|split].
  - intros a Ha Hn. destruct (D a Ha Hn) as [Hx|[Hx|Hx]]; [tauto| |tauto].
    right. left. apply vetoed_app. right. exact Hx.
  - intros Hall. apply Forall_app in Hall. apply A. tauto.
  - apply (cons_pad_l _ _ _ _ _ C K).
    intros k [Hk|[Hk|Hk]] [Hf|Hf].
    + apply in_map_iff in Hk. destruct Hk as (a & <- & _). discriminate.
    + apply in_map_iff in Hk. destruct Hk as (a & <- & _). discriminate.
    + apply in_map_iff in Hk. destruct Hk as (a & <- & _). discriminate.
    + apply in_map_iff in Hk. destruct Hk as (a & <- & _). discriminate.
    + unfold allt in Hk. apply in_flat_map in Hk. destruct Hk as (b & _ & Hk).
      unfold tkeys in Hk. apply in_map_iff in Hk. destruct Hk as (a & <- & _). discriminate.
    + unfold allt in Hk. apply in_flat_map in Hk. destruct Hk as (b & _ & Hk).
      unfold tkeys in Hk. apply in_map_iff in Hk. destruct Hk as (a & <- & _). discriminate.
Qed.

Lemma new_transition_nodup : forall s mu, NoDup (active s) ->
  NoDup (t_exits (new_transition s mu)) /\ NoDup (t_enters (new_transition s mu)) /\
  NoDup (t_before (new_transition s mu)) /\ NoDup (t_target (new_transition s mu)).
Proof.
  intros s mu Hnd. unfold new_transition.
  destruct (setup_accepted s mu _); cbn [t_exits t_enters t_before t_target with_exit_enter].
  - split; [apply sort_states_NoDup; apply NoDup_filter; exact Hnd|].
    split; [apply NoDup_filter; apply target_states_NoDup|].
    split; [exact Hnd | apply target_states_NoDup].
  - split; [constructor|]. split; [constructor|]. split; [exact Hnd | apply target_states_NoDup].
Qed.

Lemma tx_neg_ff : forall sA t0 s1 t1 nr,
  good sA -> t_invalid t0 = false -> tx_neg sA t0 = (s1, t1, nr) ->
  exists n1, nbase 0 2 sA t0 s1 t1 n1 /\
    (Forall rettrue n1 -> nr = NOk /\ t_target t1 = t_target t0) /\
    (mu_auto (t_mut t0) = false -> t_target t1 = t_target t0 /\ nshape nr n1) /\
    (t_accepted t0 = false -> n1 = [] /\ nr = NOk) /\
    ordn t0 n1 /\
    (nr = NOk -> t_accepted t0 = true ->
     NoDup (t_exits t0) -> NoDup (t_enters t0) -> NoDup (t_before t0) -> NoDup (t_target t0) ->
     negc (bindings sA) (active sA) t0 n1).
Proof.
  intros sA t0 s1 t1 nr G Hinv H. unfold tx_neg in H.
  destruct (has_handlers sA && negb (negb (t_accepted t0))) eqn:Eh.
  - destruct (negotiate_ff _ _ _ _ _ G Hinv H) as (n1 & B & A & V).
    exists n1. split; [exact B|]. split; [exact (A eq_refl)|]. split; [exact (V eq_refl)|].
    split; [|split].
    + intros Hacc. rewrite Hacc, andb_false_r in Eh. discriminate.
    + eapply negotiate_ord; [exact G | exact Hinv | exact H | apply B].
    + intros -> _ N1 N2 N3 N4.
      eapply negotiate_cons; [exact G | exact Hinv | exact N1 | exact N2 | exact N3 | exact N4
                             | exact H | apply B].
  - inversion H; subst. exists []. split; [apply nbase_refl; exact G|].
    split; [tauto|]. split; [|split; [tauto|split]].
    + intros _. split; [reflexivity|]. left. split; [reflexivity | constructor].
    + split; apply srt_sublist_nil_l.
    + intros _ Hacc _ _ _ _. rewrite Hacc, andb_true_r in Eh.
      unfold has_handlers in Eh. apply negb_false_iff, Nat.eqb_eq in Eh.
      exists (t_target t1). split; [intros a Ha Hn; contradiction|]. split; [reflexivity|].
      intros k _. right. intros i. destruct (bindings s1); [|discriminate].
      rewrite defines_nil. reflexivity.
Qed.

Lemma ordn_app_rank2 : forall t n1 n2,
  ordn t n1 -> bounded 2 2 (map rk (rev n2)) -> ordn t (n2 ++ n1).
Proof.
  intros t n1 n2 [O1 O2] [_ F]. unfold ordn.
  assert (R : Forall (fun h => 2 <= phase_rank (hl_key h) <= 2) (rev n2)).
  { apply Forall_forall. intros h Hh. rewrite Forall_forall in F. apply (F (rk h)).
    apply in_map. exact Hh. }
  rewrite rev_app_distr, !pst_app.
  rewrite (rank_range_pst_nil is_exit 0 2 2 (rev n2) is_exit_rank (or_introl (Nat.lt_0_succ 1)) R).
  rewrite (rank_range_pst_nil is_enter 1 2 2 (rev n2) is_enter_rank
             (or_introl (Nat.lt_succ_diag_r 1)) R).
  rewrite !app_nil_r. split; assumption.
Qed.

Lemma tx_front : forall s mu s' r, good s -> run_tx s mu = (s', r) ->
  let t0 := new_transition s mu in
  let sA := add_ev (add_ev s EvInit) EvStart in
  (exists s1 t1 negs, s' = set_crashed s1 /\ nbase 0 2 sA t0 s1 t1 negs /\
     mu_auto mu = true /\ ~ Forall rettrue negs /\ ordn t0 negs /\
     tx_neg sA t0 = (s1, t1, NCrash))
  \/
  exists s2 t1 negs canceled,
    nbase 0 2 sA t0 s2 t1 negs /\
    (mu_auto mu = false -> t_target t1 = t_target t0 /\
       ((canceled = false /\ Forall rettrue negs) \/
        (canceled = true /\ (negs = [] \/ veto_head negs)))) /\
    (Forall rettrue negs -> t_target t1 = t_target t0 /\
       canceled = negb (t_accepted t0)
                  || (has_handlers s && (mu_auto mu && Nat.eqb (length (t_target t0)) 0))) /\
    (canceled = false -> t_accepted t0 = true) /\
    (ordn t0 negs /\
     (canceled = false -> NoDup (active s) -> negc (bindings s) (active s) t0 negs) /\
     (exists s1 nr n1 n2,
        tx_neg sA t0 = (s1, t1, nr) /\ hlog s1 = n1 ++ hlog sA /\ negs = n2 ++ n1 /\
        keysin (fun k => HAnyEnter = k) n2 /\ (nr = NCancel -> canceled = true) /\
        (nr = NOk -> Forall rettrue n2 ->
         canceled = negb (t_accepted t0)
                    || (has_handlers s && (mu_auto mu && Nat.eqb (length (t_target t1)) 0))))) /\
    (s', r) = if mu_check mu then tx_check_end mu (length (hlog s)) s2 t1 canceled
              else if negb canceled
                   then tx_apply mu (length (hlog s)) s2 (tx_retarget mu s2 t1)
                   else tx_cancel_end mu (length (hlog s)) s2 (tx_retarget mu s2 t1).
Proof.
  intros s mu s' r G H t0 sA. rewrite run_tx_eq in H. unfold run_tx' in H.
  fold t0 in H. fold sA in H.
  destruct (new_transition_facts s mu) as (Tm & _ & _ & Tinv & _). fold t0 in Tm, Tinv.
  assert (GA : good sA) by exact G.
  destruct (tx_neg sA t0) as [[s1 t1] nr] eqn:En.
  destruct (tx_neg_ff _ _ _ _ _ GA Tinv En) as (n1 & B1 & A1 & V1 & S1 & O1 & Nc1).
  rewrite Tm in V1.
  assert (G1 : good s1) by apply B1.
  assert (Hinv1 : t_invalid t1 = false).
  { destruct B1 as (_ & _ & _ & T & _). rewrite (tkeeps_invalid _ _ T). exact Tinv. }
  assert (Hh1 : hung s1 = false) by apply G1.
  change (has_handlers sA) with (has_handlers s) in H.
  destruct nr.
  - (* NOk *)
    rewrite Hh1 in H. rewrite orb_false_r in H.
    set (c2 := if has_handlers s
               then negb (t_accepted t0) || (mu_auto mu && Nat.eqb (length (t_target t1)) 0)
               else negb (t_accepted t0)) in *.
    destruct (tx_anyenter sA s1 t1 c2) as [[s2 t1'] c3] eqn:Ea.
    destruct (tx_anyenter_ff _ _ _ _ _ _ _ G1 Hinv1 Ea) as (-> & n2 & B2 & D & Kae).
    change (has_handlers sA) with (has_handlers s) in D.
    assert (G2 : good s2) by apply B2.
    assert (Hh2 : hung s2 = false) by apply G2. rewrite Hh2 in H.
    right. exists s2, t1, (n2 ++ n1), c3.
    split; [eapply nbase_seq; [exact B1 | exact B2 | lia | lia | lia]|].
    assert (F4' : c3 = false -> t_accepted t0 = true).
    { intros Hc3. destruct D as [(Hx & _ & _)|(Hc & Hhh & _)].
      - rewrite Hx in Hc3. unfold c2 in Hc3. destruct (has_handlers s).
        + apply orb_false_iff in Hc3. destruct Hc3 as [Hy _]. apply negb_false_iff in Hy. exact Hy.
        + apply negb_false_iff in Hc3. exact Hc3.
      - unfold c2 in Hc. rewrite Hhh in Hc.
        apply orb_false_iff in Hc. destruct Hc as [Hy _]. apply negb_false_iff in Hy. exact Hy. }
    split; [|split; [|split; [|split; [|symmetry; exact H]]]];
      [| | |split; [apply ordn_app_rank2; [exact O1 | apply B2]|]].
    4:{ split.
        { intros Hc3 Hnd. apply negc_pad.
          - destruct (new_transition_nodup s mu Hnd) as (N1 & N2 & N3 & N4).
            apply (Nc1 eq_refl (F4' Hc3) N1 N2 N3 N4).
          - eapply keysin_weaken; [|exact Kae]. intros k Hk. right. exact Hk. }
        exists s1, NOk, n1, n2. split; [reflexivity|]. split; [apply B1|]. split; [reflexivity|].
        split; [exact Kae|]. split; [discriminate|].
        intros _ Hall2.
        assert (Hcc : c3 = c2).
        { destruct D as [(Hx & _ & _)|(Hc & _ & Vs)]; [exact Hx|].
          destruct Vs as [[Hok _]|[_ (e & rest & Hn2 & Hr & _)]].
          - apply negb_true_iff in Hok. congruence.
          - exfalso. rewrite Hn2 in Hall2. inversion Hall2 as [|? ? Hre Hrest].
            unfold rettrue in Hre. congruence. }
        rewrite Hcc. unfold c2. destruct (has_handlers s); cbn; [reflexivity|].
        rewrite orb_false_r. reflexivity. }
    + intros Hm. destruct (V1 Hm) as [Ht Hs]. split; [exact Ht|].
      assert (Hall1 : Forall rettrue n1).
      { destruct Hs as [[_ Hx]|[Hx _]]; [exact Hx | discriminate]. }
      assert (Hc2 : c2 = negb (t_accepted t0)).
      { unfold c2. rewrite Hm. cbn. rewrite orb_false_r. destruct (has_handlers s); reflexivity. }
      destruct D as [(-> & -> & _)|(Hc & _ & Vs)].
      * rewrite Hc2. destruct (t_accepted t0) eqn:Eacc; cbn.
        -- left. split; [reflexivity | exact Hall1].
        -- right. split; [reflexivity|]. left. destruct (S1 eq_refl) as [-> _]. reflexivity.
      * destruct Vs as [[Hok Hall2]|[Hok (e & rest & -> & Hr & Hall2)]].
        -- left. apply negb_true_iff in Hok. split; [exact Hok|]. apply Forall_app. tauto.
        -- right. apply negb_false_iff in Hok. split; [exact Hok|]. right.
           exists e, (rest ++ n1). split; [reflexivity|]. split; [exact Hr|].
           apply Forall_app. tauto.
    + intros Hall. apply Forall_app in Hall. destruct Hall as [Hall2 Hall1].
      destruct (A1 Hall1) as [_ Ht]. split; [exact Ht|].
      destruct D as [(-> & -> & Hhh)|(Hc & Hhh & Vs)].
      * unfold c2 in *. rewrite Ht in *. destruct (has_handlers s); cbn.
        -- reflexivity.
        -- rewrite orb_false_r. reflexivity.
      * destruct Vs as [[Hok _]|[_ (e & rest & -> & Hr & _)]].
        -- apply negb_true_iff in Hok. rewrite Hok. unfold c2 in Hc. rewrite Hhh, Ht in Hc.
           rewrite Hhh. cbn. symmetry. exact Hc.
        -- inversion Hall2 as [|? ? Hre Hrest]. unfold rettrue in Hre. congruence.
    + intros Hc3. destruct D as [(-> & _ & _)|(Hc & Hhh & _)].
      * unfold c2 in Hc3. destruct (has_handlers s).
        -- apply orb_false_iff in Hc3. destruct Hc3 as [Hx _]. apply negb_false_iff in Hx. exact Hx.
        -- apply negb_false_iff in Hc3. exact Hc3.
      * unfold c2 in Hc. rewrite Hhh in Hc.
        apply orb_false_iff in Hc. destruct Hc as [Hx _]. apply negb_false_iff in Hx. exact Hx.
  - (* NCancel *)
    rewrite Hh1 in H. rewrite orb_true_r in H.
    replace (if has_handlers s then true || (mu_auto mu && Nat.eqb (length (t_target t1)) 0) else true)
      with true in H by (destruct (has_handlers s); reflexivity).
    unfold tx_anyenter in H. rewrite andb_false_r in H. rewrite Hh1 in H.
    right. exists s1, t1, n1, true.
    split; [exact B1|]. split; [|split; [|split; [discriminate
      | split; [split; [exact O1 | split; [intros Hx; discriminate|]] | symmetry; exact H]]]].
    3:{ exists s1, NCancel, n1, []. split; [reflexivity|]. split; [apply B1|]. split; [reflexivity|].
        split; [constructor|]. split; [reflexivity | discriminate]. }
    + intros Hm. destruct (V1 Hm) as [Ht Hs]. split; [exact Ht|]. right. split; [reflexivity|].
      right. destruct Hs as [[Hx _]|[_ Hx]]; [discriminate | exact Hx].
    + intros Hall. destruct (A1 Hall) as [Hx _]. discriminate.
  - (* NCrash *)
    left. inversion H; subst s' r. exists s1, t1, n1. split; [reflexivity|]. split; [exact B1|].
    split.
    + destruct (mu_auto mu) eqn:Em; [reflexivity|].
      destruct (V1 eq_refl) as [_ [[Hx _]|[Hx _]]]; discriminate.
    + split; [|split; [exact O1 | reflexivity]]. intros Hall. destruct (A1 Hall) as [Hx _]. discriminate.
Qed.

Lemma new_transition_sorted : forall s mu l,
  (srt_sublist l (t_exits (new_transition s mu)) -> sorted_sub (sc s) (topo s) l) /\
  (srt_sublist l (t_enters (new_transition s mu)) -> sorted_sub (sc s) (topo s) l).
Proof.
  intros s mu l. unfold new_transition.
  destruct (setup_accepted s mu _); cbn [t_exits t_enters with_exit_enter t_target t_mut].
  - split; intros H.
    + eexists. exists (fun _ => true). rewrite filter_all_true by reflexivity. exact H.
    + unfold target_states in H. cbn [rc_schema rc_topology] in H. eexists. eexists. exact H.
  - split; intros H; inversion H; apply sorted_sub_nil.
Qed.

Lemma ordn_sorted_sub : forall s mu negs, ordn (new_transition s mu) negs ->
  sorted_sub (sc s) (topo s) (uniq (pst is_exit (rev negs))) /\
  sorted_sub (sc s) (topo s) (uniq (pst is_enter (rev negs))).
Proof.
  intros s mu negs [O1 O2]. split.
  - apply (proj1 (new_transition_sorted s mu _)). exact O1.
  - apply (proj2 (new_transition_sorted s mu _)). exact O2.
Qed.

(* ------------------------------------------------------------------ *)
(* properties of the final-handler block                               *)
(* ------------------------------------------------------------------ *)

Lemma NoDup_app_intro : forall (A : Type) (l1 l2 : list A),
  NoDup l1 -> NoDup l2 -> (forall x, In x l1 -> ~ In x l2) -> NoDup (l1 ++ l2).
Proof.
  intros A l1 l2 H1 H2 Hd. induction H1 as [|x r Hnin Hnd IH]; [exact H2|].
  cbn. constructor.
  - intros Hin. apply in_app_or in Hin. destruct Hin as [Hin|Hin]; [contradiction|].
    apply (Hd x); [left; reflexivity | exact Hin].
  - apply IH. intros y Hy. apply Hd. right. exact Hy.
Qed.

Lemma bounded_rank_const : forall n g, Forall (fun h => rk h = n) g -> bounded n n (map rk (rev g)).
Proof.
  intros n g H. apply bounded_const. apply Forall_forall. intros x Hx.
  apply in_map_iff in Hx. destruct Hx as (h & <- & Hh). apply in_rev in Hh.
  rewrite Forall_forall in H. apply H. exact Hh.
Qed.

Lemma exen_disjoint : forall scm tp act t x, exen_ok scm tp act t ->
  In x (t_exits t) -> ~ In x (t_enters t).
Proof.
  intros scm tp act t x [He Hn] Hx Hy. rewrite He in Hx. rewrite Hn in Hy.
  apply sort_states_In, diff_In in Hx. apply filter_In in Hy. tauto.
Qed.

Lemma fkey_exit : forall t x, ~ In x (t_enters t) -> fkey t x = HEnd x.
Proof. intros t x H. unfold fkey. apply mem_false in H. rewrite H. reflexivity. Qed.

Lemma fkey_enter : forall t x, In x (t_enters t) -> fkey t x = HState x.
Proof. intros t x H. unfold fkey. apply mem_In in H. rewrite H. reflexivity. Qed.

Lemma finals_props : forall scm tp act t2 bs fins,
  exen_ok scm tp act t2 ->
  (exists f1 f2, fins = f2 ++ f1 /\
     Forall (fun h => exists x, In x (t_exits t2 ++ t_enters t2) /\ hl_key h = fkey t2 x) f1 /\
     (forall l1 l2, t_exits t2 ++ t_enters t2 = l1 ++ l2 ->
        exists g1 g2, f1 = g2 ++ g1 /\
          Forall (fun h => exists x, In x l1 /\ hl_key h = fkey t2 x) g1 /\
          Forall (fun h => exists x, In x l2 /\ hl_key h = fkey t2 x) g2 /\
          blocks (pst (fun _ => true) (rev g1)) l1 /\
          blocks (pst (fun _ => true) (rev g2)) l2) /\
     Forall (fun h => hl_key h = HAnyState) f2) ->
  (forall k i, k <> HAnyState -> count_key fins k i =
     (if defines bs i k then 1 else 0)
     * length (filter (fun x => hkey_eqb (fkey t2 x) k) (t_exits t2 ++ t_enters t2))) ->
  bounded 3 5 (map rk (rev fins)) /\
  Forall (fun h => is_final_key (hl_key h) = true) fins /\
  srt_sublist (uniq (pst is_end (rev fins))) (t_exits t2) /\
  srt_sublist (uniq (pst is_state (rev fins))) (t_enters t2) /\
  (NoDup act -> NoDup (t_target t2) -> forall i x,
     count_key fins (HEnd x) i
       = (if defines bs i (HEnd x) && mem x (diff act (t_target t2)) then 1 else 0) /\
     count_key fins (HState x) i
       = (if defines bs i (HState x) && mem x (t_enters t2) then 1 else 0)).
Proof.
  intros scm tp act t2 bs fins Hex (f1 & f2 & -> & X1 & Sp & X2) Hc.
  destruct (Sp _ _ eq_refl) as (g1 & g2 & -> & Y1 & Y2 & Bl1 & Bl2).
  assert (R1 : Forall (fun h => rk h = 3) g1).
  { eapply Forall_impl; [|exact Y1]. intros h (x & Hx & Hk). unfold rk. rewrite Hk.
    rewrite fkey_exit; [reflexivity|]. eapply exen_disjoint; eassumption. }
  assert (R2 : Forall (fun h => rk h = 4) g2).
  { eapply Forall_impl; [|exact Y2]. intros h (x & Hx & Hk). unfold rk. rewrite Hk.
    rewrite fkey_enter; [reflexivity | exact Hx]. }
  assert (R3 : Forall (fun h => rk h = 5) f2).
  { eapply Forall_impl; [|exact X2]. intros h Hk. unfold rk. rewrite Hk. reflexivity. }
  assert (K1 : Forall (fun h => exists x, hl_key h = HEnd x) g1).
  { eapply Forall_impl; [|exact Y1]. intros h (x & Hx & Hk). exists x. rewrite Hk.
    apply fkey_exit. eapply exen_disjoint; eassumption. }
  assert (K2 : Forall (fun h => exists x, hl_key h = HState x) g2).
  { eapply Forall_impl; [|exact Y2]. intros h (x & Hx & Hk). exists x. rewrite Hk.
    apply fkey_enter. exact Hx. }
  assert (PE : pst is_end (rev (f2 ++ g2 ++ g1)) = pst (fun _ => true) (rev g1)).
  { rewrite !rev_app_distr, !pst_app.
    rewrite (pst_rank_nil is_end 3 (rev f2)), (pst_rank_nil is_end 3 (rev g2)).
    - rewrite !app_nil_r. apply (pst_all_same is_end). apply Forall_rev_l.
      eapply Forall_impl; [|exact K1]. intros h (x & ->). reflexivity.
    - intros k Hk. destruct k; try discriminate. reflexivity.
    - apply Forall_rev_l. eapply Forall_impl; [|exact R2]. unfold rk. intros h ->. discriminate.
    - intros k Hk. destruct k; try discriminate. reflexivity.
    - apply Forall_rev_l. eapply Forall_impl; [|exact R3]. unfold rk. intros h ->. discriminate. }
  assert (PS : pst is_state (rev (f2 ++ g2 ++ g1)) = pst (fun _ => true) (rev g2)).
  { rewrite !rev_app_distr, !pst_app.
    rewrite (pst_rank_nil is_state 4 (rev f2)), (pst_rank_nil is_state 4 (rev g1)).
    - rewrite app_nil_r. cbn [app]. apply (pst_all_same is_state). apply Forall_rev_l.
      eapply Forall_impl; [|exact K2]. intros h (x & ->). reflexivity.
    - intros k Hk. destruct k; try discriminate. reflexivity.
    - apply Forall_rev_l. eapply Forall_impl; [|exact R1]. unfold rk. intros h ->. discriminate.
    - intros k Hk. destruct k; try discriminate. reflexivity.
    - apply Forall_rev_l. eapply Forall_impl; [|exact R3]. unfold rk. intros h ->. discriminate. }
  split; [|split; [|split; [rewrite PE; apply blocks_uniq; exact Bl1
                    |split; [rewrite PS; apply blocks_uniq; exact Bl2|]]]].
  - rewrite !rev_app_distr, !map_app.
    eapply (bounded_app 3 4 5 5); [|apply bounded_rank_const; exact R3|lia|lia|lia].
    eapply (bounded_app 3 3 4 4); [apply bounded_rank_const; exact R1
                                  |apply bounded_rank_const; exact R2|lia|lia|lia].
  - apply Forall_app. split; [|apply Forall_app; split].
    + eapply Forall_impl; [|exact R3]. intros h Hr. apply rank_final. unfold rk in Hr. lia.
    + eapply Forall_impl; [|exact R2]. intros h Hr. apply rank_final. unfold rk in Hr. lia.
    + eapply Forall_impl; [|exact R1]. intros h Hr. apply rank_final. unfold rk in Hr. lia.
  - intros Hnd Hndt i x.
    assert (NDx : NoDup (t_exits t2 ++ t_enters t2)).
    { apply NoDup_app_intro.
      - destruct Hex as [He _]. rewrite He. apply sort_states_NoDup. apply NoDup_filter. exact Hnd.
      - destruct Hex as [_ Hn]. rewrite Hn. apply NoDup_filter. exact Hndt.
      - intros y. eapply exen_disjoint. exact Hex. }
    split.
    + rewrite Hc by discriminate.
      rewrite (filter_single (fun y => hkey_eqb (fkey t2 y) (HEnd x)) x _ NDx).
      * assert (Hm : mem x (t_exits t2 ++ t_enters t2) && hkey_eqb (fkey t2 x) (HEnd x)
                     = mem x (diff act (t_target t2))).
        { destruct (mem x (diff act (t_target t2))) eqn:Ed.
          - apply mem_In in Ed.
            assert (Hxe : In x (t_exits t2)).
            { destruct Hex as [He _]. rewrite He. apply sort_states_In. exact Ed. }
            rewrite (fkey_exit t2 x) by (eapply exen_disjoint; eassumption).
            rewrite hkey_eqb_refl, andb_true_r. apply mem_In. apply in_or_app. left. exact Hxe.
          - apply mem_false in Ed.
            destruct (mem x (t_enters t2)) eqn:En.
            + apply mem_In in En. rewrite (fkey_enter t2 x En). cbn. apply andb_false_r.
            + apply mem_false in En. apply andb_false_iff. left. apply mem_false.
              intros Hin. apply in_app_or in Hin. destruct Hin as [Hin|Hin]; [|contradiction].
              destruct Hex as [He _]. rewrite He in Hin. apply sort_states_In in Hin. contradiction. }
        rewrite Hm. destruct (defines bs i (HEnd x)), (mem x (diff act (t_target t2))); reflexivity.
      * intros y _ Hy. apply hkey_eqb_eq in Hy. unfold fkey in Hy.
        destruct (mem y (t_enters t2)); inversion Hy. reflexivity.
    + rewrite Hc by discriminate.
      rewrite (filter_single (fun y => hkey_eqb (fkey t2 y) (HState x)) x _ NDx).
      * assert (Hm : mem x (t_exits t2 ++ t_enters t2) && hkey_eqb (fkey t2 x) (HState x)
                     = mem x (t_enters t2)).
        { destruct (mem x (t_enters t2)) eqn:En.
          - apply mem_In in En. rewrite (fkey_enter t2 x En), hkey_eqb_refl, andb_true_r.
            apply mem_In. apply in_or_app. right. exact En.
          - apply mem_false in En. rewrite (fkey_exit t2 x En). cbn. apply andb_false_r. }
        rewrite Hm. destruct (defines bs i (HState x)), (mem x (t_enters t2)); reflexivity.
      * intros y _ Hy. apply hkey_eqb_eq in Hy. unfold fkey in Hy.
        destruct (mem y (t_enters t2)); inversion Hy. reflexivity.
Qed.

(* ------------------------------------------------------------------ *)
(* the outcome of one run_tx (fault-free)                              *)
(* ------------------------------------------------------------------ *)

Lemma retarget_fields : forall mu s2 t1,
  t_mut (tx_retarget mu s2 t1) = t_mut t1 /\ t_before (tx_retarget mu s2 t1) = t_before t1 /\
  t_clock_before (tx_retarget mu s2 t1) = t_clock_before t1 /\
  t_accepted (tx_retarget mu s2 t1) = t_accepted t1 /\
  t_invalid (tx_retarget mu s2 t1) = t_invalid t1.
Proof. intros mu s2 t1. unfold tx_retarget. destruct (mu_auto mu); cbn; repeat split. Qed.

Definition rec_base (s : st) (mu : mutation) (s' : st) (rec : txrec) : Prop :=
  txs s' = rec :: txs s /\ crashed s' = crashed s /\
  tx_type rec = mu_type mu /\ tx_called rec = mu_called mu /\ tx_auto rec = mu_auto mu /\
  tx_check rec = mu_check mu /\ tx_qtick rec = mu_qtick mu /\
  tx_before rec = clock s /\ tx_active_before rec = active s /\
  tx_hfrom rec = length (hlog s) /\ tx_hto rec = length (hlog s') /\
  tx_mach_after rec = clock s'.

Definition not_applied (s : st) (mu : mutation) (s' : st) (rec : txrec)
  (fins : list hlentry) (canceled : bool) : Prop :=
  (canceled = true \/ mu_check mu = true) /\ fins = [] /\
  clock s' = clock s /\ active s' = active s /\ tx_after rec = clock s /\
  tx_accepted rec = mu_check mu && negb canceled /\
  (no_auto (queue s) -> no_auto (queue s')).

(* the re-resolution of an auto mutation with the accepted subset *)
Definition retarget_of (s : st) (mu : mutation) (tgt1 : list nat) : list nat :=
  target_states {| rc_schema := sc s; rc_before := active s; rc_mtype := mu_type mu;
                   rc_called := mu_called mu; rc_topology := topo s |}
    (states_to_set MAdd (diff (mu_called mu) (diff (mu_called mu) tgt1)) (active s)).

Definition applied (s : st) (mu : mutation) (s' : st) (rec : txrec)
  (fins : list hlentry) (canceled : bool) (tgt1 : list nat) : Prop :=
  canceled = false /\ mu_check mu = false /\ tx_accepted rec = true /\
  active s' = tx_target rec /\ clock s' = tx_after rec /\
  tx_after rec = set_active_clock (sc s) (clock s) (active s) (mu_called mu) (tx_target rec) /\
  Forall (fin_seen (tx_target rec) (tx_after rec)) fins /\
  bounded 3 5 (map rk (rev fins)) /\
  Forall (fun h => is_final_key (hl_key h) = true) fins /\
  NoDup (tx_target rec) /\
  (NoDup (active s) -> forall i x,
     count_key fins (HEnd x) i
       = (if defines (bindings s) i (HEnd x) && mem x (expected_exits rec) then 1 else 0) /\
     count_key fins (HState x) i
       = (if defines (bindings s) i (HState x) && mem x (expected_enters (sc s) rec)
          then 1 else 0)) /\
  queue_after (triggers_auto (health s) rec) (auto_candidates (sc s) (tx_target rec)) s s' /\
  tx_target rec = (if mu_auto mu then retarget_of s mu tgt1 else tgt1) /\
  sorted_sub (sc s) (topo s) (uniq (pst is_end (rev fins))) /\
  sorted_sub (sc s) (topo s) (uniq (pst is_state (rev fins))).

Definition tx_outcome (s : st) (mu : mutation) (s' : st) : Prop :=
  let joint := resolve (sc s) (topo s) (active s) (mu_type mu) (mu_called mu) in
  exists negs fins canceled tgt1,
    hlog s' = fins ++ negs ++ hlog s /\ same_cfg s s' /\ good s' /\
    Forall (negent s) negs /\ bounded 0 2 (map rk (rev negs)) /\
    (sorted_sub (sc s) (topo s) (uniq (pst is_exit (rev negs))) /\
     sorted_sub (sc s) (topo s) (uniq (pst is_enter (rev negs))) /\
     (canceled = false -> NoDup (active s) ->
      negc (bindings s) (active s) (new_transition s mu) negs) /\
     (canceled = false -> t_accepted (new_transition s mu) = true) /\
     (exists s1 t1 nr n1 n2,
        tx_neg (add_ev (add_ev s EvInit) EvStart) (new_transition s mu) = (s1, t1, nr) /\
        tgt1 = t_target t1 /\ hlog s1 = n1 ++ hlog s /\ negs = n2 ++ n1 /\
        keysin (fun k => HAnyEnter = k) n2 /\ (nr = NCancel -> canceled = true) /\
        (nr = NOk -> Forall rettrue n2 ->
         canceled = negb (t_accepted (new_transition s mu))
                    || (has_handlers s && (mu_auto mu && Nat.eqb (length (t_target t1)) 0))))) /\
    incl tgt1 joint /\
    (mu_auto mu = false -> tgt1 = joint /\
       ((canceled = false /\ Forall rettrue negs) \/
        (canceled = true /\ (negs = [] \/ veto_head negs)))) /\
    (Forall rettrue negs -> tgt1 = joint /\
       canceled = negb (setup_accepted s mu joint)
                  || (has_handlers s && (mu_auto mu && Nat.eqb (length joint) 0))) /\
    ((crashed s' = true /\ txs s' = txs s /\ fins = [] /\ mu_auto mu = true /\
      ~ Forall rettrue negs /\ (no_auto (queue s) -> no_auto (queue s')) /\
      clock s' = clock s /\ active s' = active s /\
      exists s1 t1, tx_neg (add_ev (add_ev s EvInit) EvStart) (new_transition s mu)
                    = (s1, t1, NCrash))
     \/
     exists rec, rec_base s mu s' rec /\
       (not_applied s mu s' rec fins canceled \/ applied s mu s' rec fins canceled tgt1)).

Lemma triggers_auto_model : forall hl (rec : txrec) mu (s : st) cl,
  tx_accepted rec = true -> tx_check rec = false -> tx_auto rec = mu_auto mu ->
  tx_type rec = mu_type mu -> tx_called rec = mu_called mu ->
  tx_before rec = clock s -> tx_after rec = cl -> hl = health s ->
  triggers_auto hl rec
  = negb (nclock_eqb cl (clock s)) && negb (mu_auto mu) && negb (is_health s mu).
Proof.
  intros hl rec mu s cl Ha Hc Hau Ht Hca Hb Haf ->. unfold triggers_auto, tx_is_health, is_health.
  rewrite Ha, Hc, Hau, Ht, Hca, Hb, Haf. rewrite (nclock_clock_eqb cl (clock s)).
  remember (match mu_type mu with
            | MAdd => match mu_called mu with [x] => mem x (health s) | _ => false end
            | _ => false end) as hh.
  destruct (clock_eqb (clock s) cl), (mu_auto mu), hh; reflexivity.
Qed.

Lemma run_tx_outcome : forall s mu s' r,
  good s -> run_tx s mu = (s', r) -> tx_outcome s mu s'.
Proof.
  intros s mu s' r G H.
  destruct (new_transition_facts s mu) as (Tm & Tb & Tcb & Tinv & Ttg & Tacc & Tex).
  destruct (tx_front _ _ _ _ G H)
    as [(s1 & t1 & negs & -> & B & Hm & Hv & On & Ecr)
       |(s2 & t1 & negs & canceled & B & F2 & F3 & F4 & (On & Nc & Ex) & E)];
    apply ordn_sorted_sub in On.
  - (* a panic escaped *)
    destruct B as (K & G1 & Q & T & L & En & Bd).
    assert (On' : sorted_sub (sc s) (topo s) (uniq (pst is_exit (rev negs))) /\
                  sorted_sub (sc s) (topo s) (uniq (pst is_enter (rev negs))) /\
                  (true = false -> NoDup (active s) ->
                   negc (bindings s) (active s) (new_transition s mu) negs) /\
                  (true = false -> t_accepted (new_transition s mu) = true) /\
                  (exists s1' t1' nr n1 n2,
        tx_neg (add_ev (add_ev s EvInit) EvStart) (new_transition s mu) = (s1', t1', nr) /\
        t_target t1 = t_target t1' /\ hlog s1' = n1 ++ hlog s /\ negs = n2 ++ n1 /\
        keysin (fun k => HAnyEnter = k) n2 /\ (nr = NCancel -> true = true) /\
        (nr = NOk -> Forall rettrue n2 ->
         true = negb (t_accepted (new_transition s mu))
                    || (has_handlers s && (mu_auto mu && Nat.eqb (length (t_target t1')) 0))))).
    { split; [apply On|]. split; [apply On|]. split; [intros Hx; discriminate|].
      split; [intros Hx; discriminate|].
      exists s1, t1, NCrash, negs, []. split; [exact Ecr|]. split; [reflexivity|].
      split; [exact L|]. split; [reflexivity|]. split; [constructor|].
      split; [reflexivity | discriminate]. }
    clear On. rename On' into On.
    exists negs, [], true, (t_target t1).
    split; [cbn; exact L|]. split; [apply keeps_same_cfg in K; exact K|]. split; [exact G1|].
    split; [exact En|]. split; [exact Bd|]. split; [exact On|].
    split; [rewrite <- Ttg; apply T|].
    split; [intros Hx; congruence|]. split; [intros Hx; contradiction|].
    left. split; [reflexivity|]. split; [cbn; apply (keeps_txs _ _ K)|]. split; [reflexivity|].
    split; [exact Hm|]. split; [exact Hv|]. split; [exact Q|].
    split; [cbn; apply (keeps_clock _ _ K)|]. split; [cbn; apply (keeps_active _ _ K)|].
    exists s1, t1. exact Ecr.
  - destruct B as (K & G2 & Q & T & L & En & Bd).
    assert (On' : sorted_sub (sc s) (topo s) (uniq (pst is_exit (rev negs))) /\
                  sorted_sub (sc s) (topo s) (uniq (pst is_enter (rev negs))) /\
                  (canceled = false -> NoDup (active s) ->
                   negc (bindings s) (active s) (new_transition s mu) negs) /\
                  (canceled = false -> t_accepted (new_transition s mu) = true) /\
                  (exists s1' t1' nr n1 n2,
        tx_neg (add_ev (add_ev s EvInit) EvStart) (new_transition s mu) = (s1', t1', nr) /\
        t_target t1 = t_target t1' /\ hlog s1' = n1 ++ hlog s /\ negs = n2 ++ n1 /\
        keysin (fun k => HAnyEnter = k) n2 /\ (nr = NCancel -> canceled = true) /\
        (nr = NOk -> Forall rettrue n2 ->
         canceled = negb (t_accepted (new_transition s mu))
                    || (has_handlers s && (mu_auto mu && Nat.eqb (length (t_target t1')) 0))))).
    { split; [apply On|]. split; [apply On|]. split; [exact Nc|]. split; [exact F4|].
      destruct Ex as (s1 & nr & n1 & n2 & X1 & X2 & X3 & X4 & X5 & X6).
      exists s1, t1, nr, n1, n2. split; [exact X1|]. split; [reflexivity|]. tauto. }
    clear On. rename On' into On.
    assert (Kc : same_cfg s s2) by (apply keeps_same_cfg in K; exact K).
    assert (Hcl : clock s2 = clock s) by apply (keeps_clock _ _ K).
    assert (Hac : active s2 = active s) by apply (keeps_active _ _ K).
    assert (Htx : txs s2 = txs s) by apply (keeps_txs _ _ K).
    assert (Hcr : crashed s2 = crashed s) by apply (keeps_crashed _ _ K).
    destruct T as (T1 & T2 & T3 & T4 & T5 & T6 & T7 & T8).
    rewrite Tm in T1. rewrite Tb in T2. rewrite Tcb in T3. rewrite Tinv in T7.
    destruct (retarget_fields mu s2 t1) as (R1 & R2 & R3 & R4 & R5).
    exists negs.
    assert (Hfront :
      incl (t_target t1) (resolve (sc s) (topo s) (active s) (mu_type mu) (mu_called mu)) /\
      (mu_auto mu = false ->
       t_target t1 = resolve (sc s) (topo s) (active s) (mu_type mu) (mu_called mu) /\
       ((canceled = false /\ Forall rettrue negs) \/
        (canceled = true /\ (negs = [] \/ veto_head negs)))) /\
      (Forall rettrue negs ->
       t_target t1 = resolve (sc s) (topo s) (active s) (mu_type mu) (mu_called mu) /\
       canceled = negb (setup_accepted s mu
                          (resolve (sc s) (topo s) (active s) (mu_type mu) (mu_called mu)))
                  || (has_handlers s && (mu_auto mu &&
                        Nat.eqb (length (resolve (sc s) (topo s) (active s) (mu_type mu)
                                           (mu_called mu))) 0)))).
    { rewrite <- Ttg. split; [exact T8|]. split; [exact F2|].
      intros Hall. destruct (F3 Hall) as [Y1 Y2]. split; [exact Y1|].
      rewrite Y2, Tacc. reflexivity. }
    destruct Hfront as (I1 & I2 & I3).
    destruct (mu_check mu) eqn:Ec.
    + (* check *)
      unfold tx_check_end in E. inversion E; subst s' r. clear E.
      exists [], canceled, (t_target t1).
      split; [cbn; exact L|]. split; [exact Kc|]. split; [exact G2|].
      split; [exact En|]. split; [exact Bd|]. split; [exact On|]. split; [exact I1|]. split; [exact I2|].
      split; [exact I3|]. right. eexists. split.
      * unfold rec_base. cbn. rewrite Htx, Hcr, T2, T3, Ec. repeat split; try exact Hcl.
      * left. unfold not_applied. cbn. rewrite ?Hcl, ?Hac, ?T3, ?T6, ?Ec.
        split; [right; reflexivity|]. split; [reflexivity|]. split; [reflexivity|].
        split; [reflexivity|]. split; [reflexivity|]. split; [|exact Q].
        destruct canceled; cbn; [apply andb_false_r|]. rewrite (F4 eq_refl). reflexivity.
    + destruct canceled; cbn [negb] in E.
      * (* canceled *)
        unfold tx_cancel_end in E. inversion E; subst s' r. clear E.
        exists [], true, (t_target t1).
        split; [cbn; exact L|]. split; [exact Kc|]. split; [exact G2|].
        split; [exact En|]. split; [exact Bd|]. split; [exact On|]. split; [exact I1|]. split; [exact I2|].
        split; [exact I3|]. right. eexists. split.
        -- unfold rec_base. cbn. rewrite Htx, Hcr, R2, R3, T2, T3, Ec. repeat split; try exact Hcl.
        -- left. unfold not_applied. cbn. rewrite ?Hcl, ?Hac, ?Ec.
           split; [left; reflexivity|]. repeat (split; [reflexivity|]). exact Q.
      * (* applied *)
        symmetry in E.
        assert (Hacc2 : t_accepted (tx_retarget mu s2 t1) = true).
        { rewrite R4, T6. apply F4. reflexivity. }
        assert (Hinv2 : t_invalid (tx_retarget mu s2 t1) = false) by (rewrite R5; exact T7).
        assert (Hex2 : exen_ok (sc s) (topo s) (active s) (tx_retarget mu s2 t1) /\
                       t_target (tx_retarget mu s2 t1)
                       = (if mu_auto mu then retarget_of s mu (t_target t1) else t_target t1)).
        { unfold tx_retarget. destruct (mu_auto mu) eqn:Eau.
          - destruct Kc as (C1 & C2 & _). rewrite C1, C2, Hac. split.
            + unfold exen_ok. cbn. split; reflexivity.
            + cbn. unfold retarget_of, rctx_of. rewrite C1, C2, T1, T2. reflexivity.
          - split; [|reflexivity]. destruct (I2 eq_refl) as [Y1 _].
            destruct (Tex (F4 eq_refl)) as [Ye Yn]. unfold exen_ok.
            rewrite Tm in Yn. rewrite T4, T5, T1, Y1, <- Ttg. split; assumption. }
        destruct Hex2 as [Hex2 Htg2].
        destruct (tx_apply_ff _ _ _ _ _ _ G2 Hinv2 Hacc2 E)
          as (fins & L' & C' & G' & Cr' & Tx' & Ac' & Cl' & Fs' & St' & Cn' & Qa').
        destruct (finals_props (sc s) (topo s) (active s) _ (bindings s2) fins Hex2 St' Cn')
          as (Bd' & Fk' & Se' & Ss' & Ct').
        destruct Kc as (C1 & C2 & C3 & C4 & C5 & C6).
        rewrite C1, Hcl, Hac in *.
        exists fins, false, (t_target t1).
        split; [rewrite L', L; reflexivity|].
        split; [eapply same_cfg_trans; [|exact C']; unfold same_cfg; tauto|]. split; [exact G'|].
        split; [exact En|]. split; [exact Bd|]. split; [exact On|]. split; [exact I1|]. split; [exact I2|].
        split; [exact I3|]. right. eexists. split.
        -- unfold rec_base. rewrite Tx'. cbn. rewrite Htx, Cr', Hcr, R2, R3, T2, T3, Ec, Cl'.
           repeat split.
        -- right. unfold applied. cbn.
           split; [reflexivity|]. split; [exact Ec|]. split; [reflexivity|].
           split; [exact Ac'|]. split; [exact Cl'|]. split; [reflexivity|].
           split; [exact Fs'|]. split; [exact Bd'|]. split; [exact Fk'|].
           split.
           { rewrite Htg2. destruct (mu_auto mu) eqn:Eau.
             - apply target_states_NoDup.
             - destruct (I2 eq_refl) as [Y1 _]. rewrite Y1. apply target_states_NoDup. }
           split.
           { intros Hnd i x.
             assert (NDt : NoDup (t_target (tx_retarget mu s2 t1))).
             { rewrite Htg2. destruct (mu_auto mu) eqn:Eau.
               - apply target_states_NoDup.
               - destruct (I2 eq_refl) as [Y1 _]. rewrite Y1. apply target_states_NoDup. }
             destruct (Ct' Hnd NDt i x) as [Y1 Y2]. rewrite C5 in Y1, Y2.
             unfold expected_exits, expected_enters. cbn. rewrite ?R2, ?T2.
             split; [exact Y1|]. rewrite Y2.
             destruct Hex2 as [_ Hn]. rewrite Hn, R1, T1. reflexivity. }
           split; [|split; [exact Htg2|split]].
           2:{ eapply sorted_sub_exits; [exact Hex2 | exact Se']. }
           2:{ destruct (mu_auto mu) eqn:Eau.
               - eapply sorted_sub_enters; [exact Hex2 | exact Htg2 | reflexivity | reflexivity | exact Ss'].
               - destruct (I2 eq_refl) as [Y1 _]. rewrite Y1 in Htg2.
                 eapply sorted_sub_enters; [exact Hex2 | exact Htg2 | reflexivity | reflexivity | exact Ss']. }
           erewrite triggers_auto_model; [| | | | | | |reflexivity|reflexivity];
             try (cbn; reflexivity).
           cbn. rewrite R3, T3 in Qa'.
              assert (Hh : is_health s2 mu = is_health s mu)
                by (unfold is_health; rewrite C3; reflexivity).
              rewrite Hh in Qa'.
              unfold queue_after in *.
              destruct (negb _ && negb (mu_auto mu) && negb (is_health s mu)).
              ** destruct (auto_candidates (sc s) (t_target (tx_retarget mu s2 t1))) as [|c cs].
                 --- tauto.
                 --- destruct Qa' as (q & Hq & Hn). exists q. split; [exact Hq | tauto].
              ** destruct (auto_candidates (sc s) (t_target (tx_retarget mu s2 t1))); tauto.
Qed.

(* ------------------------------------------------------------------ *)
(* per-step theorems (C05)                                             *)
(* ------------------------------------------------------------------ *)

Lemma cons_neq_self : forall (A : Type) (x : A) l, l <> x :: l.
Proof.
  intros A x l H. apply (f_equal (@length A)) in H. cbn in H. lia.
Qed.

Lemma negs_nonfinal : forall negs, bounded 0 2 (map rk (rev negs)) ->
  forall h, In h negs -> is_final_key (hl_key h) = false.
Proof.
  intros negs [_ F] h Hh. apply rank_nonfinal. rewrite Forall_forall in F.
  assert (Hin : In (rk h) (map rk (rev negs))) by (apply in_map, in_rev; rewrite rev_involutive; exact Hh).
  specialize (F _ Hin). unfold rk in F. lia.
Qed.

Lemma outcome_fins_final : forall s mu s' rec fins canceled tgt1,
  not_applied s mu s' rec fins canceled \/ applied s mu s' rec fins canceled tgt1 ->
  Forall (fun h => is_final_key (hl_key h) = true) fins /\ bounded 3 5 (map rk (rev fins)).
Proof.
  intros s mu s' rec fins canceled tgt1 [N|A].
  - destruct N as (_ & -> & _). split; [constructor | apply bounded_nil].
  - destruct A as (_ & _ & _ & _ & _ & _ & _ & B & F & _). split; assumption.
Qed.

(* (a) *)
Lemma phase_order_step_lemma : forall s mu s' r new,
  good s -> run_tx s mu = (s', r) -> hlog s' = new ++ hlog s ->
  nondecreasing (map (fun h => phase_rank (hl_key h)) (rev new)) = true.
Proof.
  intros s mu s' r new G H L.
  destruct (run_tx_outcome _ _ _ _ G H)
    as (negs & fins & canceled & tgt1 & L' & _ & _ & _ & Bn & _ & _ & _ & _ & O).
  rewrite L', app_assoc in L. apply app_inv_tail in L. subst new.
  assert (Bf : bounded 3 5 (map rk (rev fins))).
  { destruct O as [(_ & _ & -> & _)|(rec & _ & O)]; [apply bounded_nil|].
    eapply outcome_fins_final. exact O. }
  change (fun h => phase_rank (hl_key h)) with rk.
  rewrite rev_app_distr, map_app.
  apply (bounded_app 0 2 3 5 _ _ Bn Bf); lia.
Qed.

(* (b) *)
Lemma negotiation_sees_before_step_lemma : forall s mu s' r new,
  good s -> run_tx s mu = (s', r) -> hlog s' = new ++ hlog s ->
  forall h, In h new -> is_final_key (hl_key h) = false ->
    hl_active h = active s /\ hl_clock h = clock s.
Proof.
  intros s mu s' r new G H L h Hh Hnf.
  destruct (run_tx_outcome _ _ _ _ G H)
    as (negs & fins & canceled & tgt1 & L' & _ & _ & En & Bn & _ & _ & _ & _ & O).
  rewrite L', app_assoc in L. apply app_inv_tail in L. subst new.
  apply in_app_or in Hh. destruct Hh as [Hh|Hh].
  - exfalso.
    assert (Ff : Forall (fun h => is_final_key (hl_key h) = true) fins).
    { destruct O as [(_ & _ & -> & _)|(rec & _ & O)]; [constructor|].
      eapply outcome_fins_final. exact O. }
    rewrite Forall_forall in Ff. specialize (Ff h Hh). congruence.
  - rewrite Forall_forall in En. exact (En h Hh).
Qed.

Lemma finals_see_after_step_lemma : forall s mu s' r new rec,
  good s -> run_tx s mu = (s', r) -> hlog s' = new ++ hlog s -> txs s' = rec :: txs s ->
  forall h, In h new -> is_final_key (hl_key h) = true ->
    hl_active h = tx_target rec /\ hl_clock h = tx_after rec /\
    active s' = tx_target rec /\ clock s' = tx_after rec /\
    tx_after rec = set_active_clock (sc s) (clock s) (active s) (tx_called rec) (tx_target rec).
Proof.
  intros s mu s' r new rec G H L Htx h Hh Hf.
  destruct (run_tx_outcome _ _ _ _ G H)
    as (negs & fins & canceled & tgt1 & L' & _ & _ & En & Bn & _ & _ & _ & _ & O).
  rewrite L', app_assoc in L. apply app_inv_tail in L. subst new.
  apply in_app_or in Hh. destruct Hh as [Hh|Hh].
  - destruct O as [(_ & Hx & _)|(rec' & Rb & O)].
    + rewrite Hx in Htx. exfalso. eapply cons_neq_self. exact Htx.
    + assert (rec' = rec).
      { destruct Rb as (Hx & _). rewrite Hx in Htx. inversion Htx. reflexivity. }
      subst rec'. destruct O as [N|A].
      * destruct N as (_ & -> & _). contradiction.
      * destruct A as (_ & _ & _ & Ha & Hc & Hs & Fs & _).
        destruct Rb as (_ & _ & _ & Hca & _). rewrite Hca.
        rewrite Forall_forall in Fs. destruct (Fs h Hh) as [Y1 Y2]. tauto.
  - exfalso. pose proof (negs_nonfinal _ Bn h Hh). congruence.
Qed.

(* (c) *)
Lemma veto_stops_step_lemma : forall s mu s' r new,
  good s -> mu_auto mu = false -> run_tx s mu = (s', r) -> hlog s' = new ++ hlog s ->
  forall h, In h new -> is_final_key (hl_key h) = false -> hl_ret h = false ->
    (exists rest, new = h :: rest) /\
    clock s' = clock s /\ active s' = active s /\
    exists rec, txs s' = rec :: txs s /\ tx_accepted rec = false /\
                tx_after rec = tx_before rec.
Proof.
  intros s mu s' r new G Hm H L h Hh Hnf Hret.
  destruct (run_tx_outcome _ _ _ _ G H)
    as (negs & fins & canceled & tgt1 & L' & _ & _ & En & Bn & _ & _ & V & _ & O).
  rewrite L', app_assoc in L. apply app_inv_tail in L. subst new.
  destruct (V Hm) as [_ V'].
  assert (Ff : Forall (fun h => is_final_key (hl_key h) = true) fins).
  { destruct O as [(_ & _ & -> & _)|(rec & _ & O)]; [constructor|].
    eapply outcome_fins_final. exact O. }
  assert (Hhn : In h negs).
  { apply in_app_or in Hh. destruct Hh as [Hh|Hh]; [|exact Hh].
    rewrite Forall_forall in Ff. specialize (Ff h Hh). congruence. }
  destruct V' as [[_ Hall]|[Hc [Hnil|(e & rest & -> & Hr & Hall)]]].
  - rewrite Forall_forall in Hall. specialize (Hall h Hhn). unfold rettrue in Hall. congruence.
  - subst negs. contradiction.
  - assert (h = e).
    { destruct Hhn as [Hx|Hx]; [symmetry; exact Hx|].
      rewrite Forall_forall in Hall. specialize (Hall h Hx). unfold rettrue in Hall. congruence. }
    subst e.
    destruct O as [(_ & _ & _ & Hx & _)|(rec & Rb & [N|A])].
    + congruence.
    + destruct N as (_ & -> & Hcl & Hac & Haf & Hacc & _).
      split; [exists rest; reflexivity|]. split; [exact Hcl|]. split; [exact Hac|].
      exists rec. destruct Rb as (Hx & _ & _ & _ & _ & _ & _ & Hb & _).
      split; [exact Hx|]. split; [rewrite Hacc, Hc; apply andb_false_r | congruence].
    + destruct A as (Hx & _). congruence.
Qed.

Lemma count_key_rev : forall l k i, count_key (rev l) k i = count_key l k i.
Proof.
  induction l as [|h r IH]; intros k i; [reflexivity|].
  cbn [rev]. rewrite count_key_app, IH.
  change (h :: r) with ([h] ++ r). rewrite (count_key_app [h] r). lia.
Qed.

Lemma count_key_nonfinal_zero : forall l k i,
  (forall h, In h l -> is_final_key (hl_key h) = false) -> is_final_key k = true ->
  count_key l k i = 0.
Proof.
  intros l k i Hl Hk. unfold count_key. induction l as [|h r IH]; [reflexivity|].
  cbn [filter]. destruct (hkey_eqb (hl_key h) k) eqn:E.
  - apply hkey_eqb_eq in E. specialize (Hl h (or_introl eq_refl)). congruence.
  - cbn [andb]. apply IH. intros h' Hh'. apply Hl. right. exact Hh'.
Qed.

(* (d) *)
Lemma finals_once_step_lemma : forall s mu s' r new rec,
  good s -> NoDup (active s) -> run_tx s mu = (s', r) ->
  hlog s' = new ++ hlog s -> txs s' = rec :: txs s ->
  (tx_accepted rec && negb (tx_check rec) = true ->
   forall i x,
     count_key (rev new) (HEnd x) i
       = (if existsb (hkey_eqb (HEnd x)) (nth i (bindings s) []) && mem x (expected_exits rec)
          then 1 else 0) /\
     count_key (rev new) (HState x) i
       = (if existsb (hkey_eqb (HState x)) (nth i (bindings s) [])
             && mem x (expected_enters (sc s) rec)
          then 1 else 0)) /\
  (tx_accepted rec && negb (tx_check rec) = false ->
   forall h, In h new -> is_final_key (hl_key h) = false).
Proof.
  intros s mu s' r new rec G Hnd H L Htx.
  destruct (run_tx_outcome _ _ _ _ G H)
    as (negs & fins & canceled & tgt1 & L' & _ & _ & En & Bn & _ & _ & _ & _ & O).
  rewrite L', app_assoc in L. apply app_inv_tail in L. subst new.
  pose proof (negs_nonfinal _ Bn) as Hnf.
  destruct O as [(_ & Hx & _)|(rec' & Rb & O)].
  { rewrite Hx in Htx. exfalso. eapply cons_neq_self. exact Htx. }
  assert (rec' = rec).
  { destruct Rb as (Hx & _). rewrite Hx in Htx. inversion Htx. reflexivity. }
  subst rec'. destruct Rb as (_ & _ & _ & _ & _ & Hck & _).
  destruct O as [N|A].
  - destruct N as (Hcc & -> & _ & _ & _ & Hacc & _). split.
    + intros Happ. exfalso. rewrite Hacc, Hck in Happ.
      destruct Hcc as [Hcc|Hcc]; rewrite Hcc in Happ; cbn [negb] in Happ;
        rewrite ?andb_false_r in Happ; discriminate.
    + intros _ h Hh. apply Hnf. exact Hh.
  - destruct A as (_ & Hc & Hacc & _ & _ & _ & _ & _ & _ & _ & Ct & _). split.
    + intros _ i x. destruct (Ct Hnd i x) as [Y1 Y2].
      rewrite !count_key_rev, !count_key_app.
      rewrite (count_key_nonfinal_zero negs (HEnd x) i Hnf eq_refl).
      rewrite (count_key_nonfinal_zero negs (HState x) i Hnf eq_refl).
      rewrite !Nat.add_0_r. split; [exact Y1 | exact Y2].
    + intros Happ. rewrite Hacc, Hck, Hc in Happ. discriminate.
Qed.

(* NoDup of the active list is an invariant *)
Lemma run_tx_NoDup_active : forall s mu s' r,
  good s -> NoDup (active s) -> run_tx s mu = (s', r) -> NoDup (active s').
Proof.
  intros s mu s' r G Hnd H.
  destruct (run_tx_outcome _ _ _ _ G H)
    as (negs & fins & canceled & tgt1 & _ & _ & _ & _ & _ & _ & _ & _ & _ & O).
  destruct O as [(_ & _ & _ & _ & _ & _ & _ & Ha & _)|(rec & _ & [N|A])].
  - rewrite Ha. exact Hnd.
  - destruct N as (_ & _ & _ & Ha & _). rewrite Ha. exact Hnd.
  - destruct A as (_ & _ & _ & Ha & _ & _ & _ & _ & _ & Hn & _). rewrite Ha. exact Hn.
Qed.

(* ------------------------------------------------------------------ *)
(* clock parity (needed to read the active states off tx_after)        *)
(* ------------------------------------------------------------------ *)

Lemma tick_nth_gen : forall (i : nat) (d : N) cl k x,
  nth x (map (fun p : nat * N => if Nat.eqb (fst p) i then (snd p + d)%N else snd p)
             (combine (seq k (length cl)) cl)) 0%N
  = if Nat.eqb (k + x) i && (x <? length cl) then (nth x cl 0 + d)%N else nth x cl 0%N.
Proof.
  intros i d cl. induction cl as [|a r IH]; intros k x.
  - cbn. destruct x; rewrite andb_false_r; reflexivity.
  - cbn [length seq combine map]. destruct x as [|x'].
    + cbn [nth fst snd]. rewrite Nat.add_0_r. cbn. rewrite andb_true_r. reflexivity.
    + cbn [nth]. rewrite IH. replace (S k + x') with (k + S x') by lia.
      replace (S x' <? S (length r)) with (x' <? length r) by reflexivity. reflexivity.
Qed.

Lemma tick_at_length : forall cl i d, length (tick_at cl i d) = length cl.
Proof.
  intros cl i d. unfold tick_at. rewrite map_length, combine_length, seq_length. lia.
Qed.

Lemma tick_at_parity : forall cl i d x, x < length cl ->
  N.odd (nth x (tick_at cl i d) 0%N) = xorb (N.odd (nth x cl 0%N)) (Nat.eqb x i && N.odd d).
Proof.
  intros cl i d x Hx. unfold tick_at. rewrite tick_nth_gen. cbn [plus].
  replace (x <? length cl) with true by (symmetry; apply Nat.ltb_lt; exact Hx).
  rewrite andb_true_r. destruct (Nat.eqb x i).
  - rewrite N.odd_add. reflexivity.
  - rewrite xorb_false_r. reflexivity.
Qed.

Lemma fold_keep_length : forall (F : list N -> nat -> list N),
  (forall c name, length (F c name) = length c) ->
  forall l cl, length (fold_left F l cl) = length cl.
Proof.
  intros F HL l. induction l as [|a r IH]; intros cl; [reflexivity|].
  cbn [fold_left]. rewrite IH. apply HL.
Qed.

Lemma fold_flip_parity : forall (F : list N -> nat -> list N) (flip : nat -> bool),
  (forall c name, length (F c name) = length c) ->
  (forall c name x, x < length c ->
     N.odd (nth x (F c name) 0%N) = xorb (N.odd (nth x c 0%N)) (Nat.eqb x name && flip name)) ->
  forall l cl x, NoDup l -> x < length cl ->
    N.odd (nth x (fold_left F l cl) 0%N) = xorb (N.odd (nth x cl 0%N)) (mem x l && flip x).
Proof.
  intros F flip HL HP l. induction l as [|a r IH]; intros cl x Hnd Hx.
  - cbn. rewrite xorb_false_r. reflexivity.
  - inversion Hnd as [|? ? Ha Hr]; subst. cbn [fold_left].
    assert (Hx' : x < length (F cl a)) by (rewrite HL; exact Hx).
    rewrite (IH (F cl a) x Hr Hx'), (HP cl a x Hx). unfold mem. cbn [existsb]. fold (mem x r).
    destruct (Nat.eqb x a) eqn:E.
    + apply Nat.eqb_eq in E. subst a.
      replace (mem x r) with false by (symmetry; apply mem_false; exact Ha).
      cbn. rewrite xorb_false_r. reflexivity.
    + cbn. rewrite xorb_false_r. reflexivity.
Qed.

Definition parity (s : st) : Prop :=
  length (clock s) = length (sc s) /\
  forall x, x < length (clock s) -> N.odd (nth x (clock s) 0%N) = mem x (active s).

Lemma set_active_clock_parity : forall scm cl prev called target,
  NoDup prev -> NoDup target ->
  (forall x, x < length cl -> N.odd (nth x cl 0%N) = mem x prev) ->
  length (set_active_clock scm cl prev called target) = length cl /\
  forall x, x < length cl ->
    N.odd (nth x (set_active_clock scm cl prev called target) 0%N) = mem x target.
Proof.
  intros scm cl prev called target Hp Ht Hpar. unfold set_active_clock.
  set (F1 := fun (c : list N) (name : nat) =>
               if negb (mem name prev) then tick_at c name 1
               else if mem name called && s_multi (sget scm name) then tick_at c name 2 else c).
  set (F2 := fun (c : list N) (name : nat) => tick_at c name 1).
  assert (H1L : forall c name, length (F1 c name) = length c).
  { intros c name. unfold F1. destruct (negb (mem name prev)); [apply tick_at_length|].
    destruct (mem name called && s_multi (sget scm name)); [apply tick_at_length | reflexivity]. }
  assert (H1P : forall c name x, x < length c ->
            N.odd (nth x (F1 c name) 0%N)
            = xorb (N.odd (nth x c 0%N)) (Nat.eqb x name && negb (mem name prev))).
  { intros c name x Hx. unfold F1. destruct (negb (mem name prev)).
    - rewrite tick_at_parity by exact Hx. reflexivity.
    - rewrite andb_false_r, xorb_false_r.
      destruct (mem name called && s_multi (sget scm name)); [|reflexivity].
      rewrite tick_at_parity by exact Hx. cbn. rewrite andb_false_r, xorb_false_r. reflexivity. }
  assert (H2L : forall c name, length (F2 c name) = length c) by (intros; apply tick_at_length).
  assert (H2P : forall c name x, x < length c ->
            N.odd (nth x (F2 c name) 0%N)
            = xorb (N.odd (nth x c 0%N)) (Nat.eqb x name && (fun _ : nat => true) name)).
  { intros c name x Hx. unfold F2. rewrite tick_at_parity by exact Hx. reflexivity. }
  assert (Hd : NoDup (diff prev target)) by (apply NoDup_filter; exact Hp).
  assert (Hl1 : length (fold_left F1 target cl) = length cl) by (apply fold_keep_length; exact H1L).
  split.
  - rewrite (fold_keep_length F2 H2L). exact Hl1.
  - intros x Hx.
    rewrite (fold_flip_parity F2 (fun _ => true) H2L H2P _ _ x Hd) by (rewrite Hl1; exact Hx).
    rewrite (fold_flip_parity F1 (fun n => negb (mem n prev)) H1L H1P _ _ x Ht Hx).
    rewrite (Hpar x Hx), andb_true_r.
    assert (Hmd : mem x (diff prev target) = mem x prev && negb (mem x target)).
    { destruct (mem x (diff prev target)) eqn:E.
      - apply mem_In, diff_In in E. destruct E as [E1 E2]. apply mem_In in E1. apply mem_false in E2.
        rewrite E1, E2. reflexivity.
      - destruct (mem x prev) eqn:E1; [|reflexivity]. destruct (mem x target) eqn:E2; [reflexivity|].
        exfalso. apply mem_false in E. apply E. apply diff_In.
        apply mem_In in E1. apply mem_false in E2. tauto. }
    rewrite Hmd. destruct (mem x prev), (mem x target); reflexivity.
Qed.

(* the exact tick steps of setActiveStates *)
Lemma tick_at_value : forall cl i d x, x < length cl ->
  nth x (tick_at cl i d) 0%N = (nth x cl 0 + (if Nat.eqb x i then d else 0))%N.
Proof.
  intros cl i d x Hx. unfold tick_at. rewrite tick_nth_gen. cbn [plus].
  replace (x <? length cl) with true by (symmetry; apply Nat.ltb_lt; exact Hx).
  rewrite andb_true_r. destruct (Nat.eqb x i); [reflexivity | rewrite N.add_0_r; reflexivity].
Qed.

Lemma fold_step_value : forall (F : list N -> nat -> list N) (d : nat -> N),
  (forall c name, length (F c name) = length c) ->
  (forall c name x, x < length c ->
     nth x (F c name) 0%N = (nth x c 0 + (if Nat.eqb x name then d name else 0))%N) ->
  forall l cl x, NoDup l -> x < length cl ->
    nth x (fold_left F l cl) 0%N = (nth x cl 0 + (if mem x l then d x else 0))%N.
Proof.
  intros F d HL HV l. induction l as [|a r IH]; intros cl x Hnd Hx.
  - cbn. rewrite N.add_0_r. reflexivity.
  - inversion Hnd as [|? ? Ha Hr]; subst. cbn [fold_left].
    assert (Hx' : x < length (F cl a)) by (rewrite HL; exact Hx).
    rewrite (IH (F cl a) x Hr Hx'), (HV cl a x Hx). unfold mem. cbn [existsb]. fold (mem x r).
    destruct (Nat.eqb x a) eqn:E.
    + apply Nat.eqb_eq in E. subst a.
      replace (mem x r) with false by (symmetry; apply mem_false; exact Ha).
      cbn. rewrite N.add_0_r. reflexivity.
    + cbn. rewrite N.add_0_r. reflexivity.
Qed.

Lemma set_active_clock_value : forall scm cl prev called target x,
  NoDup prev -> NoDup target -> x < length cl ->
  nth x (set_active_clock scm cl prev called target) 0%N
  = (nth x cl 0
     + (if mem x target
        then (if negb (mem x prev) then 1
              else if mem x called && s_multi (sget scm x) then 2 else 0)
        else 0)
     + (if mem x prev && negb (mem x target) then 1 else 0))%N.
Proof.
  intros scm cl prev called target x Hp Ht Hx. unfold set_active_clock.
  set (F1 := fun (c : list N) (name : nat) =>
               if negb (mem name prev) then tick_at c name 1
               else if mem name called && s_multi (sget scm name) then tick_at c name 2 else c).
  set (F2 := fun (c : list N) (name : nat) => tick_at c name 1).
  set (d1 := fun name : nat => if negb (mem name prev) then 1%N
                               else if mem name called && s_multi (sget scm name) then 2%N else 0%N).
  assert (H1L : forall c name, length (F1 c name) = length c).
  { intros c name. unfold F1. destruct (negb (mem name prev)); [apply tick_at_length|].
    destruct (mem name called && s_multi (sget scm name)); [apply tick_at_length | reflexivity]. }
  assert (H1V : forall c name y, y < length c ->
            nth y (F1 c name) 0%N = (nth y c 0 + (if Nat.eqb y name then d1 name else 0))%N).
  { intros c name y Hy. unfold F1, d1. destruct (negb (mem name prev)).
    - apply tick_at_value. exact Hy.
    - destruct (mem name called && s_multi (sget scm name)).
      + apply tick_at_value. exact Hy.
      + destruct (Nat.eqb y name); rewrite N.add_0_r; reflexivity. }
  assert (H2L : forall c name, length (F2 c name) = length c) by (intros; apply tick_at_length).
  assert (H2V : forall c name y, y < length c ->
            nth y (F2 c name) 0%N
            = (nth y c 0 + (if Nat.eqb y name then (fun _ : nat => 1%N) name else 0))%N).
  { intros c name y Hy. unfold F2. apply tick_at_value. exact Hy. }
  assert (Hd : NoDup (diff prev target)) by (apply NoDup_filter; exact Hp).
  assert (Hl1 : length (fold_left F1 target cl) = length cl) by (apply fold_keep_length; exact H1L).
  rewrite (fold_step_value F2 (fun _ => 1%N) H2L H2V _ _ x Hd) by (rewrite Hl1; exact Hx).
  rewrite (fold_step_value F1 d1 H1L H1V _ _ x Ht Hx).
  assert (Hmd : mem x (diff prev target) = mem x prev && negb (mem x target)).
  { destruct (mem x (diff prev target)) eqn:E.
    - apply mem_In, diff_In in E. destruct E as [E1 E2]. apply mem_In in E1. apply mem_false in E2.
      rewrite E1, E2. reflexivity.
    - destruct (mem x prev) eqn:E1; [|reflexivity]. destruct (mem x target) eqn:E2; [reflexivity|].
      exfalso. apply mem_false in E. apply E. apply diff_In.
      apply mem_In in E1. apply mem_false in E2. tauto. }
  rewrite Hmd. reflexivity.
Qed.

(* ------------------------------------------------------------------ *)
(* per-step theorems (C07)                                             *)
(* ------------------------------------------------------------------ *)

Lemma not_applied_no_trigger : forall s mu s' rec fins canceled hl,
  rec_base s mu s' rec -> not_applied s mu s' rec fins canceled ->
  triggers_auto hl rec = false.
Proof.
  intros s mu s' rec fins canceled hl Rb N.
  destruct Rb as (_ & _ & _ & _ & _ & Hck & _).
  destruct N as (Hcc & _ & _ & _ & _ & Hacc & _).
  unfold triggers_auto. rewrite Hacc, Hck.
  destruct Hcc as [Hcc|Hcc]; rewrite Hcc; cbn [negb]; rewrite ?andb_false_r; reflexivity.
Qed.

(* (g) *)
Lemma auto_follows_step_lemma : forall s mu s' r rec,
  good s -> run_tx s mu = (s', r) -> txs s' = rec :: txs s ->
  (triggers_auto (health s) rec = true ->
     active s' = tx_target rec /\
     forall c cs, auto_candidates (sc s) (active s') = c :: cs ->
       exists q, queue s' = auto_mut (c :: cs) :: q /\ (no_auto (queue s) -> no_auto q)) /\
  ((triggers_auto (health s) rec = false \/ auto_candidates (sc s) (tx_target rec) = []) ->
     no_auto (queue s) -> no_auto (queue s')).
Proof.
  intros s mu s' r rec G H Htx.
  destruct (run_tx_outcome _ _ _ _ G H)
    as (negs & fins & canceled & tgt1 & _ & _ & _ & _ & _ & _ & _ & _ & _ & O).
  destruct O as [(_ & Hx & _)|(rec' & Rb & O)].
  { rewrite Hx in Htx. exfalso. eapply cons_neq_self. exact Htx. }
  assert (rec' = rec).
  { destruct Rb as (Hx & _). rewrite Hx in Htx. inversion Htx. reflexivity. }
  subst rec'. destruct O as [N|A].
  - pose proof (not_applied_no_trigger _ _ _ _ _ _ (health s) Rb N) as Hnt.
    destruct N as (_ & _ & _ & _ & _ & _ & Q). split.
    + intros Ht. congruence.
    + intros _. exact Q.
  - destruct A as (_ & _ & _ & Ha & _ & _ & _ & _ & _ & _ & _ & Qa & _).
    unfold queue_after in Qa. split.
    + intros Ht. split; [exact Ha|]. rewrite Ha. intros c cs Hc. rewrite Ht, Hc in Qa. exact Qa.
    + intros [Ht|Hc].
      * rewrite Ht in Qa. exact Qa.
      * rewrite Hc in Qa. destruct (triggers_auto (health s) rec); exact Qa.
Qed.

(* (h) *)
Lemma auto_no_chain_lemma : forall s mu s' r,
  good s -> mu_auto mu = true -> run_tx s mu = (s', r) ->
  no_auto (queue s) -> no_auto (queue s').
Proof.
  intros s mu s' r G Hm H.
  destruct (run_tx_outcome _ _ _ _ G H)
    as (negs & fins & canceled & tgt1 & _ & _ & _ & _ & _ & _ & _ & _ & _ & O).
  destruct O as [(_ & _ & _ & _ & _ & Q & _)|(rec & Rb & [N|A])].
  - exact Q.
  - destruct N as (_ & _ & _ & _ & _ & _ & Q). exact Q.
  - destruct A as (_ & _ & _ & _ & _ & _ & _ & _ & _ & _ & _ & Qa & _).
    destruct Rb as (_ & _ & _ & _ & Hau & _).
    assert (Ht : triggers_auto (health s) rec = false).
    { unfold triggers_auto. rewrite Hau, Hm. cbn [negb]. rewrite !andb_false_r. reflexivity. }
    rewrite Ht in Qa. exact Qa.
Qed.

(* the resolver ignores rc_called for Add mutations *)
Lemma add_of_madd : forall c name, rc_mtype c = MAdd ->
  add_of c name = s_add (sget (rc_schema c) name).
Proof.
  intros c name H. unfold add_of. rewrite H. apply filter_all_true. intros x. reflexivity.
Qed.

Lemma parse_add_loop_madd : forall c1 c2 l visited,
  rc_schema c1 = rc_schema c2 -> rc_before c1 = rc_before c2 ->
  rc_mtype c1 = MAdd -> rc_mtype c2 = MAdd ->
  parse_add_loop c1 visited l = parse_add_loop c2 visited l.
Proof.
  intros c1 c2 l. induction l as [|x r IH]; intros visited Hs Hb H1 H2; [reflexivity|].
  cbn [parse_add_loop]. rewrite (add_of_madd c1 x H1), (add_of_madd c2 x H2), Hs, Hb.
  destruct (mem x (rc_before c2) && negb (s_multi (sget (rc_schema c2) x))); [apply IH; assumption|].
  destruct (mem x visited); [apply IH; assumption|].
  destruct (s_add (sget (rc_schema c2) x)); [apply IH; assumption|].
  rewrite (IH (x :: visited)); [reflexivity | assumption..].
Qed.

Lemma target_states_madd : forall c1 c2 ts,
  rc_schema c1 = rc_schema c2 -> rc_before c1 = rc_before c2 ->
  rc_mtype c1 = MAdd -> rc_mtype c2 = MAdd -> rc_topology c1 = rc_topology c2 ->
  target_states c1 ts = target_states c2 ts.
Proof.
  intros c1 c2 ts Hs Hb H1 H2 Ht. unfold target_states, target_unsorted, parse_add.
  rewrite Hs, Ht.
  rewrite (parse_add_loop_madd c1 c2 (uniq ts) [] Hs Hb H1 H2).
  rewrite (parse_add_loop_madd c1 c2 _ [] Hs Hb H1 H2). reflexivity.
Qed.

Lemma diff_diff_filter : forall a b,
  diff a (diff a b) = filter (fun x => mem x b) a.
Proof.
  intros a b. unfold diff at 1. apply filter_ext_in. intros x Hx.
  destruct (mem x b) eqn:E.
  - apply negb_true_iff. apply mem_false. intros Hin. apply diff_In in Hin.
    apply mem_In in E. tauto.
  - apply negb_false_iff. apply mem_In. apply diff_In. split; [exact Hx|].
    apply mem_false. exact E.
Qed.

Lemma filter_length_lt : forall (A : Type) (f : A -> bool) l x,
  In x l -> f x = false -> length (filter f l) < length l.
Proof.
  intros A f l x. induction l as [|y r IH]; intros Hin Hf; [contradiction|].
  cbn. assert (Hle : length (filter f r) <= length r).
  { clear. induction r as [|z q IHq]; cbn; [lia|]. destruct (f z); cbn; lia. }
  destruct Hin as [->|Hin].
  - rewrite Hf. lia.
  - specialize (IH Hin Hf). destruct (f y); cbn; lia.
Qed.

(* (j) an auto transition without any veto: the called states are judged by
   the relations alone *)
Lemma judged_one_by_one_step_lemma : forall s mu s' r new,
  good s -> mu_auto mu = true -> mu_type mu = MAdd -> mu_check mu = false ->
  run_tx s mu = (s', r) -> hlog s' = new ++ hlog s ->
  (forall h, In h new -> is_final_key (hl_key h) = false -> hl_ret h = true) ->
  let joint := resolve (sc s) (topo s) (active s) MAdd (mu_called mu) in
  let clean := filter (fun x => mem x joint) (mu_called mu) in
  let expected := resolve (sc s) (topo s) (active s) MAdd clean in
  forall x, In x clean -> active s' = expected.
Proof.
  intros s mu s' r new G Hm Hty Hck H L Hnv joint clean expected x Hx.
  destruct (run_tx_outcome _ _ _ _ G H)
    as (negs & fins & canceled & tgt1 & L' & _ & _ & _ & Bn & _ & _ & _ & A3 & O).
  rewrite L', app_assoc in L. apply app_inv_tail in L. subst new.
  assert (Hall : Forall rettrue negs).
  { apply Forall_forall. intros h Hh. apply Hnv.
    - apply in_or_app. right. exact Hh.
    - eapply negs_nonfinal; eassumption. }
  destruct (A3 Hall) as [Htg Hcan]. rewrite Hty in Htg, Hcan. fold joint in Htg, Hcan.
  apply filter_In in Hx. destruct Hx as [Hxc Hxj]. apply mem_In in Hxj.
  assert (Hcf : canceled = false).
  { rewrite Hcan. apply orb_false_iff. split.
    - apply negb_false_iff. unfold setup_accepted. rewrite Hty, Hm. cbn [andb].
      replace (length (diff (mu_called mu) joint) <? length (mu_called mu)) with true; [reflexivity|].
      symmetry. apply Nat.ltb_lt. unfold diff.
      apply (filter_length_lt _ _ _ x Hxc). apply negb_false_iff. apply mem_In. exact Hxj.
    - destruct joint as [|j q]; [contradiction|]. cbn. rewrite !andb_false_r. reflexivity. }
  destruct O as [(_ & _ & _ & _ & Hv & _)|(rec & Rb & [N|A])].
  - contradiction.
  - destruct N as ([Hc|Hc] & _); congruence.
  - destruct A as (_ & _ & _ & Ha & _ & _ & _ & _ & _ & _ & _ & _ & Ht & _).
    rewrite Ha, Ht, Hm, Htg. unfold retarget_of, expected, resolve.
    rewrite diff_diff_filter. fold clean. rewrite Hty.
    apply target_states_madd; reflexivity.
Qed.

(* ------------------------------------------------------------------ *)
(* the per-transition clauses of Spec/C05.v, cut in two                *)
(* ------------------------------------------------------------------ *)

Definition after_veto_fix (na ce : bool) : list hlentry -> bool :=
  fix after_veto (l : list hlentry) : bool :=
    match l with
    | [] => true
    | h :: r => if negb (is_final_key (hl_key h)) && negb (hl_ret h)
                then (match r with [] => true | _ => false end) && na && ce
                else after_veto r
    end.

(* codes 51 .. 56 *)
Definition c05_local_codes (sc : schema) (bs : list (list hkey)) (hlog : list hlentry)
  (t : txrec) : list N :=
  let hs := slice hlog (tx_hfrom t) (tx_hto t) in
  let applied := tx_accepted t && negb (tx_check t) in
  let neg := filter (fun h => negb (is_final_key (hl_key h))) hs in
  let fin := filter (fun h => is_final_key (hl_key h)) hs in
  (if nondecreasing (map (fun h => phase_rank (hl_key h)) hs) then [] else [51%N])
  ++ (if forallb (fun h => list_eqb (hl_active h) (tx_active_before t)
                           && clock_eqb (hl_clock h) (tx_before t)) neg then [] else [52%N])
  ++ (if forallb (fun h => list_eqb (hl_active h) (tx_target t)
                           && clock_eqb (hl_clock h) (tx_after t)) fin then [] else [53%N])
  ++ (if tx_auto t then [] else
        if after_veto_fix (negb (tx_accepted t)) (clock_eqb (tx_before t) (tx_after t)) hs
        then [] else [54%N])
  ++ (if applied then
        let exits := expected_exits t in
        let enters := expected_enters sc t in
        let ok :=
          forallb (fun ib : nat * list hkey =>
            let '(i, b) := ib in
            forallb (fun k =>
              match k with
              | HEnd x => Nat.eqb (count_key hs k i) (if mem x exits then 1 else 0)
              | HState x => Nat.eqb (count_key hs k i) (if mem x enters then 1 else 0)
              | _ => true
              end) b) (combine (seq 0 (length bs)) bs) in
        if ok then [] else [55%N]
      else match fin with [] => [] | _ => [56%N] end).

(* codes 57, 580, 581 *)
Definition c05_order_codes (sc : schema) (topo : list nat) (hlog : list hlentry) (t : txrec)
  : list N :=
  let hs := slice hlog (tx_hfrom t) (tx_hto t) in
  (let req_after a b := mem b (s_require (sget sc a))
                           && negb (mem a (rel_closure (length sc) (fun x => s_require (sget sc x)) [b]))
                           && negb (mem a (s_after (sget sc b))) in
      let aft_after a b := mem b (s_after (sget sc a))
                           && negb (mem a (rel_closure (length sc) (fun x => s_after (sget sc x)) [b])) in
      let full_exits := sort_states sc topo (expected_exits t) in
      let full_enters := tx_target t in
      let phases :=
        [ (phase_states 0 (fun k => match k with HExit _ => true | _ => false end) hs, full_exits);
          (phase_states 1 (fun k => match k with HEnter _ => true | _ => false end) hs, full_enters);
          (phase_states 3 (fun k => match k with HEnd _ => true | _ => false end) hs, full_exits);
          (phase_states 4 (fun k => match k with HState _ => true | _ => false end) hs, full_enters) ] in
      flat_map (fun of : list nat * list nat =>
        let '(order, full) := of in
        (if require_acyclic sc then
           match order_violations req_after order with [] => [] | _ => [57%N] end
         else [])
        ++ map (fun p : nat * nat => if adjacent_in full (fst p) (snd p) then 580%N else 581%N)
               (order_violations aft_after order)) phases).

Lemma tx_handler_codes_split : forall sc topo bs hlog t,
  tx_handler_codes sc topo bs hlog t
  = c05_local_codes sc bs hlog t ++ c05_order_codes sc topo hlog t.
Proof.
  intros sc topo bs hlog t. unfold tx_handler_codes, c05_local_codes, c05_order_codes.
  cbv zeta. rewrite <- !app_assoc. reflexivity.
Qed.

Lemma list_eqb_refl : forall l, list_eqb l l = true.
Proof. induction l as [|x r IH]; [reflexivity|]. cbn. rewrite Nat.eqb_refl, IH. reflexivity. Qed.

Lemma clock_eqb_refl : forall l, clock_eqb l l = true.
Proof. induction l as [|x r IH]; [reflexivity|]. cbn. rewrite N.eqb_refl, IH. reflexivity. Qed.

Lemma slice_rev_mid : forall (A : Type) (later new old : list A),
  slice (rev (later ++ new ++ old)) (length old) (length (new ++ old)) = rev new.
Proof.
  intros A later new old. unfold slice. rewrite !rev_app_distr, <- app_assoc.
  rewrite skipn_app, rev_length, Nat.sub_diag. cbn [skipn].
  rewrite (skipn_all2 (rev old)) by (rewrite rev_length; lia). cbn [app].
  rewrite app_length. replace (length new + length old - length old) with (length new) by lia.
  rewrite firstn_app, rev_length, Nat.sub_diag. cbn [firstn]. rewrite app_nil_r.
  rewrite <- (rev_length new). apply firstn_all.
Qed.

Lemma slice_rev_ext : forall (A : Type) (x h : list A) from to,
  to <= length h -> slice (rev (x ++ h)) from to = slice (rev h) from to.
Proof.
  intros A x h from to Hto. unfold slice. rewrite rev_app_distr.
  destruct (Nat.le_gt_cases from (length h)) as [Hle|Hgt].
  - rewrite skipn_app, rev_length.
    replace (from - length h) with 0 by lia. cbn [skipn].
    rewrite firstn_app, skipn_length, rev_length.
    replace (to - from - (length h - from)) with 0 by lia. cbn [firstn]. apply app_nil_r.
  - replace (to - from) with 0 by lia. reflexivity.
Qed.

Lemma combine_seq_nth : forall (bs : list (list hkey)) k i b,
  In (i, b) (combine (seq k (length bs)) bs) -> k <= i /\ nth (i - k) bs [] = b.
Proof.
  induction bs as [|b0 r IH]; intros k i b H; [contradiction|].
  cbn in H. destruct H as [H|H].
  - inversion H; subst. split; [lia|]. rewrite Nat.sub_diag. reflexivity.
  - apply IH in H. destruct H as [Hle Hn]. split; [lia|].
    replace (i - k) with (S (i - S k)) by lia. exact Hn.
Qed.

Definition nonveto (h : hlentry) : Prop :=
  negb (is_final_key (hl_key h)) && negb (hl_ret h) = false.

Lemma after_veto_cons : forall na ce h r,
  after_veto_fix na ce (h :: r)
  = if negb (is_final_key (hl_key h)) && negb (hl_ret h)
    then (match r with [] => true | _ => false end) && na && ce
    else after_veto_fix na ce r.
Proof. reflexivity. Qed.

Lemma filter_none : forall (A : Type) (f : A -> bool) l,
  (forall x, In x l -> f x = false) -> filter f l = [].
Proof.
  intros A f l H. induction l as [|x r IH]; [reflexivity|].
  cbn. rewrite (H x (or_introl eq_refl)). apply IH. intros y Hy. apply H. right. exact Hy.
Qed.

Lemma after_veto_ok : forall na ce hs,
  Forall nonveto hs \/
  (exists pre e, hs = pre ++ [e] /\ Forall nonveto pre /\ na = true /\ ce = true) ->
  after_veto_fix na ce hs = true.
Proof.
  intros na ce hs [Hall|(pre & e & -> & Hpre & -> & ->)].
  - induction Hall as [|h r Hh Hr IH]; [reflexivity|].
    rewrite after_veto_cons. unfold nonveto in Hh. rewrite Hh. exact IH.
  - induction Hpre as [|h r Hh Hr IH].
    + cbn [app]. rewrite after_veto_cons.
      destruct (negb (is_final_key (hl_key e)) && negb (hl_ret e)); reflexivity.
    + cbn [app]. rewrite after_veto_cons. unfold nonveto in Hh. rewrite Hh. exact IH.
Qed.

Lemma c05_local_nil : forall sc bs hlog t,
  let hs := slice hlog (tx_hfrom t) (tx_hto t) in
  nondecreasing (map (fun h => phase_rank (hl_key h)) hs) = true ->
  (forall h, In h hs -> is_final_key (hl_key h) = false ->
     hl_active h = tx_active_before t /\ hl_clock h = tx_before t) ->
  (forall h, In h hs -> is_final_key (hl_key h) = true ->
     hl_active h = tx_target t /\ hl_clock h = tx_after t) ->
  (tx_auto t = false ->
     Forall nonveto hs \/
     (exists pre e, hs = pre ++ [e] /\ Forall nonveto pre /\
        tx_accepted t = false /\ tx_after t = tx_before t)) ->
  (tx_accepted t && negb (tx_check t) = true -> forall i x,
     count_key hs (HEnd x) i
       = (if existsb (hkey_eqb (HEnd x)) (nth i bs []) && mem x (expected_exits t)
          then 1 else 0) /\
     count_key hs (HState x) i
       = (if existsb (hkey_eqb (HState x)) (nth i bs []) && mem x (expected_enters sc t)
          then 1 else 0)) ->
  (tx_accepted t && negb (tx_check t) = false ->
     forall h, In h hs -> is_final_key (hl_key h) = false) ->
  c05_local_codes sc bs hlog t = [].
Proof.
  intros sc bs hlog t hs H1 H2 H3 H4 H5 H6. unfold c05_local_codes. fold hs.
  rewrite H1.
  replace (forallb _ (filter (fun h => negb (is_final_key (hl_key h))) hs)) with true.
  2:{ symmetry. apply forallb_forall. intros h Hh. apply filter_In in Hh.
      destruct Hh as [Hh Hf]. apply negb_true_iff in Hf.
      destruct (H2 h Hh Hf) as [-> ->]. rewrite list_eqb_refl, clock_eqb_refl. reflexivity. }
  replace (forallb _ (filter (fun h => is_final_key (hl_key h)) hs)) with true.
  2:{ symmetry. apply forallb_forall. intros h Hh. apply filter_In in Hh.
      destruct Hh as [Hh Hf].
      destruct (H3 h Hh Hf) as [-> ->]. rewrite list_eqb_refl, clock_eqb_refl. reflexivity. }
  cbn [app].
  assert (E4 : (if tx_auto t then []
                else if after_veto_fix (negb (tx_accepted t))
                          (clock_eqb (tx_before t) (tx_after t)) hs then [] else [54%N]) = []).
  { destruct (tx_auto t) eqn:Ea; [reflexivity|].
    rewrite after_veto_ok; [reflexivity|].
    destruct (H4 eq_refl) as [Hall|(pre & e & Hhs & Hpre & Hacc & Haf)]; [left; exact Hall|].
    right. exists pre, e. split; [exact Hhs|]. split; [exact Hpre|].
    rewrite Hacc, Haf, clock_eqb_refl. split; reflexivity. }
  rewrite E4. cbn [app].
  destruct (tx_accepted t && negb (tx_check t)) eqn:Eapp.
  - replace (forallb _ (combine (seq 0 (length bs)) bs)) with true; [reflexivity|].
    symmetry. apply forallb_forall. intros [i b] Hib.
    apply combine_seq_nth in Hib. destruct Hib as [_ Hn]. rewrite Nat.sub_0_r in Hn.
    apply forallb_forall. intros k Hk.
    assert (Hd : existsb (hkey_eqb k) (nth i bs []) = true).
    { rewrite Hn. apply existsb_exists. exists k. split; [exact Hk | apply hkey_eqb_refl]. }
    destruct k; try reflexivity.
    + destruct (H5 eq_refl i s) as [Y _]. rewrite Y, Hd. cbn [andb]. apply Nat.eqb_refl.
    + destruct (H5 eq_refl i s) as [_ Y]. rewrite Y, Hd. cbn [andb]. apply Nat.eqb_refl.
  - replace (filter (fun h => is_final_key (hl_key h)) hs) with (@nil hlentry); [reflexivity|].
    symmetry. apply filter_none. intros h Hh. apply H6; [reflexivity | exact Hh].
Qed.

Lemma rettrue_nonveto : forall h, rettrue h -> nonveto h.
Proof. intros h H. unfold nonveto, rettrue in *. rewrite H. apply andb_false_r. Qed.

Lemma final_nonveto : forall h, is_final_key (hl_key h) = true -> nonveto h.
Proof. intros h H. unfold nonveto. rewrite H. reflexivity. Qed.

(* the record appended by one run_tx passes the clauses 51 .. 56 *)
Lemma c05_local_step : forall s mu s' r rec,
  good s -> NoDup (active s) -> run_tx s mu = (s', r) -> txs s' = rec :: txs s ->
  c05_local_codes (sc s) (bindings s) (rev (hlog s')) rec = [] /\
  tx_hto rec <= length (hlog s').
Proof.
  intros s mu s' r rec G Hnd H Htx.
  destruct (run_tx_outcome _ _ _ _ G H)
    as (negs & fins & canceled & tgt1 & L & _ & _ & En & Bn & _ & _ & V & _ & O).
  destruct O as [(_ & Hx & _)|(rec' & Rb & O)].
  { rewrite Hx in Htx. exfalso. eapply cons_neq_self. exact Htx. }
  assert (rec' = rec).
  { destruct Rb as (Hx & _). rewrite Hx in Htx. inversion Htx. reflexivity. }
  subst rec'.
  assert (L2 : hlog s' = (fins ++ negs) ++ hlog s) by (rewrite L, app_assoc; reflexivity).
  pose proof Rb as (_ & _ & _ & _ & Hau & _ & _ & Hb & Hab & Hfrom & Hto & _).
  split; [|rewrite Hto; lia].
  assert (Hs : slice (rev (hlog s')) (tx_hfrom rec) (tx_hto rec) = rev (fins ++ negs)).
  { rewrite Hfrom, Hto, L2.
    apply (slice_rev_mid hlentry [] (fins ++ negs) (hlog s)). }
  apply c05_local_nil; rewrite Hs.
  - eapply phase_order_step_lemma; eassumption.
  - intros h Hh Hf. apply in_rev in Hh. rewrite Hab, Hb.
    eapply negotiation_sees_before_step_lemma; eassumption.
  - intros h Hh Hf. apply in_rev in Hh.
    destruct (finals_see_after_step_lemma _ _ _ _ _ _ G H L2 Htx h Hh Hf) as (Y1 & Y2 & _).
    tauto.
  - intros Ha. rewrite Hau in Ha. destruct (V Ha) as [_ V'].
    destruct (outcome_fins_final _ _ _ _ _ _ _ O) as [Ff _].
    assert (Ffn : Forall nonveto fins).
    { eapply Forall_impl; [|exact Ff]. intros h. apply final_nonveto. }
    destruct V' as [[_ Hall]|[Hc Hv]].
    + left. apply Forall_rev_l. apply Forall_app. split; [exact Ffn|].
      eapply Forall_impl; [|exact Hall]. intros h. apply rettrue_nonveto.
    + destruct O as [N|A]; [|destruct A as (Hx & _); congruence].
      destruct N as (_ & -> & _ & _ & Haf & Hacc & _).
      destruct Hv as [->|(e & rest & -> & Hr & Hall)].
      * left. constructor.
      * right. exists (rev rest), e. split; [reflexivity|]. split.
        -- apply Forall_rev_l. eapply Forall_impl; [|exact Hall]. intros h. apply rettrue_nonveto.
        -- rewrite Hacc, Hc, Haf, Hb. split; [apply andb_false_r | reflexivity].
  - intros Happ. eapply finals_once_step_lemma; eassumption.
  - intros Happ h Hh. apply in_rev in Hh.
    destruct (finals_once_step_lemma _ _ _ _ _ _ G Hnd H L2 Htx) as [_ Y].
    apply Y; assumption.
Qed.

(* ------------------------------------------------------------------ *)
(* C05b: every bound negotiation handler of an applied transition is   *)
(* consulted exactly once per binding                                  *)
(* ------------------------------------------------------------------ *)

Lemma vetoed_own_intro : forall hs x k,
  vetoed k hs -> is_final_key k = false -> own_key x k = true -> vetoed_own hs x = true.
Proof.
  intros hs x k (h & Hh & Hk & Hr) Hf Ho. unfold vetoed_own. apply existsb_exists.
  exists h. split; [exact Hh|]. rewrite Hk, Hf, Hr, Ho. reflexivity.
Qed.

Lemma vetoed_rev : forall k l, vetoed k l -> vetoed k (rev l).
Proof. intros k l (h & Hh & R). exists h. split; [apply in_rev; rewrite rev_involutive; exact Hh | exact R]. Qed.

Lemma allt_In : forall before after b a,
  In b before -> In a after -> a <> b -> In (HTrans b a) (allt before after).
Proof.
  intros before after b a Hb Ha Hn. unfold allt. apply in_flat_map. exists b. split; [exact Hb|].
  unfold tkeys. apply in_map. apply filter_In. split; [exact Ha|].
  apply negb_true_iff. apply Nat.eqb_neq. intros E. apply Hn. symmetry. exact E.
Qed.

Lemma consulted_expected_step : forall s mu s' r rec new,
  good s -> NoDup (active s) -> (mu_auto mu = true -> mu_type mu = MAdd) ->
  run_tx s mu = (s', r) -> hlog s' = new ++ hlog s -> txs s' = rec :: txs s ->
  tx_accepted rec && negb (tx_check rec) = true ->
  forall k, In k (expected_negotiation (sc s) (topo s) (rev new) rec) ->
  forall i, count_key (rev new) k i = if defines (bindings s) i k then 1 else 0.
Proof.
  intros s mu s' r rec new G Hnd Hty H L Htx Happ k Hk i.
  destruct (new_transition_facts s mu) as (Tm & Tb & _ & _ & Ttg & Tacc & Tex).
  destruct (run_tx_outcome _ _ _ _ G H)
    as (negs & fins & canceled & tgt1 & L' & _ & _ & _ & Bn & (_ & _ & Nc & F4 & _) & _ & A2 & _ & O).
  rewrite L', app_assoc in L. apply app_inv_tail in L. subst new.
  destruct O as [(_ & Hx & _)|(rec' & Rb & O)].
  { rewrite Hx in Htx. exfalso. eapply cons_neq_self. exact Htx. }
  assert (rec' = rec).
  { destruct Rb as (Hx & _). rewrite Hx in Htx. inversion Htx. reflexivity. }
  subst rec'.
  pose proof Rb as (_ & _ & _ & Hca & Hau & Hck & _ & _ & Hab & _).
  destruct O as [N|A].
  { destruct N as (Hcc & _ & _ & _ & _ & Hacc & _). exfalso. rewrite Hacc, Hck in Happ.
    destruct Hcc as [Hcc|Hcc]; rewrite Hcc in Happ; cbn [negb] in Happ;
      rewrite ?andb_false_r in Happ; discriminate. }
  pose proof A as (Hcf & _ & _ & _ & _ & _ & _ & _ & Ff & _ & _ & _ & Htg & _).
  destruct (Tex (F4 Hcf)) as [Hex Hen].
  destruct (Nc Hcf Hnd) as (tgt3 & Dl & Al & Cn).
  assert (Cn' : cons_on (bindings s) (negP (new_transition s mu) tgt3) (fins ++ negs)).
  { apply (cons_pad_l _ _ (fun k' => is_final_key k' = true) _ fins Cn Ff).
    intros k' [Hp|[Hp|Hp]] Hf.
    - apply in_map_iff in Hp. destruct Hp as (a & <- & _). discriminate.
    - apply in_map_iff in Hp. destruct Hp as (a & <- & _). discriminate.
    - unfold allt in Hp. apply in_flat_map in Hp. destruct Hp as (b & _ & Hp).
      unfold tkeys in Hp. apply in_map_iff in Hp. destruct Hp as (a & <- & _). discriminate. }
  assert (Hcount : forall k', negP (new_transition s mu) tgt3 k' ->
            (vetoed k' (fins ++ negs) -> False) ->
            count_key (rev (fins ++ negs)) k' i = if defines (bindings s) i k' then 1 else 0).
  { intros k' Hp Hnv. rewrite count_key_rev. destruct (Cn' k' Hp) as [V|C]; [contradiction | apply C]. }
  unfold expected_negotiation in Hk. rewrite Hau, Hab, Hca in Hk.
  destruct (mu_auto mu) eqn:Eau.
  - (* auto *)
    specialize (Hty eq_refl). rewrite Hty in Ttg.
    set (hs := rev (fins ++ negs)) in *.
    assert (Hact : forall x, In x (filter (fun x => mem x (mu_called mu) && negb (mem x (active s))
                       && mem x (resolve (sc s) (topo s) (active s) MAdd (mu_called mu))
                       && negb (vetoed_own hs x)) (tx_target rec)) ->
              In x (t_target (new_transition s mu)) /\ ~ In x (active s) /\ vetoed_own hs x = false).
    { intros x Hx. apply filter_In in Hx. destruct Hx as [_ Hx].
      apply andb_true_iff in Hx. destruct Hx as [Hx Hv]. apply andb_true_iff in Hx.
      destruct Hx as [Hx Hf]. apply andb_true_iff in Hx. destruct Hx as [_ Hb].
      rewrite Ttg. split; [apply mem_In; exact Hf|]. split.
      - apply mem_false. apply negb_true_iff. exact Hb.
      - apply negb_true_iff. exact Hv. }
    assert (Hnov : forall x k', vetoed_own hs x = false -> is_final_key k' = false ->
              own_key x k' = true -> vetoed k' (fins ++ negs) -> False).
    { intros x k' Hv Hf Ho V. apply vetoed_rev in V.
      pose proof (vetoed_own_intro _ x k' V Hf Ho) as Hv'.
      change (rev (fins ++ negs)) with hs in Hv'. congruence. }
    apply in_app_or in Hk. destruct Hk as [Hk|Hk].
    + apply in_map_iff in Hk. destruct Hk as (x & <- & Hx).
      destruct (Hact x Hx) as (Hxt & Hxb & Hxv).
      apply Hcount.
      * right. left. apply in_map. rewrite Hen. apply filter_In. split; [exact Hxt|].
        apply mem_false in Hxb. rewrite Hxb. reflexivity.
      * apply (Hnov x); [exact Hxv | reflexivity | cbn; apply Nat.eqb_refl].
    + apply in_flat_map in Hk. destruct Hk as (b & Hb & Hk).
      apply in_map_iff in Hk. destruct Hk as (a & <- & Ha).
      apply filter_In in Ha. destruct Ha as [Ha Hne].
      destruct (Hact a Ha) as (Hat & Hab' & Hav).
      apply negb_true_iff, Nat.eqb_neq in Hne.
      apply Hcount.
      * right. right. rewrite Tb. apply allt_In; [exact Hb| |exact Hne].
        destruct (in_dec Nat.eq_dec a tgt3) as [Hi|Hi]; [exact Hi|]. exfalso.
        destruct (Dl a Hat Hi) as [Hx|[Hx|Hx]].
        -- rewrite Hex in Hx. apply sort_states_In, diff_In in Hx. tauto.
        -- apply (Hnov a (HEnter a) Hav eq_refl); [cbn; apply Nat.eqb_refl|].
           apply vetoed_app. right. exact Hx.
        -- contradiction.
      * apply (Hnov a); [exact Hav | reflexivity | cbn; apply Nat.eqb_refl].
  - (* not auto: nothing returned false *)
    destruct (A2 eq_refl) as [Htg1 [[_ Hall]|[Hc _]]]; [|congruence].
    rewrite Htg1, <- Ttg in Htg. cbv iota in Htg.
    assert (Hnov : forall k', is_final_key k' = false -> vetoed k' (fins ++ negs) -> False).
    { intros k' Hf (h & Hh & Hkh & Hr). rewrite <- Hkh in Hf.
      apply in_app_or in Hh. destruct Hh as [Hh|Hh].
      - rewrite Forall_forall in Ff. specialize (Ff h Hh). congruence.
      - rewrite Forall_forall in Hall. specialize (Hall h Hh). unfold rettrue in Hall. congruence. }
    rewrite (Al Hall) in *.
    apply in_app_or in Hk. destruct Hk as [Hk|Hk]; [|apply in_app_or in Hk; destruct Hk as [Hk|Hk]].
    + apply in_map_iff in Hk. destruct Hk as (x & <- & Hx). apply Hcount; [|apply Hnov; reflexivity].
      left. apply in_map. rewrite Hex. apply sort_states_In. rewrite <- Htg. exact Hx.
    + apply in_map_iff in Hk. destruct Hk as (x & <- & Hx). apply Hcount; [|apply Hnov; reflexivity].
      right. left. apply in_map. rewrite Hen. unfold expected_enters in Hx.
      rewrite Hab, Hca, Htg, Tm in *. exact Hx.
    + apply in_flat_map in Hk. destruct Hk as (b & Hb & Hk).
      apply in_map_iff in Hk. destruct Hk as (a & <- & Ha).
      apply filter_In in Ha. destruct Ha as [Ha Hne].
      apply negb_true_iff, Nat.eqb_neq in Hne.
      apply Hcount; [|apply Hnov; reflexivity].
      right. right. rewrite Tb. apply allt_In; [exact Hb | rewrite <- Htg; exact Ha | exact Hne].
Qed.

(* codes 59: both for non-auto and for auto (MAdd) mutations *)
Lemma consulted_step_lemma : forall s mu s' r rec,
  good s -> NoDup (active s) -> (mu_auto mu = true -> mu_type mu = MAdd) ->
  run_tx s mu = (s', r) -> txs s' = rec :: txs s ->
  consulted_codes (sc s) (topo s) (bindings s) (rev (hlog s')) rec = [].
Proof.
  intros s mu s' r rec G Hnd Hty H Htx. unfold consulted_codes.
  destruct (tx_accepted rec && negb (tx_check rec)) eqn:Happ; [|reflexivity]. cbn [negb].
  destruct (run_tx_outcome _ _ _ _ G H)
    as (negs & fins & canceled & tgt1 & L & _ & _ & _ & _ & _ & _ & _ & _ & O).
  destruct O as [(_ & Hx & _)|(rec' & Rb & _)].
  { rewrite Hx in Htx. exfalso. eapply cons_neq_self. exact Htx. }
  assert (rec' = rec).
  { destruct Rb as (Hx & _). rewrite Hx in Htx. inversion Htx. reflexivity. }
  subst rec'.
  assert (L2 : hlog s' = (fins ++ negs) ++ hlog s) by (rewrite L, app_assoc; reflexivity).
  pose proof Rb as (_ & _ & _ & _ & _ & _ & _ & _ & _ & Hfrom & Hto & _).
  assert (Hs : slice (rev (hlog s')) (tx_hfrom rec) (tx_hto rec) = rev (fins ++ negs)).
  { rewrite Hfrom, Hto, L2. apply (slice_rev_mid hlentry [] (fins ++ negs) (hlog s)). }
  rewrite Hs.
  replace (forallb _ (combine (seq 0 (length (bindings s))) (bindings s))) with true; [reflexivity|].
  symmetry. apply forallb_forall. intros [i b] Hib.
  apply combine_seq_nth in Hib. destruct Hib as [_ Hn]. rewrite Nat.sub_0_r in Hn.
  apply forallb_forall. intros k Hk.
  destruct (existsb (hkey_eqb k) b) eqn:Ed; [|reflexivity]. cbn [negb orb].
  rewrite (consulted_expected_step _ _ _ _ _ _ G Hnd Hty H L2 Htx Happ k Hk i).
  unfold defines. rewrite Hn, Ed. reflexivity.
Qed.

Lemma consulted_codes_slice : forall scm tp bs h1 h2 t,
  slice h1 (tx_hfrom t) (tx_hto t) = slice h2 (tx_hfrom t) (tx_hto t) ->
  consulted_codes scm tp bs h1 t = consulted_codes scm tp bs h2 t.
Proof. intros scm tp bs h1 h2 t H. unfold consulted_codes. rewrite H. reflexivity. Qed.

(* ------------------------------------------------------------------ *)
(* the order of the handlers of one record follows sorted lists        *)
(* ------------------------------------------------------------------ *)

Definition ord_ok (scm : schema) (tp : list nat) (hlogc : list hlentry) (t : txrec) : Prop :=
  sorted_sub scm tp (uniq (pst is_exit (slice hlogc (tx_hfrom t) (tx_hto t)))) /\
  sorted_sub scm tp (uniq (pst is_enter (slice hlogc (tx_hfrom t) (tx_hto t)))) /\
  sorted_sub scm tp (uniq (pst is_end (slice hlogc (tx_hfrom t) (tx_hto t)))) /\
  sorted_sub scm tp (uniq (pst is_state (slice hlogc (tx_hfrom t) (tx_hto t)))).

Lemma bounded_range : forall lo hi (hs : list hlentry),
  bounded lo hi (map rk hs) -> Forall (fun h => lo <= phase_rank (hl_key h) <= hi) hs.
Proof.
  intros lo hi hs [_ F]. apply Forall_forall. intros h Hh. rewrite Forall_forall in F.
  apply (F (rk h)). apply in_map. exact Hh.
Qed.

Lemma ord_step : forall s mu s' r rec,
  good s -> run_tx s mu = (s', r) -> txs s' = rec :: txs s ->
  ord_ok (sc s) (topo s) (rev (hlog s')) rec.
Proof.
  intros s mu s' r rec G H Htx.
  destruct (run_tx_outcome _ _ _ _ G H)
    as (negs & fins & canceled & tgt1 & L & _ & _ & _ & Bn & (On1 & On2 & _) & _ & _ & _ & O).
  destruct O as [(_ & Hx & _)|(rec' & Rb & O)].
  { rewrite Hx in Htx. exfalso. eapply cons_neq_self. exact Htx. }
  assert (rec' = rec).
  { destruct Rb as (Hx & _). rewrite Hx in Htx. inversion Htx. reflexivity. }
  subst rec'.
  assert (L2 : hlog s' = (fins ++ negs) ++ hlog s) by (rewrite L, app_assoc; reflexivity).
  pose proof Rb as (_ & _ & _ & _ & _ & _ & _ & _ & _ & Hfrom & Hto & _).
  assert (Hs : slice (rev (hlog s')) (tx_hfrom rec) (tx_hto rec) = rev negs ++ rev fins).
  { rewrite Hfrom, Hto, L2, <- rev_app_distr.
    apply (slice_rev_mid hlentry [] (fins ++ negs) (hlog s)). }
  destruct (outcome_fins_final _ _ _ _ _ _ _ O) as [_ Bf].
  pose proof (bounded_range _ _ _ Bn) as Rn. pose proof (bounded_range _ _ _ Bf) as Rf.
  unfold ord_ok. rewrite Hs, !pst_app.
  rewrite (rank_range_pst_nil is_exit 0 3 5 (rev fins) is_exit_rank) by (try lia; exact Rf).
  rewrite (rank_range_pst_nil is_enter 1 3 5 (rev fins) is_enter_rank) by (try lia; exact Rf).
  rewrite (rank_range_pst_nil is_end 3 0 2 (rev negs) is_end_rank) by (try lia; exact Rn).
  rewrite (rank_range_pst_nil is_state 4 0 2 (rev negs) is_state_rank) by (try lia; exact Rn).
  rewrite !app_nil_r. cbn [app].
  split; [exact On1|]. split; [exact On2|].
  destruct O as [N|A].
  - destruct N as (_ & -> & _). cbn. split; apply sorted_sub_nil.
  - destruct A as (_ & _ & _ & _ & _ & _ & _ & _ & _ & _ & _ & _ & _ & S1 & S2). tauto.
Qed.

Lemma ord_ok_slice : forall scm tp h1 h2 t,
  slice h1 (tx_hfrom t) (tx_hto t) = slice h2 (tx_hfrom t) (tx_hto t) ->
  ord_ok scm tp h1 t -> ord_ok scm tp h2 t.
Proof. intros scm tp h1 h2 t H. unfold ord_ok. rewrite H. tauto. Qed.

(* ------------------------------------------------------------------ *)
(* C07 (j) against judged_codes, for veto-free auto transitions        *)
(* ------------------------------------------------------------------ *)

Lemma run_tx_parity : forall s mu s' r,
  good s -> NoDup (active s) -> parity s -> run_tx s mu = (s', r) -> parity s'.
Proof.
  intros s mu s' r G Hnd [P1 P2] H.
  destruct (run_tx_outcome _ _ _ _ G H)
    as (negs & fins & canceled & tgt1 & _ & C & _ & _ & _ & _ & _ & _ & _ & O).
  destruct C as (Csc & _). unfold parity. rewrite Csc.
  destruct O as [(_ & _ & _ & _ & _ & _ & Hc & Ha & _)|(rec & Rb & [N|A])].
  - rewrite Hc, Ha. split; assumption.
  - destruct N as (_ & _ & Hc & Ha & _). rewrite Hc, Ha. split; assumption.
  - destruct A as (_ & _ & _ & Ha & Hc & Hs & _ & _ & _ & Hn & _).
    rewrite Hc, Ha, Hs.
    destruct (set_active_clock_parity (sc s) (clock s) (active s) (mu_called mu) (tx_target rec)
                Hnd Hn P2) as [Y1 Y2].
    split; [rewrite Y1; exact P1|]. intros x Hx. apply Y2. rewrite Y1 in Hx. exact Hx.
Qed.

Definition no_veto_in (hs : list hlentry) : Prop :=
  forall h, In h hs -> is_final_key (hl_key h) = false -> hl_ret h = true.

Lemma judged_codes_step : forall s mu s' r rec,
  good s -> NoDup (active s) -> parity s ->
  (mu_auto mu = true -> mu_type mu = MAdd /\ mu_check mu = false /\
                        forall x, In x (mu_called mu) -> x < length (sc s)) ->
  run_tx s mu = (s', r) -> txs s' = rec :: txs s ->
  no_veto_in (slice (rev (hlog s')) (tx_hfrom rec) (tx_hto rec)) ->
  judged_codes (sc s) (topo s) (rev (hlog s')) rec = [].
Proof.
  intros s mu s' r rec G Hnd Hpar Hau H Htx Hnv.
  pose proof (run_tx_parity _ _ _ _ G Hnd Hpar H) as [P1' P2'].
  destruct (run_tx_outcome _ _ _ _ G H)
    as (negs & fins & canceled & tgt1 & L & C & _ & _ & _ & _ & _ & _ & _ & O).
  destruct C as (Csc & _).
  destruct O as [(_ & Hx & _)|(rec' & Rb & O)].
  { rewrite Hx in Htx. exfalso. eapply cons_neq_self. exact Htx. }
  assert (rec' = rec).
  { destruct Rb as (Hx & _). rewrite Hx in Htx. inversion Htx. reflexivity. }
  subst rec'.
  assert (L2 : hlog s' = (fins ++ negs) ++ hlog s) by (rewrite L, app_assoc; reflexivity).
  pose proof Rb as (_ & _ & _ & Hca & Hta & _ & _ & _ & Hab & Hfrom & Hto & _).
  assert (Hs : slice (rev (hlog s')) (tx_hfrom rec) (tx_hto rec) = rev (fins ++ negs)).
  { rewrite Hfrom, Hto, L2. apply (slice_rev_mid hlentry [] (fins ++ negs) (hlog s)). }
  assert (Haf : tx_after rec = clock s').
  { destruct O as [N|A].
    - destruct N as (_ & _ & Hc & _ & Ht & _). congruence.
    - destruct A as (_ & _ & _ & _ & Hc & _). congruence. }
  unfold judged_codes. rewrite Hta. destruct (mu_auto mu) eqn:Em; [|reflexivity]. cbn [negb].
  destruct (Hau eq_refl) as (Hty & Hck & Hlt).
  rewrite Hs in *.
  replace (filter (fun h => negb (is_final_key (hl_key h)) && negb (hl_ret h)) (rev (fins ++ negs)))
    with (@nil hlentry).
  2:{ symmetry. apply filter_none. intros h Hh.
      destruct (is_final_key (hl_key h)) eqn:Ef; [reflexivity|].
      rewrite (Hnv h Hh Ef). reflexivity. }
  cbn [existsb].
  rewrite Hca, Hab.
  rewrite (filter_all_true _ (fun x : nat => negb false) (mu_called mu)) by reflexivity.
  set (joint := resolve (sc s) (topo s) (active s) MAdd (mu_called mu)).
  set (clean := filter (fun x => mem x joint) (mu_called mu)).
  replace (forallb _ clean) with true; [reflexivity|].
  symmetry. apply forallb_forall. intros x Hx.
  destruct (mem x (resolve (sc s) (topo s) (active s) MAdd clean)) eqn:Ee; [|reflexivity].
  cbn [negb orb].
  assert (Hact : active s' = resolve (sc s) (topo s) (active s) MAdd clean).
  { apply (judged_one_by_one_step_lemma s mu s' r (fins ++ negs) G Em Hty Hck H L2) with (x := x).
    - intros h Hh Hf. apply Hnv; [apply in_rev; rewrite rev_involutive; exact Hh | exact Hf].
    - exact Hx. }
  apply mem_In. apply filter_In.
  assert (Hxl : x < length (clock s')).
  { rewrite P1', Csc. apply Hlt. apply filter_In in Hx. tauto. }
  rewrite Haf. split; [apply in_seq; lia|].
  rewrite (P2' x Hxl), Hact. exact Ee.
Qed.

Lemma judged_codes_slice : forall scm tp h1 h2 t,
  slice h1 (tx_hfrom t) (tx_hto t) = slice h2 (tx_hfrom t) (tx_hto t) ->
  judged_codes scm tp h1 t = judged_codes scm tp h2 t.
Proof. intros scm tp h1 h2 t H. unfold judged_codes. rewrite H. reflexivity. Qed.

(* ------------------------------------------------------------------ *)
(* C05e (code 550): final handlers judged on the clocks                *)
(* ------------------------------------------------------------------ *)

Lemma moved_codes_slice : forall bs h1 h2 t,
  slice h1 (tx_hfrom t) (tx_hto t) = slice h2 (tx_hfrom t) (tx_hto t) ->
  moved_codes bs h1 t = moved_codes bs h2 t.
Proof. intros bs h1 h2 t H. unfold moved_codes. rewrite H. reflexivity. Qed.

(* which states move, and how they end *)
Lemma moved_step_facts : forall s mu s' r rec,
  good s -> NoDup (active s) -> parity s -> run_tx s mu = (s', r) -> txs s' = rec :: txs s ->
  tx_mach_after rec = tx_after rec /\
  forall x, In x (moved_states rec) ->
    tx_accepted rec && negb (tx_check rec) = true /\
    (N.odd (nth x (tx_mach_after rec) 0%N) = true -> In x (expected_enters (sc s) rec)) /\
    (N.odd (nth x (tx_mach_after rec) 0%N) = false -> In x (expected_exits rec)).
Proof.
  intros s mu s' r rec G Hnd [P1 P2] H Htx.
  destruct (run_tx_outcome _ _ _ _ G H)
    as (negs & fins & canceled & tgt1 & _ & _ & _ & _ & _ & _ & _ & _ & _ & O).
  destruct O as [(_ & Hx & _)|(rec' & Rb & O)].
  { rewrite Hx in Htx. exfalso. eapply cons_neq_self. exact Htx. }
  assert (rec' = rec).
  { destruct Rb as (Hx & _). rewrite Hx in Htx. inversion Htx. reflexivity. }
  subst rec'.
  pose proof Rb as (_ & _ & _ & Hca & _ & Hck & _ & Hb & Hab & _ & _ & Hma).
  destruct O as [N|A].
  - destruct N as (_ & _ & Hc & _ & Haf & _). split; [congruence|].
    intros x Hx. exfalso. unfold moved_states in Hx. apply filter_In in Hx. destruct Hx as [_ Hx].
    rewrite Hma, Hb, Hc, N.eqb_refl in Hx. discriminate.
  - destruct A as (_ & Hc & Hacc & Ha & Hcl & Hs & _ & _ & _ & Hn & _).
    split; [congruence|]. intros x Hx.
    unfold moved_states in Hx. apply filter_In in Hx. destruct Hx as [Hxl Hx].
    apply in_seq in Hxl. rewrite Hb in Hxl. assert (Hlt : x < length (clock s)) by lia.
    apply negb_true_iff, N.eqb_neq in Hx. rewrite Hma, Hb, Hcl, Hs in Hx.
    rewrite (set_active_clock_value (sc s) (clock s) (active s) (mu_called mu) (tx_target rec) x
               Hnd Hn Hlt) in Hx.
    destruct (set_active_clock_parity (sc s) (clock s) (active s) (mu_called mu) (tx_target rec)
                Hnd Hn P2) as [_ Hpar].
    rewrite Hma, Hcl, Hs, (Hpar x Hlt).
    split; [rewrite Hacc, Hck, Hc; reflexivity|]. split.
    + intros Ht. unfold expected_enters. rewrite Hab, Hca. apply filter_In.
      split; [apply mem_In; exact Ht|].
      rewrite Ht in Hx. destruct (mem x (active s)) eqn:Ep; [|reflexivity]. cbn [negb orb] in *.
      rewrite andb_comm.
      destruct (mem x (mu_called mu) && s_multi (sget (sc s) x)); [reflexivity|].
      exfalso. apply Hx. rewrite !N.add_0_r. reflexivity.
    + intros Ht. unfold expected_exits. rewrite Hab. apply diff_In.
      split; [|apply mem_false; exact Ht].
      rewrite Ht in Hx. destruct (mem x (active s)) eqn:Ep; [apply mem_In; exact Ep|].
      exfalso. apply Hx. cbn. rewrite !N.add_0_r. reflexivity.
Qed.

Lemma moved_codes_step : forall s mu s' r rec,
  good s -> NoDup (active s) -> parity s -> run_tx s mu = (s', r) -> txs s' = rec :: txs s ->
  moved_codes (bindings s) (rev (hlog s')) rec = [].
Proof.
  intros s mu s' r rec G Hnd Hpar H Htx.
  destruct (moved_step_facts _ _ _ _ _ G Hnd Hpar H Htx) as [_ Hm].
  destruct (run_tx_outcome _ _ _ _ G H)
    as (negs & fins & canceled & tgt1 & L & _ & _ & _ & _ & _ & _ & _ & _ & O).
  destruct O as [(_ & Hx & _)|(rec' & Rb & _)].
  { rewrite Hx in Htx. exfalso. eapply cons_neq_self. exact Htx. }
  assert (rec' = rec).
  { destruct Rb as (Hx & _). rewrite Hx in Htx. inversion Htx. reflexivity. }
  subst rec'.
  assert (L2 : hlog s' = (fins ++ negs) ++ hlog s) by (rewrite L, app_assoc; reflexivity).
  pose proof Rb as (_ & _ & _ & _ & _ & _ & _ & _ & _ & Hfrom & Hto & _).
  assert (Hs : slice (rev (hlog s')) (tx_hfrom rec) (tx_hto rec) = rev (fins ++ negs)).
  { rewrite Hfrom, Hto, L2. apply (slice_rev_mid hlentry [] (fins ++ negs) (hlog s)). }
  unfold moved_codes. rewrite Hs.
  replace (forallb _ (combine (seq 0 (length (bindings s))) (bindings s))) with true; [reflexivity|].
  symmetry. apply forallb_forall. intros [i b] Hib.
  apply combine_seq_nth in Hib. destruct Hib as [_ Hn]. rewrite Nat.sub_0_r in Hn.
  apply forallb_forall. intros k Hk.
  assert (Hd : existsb (hkey_eqb k) (nth i (bindings s) []) = true).
  { rewrite Hn. apply existsb_exists. exists k. split; [exact Hk | apply hkey_eqb_refl]. }
  destruct k as [x|x|x|a b0| |x|x|]; try reflexivity.
  - (* HEnd x *)
    destruct (mem x (moved_states rec)) eqn:Em; [|reflexivity].
    destruct (N.odd (nth x (tx_mach_after rec) 0%N)) eqn:Eo; [reflexivity|].
    cbn [negb andb orb]. apply mem_In in Em. destruct (Hm x Em) as (Happ & _ & Hex).
    destruct (finals_once_step_lemma _ _ _ _ _ _ G Hnd H L2 Htx) as [Hc _].
    destruct (Hc Happ i x) as [Y _]. rewrite Y, Hd.
    replace (mem x (expected_exits rec)) with true by (symmetry; apply mem_In; apply Hex; exact Eo).
    reflexivity.
  - (* HState x *)
    destruct (mem x (moved_states rec)) eqn:Em; [|reflexivity].
    destruct (N.odd (nth x (tx_mach_after rec) 0%N)) eqn:Eo; [|reflexivity].
    cbn [negb andb orb]. apply mem_In in Em. destruct (Hm x Em) as (Happ & Hen & _).
    destruct (finals_once_step_lemma _ _ _ _ _ _ G Hnd H L2 Htx) as [Hc _].
    destruct (Hc Happ i x) as [_ Y]. rewrite Y, Hd.
    replace (mem x (expected_enters (sc s) rec)) with true
      by (symmetry; apply mem_In; apply Hen; exact Eo).
    reflexivity.
Qed.

(* ------------------------------------------------------------------ *)
(* the run invariant                                                   *)
(* ------------------------------------------------------------------ *)

Definition rec_ok (s : st) (t : txrec) : Prop :=
  tx_hto t <= length (hlog s) /\
  c05_local_codes (sc s) (bindings s) (rev (hlog s)) t = [] /\
  ord_ok (sc s) (topo s) (rev (hlog s)) t /\
  consulted_codes (sc s) (topo s) (bindings s) (rev (hlog s)) t = [] /\
  (no_veto_in (slice (rev (hlog s)) (tx_hfrom t) (tx_hto t)) ->
   judged_codes (sc s) (topo s) (rev (hlog s)) t = []) /\
  moved_codes (bindings s) (rev (hlog s)) t = [].

Definition step_ok (scm : schema) (hl : list nat) (t n : txrec) : Prop :=
  match (if triggers_auto hl t then auto_candidates scm (tx_target t) else []) with
  | [] => tx_auto n = false
  | c :: cs => tx_auto n = true /\ tx_type n = MAdd /\ tx_called n = c :: cs
  end.

Fixpoint chron_ok (scm : schema) (hl : list nat) (l : list txrec) : Prop :=
  match l with
  | t :: r => match r with n :: _ => step_ok scm hl t n | [] => True end /\ chron_ok scm hl r
  | [] => True
  end.

(* candidates the newest record asks for (list newest first) *)
Definition lastc (scm : schema) (hl : list nat) (l : list txrec) : list nat :=
  match l with
  | [] => []
  | t :: _ => if triggers_auto hl t then auto_candidates scm (tx_target t) else []
  end.

Definition pend (scm : schema) (hl : list nat) (l : list txrec) (q : list mutation) : Prop :=
  match lastc scm hl l with
  | [] => no_auto q
  | c :: cs => exists q', q = auto_mut (c :: cs) :: q' /\ no_auto q'
  end.

Definition Iloop (sch : schema) (tp hl : list nat) (bs : list (list hkey)) (s : st) : Prop :=
  topo s = tp /\ sc s = sch /\ health s = hl /\ bindings s = bs /\
  good s /\ (NoDup (active s) /\ parity s) /\ Forall (rec_ok s) (txs s) /\
  chron_ok sch hl (rev (txs s)) /\ (crashed s = false -> pend sch hl (txs s) (queue s)).

Definition fr (s s' : st) : Prop := keeps s s' /\ actions s' = actions s /\ hlog s' = hlog s.

Lemma Iloop_frame : forall sch tp hl bs s s',
  Iloop sch tp hl bs s -> fr s s' ->
  (crashed s = false -> pend sch hl (txs s) (queue s) -> pend sch hl (txs s) (queue s')) ->
  Iloop sch tp hl bs s'.
Proof.
  intros sch tp hl bs s s' (I0 & I1 & I2 & I3 & G & Hnd & Hr & Hc & Hp) (K & A & L) Hq.
  unfold Iloop. rewrite (keeps_topo _ _ K), (keeps_sc _ _ K), (keeps_health _ _ K),
    (keeps_bindings _ _ K), (keeps_active _ _ K), (keeps_txs _ _ K), (keeps_crashed _ _ K).
  split; [exact I0|]. split; [exact I1|]. split; [exact I2|]. split; [exact I3|].
  split; [eapply keeps_good; [exact K | exact G | rewrite A; apply G]|].
  split.
  { split; [apply Hnd|]. destruct Hnd as [_ [P1 P2]]. unfold parity.
    rewrite (keeps_clock _ _ K), (keeps_sc _ _ K), (keeps_active _ _ K). split; assumption. }
  split; [|split; [exact Hc | intros Hx; apply Hq; [exact Hx | apply Hp; exact Hx]]].
  eapply Forall_impl; [|exact Hr]. intros t [Y1 Y2]. unfold rec_ok.
  rewrite L, (keeps_sc _ _ K), (keeps_bindings _ _ K), (keeps_topo _ _ K). tauto.
Qed.

Lemma pend_empty_queue : forall sch hl l q',
  pend sch hl l [] -> no_auto q' -> pend sch hl l q'.
Proof.
  intros sch hl l q' H Hq. unfold pend in *. destruct (lastc sch hl l).
  - exact Hq.
  - destruct H as (q & Hx & _). discriminate.
Qed.

Lemma c05_local_codes_slice : forall scm bs h1 h2 t,
  slice h1 (tx_hfrom t) (tx_hto t) = slice h2 (tx_hfrom t) (tx_hto t) ->
  c05_local_codes scm bs h1 t = c05_local_codes scm bs h2 t.
Proof. intros scm bs h1 h2 t H. unfold c05_local_codes. rewrite H. reflexivity. Qed.

Lemma rec_ok_ext : forall s s' x t,
  rec_ok s t -> hlog s' = x ++ hlog s -> sc s' = sc s -> bindings s' = bindings s ->
  topo s' = topo s -> rec_ok s' t.
Proof.
  intros s s' x t (Y1 & Y2 & Y3 & Y4 & Y5 & Y6) L Hs Hb Ht. unfold rec_ok. rewrite L, Hs, Hb, Ht.
  split; [|split; [|split; [|split; [|split]]]].
  6:{ rewrite <- Y6. apply moved_codes_slice. apply slice_rev_ext. exact Y1. }
  5:{ rewrite (slice_rev_ext _ x (hlog s) _ _ Y1). intros Hnv. rewrite <- (Y5 Hnv).
      apply judged_codes_slice. apply slice_rev_ext. exact Y1. }
  - rewrite app_length. lia.
  - rewrite <- Y2. apply c05_local_codes_slice. apply slice_rev_ext. exact Y1.
  - eapply ord_ok_slice; [|exact Y3]. symmetry. apply slice_rev_ext. exact Y1.
  - rewrite <- Y4. apply consulted_codes_slice. apply slice_rev_ext. exact Y1.
Qed.

Lemma chron_ok_snoc : forall scm hl l t n,
  chron_ok scm hl (l ++ [t]) -> step_ok scm hl t n -> chron_ok scm hl ((l ++ [t]) ++ [n]).
Proof.
  intros scm hl l t n. induction l as [|a r IH]; intros H Hs.
  - cbn. tauto.
  - cbn [app] in *. destruct (r ++ [t]) as [|b q] eqn:E.
    + destruct r; discriminate.
    + cbn [app]. cbn [chron_ok] in *. destruct H as [H1 H2]. split; [exact H1|].
      apply IH; assumption.
Qed.

Lemma lastc_lt : forall scm hl l x, In x (lastc scm hl l) -> x < length scm.
Proof.
  intros scm hl l x H. unfold lastc in H. destruct l as [|t r]; [contradiction|].
  destruct (triggers_auto hl t); [|contradiction].
  unfold auto_candidates, all_states in H. apply filter_In in H. destruct H as [H _].
  apply in_seq in H. lia.
Qed.

Lemma nth_map_zero : forall (A : Type) (l : list A) x, nth x (map (fun _ => 0%N) l) 0%N = 0%N.
Proof. intros A l. induction l as [|a r IH]; intros [|x]; cbn; try reflexivity. apply IH. Qed.

Definition popped (s : st) (mu : mutation) (rest : list mutation) : st :=
  let s0 := set_queue s rest in
  if (0 <? mu_qtick mu)%N then set_ticks s0 (qtick s0 + 1)%N (qpending s0 - 1)%N else s0.

Lemma popped_fr : forall s mu rest, fr s (popped s mu rest) /\ queue (popped s mu rest) = rest.
Proof.
  intros s mu rest. unfold popped. destruct (0 <? mu_qtick mu)%N; cbn.
  - split; [|reflexivity]. unfold fr, keeps. repeat split.
  - split; [|reflexivity]. unfold fr, keeps. repeat split.
Qed.

Lemma drain_step_inv : forall sch tp hl bs s mu rest s2 r,
  Iloop sch tp hl bs s -> crashed s = false -> queue s = mu :: rest ->
  run_tx (popped s mu rest) mu = (s2, r) -> Iloop sch tp hl bs s2.
Proof.
  intros sch tp hl bs s mu rest s2 r (I0 & I1 & I2 & I3 & G & [Hnd Hpa] & Hr & Hc & Hp) Hcr Hq H.
  destruct (popped_fr s mu rest) as [(K & A & L) Hq1].
  set (s1 := popped s mu rest) in *.
  assert (G1 : good s1) by (eapply keeps_good; [exact K | exact G | rewrite A; apply G]).
  assert (Hnd1 : NoDup (active s1)) by (rewrite (keeps_active _ _ K); exact Hnd).
  assert (Hpa1 : parity s1).
  { destruct Hpa as [P1 P2]. unfold parity.
    rewrite (keeps_clock _ _ K), (keeps_sc _ _ K), (keeps_active _ _ K). split; assumption. }
  specialize (Hp Hcr). rewrite Hq in Hp.
  (* what the queue head is *)
  assert (Hhead : no_auto rest /\
    match lastc sch hl (txs s) with
    | [] => mu_auto mu = false
    | c :: cs => mu = auto_mut (c :: cs)
    end).
  { unfold pend in Hp. destruct (lastc sch hl (txs s)) as [|c cs].
    - inversion Hp as [|? ? Hm' Hr']. split; assumption.
    - destruct Hp as (q & Hx & Hn). injection Hx as Hmu' Hrest'.
      split; [rewrite Hrest'; exact Hn | exact Hmu']. }
  destruct Hhead as [Hrest Hmu].
  pose proof (run_tx_NoDup_active _ _ _ _ G1 Hnd1 H) as Hnd2.
  pose proof (run_tx_parity _ _ _ _ G1 Hnd1 Hpa1 H) as Hpa2.
  destruct (run_tx_outcome _ _ _ _ G1 H)
    as (negs & fins & canceled & tgt1 & L2 & C2 & G2 & _ & _ & _ & _ & _ & _ & O).
  destruct C2 as (C2a & C2b & C2c & _ & C2e & _).
  assert (L2' : hlog s2 = (fins ++ negs) ++ hlog s).
  { rewrite L2, L, app_assoc. reflexivity. }
  assert (Hs2 : sc s2 = sc s) by (rewrite C2a; apply (keeps_sc _ _ K)).
  assert (Hb2 : bindings s2 = bindings s) by (rewrite C2e; apply (keeps_bindings _ _ K)).
  assert (Hh2 : health s2 = health s) by (rewrite C2c; apply (keeps_health _ _ K)).
  assert (Ht2 : topo s2 = topo s) by (rewrite C2b; apply (keeps_topo _ _ K)).
  assert (Hold : Forall (rec_ok s2) (txs s)).
  { eapply Forall_impl; [|exact Hr]. intros t Ht. eapply rec_ok_ext; eassumption. }
  unfold Iloop. rewrite Ht2, Hs2, Hh2, Hb2.
  split; [exact I0|]. split; [exact I1|]. split; [exact I2|]. split; [exact I3|]. split; [exact G2|].
  split; [split; [exact Hnd2 | exact Hpa2]|].
  destruct O as [(Hcr2 & Htx2 & _)|(rec & Rb & O)].
  - (* crash *)
    rewrite Htx2, (keeps_txs _ _ K).
    split; [exact Hold|]. split; [exact Hc|]. intros Hx. congruence.
  - pose proof Rb as (Htx2 & Hcr2 & Hty & Hca & Hau & _).
    rewrite (keeps_txs _ _ K) in Htx2.
    assert (Htx2' : txs s2 = rec :: txs s1) by (rewrite (keeps_txs _ _ K); exact Htx2).
    rewrite Htx2. split; [|split].
    + constructor; [|exact Hold].
      destruct (c05_local_step _ _ _ _ _ G1 Hnd1 H Htx2') as [Y1 Y2].
      pose proof (ord_step _ _ _ _ _ G1 H Htx2') as Y3.
      assert (Hmt : mu_auto mu = true -> mu_type mu = MAdd).
      { intros Hx. destruct (lastc sch hl (txs s)); [congruence | rewrite Hmu; reflexivity]. }
      pose proof (consulted_step_lemma _ _ _ _ _ G1 Hnd1 Hmt H Htx2') as Y4.
      assert (Hmj : mu_auto mu = true -> mu_type mu = MAdd /\ mu_check mu = false /\
                      forall x, In x (mu_called mu) -> x < length (sc s1)).
      { intros Hx. rewrite (keeps_sc _ _ K), I1.
        destruct (lastc sch hl (txs s)) as [|c cs] eqn:El; [congruence|].
        rewrite Hmu. split; [reflexivity|]. split; [reflexivity|]. cbn [mu_called auto_mut].
        intros x Hin. rewrite <- El in Hin. apply lastc_lt in Hin. exact Hin. }
      pose proof (judged_codes_step _ _ _ _ _ G1 Hnd1 Hpa1 Hmj H Htx2') as Y5.
      pose proof (moved_codes_step _ _ _ _ _ G1 Hnd1 Hpa1 H Htx2') as Y6.
      rewrite (keeps_bindings _ _ K) in Y6.
      unfold rec_ok. rewrite Hs2, Hb2, Ht2.
      rewrite (keeps_sc _ _ K), (keeps_bindings _ _ K) in Y1.
      rewrite (keeps_sc _ _ K), (keeps_topo _ _ K) in Y3.
      rewrite (keeps_sc _ _ K), (keeps_topo _ _ K), (keeps_bindings _ _ K) in Y4.
      rewrite (keeps_sc _ _ K), (keeps_topo _ _ K) in Y5. tauto.
    + cbn [rev]. destruct (txs s) as [|t older] eqn:Et.
      * cbn. tauto.
      * cbn [rev] in *. apply chron_ok_snoc; [exact Hc|].
        unfold step_ok. cbn [lastc] in Hmu.
        destruct (if triggers_auto hl t then auto_candidates sch (tx_target t) else []) as [|c cs].
        -- rewrite Hau. exact Hmu.
        -- rewrite Hau, Hty, Hca, Hmu. cbn. tauto.
    + intros _. unfold pend. cbn [lastc].
      assert (Hq1' : no_auto (queue s1)) by (rewrite Hq1; exact Hrest).
      destruct (auto_follows_step_lemma _ _ _ _ _ G1 H Htx2') as [Y1 Y2].
      rewrite (keeps_health _ _ K), I2 in Y1, Y2. rewrite (keeps_sc _ _ K), I1 in Y1, Y2.
      destruct (triggers_auto hl rec) eqn:Et.
      * destruct (Y1 eq_refl) as [Ha Yc]. rewrite Ha in Yc.
        destruct (auto_candidates sch (tx_target rec)) as [|c cs] eqn:Ec.
        -- apply Y2; [right; reflexivity | exact Hq1'].
        -- destruct (Yc c cs eq_refl) as (q & Hx & Hn). exists q. split; [exact Hx | tauto].
      * apply Y2; [left; reflexivity | exact Hq1'].
Qed.

Lemma drain_unfold : forall f s first,
  drain (S f) s first =
  if crashed s || hung s then (s, first, true)
  else match queue s with
       | [] => (add_ev s EvQueueEnd, first, true)
       | mu :: rest =>
         let '(s2, r) := run_tx (popped s mu rest) mu in
         drain f s2 (match first with None => Some r | x => x end)
       end.
Proof. intros f s first. reflexivity. Qed.

Lemma drain_inv : forall sch tp hl bs fuel s first s' fr' ok,
  Iloop sch tp hl bs s -> drain fuel s first = (s', fr', ok) ->
  Iloop sch tp hl bs s' /\ (ok = true -> crashed s' = true \/ queue s' = []).
Proof.
  intros sch tp hl bs. induction fuel as [|f IH]; intros s first s' fr' ok I H.
  - cbn in H. inversion H; subst. split; [exact I | discriminate].
  - rewrite drain_unfold in H.
    assert (Hh : hung s = false) by apply I.
    rewrite Hh, orb_false_r in H. destruct (crashed s) eqn:Ecr.
    + inversion H; subst. split; [exact I | intros _; left; exact Ecr].
    + destruct (queue s) as [|mu rest] eqn:Eq.
      * inversion H; subst. split; [|intros _; right; cbn; exact Eq].
        eapply Iloop_frame; [exact I | unfold fr, keeps; repeat split|].
        intros _ Hp. cbn. exact Hp.
      * destruct (run_tx (popped s mu rest) mu) as [s2 r] eqn:Er.
        eapply IH; [|exact H]. eapply drain_step_inv; eassumption.
Qed.

Lemma process_queue_inv : forall sch tp hl bs fuel s s' res ok,
  Iloop sch tp hl bs s -> process_queue fuel s = (s', res, ok) ->
  Iloop sch tp hl bs s' /\ (ok = true -> crashed s' = true \/ queue s' = []).
Proof.
  intros sch tp hl bs fuel s s' res ok I H. unfold process_queue in H.
  destruct (queue s) eqn:Eq.
  - inversion H; subst. split; [exact I | intros _; right; exact Eq].
  - destruct (drain fuel s None) as [[s1 first] ok1] eqn:Ed. inversion H; subst.
    eapply drain_inv; eassumption.
Qed.

Lemma queue_mutation_cases : forall s mt sts args s1 tk,
  queue_mutation s mt sts args = (s1, tk) ->
  (s1 = s /\ tk = 0%N) \/ ((tk =? 0)%N = false /\ qonly s s1).
Proof.
  intros s mt sts args s1 tk H. pose proof (queue_mutation_qonly _ _ _ _ _ _ H) as Q.
  unfold queue_mutation in H.
  destruct (negb _ && negb args && is_dup (queue s) mt (uniq sts)).
  - inversion H; subst. left. split; reflexivity.
  - inversion H; subst. right. split; [|exact Q]. apply N.eqb_neq. lia.
Qed.

Lemma qonly_fr : forall s s', qonly s s' -> fr s s'.
Proof. intros s s' (K & A & L & _). unfold fr. tauto. Qed.

Lemma Iloop_qonly_idle : forall sch tp hl bs s s',
  Iloop sch tp hl bs s -> queue s = [] -> qonly s s' -> Iloop sch tp hl bs s'.
Proof.
  intros sch tp hl bs s s' I Hq Q. eapply Iloop_frame; [exact I | apply qonly_fr; exact Q|].
  intros _ Hp. rewrite Hq in Hp. apply pend_empty_queue; [exact Hp|].
  destruct Q as (_ & _ & _ & Qn). apply Qn. rewrite Hq. constructor.
Qed.

Lemma top_mutation_inv : forall sch tp hl bs fuel s mt sts args s' res ok,
  Iloop sch tp hl bs s -> queue s = [] -> top_mutation fuel s mt sts args = (s', res, ok) ->
  Iloop sch tp hl bs s' /\ (ok = true -> crashed s' = true \/ queue s' = []).
Proof.
  intros sch tp hl bs fuel s mt sts args s' res ok I Hq H. unfold top_mutation in H.
  destruct (queue_mutation s mt sts args) as [s1 tk] eqn:E.
  destruct (queue_mutation_cases _ _ _ _ _ _ E) as [[-> ->]|[Htk Q]].
  - cbn in H. inversion H; subst. split; [exact I | intros _; right; exact Hq].
  - rewrite Htk in H. destruct (process_queue fuel s1) as [[s2 r] ok2] eqn:Ep.
    inversion H; subst. eapply process_queue_inv; [|exact Ep].
    eapply Iloop_qonly_idle; eassumption.
Qed.

Lemma top_add_inv : forall sch tp hl bs fuel s sts args s' res ok,
  Iloop sch tp hl bs s -> queue s = [] -> top_add fuel s sts args = (s', res, ok) ->
  Iloop sch tp hl bs s' /\ (ok = true -> crashed s' = true \/ queue s' = []).
Proof.
  intros sch tp hl bs fuel s sts args s' res ok I Hq H. unfold top_add in H.
  destruct (limit_hit s && _).
  - inversion H; subst. split; [exact I | intros _; right; exact Hq].
  - eapply top_mutation_inv; eassumption.
Qed.

Lemma top_remove_inv : forall sch tp hl bs fuel s sts args s' res ok,
  Iloop sch tp hl bs s -> queue s = [] -> top_remove fuel s sts args = (s', res, ok) ->
  Iloop sch tp hl bs s' /\ (ok = true -> crashed s' = true \/ queue s' = []).
Proof.
  intros sch tp hl bs fuel s sts args s' res ok I Hq H. unfold top_remove in H.
  destruct (limit_hit s && _).
  - inversion H; subst. split; [exact I | intros _; right; exact Hq].
  - eapply top_mutation_inv; eassumption.
Qed.

Lemma top_api_inv : forall sch tp hl bs fuel s c s' res ok,
  Iloop sch tp hl bs s -> queue s = [] -> top_api fuel s c = (s', res, ok) ->
  Iloop sch tp hl bs s' /\ (ok = true -> crashed s' = true \/ queue s' = []).
Proof.
  intros sch tp hl bs fuel s c s' res ok I Hq H. unfold top_api in H. destruct (ac_kind c).
  - eapply top_add_inv; eassumption.
  - eapply top_remove_inv; eassumption.
  - destruct (limit_hit s).
    + inversion H; subst. split; [exact I | intros _; right; exact Hq].
    + eapply top_mutation_inv; eassumption.
  - destruct (mach_is s (ac_states c)).
    + eapply top_remove_inv; eassumption.
    + eapply top_add_inv; eassumption.
  - destruct (limit_hit s).
    + inversion H; subst. split; [exact I | intros _; right; exact Hq].
    + eapply top_add_inv; [| |exact H].
      * eapply Iloop_qonly_idle; [exact I | exact Hq | apply set_err_qonly; reflexivity].
      * exact Hq.
  - eapply process_queue_inv; [|exact H].
    eapply Iloop_qonly_idle; [exact I | exact Hq | apply prepend_mut_qonly; reflexivity].
  - eapply process_queue_inv; [|exact H].
    eapply Iloop_qonly_idle; [exact I | exact Hq | apply prepend_mut_qonly; reflexivity].
Qed.

Lemma run_calls_top_inv : forall sch tp hl bs fuel cs s acc s' obs ok,
  Iloop sch tp hl bs s -> (crashed s = true \/ queue s = []) ->
  run_calls_top fuel s cs acc = (s', obs, ok) ->
  Iloop sch tp hl bs s' /\ (ok = true -> crashed s' = true \/ queue s' = []).
Proof.
  intros sch tp hl bs fuel. induction cs as [|c r IH]; intros s acc s' obs ok I Hidle H.
  - cbn in H. inversion H; subst. split; [exact I | intros _; exact Hidle].
  - cbn [run_calls_top] in H.
    assert (Hh : hung s = false) by apply I.
    rewrite Hh, orb_false_r in H. destruct (crashed s) eqn:Ecr.
    + inversion H; subst. split; [exact I | intros _; left; exact Ecr].
    + destruct Hidle as [Hx|Hq]; [discriminate|].
      destruct (top_api fuel s c) as [[s1 res] ok1] eqn:Et.
      destruct (top_api_inv _ _ _ _ _ _ _ _ _ _ I Hq Et) as [I1 Hok1].
      destruct (crashed s1 || hung s1).
      * inversion H; subst. split; assumption.
      * destruct ok1.
        -- eapply IH; [exact I1 | apply Hok1; reflexivity | exact H].
        -- inversion H; subst. split; [exact I1 | discriminate].
Qed.

Lemma init_Iloop : forall sch tp hl ex bs ql acts,
  fault_free acts -> Iloop sch tp hl bs (init_st sch tp hl ex bs ql acts).
Proof.
  intros sch tp hl ex bs ql acts F. unfold Iloop. cbn.
  split; [reflexivity|]. split; [reflexivity|]. split; [reflexivity|]. split; [reflexivity|].
  split; [unfold good; cbn; tauto|]. split.
  { split; [constructor|]. unfold parity. cbn. split; [apply map_length|].
    intros x _. rewrite nth_map_zero. reflexivity. }
  split; [constructor|].
  split; [exact I|]. intros _. unfold pend. cbn. constructor.
Qed.

Lemma run_final_inv : forall sch tp hl ex bs ql acts cs fuel s' obs ok,
  fault_free acts ->
  run_calls_top fuel (init_st sch tp hl ex bs ql acts) cs [] = (s', obs, ok) ->
  Iloop sch tp hl bs s' /\ (ok = true -> crashed s' = true \/ queue s' = []).
Proof.
  intros sch tp hl ex bs ql acts cs fuel s' obs ok F H.
  eapply run_calls_top_inv; [apply init_Iloop; exact F | right; reflexivity | exact H].
Qed.

(* ------------------------------------------------------------------ *)
(* trace-level theorems                                                *)
(* ------------------------------------------------------------------ *)

Lemma every_refl : forall l, every l l = true.
Proof.
  intros l. unfold every. apply forallb_forall. intros x Hx. apply mem_In. exact Hx.
Qed.

Lemma perm_eqb_refl : forall l, perm_eqb l l = true.
Proof. intros l. unfold perm_eqb. rewrite Nat.eqb_refl, every_refl. reflexivity. Qed.

Lemma lastc_app : forall scm hl a t, a <> [] -> lastc scm hl (a ++ [t]) = lastc scm hl a.
Proof. intros scm hl a t H. destruct a; [contradiction | reflexivity]. Qed.

Lemma follow_nil : forall scm hl cr l,
  chron_ok scm hl l -> (cr = true \/ lastc scm hl (rev l) = []) ->
  follow_codes scm hl cr l = [].
Proof.
  intros scm hl cr l. induction l as [|t r IH]; intros Hc Hl; [reflexivity|].
  cbn [follow_codes]. destruct r as [|n q].
  - cbn [rev app lastc] in Hl. cbn [follow_codes]. rewrite app_nil_r.
    destruct (if triggers_auto hl t then auto_candidates scm (tx_target t) else []) as [|c cs].
    + reflexivity.
    + destruct Hl as [->|Hl]; [reflexivity | discriminate].
  - cbn [chron_ok] in Hc. destruct Hc as [Hs Hc].
    rewrite (IH Hc).
    + rewrite app_nil_r. unfold step_ok in Hs.
      destruct (if triggers_auto hl t then auto_candidates scm (tx_target t) else []) as [|c cs].
      * rewrite Hs. reflexivity.
      * destruct Hs as (-> & -> & ->). rewrite perm_eqb_refl. reflexivity.
    + destruct Hl as [Hl|Hl]; [left; exact Hl|]. right.
      change (rev (t :: n :: q)) with (rev (n :: q) ++ [t]) in Hl.
      rewrite lastc_app in Hl; [exact Hl|].
      cbn [rev]. intros Hx. apply app_eq_nil in Hx. destruct Hx as [_ Hx]. discriminate.
Qed.

Lemma run_unfold : forall fuel s0 cs,
  run fuel s0 cs =
  let '(s1, obs, ok) := run_calls_top fuel s0 cs [] in
  {| tr_calls := obs; tr_txs := rev (txs s1); tr_evs := rev (evs s1);
     tr_hlog := rev (hlog s1); tr_crashed := crashed s1; tr_hung := hung s1;
     tr_fuel_ok := ok |}.
Proof. reflexivity. Qed.

(* (i) C07, codes 71 and 72 never occur on a fault-free run *)
Lemma follow_codes_ok_lemma : forall sch tp hl ex bs ql acts cs fuel,
  fault_free acts ->
  tr_fuel_ok (run fuel (init_st sch tp hl ex bs ql acts) cs) = true ->
  follow_codes sch hl (tr_crashed (run fuel (init_st sch tp hl ex bs ql acts) cs))
                      (tr_txs (run fuel (init_st sch tp hl ex bs ql acts) cs)) = [].
Proof.
  intros sch tp hl ex bs ql acts cs fuel F. rewrite run_unfold.
  destruct (run_calls_top fuel (init_st sch tp hl ex bs ql acts) cs []) as [[s1 obs] ok] eqn:E.
  cbn. intros Hok. subst ok.
  destruct (run_final_inv _ _ _ _ _ _ _ _ _ _ _ _ F E) as [I Hidle].
  destruct I as (_ & _ & _ & _ & _ & _ & _ & Hc & Hp).
  apply follow_nil; [exact Hc|]. rewrite rev_involutive.
  destruct (crashed s1) eqn:Ecr; [left; reflexivity|]. right.
  destruct (Hidle eq_refl) as [Hx|Hq]; [discriminate|].
  specialize (Hp eq_refl). unfold pend in Hp. rewrite Hq in Hp.
  destruct (lastc sch hl (txs s1)); [reflexivity|].
  destruct Hp as (q & Hx & _). discriminate.
Qed.

(* C05, codes 51 .. 56 never occur on a fault-free run *)
Lemma c05_local_ok_lemma : forall sch tp hl ex bs ql acts cs fuel,
  fault_free acts ->
  forall t, In t (tr_txs (run fuel (init_st sch tp hl ex bs ql acts) cs)) ->
    c05_local_codes sch bs (tr_hlog (run fuel (init_st sch tp hl ex bs ql acts) cs)) t = [].
Proof.
  intros sch tp hl ex bs ql acts cs fuel F. rewrite run_unfold.
  destruct (run_calls_top fuel (init_st sch tp hl ex bs ql acts) cs []) as [[s1 obs] ok] eqn:E.
  cbn. intros t Ht. apply in_rev in Ht.
  destruct (run_final_inv _ _ _ _ _ _ _ _ _ _ _ _ F E) as [I _].
  destruct I as (_ & I1 & _ & I3 & _ & _ & Hr & _).
  rewrite Forall_forall in Hr. destruct (Hr t Ht) as (_ & Y & _). rewrite I1, I3 in Y. exact Y.
Qed.

Lemma c05_order_codes_range : forall sch tp hlog t c,
  In c (c05_order_codes sch tp hlog t) -> c = 57%N \/ c = 580%N \/ c = 581%N.
Proof.
  intros sch tp hlog t c H. unfold c05_order_codes in H. cbv zeta in H.
  apply in_flat_map in H. destruct H as ([order full] & _ & H).
  apply in_app_or in H. destruct H as [H|H].
  - destruct (require_acyclic sch); [|contradiction].
    destruct (order_violations _ order); [contradiction|].
    destruct H as [H|[]]. left. symmetry. exact H.
  - apply in_map_iff in H. destruct H as (p & <- & _).
    destruct (adjacent_in full (fst p) (snd p)); tauto.
Qed.

Lemma c05_codes_only_order_lemma : forall sch tp tp' hl ex bs ql acts cs fuel,
  fault_free acts ->
  forall c, In c (c05_codes sch tp' bs (run fuel (init_st sch tp hl ex bs ql acts) cs)) ->
    c = 57%N \/ c = 580%N \/ c = 581%N.
Proof.
  intros sch tp tp' hl ex bs ql acts cs fuel F c H. unfold c05_codes in H.
  apply in_flat_map in H. destruct H as (t & Ht & H).
  rewrite tx_handler_codes_split in H.
  rewrite (c05_local_ok_lemma _ _ _ _ _ _ _ _ _ F t Ht) in H. cbn [app] in H.
  eapply c05_order_codes_range. exact H.
Qed.

(* (e) lifted: code 57 never occurs either when the topology is the one
   computed from an acyclic Require graph *)
Lemma ord_ok_run_lemma : forall sch tp hl ex bs ql acts cs fuel,
  fault_free acts ->
  forall t, In t (tr_txs (run fuel (init_st sch tp hl ex bs ql acts) cs)) ->
    ord_ok sch tp (tr_hlog (run fuel (init_st sch tp hl ex bs ql acts) cs)) t.
Proof.
  intros sch tp hl ex bs ql acts cs fuel F. rewrite run_unfold.
  destruct (run_calls_top fuel (init_st sch tp hl ex bs ql acts) cs []) as [[s1 obs] ok] eqn:E.
  cbn. intros t Ht. apply in_rev in Ht.
  destruct (run_final_inv _ _ _ _ _ _ _ _ _ _ _ _ F E) as [I _].
  destruct I as (I0 & I1 & _ & _ & _ & _ & Hr & _).
  rewrite Forall_forall in Hr. destruct (Hr t Ht) as (_ & _ & Y & _). rewrite I0, I1 in Y. exact Y.
Qed.

Lemma phase_codes_no57 : forall sch order ord full c,
  require_acyclic sch = true -> (forall x, x < length sch -> In x order) ->
  sorted_sub sch (topo_sort sch order) ord ->
  In c ((if require_acyclic sch
         then match order_violations (req_after sch) ord with [] => [] | _ => [57%N] end
         else [])
        ++ map (fun p : nat * nat => if adjacent_in full (fst p) (snd p) then 580%N else 581%N)
               (order_violations (aft_after sch) ord)) ->
  c = 580%N \/ c = 581%N.
Proof.
  intros sch order ord full c Hac Hcov (L & p & Hs) H.
  assert (Hv : order_violations (req_after sch) ord = []).
  { eapply order_violations_sublist_lemma; [|exact Hs].
    apply order_respects_require_filter_lemma; assumption. }
  rewrite Hv in H. destruct (require_acyclic sch); cbn [app] in H.
  - apply in_map_iff in H. destruct H as (q & <- & _).
    destruct (adjacent_in full (fst q) (snd q)); tauto.
  - apply in_map_iff in H. destruct H as (q & <- & _).
    destruct (adjacent_in full (fst q) (snd q)); tauto.
Qed.

Lemma c05_order_codes_no57 : forall sch order tp' hlog t c,
  require_acyclic sch = true -> (forall x, x < length sch -> In x order) ->
  ord_ok sch (topo_sort sch order) hlog t ->
  In c (c05_order_codes sch tp' hlog t) -> c = 580%N \/ c = 581%N.
Proof.
  intros sch order tp' hlog t c Hac Hcov (O0 & O1 & O3 & O4) H.
  unfold c05_order_codes in H. cbv zeta in H. cbn [flat_map] in H.
  rewrite !phase_states_pst in H.
  change (fun k : hkey => match k with HExit _ => true | _ => false end) with is_exit in H.
  change (fun k : hkey => match k with HEnter _ => true | _ => false end) with is_enter in H.
  change (fun k : hkey => match k with HEnd _ => true | _ => false end) with is_end in H.
  change (fun k : hkey => match k with HState _ => true | _ => false end) with is_state in H.
  rewrite app_nil_r in H.
  apply in_app_or in H. destruct H as [H|H];
    [eapply (phase_codes_no57 sch order); [exact Hac | exact Hcov | exact O0 | exact H]|].
  apply in_app_or in H. destruct H as [H|H];
    [eapply (phase_codes_no57 sch order); [exact Hac | exact Hcov | exact O1 | exact H]|].
  apply in_app_or in H. destruct H as [H|H];
    [eapply (phase_codes_no57 sch order); [exact Hac | exact Hcov | exact O3 | exact H]|].
  eapply (phase_codes_no57 sch order); [exact Hac | exact Hcov | exact O4 | exact H].
Qed.

Lemma c05_codes_only_after_lemma : forall sch order tp' hl ex bs ql acts cs fuel,
  fault_free acts -> require_acyclic sch = true -> (forall x, x < length sch -> In x order) ->
  forall c,
    In c (c05_codes sch tp' bs
            (run fuel (init_st sch (topo_sort sch order) hl ex bs ql acts) cs)) ->
    c = 580%N \/ c = 581%N.
Proof.
  intros sch order tp' hl ex bs ql acts cs fuel F Hac Hcov c H. unfold c05_codes in H.
  apply in_flat_map in H. destruct H as (t & Ht & H).
  rewrite tx_handler_codes_split in H.
  rewrite (c05_local_ok_lemma _ _ _ _ _ _ _ _ _ F t Ht) in H. cbn [app] in H.
  eapply c05_order_codes_no57; [exact Hac | exact Hcov | | exact H].
  apply ord_ok_run_lemma; assumption.
Qed.

(* ================================================================== *)
(* witnesses and non-vacuity                                           *)
(* ================================================================== *)

Definition ex_mk (au : bool) (req rem : list nat) : sdef :=
  {| s_auto := au; s_multi := false; s_require := req; s_add := []; s_remove := rem;
     s_after := [] |}.
Definition ex_act (r : bool) : haction := {| ha_ret := r; ha_calls := []; ha_fault := FNone |}.
Definition ex_add (l : list nat) : api_call :=
  {| ac_kind := KAdd; ac_states := l; ac_args := false |}.
Definition ex_mut (l : list nat) (au : bool) : mutation :=
  {| mu_type := MAdd; mu_called := l; mu_auto := au; mu_check := false; mu_args := false;
     mu_qtick := 0 |}.

(* 0: A;  1: B (Remove A);  2: C (Auto);  3: Exception.  A and C are active. *)
Definition ex_sch : schema :=
  [ex_mk false [] []; ex_mk false [] [0]; ex_mk true [] []; ex_mk false [] []].
Definition ex_bs : list (list hkey) :=
  [[HExit 0; HEnter 1; HTrans 0 1; HAnyEnter; HEnd 0; HState 1; HAnyState]; [HEnd 0]].
Definition ex_st (acts : list haction) : st :=
  fst (fst (run_calls_top 100
    (init_st ex_sch [] [] 3 ex_bs 1000 (repeat (ex_act true) 4 ++ acts)) [ex_add [0]] [])).

Lemma ex_st_good : forall acts, fault_free acts -> good (ex_st acts).
Proof.
  intros acts F. unfold ex_st.
  destruct (run_calls_top 100 (init_st ex_sch [] [] 3 ex_bs 1000 (repeat (ex_act true) 4 ++ acts))
              [ex_add [0]] []) as [[s1 obs] ok] eqn:E.
  assert (F' : fault_free (repeat (ex_act true) 4 ++ acts)) by exact F.
  destruct (run_final_inv _ _ _ _ _ _ _ _ _ _ _ _ F' E) as [I _]. apply I.
Qed.

(* Add B from {C, A}: Exit A, Enter B, A-B, AnyEnter, End A (two bindings), State B, AnyState *)
Example phase_order_step_nonvacuous :
  good (ex_st []) /\ NoDup (active (ex_st [])) /\
  exists s' r new, run_tx (ex_st []) (ex_mut [1] false) = (s', r) /\
    hlog s' = new ++ hlog (ex_st []) /\
    map (fun h => phase_rank (hl_key h)) (rev new) = [0; 1; 2; 2; 3; 3; 4; 5] /\
    map hl_active (rev new) = [[2; 0]; [2; 0]; [2; 0]; [2; 0]; [1; 2]; [1; 2]; [1; 2]; [1; 2]] /\
    active (ex_st []) = [2; 0] /\ active s' = [1; 2] /\
    count_key (rev new) (HEnd 0) 0 = 1 /\ count_key (rev new) (HEnd 0) 1 = 1 /\
    count_key (rev new) (HState 1) 0 = 1 /\ count_key (rev new) (HState 1) 1 = 0.
Proof.
  split; [apply ex_st_good; reflexivity|]. split.
  { vm_compute. constructor; [intros [H|[]]; discriminate|]. constructor; [intros []|constructor]. }
  eexists. eexists.
  exists (firstn 8 (hlog (fst (run_tx (ex_st []) (ex_mut [1] false))))).
  split; [vm_compute; reflexivity|]. vm_compute. repeat split; reflexivity.
Qed.

(* the Enter handler of B vetoes: last entry, nothing applied *)
Example veto_stops_step_nonvacuous :
  let s := ex_st [ex_act true; ex_act false] in
  good s /\
  exists s' r h rest rec, run_tx s (ex_mut [1] false) = (s', r) /\
    hlog s' = (h :: rest) ++ hlog s /\ length rest = 1 /\
    hl_key h = HEnter 1 /\ hl_ret h = false /\
    txs s' = rec :: txs s /\ tx_accepted rec = false /\ active s' = active s.
Proof.
  cbv zeta. split; [apply ex_st_good; reflexivity|].
  eexists. eexists.
  exists (hd (Build_hlentry HAnyState 0 [] [] [] true)
            (hlog (fst (run_tx (ex_st [ex_act true; ex_act false]) (ex_mut [1] false))))).
  exists (firstn 1 (tl (hlog (fst (run_tx (ex_st [ex_act true; ex_act false]) (ex_mut [1] false)))))).
  eexists.
  split; [vm_compute; reflexivity|]. vm_compute. repeat split; reflexivity.
Qed.

(* 0: A;  1: B (Auto);  2: C (Auto);  3: Exception *)
Definition ex_sch2 : schema :=
  [ex_mk false [] []; ex_mk true [] []; ex_mk true [] []; ex_mk false [] []].

(* Add A triggers the auto mutation calling B and C *)
Example auto_follows_step_nonvacuous :
  let s := init_st ex_sch2 [] [] 3 [] 1000 [] in
  good s /\ no_auto (queue s) /\
  exists s' r rec, run_tx s (ex_mut [0] false) = (s', r) /\ txs s' = rec :: txs s /\
    triggers_auto (health s) rec = true /\
    auto_candidates (sc s) (active s') = [1; 2] /\
    queue s' = [auto_mut [1; 2]].
Proof.
  cbv zeta. split; [unfold good; cbn; repeat split|]. split; [constructor|].
  eexists. eexists. eexists.
  split; [vm_compute; reflexivity|]. vm_compute. repeat split; reflexivity.
Qed.

(* the auto mutation itself: both judged and accepted, nothing is prepended *)
Example auto_no_chain_nonvacuous :
  let s := fst (run_tx (init_st ex_sch2 [] [] 3 [] 1000 []) (ex_mut [0] false)) in
  let s1 := set_queue s [] in
  good s1 /\ no_auto (queue s1) /\
  exists s' r, run_tx s1 (auto_mut [1; 2]) = (s', r) /\
    active s' = [1; 2; 0] /\ queue s' = [] /\
    resolve (sc s1) (topo s1) (active s1) MAdd [1; 2] = [1; 2; 0].
Proof.
  cbv zeta. split; [unfold good; vm_compute; repeat split|]. split; [constructor|].
  eexists. eexists.
  split; [vm_compute; reflexivity|]. vm_compute. repeat split; reflexivity.
Qed.

(* a whole run: Add A, then the auto transition, with handlers bound *)
Example follow_codes_ok_nonvacuous :
  let tr := run 100 (init_st ex_sch2 [] [] 3 [[HEnter 1; HState 2; HAnyState]] 1000 [])
                [ex_add [0]] in
  tr_fuel_ok tr = true /\ map tx_auto (tr_txs tr) = [false; true] /\
  length (tr_hlog tr) = 4 /\
  c07_codes ex_sch2 [] [] tr = [] /\ c05_codes ex_sch2 [] [[HEnter 1; HState 2; HAnyState]] tr = [].
Proof. vm_compute. repeat split; reflexivity. Qed.

(* (j) the quirk of emitSelfEvents.
   Intended: in an auto transition a veto by a handler of one Auto state
   (its Enter / self / state-state handler) only rejects that state; the
   called Auto states that relations accept end up active.
   Refuted: 0: A (Auto), 1: B (Auto, Require C), 2: C, 3: Exception; one
   binding with the self handler AA; script: AA returns true, then false.
   Add A (B is rejected, C missing), Add C. The second auto mutation calls B;
   relations accept it; AA (A is active and in the target) vetoes as the LAST
   self handler, A is deleted from the target in place, the next element (C)
   is skipped, `ret` stays Canceled: the whole auto transition is canceled
   and B stays inactive. Spec/C07.v judged_codes treats the veto as "global"
   (AA does not belong to a CALLED state) and reports nothing. *)
Definition jx_sch : schema :=
  [ex_mk true [] []; ex_mk true [2] []; ex_mk false [] []; ex_mk false [] []].

Lemma auto_last_self_veto_cancels_refuted_lemma :
  exists (sch : schema) (order : list nat) (bs : list (list hkey)) (acts : list haction)
         (cs : list api_call) (t : txrec) (h : hlentry),
    let tp := topo_sort sch order in
    let tr := run 100 (init_st sch tp [] 3 bs 1000 acts) cs in
    fault_free acts /\ tr_fuel_ok tr = true /\ tr_crashed tr = false /\
    last (tr_txs tr) t = t /\ In t (tr_txs tr) /\
    tx_auto t = true /\ tx_called t = [1] /\ tx_accepted t = false /\
    slice (tr_hlog tr) (tx_hfrom t) (tx_hto t) = [h] /\
    hl_key h = HSelf 0 /\ hl_ret h = false /\ s_auto (sget sch 0) = true /\
    mem 1 (resolve sch tp (tx_active_before t) MAdd (tx_called t)) = true /\
    map co_active (tr_calls tr) = [[0]; [0; 2]] /\
    judged_codes sch tp (tr_hlog tr) t = [] /\ c07_codes sch tp [] tr = [].
Proof.
  exists jx_sch, [0; 1; 2; 3], [[HSelf 0]], [ex_act true; ex_act false],
         [ex_add [0]; ex_add [2]].
  eexists. eexists. cbv zeta.
  split; [reflexivity|]. split; [vm_compute; reflexivity|]. split; [vm_compute; reflexivity|].
  split; [vm_compute; reflexivity|].
  split; [vm_compute; right; right; right; left; reflexivity|].
  split; [vm_compute; reflexivity|]. split; [vm_compute; reflexivity|].
  split; [vm_compute; reflexivity|]. split; [vm_compute; reflexivity|].
  vm_compute. repeat split; reflexivity.
Qed.

(* by contrast an Enter veto is judged one by one: BEnter vetoes, C is added *)
Example auto_enter_veto_judged_one_by_one :
  let tr := run 100 (init_st ex_sch2 [] [] 3 [[HEnter 1]] 1000 [ex_act false]) [ex_add [0]] in
  map tx_accepted (tr_txs tr) = [true; true] /\
  map co_active (tr_calls tr) = [[2; 0]] /\ c07_codes ex_sch2 [] [] tr = [].
Proof. vm_compute. repeat split; reflexivity. Qed.

Example judged_one_by_one_step_nonvacuous :
  let s := set_queue (fst (run_tx (init_st ex_sch2 [] [] 3 [[HEnter 1]] 1000 [])
                                  (ex_mut [0] false))) [] in
  good s /\
  exists s' r new, run_tx s (auto_mut [1; 2]) = (s', r) /\ hlog s' = new ++ hlog s /\
    length new = 1 /\ Forall (fun h => hl_ret h = true) new /\
    filter (fun x => mem x (resolve (sc s) (topo s) (active s) MAdd [1; 2])) [1; 2] = [1; 2] /\
    active s' = [1; 2; 0].
Proof.
  cbv zeta. split; [unfold good; vm_compute; repeat split|].
  eexists. eexists.
  exists (firstn 1 (hlog (fst (run_tx
     (set_queue (fst (run_tx (init_st ex_sch2 [] [] 3 [[HEnter 1]] 1000 []) (ex_mut [0] false))) [])
     (auto_mut [1; 2]))))).
  split; [vm_compute; reflexivity|]. vm_compute.
  repeat split; try reflexivity. constructor; [reflexivity | constructor].
Qed.

(* Require chain 0 -> 1 -> 2: the Enter / State handlers run 2, 1, 0 whatever the call order *)
Example c05_codes_only_after_nonvacuous :
  let sch := [srt_mk [1] []; srt_mk [2] []; srt_mk [] []; srt_mk [] []] in
  let order := [0; 1; 2; 3] in
  let bs := [[HEnter 0; HEnter 1; HEnter 2; HState 0; HState 1; HState 2]] in
  let tr := run 100 (init_st sch (topo_sort sch order) [] 3 bs 1000 []) [ex_add [0; 1; 2]] in
  require_acyclic sch = true /\ (forall x, x < length sch -> In x order) /\
  topo_sort sch order = [2; 1; 0] /\
  map hl_key (tr_hlog tr) = [HEnter 2; HEnter 1; HEnter 0; HState 2; HState 1; HState 0] /\
  c05_codes sch (topo_sort sch order) bs tr = [].
Proof.
  cbv zeta. split; [vm_compute; reflexivity|]. split.
  - cbn. intros x Hx. destruct x as [|[|[|[|x]]]]; try tauto. lia.
  - vm_compute. repeat split; reflexivity.
Qed.

(* (f) at the level of a run: an acyclic After chain 0 after 1 after 2, one
   Add of [0; 2; 1]: the Enter and State handlers of 0 run before those of 1 *)
Lemma order_respects_after_trace_refuted_lemma :
  exists (sch : schema) (order : list nat) (bs : list (list hkey)) (cs : list api_call),
    let tp := topo_sort sch order in
    let tr := run 100 (init_st sch tp [] 3 bs 1000 []) cs in
    refs_ok sch = true /\
    forallb (fun x => negb (mem x (rel_closure (length sch) (fun y => s_after (sget sch y))
                                               (s_after (sget sch x))))) (all_states sch) = true /\
    tr_fuel_ok tr = true /\
    map tx_target (tr_txs tr) = [[0; 2; 1]] /\
    map hl_key (tr_hlog tr) = [HEnter 0; HEnter 2; HEnter 1; HState 0; HState 2; HState 1] /\
    c05_codes sch tp bs tr = [581%N; 581%N].
Proof.
  exists [srt_mk [] [1]; srt_mk [] [2]; srt_mk [] []; srt_mk [] []], [0; 1; 2; 3],
         [[HEnter 0; HEnter 1; HEnter 2; HState 0; HState 1; HState 2]], [ex_add [0; 2; 1]].
  vm_compute. repeat split; reflexivity.
Qed.

(* (j) in the form of the judged_codes clause *)
Lemma judged_one_by_one_lemma : forall s mu s' r new,
  good s -> mu_auto mu = true -> mu_type mu = MAdd -> mu_check mu = false ->
  run_tx s mu = (s', r) -> hlog s' = new ++ hlog s ->
  (forall h, In h new -> is_final_key (hl_key h) = false -> hl_ret h = true) ->
  let joint := resolve (sc s) (topo s) (active s) MAdd (mu_called mu) in
  let clean := filter (fun x => mem x joint) (mu_called mu) in
  let expected := resolve (sc s) (topo s) (active s) MAdd clean in
  forall x, In x clean -> In x expected -> In x (active s').
Proof.
  intros s mu s' r new G Hm Hty Hck H L Hnv joint clean expected x Hx Hxe.
  rewrite (judged_one_by_one_step_lemma s mu s' r new G Hm Hty Hck H L Hnv x Hx). exact Hxe.
Qed.

(* ================================================================== *)
(* C05b on whole runs, witnesses of the partial-acceptance defects     *)
(* ================================================================== *)

Lemma flat_map_nil : forall (A B : Type) (f : A -> list B) l,
  (forall x, In x l -> f x = []) -> flat_map f l = [].
Proof.
  intros A B f l H. induction l as [|x r IH]; [reflexivity|].
  cbn. rewrite (H x (or_introl eq_refl)), IH; [reflexivity|].
  intros y Hy. apply H. right. exact Hy.
Qed.

Lemma consulted_ok_lemma : forall sch tp hl ex bs ql acts cs fuel,
  fault_free acts ->
  forall t, In t (tr_txs (run fuel (init_st sch tp hl ex bs ql acts) cs)) ->
    consulted_codes sch tp bs (tr_hlog (run fuel (init_st sch tp hl ex bs ql acts) cs)) t = [].
Proof.
  intros sch tp hl ex bs ql acts cs fuel F. rewrite run_unfold.
  destruct (run_calls_top fuel (init_st sch tp hl ex bs ql acts) cs []) as [[s1 obs] ok] eqn:E.
  cbn. intros t Ht. apply in_rev in Ht.
  destruct (run_final_inv _ _ _ _ _ _ _ _ _ _ _ _ F E) as [I _].
  destruct I as (I0 & I1 & _ & I3 & _ & _ & Hr & _).
  rewrite Forall_forall in Hr. destruct (Hr t Ht) as (_ & _ & _ & Y & _). rewrite I0, I1, I3 in Y. exact Y.
Qed.

Lemma consulted_all_ok_lemma : forall sch tp hl ex bs ql acts cs fuel,
  fault_free acts ->
  flat_map (consulted_codes sch tp bs (tr_hlog (run fuel (init_st sch tp hl ex bs ql acts) cs)))
           (tr_txs (run fuel (init_st sch tp hl ex bs ql acts) cs)) = [].
Proof.
  intros sch tp hl ex bs ql acts cs fuel F. apply flat_map_nil. intros t Ht.
  apply consulted_ok_lemma; assumption.
Qed.

Lemma consulted_nonauto_ok_lemma : forall sch tp hl ex bs ql acts cs fuel,
  fault_free acts ->
  flat_map (consulted_codes sch tp bs (tr_hlog (run fuel (init_st sch tp hl ex bs ql acts) cs)))
           (filter (fun t => negb (tx_auto t))
                   (tr_txs (run fuel (init_st sch tp hl ex bs ql acts) cs))) = [].
Proof.
  intros sch tp hl ex bs ql acts cs fuel F. apply flat_map_nil. intros t Ht.
  apply filter_In in Ht. apply consulted_ok_lemma; tauto.
Qed.

(* per step, the two readings asked for *)
Lemma consulted_step_nonauto_lemma : forall s mu s' r rec,
  good s -> NoDup (active s) -> mu_auto mu = false ->
  run_tx s mu = (s', r) -> txs s' = rec :: txs s ->
  tx_accepted rec && negb (tx_check rec) = true ->
  consulted_codes (sc s) (topo s) (bindings s) (rev (hlog s')) rec = [].
Proof.
  intros s mu s' r rec G Hnd Hm H Htx _.
  eapply consulted_step_lemma; try eassumption. intros Hx. congruence.
Qed.

Lemma consulted_step_auto_lemma : forall s mu s' r rec,
  good s -> NoDup (active s) -> mu_auto mu = true -> mu_type mu = MAdd ->
  run_tx s mu = (s', r) -> txs s' = rec :: txs s ->
  consulted_codes (sc s) (topo s) (bindings s) (rev (hlog s')) rec = [].
Proof.
  intros s mu s' r rec G Hnd Hm Hty H Htx.
  eapply consulted_step_lemma; try eassumption. intros _. exact Hty.
Qed.

Definition wx_mk (au mu : bool) (ad rem : list nat) : sdef :=
  {| s_auto := au; s_multi := mu; s_require := []; s_add := ad; s_remove := rem; s_after := [] |}.

(* 591: 0 Sa (Auto, Add Sc), 1 Sb (Auto, Remove Sc), 2 Sc, 3 Sd, 4 Exception.
   Add Sd; the auto mutation calls Sa, Sb; first resolution [Sa; Sd; Sb] (Sb
   removes Sc); SbEnter vetoes; the re-resolution with Sa alone brings Sc in:
   ScEnter (bound) was never consulted *)
Lemma reresolved_refuted_lemma :
  exists (sch : schema) (order : list nat) (bs : list (list hkey)) (acts : list haction)
         (cs : list api_call),
    let tp := topo_sort sch order in
    let tr := run 100 (init_st sch tp [] 4 bs 1000 acts) cs in
    fault_free acts /\ tr_fuel_ok tr = true /\ tr_crashed tr = false /\
    map tx_auto (tr_txs tr) = [false; true] /\ map tx_target (tr_txs tr) = [[3]; [0; 3; 2]] /\
    map (fun h => (hl_key h, hl_ret h)) (tr_hlog tr) = [(HEnter 1, false)] /\
    flat_map (reresolved_codes sch tp bs (tr_hlog tr)) (tr_txs tr) = [591%N] /\
    c05b_codes sch tp bs tr = [591%N].
Proof.
  exists [wx_mk true false [2] []; wx_mk true false [] [2]; wx_mk false false [] [];
          wx_mk false false [] []; wx_mk false true [] []],
         [0; 1; 2; 3; 4], [[HEnter 1; HEnter 2]], [ex_act false], [ex_add [3]].
  vm_compute. repeat split; reflexivity.
Qed.

(* 592: 0 Sa (Auto, Add Sb), 1 Sb (Auto), 2 Sc, 3 Exception. Add Sc; the auto
   mutation calls Sa, Sb; SbEnter vetoes; the re-resolution with Sa alone
   brings Sb back through Sa's Add relation: Sb is active although its own
   Enter handler returned false *)
Lemma vetoed_active_refuted_lemma :
  exists (sch : schema) (order : list nat) (bs : list (list hkey)) (acts : list haction)
         (cs : list api_call),
    let tp := topo_sort sch order in
    let tr := run 100 (init_st sch tp [] 3 bs 1000 acts) cs in
    fault_free acts /\ tr_fuel_ok tr = true /\ tr_crashed tr = false /\
    map tx_auto (tr_txs tr) = [false; true] /\ map tx_target (tr_txs tr) = [[2]; [0; 2; 1]] /\
    map (fun h => (hl_key h, hl_ret h)) (tr_hlog tr) = [(HEnter 1, false)] /\
    map co_active (tr_calls tr) = [[0; 2; 1]] /\
    flat_map (vetoed_active_codes (tr_hlog tr)) (tr_txs tr) = [592%N] /\
    c05b_codes sch tp bs tr = [592%N].
Proof.
  exists [wx_mk true false [1] []; wx_mk true false [] []; wx_mk false false [] [];
          wx_mk false true [] []],
         [0; 1; 2; 3], [[HEnter 1]], [ex_act false; ex_act false], [ex_add [2]].
  vm_compute. repeat split; reflexivity.
Qed.

(* non-vacuity of the consultation theorem: bound Exit / Enter / state-state
   handlers, one non-auto and one auto transition *)
Example consulted_ok_nonvacuous :
  let bs := [[HExit 0; HEnter 1; HTrans 0 1; HTrans 2 1; HEnter 2]; [HEnter 1; HTrans 0 2]] in
  let tr := run 100 (init_st ex_sch [] [] 3 bs 1000 []) [ex_add [0]; ex_add [1]] in
  tr_fuel_ok tr = true /\ map tx_auto (tr_txs tr) = [false; true; false] /\
  map tx_accepted (tr_txs tr) = [true; true; true] /\
  map (fun h => (hl_key h, hl_binding h)) (tr_hlog tr)
    = [(HEnter 2, 0); (HTrans 0 2, 1); (HExit 0, 0); (HEnter 1, 0); (HEnter 1, 1);
       (HTrans 2 1, 0); (HTrans 0 1, 0); (HTrans 0 2, 1)] /\
  c05b_codes ex_sch [] bs tr = [].
Proof. vm_compute. repeat split; reflexivity. Qed.

(* ================================================================== *)
(* C05d: bindings detached while an event is dispatched                *)
(* ================================================================== *)

Lemma filter_filter : forall (A : Type) (f g : A -> bool) l,
  filter f (filter g l) = filter (fun x => g x && f x) l.
Proof.
  intros A f g l. induction l as [|x r IH]; [reflexivity|].
  cbn. destruct (g x); cbn; [destruct (f x); rewrite IH; reflexivity | exact IH].
Qed.

(* the bindings still bound after the bindings [pre] have run *)
Definition still_bound (d : list (nat * nat)) (pre bound : list nat) : list nat :=
  filter (fun x => negb (existsb (fun i => mem x (detached_by d i)) pre)) bound.

Lemma neg_dispatch_spec : forall h d veto snap bound cs b v,
  neg_dispatch h d veto snap bound = (cs, b, v) ->
  exists pre post, snap = pre ++ post /\ cs = map (fun i => (i, h)) pre /\
    b = still_bound d pre bound /\
    (v = false -> post = [] /\ forallb (fun i => negb (mem i veto)) pre = true) /\
    (v = true -> exists pre' i, pre = pre' ++ [i] /\ mem i veto = true /\
                  forallb (fun i => negb (mem i veto)) pre' = true).
Proof.
  intros h d veto snap. induction snap as [|i r IH]; intros bound cs b v H.
  - cbn in H. inversion H; subst. exists [], []. split; [reflexivity|]. split; [reflexivity|].
    split.
    + unfold still_bound. cbn. symmetry. apply filter_all_true. reflexivity.
    + split; [intros _; split; reflexivity | discriminate].
  - cbn [neg_dispatch] in H. destruct (mem i veto) eqn:Ev.
    + inversion H; subst. exists [i], r. split; [reflexivity|]. split; [reflexivity|]. split.
      * unfold still_bound. apply filter_ext. intros x. cbn. rewrite orb_false_r. reflexivity.
      * split; [discriminate|]. intros _. exists [], i. split; [reflexivity|]. split; [exact Ev | reflexivity].
    + destruct (neg_dispatch h d veto r
                  (filter (fun x => negb (mem x (detached_by d i))) bound)) as [[cs' b'] v'] eqn:E.
      inversion H; subst.
      destruct (IH _ _ _ _ E) as (pre & post & Hs & Hc & Hb & Hf & Ht).
      exists (i :: pre), post. split; [rewrite Hs; reflexivity|]. split; [rewrite Hc; reflexivity|].
      split.
      * rewrite Hb. unfold still_bound. rewrite filter_filter. apply filter_ext. intros x.
        cbn. rewrite negb_orb. reflexivity.
      * split.
        -- intros Hv. destruct (Hf Hv) as [Hp Ha]. split; [exact Hp|]. cbn. rewrite Ev, Ha. reflexivity.
        -- intros Hv. destruct (Ht Hv) as (pre' & j & Hp & Hj & Ha).
           exists (i :: pre'), j. split; [rewrite Hp; reflexivity|]. split; [exact Hj|].
           cbn. rewrite Ev, Ha. reflexivity.
Qed.

(* the statement over the scenario of Spec/C05d.v *)
Lemma detach_snapshot_semantics_lemma : forall (k : dcase) cs r1 r2,
  expected_calls k = (cs, r1, r2) ->
  exists pre post,
    seq 0 (d_k k) = pre ++ post /\
    cs = map (fun i => (i, 0)) pre
         ++ (if r1 then map (fun i => (i, 1)) (still_bound (d_detach k) pre (seq 0 (d_k k))) else [])
         ++ map (fun i => (i, 2)) (still_bound (d_detach k) pre (seq 0 (d_k k)))
         ++ map (fun i => (i, 3)) (still_bound (d_detach k) pre (seq 0 (d_k k))) /\
    r2 = true /\
    (r1 = true -> post = [] /\ forallb (fun i => negb (mem i (d_veto k))) pre = true) /\
    (r1 = false -> exists pre' i, pre = pre' ++ [i] /\ mem i (d_veto k) = true /\
                     forallb (fun i => negb (mem i (d_veto k))) pre' = true).
Proof.
  intros k cs r1 r2 H. unfold expected_calls in H.
  destruct (neg_dispatch 0 (d_detach k) (d_veto k) (seq 0 (d_k k)) (seq 0 (d_k k)))
    as [[c1 b1] v1] eqn:E.
  destruct (neg_dispatch_spec _ _ _ _ _ _ _ _ E) as (pre & post & Hs & Hc & Hb & Hf & Ht).
  inversion H; subst cs r1 r2. exists pre, post. split; [exact Hs|]. split.
  - rewrite Hc, Hb. destruct v1; reflexivity.
  - split; [reflexivity|]. split.
    + intros Hv. apply negb_true_iff in Hv. exact (Hf Hv).
    + intros Hv. apply negb_false_iff in Hv. exact (Ht Hv).
Qed.

Lemma NoDup_app_parts : forall (A : Type) (l1 l2 : list A), NoDup (l1 ++ l2) -> NoDup l1 /\ NoDup l2.
Proof.
  intros A l1 l2 H. split.
  - induction l1 as [|x r IH]; [constructor|]. inversion H; subst.
    constructor; [intros Hx; apply H2; apply in_or_app; left; exact Hx | apply IH; assumption].
  - induction l1 as [|x r IH]; [exact H|]. inversion H; subst. apply IH. assumption.
Qed.

Lemma NoDup_map_pair : forall (h : nat) l, NoDup l -> NoDup (map (fun i : nat => (i, h)) l).
Proof.
  intros h l H. induction H as [|x r Hn Hr IH]; [constructor|].
  cbn. constructor; [|exact IH]. intros Hin. apply in_map_iff in Hin.
  destruct Hin as (y & E & Hy). inversion E; subst. contradiction.
Qed.

(* every (binding, handler) pair is called at most once; every binding of the
   snapshot gets the negotiation event exactly once unless a veto stopped it;
   a binding detached by a called handler gets none of the later events *)
Lemma detach_calls_properties_lemma : forall (k : dcase) cs r1 r2,
  expected_calls k = (cs, r1, r2) ->
  NoDup cs /\
  (r1 = true -> forall i, i < d_k k -> In (i, 0) cs) /\
  (forall i j h, In (i, 0) cs -> In (i, j) (d_detach k) -> h <> 0 -> ~ In (j, h) cs) /\
  (forall i h, In (i, h) cs -> i < d_k k /\ h <= 3).
Proof.
  intros k cs r1 r2 H.
  destruct (detach_snapshot_semantics_lemma k cs r1 r2 H) as (pre & post & Hs & Hc & _ & Hf & _).
  set (sb := still_bound (d_detach k) pre (seq 0 (d_k k))) in *.
  assert (Hndp : NoDup pre).
  { pose proof (seq_NoDup (d_k k) 0) as Hn. rewrite Hs in Hn. apply (NoDup_app_parts _ _ _ Hn). }
  assert (Hndb : NoDup sb) by (unfold sb, still_bound; apply NoDup_filter; apply seq_NoDup).
  assert (Hin : forall i h, In (i, h) cs ->
            (h = 0 /\ In i pre) \/ (h = 1 /\ In i sb) \/ (h = 2 /\ In i sb) \/ (h = 3 /\ In i sb)).
  { intros i h Hi. rewrite Hc in Hi. apply in_app_or in Hi. destruct Hi as [Hi|Hi].
    - apply in_map_iff in Hi. destruct Hi as (y & E & Hy). inversion E; subst. tauto.
    - apply in_app_or in Hi. destruct Hi as [Hi|Hi].
      + destruct r1; [|contradiction]. apply in_map_iff in Hi. destruct Hi as (y & E & Hy).
        inversion E; subst. tauto.
      + apply in_app_or in Hi. destruct Hi as [Hi|Hi];
          apply in_map_iff in Hi; destruct Hi as (y & E & Hy); inversion E; subst; tauto. }
  split; [|split; [|split]].
  - rewrite Hc. apply NoDup_app_intro; [apply NoDup_map_pair; exact Hndp| |].
    + apply NoDup_app_intro; [destruct r1; [apply NoDup_map_pair; exact Hndb | constructor]| |].
      * apply NoDup_app_intro; [apply NoDup_map_pair; exact Hndb | apply NoDup_map_pair; exact Hndb|].
        intros x Hx Hy. apply in_map_iff in Hx. destruct Hx as (a & <- & _).
        apply in_map_iff in Hy. destruct Hy as (b & E & _). discriminate.
      * intros x Hx Hy. destruct r1; [|contradiction].
        apply in_map_iff in Hx. destruct Hx as (a & <- & _).
        apply in_app_or in Hy. destruct Hy as [Hy|Hy];
          apply in_map_iff in Hy; destruct Hy as (b & E & _); discriminate.
    + intros x Hx Hy. apply in_map_iff in Hx. destruct Hx as (a & <- & _).
      apply in_app_or in Hy. destruct Hy as [Hy|Hy].
      * destruct r1; [|contradiction]. apply in_map_iff in Hy. destruct Hy as (b & E & _). discriminate.
      * apply in_app_or in Hy. destruct Hy as [Hy|Hy];
          apply in_map_iff in Hy; destruct Hy as (b & E & _); discriminate.
  - intros Hr i Hi. destruct (Hf Hr) as [Hp _]. rewrite Hp, app_nil_r in Hs.
    rewrite Hc. apply in_or_app. left. apply in_map_iff. exists i. split; [reflexivity|].
    rewrite <- Hs. apply in_seq. lia.
  - intros i j h Hi Hd Hh Hj.
    destruct (Hin i 0 Hi) as [[_ Hip]|[[E _]|[[E _]|[E _]]]]; try discriminate.
    assert (Hjb : In j sb).
    { destruct (Hin j h Hj) as [[E _]|[[_ Y]|[[_ Y]|[_ Y]]]]; [contradiction | exact Y..]. }
    unfold sb, still_bound in Hjb. apply filter_In in Hjb. destruct Hjb as [_ Hjb].
    apply negb_true_iff in Hjb.
    assert (Hex : existsb (fun i0 => mem j (detached_by (d_detach k) i0)) pre = true).
    { apply existsb_exists. exists i. split; [exact Hip|]. apply mem_In.
      unfold detached_by. apply in_map_iff. exists (i, j). split; [reflexivity|].
      apply filter_In. split; [exact Hd | apply Nat.eqb_refl]. }
    congruence.
  - intros i h Hi.
    assert (Hsb : forall x, In x sb -> x < d_k k).
    { intros x Hx. unfold sb, still_bound in Hx. apply filter_In in Hx. destruct Hx as [Hx _].
      apply in_seq in Hx. lia. }
    assert (Hpre : forall x, In x pre -> x < d_k k).
    { intros x Hx. assert (In x (seq 0 (d_k k))) by (rewrite Hs; apply in_or_app; left; exact Hx).
      apply in_seq in H0. lia. }
    destruct (Hin i h Hi) as [[-> Y]|[[-> Y]|[[-> Y]|[-> Y]]]]; split; try lia;
      try (apply Hsb; exact Y). apply Hpre. exact Y.
Qed.

Example detach_snapshot_semantics_nonvacuous :
  let k := {| d_k := 4; d_detach := [(0, 2); (1, 3); (2, 1)]; d_veto := []; o_dcalls := [];
              o_res1 := true; o_res2 := true |} in
  expected_calls k
  = ([(0, 0); (1, 0); (2, 0); (3, 0); (0, 1); (0, 2); (0, 3)], true, true) /\
  expected_calls {| d_k := 3; d_detach := [(0, 2)]; d_veto := [1]; o_dcalls := [];
                    o_res1 := true; o_res2 := true |}
  = ([(0, 0); (1, 0); (0, 2); (1, 2); (0, 3); (1, 3)], false, true).
Proof. vm_compute. split; reflexivity. Qed.

(* ================================================================== *)
(* C07 (j) on whole runs: veto-free auto transitions pass judged_codes *)
(* ================================================================== *)

Lemma judged_nv_ok_lemma : forall sch tp hl ex bs ql acts cs fuel,
  fault_free acts ->
  forall t, In t (tr_txs (run fuel (init_st sch tp hl ex bs ql acts) cs)) ->
    no_veto_in (slice (tr_hlog (run fuel (init_st sch tp hl ex bs ql acts) cs))
                      (tx_hfrom t) (tx_hto t)) ->
    judged_codes sch tp (tr_hlog (run fuel (init_st sch tp hl ex bs ql acts) cs)) t = [].
Proof.
  intros sch tp hl ex bs ql acts cs fuel F. rewrite run_unfold.
  destruct (run_calls_top fuel (init_st sch tp hl ex bs ql acts) cs []) as [[s1 obs] ok] eqn:E.
  cbn. intros t Ht Hnv. apply in_rev in Ht.
  destruct (run_final_inv _ _ _ _ _ _ _ _ _ _ _ _ F E) as [I _].
  destruct I as (I0 & I1 & _ & _ & _ & _ & Hr & _).
  rewrite Forall_forall in Hr. destruct (Hr t Ht) as (_ & _ & _ & _ & Y & _).
  rewrite I0, I1 in Y. apply Y. exact Hnv.
Qed.

Example judged_nv_ok_nonvacuous :
  let bs := [[HEnter 1; HState 2; HAnyState]] in
  let tr := run 100 (init_st ex_sch2 [] [] 3 bs 1000 []) [ex_add [0]] in
  match nth_error (tr_txs tr) 1 with
  | Some t =>
    tx_auto t = true /\ tx_called t = [1; 2] /\ tx_accepted t = true /\
    map (fun h => (hl_key h, hl_ret h)) (slice (tr_hlog tr) (tx_hfrom t) (tx_hto t))
      = [(HEnter 1, true); (HState 2, true); (HAnyState, true)] /\
    judged_codes ex_sch2 [] (tr_hlog tr) t = []
  | None => False
  end.
Proof. vm_compute. repeat split; reflexivity. Qed.

(* ================================================================== *)
(* C05e (code 550) on whole runs                                       *)
(* ================================================================== *)

Lemma moved_codes_ok_lemma : forall sch tp hl ex bs ql acts cs fuel,
  fault_free acts ->
  forall t, In t (tr_txs (run fuel (init_st sch tp hl ex bs ql acts) cs)) ->
    moved_codes bs (tr_hlog (run fuel (init_st sch tp hl ex bs ql acts) cs)) t = [].
Proof.
  intros sch tp hl ex bs ql acts cs fuel F. rewrite run_unfold.
  destruct (run_calls_top fuel (init_st sch tp hl ex bs ql acts) cs []) as [[s1 obs] ok] eqn:E.
  cbn. intros t Ht. apply in_rev in Ht.
  destruct (run_final_inv _ _ _ _ _ _ _ _ _ _ _ _ F E) as [I _].
  destruct I as (_ & _ & _ & I3 & _ & _ & Hr & _).
  rewrite Forall_forall in Hr. destruct (Hr t Ht) as (_ & _ & _ & _ & _ & Y).
  rewrite I3 in Y. exact Y.
Qed.

Lemma c05e_codes_run_lemma : forall sch tp hl ex bs ql acts cs fuel,
  fault_free acts ->
  c05e_codes bs (run fuel (init_st sch tp hl ex bs ql acts) cs) = [].
Proof.
  intros sch tp hl ex bs ql acts cs fuel F. unfold c05e_codes. apply flat_map_nil.
  intros t Ht. apply moved_codes_ok_lemma; assumption.
Qed.

(* 0: A; 1: B (Remove A); 2: M (Multi); 3: Exception (Multi).
   Add [A; M], then Add [M; B]: A exits (+1), B enters (+1), M is re-entered (+2) *)
Example c05e_codes_run_nonvacuous :
  let sch := [wx_mk false false [] []; wx_mk false false [] [0]; wx_mk false true [] [];
              wx_mk false true [] []] in
  let bs := [[HState 2; HEnd 0; HState 1; HState 0; HEnd 2]; [HState 2; HEnd 0]] in
  let tr := run 100 (init_st sch [] [] 3 bs 1000 [])
                [ex_add [0; 2]; ex_add [2; 1]; ex_add [1]] in
  tr_fuel_ok tr = true /\
  map (fun t => (tx_before t, tx_mach_after t, moved_states t)) (tr_txs tr)
    = [([0; 0; 0; 0]%N, [1; 0; 1; 0]%N, [0; 2]);
       ([1; 0; 1; 0]%N, [2; 1; 3; 0]%N, [0; 1; 2]);
       ([2; 1; 3; 0]%N, [2; 1; 3; 0]%N, [])] /\
  map (fun h => (hl_key h, hl_binding h)) (tr_hlog tr)
    = [(HState 0, 0); (HState 2, 0); (HState 2, 1); (HEnd 0, 0); (HEnd 0, 1);
       (HState 2, 0); (HState 2, 1); (HState 1, 0)] /\
  c05e_codes bs tr = [].
Proof. vm_compute. repeat split; reflexivity. Qed.
