(* C09 — in-order convergence of the protocol model in per-mutation mode
   (SyncMutations). The codec part is C10's round trip (roundtrip_deep_eq, the
   lemma mutation_chain is proved from) applied along the queued chain; the
   protocol part is the invariant "queue empty, client = last exported
   snapshot" over push rounds. *)

From Coq Require Import List NArith ZArith Bool Arith Lia ZifyN ZifyNat ZifyBool.
From AMV Require Import Model.RpcCodec Spec.C10 Conc.RpcSync Spec.C09.
From AMV Require Proofs.C10Proofs Proofs.C09Proofs.
Import ListNotations.
Open Scope N_scope.
Import C10Proofs C09Proofs.

(* ---------------------------------------------------------------- vocabulary *)

(* a push round in per-mutation mode: any number of source transitions (each
   one queues its snapshot), then one push that is delivered *)
Definition mround_events (ss : list snap) : list ev := map Src ss ++ [Push; Settle].

Fixpoint mlast (x : snap) (rs : list (list snap)) : snap :=
  match rs with
  | [] => x
  | ss :: rest => mlast (last ss x) rest
  end.

(* C10's hypotheses (chain_ok: equal lengths, every consecutive pair within the
   field widths) along every queued chain, and a queue tick that moved between
   two exports (every transition moves it) *)
Fixpoint mrounds_ok (x : snap) (rs : list (list snap)) : Prop :=
  match rs with
  | [] => True
  | ss :: rest =>
    chain_ok x ss /\ (ss <> [] -> s_q x <> s_q (last ss x)) /\ mrounds_ok (last ss x) rest
  end.

(* ---------------------------------------------------------------- codec: the chain *)

Lemma chain_ok_length : forall ss x, chain_ok x ss -> length (s_time (last ss x)) = length (s_time x).
Proof.
  induction ss as [|a r IH]; intros x H; [reflexivity|].
  cbn [chain_ok] in H. destruct H as [Hl [_ Hr]]. rewrite last_cons.
  rewrite (IH a Hr). now symmetry.
Qed.

Lemma chain_cl : forall p ss s0 h errs,
  shallow (p_codec p) = false ->
  cfg_wf (p_codec p) (length (s_time s0)) = true -> tracked (p_codec p) <> [] ->
  chain_ok s0 ss ->
  exists us,
    calc_update_muts (p_codec p) (map (mk_data (p_codec p)) ss) (last_data (p_codec p) h s0) = Some us /\
    length us = length ss /\
    cl_update_muts p (mk_client (mirror (p_codec p) s0) (s_q s0) (s_m s0) false false errs) us
    = Some (mk_client (mirror (p_codec p) (last ss s0)) (s_q (last ss s0)) (s_m (last ss s0))
                      false false errs, true).
Proof.
  intros p ss. induction ss as [|s1 r IH]; intros s0 h errs Hsh Hwf Htr Hch.
  - exists []. repeat split.
  - cbn [chain_ok] in Hch. destruct Hch as [Hlen [Hrng Hr]].
    assert (Hwf1 : cfg_wf (p_codec p) (length (s_time s1)) = true) by now rewrite <- Hlen.
    destruct (roundtrip_deep_eq (p_codec p) s0 s1 h Hsh Hlen Hwf Hrng) as [u [Hu Ha]].
    destruct (IH s1 false errs Hsh Hwf1 Htr Hr) as [us [Hus [Hl Hc]]].
    change (last_data (p_codec p) false s1) with (mk_data (p_codec p) s1) in Hus.
    exists (u :: us). split; [|split].
    + cbn [map calc_update_muts]. rewrite Hu, Hus. reflexivity.
    + cbn [length]. now rewrite Hl.
    + cbn [cl_update_muts].
      rewrite (cl_update_acc p (mk_client (mirror (p_codec p) s0) (s_q s0) (s_m s0) false false errs)
                 u (mirror (p_codec p) s1) (s_q s1) (s_m s1) Ha
                 (mirror_nonempty _ s1 Hwf1 Htr)).
      cbn [mk_client cl_stuck cl_need cl_errs]. rewrite last_cons. exact Hc.
Qed.

Local Opaque client_apply calc_update calc_update_muts w8 w16 w32 w64 hello_time mk_data mirror checksum.

(* ---------------------------------------------------------------- protocol steps *)

Section MutSteps.
  Variable p : pcfg.
  Hypothesis Hmut : p_mut p = true.
  Let c := p_codec p.

  (* the source transitions of a round: every snapshot is queued *)
  Lemma msrcs : forall ss l (la : option tdata) qu cl wire pend cur sil rej syn np,
    exec p (mkst (mk_server l la qu) cl wire pend cur sil rej syn np) (map Src ss)
    = mkst (mk_server l (match ss with [] => la | _ => Some (mk_data c (last ss cur)) end)
                      (qu ++ map (mk_data c) ss))
           cl wire pend (last ss cur) sil rej syn np.
  Proof.
    induction ss as [|a r IH]; intros l la qu cl wire pend cur sil rej syn np.
    - cbn [map last]. rewrite exec_nil, app_nil_r. reflexivity.
    - cbn [map]. rewrite exec_cons.
      assert (E : step p (mkst (mk_server l la qu) cl wire pend cur sil rej syn np) (Src a)
                  = mkst (mk_server l (Some (mk_data c a)) (qu ++ [mk_data c a])) cl wire pend a
                         sil rej syn np).
      { unfold step, do_src, mkst. cbn. now rewrite Hmut. }
      rewrite E, IH. rewrite last_cons, <- app_assoc. cbn [app].
      destruct r; reflexivity.
  Qed.

  Lemma st_push_mut : forall l qu cl wire pend cur sil rej syn np y us,
    d_q l <> s_q y ->
    calc_update_muts c qu l = Some us -> us <> [] ->
    step p (mkst (mk_server l (Some (mk_data c y)) qu) cl wire pend cur sil rej syn np) Push
    = mkst (mk_server (mk_data c y) None []) cl (wire ++ [WMuts us]) pend cur sil rej syn (S np).
  Proof.
    intros l qu cl wire pend cur sil rej syn np y us Hq Hu Hn.
    unfold step, do_push, mkst. cbn [st_err st_conn negb st_sv sv_latest sv_last sv_queue mk_server].
    destruct (mk_data_some c y) as [ty Hty]. fold c. rewrite Hty.
    rewrite d_q_mk. replace (d_q l =? s_q y) with false by (symmetry; now apply N.eqb_neq).
    rewrite andb_false_r, Hmut. fold c. rewrite Hu.
    destruct us as [|u0 ur]; [congruence|]. reflexivity.
  Qed.

  Local Opaque settle.

  Lemma st_settle_muts_acc : forall sv t q m errs cur sil rej syn np us t' q' m',
    cl_update_muts p (mk_client t q m false false errs) us
    = Some (mk_client t' q' m' false false errs, true) ->
    step p (mkst sv (mk_client t q m false false errs) [WMuts us] None cur sil rej syn np) Settle
    = mkst sv (mk_client t' q' m' false false errs) [] None cur sil rej syn np.
  Proof.
    intros sv t q m errs cur sil rej syn np us t' q' m' H.
    unfold step, mkst. cbn [st_err st_wire length Nat.mul Nat.add].
    rewrite settle_eq. unfold mk_client in *. cbn -[settle cl_update_muts].
    rewrite H. cbn -[settle cl_update_muts].
    rewrite settle_eq. cbn -[settle cl_update_muts].
    reflexivity.
  Qed.

  (* nothing to export: the latest data is nil (flushed) or the placeholder *)
  Lemma st_idle_round : forall l la cl cur sil rej syn np,
    (match la with None => True | Some d => d_mtime d = None end) ->
    cl_need cl = false ->
    exec p (mkst (mk_server l la []) cl [] None cur sil rej syn np) [Push; Settle]
    = mkst (mk_server l la []) cl [] None cur sil rej syn np.
  Proof.
    intros l la cl cur sil rej syn np Hla Hn.
    destruct cl as [t q m stuck need errs]. cbn in Hn. subst need.
    rewrite !exec_cons, exec_nil.
    assert (E : step p (mkst (mk_server l la []) (mk_client t q m stuck false errs) [] None cur sil rej syn np) Push
                = mkst (mk_server l la []) (mk_client t q m stuck false errs) [] None cur sil rej syn np).
    { unfold step, do_push, mkst. cbn [st_err st_conn negb st_sv sv_latest mk_server].
      destruct la as [d|]; [|reflexivity]. now rewrite Hla. }
    unfold mk_client in E. rewrite E.
    unfold step, mkst. cbn [st_err st_wire length Nat.mul Nat.add].
    rewrite settle_eq. cbn -[settle]. reflexivity.
  Qed.

  Local Transparent settle.
End MutSteps.

(* ---------------------------------------------------------------- rounds *)

(* the invariant: client and server agree on x, the queue is empty, nothing is
   in flight, and the tracer's latest data is nil or the placeholder *)
Definition mform (p : pcfg) (h : bool) (x : snap) (la : option tdata)
  (errs : nat) (sil rej syn : bool) (np : nat) : st :=
  mkst (mk_server (last_data (p_codec p) h x) la [])
       (mk_client (mirror (p_codec p) x) (s_q x) (s_m x) false false errs)
       [] None x sil rej syn np.

Definition harmless (la : option tdata) : Prop :=
  match la with None => True | Some d => d_mtime d = None end.

Lemma mround : forall p h x la errs sil rej syn np ss,
  p_mut p = true -> shallow (p_codec p) = false ->
  cfg_wf (p_codec p) (length (s_time x)) = true -> tracked (p_codec p) <> [] ->
  harmless la ->
  chain_ok x ss -> (ss <> [] -> s_q x <> s_q (last ss x)) ->
  exists h' la' np',
    harmless la' /\
    exec p (mform p h x la errs sil rej syn np) (mround_events ss)
    = mform p h' (last ss x) la' errs sil rej syn np'.
Proof.
  intros p h x la errs sil rej syn np ss Hmut Hsh Hwf Htr Hla Hch Hq.
  unfold mround_events, mform. rewrite exec_app, (msrcs p Hmut).
  destruct ss as [|s1 r].
  - exists h, la, np. split; [exact Hla|].
    cbn [map app last]. apply (st_idle_round p); [exact Hla|reflexivity].
  - set (ss := s1 :: r) in *. set (y := last ss x).
    destruct (chain_cl p ss x h errs Hsh Hwf Htr Hch) as [us [Hus [Hl Hc]]].
    assert (Hne : us <> []) by (intros E; rewrite E in Hl; discriminate).
    exists false, None, (S np). split; [exact I|].
    replace (match ss with [] => la | _ :: _ => Some (mk_data (p_codec p) (last ss x)) end)
      with (Some (mk_data (p_codec p) y)) by reflexivity.
    cbn [app]. rewrite !exec_cons, exec_nil.
    rewrite (st_push_mut p Hmut _ _ _ _ _ _ _ _ _ _ y us);
      [|rewrite d_q_last; apply Hq; discriminate|exact Hus|exact Hne].
    cbn [app].
    rewrite (st_settle_muts_acc p _ _ _ _ _ _ _ _ _ _ us _ _ _ Hc).
    reflexivity.
Qed.

Lemma mrounds : forall p rs h x la errs sil rej syn np,
  p_mut p = true -> shallow (p_codec p) = false ->
  cfg_wf (p_codec p) (length (s_time x)) = true -> tracked (p_codec p) <> [] ->
  harmless la -> mrounds_ok x rs ->
  exists h' la' np',
    harmless la' /\
    exec p (mform p h x la errs sil rej syn np) (flat_map mround_events rs)
    = mform p h' (mlast x rs) la' errs sil rej syn np'.
Proof.
  intros p rs. induction rs as [|ss rest IH]; intros h x la errs sil rej syn np Hmut Hsh Hwf Htr Hla Hok.
  - exists h, la, np. split; [exact Hla|reflexivity].
  - cbn [mrounds_ok] in Hok. destruct Hok as [Hch [Hq Hrest]].
    cbn [flat_map mlast]. rewrite exec_app.
    destruct (mround p h x la errs sil rej syn np ss Hmut Hsh Hwf Htr Hla Hch Hq)
      as [h1 [la1 [np1 [Hla1 E1]]]].
    rewrite E1. apply IH; try assumption.
    now rewrite (chain_ok_length ss x Hch).
Qed.

Lemma mlast_length : forall rs x, mrounds_ok x rs -> length (s_time (mlast x rs)) = length (s_time x).
Proof.
  induction rs as [|ss rest IH]; intros x H; [reflexivity|].
  cbn [mrounds_ok] in H. destruct H as [Hch [_ Hr]]. cbn [mlast].
  rewrite (IH _ Hr). now apply chain_ok_length.
Qed.

Lemma init_mform : forall p x, (p_hello_m p = true \/ s_m x = 0) ->
  init p x = mform p true x (Some init_data) 0 false false false 0.
Proof.
  intros p x Hm. unfold init, mform, mkst, mk_client.
  replace (if p_hello_m p then s_m x else 0) with (s_m x); [reflexivity|].
  destruct Hm as [Hm|Hm]; [now rewrite Hm|]. rewrite Hm. now destruct (p_hello_m p).
Qed.

Theorem inorder_converges_mutations_lemma : forall p s0 rs,
  p_mut p = true -> shallow (p_codec p) = false ->
  cfg_wf (p_codec p) (length (s_time s0)) = true -> tracked (p_codec p) <> [] ->
  (p_hello_m p = true \/ s_m s0 = 0) ->
  mrounds_ok s0 rs ->
  let st := exec p (init p s0) (flat_map mround_events rs) in
  let y := mlast s0 rs in
  client_view st = (mirror (p_codec p) y, s_q y, s_m y) /\
  mirror_ok (p_codec p) (s_time y) (cl_t (st_cl st)) = true /\
  sv_queue (st_sv st) = [] /\
  quiescent st = true /\ st_err st = false /\ cl_stuck (st_cl st) = false /\
  st_rejpush st = false.
Proof.
  intros p s0 rs Hmut Hsh Hwf Htr Hm Hok st y. subst st.
  rewrite (init_mform p s0 Hm).
  destruct (mrounds p rs true s0 (Some init_data) 0 false false false 0 Hmut Hsh Hwf Htr eq_refl Hok)
    as [h' [la' [np' [_ E]]]].
  rewrite E. fold y. unfold mform, mkst, client_view, quiescent. cbn.
  repeat split; try reflexivity.
  unfold mirror_ok, ticks_ok. rewrite Hsh.
  rewrite (mirror_tracked (p_codec p) y) by (unfold y; now rewrite (mlast_length rs s0 Hok)).
  apply list_N_eqb_refl.
Qed.

(* ---------------------------------------------------------------- non-vacuity *)

Local Transparent client_apply calc_update calc_update_muts w8 w16 w32 w64 hello_time mk_data mirror checksum.

Definition nv_c : cfg := {| sync_schema := false; shallow := false; tracked := [0; 2]%nat |}.
Definition nv_p : pcfg := {| p_codec := nv_c; p_mut := true; p_hello_m := true; p_sync_m := true |}.
Definition nv_s0 : snap := {| s_time := [1; 4; 2]; s_q := 7; s_m := 1 |}.
Definition nv_a : snap := {| s_time := [2; 4; 2]; s_q := 8; s_m := 1 |}.
Definition nv_b : snap := {| s_time := [2; 5; 2]; s_q := 9; s_m := 1 |}.   (* only the untracked S1 moved *)
Definition nv_c3 : snap := {| s_time := [2; 5; 3]; s_q := 10; s_m := 1 |}.
Definition nv_rs : list (list snap) := [[nv_a; nv_b]; []; [nv_c3]].

Lemma inorder_converges_mutations_nonvacuous_lemma :
  p_mut nv_p = true /\ shallow (p_codec nv_p) = false /\
  cfg_wf (p_codec nv_p) (length (s_time nv_s0)) = true /\ tracked (p_codec nv_p) <> [] /\
  mrounds_ok nv_s0 nv_rs /\
  (* the first round queues two mutations and pushes them in one message *)
  (exists u1 u2, st_wire (exec nv_p (init nv_p nv_s0) [Src nv_a; Src nv_b; Push]) = [WMuts [u1; u2]]
                 /\ u_idx u2 = [] /\ u_q u2 = 1) /\
  client_view (exec nv_p (init nv_p nv_s0) (flat_map mround_events nv_rs)) = ([2; 3], 10, 1).
Proof.
  split; [reflexivity|]. split; [reflexivity|]. split; [vm_compute; reflexivity|].
  split; [vm_compute; discriminate|].
  split.
  { cbn [mrounds_ok nv_rs chain_ok].
    repeat split; try (vm_compute; reflexivity); try (vm_compute; intros; discriminate).
    vm_compute. intros H _. apply H. reflexivity. }
  split.
  { vm_compute. eexists. eexists. repeat split; reflexivity. }
  vm_compute. reflexivity.
Qed.
