(* C03 / C14 — proofs about the sequential machine model (Model/Machine.v)
   against the C03 and C14 predicates. Lemmas only; the property theorems are
   restated in Props/C03.v and Props/C14.v and closed by [exact]. *)

From Coq Require Import List Bool Arith NArith Lia Permutation.
From AMV Require Import Base.ListSet Model.Schema Model.Resolver Model.Machine
  Spec.C01 Spec.C03 Spec.C14.
Import ListNotations.

Ltac prj :=
  cbn [sc topo health exc bindings qlimit clock active queue qtick qpending
       actions hlog txs evs crashed loop_dead hung err_code].
Ltac prj_in H :=
  cbn [sc topo health exc bindings qlimit clock active queue qtick qpending
       actions hlog txs evs crashed loop_dead hung err_code] in H.
Ltac unset :=
  unfold add_ev, add_tx, set_ticks, set_queue, set_mach, set_actions, set_hlog,
         set_crashed, set_fault_flags.

(* ------------------------------------------------------------------ *)
(* fault-free scripts                                                  *)
(* ------------------------------------------------------------------ *)

Definition fault_free (acts : list haction) : Prop :=
  forallb (fun a => match ha_fault a with FNone => true | _ => false end) acts = true.

Lemma ff_hd : forall l, fault_free l -> ha_fault (hd default_action l) = FNone.
Proof.
  intros [|a r] H; [reflexivity|]. unfold fault_free in H. simpl in H.
  apply andb_true_iff in H. destruct H as [H _]. simpl.
  destruct (ha_fault a); [reflexivity|discriminate|discriminate].
Qed.

Lemma ff_tl : forall l, fault_free l -> fault_free (tl l).
Proof.
  intros [|a r] H; [exact H|]. unfold fault_free in *. simpl in *.
  apply andb_true_iff in H. tauto.
Qed.

Lemma ff_skipn : forall k l, fault_free l -> fault_free (skipn k l).
Proof.
  induction k as [|k IH]; intros l H; [exact H|].
  destruct l as [|a r]; [exact H|]. simpl. apply IH. exact (ff_tl _ H).
Qed.

Lemma skipn_skipn' : forall (A : Type) k1 k2 (l : list A),
  skipn k2 (skipn k1 l) = skipn (k1 + k2) l.
Proof.
  intros A k1. induction k1 as [|k1 IH]; intros k2 l; [reflexivity|].
  destruct l as [|a r]; simpl; [destruct k2; reflexivity | apply IH].
Qed.

Lemma In_skipn : forall (A : Type) k (l : list A) x, In x (skipn k l) -> In x l.
Proof.
  intros A k. induction k as [|k IH]; intros l x H; [exact H|].
  destruct l as [|a r]; [exact H|]. right. apply IH. exact H.
Qed.

Lemma skipn_1_tl : forall (A : Type) (l : list A), skipn 1 l = tl l.
Proof. intros A [|a r]; reflexivity. Qed.

(* ------------------------------------------------------------------ *)
(* membership helpers                                                  *)
(* ------------------------------------------------------------------ *)

Lemma mem_In : forall x l, mem x l = true <-> In x l.
Proof.
  intros x l. unfold mem. rewrite existsb_exists. split.
  - intros [y [Hy Heq]]. apply Nat.eqb_eq in Heq. subst. exact Hy.
  - intros Hin. exists x. split; [exact Hin | apply Nat.eqb_refl].
Qed.

Lemma mem_false : forall x l, mem x l = false <-> ~ In x l.
Proof.
  intros x l. split.
  - intros Hf Hin. apply mem_In in Hin. congruence.
  - intros Hn. destruct (mem x l) eqn:E; [|reflexivity].
    apply mem_In in E. contradiction.
Qed.

Lemma uniq_acc_In : forall l seen x,
  In x (uniq_acc seen l) <-> In x l /\ ~ In x seen.
Proof.
  induction l as [|y r IH]; intros seen x; simpl.
  - tauto.
  - destruct (mem y seen) eqn:E.
    + rewrite IH. apply mem_In in E. split.
      * intros [H1 H2]. tauto.
      * intros [[H1|H1] H2]; [subst; contradiction | tauto].
    + apply mem_false in E. simpl. rewrite IH. simpl. split.
      * intros [H|[H1 H2]]; [subst; tauto | tauto].
      * intros [[H1|H1] H2]; [tauto|].
        destruct (Nat.eq_dec y x) as [Heq|Hne]; [tauto|]. right. tauto.
Qed.

Lemma uniq_In : forall l x, In x (uniq l) <-> In x l.
Proof. intros l x. unfold uniq. rewrite uniq_acc_In. simpl. tauto. Qed.

Lemma uniq_acc_NoDup : forall l seen, NoDup (uniq_acc seen l).
Proof.
  induction l as [|y r IH]; intros seen; simpl.
  - constructor.
  - destruct (mem y seen) eqn:E.
    + apply IH.
    + constructor; [|apply IH].
      rewrite uniq_acc_In. simpl. tauto.
Qed.

Lemma uniq_NoDup : forall l, NoDup (uniq l).
Proof. intros l. apply uniq_acc_NoDup. Qed.

(* ------------------------------------------------------------------ *)
(* frames: what handler activity can touch                             *)
(* ------------------------------------------------------------------ *)

Definition qev (e : tev) : bool :=
  match e with EvQueued _ _ => true | _ => false end.

Record same_core (s s' : st) : Prop := {
  c_sc : sc s' = sc s; c_topo : topo s' = topo s; c_health : health s' = health s;
  c_exc : exc s' = exc s; c_bind : bindings s' = bindings s;
  c_qlimit : qlimit s' = qlimit s;
  c_clock : clock s' = clock s; c_active : active s' = active s;
  c_qtick : qtick s' = qtick s;
  c_txs : txs s' = txs s; c_crashed : crashed s' = crashed s;
  c_dead : loop_dead s' = loop_dead s; c_hung : hung s' = hung s
}.

Lemma same_core_refl : forall s, same_core s s.
Proof. intros s. constructor; reflexivity. Qed.

Lemma same_core_trans : forall s1 s2 s3,
  same_core s1 s2 -> same_core s2 s3 -> same_core s1 s3.
Proof. intros s1 s2 s3 [] []. constructor; congruence. Qed.

(* the mutation was produced by the call [c] (or names the Exception state) *)
Definition from_call (ex : nat) (c : api_call) (m : mutation) : Prop :=
  forall x, In x (mu_called m) -> In x (ac_states c) \/ x = ex.

(* the mutation was produced by a call of a remaining scripted action *)
Definition scripted (s : st) (m : mutation) : Prop :=
  exists a c, In a (actions s) /\ In c (ha_calls a) /\ from_call (exc s) c m.

Definition evs_grow (s s' : st) : Prop :=
  exists qs, evs s' = qs ++ evs s /\ forallb qev qs = true /\
             length (queue s') = length qs + length (queue s).

Lemma evs_grow_refl : forall s, evs_grow s s.
Proof. intros s. exists []. repeat split. Qed.

Lemma evs_grow_trans : forall s1 s2 s3, evs_grow s1 s2 -> evs_grow s2 s3 -> evs_grow s1 s3.
Proof.
  intros s1 s2 s3 [q1 [E1 [F1 L1]]] [q2 [E2 [F2 L2]]]. exists (q2 ++ q1).
  split; [rewrite E2, E1, app_assoc; reflexivity|].
  split; [rewrite forallb_app, F1, F2; reflexivity|].
  rewrite app_length. lia.
Qed.

(* one nested API call *)
Record nstep (c : api_call) (s s' : st) : Prop := {
  n_core : same_core s s';
  n_acts : actions s' = actions s;
  n_evs : evs_grow s s';
  n_q : forall m, In m (queue s') -> In m (queue s) \/ from_call (exc s) c m
}.

Lemma nstep_refl : forall c s, nstep c s s.
Proof.
  intros c s. constructor; [apply same_core_refl | reflexivity | apply evs_grow_refl |].
  intros m H. left. exact H.
Qed.

Lemma queue_mutation_nstep : forall c s mt states args,
  (forall x, In x states -> In x (ac_states c) \/ x = exc s) ->
  nstep c s (fst (queue_mutation s mt states args)).
Proof.
  intros c s mt states args Hst. unfold queue_mutation.
  destruct (_ && _ && _); [apply nstep_refl|].
  cbn [fst]. constructor.
  - constructor; reflexivity.
  - reflexivity.
  - exists [EvQueued false false]. unset. prj. repeat split.
    rewrite app_length. simpl. lia.
  - unset. prj. intros m Hin. apply in_app_or in Hin. destruct Hin as [Hin|[Hin|[]]].
    + left. exact Hin.
    + right. subst m. intros x Hx. cbn [mu_called] in Hx. apply (proj1 (uniq_In _ _)) in Hx.
      apply Hst. exact Hx.
Qed.

Lemma prepend_mut_nstep : forall c s m,
  from_call (exc s) c m -> nstep c s (prepend_mut s m).
Proof.
  intros c s m Hm. unfold prepend_mut. constructor.
  - constructor; reflexivity.
  - reflexivity.
  - exists [EvQueued (mu_auto m) (mu_check m)]. unset. prj. repeat split.
  - unset. prj. intros m' [Hin|Hin]; [right; subst; exact Hm | left; exact Hin].
Qed.

Lemma flags_nstep : forall c s d h e,
  d = loop_dead s -> h = hung s -> nstep c s (set_fault_flags s d h e).
Proof.
  intros c s d h e Hd Hh. subst. constructor.
  - constructor; reflexivity.
  - reflexivity.
  - exists []. repeat split.
  - intros m H. left. exact H.
Qed.

Lemma nstep_trans : forall c s1 s2 s3, nstep c s1 s2 -> nstep c s2 s3 -> nstep c s1 s3.
Proof.
  intros c s1 s2 s3 [C1 A1 E1 Q1] [C2 A2 E2 Q2]. constructor.
  - eapply same_core_trans; eassumption.
  - congruence.
  - eapply evs_grow_trans; eassumption.
  - intros m H. apply Q2 in H. destruct H as [H|H].
    + apply Q1. exact H.
    + right. rewrite <- (c_exc _ _ C1). exact H.
Qed.

Lemma nested_add_nstep : forall c s states args,
  (forall x, In x states -> In x (ac_states c) \/ x = exc s) ->
  nstep c s (fst (nested_add s states args)).
Proof.
  intros c s states args Hst. unfold nested_add.
  destruct (_ && _); [apply nstep_refl|].
  pose proof (queue_mutation_nstep c s MAdd states args Hst) as H.
  destruct (queue_mutation s MAdd states args) as [s1 tick]. cbn [fst] in H.
  destruct (tick =? 0)%N; exact H.
Qed.

Lemma nested_remove_nstep : forall c s states args,
  (forall x, In x states -> In x (ac_states c) \/ x = exc s) ->
  nstep c s (fst (nested_remove s states args)).
Proof.
  intros c s states args Hst. unfold nested_remove.
  destruct (_ && _); [apply nstep_refl|].
  destruct (_ && _); [apply nstep_refl|].
  pose proof (queue_mutation_nstep c s MRemove states args Hst) as H.
  destruct (queue_mutation s MRemove states args) as [s1 tick]. cbn [fst] in H.
  destruct (tick =? 0)%N; exact H.
Qed.

Lemma nested_set_nstep : forall c s states args,
  (forall x, In x states -> In x (ac_states c) \/ x = exc s) ->
  nstep c s (fst (nested_set s states args)).
Proof.
  intros c s states args Hst. unfold nested_set.
  destruct (limit_hit s); [apply nstep_refl|].
  pose proof (queue_mutation_nstep c s MSet states args Hst) as H.
  destruct (queue_mutation s MSet states args) as [s1 tick]. cbn [fst] in H.
  destruct (tick =? 0)%N; exact H.
Qed.

Lemma nested_api_nstep : forall c s, nstep c s (fst (nested_api s c)).
Proof.
  intros c s. unfold nested_api.
  assert (Hself : forall x, In x (ac_states c) -> In x (ac_states c) \/ x = exc s)
    by (intros x H; left; exact H).
  destruct (ac_kind c).
  - apply nested_add_nstep. exact Hself.
  - apply nested_remove_nstep. exact Hself.
  - apply nested_set_nstep. exact Hself.
  - destruct (mach_is s (ac_states c));
      [apply nested_remove_nstep | apply nested_add_nstep]; exact Hself.
  - destruct (limit_hit s); [apply nstep_refl|].
    eapply nstep_trans.
    + apply (flags_nstep c s (loop_dead s) (hung s) 1%N); reflexivity.
    + apply nested_add_nstep. intros x [Hx|[Hx|[]]]; right; subst; reflexivity.
  - cbn [fst]. apply prepend_mut_nstep. intros x Hx. left. exact Hx.
  - cbn [fst]. apply prepend_mut_nstep. intros x Hx. left. exact Hx.
Qed.

(* a sequence of nested calls *)
Record nsteps (cs : list api_call) (s s' : st) : Prop := {
  ns_core : same_core s s';
  ns_acts : actions s' = actions s;
  ns_evs : evs_grow s s';
  ns_q : forall m, In m (queue s') ->
         In m (queue s) \/ exists c, In c cs /\ from_call (exc s) c m
}.

Lemma run_calls_nsteps : forall cs s, nsteps cs s (fst (run_calls s cs)).
Proof.
  induction cs as [|c r IH]; intros s.
  - cbn [run_calls fst]. constructor;
      [apply same_core_refl | reflexivity | apply evs_grow_refl | intros m H; left; exact H].
  - cbn [run_calls]. pose proof (nested_api_nstep c s) as H1.
    destruct (nested_api s c) as [s1 res]. cbn [fst] in H1.
    pose proof (IH s1) as H2. destruct (run_calls s1 r) as [s2 rs]. cbn [fst] in *.
    destruct H1 as [C1 A1 E1 Q1]. destruct H2 as [C2 A2 E2 Q2]. constructor.
    + eapply same_core_trans; eassumption.
    + congruence.
    + eapply evs_grow_trans; eassumption.
    + intros m H. apply Q2 in H. destruct H as [H|[c' [Hc' H]]].
      * apply Q1 in H. destruct H as [H|H]; [left; exact H|].
        right. exists c. split; [left; reflexivity | exact H].
      * right. exists c'. split; [right; exact Hc'|].
        rewrite <- (c_exc _ _ C1). exact H.
Qed.

(* handler activity *)
Record hstep (s s' : st) : Prop := {
  h_core : same_core s s';
  h_acts : exists k, actions s' = skipn k (actions s);
  h_evs : evs_grow s s';
  h_q : forall m, In m (queue s') -> In m (queue s) \/ scripted s m
}.

Lemma hstep_refl : forall s, hstep s s.
Proof.
  intros s. constructor;
    [apply same_core_refl | exists 0; reflexivity | apply evs_grow_refl | intros m H; left; exact H].
Qed.

Lemma scripted_mono : forall s1 s2 m,
  exc s2 = exc s1 -> (exists k, actions s2 = skipn k (actions s1)) ->
  scripted s2 m -> scripted s1 m.
Proof.
  intros s1 s2 m He [k Hk] [a [c [Ha [Hc Hf]]]]. exists a, c.
  split; [|split; [exact Hc | rewrite <- He; exact Hf]].
  rewrite Hk in Ha. eapply In_skipn. exact Ha.
Qed.

Lemma hstep_trans : forall s1 s2 s3, hstep s1 s2 -> hstep s2 s3 -> hstep s1 s3.
Proof.
  intros s1 s2 s3 [C1 A1 E1 Q1] [C2 A2 E2 Q2]. constructor.
  - eapply same_core_trans; eassumption.
  - destruct A1 as [k1 A1]. destruct A2 as [k2 A2]. exists (k1 + k2).
    rewrite A2, A1. apply skipn_skipn'.
  - eapply evs_grow_trans; eassumption.
  - intros m H. apply Q2 in H. destruct H as [H|H].
    + apply Q1. exact H.
    + right. eapply scripted_mono; [exact (c_exc _ _ C1) | exact A1 | exact H].
Qed.

Lemma hstep_ff : forall s s', hstep s s' -> fault_free (actions s) -> fault_free (actions s').
Proof. intros s s' [_ [k Hk] _ _] H. rewrite Hk. apply ff_skipn. exact H. Qed.

(* one handler invocation: pop the action, run its calls, log it *)
Lemma invoke_hstep : forall s e1,
  let a := hd default_action (actions s) in
  let s0 := set_actions s (tl (actions s)) in
  let s1 := fst (run_calls s0 (ha_calls a)) in
  hstep s (set_hlog s1 (e1 :: hlog s1)).
Proof.
  intros s e1 a s0 s1.
  pose proof (run_calls_nsteps (ha_calls a) s0) as H. fold s1 in H.
  destruct H as [C A E Q].
  unfold evs_grow in E. unfold s0, set_actions in C, A, E, Q. prj_in A. prj_in E. prj_in Q.
  constructor.
  - destruct C as [C1 C2 C3 C4 C5 C6 C7 C8 C9 C10 C11 C12 C13].
    prj_in C1. prj_in C2. prj_in C3. prj_in C4.
    prj_in C5. prj_in C6. prj_in C7. prj_in C8. prj_in C9. prj_in C10. prj_in C11.
    prj_in C12. prj_in C13.
    constructor; unset; prj; assumption.
  - exists 1. unset. prj. rewrite A. symmetry. apply skipn_1_tl.
  - destruct E as [qs [E1 [E2 E3]]]. exists qs. unset. prj. repeat split; assumption.
  - unset. prj. intros m Hm. apply Q in Hm. destruct Hm as [Hm|[c [Hc Hf]]].
    + left. exact Hm.
    + right. exists a, c. split; [|split; [exact Hc | exact Hf]].
      unfold a in *. destruct (actions s) as [|a0 r]; [destruct Hc | left; reflexivity].
Qed.

Lemma call_bindings_ff : forall bs s t k bi,
  fault_free (actions s) -> loop_dead s = false ->
  exists s' ok,
    call_bindings s t k bs bi false false
      = (s', {| hr_ok := ok; hr_invalidated := false |}) /\
    hstep s s' /\ (is_final_key k = true -> ok = true).
Proof.
  induction bs as [|b rest IH]; intros s t k bi Hff Hdead.
  - exists s, true. cbn [call_bindings]. split; [reflexivity|]. split; [apply hstep_refl|]. reflexivity.
  - cbn [call_bindings]. destruct (existsb (hkey_eqb k) b).
    + rewrite Hdead.
      pose proof (invoke_hstep s) as Hinv. cbv zeta in Hinv.
      destruct (run_calls (set_actions s (tl (actions s)))
                          (ha_calls (hd default_action (actions s)))) as [s1 rs] eqn:Erc.
      cbn [fst] in Hinv. rewrite (ff_hd _ Hff).
      match goal with
      | |- context [set_hlog s1 (?e :: hlog s1)] => specialize (Hinv e); set (s2 := set_hlog s1 (e :: hlog s1)) in *
      end.
      destruct (negb (is_final_key k) && negb (ha_ret (hd default_action (actions s)))) eqn:Eneg.
      * exists s2, false. split; [reflexivity|]. split; [exact Hinv|].
        intros Hfin. rewrite Hfin in Eneg. discriminate.
      * destruct (IH s2 t k (S bi)) as [s' [ok [Heq [Hst Hok]]]].
        -- eapply hstep_ff; eassumption.
        -- rewrite (c_dead _ _ (h_core _ _ Hinv)). exact Hdead.
        -- exists s', ok. split; [exact Heq|]. split; [|exact Hok].
           eapply hstep_trans; eassumption.
    + apply IH; assumption.
Qed.

Lemma handle_ff : forall s t k,
  fault_free (actions s) -> loop_dead s = false -> t_invalid t = false ->
  exists s' ok, handle s t k = (s', t, ok) /\ hstep s s' /\
                (is_final_key k = true -> ok = true).
Proof.
  intros s t k Hff Hdead Hinv. unfold handle. rewrite Hinv.
  destruct (call_bindings_ff (bindings s) s t k 0 Hff Hdead) as [s' [ok [Heq [Hst Hok]]]].
  rewrite Heq. exists s', ok. cbn [hr_invalidated hr_ok].
  split; [reflexivity|]. split; assumption.
Qed.

(* ------------------------------------------------------------------ *)
(* the in-flight transition during negotiation                         *)
(* ------------------------------------------------------------------ *)

Record trel (t t' : tstate) : Prop := {
  tl_mut : t_mut t' = t_mut t; tl_before : t_before t' = t_before t;
  tl_cb : t_clock_before t' = t_clock_before t; tl_enters : t_enters t' = t_enters t;
  tl_exits : t_exits t' = t_exits t; tl_acc : t_accepted t' = t_accepted t;
  tl_inv : t_invalid t' = t_invalid t;
  tl_incl : forall x, In x (t_target t') -> In x (t_target t);
  tl_na : mu_auto (t_mut t) = false -> t_target t' = t_target t
}.

Lemma trel_refl : forall t, trel t t.
Proof. intros t. constructor; try reflexivity. intros x H. exact H. Qed.

Lemma trel_trans : forall t1 t2 t3, trel t1 t2 -> trel t2 t3 -> trel t1 t3.
Proof.
  intros t1 t2 t3 [M1 B1 C1 E1 X1 A1 I1 L1 N1] [M2 B2 C2 E2 X2 A2 I2 L2 N2].
  constructor; try congruence.
  - intros x H. apply L1. apply L2. exact H.
  - intros H. rewrite N2; [apply N1; exact H | rewrite M1; exact H].
Qed.

Lemma without_In : forall l x y, In y (without l x) -> In y l.
Proof.
  induction l as [|z r IH]; intros x y H; simpl in H; [exact H|].
  destruct (Nat.eqb x z).
  - right. exact H.
  - destruct H as [H|H]; [left; exact H | right; eapply IH; exact H].
Qed.

Lemma trel_del : forall t x, mu_auto (t_mut t) = true ->
  trel t (with_target t (delete_state (t_target t) x)).
Proof.
  intros t x Ha. constructor; try reflexivity.
  - cbn [with_target t_target]. intros y H. eapply without_In. exact H.
  - intros H. congruence.
Qed.

Definition ready (s : st) (t : tstate) : Prop :=
  fault_free (actions s) /\ loop_dead s = false /\ hung s = false /\ t_invalid t = false.

Lemma ready_step : forall s t s' t', ready s t -> hstep s s' -> trel t t' -> ready s' t'.
Proof.
  intros s t s' t' [Hff [Hd [Hh Hi]]] Hst Htr. split; [eapply hstep_ff; eassumption|].
  destruct Hst as [C _ _ _]. rewrite (c_dead _ _ C), (c_hung _ _ C), (tl_inv _ _ Htr).
  repeat split; assumption.
Qed.

Definition neg_ok (s : st) (t : tstate) (res : st * tstate * nres) : Prop :=
  let '(s', t', nr) := res in
  hstep s s' /\ trel t t' /\ (nr = NCrash -> mu_auto (t_mut t) = true).

Lemma neg_ok_trans : forall s t s1 t1 res,
  hstep s s1 -> trel t t1 -> neg_ok s1 t1 res -> neg_ok s t res.
Proof.
  intros s t s1 t1 [[s' t'] nr] Hst Htr [H1 [H2 H3]]. cbn [neg_ok].
  split; [eapply hstep_trans; eassumption|].
  split; [eapply trel_trans; eassumption|].
  intros Hn. rewrite <- (tl_mut _ _ Htr). apply H3. exact Hn.
Qed.

Lemma neg_ok_here : forall s t nr, nr <> NCrash -> neg_ok s t (s, t, nr).
Proof.
  intros s t nr Hn. cbn [neg_ok]. split; [apply hstep_refl|]. split; [apply trel_refl|].
  intros H. contradiction.
Qed.

Lemma handle_ready : forall s t k, ready s t ->
  exists s' ok, handle s t k = (s', t, ok) /\ hstep s s' /\ hung s' = false /\
                (is_final_key k = true -> ok = true).
Proof.
  intros s t k [Hff [Hd [Hh Hi]]].
  destruct (handle_ff s t k Hff Hd Hi) as [s' [ok [Heq [Hst Hok]]]].
  exists s', ok. split; [exact Heq|]. split; [exact Hst|]. split; [|exact Hok].
  rewrite (c_hung _ _ (h_core _ _ Hst)). exact Hh.
Qed.

Lemma emit_exits_ff : forall l s t, ready s t -> neg_ok s t (emit_exits s t l).
Proof.
  induction l as [|x r IH]; intros s t Hr.
  - cbn [emit_exits]. apply neg_ok_here. discriminate.
  - cbn [emit_exits].
    destruct (handle_ready s t (HExit x) Hr) as [s1 [ok [Heq [Hst [Hh _]]]]].
    rewrite Heq, Hh.
    assert (Hr1 : ready s1 t) by (eapply ready_step; [exact Hr | exact Hst | apply trel_refl]).
    destruct ok.
    + eapply neg_ok_trans; [exact Hst | apply trel_refl | apply IH; exact Hr1].
    + destruct (mu_auto (t_mut t) && is_auto_state s x) eqn:Ea.
      * apply andb_true_iff in Ea. destruct Ea as [Ea _].
        destruct (mem x (t_target t)).
        -- eapply neg_ok_trans; [exact Hst | apply trel_del; exact Ea |].
           apply IH. eapply ready_step; [exact Hr1 | apply hstep_refl | apply trel_del; exact Ea].
        -- eapply neg_ok_trans; [exact Hst | apply trel_refl | apply neg_ok_here; discriminate].
      * eapply neg_ok_trans; [exact Hst | apply trel_refl | apply neg_ok_here; discriminate].
Qed.

Lemma emit_enters_ff : forall l s t, ready s t -> neg_ok s t (emit_enters s t l).
Proof.
  induction l as [|x r IH]; intros s t Hr.
  - cbn [emit_enters]. apply neg_ok_here. discriminate.
  - cbn [emit_enters].
    destruct (handle_ready s t (HEnter x) Hr) as [s1 [ok [Heq [Hst [Hh _]]]]].
    rewrite Heq, Hh.
    assert (Hr1 : ready s1 t) by (eapply ready_step; [exact Hr | exact Hst | apply trel_refl]).
    destruct ok.
    + eapply neg_ok_trans; [exact Hst | apply trel_refl | apply IH; exact Hr1].
    + destruct (mu_auto (t_mut t) && is_auto_state s x) eqn:Ea.
      * apply andb_true_iff in Ea. destruct Ea as [Ea _].
        destruct (mem x (t_target t)).
        -- eapply neg_ok_trans; [exact Hst | apply trel_del; exact Ea |].
           apply IH. eapply ready_step; [exact Hr1 | apply hstep_refl | apply trel_del; exact Ea].
        -- cbn [neg_ok]. split; [exact Hst|]. split; [apply trel_refl|]. intros _. exact Ea.
      * eapply neg_ok_trans; [exact Hst | apply trel_refl | apply neg_ok_here; discriminate].
Qed.

Lemma emit_selfs_ff : forall fuel s t arr i last,
  ready s t -> neg_ok s t (emit_selfs fuel s t arr i last).
Proof.
  induction fuel as [|f IH]; intros s t arr i last Hr.
  - cbn [emit_selfs]. apply neg_ok_here. destruct last; discriminate.
  - cbn [emit_selfs]. destruct (nth_error arr i) as [[x|]|].
    + destruct (negb (is_active s x)); [apply IH; exact Hr|].
      destruct (handle_ready s t (HSelf x) Hr) as [s1 [ok [Heq [Hst [Hh _]]]]].
      rewrite Heq, Hh.
      assert (Hr1 : ready s1 t) by (eapply ready_step; [exact Hr | exact Hst | apply trel_refl]).
      destruct ok.
      * eapply neg_ok_trans; [exact Hst | apply trel_refl | apply IH; exact Hr1].
      * destruct (mu_auto (t_mut t) && is_auto_state s x) eqn:Ea.
        -- apply andb_true_iff in Ea. destruct Ea as [Ea _].
           destruct (mem x (t_target t)).
           ++ eapply neg_ok_trans; [exact Hst | apply trel_del; exact Ea |].
              apply IH.
              eapply ready_step; [exact Hr1 | apply hstep_refl | apply trel_del; exact Ea].
           ++ cbn [neg_ok]. split; [exact Hst|]. split; [apply trel_refl|]. intros _. exact Ea.
        -- eapply neg_ok_trans; [exact Hst | apply trel_refl | apply neg_ok_here; discriminate].
    + apply IH. exact Hr.
    + apply neg_ok_here. destruct last; discriminate.
Qed.

Lemma emit_trans_inner_ff : forall after s t b,
  ready s t -> neg_ok s t (emit_trans_inner s t b after).
Proof.
  induction after as [|a r IH]; intros s t b Hr.
  - cbn [emit_trans_inner]. apply neg_ok_here. discriminate.
  - cbn [emit_trans_inner]. destruct (Nat.eqb b a); [apply IH; exact Hr|].
    destruct (handle_ready s t (HTrans b a) Hr) as [s1 [ok [Heq [Hst [Hh _]]]]].
    rewrite Heq, Hh.
    assert (Hr1 : ready s1 t) by (eapply ready_step; [exact Hr | exact Hst | apply trel_refl]).
    destruct ok.
    + eapply neg_ok_trans; [exact Hst | apply trel_refl | apply IH; exact Hr1].
    + destruct (mu_auto (t_mut t) && is_auto_state s a) eqn:Ea.
      * apply andb_true_iff in Ea. destruct Ea as [Ea _].
        eapply neg_ok_trans; [exact Hst | apply trel_del; exact Ea |].
        apply IH. eapply ready_step; [exact Hr1 | apply hstep_refl | apply trel_del; exact Ea].
      * eapply neg_ok_trans; [exact Hst | apply trel_refl | apply neg_ok_here; discriminate].
Qed.

Lemma neg_ok_ready : forall s t s' t' nr,
  ready s t -> neg_ok s t (s', t', nr) -> ready s' t'.
Proof. intros s t s' t' nr Hr [H1 [H2 _]]. eapply ready_step; eassumption. Qed.

Lemma emit_trans_ff : forall before s t after,
  ready s t -> neg_ok s t (emit_trans s t before after).
Proof.
  induction before as [|b r IH]; intros s t after Hr.
  - cbn [emit_trans]. apply neg_ok_here. discriminate.
  - cbn [emit_trans]. pose proof (emit_trans_inner_ff after s t b Hr) as H1.
    destruct (emit_trans_inner s t b after) as [[s1 t1] nr].
    destruct nr; try exact H1.
    destruct H1 as [Ha [Hb _]].
    eapply neg_ok_trans; [exact Ha | exact Hb |]. apply IH.
    eapply ready_step; eassumption.
Qed.

Lemma negotiate_ff : forall s t, ready s t -> neg_ok s t (negotiate s t).
Proof.
  intros s t Hr. unfold negotiate.
  pose proof (emit_exits_ff (t_exits t) s t Hr) as H1.
  destruct (emit_exits s t (t_exits t)) as [[s1 t1] nr1].
  destruct nr1; try exact H1.
  assert (Hr1 : ready s1 t1) by (eapply neg_ok_ready; eassumption).
  destruct H1 as [Ha1 [Hb1 _]].
  eapply neg_ok_trans; [exact Ha1 | exact Hb1 |].
  pose proof (emit_enters_ff (t_enters t1) s1 t1 Hr1) as H2.
  destruct (emit_enters s1 t1 (t_enters t1)) as [[s2 t2] nr2].
  destruct nr2; try exact H2.
  assert (Hr2 : ready s2 t2) by (eapply neg_ok_ready; eassumption).
  destruct H2 as [Ha2 [Hb2 _]].
  eapply neg_ok_trans; [exact Ha2 | exact Hb2 |].
  assert (H3 : neg_ok s2 t2
            match mu_type (t_mut t2) with
            | MRemove => (s2, t2, NOk)
            | _ => emit_selfs (S (length (t_target t2))) s2 t2 (map Some (t_target t2)) 0 true
            end).
  { destruct (mu_type (t_mut t2)); try (apply emit_selfs_ff; exact Hr2).
    apply neg_ok_here. discriminate. }
  destruct (match mu_type (t_mut t2) with
            | MRemove => (s2, t2, NOk)
            | _ => emit_selfs (S (length (t_target t2))) s2 t2 (map Some (t_target t2)) 0 true
            end) as [[s3 t3] nr3].
  destruct nr3; try exact H3.
  assert (Hr3 : ready s3 t3) by (eapply neg_ok_ready; eassumption).
  destruct H3 as [Ha3 [Hb3 _]].
  eapply neg_ok_trans; [exact Ha3 | exact Hb3 |].
  apply emit_trans_ff. exact Hr3.
Qed.

Lemma emit_finals_ff : forall l s t, ready s t ->
  exists s', emit_finals s t l = (s', t, None) /\ hstep s s'.
Proof.
  induction l as [|x r IH]; intros s t Hr.
  - exists s. split; [reflexivity | apply hstep_refl].
  - cbn [emit_finals].
    destruct (handle_ready s t (if mem x (t_enters t) then HState x else HEnd x) Hr)
      as [s1 [ok [Heq [Hst [Hh Hok]]]]].
    rewrite Heq. rewrite Hok; [|destruct (mem x (t_enters t)); reflexivity].
    destruct (IH s1 t) as [s' [Heq' Hst']].
    + eapply ready_step; [exact Hr | exact Hst | apply trel_refl].
    + exists s'. split; [exact Heq' | eapply hstep_trans; eassumption].
Qed.

(* ------------------------------------------------------------------ *)
(* resolver facts                                                      *)
(* ------------------------------------------------------------------ *)

Lemma ins_perm : forall (A : Type) (less : A -> A -> bool) x rp,
  Permutation (ins less x rp) (x :: rp).
Proof.
  intros A less x rp. induction rp as [|p r IH]; simpl.
  - apply Permutation_refl.
  - destruct (less x p).
    + apply Permutation_trans with (p :: x :: r).
      * apply perm_skip. exact IH.
      * apply perm_swap.
    + apply Permutation_refl.
Qed.

Lemma fold_ins_perm : forall (A : Type) (less : A -> A -> bool) l acc,
  Permutation (fold_left (fun a x => ins less x a) l acc) (l ++ acc).
Proof.
  intros A less l. induction l as [|x r IH]; intros acc; simpl.
  - apply Permutation_refl.
  - apply Permutation_trans with (r ++ ins less x acc); [apply IH|].
    apply Permutation_trans with (r ++ x :: acc).
    + apply Permutation_app_head. apply ins_perm.
    + apply Permutation_sym. apply Permutation_middle.
Qed.

Lemma go_insertion_sort_perm : forall (A : Type) (less : A -> A -> bool) l,
  Permutation (go_insertion_sort less l) l.
Proof.
  intros A less l. unfold go_insertion_sort.
  apply Permutation_trans with (fold_left (fun a x => ins less x a) l []).
  - apply Permutation_sym. apply Permutation_rev.
  - pose proof (fold_ins_perm A less l []) as H. rewrite app_nil_r in H. exact H.
Qed.

Lemma sort_states_perm : forall sc topo l, Permutation (sort_states sc topo l) l.
Proof.
  intros sc topo l. unfold sort_states.
  eapply Permutation_trans; apply go_insertion_sort_perm.
Qed.

Lemma sort_states_In : forall sc topo l x, In x (sort_states sc topo l) <-> In x l.
Proof.
  intros sc topo l x. split; apply Permutation_in.
  - apply sort_states_perm.
  - apply Permutation_sym. apply sort_states_perm.
Qed.

Lemma sort_states_NoDup : forall sc topo l, NoDup l -> NoDup (sort_states sc topo l).
Proof.
  intros sc topo l Hnd. eapply Permutation_NoDup; [|exact Hnd].
  apply Permutation_sym. apply sort_states_perm.
Qed.

Lemma parse_require_fuel_incl : forall fuel sc states x,
  In x (parse_require_fuel fuel sc states) -> In x states.
Proof.
  induction fuel as [|f IH]; intros sc states x; simpl; [tauto|].
  destruct (Nat.eqb _ _); [tauto|].
  intros Hin. apply IH in Hin. apply filter_In in Hin. tauto.
Qed.

Lemma parse_require_fuel_NoDup : forall fuel sc states,
  NoDup states -> NoDup (parse_require_fuel fuel sc states).
Proof.
  induction fuel as [|f IH]; intros sc states Hnd; simpl; [exact Hnd|].
  destruct (Nat.eqb _ _); [exact Hnd|].
  apply IH. apply NoDup_filter. exact Hnd.
Qed.

Lemma scan_fold_incl : forall sc all l kept ab x,
  In x (fst (fold_left (scan_step sc all) l (kept, ab))) -> In x kept \/ In x l.
Proof.
  intros sc all l. induction l as [|name r IH]; intros kept ab x H.
  - left. exact H.
  - cbn [fold_left] in H. unfold scan_step at 2 in H.
    destruct (filter (fun b => negb (mem b ab)) (blocked_by sc all name)).
    + apply IH in H. destruct H as [H|H]; [|right; right; exact H].
      apply in_app_or in H. destruct H as [H|[H|[]]]; [left; exact H | right; left; exact H].
    + apply IH in H. destruct H as [H|H]; [left; exact H | right; right; exact H].
Qed.

Lemma blocked_scan_incl : forall sc all x, In x (blocked_scan sc all) -> In x all.
Proof.
  intros sc all x H. unfold blocked_scan in H. apply scan_fold_incl in H.
  destruct H as [[]|H]. apply in_rev. exact H.
Qed.

Lemma parse_add_loop_In : forall c l visited x,
  In x (parse_add_loop c visited l) -> exists a, In x (add_of c a).
Proof.
  intros c l. induction l as [|name r IH]; intros visited x Hin; simpl in Hin; [contradiction|].
  destruct (mem name (rc_before c) && negb (s_multi (sget (rc_schema c) name))).
  - eapply IH. exact Hin.
  - destruct (mem name visited).
    + eapply IH. exact Hin.
    + destruct (add_of c name) as [|n adds] eqn:E2.
      * eapply IH. exact Hin.
      * change (In x ((n :: adds) ++ parse_add_loop c (name :: visited) r)) in Hin.
        apply in_app_or in Hin. destruct Hin as [Hin|Hin].
        -- exists name. rewrite E2. exact Hin.
        -- eapply IH. exact Hin.
Qed.

Lemma parse_add_In : forall c l x,
  In x (parse_add c l) -> In x l \/ exists a, In x (add_of c a).
Proof.
  intros c l x Hin. unfold parse_add in Hin. apply in_app_or in Hin.
  destruct Hin as [Hin|Hin]; [left; exact Hin|]. right.
  eapply parse_add_loop_In. exact Hin.
Qed.

Lemma target_states_In : forall c ts x,
  In x (target_states c ts) -> In x ts \/ exists a, In x (add_of c a).
Proof.
  intros c ts x H. unfold target_states in H. apply sort_states_In in H.
  unfold target_unsorted in H. apply parse_require_fuel_incl in H.
  apply in_rev in H. apply (proj1 (uniq_In _ _)) in H. apply filter_In in H.
  destruct H as [H _]. apply parse_add_In in H. destruct H as [H|H]; [|right; exact H].
  apply blocked_scan_incl in H. apply parse_require_fuel_incl in H.
  apply (proj1 (uniq_In _ _)) in H. apply parse_add_In in H.
  destruct H as [H|H]; [|right; exact H].
  left. apply (proj1 (uniq_In _ _)) in H. exact H.
Qed.

Lemma target_states_NoDup : forall c ts, NoDup (target_states c ts).
Proof.
  intros c ts. unfold target_states. apply sort_states_NoDup.
  unfold target_unsorted. apply parse_require_fuel_NoDup. apply NoDup_rev. apply uniq_NoDup.
Qed.

Lemma add_of_In : forall c a x, In x (add_of c a) ->
  In x (s_add (sget (rc_schema c) a)) /\
  (rc_mtype c = MRemove -> ~ In x (rc_called c)).
Proof.
  intros c a x Hin. unfold add_of in Hin. apply filter_In in Hin.
  destruct Hin as [Hadd Hf]. split; [exact Hadd|].
  intros Hmt Hc. rewrite Hmt in Hf. simpl in Hf.
  apply mem_In in Hc. rewrite Hc in Hf. discriminate.
Qed.

(* a Remove never keeps or gains a state it was called to remove *)
Lemma remove_target_not_called : forall c act x,
  rc_mtype c = MRemove ->
  In x (target_states c (states_to_set MRemove (rc_called c) act)) ->
  In x (rc_called c) -> False.
Proof.
  intros c act x Hmt Hin Hc. apply target_states_In in Hin.
  destruct Hin as [Hin|[a Hin]].
  - cbn [states_to_set] in Hin. apply filter_In in Hin. destruct Hin as [_ Hn].
    apply negb_true_iff in Hn. apply mem_false in Hn. contradiction.
  - apply add_of_In in Hin. destruct Hin as [_ Hn]. exact (Hn Hmt Hc).
Qed.

Lemma refs_ok_add : forall sc a x,
  refs_ok sc = true -> In x (s_add (sget sc a)) -> x < length sc.
Proof.
  intros sc a x Hr Hin. unfold sget in Hin.
  destruct (lt_dec a (length sc)) as [Hlt|Hge].
  - unfold refs_ok in Hr. rewrite forallb_forall in Hr.
    specialize (Hr (nth a sc empty_sdef) (nth_In _ _ Hlt)).
    rewrite forallb_forall in Hr. apply Nat.ltb_lt. apply Hr.
    apply in_or_app. right. apply in_or_app. left. exact Hin.
  - rewrite nth_overflow in Hin by lia. destruct Hin.
Qed.

(* ------------------------------------------------------------------ *)
(* run_tx cut into phases                                              *)
(* ------------------------------------------------------------------ *)

Definition ph_neg (s : st) (t0 : tstate) : st * tstate * nres :=
  if has_handlers s && negb (negb (t_accepted t0)) then negotiate s t0 else (s, t0, NOk).

Definition ph_anyenter (s s1 : st) (t1 : tstate) (canceled2 : bool) : st * tstate * bool :=
  if has_handlers s && negb canceled2 then
    let '(sx, tx, ok) := handle s1 t1 HAnyEnter in (sx, tx, negb ok)
  else (s1, t1, canceled2).

Definition requery (s2 : st) (mu : mutation) (t1 : tstate) : tstate :=
  if mu_auto mu then
    let called := mu_called mu in
    let rejected := diff called (t_target t1) in
    let clean := diff called rejected in
    let tg := target_states (rctx_of s2 t1) (states_to_set MAdd clean (active s2)) in
    with_exit_enter (sc s2) (topo s2) (active s2) (with_target t1 tg)
  else t1.

Definition fin_check (hfrom : nat) (mu : mutation) (s2 : st) (t1 : tstate) (canceled3 : bool)
  : st * result :=
  let acc := t_accepted t1 && negb canceled3 in
  let rec := {| tx_type := mu_type mu; tx_called := mu_called mu; tx_auto := mu_auto mu;
                tx_check := true; tx_qtick := mu_qtick mu;
                tx_before := t_clock_before t1; tx_after := t_clock_before t1;
                tx_active_before := t_before t1; tx_target := t_target t1;
                tx_accepted := acc; tx_mach_after := clock s2;
                tx_hfrom := hfrom; tx_hto := length (hlog s2) |} in
  (add_ev (add_tx s2 rec) EvEnd, if canceled3 then Canceled else Executed).

Definition fin_cancel (hfrom : nat) (mu : mutation) (s2 : st) (t2 : tstate) : st * result :=
  let rec := {| tx_type := mu_type mu; tx_called := mu_called mu; tx_auto := mu_auto mu;
                tx_check := false; tx_qtick := mu_qtick mu;
                tx_before := t_clock_before t2; tx_after := clock s2;
                tx_active_before := t_before t2; tx_target := t_target t2;
                tx_accepted := false; tx_mach_after := clock s2;
                tx_hfrom := hfrom; tx_hto := length (hlog s2) |} in
  (add_ev (add_tx s2 rec) EvEnd, Canceled).

Definition ph_finals (s3 : st) (t2 : tstate) : st * tstate * bool :=
  if has_handlers s3 then
    match emit_finals s3 t2 (t_exits t2 ++ t_enters t2) with
    | (sx, tx, Some k) => (if hung sx then sx else recover_final_phase sx tx k, tx, true)
    | (sx, tx, None) => (sx, tx, false)
    end
  else (s3, t2, false).

Definition ph_anystate (s4 : st) (t3 : tstate) (fcancel : bool) : st * tstate * bool :=
  if has_handlers s4 && negb fcancel then
    let '(sx, tx, ok) := handle s4 t3 HAnyState in (sx, tx, negb ok)
  else (s4, t3, fcancel).

Definition fin_apply (hfrom : nat) (mu : mutation) (s2 : st) (t2 : tstate) : st * result :=
  let cl := set_active_clock (sc s2) (clock s2) (active s2) (mu_called mu) (t_target t2) in
  let s3 := add_ev (set_mach s2 cl (t_target t2)) EvFinals in
  let '(s4, t3, fcancel) := ph_finals s3 t2 in
  if hung s4 then (s4, Canceled) else
  let changed := negb (nclock_eqb (clock s4) (t_clock_before t3)) in
  let '(s5, t4, fcancel2) := ph_anystate s4 t3 fcancel in
  if hung s5 then (s5, Canceled) else
  let s6 := if negb fcancel2 && changed && negb (mu_auto mu) && negb (is_health s5 mu)
            then prepend_auto s5 else s5 in
  let res :=
    if fcancel2 then Canceled else
    match mu_type mu with
    | MRemove => if mach_not s6 (mu_called mu) then Executed else Canceled
    | _ => if mu_auto mu then
             (if length (t_before t4) <? length (t_target t4) then Executed else Canceled)
           else (if mach_is s6 (t_target t4) then Executed else Canceled)
    end in
  let rec := {| tx_type := mu_type mu; tx_called := mu_called mu; tx_auto := mu_auto mu;
                tx_check := false; tx_qtick := mu_qtick mu;
                tx_before := t_clock_before t4; tx_after := cl;
                tx_active_before := t_before t4; tx_target := t_target t4;
                tx_accepted := t_accepted t4 && negb fcancel2; tx_mach_after := clock s6;
                tx_hfrom := hfrom; tx_hto := length (hlog s6) |} in
  (add_ev (add_tx s6 rec) EvEnd, res).

Definition run_tx' (s : st) (mu : mutation) : st * result :=
  let hfrom := length (hlog s) in
  let t0 := new_transition s mu in
  let s := add_ev (add_ev s EvInit) EvStart in
  let canceled0 := negb (t_accepted t0) in
  let '(s1, t1, nr) := ph_neg s t0 in
  match nr with
  | NCrash => (set_crashed s1, Canceled)
  | _ =>
    if hung s1 then (s1, Canceled) else
    let canceled1 := canceled0 || match nr with NCancel => true | _ => false end in
    let canceled2 :=
      if has_handlers s then
        canceled1 || (mu_auto mu && Nat.eqb (length (t_target t1)) 0)
      else canceled1 in
    let '(s2, t1, canceled3) := ph_anyenter s s1 t1 canceled2 in
    if hung s2 then (s2, Canceled) else
    if mu_check mu then fin_check hfrom mu s2 t1 canceled3
    else
      let t2 := requery s2 mu t1 in
      if negb canceled3 then fin_apply hfrom mu s2 t2 else fin_cancel hfrom mu s2 t2
  end.

Lemma run_tx_eq : forall s mu, run_tx s mu = run_tx' s mu.
Proof. reflexivity. Qed.

(* ------------------------------------------------------------------ *)
(* what one fault-free transition does                                 *)
(* ------------------------------------------------------------------ *)

Definition fin_of (r : txrec) : bool := tx_accepted r && negb (tx_check r).

Record tx_ok (s : st) (mu : mutation) (s' : st) (r : result) (rec : txrec) : Prop := {
  to_sc : sc s' = sc s; to_topo : topo s' = topo s; to_health : health s' = health s;
  to_exc : exc s' = exc s; to_bind : bindings s' = bindings s;
  to_qlimit : qlimit s' = qlimit s; to_qtick : qtick s' = qtick s;
  to_crashed : crashed s' = crashed s; to_dead : loop_dead s' = loop_dead s;
  to_hung : hung s' = hung s;
  to_acts : exists k, actions s' = skipn k (actions s);
  to_txs : txs s' = rec :: txs s;
  to_type : tx_type rec = mu_type mu; to_called : tx_called rec = mu_called mu;
  to_auto : tx_auto rec = mu_auto mu; to_check : tx_check rec = mu_check mu;
  to_rqtick : tx_qtick rec = mu_qtick mu;
  to_before : tx_before rec = clock s; to_abefore : tx_active_before rec = active s;
  to_after : tx_after rec = clock s'; to_mafter : tx_mach_after rec = clock s';
  to_evs : exists qs1 qs2,
    evs s' = EvEnd :: qs2 ++ (if fin_of rec then [EvFinals] else []) ++ qs1
             ++ EvStart :: EvInit :: evs s /\
    forallb qev qs1 = true /\ forallb qev qs2 = true /\
    length (queue s') = length qs2 + length qs1 + length (queue s);
  to_nofin : fin_of rec = false -> clock s' = clock s /\ active s' = active s;
  to_fin : fin_of rec = true ->
    active s' = tx_target rec /\
    clock s' = set_active_clock (sc s) (clock s) (active s) (mu_called mu) (tx_target rec);
  to_res : r = Executed \/ r = Canceled;
  to_res_acc : r = Executed -> tx_accepted rec = true;
  to_res_na : mu_auto mu = false -> tx_accepted rec = true -> r = Executed;
  to_target_na : mu_auto mu = false ->
    tx_target rec = resolve (sc s) (topo s) (active s) (mu_type mu) (mu_called mu) /\
    (tx_accepted rec = true -> setup_accepted s mu (tx_target rec) = true);
  to_target_fin : fin_of rec = true ->
    exists c ts, tx_target rec = target_states c ts /\ rc_schema c = sc s /\
                 forall x, In x ts -> In x (mu_called mu) \/ In x (active s);
  to_q : forall m, In m (queue s') ->
    In m (queue s) \/ scripted s m \/ (forall x, In x (mu_called m) -> x < length (sc s))
}.

(* facts about the fresh transition *)
Lemma new_transition_facts : forall s mu,
  let t0 := new_transition s mu in
  t_mut t0 = mu /\ t_before t0 = active s /\ t_clock_before t0 = clock s /\
  t_invalid t0 = false /\
  t_target t0 = resolve (sc s) (topo s) (active s) (mu_type mu) (mu_called mu) /\
  t_accepted t0 = setup_accepted s mu (t_target t0).
Proof.
  intros s mu. unfold new_transition.
  match goal with |- context [setup_accepted s mu ?tg] => set (target := tg) end.
  destruct (setup_accepted s mu target) eqn:E;
    cbn [with_exit_enter t_mut t_before t_clock_before t_invalid t_target t_accepted];
    (repeat split; try reflexivity); symmetry; exact E.
Qed.

Record mid (s : st) (mu : mutation) (s2 : st) (t1 : tstate) : Prop := {
  m_core : same_core s s2;
  m_acts : exists k, actions s2 = skipn k (actions s);
  m_evs : exists qs, evs s2 = qs ++ EvStart :: EvInit :: evs s /\ forallb qev qs = true /\
                     length (queue s2) = length qs + length (queue s);
  m_q : forall m, In m (queue s2) -> In m (queue s) \/ scripted s m;
  m_trel : trel (new_transition s mu) t1;
  m_ready : ready s2 t1
}.

Lemma mid_start : forall s mu,
  fault_free (actions s) -> loop_dead s = false -> hung s = false ->
  mid s mu (add_ev (add_ev s EvInit) EvStart) (new_transition s mu).
Proof.
  intros s mu Hff Hd Hh. constructor.
  - constructor; reflexivity.
  - exists 0. reflexivity.
  - exists []. repeat split.
  - intros m H. left. exact H.
  - apply trel_refl.
  - repeat split; try assumption.
    destruct (new_transition_facts s mu) as [_ [_ [_ [H _]]]]. exact H.
Qed.

Lemma mid_step : forall s mu s2 t1 s3 t1',
  mid s mu s2 t1 -> hstep s2 s3 -> trel t1 t1' -> mid s mu s3 t1'.
Proof.
  intros s mu s2 t1 s3 t1' [C A E Q T R] [C' A' E' Q'] T'. constructor.
  - eapply same_core_trans; eassumption.
  - destruct A as [k1 A]. destruct A' as [k2 A']. exists (k1 + k2).
    rewrite A', A. apply skipn_skipn'.
  - destruct E as [q1 [E1 [E2 E3]]]. destruct E' as [q2 [E1' [E2' E3']]].
    exists (q2 ++ q1). split; [rewrite E1', E1, app_assoc; reflexivity|].
    split; [rewrite forallb_app, E2, E2'; reflexivity|]. rewrite app_length. lia.
  - intros m H. apply Q' in H. destruct H as [H|H]; [apply Q; exact H|].
    right. eapply scripted_mono; [exact (c_exc _ _ C) | exact A | exact H].
  - eapply trel_trans; eassumption.
  - eapply ready_step; [exact R | constructor; eassumption | exact T'].
Qed.

Lemma ph_neg_ff : forall s t, ready s t -> neg_ok s t (ph_neg s t).
Proof.
  intros s t Hr. unfold ph_neg. destruct (_ && _).
  - apply negotiate_ff. exact Hr.
  - apply neg_ok_here. discriminate.
Qed.

Lemma ph_anyenter_ff : forall sA s1 t1 c2, ready s1 t1 ->
  exists s2 c3, ph_anyenter sA s1 t1 c2 = (s2, t1, c3) /\ hstep s1 s2 /\
                (c2 = true -> c3 = true).
Proof.
  intros sA s1 t1 c2 Hr. unfold ph_anyenter. destruct (has_handlers sA && negb c2) eqn:E.
  - destruct (handle_ready s1 t1 HAnyEnter Hr) as [s2 [ok [Heq [Hst _]]]].
    rewrite Heq. exists s2, (negb ok). split; [reflexivity|]. split; [exact Hst|].
    intros Hc. subst c2. rewrite andb_false_r in E. discriminate.
  - exists s1, c2. split; [reflexivity|]. split; [apply hstep_refl | tauto].
Qed.

Lemma ph_finals_ff : forall s3 t2, ready s3 t2 ->
  exists s4, ph_finals s3 t2 = (s4, t2, false) /\ hstep s3 s4.
Proof.
  intros s3 t2 Hr. unfold ph_finals. destruct (has_handlers s3).
  - destruct (emit_finals_ff (t_exits t2 ++ t_enters t2) s3 t2 Hr) as [s4 [Heq Hst]].
    rewrite Heq. exists s4. split; [reflexivity | exact Hst].
  - exists s3. split; [reflexivity | apply hstep_refl].
Qed.

Lemma ph_anystate_ff : forall s4 t3, ready s4 t3 ->
  exists s5, ph_anystate s4 t3 false = (s5, t3, false) /\ hstep s4 s5.
Proof.
  intros s4 t3 Hr. unfold ph_anystate. destruct (has_handlers s4 && negb false).
  - destruct (handle_ready s4 t3 HAnyState Hr) as [s5 [ok [Heq [Hst [_ Hok]]]]].
    rewrite Heq, (Hok eq_refl). exists s5. split; [reflexivity | exact Hst].
  - exists s4. split; [reflexivity | apply hstep_refl].
Qed.

Lemma requery_facts : forall s2 mu t1,
  let t2 := requery s2 mu t1 in
  t_mut t2 = t_mut t1 /\ t_before t2 = t_before t1 /\
  t_clock_before t2 = t_clock_before t1 /\ t_accepted t2 = t_accepted t1 /\
  t_invalid t2 = t_invalid t1 /\
  (mu_auto mu = false -> t2 = t1) /\
  (mu_auto mu = true -> exists c ts, t_target t2 = target_states c ts /\
      rc_schema c = sc s2 /\
      forall x, In x ts -> In x (mu_called mu) \/ In x (active s2)).
Proof.
  intros s2 mu t1. unfold requery. destruct (mu_auto mu).
  - cbn [with_exit_enter with_target t_mut t_before t_clock_before t_invalid t_target t_accepted].
    repeat split; try reflexivity; try discriminate.
    intros _. eexists. eexists. split; [reflexivity|]. split; [reflexivity|].
    intros x Hx. apply in_app_or in Hx. destruct Hx as [Hx|Hx]; [left | right; exact Hx].
    unfold diff in Hx. apply filter_In in Hx. tauto.
  - repeat split; try reflexivity. discriminate.
Qed.

Lemma auto_candidates_range : forall sch act x,
  In x (auto_candidates sch act) -> x < length sch.
Proof.
  intros sch act x H. unfold auto_candidates in H. apply filter_In in H.
  destruct H as [H _]. unfold all_states in H. apply in_seq in H. lia.
Qed.

Lemma prepend_auto_facts : forall s,
  same_core s (prepend_auto s) /\ actions (prepend_auto s) = actions s /\
  qpending (prepend_auto s) = qpending s /\
  (exists qs, evs (prepend_auto s) = qs ++ evs s /\ forallb qev qs = true /\
              length (queue (prepend_auto s)) = length qs + length (queue s)) /\
  (forall m, In m (queue (prepend_auto s)) ->
     In m (queue s) \/ (forall x, In x (mu_called m) -> x < length (sc s))).
Proof.
  intros s. unfold prepend_auto. destruct (auto_candidates (sc s) (active s)) as [|c r] eqn:E.
  - split; [apply same_core_refl|]. split; [reflexivity|]. split; [reflexivity|].
    split; [exists []; repeat split|]. intros m H. left. exact H.
  - unfold prepend_mut. unset. prj. split; [constructor; reflexivity|].
    split; [reflexivity|]. split; [reflexivity|]. split.
    + eexists [_]. cbn [mu_auto mu_check app]. repeat split.
    + intros m [H|H]; [|left; exact H]. right. subst m. cbn [mu_called].
      intros x Hx. rewrite <- E in Hx. eapply auto_candidates_range. exact Hx.
Qed.

Lemma forallb_mem_self : forall l, forallb (fun x => mem x l) l = true.
Proof. intros l. apply forallb_forall. intros x H. apply mem_In. exact H. Qed.

Ltac txprj :=
  cbn [tx_type tx_called tx_auto tx_check tx_qtick tx_before tx_after tx_active_before
       tx_target tx_accepted tx_mach_after tx_hfrom tx_hto].

Definition check_rec (hfrom : nat) (mu : mutation) (s2 : st) (t1 : tstate) (canceled3 : bool) :=
  {| tx_type := mu_type mu; tx_called := mu_called mu; tx_auto := mu_auto mu;
     tx_check := true; tx_qtick := mu_qtick mu;
     tx_before := t_clock_before t1; tx_after := t_clock_before t1;
     tx_active_before := t_before t1; tx_target := t_target t1;
     tx_accepted := t_accepted t1 && negb canceled3; tx_mach_after := clock s2;
     tx_hfrom := hfrom; tx_hto := length (hlog s2) |}.

Definition cancel_rec (hfrom : nat) (mu : mutation) (s2 : st) (t2 : tstate) :=
  {| tx_type := mu_type mu; tx_called := mu_called mu; tx_auto := mu_auto mu;
     tx_check := false; tx_qtick := mu_qtick mu;
     tx_before := t_clock_before t2; tx_after := clock s2;
     tx_active_before := t_before t2; tx_target := t_target t2;
     tx_accepted := false; tx_mach_after := clock s2;
     tx_hfrom := hfrom; tx_hto := length (hlog s2) |}.

Lemma fin_check_ok : forall s mu s2 t1 c3,
  mid s mu s2 t1 -> mu_check mu = true -> (c3 = false -> t_accepted t1 = true) ->
  tx_ok s mu (fst (fin_check (length (hlog s)) mu s2 t1 c3))
             (snd (fin_check (length (hlog s)) mu s2 t1 c3))
             (check_rec (length (hlog s)) mu s2 t1 c3).
Proof.
  intros s mu s2 t1 c3 [C A E Q T R] Hck Hacc.
  destruct (new_transition_facts s mu) as [F1 [F2 [F3 [F4 [F5 F6]]]]].
  destruct T as [T1 T2 T3 T4 T5 T6 T7 T8 T9]. rewrite F1 in T9.
  destruct C as [C1 C2 C3 C4 C5 C6 C7 C8 C9 C10 C11 C12 C13].
  unfold fin_check, check_rec, fin_of. cbn [fst snd].
  constructor; unfold fin_of; unset; prj; txprj; try assumption; try reflexivity; try congruence.
  - destruct E as [qs [E1 [E2 E3]]]. exists qs, []. rewrite andb_false_r.
    cbn [app length]. repeat split; try assumption. rewrite E1. reflexivity.
  - intros _. split; assumption.
  - rewrite andb_false_r. discriminate.
  - destruct c3; [right | left]; reflexivity.
  - destruct c3; [discriminate|]. intros _. rewrite (Hacc eq_refl). reflexivity.
  - intros _ H. apply andb_true_iff in H. destruct H as [_ H].
    destruct c3; [discriminate | reflexivity].
  - intros Hna. rewrite (T9 Hna). split; [exact F5|].
    intros H. apply andb_true_iff in H. destruct H as [H _].
    rewrite T6, F6 in H. exact H.
  - rewrite andb_false_r. discriminate.
  - intros m H. apply Q in H. destruct H as [H|H]; [left; exact H | right; left; exact H].
Qed.

Lemma fin_cancel_ok : forall s mu s2 t1,
  mid s mu s2 t1 -> mu_check mu = false ->
  tx_ok s mu (fst (fin_cancel (length (hlog s)) mu s2 (requery s2 mu t1))) Canceled
             (cancel_rec (length (hlog s)) mu s2 (requery s2 mu t1)).
Proof.
  intros s mu s2 t1 [C A E Q T R] Hck.
  destruct (new_transition_facts s mu) as [F1 [F2 [F3 [F4 [F5 F6]]]]].
  destruct (requery_facts s2 mu t1) as [G1 [G2 [G3 [G4 [G5 [G6 _]]]]]]. cbv zeta in *.
  destruct T as [T1 T2 T3 T4 T5 T6 T7 T8 T9]. rewrite F1 in T9.
  destruct C as [C1 C2 C3 C4 C5 C6 C7 C8 C9 C10 C11 C12 C13].
  unfold fin_cancel, cancel_rec. cbn [fst snd].
  constructor; unfold fin_of; unset; prj; txprj; try assumption; try reflexivity;
    try congruence; try discriminate.
  - destruct E as [qs [E1 [E2 E3]]]. exists qs, [].
    cbn [app length andb]. repeat split; try assumption. rewrite E1. reflexivity.
  - intros _. split; assumption.
  - right. reflexivity.
  - intros Hna. rewrite (G6 Hna), (T9 Hna). split; [exact F5 | discriminate].
  - intros m H. apply Q in H. destruct H as [H|H]; [left; exact H | right; left; exact H].
Qed.

Definition apply_rec (hfrom : nat) (mu : mutation) (cl : list N) (t4 : tstate) (s6 : st) :=
  {| tx_type := mu_type mu; tx_called := mu_called mu; tx_auto := mu_auto mu;
     tx_check := false; tx_qtick := mu_qtick mu;
     tx_before := t_clock_before t4; tx_after := cl;
     tx_active_before := t_before t4; tx_target := t_target t4;
     tx_accepted := t_accepted t4 && negb false; tx_mach_after := clock s6;
     tx_hfrom := hfrom; tx_hto := length (hlog s6) |}.

Lemma maybe_auto_facts : forall (b : bool) s,
  let s' := if b then prepend_auto s else s in
  same_core s s' /\ actions s' = actions s /\ qpending s' = qpending s /\
  (exists qs, evs s' = qs ++ evs s /\ forallb qev qs = true /\
              length (queue s') = length qs + length (queue s)) /\
  (forall m, In m (queue s') ->
     In m (queue s) \/ (forall x, In x (mu_called m) -> x < length (sc s))).
Proof.
  intros [|] s; [apply prepend_auto_facts|]. cbv zeta.
  split; [apply same_core_refl|]. split; [reflexivity|]. split; [reflexivity|].
  split; [exists []; repeat split|]. intros m H. left. exact H.
Qed.

Lemma fin_apply_ok : forall s mu s2 t1 s' r,
  mid s mu s2 t1 -> mu_check mu = false -> t_accepted t1 = true ->
  fin_apply (length (hlog s)) mu s2 (requery s2 mu t1) = (s', r) ->
  exists rec, tx_ok s mu s' r rec /\ tx_accepted rec = true.
Proof.
  intros s mu s2 t1 s' r [C A E Q T R] Hck Hacc Heq.
  destruct (new_transition_facts s mu) as [F1 [F2 [F3 [F4 [F5 F6]]]]].
  destruct (requery_facts s2 mu t1) as [G1 [G2 [G3 [G4 [G5 [G6 G7]]]]]]. cbv zeta in *.
  destruct T as [T1 T2 T3 T4 T5 T6 T7 T8 T9]. rewrite F1 in T9.
  unfold fin_apply in Heq.
  set (t2 := requery s2 mu t1) in *.
  set (cl := set_active_clock (sc s2) (clock s2) (active s2) (mu_called mu) (t_target t2)) in *.
  set (s3 := add_ev (set_mach s2 cl (t_target t2)) EvFinals) in *.
  assert (R3 : ready s3 t2).
  { destruct R as [R1 [R2 [R3 R4]]]. split; [exact R1|]. split; [exact R2|].
    split; [exact R3|]. rewrite G5. exact R4. }
  destruct (ph_finals_ff s3 t2 R3) as [s4 [E4 H34]]. rewrite E4 in Heq.
  assert (R4 : ready s4 t2) by (eapply ready_step; [exact R3 | exact H34 | apply trel_refl]).
  assert (Hh4 : hung s4 = false) by (destruct R4 as [_ [_ [H _]]]; exact H).
  rewrite Hh4 in Heq.
  destruct (ph_anystate_ff s4 t2 R4) as [s5 [E5 H45]]. rewrite E5 in Heq.
  assert (R5 : ready s5 t2) by (eapply ready_step; [exact R4 | exact H45 | apply trel_refl]).
  assert (Hh5 : hung s5 = false) by (destruct R5 as [_ [_ [H _]]]; exact H).
  rewrite Hh5 in Heq.
  change (negb false) with true in Heq. cbn [andb] in Heq. cbv iota in Heq.
  set (b := negb (nclock_eqb (clock s4) (t_clock_before t2)) && negb (mu_auto mu)
            && negb (is_health s5 mu)) in Heq.
  set (s6 := if b then prepend_auto s5 else s5) in Heq.
  destruct (maybe_auto_facts b s5) as [C56 [A56 [_ [E56 Q56]]]]. fold s6 in C56, A56, E56, Q56.
  pose proof (hstep_trans _ _ _ H34 H45) as H35. destruct H35 as [C35 A35 E35 Q35].
  injection Heq as Hs Hr. subst s'.
  exists (apply_rec (length (hlog s)) mu cl t2 s6).
  destruct C as [C1 C2 C3 C4 C5 C6 C7 C8 C9 C10 C11 C12 C13].
  destruct C35 as [D1 D2 D3 D4 D5 D6 D7 D8 D9 D10 D11 D12 D13].
  destruct C56 as [B1 B2 B3 B4 B5 B6 B7 B8 B9 B10 B11 B12 B13].
  unfold s3 in D1, D2, D3, D4, D5, D6, D7, D8, D9, D10, D11, D12, D13, A35, E35, Q35.
  unfold add_ev, set_mach in D1, D2, D3, D4, D5, D6, D7, D8, D9, D10, D11, D12, D13, A35, E35, Q35.
  unfold evs_grow, scripted in *.
  prj_in D1. prj_in D2. prj_in D3. prj_in D4. prj_in D5. prj_in D6. prj_in D7. prj_in D8.
  prj_in D9. prj_in D10. prj_in D11. prj_in D12. prj_in D13. prj_in A35. prj_in E35. prj_in Q35.
  assert (Hcl : cl = set_active_clock (sc s) (clock s) (active s) (mu_called mu) (t_target t2)).
  { unfold cl. rewrite C1, C7, C8. reflexivity. }
  assert (Ht2 : t_accepted t2 = true) by (rewrite G4; exact Hacc).
  assert (Hact6 : active s6 = t_target t2) by congruence.
  assert (Htna : mu_auto mu = false ->
            t_target t2 = resolve (sc s) (topo s) (active s) (mu_type mu) (mu_called mu)).
  { intros Hna. rewrite (G6 Hna), (T9 Hna). exact F5. }
  unfold apply_rec. split; [|txprj; rewrite Ht2; reflexivity].
  constructor; unfold fin_of; unset; prj; txprj; rewrite ?Ht2; cbn [andb negb]; try congruence.
  - destruct A as [k1 A]. destruct A35 as [k2 A35]. exists (k1 + k2).
    rewrite A56, A35, A. apply skipn_skipn'.
  - destruct E as [q1 [E1 [E2 E3]]]. destruct E35 as [q2 [E1' [E2' E3']]].
    destruct E56 as [q3 [E1'' [E2'' E3'']]].
    exists q1, (q3 ++ q2). split.
    + rewrite E1'', E1', E1. rewrite <- app_assoc. reflexivity.
    + split; [exact E2|]. split; [rewrite forallb_app, E2', E2''; reflexivity|].
      rewrite app_length. lia.
  - intros _. split; [exact Hact6 | congruence].
  - subst r. destruct (mu_type mu); repeat match goal with |- context [if ?b then _ else _] => destruct b end; tauto.
  - intros Hna _. subst r. specialize (Htna Hna).
    destruct (mu_type mu) eqn:Emt; rewrite ?Hna.
    + unfold mach_is, is_active. rewrite Hact6, forallb_mem_self. reflexivity.
    + assert (Hn : mach_not s6 (mu_called mu) = true); [|rewrite Hn; reflexivity].
      unfold mach_not, none_in. rewrite Hact6. apply forallb_forall. intros x Hx.
      apply (proj1 (uniq_In _ _)) in Hx. apply negb_true_iff. apply mem_false. intros Hin.
      rewrite Htna in Hin. unfold resolve in Hin.
      eapply (remove_target_not_called
                {| rc_schema := sc s; rc_before := active s; rc_mtype := MRemove;
                   rc_called := mu_called mu; rc_topology := topo s |} (active s) x);
        [reflexivity | exact Hin | exact Hx].
    + unfold mach_is, is_active. rewrite Hact6, forallb_mem_self. reflexivity.
  - intros Hna. split; [apply Htna; exact Hna|]. intros _.
    rewrite (G6 Hna), (T9 Hna). rewrite <- F6, <- T6. exact Hacc.
  - intros _. destruct (mu_auto mu) eqn:Ea.
    + destruct (G7 eq_refl) as [c [ts [K1 [K2 K3]]]]. exists c, ts.
      split; [exact K1|]. split; [congruence|]. intros x Hx. rewrite <- C8. apply K3. exact Hx.
    + rewrite (Htna eq_refl). unfold resolve. eexists. eexists. split; [reflexivity|].
      split; [reflexivity|]. intros x Hx. destruct (mu_type mu); cbn [states_to_set] in Hx.
      * apply in_app_or in Hx. exact Hx.
      * apply filter_In in Hx. right. tauto.
      * left. exact Hx.
  - intros m Hm. apply Q56 in Hm. destruct Hm as [Hm|Hm].
    + apply Q35 in Hm. destruct Hm as [Hm|Hm].
      * apply Q in Hm. destruct Hm as [Hm|Hm]; [left; exact Hm | right; left; exact Hm].
      * right. left. destruct Hm as [a [c [Ha [Hc Hf]]]]. exists a, c.
        destruct A as [k A]. rewrite A in Ha. apply In_skipn in Ha.
        split; [exact Ha|]. split; [exact Hc|]. rewrite <- C4. exact Hf.
    + right. right. intros x Hx. specialize (Hm x Hx). congruence.
Qed.

Definition tx_tail (s : st) (mu : mutation) (s1 : st) (t1 : tstate) (canceled2 : bool)
  : st * result :=
  let '(s2, t1, canceled3) :=
    ph_anyenter (add_ev (add_ev s EvInit) EvStart) s1 t1 canceled2 in
  if hung s2 then (s2, Canceled) else
  if mu_check mu then fin_check (length (hlog s)) mu s2 t1 canceled3
  else
    let t2 := requery s2 mu t1 in
    if negb canceled3 then fin_apply (length (hlog s)) mu s2 t2
    else fin_cancel (length (hlog s)) mu s2 t2.

Lemma tx_tail_ok : forall s mu s1 t1 c2 s' r,
  mid s mu s1 t1 -> (t_accepted t1 = false -> c2 = true) ->
  tx_tail s mu s1 t1 c2 = (s', r) -> exists rec, tx_ok s mu s' r rec.
Proof.
  intros s mu s1 t1 c2 s' r M Hc Heq. unfold tx_tail in Heq.
  destruct (ph_anyenter_ff (add_ev (add_ev s EvInit) EvStart) s1 t1 c2 (m_ready _ _ _ _ M))
    as [s2 [c3 [E2 [H12 Hc3]]]].
  rewrite E2 in Heq.
  assert (M2 : mid s mu s2 t1) by (eapply mid_step; [exact M | exact H12 | apply trel_refl]).
  assert (Hh2 : hung s2 = false) by (destruct (m_ready _ _ _ _ M2) as [_ [_ [H _]]]; exact H).
  rewrite Hh2 in Heq.
  assert (Hacc : c3 = false -> t_accepted t1 = true).
  { intros H3. destruct (t_accepted t1); [reflexivity|].
    rewrite (Hc3 (Hc eq_refl)) in H3. discriminate. }
  destruct (mu_check mu) eqn:Eck.
  - eexists. rewrite (surjective_pairing (fin_check _ _ _ _ _)) in Heq.
    injection Heq as Hs Hr. subst s' r. apply fin_check_ok; assumption.
  - cbv zeta in Heq. destruct c3; cbn [negb] in Heq.
    + eexists. unfold fin_cancel in Heq. injection Heq as Hs Hr. subst s' r.
      apply (fin_cancel_ok s mu s2 t1 M2 Eck).
    + destruct (fin_apply_ok s mu s2 t1 s' r M2 Eck (Hacc eq_refl) Heq) as [rec [H _]].
      exists rec. exact H.
Qed.

Definition tx_crash (s : st) (mu : mutation) (s' : st) (r : result) : Prop :=
  crashed s' = true /\ mu_auto mu = true /\ r = Canceled /\ txs s' = txs s /\
  clock s' = clock s /\ active s' = active s /\ qtick s' = qtick s /\
  hung s' = false /\ loop_dead s' = false /\ fault_free (actions s') /\
  (exists qs, evs s' = qs ++ EvStart :: EvInit :: evs s /\ forallb qev qs = true).

Lemma run_tx_ff : forall s mu s' r,
  fault_free (actions s) -> loop_dead s = false -> hung s = false ->
  run_tx s mu = (s', r) ->
  tx_crash s mu s' r \/ exists rec, tx_ok s mu s' r rec.
Proof.
  intros s mu s' r Hff Hd Hh Heq. rewrite run_tx_eq in Heq. unfold run_tx' in Heq.
  pose proof (mid_start s mu Hff Hd Hh) as M0.
  set (sA := add_ev (add_ev s EvInit) EvStart) in *.
  set (t0 := new_transition s mu) in *.
  pose proof (ph_neg_ff sA t0 (m_ready _ _ _ _ M0)) as Hn.
  destruct (ph_neg sA t0) as [[s1 t1] nr]. destruct Hn as [H01 [T01 Hcr]].
  assert (M1 : mid s mu s1 t1) by (eapply mid_step; eassumption).
  assert (Hh1 : hung s1 = false) by (destruct (m_ready _ _ _ _ M1) as [_ [_ [H _]]]; exact H).
  assert (Hc0 : t_accepted t1 = false -> negb (t_accepted t0) = true).
  { intros H. rewrite <- (tl_acc _ _ T01), H. reflexivity. }
  destruct nr.
  - right. rewrite Hh1 in Heq. cbv zeta in Heq.
    eapply (tx_tail_ok s mu s1 t1 _ s' r M1); [|exact Heq].
    intros H. rewrite (Hc0 H). destruct (has_handlers sA); reflexivity.
  - right. rewrite Hh1 in Heq. cbv zeta in Heq.
    eapply (tx_tail_ok s mu s1 t1 _ s' r M1); [|exact Heq].
    intros H. rewrite (Hc0 H). destruct (has_handlers sA); reflexivity.
  - left. injection Heq as Hs Hr. subst s' r.
    destruct M1 as [C A E Q T R]. destruct C. destruct R as [R1 [R2 [R3 R4]]].
    destruct (new_transition_facts s mu) as [F1 _].
    unfold tx_crash. unset. prj. repeat split; try assumption; try reflexivity.
    + rewrite <- F1. apply Hcr. reflexivity.
    + destruct E as [qs [E1 [E2 _]]]. exists qs. split; assumption.
Qed.

(* ------------------------------------------------------------------ *)
(* per-step theorems                                                   *)
(* ------------------------------------------------------------------ *)

Lemma fin_of_false_iff : forall t, fin_of t = false <-> tx_check t || negb (tx_accepted t) = true.
Proof. intros t. unfold fin_of. destruct (tx_accepted t), (tx_check t); simpl; split; auto. Qed.

(* C03 (a), any mutation: a record that is not accepted moved nothing, and
   the result is then Canceled *)
Lemma unaccepted_no_change_step_lemma : forall s mu s' r,
  fault_free (actions s) -> loop_dead s = false -> hung s = false ->
  run_tx s mu = (s', r) -> crashed s' = false ->
  exists rec, txs s' = rec :: txs s /\
    (tx_accepted rec = false ->
       r = Canceled /\ clock s' = clock s /\ active s' = active s /\
       tx_after rec = tx_before rec).
Proof.
  intros s mu s' r Hff Hd Hh Heq Hnc.
  destruct (run_tx_ff s mu s' r Hff Hd Hh Heq) as [Hc|[rec Hok]].
  - destruct Hc as [Hc _]. congruence.
  - exists rec. split; [exact (to_txs _ _ _ _ _ Hok)|]. intros Hacc.
    assert (Hf : fin_of rec = false) by (unfold fin_of; rewrite Hacc; reflexivity).
    destruct (to_nofin _ _ _ _ _ Hok Hf) as [H1 H2].
    split; [|split; [exact H1 | split; [exact H2|]]].
    + destruct (to_res _ _ _ _ _ Hok) as [Hr|Hr]; [|exact Hr].
      rewrite (to_res_acc _ _ _ _ _ Hok Hr) in Hacc. discriminate.
    + rewrite (to_after _ _ _ _ _ Hok), (to_before _ _ _ _ _ Hok). exact H1.
Qed.

(* C03 (a) for the mutations a caller can issue (not auto) *)
Lemma canceled_no_change_step_partial_lemma : forall s mu s' r,
  fault_free (actions s) -> loop_dead s = false -> hung s = false ->
  mu_auto mu = false ->
  run_tx s mu = (s', r) -> r = Canceled ->
  crashed s' = crashed s /\ clock s' = clock s /\ active s' = active s /\
  exists rec, txs s' = rec :: txs s /\ tx_after rec = tx_before rec /\
              tx_accepted rec = false.
Proof.
  intros s mu s' r Hff Hd Hh Hna Heq Hr.
  destruct (run_tx_ff s mu s' r Hff Hd Hh Heq) as [Hc|[rec Hok]].
  - destruct Hc as [_ [Hc _]]. congruence.
  - assert (Hacc : tx_accepted rec = false).
    { destruct (tx_accepted rec) eqn:E; [|reflexivity].
      rewrite (to_res_na _ _ _ _ _ Hok Hna E) in Hr. discriminate. }
    assert (Hf : fin_of rec = false) by (unfold fin_of; rewrite Hacc; reflexivity).
    destruct (to_nofin _ _ _ _ _ Hok Hf) as [H1 H2].
    split; [exact (to_crashed _ _ _ _ _ Hok)|]. split; [exact H1|]. split; [exact H2|].
    exists rec. split; [exact (to_txs _ _ _ _ _ Hok)|]. split; [|exact Hacc].
    rewrite (to_after _ _ _ _ _ Hok), (to_before _ _ _ _ _ Hok). exact H1.
Qed.

(* the statement for every mutation is false: an auto mutation whose target
   did not grow reports Canceled after the target was applied *)
Definition rf_sd (auto multi : bool) (rem : list nat) : sdef :=
  {| s_auto := auto; s_multi := multi; s_require := []; s_add := []; s_remove := rem;
     s_after := [] |}.
Definition rf_schema : schema := [rf_sd true false [1]; rf_sd false false []; rf_sd false true []].
Definition rf_state : st :=
  set_mach (init_st rf_schema [] [] 2 [] 10%N []) [0%N; 1%N; 0%N] [1].
Definition rf_mut : mutation :=
  {| mu_type := MAdd; mu_called := [0]; mu_auto := true; mu_check := false;
     mu_args := false; mu_qtick := 0 |}.

Lemma canceled_no_change_step_refuted_lemma :
  exists s mu,
    fault_free (actions s) /\ loop_dead s = false /\ hung s = false /\ crashed s = false /\
    snd (run_tx s mu) = Canceled /\ crashed (fst (run_tx s mu)) = false /\
    clock s = [0%N; 1%N; 0%N] /\ clock (fst (run_tx s mu)) = [1%N; 2%N; 0%N] /\
    active s = [1] /\ active (fst (run_tx s mu)) = [0].
Proof. exists rf_state, rf_mut. vm_compute. repeat split; reflexivity. Qed.

(* the refuting state is what a real run reaches: Add [1] runs the auto
   mutation Add [0] in the same drain *)
Lemma canceled_no_change_step_refuted_reachable_lemma :
  let tr := run 100 (init_st rf_schema [] [] 2 [] 10%N [])
                [{| ac_kind := KAdd; ac_states := [1]; ac_args := false |}] in
  map (fun t => (tx_auto t, tx_accepted t, tx_before t, tx_after t)) (tr_txs tr)
  = [(false, true, [0%N; 0%N; 0%N], [0%N; 1%N; 0%N]);
     (true, true, [0%N; 1%N; 0%N], [1%N; 2%N; 0%N])].
Proof. vm_compute. reflexivity. Qed.

Lemma canceled_no_change_step_nonvacuous_lemma :
  let s := init_st rf_schema [] [] 2 [[HEnter 1]] 10%N
             [{| ha_ret := false; ha_calls := []; ha_fault := FNone |}] in
  let mu := {| mu_type := MAdd; mu_called := [1]; mu_auto := false; mu_check := false;
               mu_args := false; mu_qtick := 2 |} in
  fault_free (actions s) /\ loop_dead s = false /\ hung s = false /\ mu_auto mu = false /\
  snd (run_tx s mu) = Canceled /\ length (txs (fst (run_tx s mu))) = 1.
Proof. vm_compute. repeat split; reflexivity. Qed.

(* C03 (b): a check never moves states, ticks or the queue tick *)
Lemma check_pure_step_lemma : forall s mu s' r,
  fault_free (actions s) -> loop_dead s = false -> hung s = false ->
  mu_check mu = true -> run_tx s mu = (s', r) ->
  clock s' = clock s /\ active s' = active s /\ qtick s' = qtick s.
Proof.
  intros s mu s' r Hff Hd Hh Hck Heq.
  destruct (run_tx_ff s mu s' r Hff Hd Hh Heq) as [Hc|[rec Hok]].
  - destruct Hc as [_ [_ [_ [_ [H1 [H2 [H3 _]]]]]]]. repeat split; assumption.
  - assert (Hf : fin_of rec = false).
    { unfold fin_of. rewrite (to_check _ _ _ _ _ Hok), Hck. apply andb_false_r. }
    destruct (to_nofin _ _ _ _ _ Hok Hf) as [H1 H2].
    repeat split; try assumption. exact (to_qtick _ _ _ _ _ Hok).
Qed.

(* without bound handlers the queue and the pending count are untouched too *)
Lemma check_pure_step_nohandlers_lemma : forall s mu s' r,
  has_handlers s = false -> mu_check mu = true -> run_tx s mu = (s', r) ->
  clock s' = clock s /\ active s' = active s /\ qtick s' = qtick s /\
  qpending s' = qpending s /\ queue s' = queue s.
Proof.
  intros s mu s' r Hnh Hck Heq. rewrite run_tx_eq in Heq.
  unfold run_tx', ph_neg, ph_anyenter in Heq.
  change (has_handlers (add_ev (add_ev s EvInit) EvStart)) with (has_handlers s) in Heq.
  rewrite Hnh in Heq. cbn [andb] in Heq. cbv iota zeta in Heq.
  change (hung (add_ev (add_ev s EvInit) EvStart)) with (hung s) in Heq.
  destruct (hung s).
  - injection Heq as Hs Hr. subst s'. repeat split; reflexivity.
  - rewrite Hck in Heq. unfold fin_check in Heq. injection Heq as Hs Hr. subst s'.
    repeat split; reflexivity.
Qed.

(* "qpending unchanged" is false when a handler of the check enqueues *)
Lemma check_pure_step_qpending_refuted_lemma :
  exists s mu,
    fault_free (actions s) /\ loop_dead s = false /\ hung s = false /\
    mu_check mu = true /\
    qpending s = 0%N /\ qpending (fst (run_tx s mu)) = 1%N /\
    length (queue s) = 0 /\ length (queue (fst (run_tx s mu))) = 1.
Proof.
  exists (init_st [rf_sd false false []; rf_sd false false []; rf_sd false true []]
                  [] [] 2 [[HEnter 1]] 10%N
                  [{| ha_ret := true;
                      ha_calls := [{| ac_kind := KAdd; ac_states := [0]; ac_args := false |}];
                      ha_fault := FNone |}]),
         (check_mut MAdd [1] false).
  vm_compute. repeat split; reflexivity.
Qed.

(* C03 (c): what Executed means for a caller's mutation *)
Lemma setup_accepted_called : forall s mu tg,
  mu_auto mu = false -> mu_check mu = false -> mu_type mu <> MRemove ->
  setup_accepted s mu tg = true -> every tg (mu_called mu) = true.
Proof.
  intros s mu tg Hna Hck Hmt H. unfold setup_accepted in H.
  rewrite Hna, Hck in H. cbn [andb negb] in H.
  assert (Hd : Nat.eqb (length (diff (mu_called mu) tg)) 0 = true).
  { destruct (mu_type mu); try contradiction;
      destruct (Nat.eqb (length (diff (mu_called mu) tg)) 0); try reflexivity; discriminate. }
  apply Nat.eqb_eq in Hd. apply length_zero_iff_nil in Hd.
  unfold every. apply forallb_forall. intros x Hx.
  destruct (mem x tg) eqn:E; [reflexivity|].
  assert (Hin : In x (diff (mu_called mu) tg)).
  { unfold diff. apply filter_In. split; [exact Hx|]. rewrite E. reflexivity. }
  rewrite Hd in Hin. destruct Hin.
Qed.

Lemma executed_postcondition_step_lemma : forall s mu s' r,
  fault_free (actions s) -> loop_dead s = false -> hung s = false ->
  mu_auto mu = false -> mu_check mu = false ->
  run_tx s mu = (s', r) -> r = Executed ->
  exists rec, txs s' = rec :: txs s /\ tx_accepted rec = true /\
    tx_target rec = resolve (sc s) (topo s) (active s) (mu_type mu) (mu_called mu) /\
    active s' = tx_target rec /\
    clock s' = set_active_clock (sc s) (clock s) (active s) (mu_called mu) (tx_target rec) /\
    tx_after rec = clock s' /\ tx_mach_after rec = clock s' /\
    match mu_type mu with
    | MAdd => every (tx_target rec) (mu_called mu) = true
    | MRemove => none_in (tx_target rec) (mu_called mu) = true
    | MSet => every (tx_target rec) (mu_called mu) = true
    end.
Proof.
  intros s mu s' r Hff Hd Hh Hna Hck Heq Hr.
  destruct (run_tx_ff s mu s' r Hff Hd Hh Heq) as [Hc|[rec Hok]].
  - destruct Hc as [_ [Hc _]]. congruence.
  - pose proof (to_res_acc _ _ _ _ _ Hok Hr) as Hacc.
    assert (Hf : fin_of rec = true).
    { unfold fin_of. rewrite Hacc, (to_check _ _ _ _ _ Hok), Hck. reflexivity. }
    destruct (to_fin _ _ _ _ _ Hok Hf) as [H1 H2].
    destruct (to_target_na _ _ _ _ _ Hok Hna) as [H3 H4]. specialize (H4 Hacc).
    exists rec. split; [exact (to_txs _ _ _ _ _ Hok)|]. split; [exact Hacc|].
    split; [exact H3|]. split; [exact H1|]. split; [exact H2|].
    split; [exact (to_after _ _ _ _ _ Hok)|]. split; [exact (to_mafter _ _ _ _ _ Hok)|].
    destruct (mu_type mu) eqn:Emt.
    + eapply setup_accepted_called; try eassumption. rewrite Emt. discriminate.
    + unfold none_in. apply forallb_forall. intros x Hx. apply negb_true_iff.
      apply mem_false. intros Hin. rewrite H3 in Hin. unfold resolve in Hin.
      eapply (remove_target_not_called
                {| rc_schema := sc s; rc_before := active s; rc_mtype := MRemove;
                   rc_called := mu_called mu; rc_topology := topo s |} (active s) x);
        [reflexivity | exact Hin | exact Hx].
    + eapply setup_accepted_called; try eassumption. rewrite Emt. discriminate.
Qed.

Lemma executed_postcondition_step_nonvacuous_lemma :
  let s := init_st rf_schema [] [] 2 [] 10%N [] in
  let mu := {| mu_type := MAdd; mu_called := [1]; mu_auto := false; mu_check := false;
               mu_args := false; mu_qtick := 2 |} in
  snd (run_tx s mu) = Executed /\ active (fst (run_tx s mu)) = [1] /\
  clock (fst (run_tx s mu)) = [0%N; 1%N; 0%N].
Proof. vm_compute. repeat split; reflexivity. Qed.

(* C03 (d): at the queue limit the call is refused before anything happens *)
Lemma early_cancel_lemma : forall fuel s c,
  limit_hit s = true ->
  match ac_kind c with
  | KAdd => negb (mem (exc s) (ac_states c)) || is_active s (exc s) = true
  | KRemove => negb (mem (exc s) (ac_states c)) || negb (is_active s (exc s)) = true
  | KSet | KAddErr => True
  | _ => False
  end ->
  top_api fuel s c = (s, Canceled, true).
Proof.
  intros fuel s c Hl Hk. unfold top_api, top_add, top_remove.
  destruct (ac_kind c); try contradiction; rewrite Hl; try reflexivity;
    rewrite Hk; reflexivity.
Qed.

Lemma early_cancel_nonvacuous_lemma :
  let s := init_st rf_schema [] [] 2 [] 0%N [] in
  limit_hit s = true /\
  top_api 10 s {| ac_kind := KAdd; ac_states := [1]; ac_args := false |} = (s, Canceled, true).
Proof. vm_compute. split; reflexivity. Qed.

(* ------------------------------------------------------------------ *)
(* C14: the tracer bracket automaton                                   *)
(* ------------------------------------------------------------------ *)

Definition bstep (b : bstate) (acc : list bool) (e : tev) : option (bstate * list bool) :=
  match e, b with
  | EvQueued _ _, _ => Some (b, acc)
  | EvInit, BIdle => Some (BInit, acc)
  | EvStart, BInit => Some (BStart, acc)
  | EvFinals, BStart => Some (BFinals, acc)
  | EvEnd, BStart => Some (BIdle, false :: acc)
  | EvEnd, BFinals => Some (BIdle, true :: acc)
  | EvQueueEnd, BIdle => Some (BIdle, acc)
  | _, _ => None
  end.

Fixpoint brun (b : bstate) (acc : list bool) (l : list tev) : option (bstate * list bool) :=
  match l with
  | [] => Some (b, acc)
  | e :: r => match bstep b acc e with
              | Some (b', acc') => brun b' acc' r
              | None => None
              end
  end.

Lemma brackets_brun : forall l b acc,
  brackets b l acc = match brun b acc l with
                     | Some (BIdle, a) => Some (rev a)
                     | _ => None
                     end.
Proof.
  induction l as [|e r IH]; intros b acc.
  - destruct b; reflexivity.
  - destruct e, b; cbn [brackets brun bstep]; try apply IH; reflexivity.
Qed.

Lemma brun_app : forall l1 l2 b acc,
  brun b acc (l1 ++ l2) = match brun b acc l1 with
                          | Some (b', acc') => brun b' acc' l2
                          | None => None
                          end.
Proof.
  induction l1 as [|e r IH]; intros l2 b acc; [reflexivity|].
  cbn [app brun]. destruct (bstep b acc e) as [[b' acc']|]; [apply IH | reflexivity].
Qed.

Lemma brun_queued : forall qs b acc, forallb qev qs = true -> brun b acc qs = Some (b, acc).
Proof.
  induction qs as [|e r IH]; intros b acc H; [reflexivity|].
  cbn [forallb] in H. apply andb_true_iff in H. destruct H as [H1 H2].
  destruct e; try discriminate. cbn [brun bstep]. apply IH. exact H2.
Qed.

Lemma forallb_rev : forall (A : Type) (f : A -> bool) l, forallb f (rev l) = forallb f l.
Proof.
  intros A f l. induction l as [|x r IH]; [reflexivity|].
  cbn [rev forallb]. rewrite forallb_app, IH. cbn [forallb]. rewrite andb_true_r.
  apply andb_comm.
Qed.

(* one bracket *)
Lemma brun_tx : forall q1 q2 (fin : bool) acc,
  forallb qev q1 = true -> forallb qev q2 = true ->
  brun BIdle acc ([EvInit; EvStart] ++ q1 ++ (if fin then [EvFinals] else []) ++ q2 ++ [EvEnd])
  = Some (BIdle, fin :: acc).
Proof.
  intros q1 q2 fin acc H1 H2. cbn [app brun bstep].
  rewrite brun_app, (brun_queued _ _ _ H1). destruct fin.
  - cbn [app brun bstep]. rewrite brun_app, (brun_queued _ _ _ H2). reflexivity.
  - cbn [app]. rewrite brun_app, (brun_queued _ _ _ H2). reflexivity.
Qed.

(* C14 (f): the events of one fault-free transition *)
Lemma brackets_step_lemma : forall s mu s' r,
  fault_free (actions s) -> loop_dead s = false -> hung s = false ->
  run_tx s mu = (s', r) -> crashed s' = false ->
  exists rec qs1 qs2,
    txs s' = rec :: txs s /\
    forallb qev qs1 = true /\ forallb qev qs2 = true /\
    rev (evs s') = rev (evs s) ++ [EvInit; EvStart] ++ qs1
                   ++ (if tx_accepted rec && negb (tx_check rec) then [EvFinals] else [])
                   ++ qs2 ++ [EvEnd].
Proof.
  intros s mu s' r Hff Hd Hh Heq Hnc.
  destruct (run_tx_ff s mu s' r Hff Hd Hh Heq) as [Hc|[rec Hok]].
  - destruct Hc as [Hc _]. congruence.
  - destruct (to_evs _ _ _ _ _ Hok) as [q1 [q2 [E1 [E2 [E3 _]]]]].
    exists rec, (rev q1), (rev q2). split; [exact (to_txs _ _ _ _ _ Hok)|].
    split; [rewrite forallb_rev; exact E2|]. split; [rewrite forallb_rev; exact E3|].
    rewrite E1. fold (fin_of rec).
    change (EvEnd :: q2 ++ (if fin_of rec then [EvFinals] else []) ++ q1 ++ EvStart :: EvInit :: evs s)
      with ([EvEnd] ++ q2 ++ (if fin_of rec then [EvFinals] else []) ++ q1 ++ [EvStart; EvInit] ++ evs s).
    rewrite !rev_app_distr. cbn [rev app].
    assert (Hrf : rev (if fin_of rec then [EvFinals] else []) = (if fin_of rec then [EvFinals] else []))
      by (destruct (fin_of rec); reflexivity).
    rewrite Hrf. rewrite <- !app_assoc. reflexivity.
Qed.

Lemma brackets_step_nonvacuous_lemma :
  let s := init_st rf_schema [] [] 2 [] 10%N [] in
  let mu := {| mu_type := MAdd; mu_called := [1]; mu_auto := false; mu_check := false;
               mu_args := false; mu_qtick := 2 |} in
  rev (evs (fst (run_tx s mu))) = [EvInit; EvStart; EvFinals; EvQueued true false; EvEnd].
Proof. vm_compute. reflexivity. Qed.

(* ------------------------------------------------------------------ *)
(* the drain loop                                                      *)
(* ------------------------------------------------------------------ *)

Definition pop_st (s : st) (mu : mutation) (rest : list mutation) : st :=
  let s0 := set_queue s rest in
  if (0 <? mu_qtick mu)%N then set_ticks s0 (qtick s0 + 1)%N (qpending s0 - 1)%N else s0.

Lemma drain_S : forall f s first,
  drain (S f) s first =
  if crashed s || hung s then (s, first, true)
  else match queue s with
       | [] => (add_ev s EvQueueEnd, first, true)
       | mu :: rest =>
         let '(s2, r) := run_tx (pop_st s mu rest) mu in
         drain f s2 (match first with None => Some r | x => x end)
       end.
Proof. reflexivity. Qed.

Record popped (s p : st) (mu : mutation) (rest : list mutation) : Prop := {
  pp_core : sc p = sc s /\ topo p = topo s /\ health p = health s /\ exc p = exc s /\
            bindings p = bindings s /\ qlimit p = qlimit s;
  pp_clock : clock p = clock s; pp_active : active p = active s;
  pp_actions : actions p = actions s; pp_txs : txs p = txs s; pp_evs : evs p = evs s;
  pp_crashed : crashed p = crashed s; pp_dead : loop_dead p = loop_dead s;
  pp_hung : hung p = hung s; pp_queue : queue p = rest;
  pp_qtick : qtick p = if (0 <? mu_qtick mu)%N then (qtick s + 1)%N else qtick s
}.

Lemma pop_st_popped : forall s mu rest, popped s (pop_st s mu rest) mu rest.
Proof.
  intros s mu rest. unfold pop_st. cbv zeta.
  destruct (0 <? mu_qtick mu)%N eqn:E; constructor; rewrite ?E; repeat split; reflexivity.
Qed.

Lemma drain_inv : forall (P : st -> Prop),
  (forall s mu rest s2 r, P s -> crashed s = false -> hung s = false ->
     queue s = mu :: rest -> run_tx (pop_st s mu rest) mu = (s2, r) -> P s2) ->
  (forall s, P s -> crashed s = false -> hung s = false -> queue s = [] ->
     P (add_ev s EvQueueEnd)) ->
  forall fuel s first s' fr ok, P s -> drain fuel s first = (s', fr, ok) -> P s'.
Proof.
  intros P Htx Hend. induction fuel as [|f IH]; intros s first s' fr ok HP Heq.
  - cbn [drain] in Heq. injection Heq as H1 H2 H3. subst. exact HP.
  - rewrite drain_S in Heq. destruct (crashed s) eqn:Ec; cbn [orb] in Heq.
    + injection Heq as H1 H2 H3. subst. exact HP.
    + destruct (hung s) eqn:Eh.
      * injection Heq as H1 H2 H3. subst. exact HP.
      * destruct (queue s) as [|mu rest] eqn:Eq.
        -- injection Heq as H1 H2 H3. subst. apply Hend; assumption.
        -- destruct (run_tx (pop_st s mu rest) mu) as [s2 r] eqn:Etx.
           eapply IH; [|exact Heq]. eapply Htx; eassumption.
Qed.

Lemma drain_done : forall fuel s first s' fr,
  drain fuel s first = (s', fr, true) ->
  crashed s' = true \/ hung s' = true \/ queue s' = [].
Proof.
  induction fuel as [|f IH]; intros s first s' fr Heq.
  - cbn [drain] in Heq. discriminate.
  - rewrite drain_S in Heq. destruct (crashed s) eqn:Ec; cbn [orb] in Heq.
    + injection Heq as H1 H2. subst. left. exact Ec.
    + destruct (hung s) eqn:Eh.
      * injection Heq as H1 H2. subst. right. left. exact Eh.
      * destruct (queue s) as [|mu rest] eqn:Eq.
        -- injection Heq as H1 H2. subst. right. right. exact Eq.
        -- destruct (run_tx (pop_st s mu rest) mu) as [s2 r] eqn:Etx.
           eapply IH. exact Heq.
Qed.

(* ------------------------------------------------------------------ *)
(* C14: invariants of a fault-free run                                 *)
(* ------------------------------------------------------------------ *)

(* newest-first records: the clock went from [p0] to [cur] through them *)
Fixpoint chain_rev (p0 cur : list N) (l : list txrec) : Prop :=
  match l with
  | [] => cur = p0
  | t :: r => tx_after t = cur /\ chain_rev p0 (tx_before t) r
  end.

Definition lastaft (p : list N) (l : list txrec) : list N :=
  fold_left (fun _ t => tx_after t) l p.

Lemma clock_eqb_refl : forall c, clock_eqb c c = true.
Proof. induction c as [|x r IH]; [reflexivity|]. simpl. rewrite N.eqb_refl. exact IH. Qed.

Lemma chain_ok_app : forall l p t,
  chain_ok p (l ++ [t]) = chain_ok p l && clock_eqb (lastaft p l) (tx_before t).
Proof.
  induction l as [|x r IH]; intros p t.
  - cbn [app chain_ok lastaft fold_left]. rewrite andb_true_r. reflexivity.
  - cbn [app chain_ok]. rewrite IH. unfold lastaft. cbn [fold_left].
    rewrite andb_assoc. reflexivity.
Qed.

Lemma chain_rev_lastaft : forall l p0 cur, chain_rev p0 cur l -> lastaft p0 (rev l) = cur.
Proof.
  induction l as [|t r IH]; intros p0 cur H.
  - cbn in H. subst. reflexivity.
  - destruct H as [H1 H2]. cbn [rev]. unfold lastaft. rewrite fold_left_app.
    cbn [fold_left]. exact H1.
Qed.

Lemma chain_rev_ok : forall l p0 cur, chain_rev p0 cur l -> chain_ok p0 (rev l) = true.
Proof.
  induction l as [|t r IH]; intros p0 cur H; [reflexivity|].
  destruct H as [H1 H2]. cbn [rev]. rewrite chain_ok_app, (IH _ _ H2).
  rewrite (chain_rev_lastaft _ _ _ H2). apply clock_eqb_refl.
Qed.

Record rinv (p0 : list N) (s : st) : Prop := {
  ri_ff : fault_free (actions s);
  ri_dead : loop_dead s = false;
  ri_hung : hung s = false;
  ri_chain : chain_rev p0 (clock s) (txs s);
  ri_mach : Forall (fun t => tx_after t = tx_mach_after t) (txs s);
  ri_nofin : Forall (fun t => fin_of t = false -> tx_before t = tx_after t) (txs s);
  ri_br : crashed s = false ->
          brun BIdle [] (rev (evs s)) = Some (BIdle, map fin_of (txs s)) /\
          length (filter qev (evs s)) = length (txs s) + length (queue s);
  ri_crash : crashed s = true ->
             exists a, brun BIdle [] (rev (evs s)) = Some (BStart, a)
}.

Lemma filter_all : forall (A : Type) (f : A -> bool) l, forallb f l = true -> filter f l = l.
Proof.
  intros A f l. induction l as [|x r IH]; intros H; [reflexivity|].
  cbn [forallb] in H. apply andb_true_iff in H. destruct H as [H1 H2].
  cbn [filter]. rewrite H1, (IH H2). reflexivity.
Qed.

Lemma rinv_tx : forall p0 s mu rest s2 r,
  rinv p0 s -> crashed s = false -> hung s = false -> queue s = mu :: rest ->
  run_tx (pop_st s mu rest) mu = (s2, r) -> rinv p0 s2.
Proof.
  intros p0 s mu rest s2 r [Iff Id Ih Ich Im In Ib Ik] Hc _ Hq Heq.
  destruct (pop_st_popped s mu rest) as [_ Pcl Pact Pa Ptx Pev Pcr Pd Ph Pq _].
  set (p := pop_st s mu rest) in *.
  assert (Hff : fault_free (actions p)) by (rewrite Pa; exact Iff).
  assert (Hd : loop_dead p = false) by (rewrite Pd; exact Id).
  assert (Hh : hung p = false) by (rewrite Ph; exact Ih).
  destruct (run_tx_ff p mu s2 r Hff Hd Hh Heq) as [Hcr|[rec Hok]].
  - destruct Hcr as [K1 [_ [_ [K4 [K5 [_ [_ [K8 [K9 [K10 K11]]]]]]]]]].
    constructor; try assumption.
    + rewrite K4, K5, Ptx, Pcl. exact Ich.
    + rewrite K4, Ptx. exact Im.
    + rewrite K4, Ptx. exact In.
    + intros H. congruence.
    + intros _. destruct K11 as [qs [E1 E2]]. destruct (Ib Hc) as [B1 _].
      rewrite E1, Pev.
      change (qs ++ EvStart :: EvInit :: evs s) with (qs ++ [EvStart; EvInit] ++ evs s).
      rewrite !rev_app_distr. cbn [rev app]. rewrite <- app_assoc. rewrite brun_app, B1.
      cbn [app brun bstep]. rewrite brun_queued; [eexists; reflexivity|].
      rewrite forallb_rev. exact E2.
  - destruct Hok. constructor.
    + destruct to_acts0 as [k Hk]. rewrite Hk. apply ff_skipn. exact Hff.
    + congruence.
    + congruence.
    + rewrite to_txs0. cbn [chain_rev]. split; [exact to_after0|].
      rewrite to_before0, Pcl, Ptx. exact Ich.
    + rewrite to_txs0, Ptx. constructor; [congruence | exact Im].
    + rewrite to_txs0, Ptx. constructor; [|exact In].
      intros Hf. destruct (to_nofin0 Hf) as [H1 _]. congruence.
    + intros Hc2. assert (Hc0 : crashed s = false) by congruence.
      destruct (Ib Hc0) as [B1 B2].
      destruct to_evs0 as [q1 [q2 [E1 [E2 [E3 E4]]]]]. split.
      * rewrite E1, to_txs0, Ptx, Pev.
        change (EvEnd :: q2 ++ (if fin_of rec then [EvFinals] else []) ++ q1
                ++ EvStart :: EvInit :: evs s)
          with ([EvEnd] ++ q2 ++ (if fin_of rec then [EvFinals] else []) ++ q1
                ++ [EvStart; EvInit] ++ evs s).
        rewrite !rev_app_distr.
        assert (Hrf : rev (if fin_of rec then [EvFinals] else [])
                      = (if fin_of rec then [EvFinals] else []))
          by (destruct (fin_of rec); reflexivity).
        rewrite Hrf. cbn [rev app]. rewrite <- !app_assoc.
        rewrite brun_app, B1.
        change (EvInit :: EvStart :: rev q1 ++ (if fin_of rec then [EvFinals] else [])
                ++ rev q2 ++ [EvEnd])
          with ([EvInit; EvStart] ++ rev q1 ++ (if fin_of rec then [EvFinals] else [])
                ++ rev q2 ++ [EvEnd]).
        rewrite brun_tx; [reflexivity | rewrite forallb_rev; exact E2
                          | rewrite forallb_rev; exact E3].
      * rewrite E1, to_txs0, Ptx, Pev, E4, Pq. rewrite Pev in *. rewrite Hq in B2.
        cbn [filter qev length]. rewrite !filter_app, !app_length.
        rewrite (filter_all _ _ _ E2), (filter_all _ _ _ E3).
        assert (Hz : length (filter qev (if fin_of rec then [EvFinals] else [])) = 0)
          by (destruct (fin_of rec); reflexivity).
        rewrite Hz. cbn [filter qev length] in *. lia.
    + intros Hc2. congruence.
Qed.

Lemma rinv_queue_end : forall p0 s,
  rinv p0 s -> crashed s = false -> rinv p0 (add_ev s EvQueueEnd).
Proof.
  intros p0 s [Iff Id Ih Ich Im In Ib Ik] Hc0. constructor; try assumption.
  - intros Hc. destruct (Ib Hc) as [B1 B2]. unset. prj. split.
    + cbn [rev]. rewrite brun_app, B1. reflexivity.
    + cbn [filter qev]. exact B2.
  - unset. prj. intros Hc. congruence.
Qed.

(* a top-level enqueue: one Queued event, one more queue entry *)
Lemma rinv_enq : forall p0 s sq a b,
  rinv p0 s -> crashed s = false -> same_core s sq -> actions sq = actions s ->
  evs sq = EvQueued a b :: evs s -> length (queue sq) = S (length (queue s)) ->
  rinv p0 sq.
Proof.
  intros p0 s sq a b [Iff Id Ih Ich Im In Ib Ik] Hc0 C Ha He Hq. destruct C.
  constructor; try congruence.
  intros Hc.
  destruct (Ib Hc0) as [B1 B2]. rewrite He, c_txs0, Hq. split.
  - cbn [rev]. rewrite brun_app, B1. reflexivity.
  - cbn [filter qev length]. lia.
Qed.

(* ------------------------------------------------------------------ *)
(* top-level calls on an idle machine                                  *)
(* ------------------------------------------------------------------ *)

Record enq0 (s sq : st) (mu : mutation) (chk : bool) (states : list nat) : Prop := {
  e_core : same_core s sq;
  e_acts : actions sq = actions s;
  e_queue : queue sq = [mu];
  e_evs : evs sq = EvQueued (mu_auto mu) (mu_check mu) :: evs s;
  e_auto : mu_auto mu = false;
  e_check : mu_check mu = chk;
  e_called : forall x, In x (mu_called mu) -> In x states;
  e_qtick : chk = true -> mu_qtick mu = 0%N
}.

Lemma top_mutation_cases : forall fuel s mt states args s1 res ok,
  queue s = [] -> top_mutation fuel s mt states args = (s1, res, ok) ->
  exists sq mu, enq0 s sq mu false states /\ process_queue fuel sq = (s1, res, ok).
Proof.
  intros fuel s mt states args s1 res ok Hq Heq. unfold top_mutation, queue_mutation in Heq.
  rewrite Hq in Heq. cbn [is_dup existsb] in Heq. rewrite andb_false_r in Heq.
  assert (Ht : ((qpending s + 1 + qtick s) =? 0)%N = false) by (apply N.eqb_neq; lia).
  rewrite Ht in Heq.
  destruct (process_queue fuel _) as [[s2 r] ok'] eqn:Epq in Heq.
  match type of Epq with
  | process_queue fuel ?sq = _ => set (sq0 := sq) in *
  end.
  injection Heq as H1 H2 H3. subst s2 r ok'.
  eexists sq0, _. split; [|exact Epq].
  unfold sq0. constructor; unset; prj; cbn [mu_auto mu_check mu_called mu_qtick app];
    try reflexivity; try discriminate.
  - constructor; reflexivity.
  - intros x Hx. apply (proj1 (uniq_In _ _)) in Hx. exact Hx.
Qed.

Lemma top_api_cases : forall fuel s c s1 res ok,
  queue s = [] -> top_api fuel s c = (s1, res, ok) ->
  (s1 = s /\ res = Canceled /\ ok = true) \/
  exists sq mu states,
    enq0 s sq mu (is_check_kind (ac_kind c)) states /\
    (forall x, In x states -> In x (ac_states c) \/ x = exc s) /\
    process_queue fuel sq = (s1, res, ok).
Proof.
  intros fuel s c s1 res ok Hq Heq. unfold top_api, top_add, top_remove in Heq.
  assert (Hself : forall x, In x (ac_states c) -> In x (ac_states c) \/ x = exc s)
    by (intros x H; left; exact H).
  assert (Hmut : forall mt, top_mutation fuel s mt (ac_states c) (ac_args c) = (s1, res, ok) ->
            is_check_kind (ac_kind c) = false ->
            exists sq mu states,
              enq0 s sq mu (is_check_kind (ac_kind c)) states /\
              (forall x, In x states -> In x (ac_states c) \/ x = exc s) /\
              process_queue fuel sq = (s1, res, ok)).
  { intros mt H Hk. destruct (top_mutation_cases _ _ _ _ _ _ _ _ Hq H) as [sq [mu [He Hp]]].
    exists sq, mu, (ac_states c). rewrite Hk.
    split; [exact He | split; [exact Hself | exact Hp]]. }
  destruct (ac_kind c) eqn:Ek.
  - destruct (_ && _).
    + left. injection Heq as H1 H2 H3. subst. repeat split.
    + right. apply (Hmut MAdd Heq). reflexivity.
  - destruct (_ && _).
    + left. injection Heq as H1 H2 H3. subst. repeat split.
    + right. apply (Hmut MRemove Heq). reflexivity.
  - destruct (limit_hit s).
    + left. injection Heq as H1 H2 H3. subst. repeat split.
    + right. apply (Hmut MSet Heq). reflexivity.
  - destruct (mach_is s (ac_states c)); destruct (_ && _).
    + left. injection Heq as H1 H2 H3. subst. repeat split.
    + right. apply (Hmut MRemove Heq). reflexivity.
    + left. injection Heq as H1 H2 H3. subst. repeat split.
    + right. apply (Hmut MAdd Heq). reflexivity.
  - destruct (limit_hit s) eqn:El.
    + left. injection Heq as H1 H2 H3. subst. repeat split.
    + right.
      assert (Hl' : limit_hit (set_fault_flags s (loop_dead s) (hung s) 1) = false) by exact El.
      rewrite Hl' in Heq. cbn [andb] in Heq.
      assert (Hq' : queue (set_fault_flags s (loop_dead s) (hung s) 1) = []) by exact Hq.
      destruct (top_mutation_cases _ _ _ _ _ _ _ _ Hq' Heq) as [sq [mu [He Hp]]].
      exists sq, mu, [exc s; exc s]. split; [|split; [|exact Hp]].
      * destruct He as [C A Qe Ev Au Ck Ca Qt]. constructor; try assumption.
        eapply same_core_trans; [|exact C]. constructor; reflexivity.
      * intros x [Hx|[Hx|[]]]; right; subst; reflexivity.
  - right. cbn [is_check_kind].
    exists (prepend_mut s (check_mut MAdd (ac_states c) (ac_args c))),
           (check_mut MAdd (ac_states c) (ac_args c)), (ac_states c).
    split; [|split; [exact Hself | exact Heq]].
    unfold prepend_mut. constructor; unset; prj; cbn [check_mut mu_auto mu_check mu_called mu_qtick];
      try reflexivity; try rewrite Hq; try reflexivity.
    + constructor; reflexivity.
    + intros x Hx. exact Hx.
  - right. cbn [is_check_kind].
    exists (prepend_mut s (check_mut MRemove (ac_states c) false)),
           (check_mut MRemove (ac_states c) false), (ac_states c).
    split; [|split; [exact Hself | exact Heq]].
    unfold prepend_mut. constructor; unset; prj; cbn [check_mut mu_auto mu_check mu_called mu_qtick];
      try reflexivity; try rewrite Hq; try reflexivity.
    + constructor; reflexivity.
    + intros x Hx. exact Hx.
Qed.

Lemma process_queue_rinv : forall p0 fuel sq s1 res ok,
  rinv p0 sq -> process_queue fuel sq = (s1, res, ok) ->
  rinv p0 s1 /\ (ok = true -> crashed s1 = false -> queue s1 = []).
Proof.
  intros p0 fuel sq s1 res ok Hi Heq. unfold process_queue in Heq.
  destruct (queue sq) as [|m q] eqn:Eq.
  - injection Heq as H1 H2 H3. subst. split; [exact Hi | intros _ _; exact Eq].
  - destruct (drain fuel sq None) as [[s' first] ok'] eqn:Ed.
    injection Heq as H1 H2 H3. subst s' ok'. split.
    + eapply (drain_inv (rinv p0)); [| |exact Hi|exact Ed].
      * intros. eapply rinv_tx; eassumption.
      * intros. apply rinv_queue_end; assumption.
    + intros Hok Hc. subst ok. destruct (drain_done _ _ _ _ _ Ed) as [H|[H|H]].
      * congruence.
      * assert (Hi1 : rinv p0 s1).
        { eapply (drain_inv (rinv p0)); [| |exact Hi|exact Ed].
          - intros. eapply rinv_tx; eassumption.
          - intros. apply rinv_queue_end; assumption. }
        rewrite (ri_hung _ _ Hi1) in H. discriminate.
      * exact H.
Qed.

Lemma top_api_rinv : forall p0 fuel s c s1 res ok,
  rinv p0 s -> crashed s = false -> queue s = [] ->
  top_api fuel s c = (s1, res, ok) ->
  rinv p0 s1 /\ (ok = true -> crashed s1 = false -> queue s1 = []).
Proof.
  intros p0 fuel s c s1 res ok Hi Hc Hq Heq.
  destruct (top_api_cases _ _ _ _ _ _ Hq Heq) as [[H1 [H2 H3]]|[sq [mu [states [He [_ Hp]]]]]].
  - subst. split; [exact Hi | intros _ _; exact Hq].
  - eapply process_queue_rinv; [|exact Hp].
    destruct He as [C A Qe Ev _ _ _ _].
    eapply rinv_enq; [exact Hi | exact Hc | exact C | exact A | exact Ev |].
    rewrite Qe, Hq. reflexivity.
Qed.

Lemma run_calls_top_rinv : forall p0 fuel cs s acc s' obs ok,
  rinv p0 s -> queue s = [] ->
  match acc with o :: _ => co_time o = clock s | [] => True end ->
  run_calls_top fuel s cs acc = (s', obs, ok) ->
  rinv p0 s' /\ (ok = true -> crashed s' = false -> queue s' = []) /\
  (crashed s' = true \/ match rev obs with o :: _ => co_time o = clock s' | [] => True end).
Proof.
  intros p0 fuel. induction cs as [|c r IH]; intros s acc s' obs ok Hi Hq Hacc Heq.
  - cbn [run_calls_top] in Heq. injection Heq as H1 H2 H3. subst.
    split; [exact Hi|]. split; [intros _ _; exact Hq|]. right. rewrite rev_involutive. exact Hacc.
  - cbn [run_calls_top] in Heq. destruct (crashed s) eqn:Ec; cbn [orb] in Heq.
    + injection Heq as H1 H2 H3. subst.
      split; [exact Hi|]. split; [intros _ H; congruence|]. left. exact Ec.
    + rewrite (ri_hung _ _ Hi) in Heq.
      destruct (top_api fuel s c) as [[s1 res] ok1] eqn:Et.
      destruct (top_api_rinv _ _ _ _ _ _ _ Hi Ec Hq Et) as [Hi1 Hq1].
      rewrite (ri_hung _ _ Hi1) in Heq. destruct (crashed s1) eqn:Ec1; cbn [orb] in Heq.
      * injection Heq as H1 H2 H3. subst.
        split; [exact Hi1|]. split; [intros _ H; congruence|]. left. exact Ec1.
      * destruct ok1.
        -- eapply IH; [exact Hi1 | apply Hq1; reflexivity | | exact Heq]. reflexivity.
        -- injection Heq as H1 H2 H3. subst.
           split; [exact Hi1|]. split; [discriminate|]. right.
           rewrite ?rev_app_distr, ?rev_involutive. cbn [rev app]. reflexivity.
Qed.

Lemma init_rinv : forall sch tp hl ex bs ql acts,
  fault_free acts ->
  rinv (map (fun _ => 0%N) sch) (init_st sch tp hl ex bs ql acts).
Proof.
  intros sch tp hl ex bs ql acts H. constructor.
  - exact H.
  - reflexivity.
  - reflexivity.
  - reflexivity.
  - constructor.
  - constructor.
  - intros _. split; reflexivity.
  - intros Hc. discriminate Hc.
Qed.

Lemma filter_rev : forall (A : Type) (f : A -> bool) l, filter f (rev l) = rev (filter f l).
Proof.
  intros A f l. induction l as [|x r IH]; [reflexivity|].
  cbn [rev filter]. rewrite filter_app, IH. cbn [filter]. destruct (f x); [reflexivity|].
  rewrite app_nil_r. reflexivity.
Qed.

Lemma bools_eqb_refl : forall l, bools_eqb l l = true.
Proof. induction l as [|x r IH]; [reflexivity|]. cbn. rewrite IH. destruct x; reflexivity. Qed.

(* C14 (g): the time chain of a fault-free run, on the final state *)
Lemma time_chain_state : forall p0 s,
  rinv p0 s ->
  chain_ok p0 (rev (txs s)) = true /\
  forallb (fun t => if tx_check t || negb (tx_accepted t)
                    then clock_eqb (tx_before t) (tx_after t) else true) (rev (txs s)) = true /\
  forallb (fun t => clock_eqb (tx_after t) (tx_mach_after t)) (rev (txs s)) = true /\
  match txs s with t :: _ => tx_after t = clock s | [] => True end.
Proof.
  intros p0 s [Iff Id Ih Ich Im In Ib Ik]. split; [eapply chain_rev_ok; exact Ich|].
  split; [|split].
  - rewrite forallb_rev. apply forallb_forall. intros t Ht.
    rewrite Forall_forall in In. specialize (In t Ht).
    destruct (tx_check t || negb (tx_accepted t)) eqn:E; [|reflexivity].
    rewrite (In (proj2 (fin_of_false_iff t) E)). apply clock_eqb_refl.
  - rewrite forallb_rev. apply forallb_forall. intros t Ht.
    rewrite Forall_forall in Im. rewrite (Im t Ht). apply clock_eqb_refl.
  - destruct (txs s) as [|t r]; [exact I|]. destruct Ich as [H _]. exact H.
Qed.

(* C14 (h): no C14 code on a fault-free run that was not cut by the fuel *)
Lemma c14_codes_run_lemma : forall fuel sch tp hl ex bs ql acts cs,
  fault_free acts ->
  let tr := run fuel (init_st sch tp hl ex bs ql acts) cs in
  tr_fuel_ok tr = true -> c14_codes tr [] = [].
Proof.
  intros fuel sch tp hl ex bs ql acts cs Hff. unfold run.
  destruct (run_calls_top fuel (init_st sch tp hl ex bs ql acts) cs []) as [[s1 obs] ok] eqn:Er.
  cbv zeta. cbn [tr_fuel_ok]. intros Hok. subst ok.
  destruct (run_calls_top_rinv _ _ cs _ [] _ _ _ (init_rinv sch tp hl ex bs ql acts Hff)
              eq_refl I Er) as [Hi [Hq Hlast]].
  destruct (time_chain_state _ _ Hi) as [T1 [T2 [T3 T4]]].
  unfold c14_codes.
  cbn [tr_txs tr_evs tr_crashed tr_calls].
  rewrite T2, T3. cbn [forallb app].
  (* brackets *)
  assert (Hbr : match brackets BIdle (rev (evs s1)) [] with
                | Some fl =>
                    (if length fl =? length (rev (txs s1)) then [] else [142%N]) ++
                    (if bools_eqb fl
                          (map (fun t : txrec => tx_accepted t && negb (tx_check t)) (rev (txs s1)))
                     then [] else [143%N]) ++
                    (if count_ev (fun e : tev => match e with EvQueued _ _ => true | _ => false end)
                                 (rev (evs s1)) =? length (rev (txs s1))
                     then [] else [142%N])
                | None => if crashed s1 then [] else [141%N]
                end = []).
  { rewrite brackets_brun. destruct (crashed s1) eqn:Ec.
    - destruct (ri_crash _ _ Hi Ec) as [a Ha]. rewrite Ha. reflexivity.
    - destruct (ri_br _ _ Hi Ec) as [B1 B2]. rewrite B1.
      rewrite rev_length, map_length, rev_length, Nat.eqb_refl.
      rewrite <- map_rev. change (fun t : txrec => tx_accepted t && negb (tx_check t)) with fin_of.
      rewrite bools_eqb_refl.
      unfold count_ev. change (fun e : tev => match e with EvQueued _ _ => true | _ => false end) with qev.
      rewrite filter_rev, rev_length, B2, (Hq eq_refl eq_refl). cbn [length].
      rewrite Nat.add_0_r, Nat.eqb_refl. reflexivity. }
  rewrite Hbr. cbn [app].
  (* chain *)
  assert (Hch : match rev (txs s1) with
                | [] => []
                | t :: r => if chain_ok (tx_after t) r then [] else [144%N]
                end = []).
  { destruct (rev (txs s1)) as [|t r]; [reflexivity|]. cbn [chain_ok] in T1.
    apply andb_true_iff in T1. destruct T1 as [_ T1]. rewrite T1. reflexivity. }
  rewrite Hch. cbn [app].
  rewrite rev_involutive.
  destruct (txs s1) as [|t r]; [reflexivity|].
  destruct (rev obs) as [|o ro]; [reflexivity|].
  destruct Hlast as [Hc|Hl].
  - rewrite Hc. reflexivity.
  - rewrite T4, Hl, clock_eqb_refl, orb_true_r. reflexivity.
Qed.

Lemma c14_codes_run_nonvacuous_lemma :
  let tr := run 100 (init_st rf_schema [] [] 2 [[HEnter 1]] 10%N
                       [{| ha_ret := true;
                           ha_calls := [{| ac_kind := KCanAdd; ac_states := [0]; ac_args := false |}];
                           ha_fault := FNone |}])
                [{| ac_kind := KAdd; ac_states := [1]; ac_args := false |};
                 {| ac_kind := KCanRemove; ac_states := [1]; ac_args := false |}] in
  tr_fuel_ok tr = true /\ length (tr_txs tr) = 4 /\ length (tr_calls tr) = 2 /\
  c14_codes tr [] = [].
Proof. vm_compute. repeat split; reflexivity. Qed.

(* C14 (g) on the trace of a run (also when the fuel ran out) *)
Lemma time_chain_run_lemma : forall fuel sch tp hl ex bs ql acts cs,
  fault_free acts ->
  let tr := run fuel (init_st sch tp hl ex bs ql acts) cs in
  chain_ok (map (fun _ => 0%N) sch) (tr_txs tr) = true /\
  forallb (fun t => if tx_check t || negb (tx_accepted t)
                    then clock_eqb (tx_before t) (tx_after t) else true) (tr_txs tr) = true /\
  forallb (fun t => clock_eqb (tx_after t) (tx_mach_after t)) (tr_txs tr) = true /\
  (tr_crashed tr = true \/
   match rev (tr_txs tr), rev (tr_calls tr) with
   | t :: _, c :: _ => tx_after t = co_time c
   | _, _ => True
   end) /\
  tr_hung tr = false.
Proof.
  intros fuel sch tp hl ex bs ql acts cs Hff. unfold run.
  destruct (run_calls_top fuel (init_st sch tp hl ex bs ql acts) cs []) as [[s1 obs] ok] eqn:Er.
  cbv zeta. cbn [tr_txs tr_calls tr_crashed tr_hung].
  destruct (run_calls_top_rinv _ _ cs _ [] _ _ _ (init_rinv sch tp hl ex bs ql acts Hff)
              eq_refl I Er) as [Hi [_ Hlast]].
  destruct (time_chain_state _ _ Hi) as [T1 [T2 [T3 T4]]].
  split; [exact T1|]. split; [exact T2|]. split; [exact T3|]. split; [|exact (ri_hung _ _ Hi)].
  destruct Hlast as [Hc|Hl]; [left; exact Hc|]. right.
  rewrite rev_involutive. destruct (txs s1) as [|t r]; [exact I|].
  destruct (rev obs) as [|o ro]; [exact I|]. congruence.
Qed.

(* the bracket sequence of a run that did not crash *)
Lemma brackets_run_lemma : forall fuel sch tp hl ex bs ql acts cs,
  fault_free acts ->
  let tr := run fuel (init_st sch tp hl ex bs ql acts) cs in
  tr_crashed tr = false ->
  brackets BIdle (tr_evs tr) []
  = Some (map (fun t => tx_accepted t && negb (tx_check t)) (tr_txs tr)).
Proof.
  intros fuel sch tp hl ex bs ql acts cs Hff. unfold run.
  destruct (run_calls_top fuel (init_st sch tp hl ex bs ql acts) cs []) as [[s1 obs] ok] eqn:Er.
  cbv zeta. cbn [tr_txs tr_evs tr_crashed]. intros Hc.
  destruct (run_calls_top_rinv _ _ cs _ [] _ _ _ (init_rinv sch tp hl ex bs ql acts Hff)
              eq_refl I Er) as [Hi _].
  destruct (ri_br _ _ Hi Hc) as [B1 _]. rewrite brackets_brun, B1, map_rev. reflexivity.
Qed.

(* ------------------------------------------------------------------ *)
(* clocks: parity through setActiveStates                              *)
(* ------------------------------------------------------------------ *)

Lemma nth_map_combine_seq : forall (g : nat * N -> N) cl k j,
  nth j (map g (combine (seq k (length cl)) cl)) 0%N
  = if j <? length cl then g (k + j, nth j cl 0%N) else 0%N.
Proof.
  intros g. induction cl as [|x r IH]; intros k j.
  - cbn. destruct j; reflexivity.
  - cbn [length seq combine map]. destruct j as [|j].
    + cbn [nth]. rewrite Nat.add_0_r. reflexivity.
    + cbn [nth]. rewrite IH. change (S j <? S (length r)) with (j <? length r).
      replace (S k + j) with (k + S j) by lia. reflexivity.
Qed.

Lemma tick_at_length : forall cl i d, length (tick_at cl i d) = length cl.
Proof.
  intros cl i d. unfold tick_at. rewrite map_length, combine_length, seq_length. lia.
Qed.

Lemma tick_at_nth : forall cl i d j, j < length cl ->
  nth j (tick_at cl i d) 0%N = (nth j cl 0 + (if Nat.eqb j i then d else 0))%N.
Proof.
  intros cl i d j Hj. unfold tick_at. rewrite nth_map_combine_seq.
  apply Nat.ltb_lt in Hj. rewrite Hj. cbn [fst snd Nat.add].
  destruct (Nat.eqb j i); [reflexivity | lia].
Qed.

(* a fold of per-name ticks over a duplicate-free list *)
Lemma fold_tick : forall (step : list N -> nat -> list N) (d : nat -> N),
  (forall c x, length (step c x) = length c) ->
  (forall c x j, j < length c ->
     nth j (step c x) 0%N = (nth j c 0 + (if Nat.eqb j x then d x else 0))%N) ->
  forall l cl, NoDup l ->
    length (fold_left step l cl) = length cl /\
    forall j, j < length cl ->
      nth j (fold_left step l cl) 0%N = (nth j cl 0 + (if mem j l then d j else 0))%N.
Proof.
  intros step d Hlen Hnth. induction l as [|x r IH]; intros cl Hnd.
  - split; [reflexivity|]. intros j Hj. cbn. lia.
  - inversion Hnd as [|? ? Hnotin Hnd']; subst. cbn [fold_left].
    destruct (IH (step cl x) Hnd') as [H1 H2]. split; [rewrite H1; apply Hlen|].
    intros j Hj. rewrite H2 by (rewrite Hlen; exact Hj). rewrite Hnth by exact Hj.
    unfold mem. cbn [existsb]. fold (mem j r).
    destruct (Nat.eqb j x) eqn:E.
    + apply Nat.eqb_eq in E. subst j.
      assert (Hm : mem x r = false) by (apply mem_false; exact Hnotin).
      rewrite Hm. cbn [orb]. lia.
    + cbn [orb]. lia.
Qed.

Definition tick_delta (sch : schema) (prev called : list nat) (name : nat) : N :=
  if negb (mem name prev) then 1%N
  else if mem name called && s_multi (sget sch name) then 2%N else 0%N.

Lemma set_active_clock_spec : forall sch cl prev called target,
  NoDup prev -> NoDup target ->
  length (set_active_clock sch cl prev called target) = length cl /\
  forall j, j < length cl ->
    nth j (set_active_clock sch cl prev called target) 0%N
    = (nth j cl 0
       + (if mem j target then tick_delta sch prev called j else 0)
       + (if mem j (diff prev target) then 1 else 0))%N.
Proof.
  intros sch cl prev called target Hp Ht. unfold set_active_clock.
  set (step1 := fun (c : list N) (name : nat) =>
                  if negb (mem name prev) then tick_at c name 1
                  else if mem name called && s_multi (sget sch name) then tick_at c name 2
                  else c).
  set (step2 := fun (c : list N) (name : nat) => tick_at c name 1).
  assert (L1 : forall c x, length (step1 c x) = length c).
  { intros c x. unfold step1. destruct (negb (mem x prev)); [apply tick_at_length|].
    destruct (_ && _); [apply tick_at_length | reflexivity]. }
  assert (N1 : forall c x j, j < length c ->
            nth j (step1 c x) 0%N
            = (nth j c 0 + (if Nat.eqb j x then tick_delta sch prev called x else 0))%N).
  { intros c x j Hj. unfold step1, tick_delta. destruct (negb (mem x prev)).
    - apply tick_at_nth. exact Hj.
    - destruct (_ && _); [apply tick_at_nth; exact Hj|]. destruct (Nat.eqb j x); lia. }
  assert (L2 : forall c x, length (step2 c x) = length c)
    by (intros; apply tick_at_length).
  assert (N2 : forall c x j, j < length c ->
            nth j (step2 c x) 0%N
            = (nth j c 0 + (if Nat.eqb j x then (fun _ => 1%N) x else 0))%N)
    by (intros; apply tick_at_nth; assumption).
  destruct (fold_tick step1 _ L1 N1 target cl Ht) as [A1 A2].
  assert (Hd : NoDup (diff prev target)) by (apply NoDup_filter; exact Hp).
  destruct (fold_tick step2 _ L2 N2 (diff prev target) (fold_left step1 target cl) Hd) as [B1 B2].
  split; [rewrite B1; exact A1|].
  intros j Hj. rewrite B2 by (rewrite A1; exact Hj). rewrite A2 by exact Hj. reflexivity.
Qed.

(* parity_ok, pointwise *)
Lemma forallb_combine_seq : forall (f : nat * N -> bool) cl k,
  forallb f (combine (seq k (length cl)) cl) = true <->
  forall j, j < length cl -> f (k + j, nth j cl 0%N) = true.
Proof.
  intros f. induction cl as [|x r IH]; intros k.
  - cbn. split; [intros _ j Hj; lia | reflexivity].
  - cbn [length seq combine forallb]. rewrite andb_true_iff, IH. split.
    + intros [H1 H2] j Hj. destruct j as [|j].
      * rewrite Nat.add_0_r. exact H1.
      * replace (k + S j) with (S k + j) by lia. apply H2. lia.
    + intros H. split.
      * specialize (H 0 (Nat.lt_0_succ _)). rewrite Nat.add_0_r in H. exact H.
      * intros j Hj. replace (S k + j) with (k + S j) by lia. apply (H (S j)). lia.
Qed.

Lemma parity_ok_iff : forall cl act,
  parity_ok cl act = true <->
  (forall j, j < length cl -> N.odd (nth j cl 0%N) = mem j act) /\
  (forall a, In a act -> a < length cl).
Proof.
  intros cl act. unfold parity_ok. rewrite andb_true_iff, forallb_combine_seq, forallb_forall.
  split; intros [H1 H2]; split.
  - intros j Hj. specialize (H1 j Hj). cbn [fst snd Nat.add] in H1.
    apply eqb_prop in H1. exact H1.
  - intros a Ha. apply Nat.ltb_lt. apply H2. exact Ha.
  - intros j Hj. cbn [fst snd Nat.add]. rewrite (H1 j Hj). apply eqb_reflx.
  - intros a Ha. apply Nat.ltb_lt. apply H2. exact Ha.
Qed.

Lemma set_active_clock_parity : forall sch cl prev called target,
  NoDup prev -> NoDup target -> parity_ok cl prev = true ->
  (forall x, In x target -> x < length cl) ->
  parity_ok (set_active_clock sch cl prev called target) target = true.
Proof.
  intros sch cl prev called target Hp Ht Hpar Hrng.
  destruct (set_active_clock_spec sch cl prev called target Hp Ht) as [Hl Hn].
  apply parity_ok_iff in Hpar. destruct Hpar as [P1 P2].
  apply parity_ok_iff. rewrite Hl. split; [|exact Hrng].
  intros j Hj. rewrite (Hn j Hj). specialize (P1 j Hj).
  assert (Hdiff : mem j (diff prev target) = mem j prev && negb (mem j target)).
  { destruct (mem j prev) eqn:E1; destruct (mem j target) eqn:E2; cbn [andb negb].
    - apply mem_false. intros H. unfold diff in H. apply filter_In in H.
      destruct H as [_ H]. rewrite E2 in H. discriminate.
    - apply mem_In. unfold diff. apply filter_In. split; [apply mem_In; exact E1|].
      rewrite E2. reflexivity.
    - apply mem_false. intros H. unfold diff in H. apply filter_In in H.
      destruct H as [H _]. apply mem_In in H. congruence.
    - apply mem_false. intros H. unfold diff in H. apply filter_In in H.
      destruct H as [H _]. apply mem_In in H. congruence. }
  rewrite Hdiff. unfold tick_delta.
  destruct (mem j prev); destruct (mem j target); cbn [andb negb]; rewrite ?N.add_0_r.
  - destruct (mem j called && s_multi (sget sch j)).
    + rewrite N.odd_add, P1. reflexivity.
    + rewrite N.add_0_r. exact P1.
  - rewrite N.odd_add, P1. reflexivity.
  - rewrite N.odd_add, P1. reflexivity.
  - exact P1.
Qed.

(* ------------------------------------------------------------------ *)
(* C03: well-formedness carried through a run                          *)
(* ------------------------------------------------------------------ *)

Definition in_rng (n : nat) (l : list nat) : Prop := forall x, In x l -> x < n.

Record winv (s : st) : Prop := {
  w_refs : refs_ok (sc s) = true;
  w_len : length (clock s) = length (sc s);
  w_nodup : NoDup (active s);
  w_par : parity_ok (clock s) (active s) = true;
  w_exc : exc s < length (sc s);
  w_q : forall m, In m (queue s) -> in_rng (length (sc s)) (mu_called m);
  w_acts : forall a c, In a (actions s) -> In c (ha_calls a) ->
                       in_rng (length (sc s)) (ac_states c)
}.

Definition hl (s : st) : Prop :=
  fault_free (actions s) /\ loop_dead s = false /\ hung s = false.

Lemma winv_tx_ok : forall s mu s' r rec,
  winv s -> in_rng (length (sc s)) (mu_called mu) -> tx_ok s mu s' r rec -> winv s'.
Proof.
  intros s mu s' r rec [Wr Wl Wn Wp We Wq Wa] Hmu Hok. destruct Hok.
  assert (Hact : in_rng (length (sc s)) (active s)).
  { apply parity_ok_iff in Wp. destruct Wp as [_ P2]. intros x Hx. rewrite <- Wl. apply P2. exact Hx. }
  assert (Hfin : fin_of rec = true ->
            NoDup (tx_target rec) /\ in_rng (length (sc s)) (tx_target rec)).
  { intros Hf. destruct (to_target_fin0 Hf) as [c [ts [K1 [K2 K3]]]]. rewrite K1. split.
    - apply target_states_NoDup.
    - intros x Hx. apply target_states_In in Hx. destruct Hx as [Hx|[a Hx]].
      + destruct (K3 x Hx) as [H|H]; [apply Hmu; exact H | apply Hact; exact H].
      + apply add_of_In in Hx. destruct Hx as [Hx _]. rewrite K2 in Hx.
        eapply refs_ok_add; eassumption. }
  constructor.
  - rewrite to_sc0. exact Wr.
  - rewrite to_sc0. destruct (fin_of rec) eqn:Ef.
    + destruct (to_fin0 eq_refl) as [_ H2]. destruct (Hfin eq_refl) as [F1 _].
      rewrite H2. destruct (set_active_clock_spec (sc s) (clock s) (active s) (mu_called mu)
                              (tx_target rec) Wn F1) as [L _]. rewrite L. exact Wl.
    + destruct (to_nofin0 eq_refl) as [H1 _]. rewrite H1. exact Wl.
  - destruct (fin_of rec) eqn:Ef.
    + destruct (to_fin0 eq_refl) as [H1 _]. rewrite H1. apply (Hfin eq_refl).
    + destruct (to_nofin0 eq_refl) as [_ H2]. rewrite H2. exact Wn.
  - destruct (fin_of rec) eqn:Ef.
    + destruct (to_fin0 eq_refl) as [H1 H2]. destruct (Hfin eq_refl) as [F1 F2].
      rewrite H1, H2. apply set_active_clock_parity; try assumption.
      intros x Hx. rewrite Wl. apply F2. exact Hx.
    + destruct (to_nofin0 eq_refl) as [H1 H2]. rewrite H1, H2. exact Wp.
  - rewrite to_sc0, to_exc0. exact We.
  - rewrite to_sc0. intros m Hm. apply to_q0 in Hm. destruct Hm as [Hm|[Hm|Hm]].
    + apply Wq. exact Hm.
    + destruct Hm as [a [c [Ha [Hc Hf]]]]. intros x Hx. destruct (Hf x Hx) as [H|H].
      * eapply Wa; eassumption.
      * subst x. exact We.
    + exact Hm.
  - rewrite to_sc0. intros a c Ha Hc. destruct to_acts0 as [k Hk]. rewrite Hk in Ha.
    apply In_skipn in Ha. eapply Wa; eassumption.
Qed.

Lemma winv_pop : forall s mu rest,
  winv s -> queue s = mu :: rest ->
  winv (pop_st s mu rest) /\ in_rng (length (sc (pop_st s mu rest))) (mu_called mu).
Proof.
  intros s mu rest [Wr Wl Wn Wp We Wq Wa] Hq.
  destruct (pop_st_popped s mu rest) as [[P1 [P2 [P3 [P4 [P5 P6]]]]] Pcl Pact Pa Ptx Pev Pcr Pd Ph Pq _].
  split.
  - constructor; rewrite ?P1, ?Pcl, ?Pact, ?P4, ?Pa, ?Pq; try assumption.
    intros m Hm. apply Wq. rewrite Hq. right. exact Hm.
  - rewrite P1. apply Wq. rewrite Hq. left. reflexivity.
Qed.

Lemma hl_tx : forall s mu s' r, hl s -> run_tx s mu = (s', r) -> hl s'.
Proof.
  intros s mu s' r [Hff [Hd Hh]] Heq.
  destruct (run_tx_ff s mu s' r Hff Hd Hh Heq) as [Hc|[rec Hok]].
  - destruct Hc as [_ [_ [_ [_ [_ [_ [_ [K8 [K9 [K10 _]]]]]]]]]]. repeat split; assumption.
  - destruct Hok. split; [|split; congruence].
    destruct to_acts0 as [k Hk]. rewrite Hk. apply ff_skipn. exact Hff.
Qed.

Lemma hl_pop : forall s mu rest, hl s -> hl (pop_st s mu rest).
Proof.
  intros s mu rest [Hff [Hd Hh]].
  destruct (pop_st_popped s mu rest) as [_ _ _ Pa _ _ _ Pd Ph _ _].
  unfold hl. rewrite Pa, Pd, Ph. repeat split; assumption.
Qed.

(* the invariant of the rest of a drain, relative to the state [s2] it started from *)
Definition dinv (s2 x : st) : Prop :=
  hl x /\ (crashed x = false -> winv x /\ sc x = sc s2) /\
  (exists ext, txs x = ext ++ txs s2) /\
  (length (txs x) = length (txs s2) -> crashed x = false ->
     clock x = clock s2 /\ qtick x = qtick s2).

Lemma dinv_start : forall s2, hl s2 -> (crashed s2 = false -> winv s2) -> dinv s2 s2.
Proof.
  intros s2 H1 H2. split; [exact H1|]. split; [intros H; split; [exact (H2 H) | reflexivity]|].
  split; [exists []; reflexivity|].
  intros _ _. split; reflexivity.
Qed.

Lemma dinv_tx : forall s2 x m rest x2 r,
  dinv s2 x -> crashed x = false -> hung x = false -> queue x = m :: rest ->
  run_tx (pop_st x m rest) m = (x2, r) -> dinv s2 x2.
Proof.
  intros s2 x m rest x2 r [Hh [Hw [[ext Hext] Hsame]]] Hc _ Hq Heq.
  pose proof (hl_pop x m rest Hh) as Hhp.
  destruct (Hw Hc) as [Hwx Hscx].
  destruct (winv_pop x m rest Hwx Hq) as [Wp Hrng].
  destruct (pop_st_popped x m rest) as [[Psc _] Pcl Pact Pa Ptx Pev Pcr Pd Ph Pq _].
  split; [eapply hl_tx; eassumption|].
  destruct Hhp as [Hff [Hd Hhg]].
  destruct (run_tx_ff _ m x2 r Hff Hd Hhg Heq) as [Hcr|[rec Hok]].
  - destruct Hcr as [K1 [_ [_ [K4 _]]]].
    split; [intros H; congruence|].
    split; [exists ext; rewrite K4, Ptx; exact Hext|].
    intros _ H. congruence.
  - split; [intros _; split; [eapply winv_tx_ok; eassumption|];
            rewrite (to_sc _ _ _ _ _ Hok), Psc; exact Hscx|].
    pose proof (to_txs _ _ _ _ _ Hok) as Ht. rewrite Ptx in Ht.
    split; [exists (rec :: ext); rewrite Ht, Hext; reflexivity|].
    intros Hl. rewrite Ht, Hext in Hl. cbn [length] in Hl. rewrite app_length in Hl. lia.
Qed.

Lemma dinv_end : forall s2 x, dinv s2 x -> dinv s2 (add_ev x EvQueueEnd).
Proof.
  intros s2 x [Hh [Hw [He Hs]]]. split; [exact Hh|]. split; [|split; [exact He | exact Hs]].
  intros Hc. destruct (Hw Hc) as [[] Hs2]. split; [constructor; assumption | exact Hs2].
Qed.

Lemma drain_dinv : forall s2 fuel x first s' fr ok,
  dinv s2 x -> drain fuel x first = (s', fr, ok) -> dinv s2 s'.
Proof.
  intros s2 fuel x first s' fr ok Hd Heq.
  eapply (drain_inv (dinv s2)); [| |exact Hd|exact Heq].
  - intros. eapply dinv_tx; eassumption.
  - intros. apply dinv_end. assumption.
Qed.

Lemma drain_first : forall fuel s r s' fr ok,
  drain fuel s (Some r) = (s', fr, ok) -> fr = Some r.
Proof.
  induction fuel as [|f IH]; intros s r s' fr ok Heq.
  - cbn [drain] in Heq. congruence.
  - rewrite drain_S in Heq. destruct (crashed s || hung s); [congruence|].
    destruct (queue s) as [|m rest]; [congruence|].
    destruct (run_tx (pop_st s m rest) m) as [s2 r2]. eapply IH. exact Heq.
Qed.

(* ------------------------------------------------------------------ *)
(* C03: one top-level call                                             *)
(* ------------------------------------------------------------------ *)

Lemma call_codes_none : forall c pt pq pn o txl,
  (pn <? co_ntx o) = false -> co_result o = Canceled ->
  pt = co_time o -> pq = co_qtick o ->
  call_codes c pt pq pn o txl = [].
Proof.
  intros c pt pq pn o txl Hlt Hres Ht Hq. unfold call_codes. rewrite Hlt, Hres.
  subst pt pq. rewrite clock_eqb_refl, N.eqb_refl. cbn [andb app].
  destruct (is_check_kind (ac_kind c)); reflexivity.
Qed.

Lemma call_codes_own : forall c pt pq pn o txl rec,
  (pn <? co_ntx o) = true -> nth_error txl pn = Some rec ->
  (co_result o = Executed \/ co_result o = Canceled) ->
  (co_result o = Canceled -> tx_before rec = tx_after rec) ->
  (co_result o = Executed -> tx_check rec = false ->
     tx_accepted rec = true /\ parity_ok (tx_after rec) (tx_target rec) = true /\
     match tx_type rec with
     | MRemove => none_in (tx_target rec) (tx_called rec) = true
     | _ => every (tx_target rec) (tx_called rec) = true
     end) ->
  tx_check rec = is_check_kind (ac_kind c) ->
  (tx_check rec = true ->
     tx_before rec = tx_after rec /\
     (co_ntx o = S pn -> pt = co_time o /\ pq = co_qtick o)) ->
  call_codes c pt pq pn o txl = [].
Proof.
  intros c pt pq pn o txl rec Hlt Hnth Hres Hcan Hexe Hkind Hchk.
  unfold call_codes. rewrite Hlt, Hnth, <- Hkind.
  assert (H1 : match co_result o with
               | Executed =>
                 if tx_check rec then [] else
                 match tx_type rec with
                 | MAdd => if every (tx_target rec) (tx_called rec) && tx_accepted rec
                              && parity_ok (tx_after rec) (tx_target rec) then [] else [32%N]
                 | MRemove => if none_in (tx_target rec) (tx_called rec) && tx_accepted rec
                                 && parity_ok (tx_after rec) (tx_target rec) then [] else [33%N]
                 | MSet => if tx_accepted rec && parity_ok (tx_after rec) (tx_target rec)
                           then [] else [32%N]
                 end
               | Canceled => if clock_eqb (tx_before rec) (tx_after rec) then [] else [31%N]
               | Queued _ => [37%N]
               end = []).
  { destruct Hres as [Hr|Hr]; rewrite Hr.
    - destruct (tx_check rec) eqn:Ec; [reflexivity|].
      destruct (Hexe Hr eq_refl) as [A1 [A2 A3]]. rewrite A1, A2.
      destruct (tx_type rec); rewrite ?A3; reflexivity.
    - rewrite (Hcan Hr), clock_eqb_refl. reflexivity. }
  rewrite H1. cbn [app].
  destruct (tx_check rec) eqn:Ec; [|reflexivity].
  destruct (Hchk eq_refl) as [B1 B2]. cbn [negb]. rewrite B1, clock_eqb_refl. cbn [negb].
  destruct (Nat.eqb (co_ntx o) (S pn)) eqn:En; [|reflexivity].
  apply Nat.eqb_eq in En. destruct (B2 En) as [C1 C2]. subst pt pq.
  rewrite clock_eqb_refl, N.eqb_refl. reflexivity.
Qed.

Lemma nth_error_rev_own : forall (l : list txrec) rec pre,
  nth_error (rev (pre ++ rec :: l)) (length l) = Some rec.
Proof.
  intros l rec pre. rewrite rev_app_distr. cbn [rev]. rewrite <- app_assoc.
  rewrite nth_error_app2 by (rewrite rev_length; lia).
  rewrite rev_length, Nat.sub_diag. reflexivity.
Qed.

Definition obs_of (s1 : st) (res : result) : callobs :=
  {| co_result := res; co_time := clock s1; co_active := active s1;
     co_qtick := qtick s1; co_ntx := length (txs s1); co_err := err_code s1 |}.

Lemma winv_enq : forall s sq mu chk states,
  winv s -> enq0 s sq mu chk states -> in_rng (length (sc s)) states -> winv sq.
Proof.
  intros s sq mu chk states [Wr Wl Wn Wp We Wq Wa] [C A Qe Ev Au Ck Ca Qt] Hst.
  destruct C. constructor; rewrite ?c_sc0, ?c_clock0, ?c_active0, ?c_exc0, ?A; try assumption.
  rewrite Qe. intros m [Hm|[]]. subst m. intros x Hx. apply Hst. apply Ca. exact Hx.
Qed.

Lemma call_ok : forall fuel s c s1 res ok,
  hl s -> winv s -> crashed s = false -> queue s = [] ->
  in_rng (length (sc s)) (ac_states c) ->
  top_api fuel s c = (s1, res, ok) ->
  hl s1 /\ (crashed s1 = false -> winv s1 /\ sc s1 = sc s) /\
  (exists ext, txs s1 = ext ++ txs s) /\
  (ok = true -> crashed s1 = false -> queue s1 = []) /\
  (crashed s1 = false -> forall txf ext, txf = ext ++ txs s1 ->
     call_codes c (clock s) (qtick s) (length (txs s)) (obs_of s1 res) (rev txf) = []).
Proof.
  intros fuel s c s1 res ok Hh Hw Hc Hq Hrng Heq.
  destruct (top_api_cases _ _ _ _ _ _ Hq Heq) as [[H1 [H2 H3]]|[sq [mu [states [He [Hst Hp]]]]]].
  - subst s1 res ok. split; [exact Hh|]. split; [intros _; split; [exact Hw | reflexivity]|].
    split; [exists []; reflexivity|]. split; [intros _ _; exact Hq|].
    intros _ txf ext _. apply call_codes_none; cbn [obs_of co_ntx co_result co_time co_qtick];
      try reflexivity. apply Nat.ltb_irrefl.
  - assert (Hstr : in_rng (length (sc s)) states).
    { intros x Hx. destruct (Hst x Hx) as [H|H]; [apply Hrng; exact H|].
      subst x. exact (w_exc _ Hw). }
    pose proof (winv_enq _ _ _ _ _ Hw He Hstr) as Wsq.
    destruct He as [C A Qe Ev Au Ck Ca Qt].
    assert (Hhsq : hl sq).
    { destruct Hh as [F [D G]]. unfold hl. rewrite A, (c_dead _ _ C), (c_hung _ _ C).
      repeat split; assumption. }
    assert (Hcsq : crashed sq = false) by (rewrite (c_crashed _ _ C); exact Hc).
    unfold process_queue in Hp. rewrite Qe in Hp.
    destruct (drain fuel sq None) as [[s' first] ok'] eqn:Ed.
    injection Hp as E1 E2 E3. subst s' ok'.
    destruct fuel as [|f].
    + cbn [drain] in Ed. injection Ed as G1 G2 G3. subst s1 first ok. subst res.
      split; [exact Hhsq|]. split; [intros _; split; [exact Wsq | exact (c_sc _ _ C)]|].
      split; [exists []; rewrite (c_txs _ _ C); reflexivity|]. split; [discriminate|].
      intros _ txf ext _. apply call_codes_none; cbn [obs_of co_ntx co_result co_time co_qtick].
      * rewrite (c_txs _ _ C). apply Nat.ltb_irrefl.
      * reflexivity.
      * symmetry. exact (c_clock _ _ C).
      * symmetry. exact (c_qtick _ _ C).
    + rewrite drain_S in Ed. destruct Hhsq as [Fsq [Dsq Gsq]]. rewrite Hcsq, Gsq, Qe in Ed.
      cbn [orb] in Ed.
      destruct (run_tx (pop_st sq mu []) mu) as [s2 r] eqn:Etx.
      pose proof (drain_first _ _ _ _ _ _ Ed) as Hfirst. subst first. subst res.
      destruct (winv_pop sq mu [] Wsq Qe) as [Wp Hmurng].
      pose proof (hl_pop sq mu [] (conj Fsq (conj Dsq Gsq))) as Hhp.
      destruct (pop_st_popped sq mu []) as [[Psc _] Pcl Pact Pa Ptx Pev Pcr Pd Ph Pq Pqt].
      destruct Hhp as [Fp [Dp Gp]].
      destruct (run_tx_ff _ mu s2 r Fp Dp Gp Etx) as [Hcr|[rec Hok]].
      { destruct Hcr as [_ [K _]]. congruence. }
      assert (Hh2 : hl s2) by (eapply hl_tx; [exact (conj Fp (conj Dp Gp)) | exact Etx]).
      assert (Hw2 : winv s2) by (eapply winv_tx_ok; eassumption).
      pose proof (drain_dinv s2 _ _ _ _ _ _ (dinv_start s2 Hh2 (fun _ => Hw2)) Ed)
        as [Hh1 [Hw1 [[ext1 Hext1] Hsame]]].
      pose proof (to_txs _ _ _ _ _ Hok) as Ht2. rewrite Ptx, (c_txs _ _ C) in Ht2.
      split; [exact Hh1|]. split.
      { intros H. destruct (Hw1 H) as [K1 K2]. split; [exact K1|].
        rewrite K2, (to_sc _ _ _ _ _ Hok), Psc. exact (c_sc _ _ C). }
      split; [exists (ext1 ++ [rec]); rewrite Hext1, Ht2, <- app_assoc; reflexivity|].
      split.
      { intros Hok1 Hc1. subst ok. destruct (drain_done _ _ _ _ _ Ed) as [H|[H|H]].
        - congruence.
        - destruct Hh1 as [_ [_ G1]]. congruence.
        - exact H. }
      intros Hc1 txf ext Htxf.
      assert (Hauto : mu_auto mu = false) by exact Au.
      assert (Hnoacc : r = Canceled -> tx_accepted rec = false).
      { intros Hr. destruct (tx_accepted rec) eqn:E; [|reflexivity].
        rewrite (to_res_na _ _ _ _ _ Hok Hauto E) in Hr. discriminate. }
      assert (Hnofin : fin_of rec = false -> tx_before rec = tx_after rec).
      { intros Hf. destruct (to_nofin _ _ _ _ _ Hok Hf) as [K _].
        rewrite (to_before _ _ _ _ _ Hok), (to_after _ _ _ _ _ Hok). symmetry. exact K. }
      eapply (call_codes_own c _ _ _ _ _ rec); cbn [obs_of co_ntx co_result co_time co_qtick].
      * apply Nat.ltb_lt. rewrite Hext1, Ht2, app_length. cbn [length]. lia.
      * rewrite Htxf, Hext1, Ht2, app_assoc. apply nth_error_rev_own.
      * exact (to_res _ _ _ _ _ Hok).
      * intros Hr. apply Hnofin. unfold fin_of. rewrite (Hnoacc Hr). reflexivity.
      * intros Hr Hck. pose proof (to_res_acc _ _ _ _ _ Hok Hr) as Hacc.
        assert (Hf : fin_of rec = true) by (unfold fin_of; rewrite Hacc, Hck; reflexivity).
        destruct (to_fin _ _ _ _ _ Hok Hf) as [F1 F2].
        split; [exact Hacc|]. split.
        -- rewrite (to_after _ _ _ _ _ Hok), <- F1. exact (w_par _ Hw2).
        -- destruct (to_target_na _ _ _ _ _ Hok Hauto) as [T1 T2]. specialize (T2 Hacc).
           rewrite (to_type _ _ _ _ _ Hok), (to_called _ _ _ _ _ Hok).
           rewrite (to_check _ _ _ _ _ Hok) in Hck.
           destruct (mu_type mu) eqn:Emt.
           ++ eapply setup_accepted_called; try eassumption. rewrite Emt. discriminate.
           ++ unfold none_in. apply forallb_forall. intros x Hx. apply negb_true_iff.
              apply mem_false. intros Hin. rewrite T1 in Hin. unfold resolve in Hin.
              eapply (remove_target_not_called
                        {| rc_schema := sc (pop_st sq mu []);
                           rc_before := active (pop_st sq mu []); rc_mtype := MRemove;
                           rc_called := mu_called mu; rc_topology := topo (pop_st sq mu []) |}
                        (active (pop_st sq mu [])) x);
                [reflexivity | exact Hin | exact Hx].
           ++ eapply setup_accepted_called; try eassumption. rewrite Emt. discriminate.
      * rewrite (to_check _ _ _ _ _ Hok). exact Ck.
      * intros Hck. assert (Hf : fin_of rec = false)
          by (unfold fin_of; rewrite Hck; apply andb_false_r).
        split; [apply Hnofin; exact Hf|].
        intros Hn. rewrite Hext1, Ht2, app_length in Hn. cbn [length] in Hn.
        assert (Hl : length (txs s1) = length (txs s2)).
        { rewrite Hext1, app_length. rewrite (to_txs _ _ _ _ _ Hok), Ptx, (c_txs _ _ C).
          cbn [length]. lia. }
        destruct (Hsame Hl Hc1) as [S1 S2].
        destruct (to_nofin _ _ _ _ _ Hok Hf) as [N1 _].
        rewrite (to_check _ _ _ _ _ Hok) in Hck. rewrite <- Ck in Qt. specialize (Qt Hck).
        rewrite Qt in Pqt. cbn in Pqt.
        split.
        -- rewrite S1, N1, Pcl. symmetry. exact (c_clock _ _ C).
        -- rewrite S2, (to_qtick _ _ _ _ _ Hok), Pqt. symmetry. exact (c_qtick _ _ C).
Qed.

(* ------------------------------------------------------------------ *)
(* C03: the whole run                                                  *)
(* ------------------------------------------------------------------ *)

Lemma run_calls_top_acc : forall fuel cs s acc,
  run_calls_top fuel s cs acc =
  let '(s', o, ok) := run_calls_top fuel s cs [] in (s', rev acc ++ o, ok).
Proof.
  intros fuel. induction cs as [|c r IH]; intros s acc.
  - cbn [run_calls_top rev]. rewrite app_nil_r. reflexivity.
  - cbn [run_calls_top]. destruct (crashed s || hung s).
    + cbn [rev]. rewrite app_nil_r. reflexivity.
    + destruct (top_api fuel s c) as [[s1 res] ok].
      destruct (crashed s1 || hung s1).
      * cbn [rev]. rewrite app_nil_r. reflexivity.
      * destruct ok.
        -- rewrite (IH s1 (_ :: acc)), (IH s1 [_]).
           destruct (run_calls_top fuel s1 r []) as [[s' o] ok'].
           cbn [rev app]. rewrite <- app_assoc. reflexivity.
        -- reflexivity.
Qed.

Lemma calls_codes_nil_obs : forall cs pt pq pn txl, calls_codes cs [] pt pq pn txl = [].
Proof. intros [|c r]; reflexivity. Qed.

Lemma calls_codes_run : forall fuel cs s s' obs ok,
  hl s -> winv s -> crashed s = false -> queue s = [] ->
  (forall c, In c cs -> in_rng (length (sc s)) (ac_states c)) ->
  run_calls_top fuel s cs [] = (s', obs, ok) ->
  (exists ext, txs s' = ext ++ txs s) /\
  forall txf ext, txf = ext ++ txs s' ->
    calls_codes cs obs (clock s) (qtick s) (length (txs s)) (rev txf) = [].
Proof.
  intros fuel. induction cs as [|c r IH]; intros s s' obs ok Hh Hw Hc Hq Hcs Heq.
  - cbn [run_calls_top] in Heq. injection Heq as H1 H2 H3. subst.
    split; [exists []; reflexivity|]. intros. reflexivity.
  - cbn [run_calls_top] in Heq. destruct Hh as [Hff [Hd Hg]]. rewrite Hc, Hg in Heq.
    cbn [orb] in Heq.
    destruct (top_api fuel s c) as [[s1 res] ok1] eqn:Et.
    destruct (call_ok _ _ _ _ _ _ (conj Hff (conj Hd Hg)) Hw Hc Hq (Hcs c (or_introl eq_refl)) Et)
      as [Hh1 [Hw1 [[ext1 Hext1] [Hq1 Hcodes]]]].
    assert (Hg1 : hung s1 = false) by (destruct Hh1 as [_ [_ H]]; exact H).
    rewrite Hg1 in Heq.
    destruct (crashed s1) eqn:Ec1; cbn [orb] in Heq.
    + injection Heq as H1 H2 H3. subst s' obs ok.
      split; [exists ext1; exact Hext1|]. intros. apply calls_codes_nil_obs.
    + destruct (Hw1 eq_refl) as [Hw1' Hsc1]. specialize (Hcodes eq_refl). unfold obs_of in Hcodes.
      destruct ok1.
      * rewrite run_calls_top_acc in Heq.
        destruct (run_calls_top fuel s1 r []) as [[s'' obs_r] ok''] eqn:Er.
        injection Heq as H1 H2 H3. subst s'' obs ok''.
        destruct (IH s1 s' obs_r ok Hh1 Hw1' Ec1 (Hq1 eq_refl eq_refl)) as [[ext2 Hext2] Hrest].
        { intros c' Hc'. rewrite Hsc1. apply Hcs. right. exact Hc'. }
        { exact Er. }
        split; [exists (ext2 ++ ext1); rewrite Hext2, Hext1, app_assoc; reflexivity|].
        intros txf ext Htxf. cbn [calls_codes].
        rewrite (Hcodes txf (ext ++ ext2)) by (rewrite Htxf, Hext2, app_assoc; reflexivity).
        cbn [app]. apply (Hrest txf ext Htxf).
      * injection Heq as H1 H2 H3. subst s' obs ok.
        split; [exists ext1; exact Hext1|].
        intros txf ext Htxf. cbn [calls_codes].
        rewrite (Hcodes txf ext Htxf). cbn [app]. apply calls_codes_nil_obs.
Qed.

Lemma parity_zero : forall n, parity_ok (repeat 0%N n) [] = true.
Proof.
  intros n. apply parity_ok_iff. split; [|intros a []].
  intros j Hj. cbn [mem existsb].
  destruct (nth_in_or_default j (repeat 0%N n) 0%N) as [H|H].
  - apply repeat_spec in H. rewrite H. reflexivity.
  - rewrite H. reflexivity.
Qed.

Lemma map_const_repeat : forall (A : Type) (l : list A) (x : N),
  map (fun _ => x) l = repeat x (length l).
Proof. intros A l x. induction l as [|a r IH]; [reflexivity|]. cbn. rewrite IH. reflexivity. Qed.

Definition acts_in_rng (n : nat) (acts : list haction) : Prop :=
  forall a c, In a acts -> In c (ha_calls a) -> in_rng n (ac_states c).

Lemma init_winv : forall sch tp hl ex bs ql acts,
  refs_ok sch = true -> ex < length sch -> acts_in_rng (length sch) acts ->
  winv (init_st sch tp hl ex bs ql acts).
Proof.
  intros sch tp hl ex bs ql acts Hr He Ha. constructor; cbn [init_st sc clock active exc queue actions].
  - exact Hr.
  - apply map_length.
  - constructor.
  - rewrite map_const_repeat. apply parity_zero.
  - exact He.
  - intros m [].
  - exact Ha.
Qed.

(* C03 (e): no code 31/32/33/34/36/37 on a fault-free, well-formed run
   (whatever the fuel) *)
Lemma calls_codes_run_lemma : forall fuel sch tp hl ex bs ql acts cs,
  fault_free acts ->
  refs_ok sch = true -> ex < length sch ->
  (forall a c x, In a acts -> In c (ha_calls a) -> In x (ac_states c) -> x < length sch) ->
  (forall c x, In c cs -> In x (ac_states c) -> x < length sch) ->
  let tr := run fuel (init_st sch tp hl ex bs ql acts) cs in
  calls_codes cs (tr_calls tr) (map (fun _ => 0%N) sch) 1%N 0 (tr_txs tr) = [].
Proof.
  intros fuel sch tp hl0 ex bs ql acts cs Hff Hr He Ha Hcs. unfold run.
  destruct (run_calls_top fuel (init_st sch tp hl0 ex bs ql acts) cs []) as [[s1 obs] ok] eqn:Er.
  cbv zeta. cbn [tr_calls tr_txs].
  assert (Hw : winv (init_st sch tp hl0 ex bs ql acts)).
  { apply init_winv; try assumption. intros a c Hin Hc x Hx. eapply Ha; eassumption. }
  assert (Hh : hl (init_st sch tp hl0 ex bs ql acts)) by (repeat split; assumption).
  destruct (calls_codes_run fuel cs _ s1 obs ok Hh Hw eq_refl eq_refl) as [_ H].
  - intros c Hc x Hx. eapply Hcs; eassumption.
  - exact Er.
  - apply (H (txs s1) []). reflexivity.
Qed.

Lemma c03_codes_run_lemma : forall fuel sch tp hl ex bs ql acts cs,
  fault_free acts ->
  refs_ok sch = true -> ex < length sch ->
  (forall a c x, In a acts -> In c (ha_calls a) -> In x (ac_states c) -> x < length sch) ->
  (forall c x, In c cs -> In x (ac_states c) -> x < length sch) ->
  c03_codes sch false cs (run fuel (init_st sch tp hl ex bs ql acts) cs) = [].
Proof.
  intros. unfold c03_codes. rewrite app_nil_r. apply calls_codes_run_lemma; assumption.
Qed.

Lemma c03_codes_run_nonvacuous_lemma :
  let acts := [{| ha_ret := true;
                  ha_calls := [{| ac_kind := KCanAdd; ac_states := [0]; ac_args := false |}];
                  ha_fault := FNone |};
               {| ha_ret := false; ha_calls := []; ha_fault := FNone |}] in
  let cs := [{| ac_kind := KAdd; ac_states := [1]; ac_args := false |};
             {| ac_kind := KCanRemove; ac_states := [1]; ac_args := false |};
             {| ac_kind := KRemove; ac_states := [1]; ac_args := false |};
             {| ac_kind := KSet; ac_states := [1; 2]; ac_args := false |}] in
  let tr := run 100 (init_st rf_schema [] [] 2 [[HEnter 1]] 10%N acts) cs in
  fault_free acts /\ refs_ok rf_schema = true /\
  map co_result (tr_calls tr) = [Executed; Executed; Executed; Canceled] /\
  length (tr_txs tr) = 6 /\
  c03_codes rf_schema false cs tr = [].
Proof. vm_compute. repeat split; reflexivity. Qed.

(* without the range hypothesis the statement is false: a state index
   outside the schema is reported active and has no tick *)
Lemma c03_codes_run_range_refuted_lemma :
  exists fuel sch tp hl ex bs ql acts cs,
    fault_free acts /\ refs_ok sch = true /\ ex < length sch /\
    c03_codes sch false cs (run fuel (init_st sch tp hl ex bs ql acts) cs) = [32%N].
Proof.
  exists 100, rf_schema, [], [], 2, [], 10%N, [],
         [{| ac_kind := KAdd; ac_states := [7]; ac_args := false |}].
  vm_compute. repeat split; try reflexivity.
Qed.

(* C03 (c), clocks: a well-formed machine stays well-formed through a
   transition, so the applied target has exactly the odd ticks *)
Lemma wellformed_step_lemma : forall s mu s' r,
  fault_free (actions s) -> loop_dead s = false -> hung s = false ->
  winv s -> in_rng (length (sc s)) (mu_called mu) ->
  run_tx s mu = (s', r) -> crashed s' = false ->
  winv s' /\
  exists rec, txs s' = rec :: txs s /\
    (tx_accepted rec && negb (tx_check rec) = true ->
       parity_ok (tx_after rec) (tx_target rec) = true /\ NoDup (tx_target rec)).
Proof.
  intros s mu s' r Hff Hd Hh Hw Hrng Heq Hnc.
  destruct (run_tx_ff s mu s' r Hff Hd Hh Heq) as [Hc|[rec Hok]].
  - destruct Hc as [Hc _]. congruence.
  - pose proof (winv_tx_ok _ _ _ _ _ Hw Hrng Hok) as Hw'. split; [exact Hw'|].
    exists rec. split; [exact (to_txs _ _ _ _ _ Hok)|]. intros Hf.
    destruct (to_fin _ _ _ _ _ Hok Hf) as [F1 _].
    rewrite (to_after _ _ _ _ _ Hok), <- F1. split; [exact (w_par _ Hw') | exact (w_nodup _ Hw')].
Qed.

Lemma wellformed_step_flat_lemma : forall s mu s' r,
  fault_free (actions s) -> loop_dead s = false -> hung s = false ->
  refs_ok (sc s) = true -> length (clock s) = length (sc s) -> NoDup (active s) ->
  parity_ok (clock s) (active s) = true -> exc s < length (sc s) ->
  (forall m x, In m (queue s) -> In x (mu_called m) -> x < length (sc s)) ->
  (forall a c x, In a (actions s) -> In c (ha_calls a) -> In x (ac_states c) ->
     x < length (sc s)) ->
  (forall x, In x (mu_called mu) -> x < length (sc s)) ->
  run_tx s mu = (s', r) -> crashed s' = false ->
  (sc s' = sc s /\ length (clock s') = length (sc s') /\ NoDup (active s') /\
   parity_ok (clock s') (active s') = true /\
   (forall m x, In m (queue s') -> In x (mu_called m) -> x < length (sc s')) /\
   (forall a c x, In a (actions s') -> In c (ha_calls a) -> In x (ac_states c) ->
      x < length (sc s'))) /\
  exists rec, txs s' = rec :: txs s /\
    (tx_accepted rec && negb (tx_check rec) = true ->
       parity_ok (tx_after rec) (tx_target rec) = true /\ NoDup (tx_target rec)).
Proof.
  intros s mu s' r Hff Hd Hh W1 W2 W3 W4 W5 W6 W7 Hmu Heq Hnc.
  assert (Hw : winv s).
  { constructor; try assumption.
    - intros m Hm x Hx. eapply W6; eassumption.
    - intros a c Ha Hc x Hx. eapply W7; eassumption. }
  destruct (wellformed_step_lemma s mu s' r Hff Hd Hh Hw Hmu Heq Hnc) as [Hw' Hrec].
  split; [|exact Hrec].
  assert (Hsc : sc s' = sc s).
  { destruct (run_tx_ff s mu s' r Hff Hd Hh Heq) as [Hc|[rec Hok]].
    - destruct Hc as [Hc _]. congruence.
    - exact (to_sc _ _ _ _ _ Hok). }
  destruct Hw' as [V1 V2 V3 V4 V5 V6 V7].
  split; [exact Hsc|]. split; [exact V2|]. split; [exact V3|]. split; [exact V4|]. split.
  - intros m x Hm Hx. eapply V6; eassumption.
  - intros a c x Ha Hc Hx. eapply V7; eassumption.
Qed.

Lemma wellformed_step_nonvacuous_lemma :
  let s := init_st rf_schema [] [] 2 [] 10%N [] in
  let mu := {| mu_type := MAdd; mu_called := [1]; mu_auto := false; mu_check := false;
               mu_args := false; mu_qtick := 2 |} in
  refs_ok (sc s) = true /\ parity_ok (clock s) (active s) = true /\
  crashed (fst (run_tx s mu)) = false /\
  parity_ok (clock (fst (run_tx s mu))) (active (fst (run_tx s mu))) = true /\
  active (fst (run_tx s mu)) = [1].
Proof. vm_compute. repeat split; reflexivity. Qed.

(* ------------------------------------------------------------------ *)
(* C03: a check predicts the mutation (no handlers bound)              *)
(* ------------------------------------------------------------------ *)

Lemma run_tx_nh : forall s mu s' r,
  has_handlers s = false -> hl s -> mu_auto mu = false ->
  run_tx s mu = (s', r) ->
  r = if setup_accepted s mu (resolve (sc s) (topo s) (active s) (mu_type mu) (mu_called mu))
      then Executed else Canceled.
Proof.
  intros s mu s' r Hnh [Hff [Hd Hh]] Hna Heq.
  destruct (new_transition_facts s mu) as [_ [_ [_ [_ [F5 F6]]]]].
  rewrite <- F5, <- F6.
  pose proof (mid_start s mu Hff Hd Hh) as M0.
  rewrite run_tx_eq in Heq. unfold run_tx', ph_neg, ph_anyenter in Heq.
  change (has_handlers (add_ev (add_ev s EvInit) EvStart)) with (has_handlers s) in Heq.
  rewrite Hnh in Heq. cbn [andb] in Heq. cbv iota zeta in Heq.
  change (hung (add_ev (add_ev s EvInit) EvStart)) with (hung s) in Heq.
  rewrite Hh in Heq. rewrite orb_false_r in Heq.
  destruct (mu_check mu) eqn:Eck.
  - unfold fin_check in Heq. injection Heq as _ Hr. subst r.
    destruct (t_accepted (new_transition s mu)); reflexivity.
  - destruct (t_accepted (new_transition s mu)) eqn:Eacc; cbn [negb] in Heq.
    + destruct (fin_apply_ok s mu _ _ s' r M0 Eck Eacc Heq) as [rec [Hok Ha]].
      exact (to_res_na _ _ _ _ _ Hok Hna Ha).
    + unfold fin_cancel in Heq. injection Heq as _ Hr. subst r. reflexivity.
Qed.

Lemma setup_accepted_sc : forall s s' mu tg,
  sc s = sc s' -> setup_accepted s mu tg = setup_accepted s' mu tg.
Proof. intros s s' mu tg H. unfold setup_accepted. rewrite H. reflexivity. Qed.

(* the frame of a top-level call *)
Definition frame_eq (s x : st) : Prop :=
  sc x = sc s /\ topo x = topo s /\ bindings x = bindings s /\ qlimit x = qlimit s.

Lemma top_api_frame : forall fuel s c s1 res ok,
  hl s -> crashed s = false -> queue s = [] ->
  top_api fuel s c = (s1, res, ok) ->
  hl s1 /\ (crashed s1 = false -> frame_eq s s1) /\
  (ok = true -> crashed s1 = false -> queue s1 = []).
Proof.
  intros fuel s c s1 res ok Hh Hc Hq Heq.
  destruct (top_api_cases _ _ _ _ _ _ Hq Heq) as [[H1 [H2 H3]]|[sq [mu [states [He [_ Hp]]]]]].
  - subst. split; [exact Hh|]. split; [intros _; repeat split|]. intros _ _. exact Hq.
  - destruct He as [C A Qe Ev _ _ _ _].
    assert (Hhsq : hl sq).
    { destruct Hh as [F [D G]]. unfold hl. rewrite A, (c_dead _ _ C), (c_hung _ _ C).
      repeat split; assumption. }
    assert (Hfsq : frame_eq s sq).
    { destruct C. repeat split; assumption. }
    unfold process_queue in Hp. rewrite Qe in Hp.
    destruct (drain fuel sq None) as [[s' first] ok'] eqn:Ed.
    injection Hp as E1 E2 E3. subst s' ok'.
    assert (HP : hl s1 /\ (crashed s1 = false -> frame_eq s s1)).
    { eapply (drain_inv (fun x => hl x /\ (crashed x = false -> frame_eq s x)));
        [| |split; [exact Hhsq | intros _; exact Hfsq]|exact Ed].
      - intros x m rest x2 r [Hx Hfx] Hcx _ Hqx Htx.
        pose proof (hl_pop x m rest Hx) as Hxp.
        split; [eapply hl_tx; eassumption|]. intros Hc2.
        destruct Hxp as [Fp [Dp Gp]].
        destruct (run_tx_ff _ m x2 r Fp Dp Gp Htx) as [Hcr|[rec Hok]].
        + destruct Hcr as [K _]. congruence.
        + destruct (pop_st_popped x m rest) as [[P1 [P2 [P3 [P4 [P5 P6]]]]] _ _ _ _ _ _ _ _ _ _].
          destruct (Hfx Hcx) as [X1 [X2 [X3 X4]]]. destruct Hok.
          repeat split; congruence.
      - intros x [Hx Hfx] Hcx _ _. split; [exact Hx|]. intros _. exact (Hfx Hcx). }
    destruct HP as [Hh1 Hf1]. split; [exact Hh1|]. split; [exact Hf1|].
    intros Hok Hc1. subst ok. destruct (drain_done _ _ _ _ _ Ed) as [H|[H|H]].
    + congruence.
    + destruct Hh1 as [_ [_ G]]. congruence.
    + exact H.
Qed.

(* one call on an idle machine without handlers: the result is decided by
   the acceptance of the resolved target *)
Lemma top_one_nh : forall f sq mu s1 res ok,
  hl sq -> has_handlers sq = false -> crashed sq = false -> queue sq = [mu] ->
  mu_auto mu = false ->
  process_queue (S f) sq = (s1, res, ok) ->
  res = if setup_accepted sq mu (resolve (sc sq) (topo sq) (active sq) (mu_type mu) (mu_called mu))
        then Executed else Canceled.
Proof.
  intros f sq mu s1 res ok Hh Hnh Hc Hq Hna Hp.
  unfold process_queue in Hp. rewrite Hq in Hp.
  destruct (drain (S f) sq None) as [[s' first] ok'] eqn:Ed.
  injection Hp as E1 E2 E3. subst s' ok'.
  rewrite drain_S in Ed. destruct Hh as [Fq [Dq Gq]]. rewrite Hc, Gq, Hq in Ed. cbn [orb] in Ed.
  destruct (run_tx (pop_st sq mu []) mu) as [s2 r] eqn:Etx.
  pose proof (drain_first _ _ _ _ _ _ Ed) as Hfirst. subst first. subst res.
  destruct (pop_st_popped sq mu []) as [[P1 [P2 [P3 [P4 [P5 P6]]]]] Pcl Pact Pa Ptx Pev Pcr Pd Ph Pq _].
  assert (Hnhp : has_handlers (pop_st sq mu []) = false)
    by (unfold has_handlers in *; rewrite P5; exact Hnh).
  rewrite (run_tx_nh _ _ _ _ Hnhp (hl_pop sq mu [] (conj Fq (conj Dq Gq))) Hna Etx).
  rewrite P1, P2, Pact. rewrite (setup_accepted_sc _ sq _ _ P1). reflexivity.
Qed.

(* a completed check on an idle machine without handlers leaves it as it was *)
Lemma top_check_nh : forall fuel s mu s1 res,
  hl s -> has_handlers s = false -> crashed s = false -> queue s = [] ->
  mu_check mu = true -> mu_auto mu = false -> mu_qtick mu = 0%N ->
  process_queue fuel (prepend_mut s mu) = (s1, res, true) ->
  crashed s1 = false ->
  (exists f, fuel = S f) /\ active s1 = active s /\ queue s1 = [] /\
  res = if setup_accepted s mu (resolve (sc s) (topo s) (active s) (mu_type mu) (mu_called mu))
        then Executed else Canceled.
Proof.
  intros fuel s mu s1 res Hh Hnh Hc Hq Hck Hna Hqt Hp Hc1.
  set (sq := prepend_mut s mu) in *.
  assert (Hqsq : queue sq = [mu]) by (unfold sq, prepend_mut; unset; prj; rewrite Hq; reflexivity).
  assert (Hhsq : hl sq) by exact Hh.
  assert (Hnhsq : has_handlers sq = false) by exact Hnh.
  assert (Hcsq : crashed sq = false) by exact Hc.
  destruct fuel as [|f].
  { unfold process_queue in Hp. rewrite Hqsq in Hp. cbn [drain] in Hp. discriminate. }
  split; [exists f; reflexivity|].
  pose proof (top_one_nh f sq mu s1 res true Hhsq Hnhsq Hcsq Hqsq Hna Hp) as Hres.
  split; [|split; [|exact Hres]].
  - unfold process_queue in Hp. rewrite Hqsq in Hp.
    destruct (drain (S f) sq None) as [[s' first] ok'] eqn:Ed.
    injection Hp as E1 E2 E3. subst s' ok'.
    rewrite drain_S in Ed. destruct Hhsq as [Fq [Dq Gq]]. rewrite Hcsq, Gq, Hqsq in Ed.
    cbn [orb] in Ed.
    destruct (run_tx (pop_st sq mu []) mu) as [s2 r] eqn:Etx.
    destruct (pop_st_popped sq mu []) as [[P1 [P2 [P3 [P4 [P5 P6]]]]] Pcl Pact Pa Ptx Pev Pcr Pd Ph Pq _].
    assert (Hnhp : has_handlers (pop_st sq mu []) = false)
      by (unfold has_handlers in *; rewrite P5; exact Hnhsq).
    destruct (check_pure_step_nohandlers_lemma _ _ _ _ Hnhp Hck Etx) as [K1 [K2 [K3 [K4 K5]]]].
    assert (Hact1 : active s1 = active s2).
    { destruct f as [|f']; [cbn [drain] in Ed; congruence|].
      rewrite drain_S in Ed. destruct (crashed s2 || hung s2); [congruence|].
      rewrite K5, Pq in Ed.
      assert (G : s1 = add_ev s2 EvQueueEnd) by congruence. rewrite G. reflexivity. }
    rewrite Hact1, K2, Pact. reflexivity.
  - unfold process_queue in Hp. rewrite Hqsq in Hp.
    destruct (drain (S f) sq None) as [[s' first] ok'] eqn:Ed.
    injection Hp as E1 E2 E3. subst s' ok'.
    destruct (drain_done _ _ _ _ _ Ed) as [H|[H|H]]; [congruence| |exact H].
    assert (Hh1 : hl s1).
    { eapply (drain_inv hl); [| |exact Hhsq|exact Ed].
      - intros x m rest x2 r Hx _ _ _ Htx. eapply hl_tx; [apply hl_pop; exact Hx | exact Htx].
      - intros x Hx _ _ _. exact Hx. }
    destruct Hh1 as [_ [_ G]]. congruence.
Qed.

(* the resolver does not see duplicates in the called list *)
Lemma uniq_acc_idem_app : forall S seen A,
  uniq_acc seen (uniq_acc seen S ++ A) = uniq_acc seen (S ++ A).
Proof.
  induction S as [|x r IH]; intros seen A; [reflexivity|].
  cbn [uniq_acc app]. destruct (mem x seen) eqn:E.
  - apply IH.
  - cbn [app uniq_acc]. rewrite E. f_equal. apply IH.
Qed.

Lemma uniq_idem_app : forall S A, uniq (uniq S ++ A) = uniq (S ++ A).
Proof. intros S A. unfold uniq. apply uniq_acc_idem_app. Qed.

Lemma mem_uniq : forall x l, mem x (uniq l) = mem x l.
Proof.
  intros x l. destruct (mem x l) eqn:E.
  - apply mem_In. apply uniq_In. apply mem_In. exact E.
  - apply mem_false. intros H. apply (proj1 (uniq_In _ _)) in H. apply mem_In in H. congruence.
Qed.

Lemma parse_add_loop_ext : forall c c' l v,
  rc_schema c = rc_schema c' -> rc_before c = rc_before c' ->
  (forall n, add_of c n = add_of c' n) ->
  parse_add_loop c v l = parse_add_loop c' v l.
Proof.
  intros c c' l. induction l as [|n r IH]; intros v Hs Hb Ha; [reflexivity|].
  cbn [parse_add_loop]. rewrite Hs, Hb, Ha.
  destruct (mem n (rc_before c') && negb (s_multi (sget (rc_schema c') n))); [apply IH; assumption|].
  destruct (mem n v); [apply IH; assumption|].
  destruct (add_of c' n); [apply IH; assumption|]. f_equal. apply IH; assumption.
Qed.

Lemma target_states_ctx_ext : forall c c' ts,
  rc_schema c = rc_schema c' -> rc_before c = rc_before c' ->
  rc_topology c = rc_topology c' ->
  (forall n, add_of c n = add_of c' n) ->
  target_states c ts = target_states c' ts.
Proof.
  intros c c' ts Hs Hb Ht Ha.
  assert (Hpa : forall l, parse_add c l = parse_add c' l).
  { intros l. unfold parse_add. rewrite (parse_add_loop_ext c c' l [] Hs Hb Ha). reflexivity. }
  unfold target_states, target_unsorted. rewrite Hs, Ht, !Hpa. reflexivity.
Qed.

Lemma resolve_uniq : forall sch tp act mt S,
  resolve sch tp act mt (uniq S) = resolve sch tp act mt S.
Proof.
  intros sch tp act mt S. unfold resolve.
  set (c := {| rc_schema := sch; rc_before := act; rc_mtype := mt; rc_called := uniq S;
               rc_topology := tp |}).
  set (c' := {| rc_schema := sch; rc_before := act; rc_mtype := mt; rc_called := S;
                rc_topology := tp |}).
  assert (Hctx : forall ts, target_states c ts = target_states c' ts).
  { intros ts. apply target_states_ctx_ext; try reflexivity.
    intros n. unfold add_of, c, c'. cbn [rc_mtype rc_called rc_schema].
    apply filter_ext. intros a. rewrite mem_uniq. reflexivity. }
  rewrite Hctx. unfold target_states, target_unsorted.
  assert (Hu : uniq (states_to_set mt (uniq S) act) = uniq (states_to_set mt S act)).
  { destruct mt; cbn [states_to_set].
    - apply uniq_idem_app.
    - f_equal. apply filter_ext. intros a. rewrite mem_uniq. reflexivity.
    - pose proof (uniq_idem_app S []) as H. rewrite !app_nil_r in H. exact H. }
  rewrite Hu. reflexivity.
Qed.

Lemma diff_len0 : forall l tg,
  Nat.eqb (length (diff l tg)) 0 = forallb (fun x => mem x tg) l.
Proof.
  intros l tg. induction l as [|x r IH]; [reflexivity|].
  unfold diff in *. cbn [filter forallb]. destruct (mem x tg); cbn [negb andb length].
  - exact IH.
  - reflexivity.
Qed.

Lemma forallb_uniq : forall (f : nat -> bool) l, forallb f (uniq l) = forallb f l.
Proof.
  intros f l. destruct (forallb f l) eqn:E.
  - rewrite forallb_forall in *. intros x Hx. apply E. apply uniq_In. exact Hx.
  - destruct (forallb f (uniq l)) eqn:E2; [|reflexivity].
    rewrite forallb_forall in E2.
    assert (H : forallb f l = true).
    { apply forallb_forall. intros x Hx. apply E2. apply uniq_In. exact Hx. }
    congruence.
Qed.

(* acceptance of CanAdd/CanRemove S and of Add/Remove S coincide (no Multi state in S) *)
Lemma accept_check_equiv : forall s mt S args args' tick tg,
  existsb (fun x => s_multi (sget (sc s) x)) S = false ->
  setup_accepted s (check_mut mt S args) tg
  = setup_accepted s {| mu_type := mt; mu_called := uniq S; mu_auto := false; mu_check := false;
                        mu_args := args'; mu_qtick := tick |} tg.
Proof.
  intros s mt S args args' tick tg Hm. unfold setup_accepted, check_mut.
  cbn [mu_type mu_called mu_auto mu_check]. destruct mt; try reflexivity;
    cbn [andb negb]; rewrite Hm, !diff_len0, forallb_uniq;
    destruct (forallb (fun x => mem x tg) S); reflexivity.
Qed.

Lemma list_eqb_eq : forall a b, list_eqb a b = true -> a = b.
Proof.
  induction a as [|x r IH]; intros [|y q] H; try discriminate; [reflexivity|].
  cbn [list_eqb] in H. apply andb_true_iff in H. destruct H as [H1 H2].
  apply Nat.eqb_eq in H1. subst. f_equal. apply IH. exact H2.
Qed.

Lemma top_mutation_nh : forall f s mt sts args s1 res ok,
  hl s -> has_handlers s = false -> crashed s = false -> queue s = [] ->
  top_mutation (S f) s mt sts args = (s1, res, ok) ->
  res = if setup_accepted s
             {| mu_type := mt; mu_called := uniq sts; mu_auto := false; mu_check := false;
                mu_args := args; mu_qtick := (qpending s + 1 + qtick s)%N |}
             (resolve (sc s) (topo s) (active s) mt (uniq sts))
        then Executed else Canceled.
Proof.
  intros f s mt sts args s1 res ok Hh Hnh Hc Hq Heq. unfold top_mutation, queue_mutation in Heq.
  rewrite Hq in Heq. cbn [is_dup existsb] in Heq. rewrite andb_false_r in Heq.
  assert (Ht : ((qpending s + 1 + qtick s) =? 0)%N = false) by (apply N.eqb_neq; lia).
  rewrite Ht in Heq.
  destruct (process_queue (S f) _) as [[s2 r] ok'] eqn:Epq in Heq.
  injection Heq as H1 H2 H3. subst s2 r ok'.
  match type of Epq with
  | process_queue (S f) ?sq = _ => set (sq0 := sq) in *
  end.
  set (mu := {| mu_type := mt; mu_called := uniq sts; mu_auto := false; mu_check := false;
                mu_args := args; mu_qtick := (qpending s + 1 + qtick s)%N |}) in *.
  assert (Hqs : queue sq0 = [mu]) by reflexivity.
  rewrite (top_one_nh f sq0 mu s1 res ok Hh Hnh Hc Hqs eq_refl Epq).
  reflexivity.
Qed.

Definition nh_ok (s : st) : Prop :=
  hl s /\ has_handlers s = false /\ crashed s = false /\ queue s = [] /\ qlimit s <> 0%N.

Lemma nh_ok_step : forall fuel s c s1 res,
  nh_ok s -> top_api fuel s c = (s1, res, true) -> crashed s1 = false ->
  nh_ok s1 /\ sc s1 = sc s /\ topo s1 = topo s.
Proof.
  intros fuel s c s1 res [Hh [Hnh [Hc [Hq Hl]]]] Heq Hc1.
  destruct (top_api_frame _ _ _ _ _ _ Hh Hc Hq Heq) as [Hh1 [Hf Hq1]].
  destruct (Hf Hc1) as [F1 [F2 [F3 F4]]].
  split; [|split; assumption].
  split; [exact Hh1|]. split; [unfold has_handlers in *; rewrite F3; exact Hnh|].
  split; [exact Hc1|]. split; [apply Hq1; [reflexivity | exact Hc1]|]. rewrite F4. exact Hl.
Qed.

Lemma nh_limit : forall s, nh_ok s -> limit_hit s = false.
Proof.
  intros s [_ [_ [_ [Hq Hl]]]]. unfold limit_hit, qlen. rewrite Hq. cbn [length N.of_nat].
  apply N.leb_gt. lia.
Qed.

Lemma predict_pair : forall fuel s c1 c2 s1 res1 s2 res2 ok2,
  nh_ok s -> top_api fuel s c1 = (s1, res1, true) -> crashed s1 = false ->
  top_api fuel s1 c2 = (s2, res2, ok2) ->
  (ac_kind c1 = KCanAdd /\ ac_kind c2 = KAdd \/ ac_kind c1 = KCanRemove /\ ac_kind c2 = KRemove) ->
  ac_states c1 = ac_states c2 ->
  existsb (fun x => s_multi (sget (sc s) x)) (ac_states c1) = false ->
  res_class res1 = res_class res2.
Proof.
  intros fuel s c1 c2 s1 res1 s2 res2 ok2 Hn H1 Hc1 H2 Hk Hst Hm.
  destruct (nh_ok_step _ _ _ _ _ Hn H1 Hc1) as [Hn1 [Hsc Htp]].
  pose proof (nh_limit _ Hn1) as Hl1.
  destruct Hn as [Hh [Hnh [Hc [Hq Hl]]]]. destruct Hn1 as [Hh1 [Hnh1 [_ [Hq1 _]]]].
  assert (Hres : forall mt args,
            process_queue fuel (prepend_mut s (check_mut mt (ac_states c1) args)) = (s1, res1, true) ->
            top_mutation fuel s1 mt (ac_states c2) (ac_args c2) = (s2, res2, ok2) ->
            res1 = res2).
  { intros mt args P1 P2.
    destruct (top_check_nh fuel s (check_mut mt (ac_states c1) args) s1 res1 Hh Hnh Hc Hq
                eq_refl eq_refl eq_refl P1 Hc1)
      as [[f Hf] [Hact [_ Hr1]]].
    subst fuel.
    rewrite (top_mutation_nh f s1 mt _ _ s2 res2 ok2 Hh1 Hnh1 Hc1 Hq1 P2). rewrite Hr1.
    cbn [check_mut mu_type mu_called]. rewrite Hsc, Htp, Hact, <- Hst, resolve_uniq.
    rewrite (accept_check_equiv s mt (ac_states c1) args (ac_args c2)
               (qpending s1 + 1 + qtick s1)%N _ Hm).
    rewrite (setup_accepted_sc s s1 _ _ (eq_sym Hsc)). reflexivity. }
  unfold top_api in H1, H2. destruct Hk as [[K1 K2]|[K1 K2]]; rewrite K1 in H1; rewrite K2 in H2.
  - unfold top_add in H2. rewrite Hl1 in H2. cbn [andb] in H2.
    rewrite (Hres MAdd _ H1 H2). reflexivity.
  - unfold top_remove in H2. rewrite Hl1 in H2. cbn [andb] in H2.
    rewrite (Hres MRemove _ H1 H2). reflexivity.
Qed.

Lemma predicts_run : forall fuel cs s s' obs ok,
  nh_ok s -> run_calls_top fuel s cs [] = (s', obs, ok) ->
  predicts_codes (sc s) cs obs = [].
Proof.
  intros fuel. induction cs as [|c1 r IH]; intros s s' obs ok Hn Heq; [reflexivity|].
  pose proof Hn as [Hh [Hnh [Hc [Hq Hl]]]].
  cbn [run_calls_top] in Heq. destruct Hh as [Hff [Hd Hg]]. rewrite Hc, Hg in Heq.
  cbn [orb] in Heq.
  destruct (top_api fuel s c1) as [[s1 res1] ok1] eqn:Et1.
  destruct (crashed s1 || hung s1) eqn:Ech.
  - injection Heq as _ H _. subst obs. destruct r; reflexivity.
  - apply orb_false_iff in Ech. destruct Ech as [Ec1 Eg1].
    destruct ok1.
    + rewrite run_calls_top_acc in Heq.
      destruct (run_calls_top fuel s1 r []) as [[s'' obs_r] ok''] eqn:Er.
      injection Heq as _ H _. subst obs. cbn [rev app].
      destruct (nh_ok_step _ _ _ _ _ Hn Et1 Ec1) as [Hn1 [Hsc _]].
      pose proof (IH s1 s'' obs_r ok'' Hn1 Er) as Hrest. rewrite Hsc in Hrest.
      destruct r as [|c2 r']; [reflexivity|].
      destruct obs_r as [|o2 or']; [reflexivity|].
      cbn [predicts_codes]. cbn [predicts_codes] in Hrest. rewrite Hrest, app_nil_r.
      (* the second observation *)
      assert (Ho2 : exists s2 ok2, top_api fuel s1 c2 = (s2, co_result o2, ok2)).
      { cbn [run_calls_top] in Er. rewrite Ec1, Eg1 in Er. cbn [orb] in Er.
        destruct (top_api fuel s1 c2) as [[s2 res2] ok2] eqn:Et2.
        destruct (crashed s2 || hung s2); [discriminate|].
        destruct ok2.
        - rewrite run_calls_top_acc in Er.
          destruct (run_calls_top fuel s2 r' []) as [[sx ox] okx].
          cbn [rev app] in Er. exists s2, true. injection Er. intros. subst o2. reflexivity.
        - cbn [rev app] in Er. exists s2, false. injection Er. intros. subst o2. reflexivity. }
      destruct Ho2 as [s2 [ok2 Et2]]. cbn [co_result].
      destruct (ac_kind c1) eqn:K1; try reflexivity; destruct (ac_kind c2) eqn:K2; try reflexivity.
      * destruct (list_eqb (ac_states c1) (ac_states c2)
                  && negb (existsb (fun x => s_multi (sget (sc s) x)) (ac_states c1))
                  && negb (ac_args c1) && negb (ac_args c2)) eqn:Econd; [|reflexivity].
        apply andb_true_iff in Econd. destruct Econd as [Econd _].
        apply andb_true_iff in Econd. destruct Econd as [Econd _].
        apply andb_true_iff in Econd. destruct Econd as [E1 E2].
        apply list_eqb_eq in E1. apply negb_true_iff in E2.
        rewrite (predict_pair fuel s c1 c2 s1 res1 s2 (co_result o2) ok2 Hn Et1 Ec1 Et2
                   (or_introl (conj K1 K2)) E1 E2).
        rewrite Nat.eqb_refl. reflexivity.
      * destruct (list_eqb (ac_states c1) (ac_states c2)
                  && negb (existsb (fun x => s_multi (sget (sc s) x)) (ac_states c1))
                  && negb (ac_args c1) && negb (ac_args c2)) eqn:Econd; [|reflexivity].
        apply andb_true_iff in Econd. destruct Econd as [Econd _].
        apply andb_true_iff in Econd. destruct Econd as [Econd _].
        apply andb_true_iff in Econd. destruct Econd as [E1 E2].
        apply list_eqb_eq in E1. apply negb_true_iff in E2.
        rewrite (predict_pair fuel s c1 c2 s1 res1 s2 (co_result o2) ok2 Hn Et1 Ec1 Et2
                   (or_intror (conj K1 K2)) E1 E2).
        rewrite Nat.eqb_refl. reflexivity.
    + injection Heq as _ H _. subst obs. cbn [rev app]. destruct r; reflexivity.
Qed.

(* C03 (e), code 35: without bound handlers a check predicts the mutation *)
Lemma predicts_codes_run_lemma : forall fuel sch tp hl ex ql acts cs,
  fault_free acts -> ql <> 0%N ->
  predicts_codes sch cs (tr_calls (run fuel (init_st sch tp hl ex [] ql acts) cs)) = [].
Proof.
  intros fuel sch tp hl0 ex ql acts cs Hff Hql. unfold run.
  destruct (run_calls_top fuel (init_st sch tp hl0 ex [] ql acts) cs []) as [[s1 obs] ok] eqn:Er.
  cbn [tr_calls].
  apply (predicts_run fuel cs (init_st sch tp hl0 ex [] ql acts) s1 obs ok); [|exact Er].
  split; [repeat split; assumption|]. repeat split. exact Hql.
Qed.

Lemma c03_codes_run_nohandlers_lemma : forall fuel sch tp hl ex ql acts cs,
  fault_free acts -> ql <> 0%N ->
  refs_ok sch = true -> ex < length sch ->
  (forall a c x, In a acts -> In c (ha_calls a) -> In x (ac_states c) -> x < length sch) ->
  (forall c x, In c cs -> In x (ac_states c) -> x < length sch) ->
  c03_codes sch true cs (run fuel (init_st sch tp hl ex [] ql acts) cs) = [].
Proof.
  intros. unfold c03_codes. rewrite calls_codes_run_lemma by assumption.
  apply predicts_codes_run_lemma; assumption.
Qed.

Lemma predicts_codes_run_nonvacuous_lemma :
  let cs := [{| ac_kind := KCanAdd; ac_states := [1; 1]; ac_args := false |};
             {| ac_kind := KAdd; ac_states := [1; 1]; ac_args := false |};
             {| ac_kind := KCanRemove; ac_states := [1]; ac_args := false |};
             {| ac_kind := KRemove; ac_states := [1]; ac_args := false |}] in
  let tr := run 100 (init_st rf_schema [] [] 2 [] 10%N []) cs in
  map co_result (tr_calls tr) = [Executed; Executed; Executed; Executed] /\
  c03_codes rf_schema true cs tr = [].
Proof. vm_compute. split; reflexivity. Qed.

(* with a zero queue limit the statement is false: CanAdd does not look at
   the limit, Add does *)
Lemma predicts_codes_run_limit_refuted_lemma :
  exists fuel sch tp hl ex acts cs,
    fault_free acts /\
    predicts_codes sch cs (tr_calls (run fuel (init_st sch tp hl ex [] 0%N acts) cs)) = [35%N].
Proof.
  exists 100, rf_schema, [], [], 2, [],
         [{| ac_kind := KCanAdd; ac_states := [1]; ac_args := false |};
          {| ac_kind := KAdd; ac_states := [1]; ac_args := false |}].
  vm_compute. split; reflexivity.
Qed.

(* C14 (h) needs the fuel: a drain cut short leaves queued mutations without
   a transition *)
Lemma c14_codes_run_fuel_refuted_lemma :
  exists fuel sch tp hl ex bs ql acts cs,
    fault_free acts /\
    tr_fuel_ok (run fuel (init_st sch tp hl ex bs ql acts) cs) = false /\
    c14_codes (run fuel (init_st sch tp hl ex bs ql acts) cs) [] = [142%N].
Proof.
  exists 0, rf_schema, [], [], 2, [], 10%N, [],
         [{| ac_kind := KAdd; ac_states := [1]; ac_args := false |}].
  vm_compute. repeat split; reflexivity.
Qed.

Lemma check_pure_step_nonvacuous_lemma :
  let s := init_st [rf_sd false false []; rf_sd false false []; rf_sd false true []]
                   [] [] 2 [[HEnter 1]] 10%N
                   [{| ha_ret := true;
                       ha_calls := [{| ac_kind := KAdd; ac_states := [0]; ac_args := false |}];
                       ha_fault := FNone |}] in
  let mu := check_mut MAdd [1] false in
  fault_free (actions s) /\ loop_dead s = false /\ hung s = false /\ mu_check mu = true /\
  snd (run_tx s mu) = Executed /\
  clock (fst (run_tx s mu)) = clock s /\ active (fst (run_tx s mu)) = active s /\
  qtick (fst (run_tx s mu)) = qtick s /\ length (hlog (fst (run_tx s mu))) = 1.
Proof. vm_compute. repeat split; reflexivity. Qed.
