(* C14 under handler faults — proofs. The bracket clause and the
   fault-aware trace predicate Spec/C14f.c14f_codes hold on every run of the
   model, whatever the scripted faults (FPanic and FStall alike): the model
   never kills the handler loop, a fault only cancels / reverts the
   transition it occurs in, and every clause of c14f_codes other than the
   bracket clause is judged on transitions that consumed no faulty action. *)

From Coq Require Import List Bool Arith NArith Lia.
From AMV Require Import Base.ListSet Model.Schema Model.Resolver Model.Machine
  Spec.C01 Spec.C14 Spec.C14f.
From AMV Require Import Proofs.C03C14Proofs.
Import ListNotations.

(* ------------------------------------------------------------------ *)
(* clean prefixes of the script                                        *)
(* ------------------------------------------------------------------ *)

Definition nofault (a : haction) : bool :=
  match ha_fault a with FNone => true | _ => false end.

Definition cl (n : nat) (l : list haction) : Prop := forallb nofault (firstn n l) = true.

Lemma cl_0 : forall l, cl 0 l.
Proof. intros l. reflexivity. Qed.

Lemma cl_add : forall n1 n2 l, cl (n1 + n2) l <-> cl n1 l /\ cl n2 (skipn n1 l).
Proof.
  unfold cl. induction n1 as [|n1 IH]; intros n2 l.
  - cbn [Nat.add firstn skipn forallb]. tauto.
  - destruct l as [|a l].
    + cbn [skipn]. rewrite !firstn_nil. cbn [forallb]. tauto.
    + cbn [Nat.add firstn skipn forallb]. rewrite !andb_true_iff, IH. tauto.
Qed.

Lemma cl_S_hd : forall n l, cl (S n) l -> ha_fault (hd default_action l) = FNone.
Proof.
  unfold cl. intros n [|a l] H; [reflexivity|].
  cbn [firstn forallb] in H. apply andb_true_iff in H. destruct H as [H _].
  cbn [hd]. unfold nofault in H. destruct (ha_fault a); [reflexivity|discriminate|discriminate].
Qed.

(* ------------------------------------------------------------------ *)
(* what handler activity can touch, faults included                    *)
(* ------------------------------------------------------------------ *)

(* [n] scripted actions were consumed (one handler-log entry each) *)
Record wstep (n : nat) (s s' : st) : Prop := {
  w_txs : txs s' = txs s;
  w_crashed : crashed s' = crashed s;
  w_dead : loop_dead s' = loop_dead s;
  w_hung : hung s' = hung s;
  w_evs : evs_grow s s';
  w_acts : actions s' = skipn n (actions s);
  w_hlog : length (hlog s') = n + length (hlog s)
}.

Lemma wstep_refl : forall s, wstep 0 s s.
Proof. intros s. constructor; try reflexivity. apply evs_grow_refl. Qed.

Lemma wstep_trans : forall n1 n2 s1 s2 s3,
  wstep n1 s1 s2 -> wstep n2 s2 s3 -> wstep (n1 + n2) s1 s3.
Proof.
  intros n1 n2 s1 s2 s3 [T1 C1 D1 H1 E1 A1 L1] [T2 C2 D2 H2 E2 A2 L2].
  constructor; try congruence.
  - eapply evs_grow_trans; eassumption.
  - rewrite A2, A1. apply skipn_skipn'.
  - lia.
Qed.

Lemma wstep_mach : forall n s s' c a, wstep n s s' -> wstep n s (set_mach s' c a).
Proof. intros n s s' c a [T C D H E A L]. constructor; unset; prj; assumption. Qed.

Lemma hstep_frame : forall s s',
  hstep s s' ->
  txs s' = txs s /\ crashed s' = crashed s /\ loop_dead s' = loop_dead s /\
  hung s' = hung s /\ clock s' = clock s /\ evs_grow s s'.
Proof. intros s s' [[] _ E _]. repeat split; assumption. Qed.

(* nested calls never touch the handler log *)
Lemma queue_mutation_hlog : forall s mt states args,
  hlog (fst (queue_mutation s mt states args)) = hlog s.
Proof. intros. unfold queue_mutation. destruct (_ && _ && _); reflexivity. Qed.

Lemma nested_api_hlog : forall s c, hlog (fst (nested_api s c)) = hlog s.
Proof.
  intros s c.
  assert (HA : forall s states args, hlog (fst (nested_add s states args)) = hlog s).
  { intros s0 states args. unfold nested_add. destruct (_ && _); [reflexivity|].
    pose proof (queue_mutation_hlog s0 MAdd states args) as H.
    destruct (queue_mutation s0 MAdd states args) as [s1 tick]. cbn [fst] in H.
    destruct (tick =? 0)%N; exact H. }
  assert (HR : forall s states args, hlog (fst (nested_remove s states args)) = hlog s).
  { intros s0 states args. unfold nested_remove. destruct (_ && _); [reflexivity|].
    destruct (_ && _); [reflexivity|].
    pose proof (queue_mutation_hlog s0 MRemove states args) as H.
    destruct (queue_mutation s0 MRemove states args) as [s1 tick]. cbn [fst] in H.
    destruct (tick =? 0)%N; exact H. }
  unfold nested_api. destruct (ac_kind c).
  - apply HA.
  - apply HR.
  - unfold nested_set. destruct (limit_hit s); [reflexivity|].
    pose proof (queue_mutation_hlog s MSet (ac_states c) (ac_args c)) as H.
    destruct (queue_mutation s MSet (ac_states c) (ac_args c)) as [s1 tick]. cbn [fst] in H.
    destruct (tick =? 0)%N; exact H.
  - destruct (mach_is s (ac_states c)); [apply HR | apply HA].
  - destruct (limit_hit s); [reflexivity|]. rewrite HA. reflexivity.
  - reflexivity.
  - reflexivity.
Qed.

Lemma run_calls_hlog : forall cs s, hlog (fst (run_calls s cs)) = hlog s.
Proof.
  induction cs as [|c r IH]; intros s; [reflexivity|].
  cbn [run_calls]. pose proof (nested_api_hlog s c) as H1.
  destruct (nested_api s c) as [s1 res]. cbn [fst] in H1.
  pose proof (IH s1) as H2. destruct (run_calls s1 r) as [s2 rs]. cbn [fst] in *. congruence.
Qed.

(* one handler invocation *)
Lemma invoke_w : forall s e1,
  let a := hd default_action (actions s) in
  let s0 := set_actions s (tl (actions s)) in
  let s1 := fst (run_calls s0 (ha_calls a)) in
  wstep 1 s (set_hlog s1 (e1 :: hlog s1)) /\ clock (set_hlog s1 (e1 :: hlog s1)) = clock s.
Proof.
  intros s e1 a s0 s1.
  pose proof (invoke_hstep s e1) as H. cbv zeta in H. fold a s0 s1 in H.
  destruct (hstep_frame _ _ H) as [F1 [F2 [F3 [F4 [F5 F6]]]]].
  split; [|exact F5]. constructor; try assumption.
  - pose proof (ns_acts _ _ _ (run_calls_nsteps (ha_calls a) s0)) as HA. fold s1 in HA.
    unset. prj. rewrite HA. unfold s0. unset. prj. symmetry. apply skipn_1_tl.
  - unset. prj. cbn [length]. unfold s1. rewrite run_calls_hlog. reflexivity.
Qed.

Lemma recover_to_err_w : forall s t k,
  wstep 0 s (recover_to_err s t k) /\
  (is_final_key k = false -> clock (recover_to_err s t k) = clock s).
Proof.
  intros s t k. unfold recover_to_err. destruct (mem (exc s) (mu_called (t_mut t))).
  - split; [apply wstep_refl | reflexivity].
  - split.
    + destruct (is_final_key k); unfold prepend_mut, recover_final_phase; unset; prj;
        (constructor; unset; prj; try reflexivity);
        exists [EvQueued false false]; prj; repeat split.
    + intros Hk. rewrite Hk. reflexivity.
Qed.

Lemma call_bindings_w : forall bs s t k bi caught inv s' r,
  loop_dead s = false ->
  call_bindings s t k bs bi caught inv = (s', r) ->
  exists n, wstep n s s' /\
    (is_final_key k = false -> clock s' = clock s) /\
    (cl n (actions s) -> inv = false ->
       clock s' = clock s /\ hr_invalidated r = false /\
       (is_final_key k = true -> hr_ok r = negb caught)).
Proof.
  induction bs as [|b rest IH]; intros s t k bi caught inv s' r Hdead Heq.
  - cbn [call_bindings] in Heq. injection Heq as Hs Hr. subst s' r. exists 0.
    split; [apply wstep_refl|]. split; [reflexivity|]. intros _ Hi. subst inv.
    cbn [hr_invalidated hr_ok andb]. repeat split.
  - cbn [call_bindings] in Heq. destruct (existsb (hkey_eqb k) b).
    + rewrite Hdead in Heq. destruct inv.
      * destruct (is_final_key k) eqn:Ek.
        -- destruct (IH _ _ _ _ _ _ _ _ Hdead Heq) as [n [W [Hc _]]]. exists n.
           split; [exact W|]. split; [discriminate|]. intros _ Hi. discriminate Hi.
        -- injection Heq as Hs Hr. subst s' r. exists 0.
           split; [apply wstep_refl|]. split; [reflexivity|]. intros _ Hi. discriminate Hi.
      * pose proof (invoke_w s) as Hinv. cbv zeta in Hinv.
        destruct (run_calls (set_actions s (tl (actions s)))
                            (ha_calls (hd default_action (actions s)))) as [s1 rs] eqn:Erc.
        cbn [fst] in Hinv.
        match type of Heq with
        | context [set_hlog s1 (?e :: hlog s1)] =>
          specialize (Hinv e); set (s2 := set_hlog s1 (e :: hlog s1)) in *
        end.
        destruct Hinv as [W1 K1].
        assert (Hd2 : loop_dead s2 = false) by (rewrite (w_dead _ _ _ W1); exact Hdead).
        assert (Hcl1 : forall m, cl (1 + m) (actions s) ->
                  ha_fault (hd default_action (actions s)) = FNone /\ cl m (actions s2)).
        { intros m Hm. split; [eapply cl_S_hd; exact Hm|].
          apply (proj1 (cl_add 1 m _)) in Hm. destruct Hm as [_ Hm].
          rewrite (w_acts _ _ _ W1). exact Hm. }
        destruct (ha_fault (hd default_action (actions s))) eqn:Ef.
        -- destruct (negb (is_final_key k) && negb (ha_ret (hd default_action (actions s)))) eqn:En.
           ++ injection Heq as Hs Hr. subst s' r. exists 1.
              split; [exact W1|]. split; [intros _; exact K1|]. intros _ _.
              cbn [hr_invalidated hr_ok]. split; [exact K1|]. split; [reflexivity|].
              intros Hk. rewrite Hk in En. discriminate En.
           ++ destruct (IH _ _ _ _ _ _ _ _ Hd2 Heq) as [n [W [Hc Hg]]]. exists (1 + n).
              split; [eapply wstep_trans; eassumption|].
              split; [intros Hk; rewrite (Hc Hk); exact K1|].
              intros Hm Hi. destruct (Hcl1 _ Hm) as [_ Hm2].
              destruct (Hg Hm2 Hi) as [G1 [G2 G3]].
              split; [congruence|]. split; assumption.
        -- destruct (recover_to_err_w s2 t k) as [W2 K2].
           set (s3 := recover_to_err s2 t k) in *.
           assert (Hd3 : loop_dead s3 = false) by (rewrite (w_dead _ _ _ W2); exact Hd2).
           destruct (is_final_key k) eqn:Ek.
           ++ destruct (IH _ _ _ _ _ _ _ _ Hd3 Heq) as [n [W [Hc Hg]]]. exists (1 + (0 + n)).
              split; [eapply wstep_trans; [exact W1|]; eapply wstep_trans; eassumption|].
              split; [discriminate|].
              intros Hm _. destruct (Hcl1 _ Hm) as [Hm1 _]. discriminate Hm1.
           ++ injection Heq as Hs Hr. subst s' r. exists (1 + 0).
              split; [eapply wstep_trans; eassumption|].
              split; [intros _; rewrite (K2 eq_refl); exact K1|].
              intros Hm _. destruct (Hcl1 _ Hm) as [Hm1 _]. discriminate Hm1.
        -- injection Heq as Hs Hr. subst s' r. exists 1.
           split; [exact W1|]. split; [intros _; exact K1|].
           intros Hm _. destruct (Hcl1 _ Hm) as [Hm1 _]. discriminate Hm1.
    + apply (IH _ _ _ _ _ _ _ _ Hdead Heq).
Qed.

(* ------------------------------------------------------------------ *)
(* one handler event, the negotiation phase, the final phase           *)
(* ------------------------------------------------------------------ *)

(* from (s, t) to (s', t'): the frame, and - when no consumed action was
   faulty and the transition was not invalidated before - nothing else
   moved and [G] holds *)
Definition fstepr (G : Prop) (s : st) (t : tstate) (s' : st) (t' : tstate) : Prop :=
  exists n, wstep n s s' /\ t_clock_before t' = t_clock_before t /\
    (cl n (actions s) -> t_invalid t = false ->
       t_invalid t' = false /\ t_accepted t' = t_accepted t /\ clock s' = clock s /\ G).

Lemma fstepr_refl : forall s t, fstepr True s t s t.
Proof.
  intros s t. exists 0. split; [apply wstep_refl|]. split; [reflexivity|].
  intros _ H. repeat split. exact H.
Qed.

Lemma fstepr_trans : forall (G1 G2 G : Prop) s t s1 t1 s2 t2,
  fstepr G1 s t s1 t1 -> fstepr G2 s1 t1 s2 t2 -> (G1 -> G2 -> G) -> fstepr G s t s2 t2.
Proof.
  intros G1 G2 G s t s1 t1 s2 t2 [n1 [W1 [B1 C1]]] [n2 [W2 [B2 C2]]] HG.
  exists (n1 + n2). split; [eapply wstep_trans; eassumption|]. split; [congruence|].
  intros Hc Hi. apply cl_add in Hc. destruct Hc as [Hc1 Hc2].
  rewrite <- (w_acts _ _ _ W1) in Hc2.
  destruct (C1 Hc1 Hi) as [I1 [A1 [K1 g1]]]. destruct (C2 Hc2 I1) as [I2 [A2 [K2 g2]]].
  split; [exact I2|]. split; [congruence|]. split; [congruence|]. apply HG; assumption.
Qed.

Lemma fstepr_weaken : forall (G G' : Prop) s t s' t',
  fstepr G s t s' t' -> (G -> G') -> fstepr G' s t s' t'.
Proof.
  intros G G' s t s' t' [n [W [B C]]] HG. exists n. split; [exact W|]. split; [exact B|].
  intros Hc Hi. destruct (C Hc Hi) as [I1 [A1 [K1 g1]]]. repeat split; try assumption.
  apply HG. exact g1.
Qed.

Lemma fstepr_dead : forall G s t s' t', fstepr G s t s' t' -> loop_dead s' = loop_dead s.
Proof. intros G s t s' t' [n [W _]]. exact (w_dead _ _ _ W). Qed.

Lemma fstepr_hung : forall G s t s' t', fstepr G s t s' t' -> hung s' = hung s.
Proof. intros G s t s' t' [n [W _]]. exact (w_hung _ _ _ W). Qed.

Lemma handle_w : forall s t k s' t' ok,
  loop_dead s = false -> handle s t k = (s', t', ok) ->
  fstepr (is_final_key k = true -> ok = true) s t s' t' /\
  (is_final_key k = false -> clock s' = clock s).
Proof.
  intros s t k s' t' ok Hd Heq. unfold handle in Heq.
  destruct (call_bindings s t k (bindings s) 0 false (t_invalid t)) as [s1 r] eqn:Ecb.
  injection Heq as Hs Ht Hok. subst s1 t' ok.
  destruct (call_bindings_w _ _ _ _ _ _ _ _ _ Hd Ecb) as [n [W [Hc Hg]]].
  split; [|exact Hc]. exists n. split; [exact W|]. split.
  - destruct (hr_invalidated r); reflexivity.
  - intros Hcl Hi. destruct (Hg Hcl Hi) as [G1 [G2 G3]]. rewrite G2.
    split; [exact Hi|]. split; [reflexivity|]. split; [exact G1|]. exact G3.
Qed.

(* negotiation: the clock never moves, whatever the faults *)
Definition nstepr (s : st) (t : tstate) (s' : st) (t' : tstate) : Prop :=
  fstepr True s t s' t' /\ clock s' = clock s.

Definition nrel (s : st) (t : tstate) (res : st * tstate * nres) : Prop :=
  let '(s', t', _) := res in nstepr s t s' t'.

Lemma nstepr_refl : forall s t, nstepr s t s t.
Proof. intros s t. split; [apply fstepr_refl | reflexivity]. Qed.

Lemma nstepr_trans : forall s t s1 t1 s2 t2,
  nstepr s t s1 t1 -> nstepr s1 t1 s2 t2 -> nstepr s t s2 t2.
Proof.
  intros s t s1 t1 s2 t2 [F1 K1] [F2 K2]. split; [|congruence].
  eapply fstepr_trans; [exact F1 | exact F2 | tauto].
Qed.

Lemma nstepr_del : forall s t s1 t1 tg,
  nstepr s t s1 t1 -> nstepr s t s1 (with_target t1 tg).
Proof.
  intros s t s1 t1 tg [[n [W [B C]]] K]. split; [|exact K].
  exists n. split; [exact W|]. split; [exact B|]. exact C.
Qed.

Lemma nrel_here : forall s t s' t' nr, nstepr s t s' t' -> nrel s t (s', t', nr).
Proof. intros. assumption. Qed.

Lemma nrel_trans : forall s t s1 t1 res, nstepr s t s1 t1 -> nrel s1 t1 res -> nrel s t res.
Proof.
  intros s t s1 t1 [[s' t'] nr] H1 H2. cbn [nrel] in *. eapply nstepr_trans; eassumption.
Qed.

Lemma nstepr_dead : forall s t s' t', nstepr s t s' t' -> loop_dead s = false -> loop_dead s' = false.
Proof. intros s t s' t' [F _] H. rewrite (fstepr_dead _ _ _ _ _ F). exact H. Qed.

Lemma handle_n : forall s t k s' t' ok,
  loop_dead s = false -> is_final_key k = false -> handle s t k = (s', t', ok) ->
  nstepr s t s' t' /\ loop_dead s' = false.
Proof.
  intros s t k s' t' ok Hd Hk Heq. destruct (handle_w _ _ _ _ _ _ Hd Heq) as [F K].
  assert (N : nstepr s t s' t').
  { split; [|exact (K Hk)]. eapply fstepr_weaken; [exact F | tauto]. }
  split; [exact N | eapply nstepr_dead; eassumption].
Qed.

Ltac neg_cases IH :=
  repeat match goal with |- context [if ?b then _ else _] => destruct b end;
  first [ apply nrel_here; assumption
        | eapply nrel_trans; [eassumption | apply IH; assumption]
        | eapply nrel_trans; [apply nstepr_del; eassumption | apply IH; assumption] ].

Lemma emit_exits_w : forall l s t, loop_dead s = false -> nrel s t (emit_exits s t l).
Proof.
  induction l as [|x r IH]; intros s t Hd.
  - cbn [emit_exits]. apply nrel_here, nstepr_refl.
  - cbn [emit_exits]. destruct (handle s t (HExit x)) as [[s1 t1] ok] eqn:Eh.
    destruct (handle_n _ _ (HExit x) _ _ _ Hd eq_refl Eh) as [N1 Hd1]. neg_cases IH.
Qed.

Lemma emit_enters_w : forall l s t, loop_dead s = false -> nrel s t (emit_enters s t l).
Proof.
  induction l as [|x r IH]; intros s t Hd.
  - cbn [emit_enters]. apply nrel_here, nstepr_refl.
  - cbn [emit_enters]. destruct (handle s t (HEnter x)) as [[s1 t1] ok] eqn:Eh.
    destruct (handle_n _ _ (HEnter x) _ _ _ Hd eq_refl Eh) as [N1 Hd1]. neg_cases IH.
Qed.

Lemma emit_selfs_w : forall fuel s t arr i last,
  loop_dead s = false -> nrel s t (emit_selfs fuel s t arr i last).
Proof.
  induction fuel as [|f IH]; intros s t arr i last Hd.
  - cbn [emit_selfs]. apply nrel_here, nstepr_refl.
  - cbn [emit_selfs]. destruct (nth_error arr i) as [[x|]|].
    + destruct (negb (is_active s x)); [apply IH; exact Hd|].
      destruct (handle s t (HSelf x)) as [[s1 t1] ok] eqn:Eh.
      destruct (handle_n _ _ (HSelf x) _ _ _ Hd eq_refl Eh) as [N1 Hd1]. neg_cases IH.
    + apply IH. exact Hd.
    + apply nrel_here, nstepr_refl.
Qed.

Lemma emit_trans_inner_w : forall after s t b,
  loop_dead s = false -> nrel s t (emit_trans_inner s t b after).
Proof.
  induction after as [|a r IH]; intros s t b Hd.
  - cbn [emit_trans_inner]. apply nrel_here, nstepr_refl.
  - cbn [emit_trans_inner]. destruct (Nat.eqb b a); [apply IH; exact Hd|].
    destruct (handle s t (HTrans b a)) as [[s1 t1] ok] eqn:Eh.
    destruct (handle_n _ _ (HTrans b a) _ _ _ Hd eq_refl Eh) as [N1 Hd1]. neg_cases IH.
Qed.

Lemma emit_trans_w : forall before s t after,
  loop_dead s = false -> nrel s t (emit_trans s t before after).
Proof.
  induction before as [|b r IH]; intros s t after Hd.
  - cbn [emit_trans]. apply nrel_here, nstepr_refl.
  - cbn [emit_trans]. pose proof (emit_trans_inner_w after s t b Hd) as H1.
    destruct (emit_trans_inner s t b after) as [[s1 t1] nr].
    destruct nr; try exact H1. cbn [nrel] in H1.
    eapply nrel_trans; [exact H1|]. apply IH. eapply nstepr_dead; eassumption.
Qed.

Lemma negotiate_w : forall s t, loop_dead s = false -> nrel s t (negotiate s t).
Proof.
  intros s t Hd. unfold negotiate.
  pose proof (emit_exits_w (t_exits t) s t Hd) as H1.
  destruct (emit_exits s t (t_exits t)) as [[s1 t1] nr1].
  destruct nr1; try exact H1. cbn [nrel] in H1.
  assert (Hd1 : loop_dead s1 = false) by (eapply nstepr_dead; eassumption).
  eapply nrel_trans; [exact H1|].
  pose proof (emit_enters_w (t_enters t1) s1 t1 Hd1) as H2.
  destruct (emit_enters s1 t1 (t_enters t1)) as [[s2 t2] nr2].
  destruct nr2; try exact H2. cbn [nrel] in H2.
  assert (Hd2 : loop_dead s2 = false) by (eapply nstepr_dead; eassumption).
  eapply nrel_trans; [exact H2|].
  assert (H3 : nrel s2 t2
            match mu_type (t_mut t2) with
            | MRemove => (s2, t2, NOk)
            | _ => emit_selfs (S (length (t_target t2))) s2 t2 (map Some (t_target t2)) 0 true
            end).
  { destruct (mu_type (t_mut t2)); try (apply emit_selfs_w; exact Hd2).
    apply nrel_here, nstepr_refl. }
  destruct (match mu_type (t_mut t2) with
            | MRemove => (s2, t2, NOk)
            | _ => emit_selfs (S (length (t_target t2))) s2 t2 (map Some (t_target t2)) 0 true
            end) as [[s3 t3] nr3].
  destruct nr3; try exact H3. cbn [nrel] in H3.
  assert (Hd3 : loop_dead s3 = false) by (eapply nstepr_dead; eassumption).
  eapply nrel_trans; [exact H3|]. apply emit_trans_w. exact Hd3.
Qed.

(* final handlers: without a fault nobody cancels *)
Lemma emit_finals_w : forall l s t s' t' fk,
  loop_dead s = false -> emit_finals s t l = (s', t', fk) ->
  fstepr (fk = None) s t s' t'.
Proof.
  induction l as [|x r IH]; intros s t s' t' fk Hd Heq.
  - cbn [emit_finals] in Heq. injection Heq as H1 H2 H3. subst.
    eapply fstepr_weaken; [apply fstepr_refl | reflexivity].
  - cbn [emit_finals] in Heq.
    set (k := if mem x (t_enters t) then HState x else HEnd x) in *.
    assert (Hk : is_final_key k = true) by (unfold k; destruct (mem x (t_enters t)); reflexivity).
    destruct (handle s t k) as [[s1 t1] ok] eqn:Eh.
    destruct (handle_w _ _ _ _ _ _ Hd Eh) as [F1 _].
    destruct ok.
    + assert (Hd1 : loop_dead s1 = false) by (rewrite (fstepr_dead _ _ _ _ _ F1); exact Hd).
      eapply fstepr_trans; [exact F1 | exact (IH _ _ _ _ _ Hd1 Heq) | tauto].
    + injection Heq as H1 H2 H3. subst. eapply fstepr_weaken; [exact F1|].
      intros H. specialize (H Hk). discriminate H.
Qed.

(* ------------------------------------------------------------------ *)
(* one transition, faults included                                     *)
(* ------------------------------------------------------------------ *)

Ltac simp_in H :=
  unfold add_ev, add_tx, set_ticks, set_queue, set_mach, set_actions, set_hlog,
         set_crashed, set_fault_flags in H;
  cbn [sc topo health exc bindings qlimit clock active queue qtick qpending
       actions hlog txs evs crashed loop_dead hung err_code] in H.

(* [n] actions consumed; [fin]: TransitionFinals was emitted. The clauses
   of C14 that speak about the reported times hold when no consumed action
   was faulty. *)
Record tx_w (s s' : st) (rec : txrec) (fin : bool) (n : nat) : Prop := {
  tw_dead : loop_dead s' = loop_dead s;
  tw_hung : hung s' = hung s;
  tw_crashed : crashed s' = crashed s;
  tw_txs : txs s' = rec :: txs s;
  tw_acts : actions s' = skipn n (actions s);
  tw_hlog : length (hlog s') = n + length (hlog s);
  tw_hfrom : tx_hfrom rec = length (hlog s);
  tw_hto : tx_hto rec = length (hlog s');
  tw_before : tx_before rec = clock s;
  tw_mafter : tx_mach_after rec = clock s';
  tw_evs : exists qs1 qs2,
    evs s' = EvEnd :: qs2 ++ (if fin then [EvFinals] else []) ++ qs1
             ++ EvStart :: EvInit :: evs s /\
    forallb qev qs1 = true /\ forallb qev qs2 = true /\
    length (queue s') = length qs2 + length qs1 + length (queue s);
  tw_clean : cl n (actions s) ->
    fin = fin_of rec /\ tx_after rec = clock s' /\
    (fin_of rec = false -> tx_before rec = tx_after rec)
}.

Record midw (s : st) (mu : mutation) (s2 : st) (t1 : tstate) (n : nat) : Prop := {
  mw_txs : txs s2 = txs s;
  mw_crashed : crashed s2 = crashed s;
  mw_dead : loop_dead s2 = loop_dead s;
  mw_hung : hung s2 = hung s;
  mw_clock : clock s2 = clock s;
  mw_acts : actions s2 = skipn n (actions s);
  mw_hlog : length (hlog s2) = n + length (hlog s);
  mw_evs : exists qs, evs s2 = qs ++ EvStart :: EvInit :: evs s /\ forallb qev qs = true /\
                      length (queue s2) = length qs + length (queue s);
  mw_cb : t_clock_before t1 = clock s;
  mw_clean : cl n (actions s) ->
    t_invalid t1 = false /\ t_accepted t1 = t_accepted (new_transition s mu)
}.

Lemma midw_of_nstepr : forall s mu s2 t1,
  nstepr (add_ev (add_ev s EvInit) EvStart) (new_transition s mu) s2 t1 ->
  exists n, midw s mu s2 t1 n.
Proof.
  intros s mu s2 t1 [[n [W [B C]]] K]. exists n.
  destruct (new_transition_facts s mu) as [_ [_ [F3 [F4 _]]]]. cbv zeta in F3, F4.
  destruct W as [W1 W2 W3 W4 W5 W6 W7].
  simp_in W1. simp_in W2. simp_in W3. simp_in W4. simp_in W6. simp_in W7. simp_in K. simp_in C.
  constructor; try assumption.
  - congruence.
  - intros Hc. destruct (C Hc F4) as [I1 [A1 _]]. split; assumption.
Qed.

Lemma fin_check_w : forall s mu s2 t1 n c3,
  midw s mu s2 t1 n ->
  tx_w s (fst (fin_check (length (hlog s)) mu s2 t1 c3))
         (check_rec (length (hlog s)) mu s2 t1 c3) false n.
Proof.
  intros s mu s2 t1 n c3 [M1 M2 M3 M4 M5 M6 M7 M8 M9 M10].
  unfold fin_check, check_rec. cbn [fst].
  constructor; unfold fin_of; unset; prj; txprj; try assumption; try reflexivity; try congruence.
  - destruct M8 as [qs [E1 [E2 E3]]]. exists qs, []. cbn [app length].
    repeat split; try assumption. rewrite E1. reflexivity.
  - intros _. rewrite andb_false_r. split; [reflexivity|]. split; [congruence | reflexivity].
Qed.

Lemma fin_cancel_w : forall s mu s2 t1 n,
  midw s mu s2 t1 n ->
  tx_w s (fst (fin_cancel (length (hlog s)) mu s2 (requery s2 mu t1)))
         (cancel_rec (length (hlog s)) mu s2 (requery s2 mu t1)) false n.
Proof.
  intros s mu s2 t1 n [M1 M2 M3 M4 M5 M6 M7 M8 M9 M10].
  destruct (requery_facts s2 mu t1) as [_ [_ [G3 _]]]. cbv zeta in G3.
  unfold fin_cancel, cancel_rec. cbn [fst].
  constructor; unfold fin_of; unset; prj; txprj; try assumption; try reflexivity; try congruence.
  - destruct M8 as [qs [E1 [E2 E3]]]. exists qs, []. cbn [app length].
    repeat split; try assumption. rewrite E1. reflexivity.
  - intros _. cbn [andb]. split; [reflexivity|]. split; [reflexivity | congruence].
Qed.

Lemma ph_finals_w : forall s3 t2 s4 t3 fc,
  loop_dead s3 = false -> hung s3 = false -> ph_finals s3 t2 = (s4, t3, fc) ->
  fstepr (fc = false) s3 t2 s4 t3.
Proof.
  intros s3 t2 s4 t3 fc Hd Hh Heq. unfold ph_finals in Heq. destruct (has_handlers s3).
  - destruct (emit_finals s3 t2 (t_exits t2 ++ t_enters t2)) as [[sx tx] fk] eqn:Ef.
    pose proof (emit_finals_w _ _ _ _ _ _ Hd Ef) as F.
    destruct fk as [k|].
    + assert (Hhx : hung sx = false) by (rewrite (fstepr_hung _ _ _ _ _ F); exact Hh).
      rewrite Hhx in Heq. injection Heq as H1 H2 H3. subst s4 t3 fc.
      destruct F as [n [W [B C]]]. exists n. unfold recover_final_phase.
      split; [apply wstep_mach; exact W|]. split; [exact B|].
      intros Hc Hi. destruct (C Hc Hi) as [_ [_ [_ H]]]. discriminate H.
    + injection Heq as H1 H2 H3. subst s4 t3 fc. eapply fstepr_weaken; [exact F | reflexivity].
  - injection Heq as H1 H2 H3. subst s4 t3 fc.
    eapply fstepr_weaken; [apply fstepr_refl | reflexivity].
Qed.

Lemma ph_anystate_w : forall s4 t3 fc s5 t4 fc2,
  loop_dead s4 = false -> ph_anystate s4 t3 fc = (s5, t4, fc2) ->
  fstepr (fc = false -> fc2 = false) s4 t3 s5 t4.
Proof.
  intros s4 t3 fc s5 t4 fc2 Hd Heq. unfold ph_anystate in Heq.
  destruct (has_handlers s4 && negb fc).
  - destruct (handle s4 t3 HAnyState) as [[sx tx] ok] eqn:Eh.
    injection Heq as H1 H2 H3. subst s5 t4 fc2.
    destruct (handle_w _ _ _ _ _ _ Hd Eh) as [F _].
    eapply fstepr_weaken; [exact F|]. intros H _. rewrite (H eq_refl). reflexivity.
  - injection Heq as H1 H2 H3. subst s5 t4 fc2.
    eapply fstepr_weaken; [apply fstepr_refl | tauto].
Qed.

Lemma ph_anyenter_w : forall sA s1 t1 c2 s2 t1' c3,
  loop_dead s1 = false -> ph_anyenter sA s1 t1 c2 = (s2, t1', c3) ->
  nstepr s1 t1 s2 t1' /\ (c2 = true -> c3 = true).
Proof.
  intros sA s1 t1 c2 s2 t1' c3 Hd Heq. unfold ph_anyenter in Heq.
  destruct (has_handlers sA && negb c2) eqn:E.
  - destruct (handle s1 t1 HAnyEnter) as [[sx tx] ok] eqn:Eh.
    injection Heq as H1 H2 H3. subst s2 t1' c3.
    destruct (handle_n _ _ HAnyEnter _ _ _ Hd eq_refl Eh) as [N _]. split; [exact N|].
    intros Hc. subst c2. rewrite andb_false_r in E. discriminate E.
  - injection Heq as H1 H2 H3. subst s2 t1' c3. split; [apply nstepr_refl | tauto].
Qed.

Lemma ph_neg_w : forall s t, loop_dead s = false -> nrel s t (ph_neg s t).
Proof.
  intros s t Hd. unfold ph_neg. destruct (_ && _).
  - apply negotiate_w. exact Hd.
  - apply nrel_here, nstepr_refl.
Qed.

Lemma maybe_auto_w : forall (b : bool) s t,
  fstepr True s t (if b then prepend_auto s else s) t.
Proof.
  intros b s t. destruct b; [|apply fstepr_refl]. exists 0.
  split; [|split; [reflexivity | intros _ H; repeat split; try assumption]].
  - unfold prepend_auto. destruct (auto_candidates (sc s) (active s)) as [|c r];
      [apply wstep_refl|].
    unfold prepend_mut. constructor; unset; prj; try reflexivity.
    eexists [_]. prj. repeat split.
  - unfold prepend_auto. destruct (auto_candidates (sc s) (active s)); reflexivity.
Qed.

Lemma fin_apply_w : forall s mu s2 t1 n s' r,
  midw s mu s2 t1 n -> loop_dead s = false -> hung s = false ->
  (cl n (actions s) -> t_accepted t1 = true) ->
  fin_apply (length (hlog s)) mu s2 (requery s2 mu t1) = (s', r) ->
  exists rec m, tx_w s s' rec true m.
Proof.
  intros s mu s2 t1 n s' r [M1 M2 M3 M4 M5 M6 M7 M8 M9 M10] Hd Hh Hacc Heq.
  destruct (requery_facts s2 mu t1) as [_ [_ [G3 [G4 [G5 _]]]]]. cbv zeta in G3, G4, G5.
  unfold fin_apply in Heq.
  set (t2 := requery s2 mu t1) in *.
  set (c := set_active_clock (sc s2) (clock s2) (active s2) (mu_called mu) (t_target t2)) in *.
  set (s3 := add_ev (set_mach s2 c (t_target t2)) EvFinals) in *.
  assert (Hd3 : loop_dead s3 = false) by (unfold s3; unset; prj; congruence).
  assert (Hh3 : hung s3 = false) by (unfold s3; unset; prj; congruence).
  destruct (ph_finals s3 t2) as [[s4 t3] fc] eqn:E4.
  pose proof (ph_finals_w _ _ _ _ _ Hd3 Hh3 E4) as F34.
  assert (Hh4 : hung s4 = false) by (rewrite (fstepr_hung _ _ _ _ _ F34); exact Hh3).
  assert (Hd4 : loop_dead s4 = false) by (rewrite (fstepr_dead _ _ _ _ _ F34); exact Hd3).
  rewrite Hh4 in Heq.
  destruct (ph_anystate s4 t3 fc) as [[s5 t4] fc2] eqn:E5.
  pose proof (ph_anystate_w _ _ _ _ _ _ Hd4 E5) as F45.
  assert (Hh5 : hung s5 = false) by (rewrite (fstepr_hung _ _ _ _ _ F45); exact Hh4).
  rewrite Hh5 in Heq.
  match type of Heq with
  | context [if ?b then prepend_auto s5 else s5] =>
    set (bb := b) in Heq; set (s6 := if bb then prepend_auto s5 else s5) in Heq;
    pose proof (maybe_auto_w bb s5 t4) as F56; fold s6 in F56
  end.
  assert (F36 : fstepr (fc2 = false) s3 t2 s6 t4).
  { eapply fstepr_trans; [exact F34 | | ].
    - eapply fstepr_trans; [exact F45 | exact F56 | intros H _; exact H].
    - cbv beta. tauto. }
  injection Heq as Hs Hr. subst s'.
  destruct F36 as [m [W [B C]]]. destruct W as [W1 W2 W3 W4 W5 W6 W7].
  unfold s3 in W1, W2, W3, W4, W5, W6, W7, C.
  simp_in W1. simp_in W2. simp_in W3. simp_in W4. simp_in W6. simp_in W7. simp_in C.
  match goal with |- context [add_tx s6 ?rc] => set (rec0 := rc) end.
  exists rec0, (n + m).
  constructor; unset; prj; try congruence; try reflexivity;
    try (unfold rec0; txprj; congruence).
  - rewrite W6, M6. apply skipn_skipn'.
  - lia.
  - destruct M8 as [q1 [E1 [E2 E3]]]. destruct W5 as [q2 [K1 [K2 K3]]].
    simp_in K1. simp_in K3. exists q1, q2. cbn [app].
    split; [rewrite K1, E1; reflexivity|]. split; [exact E2|]. split; [exact K2|]. lia.
  - intros Hc. apply cl_add in Hc. destruct Hc as [Hc1 Hc2]. rewrite <- M6 in Hc2.
    destruct (M10 Hc1) as [I1 A1].
    assert (I2 : t_invalid t2 = false) by congruence.
    destruct (C Hc2 I2) as [I4 [A4 [K4 Hfc]]].
    assert (Hf : fin_of rec0 = true).
    { unfold fin_of, rec0. txprj. rewrite A4, G4, (Hacc Hc1), Hfc. reflexivity. }
    rewrite Hf. split; [reflexivity|]. split; [unfold rec0; txprj; symmetry; exact K4 | discriminate].
Qed.

Lemma tx_tail_w : forall s mu s1 t1 c2 s' r,
  nstepr (add_ev (add_ev s EvInit) EvStart) (new_transition s mu) s1 t1 ->
  (t_accepted (new_transition s mu) = false -> c2 = true) ->
  loop_dead s = false -> hung s = false ->
  tx_tail s mu s1 t1 c2 = (s', r) -> exists rec fin n, tx_w s s' rec fin n.
Proof.
  intros s mu s1 t1 c2 s' r N1 Hc Hd Hh Heq. unfold tx_tail in Heq.
  assert (Hd1 : loop_dead s1 = false) by (eapply nstepr_dead; [exact N1 | exact Hd]).
  destruct (ph_anyenter (add_ev (add_ev s EvInit) EvStart) s1 t1 c2) as [[s2 t1'] c3] eqn:E2.
  destruct (ph_anyenter_w _ _ _ _ _ _ _ Hd1 E2) as [N2 Hc3].
  pose proof (nstepr_trans _ _ _ _ _ _ N1 N2) as N.
  destruct (midw_of_nstepr _ _ _ _ N) as [n M].
  assert (Hh2 : hung s2 = false) by (rewrite (mw_hung _ _ _ _ _ M); exact Hh).
  rewrite Hh2 in Heq.
  destruct (mu_check mu).
  - eexists. exists false, n. rewrite (surjective_pairing (fin_check _ _ _ _ _)) in Heq.
    injection Heq as Hs Hr. subst s'. apply fin_check_w. exact M.
  - cbv zeta in Heq. destruct c3; cbn [negb] in Heq.
    + eexists. exists false, n. unfold fin_cancel in Heq. injection Heq as Hs Hr. subst s'.
      apply (fin_cancel_w s mu s2 t1' n M).
    + destruct (fin_apply_w s mu s2 t1' n s' r M Hd Hh) as [rec [m H]]; [|exact Heq|].
      * intros Hcl. destruct (mw_clean _ _ _ _ _ M Hcl) as [_ A]. rewrite A.
        destruct (t_accepted (new_transition s mu)); [reflexivity|].
        discriminate (Hc3 (Hc eq_refl)).
      * exists rec, true, m. exact H.
Qed.

Definition tx_crash_w (s s' : st) (n : nat) : Prop :=
  crashed s' = true /\ txs s' = txs s /\ clock s' = clock s /\ hung s' = hung s /\
  loop_dead s' = loop_dead s /\ actions s' = skipn n (actions s) /\
  length (hlog s') = n + length (hlog s) /\
  exists qs, evs s' = qs ++ EvStart :: EvInit :: evs s /\ forallb qev qs = true.

Lemma run_tx_w : forall s mu s' r,
  loop_dead s = false -> hung s = false -> run_tx s mu = (s', r) ->
  (exists n, tx_crash_w s s' n) \/ exists rec fin n, tx_w s s' rec fin n.
Proof.
  intros s mu s' r Hd Hh Heq. rewrite run_tx_eq in Heq. unfold run_tx' in Heq.
  set (sA := add_ev (add_ev s EvInit) EvStart) in *.
  set (t0 := new_transition s mu) in *.
  assert (HdA : loop_dead sA = false) by exact Hd.
  pose proof (ph_neg_w sA t0 HdA) as Hn.
  destruct (ph_neg sA t0) as [[s1 t1] nr]. cbn [nrel] in Hn.
  destruct (midw_of_nstepr _ _ _ _ Hn) as [n1 M1].
  assert (Hh1 : hung s1 = false) by (rewrite (mw_hung _ _ _ _ _ M1); exact Hh).
  destruct nr.
  - right. rewrite Hh1 in Heq. cbv zeta in Heq.
    eapply (tx_tail_w s mu s1 t1 _ s' r Hn); [| exact Hd | exact Hh | exact Heq].
    fold t0. intros H. rewrite H. destruct (has_handlers sA); reflexivity.
  - right. rewrite Hh1 in Heq. cbv zeta in Heq.
    eapply (tx_tail_w s mu s1 t1 _ s' r Hn); [| exact Hd | exact Hh | exact Heq].
    fold t0. intros H. rewrite H. destruct (has_handlers sA); reflexivity.
  - left. injection Heq as Hs Hr. subst s' r. exists n1.
    destruct M1 as [M1 M2 M3 M4 M5 M6 M7 M8 M9 M10].
    unfold tx_crash_w. unset. prj. repeat split; try assumption.
    destruct M8 as [qs [E1 [E2 _]]]. exists qs. split; assumption.
Qed.

(* ------------------------------------------------------------------ *)
(* faulted transitions and the script                                  *)
(* ------------------------------------------------------------------ *)

Lemma nth_skipn_hd : forall (A : Type) h (l : list A) d, nth h l d = hd d (skipn h l).
Proof.
  intros A. induction h as [|h IH]; intros l d; destruct l as [|a l]; try reflexivity.
  cbn [nth skipn]. apply IH.
Qed.

Lemma unfaulted_cl : forall acts n h,
  existsb (act_faulted acts) (seq h n) = false -> cl n (skipn h acts).
Proof.
  intros acts. induction n as [|n IH]; intros h H; [apply cl_0|].
  cbn [seq existsb] in H. apply orb_false_iff in H. destruct H as [H1 H2].
  change (S n) with (1 + n). apply cl_add. split.
  - unfold cl. unfold act_faulted in H1. rewrite nth_skipn_hd in H1.
    destruct (skipn h acts) as [|a l]; [reflexivity|]. cbn [hd] in H1.
    cbn [firstn forallb]. unfold nofault. destruct (ha_fault a); [reflexivity|discriminate|discriminate].
  - rewrite skipn_skipn', Nat.add_1_r. apply IH. exact H2.
Qed.

Lemma unfaulted_clean : forall acts rec h n,
  tx_hfrom rec = h -> tx_hto rec = n + h -> tx_faulted acts rec = false ->
  cl n (skipn h acts).
Proof.
  intros acts rec h n H1 H2 H. unfold tx_faulted in H. rewrite H1, H2, Nat.add_sub in H.
  apply unfaulted_cl. exact H.
Qed.

(* ------------------------------------------------------------------ *)
(* invariants of a run, faults included                                *)
(* ------------------------------------------------------------------ *)

(* newest-first records: machine time at every TransitionEnd is the
   time-before of the next transition (and the current clock) *)
Fixpoint chainf (cur : list N) (l : list txrec) : Prop :=
  match l with
  | [] => True
  | t :: r => tx_mach_after t = cur /\ chainf (tx_before t) r
  end.

Fixpoint flagsP (fl : txrec -> bool) (a : list bool) (l : list txrec) : Prop :=
  match a, l with
  | [], [] => True
  | x :: r, t :: s => (fl t = false -> x = fin_of t) /\ flagsP fl r s
  | _, _ => False
  end.

Definition goodtx (acts : list haction) (t : txrec) : Prop :=
  tx_faulted acts t = false ->
  tx_after t = tx_mach_after t /\ (fin_of t = false -> tx_before t = tx_after t).

Record finv (acts : list haction) (s : st) : Prop := {
  fi_acts : actions s = skipn (length (hlog s)) acts;
  fi_dead : loop_dead s = false;
  fi_hung : hung s = false;
  fi_chain : chainf (clock s) (txs s);
  fi_good : Forall (goodtx acts) (txs s);
  fi_br : crashed s = false ->
          exists a, brun BIdle [] (rev (evs s)) = Some (BIdle, a) /\
                    flagsP (tx_faulted acts) a (txs s) /\
                    length (filter qev (evs s)) = length (txs s) + length (queue s);
  fi_crash : crashed s = true ->
             exists a, brun BIdle [] (rev (evs s)) = Some (BStart, a)
}.

Lemma pop_st_hlog : forall s mu rest, hlog (pop_st s mu rest) = hlog s.
Proof. intros s mu rest. unfold pop_st. cbv zeta. destruct (0 <? mu_qtick mu)%N; reflexivity. Qed.

Lemma finv_tx : forall acts s mu rest s2 r,
  finv acts s -> crashed s = false -> hung s = false -> queue s = mu :: rest ->
  run_tx (pop_st s mu rest) mu = (s2, r) -> finv acts s2.
Proof.
  intros acts s mu rest s2 r [Ia Id Ih Ich Ig Ib Ik] Hc _ Hq Heq.
  destruct (pop_st_popped s mu rest) as [_ Pcl Pact Pa Ptx Pev Pcr Pd Ph Pq _].
  pose proof (pop_st_hlog s mu rest) as Phl.
  set (p := pop_st s mu rest) in *.
  assert (Hd : loop_dead p = false) by (rewrite Pd; exact Id).
  assert (Hh : hung p = false) by (rewrite Ph; exact Ih).
  destruct (run_tx_w p mu s2 r Hd Hh Heq) as [[n Hcr]|[rec [fin [n Hok]]]].
  - destruct Hcr as [K1 [K2 [K3 [K4 [K5 [K6 [K7 [qs [E1 E2]]]]]]]]].
    constructor.
    + rewrite K6, K7, Pa, Ia, Phl, skipn_skipn'. f_equal. lia.
    + congruence.
    + congruence.
    + rewrite K2, K3, Ptx, Pcl. exact Ich.
    + rewrite K2, Ptx. exact Ig.
    + intros H. congruence.
    + intros _. destruct (Ib Hc) as [a [B1 _]]. rewrite E1, Pev.
      change (qs ++ EvStart :: EvInit :: evs s) with (qs ++ [EvStart; EvInit] ++ evs s).
      rewrite !rev_app_distr. cbn [rev app]. rewrite <- app_assoc. rewrite brun_app, B1.
      cbn [app brun bstep]. rewrite brun_queued; [eexists; reflexivity|].
      rewrite forallb_rev. exact E2.
  - destruct Hok as [T1 T2 T3 T4 T5 T6 T7 T8 T9 T10 T11 T12].
    assert (Hcl : tx_faulted acts rec = false -> cl n (actions p)).
    { intros Hf. rewrite Pa, Ia. eapply unfaulted_clean; [| |exact Hf].
      - rewrite T7, Phl. reflexivity.
      - rewrite T8, T6, Phl. reflexivity. }
    constructor.
    + rewrite T5, T6, Pa, Ia, Phl, skipn_skipn'. f_equal. lia.
    + congruence.
    + congruence.
    + rewrite T4. cbn [chainf]. split; [exact T10|]. rewrite T9, Pcl, Ptx. exact Ich.
    + rewrite T4, Ptx. constructor; [|exact Ig].
      intros Hf. destruct (T12 (Hcl Hf)) as [_ [H2 H3]]. split; [congruence | exact H3].
    + intros Hc2. destruct (Ib Hc) as [a [B1 [B2 B3]]].
      destruct T11 as [q1 [q2 [E1 [E2 [E3 E4]]]]]. exists (fin :: a). split; [|split].
      * rewrite E1, Pev.
        change (EvEnd :: q2 ++ (if fin then [EvFinals] else []) ++ q1
                ++ EvStart :: EvInit :: evs s)
          with ([EvEnd] ++ q2 ++ (if fin then [EvFinals] else []) ++ q1
                ++ [EvStart; EvInit] ++ evs s).
        rewrite !rev_app_distr.
        assert (Hrf : rev (if fin then [EvFinals] else []) = (if fin then [EvFinals] else []))
          by (destruct fin; reflexivity).
        rewrite Hrf. cbn [rev app]. rewrite <- !app_assoc.
        rewrite brun_app, B1.
        change (EvInit :: EvStart :: rev q1 ++ (if fin then [EvFinals] else [])
                ++ rev q2 ++ [EvEnd])
          with ([EvInit; EvStart] ++ rev q1 ++ (if fin then [EvFinals] else [])
                ++ rev q2 ++ [EvEnd]).
        rewrite brun_tx; [reflexivity | rewrite forallb_rev; exact E2
                          | rewrite forallb_rev; exact E3].
      * rewrite T4, Ptx. cbn [flagsP]. split; [|exact B2].
        intros Hf. destruct (T12 (Hcl Hf)) as [H1 _]. exact H1.
      * rewrite E1, T4, Ptx, Pev, E4, Pq. rewrite Hq in B3.
        cbn [filter qev length]. rewrite !filter_app, !app_length.
        rewrite (filter_all _ _ _ E2), (filter_all _ _ _ E3).
        assert (Hz : length (filter qev (if fin then [EvFinals] else [])) = 0)
          by (destruct fin; reflexivity).
        rewrite Hz. cbn [filter qev length] in *. lia.
    + intros Hc2. congruence.
Qed.

Lemma finv_queue_end : forall acts s,
  finv acts s -> crashed s = false -> finv acts (add_ev s EvQueueEnd).
Proof.
  intros acts s [Ia Id Ih Ich Ig Ib Ik] Hc0. constructor; try assumption.
  - intros Hc. destruct (Ib Hc) as [a [B1 [B2 B3]]]. exists a. unset. prj. split; [|split].
    + cbn [rev]. rewrite brun_app, B1. reflexivity.
    + exact B2.
    + cbn [filter qev]. exact B3.
  - unset. prj. intros Hc. congruence.
Qed.

(* a top-level enqueue *)
Record enqw (s sq : st) : Prop := {
  q_clock : clock sq = clock s;
  q_txs : txs sq = txs s;
  q_crashed : crashed sq = crashed s;
  q_dead : loop_dead sq = loop_dead s;
  q_hung : hung sq = hung s;
  q_acts : actions sq = actions s;
  q_hlog : hlog sq = hlog s;
  q_evs : exists a b, evs sq = EvQueued a b :: evs s;
  q_queue : length (queue sq) = S (length (queue s))
}.

Lemma finv_enq : forall acts s sq,
  finv acts s -> crashed s = false -> enqw s sq -> finv acts sq.
Proof.
  intros acts s sq [Ia Id Ih Ich Ig Ib Ik] Hc0 [Q1 Q2 Q3 Q4 Q5 Q6 Q7 [a [b Q8]] Q9].
  constructor; try congruence.
  intros Hc. destruct (Ib Hc0) as [fl [B1 [B2 B3]]]. exists fl. rewrite Q8, Q2, Q9. split; [|split].
  - cbn [rev]. rewrite brun_app, B1. reflexivity.
  - exact B2.
  - cbn [filter qev length]. lia.
Qed.

Record noopw (s s1 : st) : Prop := {
  o_clock : clock s1 = clock s;
  o_txs : txs s1 = txs s;
  o_crashed : crashed s1 = crashed s;
  o_dead : loop_dead s1 = loop_dead s;
  o_hung : hung s1 = hung s;
  o_acts : actions s1 = actions s;
  o_hlog : hlog s1 = hlog s;
  o_evs : evs s1 = evs s;
  o_queue : queue s1 = queue s
}.

Lemma noopw_refl : forall s, noopw s s.
Proof. intros s. constructor; reflexivity. Qed.

Lemma finv_noop : forall acts s s1, finv acts s -> noopw s s1 -> finv acts s1.
Proof.
  intros acts s s1 [Ia Id Ih Ich Ig Ib Ik] [O1 O2 O3 O4 O5 O6 O7 O8 O9].
  constructor; try congruence.
  - rewrite O3, O8, O2, O9. exact Ib.
  - rewrite O3, O8. exact Ik.
Qed.

Lemma top_mutation_w : forall fuel s mt states args s1 res ok,
  top_mutation fuel s mt states args = (s1, res, ok) ->
  s1 = s \/ exists sq, enqw s sq /\ process_queue fuel sq = (s1, res, ok).
Proof.
  intros fuel s mt states args s1 res ok Heq. unfold top_mutation, queue_mutation in Heq.
  destruct (_ && _ && _).
  - cbn [N.eqb] in Heq. injection Heq as H1 H2 H3. left. symmetry. exact H1.
  - assert (Ht : ((qpending s + 1 + qtick s) =? 0)%N = false) by (apply N.eqb_neq; lia).
    rewrite Ht in Heq.
    destruct (process_queue fuel _) as [[s2 r] ok'] eqn:Epq in Heq.
    match type of Epq with
    | process_queue fuel ?sq = _ => set (sq0 := sq) in *
    end.
    injection Heq as H1 H2 H3. subst s2 r ok'. right. exists sq0. split; [|exact Epq].
    unfold sq0. constructor; unset; prj; try reflexivity.
    + eexists. eexists. reflexivity.
    + rewrite app_length. cbn [length]. lia.
Qed.

Lemma enqw_flags : forall s sq e,
  enqw (set_fault_flags s (loop_dead s) (hung s) e) sq -> enqw s sq.
Proof. intros s sq e [Q1 Q2 Q3 Q4 Q5 Q6 Q7 Q8 Q9]. constructor; assumption. Qed.

Lemma prepend_enqw : forall s mu, enqw s (prepend_mut s mu).
Proof.
  intros s mu. unfold prepend_mut. constructor; unset; prj; try reflexivity.
  eexists. eexists. reflexivity.
Qed.

Lemma top_api_w : forall fuel s c s1 res ok,
  top_api fuel s c = (s1, res, ok) ->
  noopw s s1 \/ exists sq, enqw s sq /\ process_queue fuel sq = (s1, res, ok).
Proof.
  intros fuel s c s1 res ok Heq. unfold top_api, top_add, top_remove in Heq.
  assert (Hmut : forall mt st0 ar, top_mutation fuel s mt st0 ar = (s1, res, ok) ->
            noopw s s1 \/ exists sq, enqw s sq /\ process_queue fuel sq = (s1, res, ok)).
  { intros mt st0 ar H. destruct (top_mutation_w _ _ _ _ _ _ _ _ H) as [H1|H1].
    - left. subst s1. apply noopw_refl.
    - right. exact H1. }
  assert (Hnoop : forall r0 o0, (s, r0, o0) = (s1, res, ok) -> noopw s s1).
  { intros r0 o0 H. injection H as H1 H2 H3. subst s1. apply noopw_refl. }
  destruct (ac_kind c).
  - destruct (_ && _); [left; eapply Hnoop; exact Heq | eapply Hmut; exact Heq].
  - destruct (_ && _); [left; eapply Hnoop; exact Heq | eapply Hmut; exact Heq].
  - destruct (limit_hit s); [left; eapply Hnoop; exact Heq | eapply Hmut; exact Heq].
  - destruct (mach_is s (ac_states c)); destruct (_ && _);
      first [left; eapply Hnoop; exact Heq | eapply Hmut; exact Heq].
  - destruct (limit_hit s) eqn:El; [left; eapply Hnoop; exact Heq|].
    assert (Hl' : limit_hit (set_fault_flags s (loop_dead s) (hung s) 1) = false) by exact El.
    rewrite Hl' in Heq. cbn [andb] in Heq.
    destruct (top_mutation_w _ _ _ _ _ _ _ _ Heq) as [H|[sq [He Hp]]].
    + left. subst s1. constructor; reflexivity.
    + right. exists sq. split; [eapply enqw_flags; exact He | exact Hp].
  - right. eexists. split; [apply prepend_enqw | exact Heq].
  - right. eexists. split; [apply prepend_enqw | exact Heq].
Qed.

Lemma process_queue_finv : forall acts fuel sq s1 res ok,
  finv acts sq -> process_queue fuel sq = (s1, res, ok) ->
  finv acts s1 /\ (ok = true -> crashed s1 = false -> queue s1 = []).
Proof.
  intros acts fuel sq s1 res ok Hi Heq. unfold process_queue in Heq.
  destruct (queue sq) as [|m q] eqn:Eq.
  - injection Heq as H1 H2 H3. subst. split; [exact Hi | intros _ _; exact Eq].
  - destruct (drain fuel sq None) as [[s' first] ok'] eqn:Ed.
    injection Heq as H1 H2 H3. subst s' ok'.
    assert (Hi1 : finv acts s1).
    { eapply (drain_inv (finv acts)); [| |exact Hi|exact Ed].
      - intros. eapply finv_tx; eassumption.
      - intros. apply finv_queue_end; assumption. }
    split; [exact Hi1|].
    intros Hok Hc. subst ok. destruct (drain_done _ _ _ _ _ Ed) as [H|[H|H]].
    + congruence.
    + rewrite (fi_hung _ _ Hi1) in H. discriminate.
    + exact H.
Qed.

Lemma top_api_finv : forall acts fuel s c s1 res ok,
  finv acts s -> crashed s = false -> queue s = [] ->
  top_api fuel s c = (s1, res, ok) ->
  finv acts s1 /\ (ok = true -> crashed s1 = false -> queue s1 = []).
Proof.
  intros acts fuel s c s1 res ok Hi Hc Hq Heq.
  destruct (top_api_w _ _ _ _ _ _ Heq) as [Hn|[sq [He Hp]]].
  - split; [eapply finv_noop; eassumption|]. intros _ _. rewrite (o_queue _ _ Hn). exact Hq.
  - eapply process_queue_finv; [|exact Hp]. eapply finv_enq; eassumption.
Qed.

Lemma run_calls_top_finv : forall acts fuel cs s acc s' obs ok,
  finv acts s -> queue s = [] ->
  match acc with o :: _ => co_time o = clock s | [] => True end ->
  run_calls_top fuel s cs acc = (s', obs, ok) ->
  finv acts s' /\ (ok = true -> crashed s' = false -> queue s' = []) /\
  (crashed s' = true \/ match rev obs with o :: _ => co_time o = clock s' | [] => True end).
Proof.
  intros acts fuel. induction cs as [|c r IH]; intros s acc s' obs ok Hi Hq Hacc Heq.
  - cbn [run_calls_top] in Heq. injection Heq as H1 H2 H3. subst.
    split; [exact Hi|]. split; [intros _ _; exact Hq|]. right. rewrite rev_involutive. exact Hacc.
  - cbn [run_calls_top] in Heq. destruct (crashed s) eqn:Ec; cbn [orb] in Heq.
    + injection Heq as H1 H2 H3. subst.
      split; [exact Hi|]. split; [intros _ H; congruence|]. left. exact Ec.
    + rewrite (fi_hung _ _ Hi) in Heq.
      destruct (top_api fuel s c) as [[s1 res] ok1] eqn:Et.
      destruct (top_api_finv _ _ _ _ _ _ _ Hi Ec Hq Et) as [Hi1 Hq1].
      rewrite (fi_hung _ _ Hi1) in Heq. destruct (crashed s1) eqn:Ec1; cbn [orb] in Heq.
      * injection Heq as H1 H2 H3. subst.
        split; [exact Hi1|]. split; [intros _ H; congruence|]. left. exact Ec1.
      * destruct ok1.
        -- eapply IH; [exact Hi1 | apply Hq1; reflexivity | | exact Heq]. reflexivity.
        -- injection Heq as H1 H2 H3. subst.
           split; [exact Hi1|]. split; [discriminate|]. right.
           rewrite ?rev_app_distr, ?rev_involutive. cbn [rev app]. reflexivity.
Qed.

Lemma init_finv : forall sch tp hl ex bs ql acts,
  finv acts (init_st sch tp hl ex bs ql acts).
Proof.
  intros sch tp hl ex bs ql acts. constructor; try reflexivity.
  - constructor.
  - intros _. exists []. repeat split.
  - intros Hc. discriminate Hc.
Qed.

(* ------------------------------------------------------------------ *)
(* from the invariant to the predicates of Spec/C14f.v                 *)
(* ------------------------------------------------------------------ *)

Lemma flags_ok_f_app : forall fl a l a' l',
  flags_ok_f fl a l = true -> flags_ok_f fl a' l' = true ->
  flags_ok_f fl (a ++ a') (l ++ l') = true.
Proof.
  intros fl. induction a as [|x r IH]; intros [|t s] a' l' H1 H2; cbn [flags_ok_f app] in *;
    try discriminate; [exact H2|].
  apply andb_true_iff in H1. destruct H1 as [H1 H3]. rewrite H1. cbn [andb].
  apply IH; assumption.
Qed.

Lemma flagsP_ok : forall fl a l, flagsP fl a l -> flags_ok_f fl (rev a) (rev l) = true.
Proof.
  intros fl. induction a as [|x r IH]; intros [|t s] H; cbn [flagsP] in H; try contradiction.
  - reflexivity.
  - destruct H as [H1 H2]. cbn [rev]. apply flags_ok_f_app; [apply IH; exact H2|].
    cbn [flags_ok_f]. rewrite andb_true_r. destruct (fl t); [reflexivity|].
    rewrite (H1 eq_refl). unfold fin_of. cbn [orb]. apply eqb_reflx.
Qed.

Lemma flagsP_length : forall fl a l, flagsP fl a l -> length a = length l.
Proof.
  intros fl. induction a as [|x r IH]; intros [|t s] H; cbn [flagsP] in H; try contradiction.
  - reflexivity.
  - destruct H as [_ H]. cbn [length]. f_equal. apply IH. exact H.
Qed.

Lemma last_cons : forall (A : Type) (l : list A) a p, last (a :: l) p = last l a.
Proof.
  intros A. induction l as [|b l IH]; intros a p; [reflexivity|].
  change (last (a :: b :: l) p) with (last (b :: l) p). rewrite !IH. reflexivity.
Qed.

Lemma chain_ok_f_snoc : forall fl l p t,
  chain_ok_f fl p (l ++ [t])
  = chain_ok_f fl p l
    && (fl (last l p) || fl t || clock_eqb (tx_after (last l p)) (tx_before t)).
Proof.
  intros fl. induction l as [|a l IH]; intros p t.
  - cbn [app chain_ok_f last]. rewrite andb_true_r. reflexivity.
  - cbn [app chain_ok_f]. rewrite IH, last_cons, andb_assoc. reflexivity.
Qed.

Lemma chainf_ok : forall acts l cur,
  chainf cur l -> Forall (goodtx acts) l ->
  match rev l with
  | [] => True
  | t :: r => chain_ok_f (tx_faulted acts) t r = true
  end.
Proof.
  intros acts. induction l as [|x l IH]; intros cur Hc Hg; [exact I|].
  destruct Hc as [Hm Hc]. specialize (IH _ Hc (Forall_inv_tail Hg)).
  cbn [rev]. destruct (rev l) as [|t r] eqn:E; [reflexivity|].
  cbn [app]. rewrite chain_ok_f_snoc, IH. cbn [andb].
  destruct l as [|y l']; [discriminate E|].
  assert (Hl : last r t = y).
  { rewrite <- (last_cons _ r t t), <- E. cbn [rev]. apply last_last. }
  rewrite Hl. destruct Hc as [Hy _].
  pose proof (Forall_inv (Forall_inv_tail Hg)) as Gy. unfold goodtx in Gy.
  destruct (tx_faulted acts y); [reflexivity|].
  destruct (Gy eq_refl) as [G1 _]. rewrite G1, Hy, clock_eqb_refl. apply orb_true_r.
Qed.

(* ------------------------------------------------------------------ *)
(* the theorems                                                        *)
(* ------------------------------------------------------------------ *)

(* the script only panics *)
Definition panic_only (acts : list haction) : Prop :=
  forallb (fun a => match ha_fault a with FStall => false | _ => true end) acts = true.

(* the handler loop is never lost: no run of the model hangs *)
Lemma never_hung_lemma : forall fuel sch tp hl ex bs ql acts cs,
  tr_hung (run fuel (init_st sch tp hl ex bs ql acts) cs) = false.
Proof.
  intros fuel sch tp hl ex bs ql acts cs. unfold run.
  destruct (run_calls_top fuel (init_st sch tp hl ex bs ql acts) cs []) as [[s1 obs] ok] eqn:Er.
  cbn [tr_hung].
  destruct (run_calls_top_finv acts _ cs _ [] _ _ _ (init_finv sch tp hl ex bs ql acts)
              eq_refl I Er) as [Hi _].
  exact (fi_hung _ _ Hi).
Qed.

(* brackets, any script (FPanic and FStall): every transition is bracketed
   once and in order, and the Finals flags of the transitions that consumed
   no faulty action are right *)
Lemma brackets_run_any_faults_lemma : forall fuel sch tp hl ex bs ql acts cs,
  let tr := run fuel (init_st sch tp hl ex bs ql acts) cs in
  tr_crashed tr = false ->
  exists fl, brackets BIdle (tr_evs tr) [] = Some fl /\ length fl = length (tr_txs tr) /\
             flags_ok_f (tx_faulted acts) fl (tr_txs tr) = true.
Proof.
  intros fuel sch tp hl ex bs ql acts cs. unfold run.
  destruct (run_calls_top fuel (init_st sch tp hl ex bs ql acts) cs []) as [[s1 obs] ok] eqn:Er.
  cbv zeta. cbn [tr_txs tr_evs tr_crashed]. intros Hc.
  destruct (run_calls_top_finv acts _ cs _ [] _ _ _ (init_finv sch tp hl ex bs ql acts)
              eq_refl I Er) as [Hi _].
  destruct (fi_br _ _ Hi Hc) as [a [B1 [B2 _]]]. exists (rev a).
  rewrite brackets_brun, B1. split; [reflexivity|].
  split; [rewrite !rev_length; eapply flagsP_length; exact B2 | apply flagsP_ok; exact B2].
Qed.

Lemma brackets_run_faults_lemma : forall fuel sch tp hl ex bs ql acts cs,
  panic_only acts ->
  let tr := run fuel (init_st sch tp hl ex bs ql acts) cs in
  tr_crashed tr = false ->
  exists fl, brackets BIdle (tr_evs tr) [] = Some fl /\ length fl = length (tr_txs tr).
Proof.
  intros fuel sch tp hl ex bs ql acts cs _ tr Hc.
  destruct (brackets_run_any_faults_lemma fuel sch tp hl ex bs ql acts cs Hc) as [fl [H1 [H2 _]]].
  exists fl. split; assumption.
Qed.

(* the trace-level statement, any script *)
Lemma c14f_codes_run_any_faults_lemma : forall fuel sch tp hl ex bs ql acts cs,
  let tr := run fuel (init_st sch tp hl ex bs ql acts) cs in
  tr_fuel_ok tr = true -> c14f_codes acts tr [] = [].
Proof.
  intros fuel sch tp hl ex bs ql acts cs. unfold run.
  destruct (run_calls_top fuel (init_st sch tp hl ex bs ql acts) cs []) as [[s1 obs] ok] eqn:Er.
  cbv zeta. cbn [tr_fuel_ok]. intros Hok. subst ok.
  destruct (run_calls_top_finv acts _ cs _ [] _ _ _ (init_finv sch tp hl ex bs ql acts)
              eq_refl I Er) as [Hi [Hq Hlast]].
  pose proof (fi_good _ _ Hi) as Hg. rewrite Forall_forall in Hg.
  unfold c14f_codes. cbn [tr_txs tr_evs tr_crashed tr_calls].
  (* 145, 146 *)
  assert (T2 : forallb (fun t => tx_faulted acts t
                 || (if tx_check t || negb (tx_accepted t)
                     then clock_eqb (tx_before t) (tx_after t) else true)) (rev (txs s1)) = true).
  { rewrite forallb_rev. apply forallb_forall. intros t Ht. specialize (Hg t Ht).
    unfold goodtx in Hg. destruct (tx_faulted acts t); [reflexivity|].
    destruct (Hg eq_refl) as [_ G2]. cbn [orb].
    destruct (tx_check t || negb (tx_accepted t)) eqn:E; [|reflexivity].
    rewrite (G2 (proj2 (fin_of_false_iff t) E)). apply clock_eqb_refl. }
  assert (T3 : forallb (fun t => tx_faulted acts t || clock_eqb (tx_after t) (tx_mach_after t))
                       (rev (txs s1)) = true).
  { rewrite forallb_rev. apply forallb_forall. intros t Ht. specialize (Hg t Ht).
    unfold goodtx in Hg. destruct (tx_faulted acts t); [reflexivity|].
    destruct (Hg eq_refl) as [G1 _]. rewrite G1. apply clock_eqb_refl. }
  rewrite T2, T3. cbn [forallb app].
  (* brackets, flags, counts *)
  assert (Hbr : match brackets BIdle (rev (evs s1)) [] with
                | Some fs =>
                    (if length fs =? length (rev (txs s1)) then [] else [142%N]) ++
                    (if flags_ok_f (tx_faulted acts) fs (rev (txs s1)) then [] else [143%N]) ++
                    (if count_ev (fun e : tev => match e with EvQueued _ _ => true | _ => false end)
                                 (rev (evs s1)) =? length (rev (txs s1))
                     then [] else [142%N])
                | None => if crashed s1 then [] else [141%N]
                end = []).
  { rewrite brackets_brun. destruct (crashed s1) eqn:Ec.
    - destruct (fi_crash _ _ Hi Ec) as [a Ha]. rewrite Ha. reflexivity.
    - destruct (fi_br _ _ Hi Ec) as [a [B1 [B2 B3]]]. rewrite B1.
      rewrite !rev_length, (flagsP_length _ _ _ B2), Nat.eqb_refl, (flagsP_ok _ _ _ B2).
      unfold count_ev. change (fun e : tev => match e with EvQueued _ _ => true | _ => false end) with qev.
      rewrite filter_rev, rev_length, B3, (Hq eq_refl eq_refl). cbn [length].
      rewrite Nat.add_0_r, Nat.eqb_refl. reflexivity. }
  rewrite Hbr. cbn [app].
  (* chain *)
  assert (Hch : match rev (txs s1) with
                | [] => []
                | t :: r => if chain_ok_f (tx_faulted acts) t r then [] else [144%N]
                end = []).
  { pose proof (chainf_ok acts _ _ (fi_chain _ _ Hi) (fi_good _ _ Hi)) as H.
    destruct (rev (txs s1)) as [|t r]; [reflexivity|]. rewrite H. reflexivity. }
  rewrite Hch. cbn [app].
  (* last report *)
  rewrite rev_involutive. pose proof (fi_chain _ _ Hi) as Hc1.
  destruct (txs s1) as [|t r] eqn:Etx; [reflexivity|].
  destruct (rev obs) as [|o ro]; [reflexivity|].
  destruct (tx_faulted acts t) eqn:Ef; [reflexivity|]. cbn [orb].
  destruct Hlast as [Hc|Hl].
  - rewrite Hc. reflexivity.
  - destruct Hc1 as [Hm _]. destruct (Hg t (or_introl eq_refl) Ef) as [G1 _].
    rewrite G1, Hm, Hl, clock_eqb_refl, orb_true_r. reflexivity.
Qed.

Lemma c14f_codes_run_faults_lemma : forall fuel sch tp hl ex bs ql acts cs,
  panic_only acts ->
  let tr := run fuel (init_st sch tp hl ex bs ql acts) cs in
  tr_crashed tr = false -> tr_fuel_ok tr = true -> c14f_codes acts tr [] = [].
Proof.
  intros fuel sch tp hl ex bs ql acts cs _ tr _ Hok.
  exact (c14f_codes_run_any_faults_lemma fuel sch tp hl ex bs ql acts cs Hok).
Qed.

(* ------------------------------------------------------------------ *)
(* examples                                                            *)
(* ------------------------------------------------------------------ *)

(* panics in Enter 0 (negotiation), Enter 3 = ExceptionEnter (inside the
   Exception transition) and State 0 (final handler); in the second script
   also a stall in the AnyState handler of the later Remove[Exception] *)
(* stated with every definition inlined, as Props/C14.v restates them *)
Lemma brackets_run_faults_nonvacuous_lemma :
  let mk := fun (au mu : bool) (rq ad rm : list nat) =>
    {| s_auto := au; s_multi := mu; s_require := rq; s_add := ad; s_remove := rm; s_after := [] |} in
  let sch := [ mk false false [] [1] []; mk false true [] [] []; mk true false [1] [] [0];
               mk false true [] [] [] ] in
  let bs := [[HEnter 0; HState 0; HState 1; HEnter 3; HState 3; HAnyState]] in
  let act := fun f => {| ha_ret := true; ha_calls := []; ha_fault := f |} in
  let call := fun k l => {| ac_kind := k; ac_states := l; ac_args := false |} in
  let cs := [ call KAdd [0]; call KRemove [0; 1; 3]; call KAdd [0]; call KRemove [3];
              call KAdd [1]; call KAdd [0] ] in
  let acts := [act FPanic; act FPanic; act FNone; act FNone; act FPanic] in
  let tr := run 100 (init_st sch (topo_sort sch [0; 1; 2; 3]) [] 3 bs 1000 acts) cs in
  forallb (fun a => match ha_fault a with FStall => false | _ => true end) acts = true /\
  tr_crashed tr = false /\
  map hl_key (firstn 5 (tr_hlog tr)) = [HEnter 0; HEnter 3; HAnyState; HEnter 0; HState 0] /\
  map tx_called (tr_txs tr) = [[0]; [3]; [0; 1; 3]; [0]; [3]; [2]; [3]; [2]; [1]; [2]; [0]] /\
  map (tx_faulted acts) (tr_txs tr)
  = [true; true; false; true; false; false; false; false; false; false; false] /\
  brackets BIdle (tr_evs tr) []
  = Some [false; false; true; true; true; false; true; false; true; true; false].
Proof. vm_compute. repeat split; reflexivity. Qed.

Lemma brackets_run_any_faults_nonvacuous_lemma :
  let mk := fun (au mu : bool) (rq ad rm : list nat) =>
    {| s_auto := au; s_multi := mu; s_require := rq; s_add := ad; s_remove := rm; s_after := [] |} in
  let sch := [ mk false false [] [1] []; mk false true [] [] []; mk true false [1] [] [0];
               mk false true [] [] [] ] in
  let bs := [[HEnter 0; HState 0; HState 1; HEnter 3; HState 3; HAnyState]] in
  let act := fun f => {| ha_ret := true; ha_calls := []; ha_fault := f |} in
  let call := fun k l => {| ac_kind := k; ac_states := l; ac_args := false |} in
  let cs := [ call KAdd [0]; call KRemove [0; 1; 3]; call KAdd [0]; call KRemove [3];
              call KAdd [1]; call KAdd [0] ] in
  let acts := [act FPanic; act FPanic; act FNone; act FNone; act FPanic;
               act FNone; act FNone; act FNone; act FStall] in
  let tr := run 100 (init_st sch (topo_sort sch [0; 1; 2; 3]) [] 3 bs 1000 acts) cs in
  tr_crashed tr = false /\
  map hl_key (firstn 9 (tr_hlog tr))
  = [HEnter 0; HEnter 3; HAnyState; HEnter 0; HState 0; HEnter 3; HState 3; HAnyState; HAnyState] /\
  map (tx_faulted acts) (tr_txs tr)
  = [true; true; false; true; false; false; true; false; false; false] /\
  brackets BIdle (tr_evs tr) []
  = Some [false; false; true; true; true; false; true; true; true; false].
Proof. vm_compute. repeat split; reflexivity. Qed.

Lemma c14f_codes_run_faults_nonvacuous_lemma :
  let mk := fun (au mu : bool) (rq ad rm : list nat) =>
    {| s_auto := au; s_multi := mu; s_require := rq; s_add := ad; s_remove := rm; s_after := [] |} in
  let sch := [ mk false false [] [1] []; mk false true [] [] []; mk true false [1] [] [0];
               mk false true [] [] [] ] in
  let bs := [[HEnter 0; HState 0; HState 1; HEnter 3; HState 3; HAnyState]] in
  let act := fun f => {| ha_ret := true; ha_calls := []; ha_fault := f |} in
  let call := fun k l => {| ac_kind := k; ac_states := l; ac_args := false |} in
  let cs := [ call KAdd [0]; call KRemove [0; 1; 3]; call KAdd [0]; call KRemove [3];
              call KAdd [1]; call KAdd [0] ] in
  let acts := [act FPanic; act FPanic; act FNone; act FNone; act FPanic] in
  let tr := run 100 (init_st sch (topo_sort sch [0; 1; 2; 3]) [] 3 bs 1000 acts) cs in
  forallb (fun a => match ha_fault a with FStall => false | _ => true end) acts = true /\
  tr_crashed tr = false /\ tr_fuel_ok tr = true /\
  length (tr_txs tr) = 11 /\ length (tr_calls tr) = 6 /\
  existsb (tx_faulted acts) (tr_txs tr) = true /\
  c14_codes tr [] = [143; 144; 145; 146]%N /\
  c14f_codes acts tr [] = [].
Proof. vm_compute. repeat split; reflexivity. Qed.

Lemma c14f_codes_run_any_faults_nonvacuous_lemma :
  let mk := fun (au mu : bool) (rq ad rm : list nat) =>
    {| s_auto := au; s_multi := mu; s_require := rq; s_add := ad; s_remove := rm; s_after := [] |} in
  let sch := [ mk false false [] [1] []; mk false true [] [] []; mk true false [1] [] [0];
               mk false true [] [] [] ] in
  let bs := [[HEnter 0; HState 0; HState 1; HEnter 3; HState 3; HAnyState]] in
  let act := fun f => {| ha_ret := true; ha_calls := []; ha_fault := f |} in
  let call := fun k l => {| ac_kind := k; ac_states := l; ac_args := false |} in
  let cs := [ call KAdd [0]; call KRemove [0; 1; 3]; call KAdd [0]; call KRemove [3];
              call KAdd [1]; call KAdd [0] ] in
  let acts := [act FPanic; act FPanic; act FNone; act FNone; act FPanic;
               act FNone; act FNone; act FNone; act FStall] in
  let tr := run 100 (init_st sch (topo_sort sch [0; 1; 2; 3]) [] 3 bs 1000 acts) cs in
  tr_fuel_ok tr = true /\ length (tr_txs tr) = 10 /\
  length (filter (tx_faulted acts) (tr_txs tr)) = 4 /\
  c14_codes tr [] = [143; 144; 145; 146]%N /\
  c14f_codes acts tr [] = [].
Proof. vm_compute. repeat split; reflexivity. Qed.

