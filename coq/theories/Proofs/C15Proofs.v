(* C15 — proofs over the event model Conc/Pool.v. *)
From Coq Require Import List NArith Bool Arith Lia ZifyN ZifyNat ZifyBool.
From AMV Require Import Base.ListSet Model.Schema Model.Resolver Spec.C02 Spec.C19 Conc.Pool Spec.C15.
From AMV Require Proofs.C19Proofs.
Import ListNotations.

Ltac unf := unfold upd, set_inflight, set_poolready, set_errworker, set_lost, log_kill,
                   rekeyed, counted_err, lost_err in *.

(* ------------------------------------------------------------ the map *)

Lemma wset_len_found : forall k v l i, wfind k l = Some i -> length (wset k v l) = length l.
Proof.
  induction l as [|[k' j] r IH]; intros i H; cbn in *; [discriminate|].
  destruct (Nat.eqb k k'); cbn; [reflexivity|]. f_equal. eapply IH; eauto.
Qed.

Lemma wset_len_none : forall k v l, wfind k l = None -> length (wset k v l) = S (length l).
Proof.
  induction l as [|[k' j] r IH]; intros H; cbn in *; [reflexivity|].
  destruct (Nat.eqb k k'); [discriminate|]. cbn. f_equal. auto.
Qed.

Lemma wset_len_le : forall k v l, length (wset k v l) <= S (length l).
Proof.
  intros. destruct (wfind k l) eqn:E.
  - erewrite wset_len_found; eauto.
  - rewrite wset_len_none; auto.
Qed.

Lemma wdel_len_le : forall k l, length (wdel k l) <= length l.
Proof.
  induction l as [|[k' j] r IH]; cbn; [lia|]. destruct (Nat.eqb k k'); cbn; lia.
Qed.

Lemma wdel_len_found : forall k l i, wfind k l = Some i -> S (length (wdel k l)) <= length l.
Proof.
  induction l as [|[k' j] r IH]; intros i H; cbn in *; [discriminate|].
  destruct (Nat.eqb k k').
  - pose proof (wdel_len_le k r). lia.
  - cbn. specialize (IH _ H). lia.
Qed.

Lemma rem_len_le : forall k l, length (rem k l) <= length l.
Proof.
  intros. unfold rem. induction l as [|x r IH]; cbn; [lia|].
  destruct (negb (Nat.eqb x k)); cbn; lia.
Qed.

Lemma rem_len_has : forall k l, has k l = true -> S (length (rem k l)) <= length l.
Proof.
  induction l as [|x r IH]; cbn; intros H; [discriminate|].
  rewrite (Nat.eqb_sym x k). destruct (Nat.eqb k x); cbn.
  - pose proof (rem_len_le k r). unfold rem in *. lia.
  - cbn in H. specialize (IH H). unfold rem in *. lia.
Qed.

Lemma on_worker_len : forall s k f, length (s_workers (on_worker s k f)) = length (s_workers s).
Proof.
  intros. unfold on_worker. destruct (wfind k (s_workers s)) eqn:E; cbn; [|reflexivity].
  eapply wset_len_found; eauto.
Qed.

Lemma on_worker_rest : forall s k f,
  s_inflight (on_worker s k f) = s_inflight s /\ s_peak (on_worker s k f) = s_peak s /\
  s_foreign (on_worker s k f) = s_foreign s /\ s_poolready (on_worker s k f) = s_poolready s.
Proof. intros. unfold on_worker. destruct (wfind k (s_workers s)); cbn; auto. Qed.

Lemma on_worker_lost : forall s k f, s_lost (on_worker s k f) = s_lost s.
Proof. intros. unfold on_worker. destruct (wfind k (s_workers s)); cbn; auto. Qed.

Lemma tracked_lt : forall c s, (tracked s <? c_max c)%N = true ->
  length (s_workers s) < N.to_nat (c_max c).
Proof. intros c s H. apply N.ltb_lt in H. unfold tracked in H. lia. Qed.

(* ------------------------------------------------------------ the bound as found *)

Definition P (c : cfg) (s : st) : Prop :=
  length (s_workers s) + length (s_inflight s) <= N.to_nat (c_max c) + pred (s_peak s)
  /\ length (s_inflight s) <= s_peak s.

Lemma foreign_mono_step : forall fx c s e,
  s_foreign (fst (step fx c s e)) = false -> s_foreign s = false.
Proof.
  intros fx c s e. unfold step. destruct (gate fx c s e); cbn; [|auto].
  destruct e; cbn; auto.
  - intros H. apply orb_false_iff in H. tauto.
  - destruct (wfind b (s_workers s)); cbn; auto.
  - destruct counted; [|cbn; auto]. destruct (wfind k (s_workers s)); [|cbn; auto].
    destruct (fx_err_multi fx || negb (s_errworker s)); [|cbn; auto].
    destruct (c_errkill c <? w_errs w + 1)%N; cbn; auto.
  - intros H. rewrite (proj1 (proj2 (proj2 (on_worker_rest s k _)))) in H. auto.
  - intros H. rewrite (proj1 (proj2 (proj2 (on_worker_rest s k _)))) in H. auto.
  - intros H. rewrite (proj1 (proj2 (proj2 (on_worker_rest s k _)))) in H. auto.
Qed.

Lemma P_on_worker : forall c s k f, P c s -> P c (on_worker s k f).
Proof.
  intros c s k f [H1 H2]. unfold P.
  destruct (on_worker_rest s k f) as (E1 & E2 & _ & _).
  rewrite on_worker_len, E1, E2. auto.
Qed.

Lemma P_step : forall fx c s e,
  P c s -> s_foreign (fst (step fx c s e)) = false -> P c (fst (step fx c s e)).
Proof.
  intros fx c s e [H1 H2]. unfold step. destruct (gate fx c s e) eqn:G; cbn; [|unfold P; auto].
  destruct e; cbn; intros F; try (unfold P; cbn; auto; fail).
  - (* EForking *) cbn in G. apply tracked_lt in G. unfold P; cbn. lia.
  - (* ESetIns *)
    apply orb_false_iff in F. destruct F as [_ F]. apply negb_false_iff in F.
    unfold P; cbn.
    destruct (wfind k (s_workers s)) eqn:W.
    + erewrite wset_len_found by eauto. pose proof (rem_len_le k (s_inflight s)). lia.
    + rewrite orb_false_r in F. rewrite wset_len_none by auto.
      pose proof (rem_len_has k (s_inflight s) F). lia.
  - (* ESetDel *) unfold P; cbn. pose proof (wdel_len_le k (s_workers s)). lia.
  - (* EForkFail *) unfold P; cbn. pose proof (rem_len_le k (s_inflight s)). lia.
  - (* ERekey *)
    destruct (wfind b (s_workers s)) eqn:W; [|unfold P; auto].
    unfold P; cbn.
    pose proof (wdel_len_found b (s_workers s) _ W).
    pose proof (wset_len_le a (rekeyed w) (wdel b (s_workers s))). lia.
  - (* EKilled *) unfold P; cbn. pose proof (wdel_len_le k (s_workers s)). lia.
  - (* EErr *)
    destruct counted; [|unfold P; cbn; auto].
    destruct (wfind k (s_workers s)) eqn:W; [|unfold P; cbn; auto].
    destruct (fx_err_multi fx || negb (s_errworker s)).
    + destruct (c_errkill c <? w_errs w + 1)%N; unfold P; cbn;
        erewrite wset_len_found by eauto; lia.
    + unfold P; cbn. erewrite wset_len_found by eauto. lia.
  - apply P_on_worker. split; auto.
  - apply P_on_worker. split; auto.
  - apply P_on_worker. split; auto.
Qed.

Lemma foreign_mono_run : forall fx c evs s,
  s_foreign (run_from fx c s evs) = false -> s_foreign s = false.
Proof.
  induction evs as [|e r IH]; intros s H; cbn in *; [auto|].
  apply IH in H. eapply foreign_mono_step; eauto.
Qed.

Lemma P_run : forall fx c evs s,
  P c s -> s_foreign (run_from fx c s evs) = false -> P c (run_from fx c s evs).
Proof.
  induction evs as [|e r IH]; intros s HP H; cbn in *; [auto|].
  apply IH; auto. apply P_step; auto. eapply foreign_mono_run; eauto.
Qed.

Lemma P_init : forall c, P c init_st.
Proof. intros. unfold P; cbn. lia. Qed.

Lemma bound_partial_lemma : forall c evs,
  s_foreign (run no_fixes c evs) = false -> bound_partial_ok c (run no_fixes c evs) = true.
Proof.
  intros c evs H. unfold bound_partial_ok. apply Nat.leb_le.
  apply (P_run no_fixes c evs init_st (P_init c) H).
Qed.

Lemma bound_sequential_lemma : forall c evs,
  s_foreign (run no_fixes c evs) = false -> s_peak (run no_fixes c evs) <= 1 ->
  bound_ok c (tracked (run no_fixes c evs)) = true.
Proof.
  intros c evs H Hp. destruct (P_run no_fixes c evs init_st (P_init c) H) as [H1 _].
  unfold bound_ok, tracked. apply N.leb_le. fold (run no_fixes c evs) in H1. lia.
Qed.

Lemma bound_refuted_lemma : exists c evs,
  s_foreign (run no_fixes c evs) = false /\
  bound_ok c (tracked (run no_fixes c evs)) = false /\
  (* every fork was started while the gate saw tracked < Max *)
  forallb (fun s => (tracked s <? c_max c)%N)
          (firstn 4 (trace_from no_fixes c init_st evs)) = true.
Proof.
  exists {| c_min := 1; c_max := 1; c_errkill := 3; c_warm := 0 |}, (burst 2). vm_compute. auto.
Qed.


(* the general shape of the refutation: k forks requested and started while
   nothing is tracked yet all pass the gates (Max >= 1) and all insert *)
Lemma fork_events_keep_empty : forall fx c s e,
  s_workers s = [] -> (0 <? c_max c)%N = true ->
  (e = EForkReq \/ exists k, e = EForking k) ->
  s_workers (fst (step fx c s e)) = [].
Proof.
  intros fx c s e W M [->|[k ->]]; unfold step, gate, tracked; rewrite W; cbn [length N.of_nat];
    rewrite M; cbn; exact W.
Qed.

Lemma burst_requests : forall fx c l s,
  s_workers s = [] -> (0 <? c_max c)%N = true ->
  s_workers (run_from fx c s (flat_map (fun i => [EForkReq; EForking i]) l)) = [].
Proof.
  induction l as [|i r IH]; intros s W M; [exact W|].
  cbn [flat_map app]. unfold run_from. cbn [fold_left].
  fold (run_from fx c (fst (step fx c (fst (step fx c s EForkReq)) (EForking i)))
                 (flat_map (fun i => [EForkReq; EForking i]) r)).
  apply IH; auto.
  apply fork_events_keep_empty; eauto.
  apply fork_events_keep_empty; eauto.
Qed.

Lemma wfind_wset_other : forall k k' v l, k <> k' -> wfind k (wset k' v l) = wfind k l.
Proof.
  induction l as [|[k2 j] r IH]; intros H; cbn.
  - destruct (Nat.eqb k k') eqn:E; [apply Nat.eqb_eq in E; contradiction|reflexivity].
  - destruct (Nat.eqb k' k2) eqn:E2; cbn.
    + apply Nat.eqb_eq in E2. subst k2.
      destruct (Nat.eqb k k') eqn:E; [apply Nat.eqb_eq in E; contradiction|reflexivity].
    + destruct (Nat.eqb k k2); [reflexivity|]. apply IH. exact H.
Qed.

Lemma burst_inserts : forall c l s,
  NoDup l -> (forall k, In k l -> wfind k (s_workers s) = None) ->
  length (s_workers (run_from no_fixes c s (map ESetIns l))) = length (s_workers s) + length l.
Proof.
  induction l as [|k r IH]; intros s ND F; [cbn; lia|].
  inversion ND as [|? ? Hn ND']; subst.
  cbn [map]. unfold run_from. cbn [fold_left].
  fold (run_from no_fixes c (fst (step no_fixes c s (ESetIns k))) (map ESetIns r)).
  assert (E : s_workers (fst (step no_fixes c s (ESetIns k))) = wset k (fresh_info_of k) (s_workers s)).
  { unfold step. cbn. reflexivity. }
  rewrite IH; auto.
  - rewrite E. rewrite wset_len_none by (apply F; left; reflexivity). cbn [length]. lia.
  - intros k' Hk'. rewrite E. rewrite wfind_wset_other.
    + apply F. right. exact Hk'.
    + intro; subst. contradiction.
Qed.

Lemma bound_refuted_burst_lemma : forall c k,
  (0 < c_max c)%N ->
  tracked (run no_fixes c (burst k)) = N.of_nat k.
Proof.
  intros c k M. unfold run, burst, burst_keys, run_from. rewrite fold_left_app.
  fold (run_from no_fixes c init_st (flat_map (fun i => [EForkReq; EForking i]) (seq 1 k))).
  set (s1 := run_from no_fixes c init_st (flat_map (fun i => [EForkReq; EForking i]) (seq 1 k))).
  assert (W : s_workers s1 = []).
  { apply burst_requests; [reflexivity|]. apply N.ltb_lt. exact M. }
  fold (run_from no_fixes c s1 (map ESetIns (seq 1 k))).
  unfold tracked. rewrite burst_inserts.
  - rewrite W, seq_length. cbn. reflexivity.
  - apply seq_NoDup.
  - intros. rewrite W. reflexivity.
Qed.

(* ------------------------------------------------------------ the bound with the insert gate *)

Definition fixed : fixes := insert_gate_fix.

Lemma Q_step : forall c s e,
  length (s_workers s) <= N.to_nat (c_max c) ->
  length (s_workers (fst (step fixed c s e))) <= N.to_nat (c_max c).
Proof.
  intros c s e H. unfold step. destruct (gate fixed c s e) eqn:G; cbn; [|auto].
  destruct e; cbn; auto.
  - cbn in G. destruct (wfind k (s_workers s)) eqn:W.
    + erewrite wset_len_found by eauto. auto.
    + apply tracked_lt in G. rewrite wset_len_none by auto. lia.
  - pose proof (wdel_len_le k (s_workers s)). lia.
  - destruct (wfind b (s_workers s)) eqn:W; [|auto]. cbn.
    pose proof (wdel_len_found b (s_workers s) _ W).
    pose proof (wset_len_le a (rekeyed w) (wdel b (s_workers s))). lia.
  - pose proof (wdel_len_le k (s_workers s)). lia.
  - destruct counted; [|cbn; auto]. destruct (wfind k (s_workers s)) eqn:W; [|cbn; auto].
    destruct (negb (s_errworker s)).
    + destruct (c_errkill c <? w_errs w + 1)%N; cbn; erewrite wset_len_found by eauto; auto.
    + cbn. erewrite wset_len_found by eauto. auto.
  - rewrite on_worker_len. auto.
  - rewrite on_worker_len. auto.
  - rewrite on_worker_len. auto.
Qed.

Lemma Q_run : forall c evs s,
  length (s_workers s) <= N.to_nat (c_max c) ->
  length (s_workers (run_from fixed c s evs)) <= N.to_nat (c_max c).
Proof.
  induction evs as [|e r IH]; intros s H; cbn; [auto|]. apply IH. apply Q_step. auto.
Qed.

Lemma pool_bound_fixed_lemma : forall c evs, bound_ok c (tracked (run fixed c evs)) = true.
Proof.
  intros. unfold bound_ok, tracked. apply N.leb_le.
  pose proof (Q_run c evs init_st). cbn in H. unfold run. lia.
Qed.

(* ------------------------------------------------------------ fork gate *)

Lemma never_forks_at_max_lemma : forall fx c s e s',
  (e = EForkReq \/ exists k, e = EForking k) ->
  step fx c s e = (s', true) -> fork_ok c (tracked s) = true.
Proof.
  intros fx c s e s' He H. unfold step in H.
  destruct (gate fx c s e) eqn:G; [|discriminate].
  destruct He as [->|[k ->]]; cbn in G; exact G.
Qed.

(* ------------------------------------------------------------ PoolReady *)

Lemma effect_poolready : forall fx c s e,
  s_poolready (effect fx c s e) =
  match e with ETryReady => true | ETryUnready => false | _ => s_poolready s end.
Proof.
  intros. destruct e; cbn; try reflexivity.
  - destruct (wfind b (s_workers s)); reflexivity.
  - destruct counted; [|reflexivity]. destruct (wfind k (s_workers s)); [|reflexivity].
    destruct (fx_err_multi fx || negb (s_errworker s)); [|reflexivity].
    destruct (c_errkill c <? w_errs w + 1)%N; reflexivity.
  - apply on_worker_rest.
  - apply on_worker_rest.
  - apply on_worker_rest.
Qed.

Lemma poolready_step_sound : forall fx c s e,
  activation_ok c (s_poolready s) (s_poolready (fst (step fx c s e))) (ready s) = true.
Proof.
  intros. unfold step, activation_ok. destruct (gate fx c s e) eqn:G; cbn.
  - rewrite effect_poolready. destruct e; cbn in *;
      try (destruct (s_poolready s); reflexivity).
    + destruct (s_poolready s); cbn in *; [reflexivity|]. exact G.
  - destruct (s_poolready s); reflexivity.
Qed.

Lemma poolready_step_not_withdrawn : forall fx c s e,
  withdrawal_ok c (s_poolready s) (s_poolready (fst (step fx c s e))) (ready s) = true.
Proof.
  intros. unfold step, withdrawal_ok. destruct (gate fx c s e) eqn:G; cbn.
  - rewrite effect_poolready. destruct e; cbn in *;
      try (destruct (s_poolready s); reflexivity).
    + destruct (s_poolready s); cbn in *; [|reflexivity]. exact G.
  - destruct (s_poolready s); reflexivity.
Qed.

Lemma flip_keeps_workers : forall fx c s e,
  s_poolready s <> s_poolready (fst (step fx c s e)) ->
  s_workers (fst (step fx c s e)) = s_workers s.
Proof.
  intros fx c s e. unfold step. destruct (gate fx c s e); cbn; [|congruence].
  rewrite effect_poolready. destruct e; cbn; congruence.
Qed.

Lemma poolready_sound_lemma : forall fx c evs e,
  let s := run fx c evs in
  let s' := fst (step fx c s e) in
  activation_ok c (s_poolready s) (s_poolready s') (ready s) = true /\
  (s_poolready s = false -> s_poolready s' = true ->
   ready s' = ready s /\ (min_eff c <= ready s')%N).
Proof.
  intros. split; [apply poolready_step_sound|].
  intros H0 H1.
  assert (W : s_workers s' = s_workers s).
  { apply flip_keeps_workers. fold s'. congruence. }
  assert (R : ready s' = ready s) by (unfold ready; rewrite W; reflexivity).
  split; [exact R|].
  pose proof (poolready_step_sound fx c s e) as A. fold s' in A.
  unfold activation_ok in A. rewrite H0, H1 in A. cbn in A. rewrite R. apply N.leb_le. exact A.
Qed.

Lemma poolready_not_withdrawn_lemma : forall fx c evs e,
  let s := run fx c evs in
  let s' := fst (step fx c s e) in
  withdrawal_ok c (s_poolready s) (s_poolready s') (ready s) = true /\
  (s_poolready s = true -> s_poolready s' = false ->
   ready s' = ready s /\ (ready s' < min_eff c)%N).
Proof.
  intros. split; [apply poolready_step_not_withdrawn|].
  intros H0 H1.
  assert (W : s_workers s' = s_workers s).
  { apply flip_keeps_workers. fold s'. congruence. }
  assert (R : ready s' = ready s) by (unfold ready; rewrite W; reflexivity).
  split; [exact R|].
  pose proof (poolready_step_not_withdrawn fx c s e) as A. fold s' in A.
  unfold withdrawal_ok in A. rewrite H0, H1 in A. cbn in A. rewrite R. apply N.ltb_lt. exact A.
Qed.

(* ------------------------------------------------------------ errors *)

(* generic: a predicate on entries, as a boolean over the map *)
Definition allw (h : winfo -> bool) (l : list (nat * winfo)) : bool := forallb (fun p => h (snd p)) l.

Lemma allw_wset : forall h k v l, allw h l = true -> h v = true -> allw h (wset k v l) = true.
Proof.
  induction l as [|[k' j] r IH]; cbn; intros H Hv.
  - rewrite Hv. reflexivity.
  - apply andb_true_iff in H. destruct H as [Hj Hr].
    destruct (Nat.eqb k k'); cbn.
    + rewrite Hv. exact Hr.
    + rewrite Hj. apply IH; auto.
Qed.

Lemma allw_wdel : forall h k l, allw h l = true -> allw h (wdel k l) = true.
Proof.
  induction l as [|[k' j] r IH]; cbn; intros H; [reflexivity|].
  apply andb_true_iff in H. destruct H as [Hj Hr].
  destruct (Nat.eqb k k'); cbn; [auto|]. rewrite Hj. auto.
Qed.

Lemma allw_find : forall h k l i, allw h l = true -> wfind k l = Some i -> h i = true.
Proof.
  induction l as [|[k' j] r IH]; cbn; intros i H F; [discriminate|].
  apply andb_true_iff in H. destruct H as [Hj Hr].
  destruct (Nat.eqb k k'); [inversion F; subst; exact Hj|]. eapply IH; eauto.
Qed.

Lemma allw_on_worker : forall h s k f,
  allw h (s_workers s) = true ->
  (forall i, h i = true -> h (f i) = true) ->
  allw h (s_workers (on_worker s k f)) = true.
Proof.
  intros h s k f H Hf. unfold on_worker. destruct (wfind k (s_workers s)) eqn:W; [|exact H].
  cbn. apply allw_wset; auto. apply Hf. eapply allw_find; eauto.
Qed.

Lemma not_over_zero : forall c, over_limit c 0 = false.
Proof.
  intros. unfold over_limit. destruct (c_errkill c <? 0)%N eqn:E; [apply N.ltb_lt in E; lia|reflexivity].
Qed.

(* (a) counted errors: holds of the code as found *)
Lemma KC_step : forall fx c s e,
  allw (kill_counted_ok c) (s_workers s) = true ->
  allw (kill_counted_ok c) (s_workers (fst (step fx c s e))) = true.
Proof.
  intros fx c s e H. unfold step. destruct (gate fx c s e); cbn; [|exact H].
  destruct e; cbn; auto.
  - apply allw_wset; auto. unfold kill_counted_ok. cbn. rewrite not_over_zero. reflexivity.
  - apply allw_wdel; auto.
  - destruct (wfind b (s_workers s)) eqn:W; [|exact H]. cbn.
    apply allw_wset; [apply allw_wdel; auto|].
    pose proof (allw_find _ b _ _ H W) as Hi. unfold kill_counted_ok in *. cbn. exact Hi.
  - apply allw_wdel; auto.
  - destruct counted; [|exact H]. destruct (wfind k (s_workers s)) eqn:W; [|exact H].
    pose proof (allw_find _ k _ _ H W) as Hi.
    destruct (fx_err_multi fx || negb (s_errworker s)).
    + assert (A : allw (kill_counted_ok c) (wset k (counted_err c w) (s_workers s)) = true).
      { apply allw_wset; auto. unfold kill_counted_ok, over_limit. cbn.
        destruct (c_errkill c <? w_errs w + 1)%N; cbn; [apply orb_true_r|reflexivity]. }
      destruct (c_errkill c <? w_errs w + 1)%N; cbn; exact A.
    + cbn. apply allw_wset; auto.
  - apply allw_on_worker; auto.
  - apply allw_on_worker; auto.
  - apply allw_on_worker; auto. intros i _. unfold kill_counted_ok. cbn.
    rewrite not_over_zero. reflexivity.
Qed.

Lemma KC_run : forall fx c evs s,
  allw (kill_counted_ok c) (s_workers s) = true ->
  allw (kill_counted_ok c) (s_workers (run_from fx c s evs)) = true.
Proof.
  induction evs as [|e r IH]; intros s H; cbn; [exact H|]. apply IH. apply KC_step. exact H.
Qed.

Lemma counted_errors_request_kill_lemma : forall fx c evs,
  all_kill_counted_ok c (run fx c evs) = true.
Proof. intros. unfold all_kill_counted_ok. apply (KC_run fx c evs init_st). reflexivity. Qed.

(* (b) accumulated errors: false of the code as found *)
Lemma errors_request_kill_refuted_lemma : exists c evs,
  all_kill_ok c (run no_fixes c evs) = false /\
  s_lost (run no_fixes c evs) = true /\
  (exists i, wfind 1 (s_workers (run no_fixes c evs)) = Some i /\
             w_delivered i = 3%N /\ w_errs i = 1%N /\ w_killreq i = false).
Proof.
  exists {| c_min := 1; c_max := 2; c_errkill := 1; c_warm := 0 |},
         [EForkReq; EForking 1; ESetIns 1; EErr 1 true; EErr 1 true; EErr 1 true].
  vm_compute. split; [reflexivity|]. split; [reflexivity|]. eexists. repeat split.
Qed.

(* (c) ... true as long as no error arrives while ErrWorker is active *)
Definition same_count (i : winfo) : bool := (w_delivered i =? w_errs i)%N.

Lemma lost_mono_step : forall fx c s e,
  s_lost (fst (step fx c s e)) = false -> s_lost s = false.
Proof.
  intros fx c s e. unfold step. destruct (gate fx c s e); cbn; [|auto].
  destruct e; cbn; auto.
  - destruct (wfind b (s_workers s)); cbn; auto.
  - destruct counted; [|cbn; auto]. destruct (wfind k (s_workers s)); [|cbn; auto].
    destruct (fx_err_multi fx || negb (s_errworker s)); [|cbn; discriminate].
    destruct (c_errkill c <? w_errs w + 1)%N; cbn; auto.
  - rewrite on_worker_lost. auto.
  - rewrite on_worker_lost. auto.
  - rewrite on_worker_lost. auto.
Qed.

Lemma lost_mono_run : forall fx c evs s,
  s_lost (run_from fx c s evs) = false -> s_lost s = false.
Proof.
  induction evs as [|e r IH]; intros s H; cbn in *; [auto|].
  apply IH in H. eapply lost_mono_step; eauto.
Qed.

Lemma SC_step : forall fx c s e,
  allw same_count (s_workers s) = true -> s_lost (fst (step fx c s e)) = false ->
  allw same_count (s_workers (fst (step fx c s e))) = true.
Proof.
  intros fx c s e H. unfold step. destruct (gate fx c s e); cbn; [|auto].
  destruct e; cbn; auto; intros L.
  - apply allw_wset; auto.
  - apply allw_wdel; auto.
  - destruct (wfind b (s_workers s)) eqn:W; [|exact H]. cbn.
    apply allw_wset; [apply allw_wdel; auto|].
    pose proof (allw_find _ b _ _ H W) as Hi. unfold same_count in *. cbn. exact Hi.
  - apply allw_wdel; auto.
  - destruct counted; [|exact H]. destruct (wfind k (s_workers s)) eqn:W; [|exact H].
    pose proof (allw_find _ k _ _ H W) as Hi.
    destruct (fx_err_multi fx || negb (s_errworker s)); [|cbn in L; discriminate].
    assert (A : allw same_count (wset k (counted_err c w) (s_workers s)) = true).
    { apply allw_wset; auto. unfold same_count in *. cbn. apply N.eqb_eq in Hi.
      apply N.eqb_eq. lia. }
    destruct (c_errkill c <? w_errs w + 1)%N; cbn; exact A.
  - apply allw_on_worker; auto.
  - apply allw_on_worker; auto.
  - apply allw_on_worker; auto.
Qed.

Lemma SC_run : forall fx c evs s,
  allw same_count (s_workers s) = true -> s_lost (run_from fx c s evs) = false ->
  allw same_count (s_workers (run_from fx c s evs)) = true.
Proof.
  induction evs as [|e r IH]; intros s H L; cbn in *; [auto|].
  apply IH; auto. apply SC_step; auto. eapply lost_mono_run; eauto.
Qed.

Lemma allw_both : forall c l,
  allw same_count l = true -> allw (kill_counted_ok c) l = true -> allw (kill_ok c) l = true.
Proof.
  unfold allw. induction l as [|[k i] r IH]; cbn; intros A B; [reflexivity|].
  apply andb_true_iff in A. apply andb_true_iff in B. destruct A as [A1 A2], B as [B1 B2].
  apply andb_true_iff. split; [|apply IH; auto].
  unfold same_count in A1. apply N.eqb_eq in A1. unfold kill_ok, kill_counted_ok in *.
  rewrite A1. exact B1.
Qed.

Lemma errors_request_kill_partial_lemma : forall fx c evs,
  s_lost (run fx c evs) = false -> all_kill_ok c (run fx c evs) = true.
Proof.
  intros fx c evs L. unfold all_kill_ok. apply allw_both.
  - apply (SC_run fx c evs init_st); auto.
  - apply (KC_run fx c evs init_st). reflexivity.
Qed.

(* (d) the repair: ErrWorker declared Multi - ErrWorkerState runs for every error *)
Lemma never_lost_step : forall c s e,
  s_lost s = false -> s_lost (fst (step err_multi_fix c s e)) = false.
Proof.
  intros c s e H. unfold step. destruct (gate err_multi_fix c s e); cbn; [|auto].
  destruct e; cbn; auto.
  - destruct (wfind b (s_workers s)); cbn; auto.
  - destruct counted; [|cbn; auto]. destruct (wfind k (s_workers s)); [|cbn; auto].
    destruct (c_errkill c <? w_errs w + 1)%N; cbn; auto.
  - rewrite on_worker_lost. auto.
  - rewrite on_worker_lost. auto.
  - rewrite on_worker_lost. auto.
Qed.

Lemma never_lost_run : forall c evs s,
  s_lost s = false -> s_lost (run_from err_multi_fix c s evs) = false.
Proof.
  induction evs as [|e r IH]; intros s H; cbn; [auto|]. apply IH. apply never_lost_step. auto.
Qed.

Lemma errors_request_kill_fixed_lemma : forall c evs,
  all_kill_ok c (run err_multi_fix c evs) = true.
Proof.
  intros. apply errors_request_kill_partial_lemma. apply (never_lost_run c evs init_st). reflexivity.
Qed.

(* the request is issued by the very event that takes the count over the limit *)
Lemma error_over_limit_logged_lemma : forall fx c evs k i,
  let s := run fx c evs in
  wfind k (s_workers s) = Some i -> over_limit c (w_errs i + 1) = true ->
  (fx_err_multi fx || negb (s_errworker s)) = true ->
  let s' := fst (step fx c s (EErr k true)) in
  s_killlog s' = k :: s_killlog s /\
  exists i', wfind k (s_workers s') = Some i' /\ w_killreq i' = true /\ w_errs i' = (w_errs i + 1)%N.
Proof.
  intros fx c evs k i s W O Hh s'. subst s'. unfold step. cbn.
  rewrite W, Hh. unfold over_limit in O. rewrite O. cbn. split; [reflexivity|].
  eexists. split.
  - clear O Hh. generalize dependent (s_workers s).
    induction l as [|[k' j] r IH]; cbn; intros F; [discriminate|].
    destruct (Nat.eqb k k') eqn:E; cbn.
    + rewrite Nat.eqb_refl. reflexivity.
    + rewrite E. apply IH. exact F.
  - cbn. split; [rewrite O; apply orb_true_r|reflexivity].
Qed.


(* ------------------------------------------------------------ the normalizer *)

Lemma norm_target_le_max : forall c, (norm_target c <= c_max c)%N.
Proof. intros. unfold norm_target. lia. Qed.

Lemma normalize_requests_free_slots_lemma : forall c s,
  round_ok c (tracked s) (requests c s ENormalize) = true /\
  round_within_max c (tracked s) (requests c s ENormalize) = true.
Proof.
  intros. unfold round_ok, round_within_max, requests, norm_forks, listing.
  pose proof (norm_target_le_max c). split; apply N.leb_le; lia.
Qed.

(* errors, mirror changes and cache expiry leave the number of tracked workers,
   hence the listing and the forks a round requests, as they were *)
Lemma status_event_keeps_len : forall fx c s e,
  status_event e = true ->
  length (s_workers (fst (step fx c s e))) = length (s_workers s).
Proof.
  intros fx c s e H. unfold step. destruct (gate fx c s e); cbn; [|reflexivity].
  destruct e; cbn in H; try discriminate; cbn; try reflexivity.
  - destruct counted; [|reflexivity]. destruct (wfind k (s_workers s)) eqn:W; [|reflexivity].
    destruct (fx_err_multi fx || negb (s_errworker s)).
    + destruct (c_errkill c <? w_errs w + 1)%N; cbn; eapply wset_len_found; eauto.
    + cbn. eapply wset_len_found; eauto.
  - apply on_worker_len.
  - apply on_worker_len.
  - apply on_worker_len.
Qed.

Lemma normalize_counts_errored_workers_lemma : forall fx c s e,
  status_event e = true ->
  listing (fst (step fx c s e)) = listing s /\
  norm_forks c (fst (step fx c s e)) = norm_forks c s.
Proof.
  intros fx c s e H. unfold norm_forks, listing, tracked.
  rewrite (status_event_keeps_len fx c s e H). split; reflexivity.
Qed.

(* tracked + in flight grows only by started forks *)
Definition is_forking (e : event) : nat := match e with EForking _ => 1 | _ => 0 end.

Lemma forkings_cons : forall e r, forkings (e :: r) = is_forking e + forkings r.
Proof. intros. unfold forkings. cbn. destruct e; reflexivity. Qed.

Definition Rinv (n : nat) (s : st) : Prop :=
  length (s_workers s) + length (s_inflight s) <= n.

Lemma Rinv_on_worker : forall n s k f, Rinv n s -> Rinv n (on_worker s k f).
Proof.
  intros n s k f H. unfold Rinv in *.
  destruct (on_worker_rest s k f) as (E1 & _). rewrite on_worker_len, E1. exact H.
Qed.

Lemma Rinv_step : forall fx c s e n,
  Rinv n s -> s_foreign (fst (step fx c s e)) = false ->
  Rinv (n + is_forking e) (fst (step fx c s e)).
Proof.
  intros fx c s e n H. unfold step. destruct (gate fx c s e) eqn:G; cbn;
    [|intros _; unfold Rinv in *; lia].
  destruct e; cbn; intros F; try (unfold Rinv in *; cbn; lia).
  - (* ESetIns *)
    apply orb_false_iff in F. destruct F as [_ F]. apply negb_false_iff in F.
    unfold Rinv in *; cbn.
    destruct (wfind k (s_workers s)) eqn:W.
    + erewrite wset_len_found by eauto. pose proof (rem_len_le k (s_inflight s)). lia.
    + rewrite orb_false_r in F. rewrite wset_len_none by auto.
      pose proof (rem_len_has k (s_inflight s) F). lia.
  - (* ESetDel *) unfold Rinv in *; cbn. pose proof (wdel_len_le k (s_workers s)). lia.
  - (* EForkFail *) unfold Rinv in *; cbn. pose proof (rem_len_le k (s_inflight s)). lia.
  - (* ERekey *)
    destruct (wfind b (s_workers s)) eqn:W; [|unfold Rinv in *; lia].
    unfold Rinv in *; cbn.
    pose proof (wdel_len_found b (s_workers s) _ W).
    pose proof (wset_len_le a (rekeyed w) (wdel b (s_workers s))). lia.
  - (* EKilled *) unfold Rinv in *; cbn. pose proof (wdel_len_le k (s_workers s)). lia.
  - (* EErr *)
    destruct counted; [|unfold Rinv in *; cbn; lia].
    destruct (wfind k (s_workers s)) eqn:W; [|unfold Rinv in *; cbn; lia].
    destruct (fx_err_multi fx || negb (s_errworker s)).
    + destruct (c_errkill c <? w_errs w + 1)%N; unfold Rinv in *; cbn;
        erewrite wset_len_found by eauto; lia.
    + unfold Rinv in *; cbn. erewrite wset_len_found by eauto. lia.
  - rewrite Nat.add_0_r. apply Rinv_on_worker. exact H.
  - rewrite Nat.add_0_r. apply Rinv_on_worker. exact H.
  - rewrite Nat.add_0_r. apply Rinv_on_worker. exact H.
Qed.

Lemma Rinv_run : forall fx c r s n,
  Rinv n s -> s_foreign (run_from fx c s r) = false ->
  Rinv (n + forkings r) (run_from fx c s r).
Proof.
  induction r as [|e r IH]; intros s n H F.
  - unfold forkings. cbn. rewrite Nat.add_0_r. exact H.
  - change (run_from fx c s (e :: r)) with (run_from fx c (fst (step fx c s e)) r) in *.
    rewrite forkings_cons. rewrite Nat.add_assoc. apply IH; [|exact F].
    apply Rinv_step; [exact H|]. eapply foreign_mono_run; eauto.
Qed.

Lemma normalize_round_within_max_lemma : forall fx c evs r,
  let s := run fx c evs in
  s_inflight s = [] ->
  (N.of_nat (forkings r) <= norm_forks c s)%N ->
  s_foreign (run_from fx c s r) = false ->
  (tracked (run_from fx c s r) <= N.max (c_max c) (tracked s))%N.
Proof.
  intros fx c evs r s I L F.
  assert (H0 : Rinv (length (s_workers s)) s) by (unfold Rinv; rewrite I; cbn; lia).
  pose proof (Rinv_run fx c r s _ H0 F) as H. unfold Rinv in H.
  pose proof (norm_target_le_max c).
  unfold norm_forks, listing, tracked in *. lia.
Qed.

(* the hypothesis "no fork in flight" is needed: this is the known finding *)
Lemma normalize_round_inflight_refuted_lemma : exists c evs r,
  let s := run no_fixes c evs in
  s_inflight s <> [] /\
  (N.of_nat (forkings r) <= norm_forks c s)%N /\
  s_foreign (run_from no_fixes c s r) = false /\
  bound_ok c (tracked s) = true /\
  bound_ok c (tracked (run_from no_fixes c s r)) = false.
Proof.
  exists {| c_min := 1; c_max := 1; c_errkill := 3; c_warm := 0 |},
         [ENormalize; EForkReq; EForking 1],
         [ENormalize; EForkReq; EForking 2; ESetIns 1; ESetIns 2].
  vm_compute. repeat split; try reflexivity; try discriminate.
Qed.

(* a whole round on its own: the pool ends exactly at the target (or where it was) *)
Lemma requests_keep_workers : forall fx c l s,
  (l = [] \/ (tracked s <? c_max c)%N = true) ->
  s_workers (run_from fx c s (flat_map (fun i => [EForkReq; EForking i]) l)) = s_workers s.
Proof.
  induction l as [|i r IH]; intros s H; [reflexivity|].
  destruct H as [H|H]; [discriminate|].
  cbn [flat_map app]. unfold run_from. cbn [fold_left].
  fold (run_from fx c (fst (step fx c (fst (step fx c s EForkReq)) (EForking i)))
                 (flat_map (fun i => [EForkReq; EForking i]) r)).
  assert (E1 : fst (step fx c s EForkReq) = s).
  { unfold step. cbn. rewrite H. reflexivity. }
  rewrite E1.
  assert (E2 : s_workers (fst (step fx c s (EForking i))) = s_workers s).
  { unfold step. cbn. rewrite H. reflexivity. }
  rewrite IH; [exact E2|]. right. unfold tracked in *. rewrite E2. exact H.
Qed.

Lemma firstn_In : forall (n : nat) (l : list nat) x, In x (firstn n l) -> In x l.
Proof.
  induction n as [|n IH]; intros l x H; [contradiction|].
  destruct l as [|y l]; [contradiction|]. cbn in H. destruct H as [->|H]; [left; reflexivity|].
  right. apply IH. exact H.
Qed.

Lemma firstn_NoDup : forall (n : nat) (l : list nat), NoDup l -> NoDup (firstn n l).
Proof.
  induction n as [|n IH]; intros l H; [constructor|].
  destruct l as [|y l]; [constructor|]. inversion H as [|? ? Hn Hl]; subst. cbn. constructor.
  - intro Hy. apply Hn. eapply firstn_In; eauto.
  - apply IH. exact Hl.
Qed.

Lemma normalize_round_exact_lemma : forall c evs ks,
  let s := run no_fixes c evs in
  NoDup ks -> (forall k, In k ks -> wfind k (s_workers s) = None) ->
  (norm_forks c s <= N.of_nat (length ks))%N ->
  tracked (run_from no_fixes c s (norm_round c s ks)) = N.max (tracked s) (norm_target c).
Proof.
  intros c evs ks s ND FR LE.
  set (n := N.to_nat (norm_forks c s)).
  set (l := firstn n ks).
  assert (Ll : length l = n).
  { unfold l. apply firstn_length_le. unfold n. lia. }
  assert (NDl : NoDup l).
  { unfold l. apply firstn_NoDup. exact ND. }
  assert (FRl : forall k, In k l -> wfind k (s_workers s) = None).
  { intros k Hk. apply FR. unfold l in Hk. eapply firstn_In; eauto. }
  unfold norm_round. fold n. fold l. unfold run_from. cbn [fold_left].
  assert (E0 : fst (step no_fixes c s ENormalize) = s) by reflexivity.
  rewrite E0. unfold burst_keys. rewrite fold_left_app.
  fold (run_from no_fixes c s (flat_map (fun i => [EForkReq; EForking i]) l)).
  set (s1 := run_from no_fixes c s (flat_map (fun i => [EForkReq; EForking i]) l)).
  assert (W : s_workers s1 = s_workers s).
  { apply requests_keep_workers. destruct l as [|x l'] eqn:El; [left; reflexivity|right].
    apply N.ltb_lt. pose proof (norm_target_le_max c).
    assert (0 < n) by (rewrite <- Ll; cbn; lia).
    unfold n, norm_forks, listing in *. lia. }
  fold (run_from no_fixes c s1 (map ESetIns l)).
  unfold tracked. rewrite burst_inserts; [|exact NDl|intros k Hk; rewrite W; apply FRl; exact Hk].
  rewrite W, Ll. unfold n, norm_forks, listing, tracked. lia.
Qed.

Lemma normalize_round_nonvacuous_lemma :
  let up := [ENormalize; EForkReq; EForking 1; EForkReq; EForking 2; ESetIns 1; ESetIns 2;
             ERekey 1 11; ERekey 2 12;
             EErr 11 true; EErrClear; EErr 12 true; EErrClear] in
  let c0 := {| c_min := 2; c_max := 3; c_errkill := 3; c_warm := 0 |} in
  let c1 := {| c_min := 2; c_max := 3; c_errkill := 3; c_warm := 1 |} in
  (* two tracked workers, each with one recent error below the limit: none is ready ... *)
  tracked (run no_fixes c0 up) = 2%N /\ ready (run no_fixes c0 up) = 0%N /\
  s_killlog (run no_fixes c0 up) = [] /\ s_inflight (run no_fixes c0 up) = [] /\
  (* ... both are listed: Min=2 Warm=0 Max=3 requests nothing, Warm=1 requests the one free slot *)
  listing (run no_fixes c0 up) = 2%N /\
  requests c0 (run no_fixes c0 up) ENormalize = 0%N /\
  requests c1 (run no_fixes c1 up) ENormalize = 1%N /\
  tracked (run no_fixes c0 (up ++ norm_round c0 (run no_fixes c0 up) [3; 4; 5])) = 2%N /\
  tracked (run no_fixes c1 (up ++ norm_round c1 (run no_fixes c1 up) [3; 4; 5])) = 3%N /\
  (* a round that requested two forks here (it did not see the errored workers) ends above Max *)
  round_ok c0 2 2 = false /\
  tracked (run no_fixes c0 (up ++ ENormalize :: burst_keys [3; 4])) = 4%N /\
  bound_ok c0 (tracked (run no_fixes c0 (up ++ ENormalize :: burst_keys [3; 4]))) = false.
Proof. vm_compute. repeat split. Qed.


(* ------------------------------------------------------------ one fork, one entry *)

Definition forks (l : list (nat * winfo)) : list nat := map (fun p : nat * winfo => w_fork (snd p)) l.

Lemma step_len_le : forall fx c s e,
  length (s_workers (fst (step fx c s e))) <=
  length (s_workers s) + match e with ESetIns _ => 1 | _ => 0 end.
Proof.
  intros fx c s e. unfold step. destruct (gate fx c s e); cbn; [|destruct e; lia].
  destruct e; cbn; try lia.
  - pose proof (wset_len_le k (fresh_info_of k) (s_workers s)). lia.
  - pose proof (wdel_len_le k (s_workers s)). lia.
  - destruct (wfind b (s_workers s)) eqn:W; [|lia]. cbn.
    pose proof (wdel_len_found b (s_workers s) _ W).
    pose proof (wset_len_le a (rekeyed w) (wdel b (s_workers s))). lia.
  - pose proof (wdel_len_le k (s_workers s)). lia.
  - destruct counted; [|cbn; lia]. destruct (wfind k (s_workers s)) eqn:W; [|cbn; lia].
    destruct (fx_err_multi fx || negb (s_errworker s)).
    + destruct (c_errkill c <? w_errs w + 1)%N; cbn; erewrite wset_len_found by eauto; lia.
    + cbn. erewrite wset_len_found by eauto. lia.
  - rewrite on_worker_len. lia.
  - rewrite on_worker_len. lia.
  - rewrite on_worker_len. lia.
Qed.

Lemma insert_keys_cons : forall e r,
  length (insert_keys (e :: r)) = match e with ESetIns _ => 1 | _ => 0 end + length (insert_keys r).
Proof. intros. unfold insert_keys. cbn. rewrite app_length. destruct e; reflexivity. Qed.

Lemma tracked_le_completions_from : forall fx c evs s,
  length (s_workers (run_from fx c s evs)) <= length (s_workers s) + length (insert_keys evs).
Proof.
  induction evs as [|e r IH]; intros s; [cbn; lia|].
  change (run_from fx c s (e :: r)) with (run_from fx c (fst (step fx c s e)) r).
  rewrite insert_keys_cons. pose proof (IH (fst (step fx c s e))). pose proof (step_len_le fx c s e). lia.
Qed.

Lemma tracked_le_completions_lemma : forall fx c evs,
  (tracked (run fx c evs) <= N.of_nat (length (insert_keys evs)))%N.
Proof.
  intros. unfold tracked, run. pose proof (tracked_le_completions_from fx c evs init_st). cbn in H. lia.
Qed.

Lemma rekey_never_grows_lemma : forall fx c s b a,
  rekey_ok (tracked s) (tracked (fst (step fx c s (ERekey b a)))) = true.
Proof.
  intros. unfold rekey_ok, tracked. apply N.leb_le.
  pose proof (step_len_le fx c s (ERekey b a)) as H. cbv beta iota in H. lia.
Qed.

Lemma rekey_missing_noop_lemma : forall fx c s b a,
  wfind b (s_workers s) = None -> step fx c s (ERekey b a) = (s, true).
Proof. intros fx c s b a H. unfold step. cbn. rewrite H. reflexivity. Qed.

(* forks of the entries under the map operations *)
Lemma forks_wdel_incl : forall k l x, In x (forks (wdel k l)) -> In x (forks l).
Proof.
  induction l as [|[k' j] r IH]; cbn; intros x H; [exact H|].
  destruct (Nat.eqb k k'); cbn in *; [right; auto|]. destruct H; [left; exact H|right; auto].
Qed.

Lemma forks_wdel_nodup : forall k l, NoDup (forks l) -> NoDup (forks (wdel k l)).
Proof.
  induction l as [|[k' j] r IH]; cbn; intros H; [exact H|].
  inversion H as [|? ? Hn Hr]; subst. destruct (Nat.eqb k k'); cbn; [auto|].
  constructor; [|auto]. intro Hi. apply Hn. eapply forks_wdel_incl; eauto.
Qed.

Lemma forks_wdel_found : forall k l i,
  NoDup (forks l) -> wfind k l = Some i -> ~ In (w_fork i) (forks (wdel k l)).
Proof.
  induction l as [|[k' j] r IH]; cbn; intros i H F; [discriminate|].
  inversion H as [|? ? Hn Hr]; subst. destruct (Nat.eqb k k').
  - inversion F; subst. intro Hi. apply Hn. eapply forks_wdel_incl; eauto.
  - cbn. intros [E|Hi].
    + apply Hn. rewrite E. clear - F. induction r as [|[k2 j2] r IH]; cbn in *; [discriminate|].
      destruct (Nat.eqb k k2); [inversion F; subst; left; reflexivity|right; auto].
    + eapply IH; eauto.
Qed.

Lemma forks_wset_incl : forall k v l x, In x (forks (wset k v l)) -> x = w_fork v \/ In x (forks l).
Proof.
  induction l as [|[k' j] r IH]; cbn; intros x H.
  - destruct H; [left; auto|contradiction].
  - destruct (Nat.eqb k k'); cbn in *.
    + destruct H; [left; auto|right; right; auto].
    + destruct H; [right; left; auto|]. destruct (IH _ H); [left; auto|right; right; auto].
Qed.

Lemma forks_wset_nodup : forall k v l,
  NoDup (forks l) -> ~ In (w_fork v) (forks l) -> NoDup (forks (wset k v l)).
Proof.
  induction l as [|[k' j] r IH]; cbn; intros H Hv.
  - constructor; [auto|constructor].
  - inversion H as [|? ? Hn Hr]; subst. destruct (Nat.eqb k k'); cbn.
    + constructor; [|exact Hr]. intro Hi. apply Hv. right. exact Hi.
    + constructor.
      * intro Hi. destruct (forks_wset_incl _ _ _ _ Hi) as [E|Hi']; [|contradiction].
        apply Hv. left. exact E.
      * apply IH; [exact Hr|]. intro Hi. apply Hv. right. exact Hi.
Qed.

Lemma forks_wset_same : forall k v l i,
  wfind k l = Some i -> w_fork v = w_fork i -> forks (wset k v l) = forks l.
Proof.
  induction l as [|[k' j] r IH]; cbn; intros i F E; [discriminate|].
  destruct (Nat.eqb k k'); cbn.
  - inversion F; subst. rewrite E. reflexivity.
  - f_equal. eapply IH; eauto.
Qed.

Lemma forks_on_worker : forall s k f,
  (forall i, w_fork (f i) = w_fork i) -> forks (s_workers (on_worker s k f)) = forks (s_workers s).
Proof.
  intros s k f Hf. unfold on_worker. destruct (wfind k (s_workers s)) eqn:W; [|reflexivity].
  cbn. eapply forks_wset_same; eauto.
Qed.

(* the entries' forks after one event: a duplicate-free sublist of the old ones,
   plus the inserted key *)
Lemma forks_step : forall fx c s e,
  NoDup (forks (s_workers s)) ->
  (forall k, e = ESetIns k -> ~ In k (forks (s_workers s))) ->
  NoDup (forks (s_workers (fst (step fx c s e)))) /\
  (forall x, In x (forks (s_workers (fst (step fx c s e)))) ->
             In x (forks (s_workers s)) \/ e = ESetIns x).
Proof.
  intros fx c s e ND Hk. unfold step. destruct (gate fx c s e); cbn; [|split; [exact ND|auto]].
  destruct e; cbn; try (split; [exact ND|auto]; fail).
  - split.
    + apply forks_wset_nodup; [exact ND|]. cbn. apply Hk. reflexivity.
    + intros x Hx. destruct (forks_wset_incl _ _ _ _ Hx) as [E|Hi]; [right; cbn in E; subst; reflexivity|left; exact Hi].
  - split; [apply forks_wdel_nodup; exact ND|]. intros x Hx. left. eapply forks_wdel_incl; eauto.
  - destruct (wfind b (s_workers s)) eqn:W; [|split; [exact ND|auto]]. cbn. split.
    + apply forks_wset_nodup; [apply forks_wdel_nodup; exact ND|]. cbn.
      eapply forks_wdel_found; eauto.
    + intros x Hx. left. destruct (forks_wset_incl _ _ _ _ Hx) as [E|Hi].
      * cbn in E. subst. clear - W. induction (s_workers s) as [|[k2 j2] r IH]; cbn in *; [discriminate|].
        destruct (Nat.eqb b k2); [inversion W; subst; left; reflexivity|right; auto].
      * eapply forks_wdel_incl; eauto.
  - split; [apply forks_wdel_nodup; exact ND|]. intros x Hx. left. eapply forks_wdel_incl; eauto.
  - destruct counted; [|split; [exact ND|auto]].
    destruct (wfind k (s_workers s)) eqn:W; [|split; [exact ND|auto]].
    assert (E1 : forks (wset k (counted_err c w) (s_workers s)) = forks (s_workers s))
      by (eapply forks_wset_same; eauto).
    assert (E2 : forks (wset k (lost_err w) (s_workers s)) = forks (s_workers s))
      by (eapply forks_wset_same; eauto).
    destruct (fx_err_multi fx || negb (s_errworker s)).
    + destruct (c_errkill c <? w_errs w + 1)%N; unfold log_kill, set_errworker, upd; cbn [s_workers];
        rewrite E1; split; auto.
    + unfold set_lost, upd; cbn [s_workers]. rewrite E2. split; auto.
  - rewrite forks_on_worker by reflexivity. split; auto.
  - rewrite forks_on_worker by reflexivity. split; auto.
  - rewrite forks_on_worker by reflexivity. split; auto.
Qed.

Lemma insert_keys_cons_eq : forall e r,
  insert_keys (e :: r) = match e with ESetIns k => [k] | _ => [] end ++ insert_keys r.
Proof. reflexivity. Qed.

Lemma fork_tracked_once_from : forall fx c evs s,
  NoDup (forks (s_workers s)) -> NoDup (insert_keys evs) ->
  (forall k, In k (insert_keys evs) -> ~ In k (forks (s_workers s))) ->
  NoDup (forks (s_workers (run_from fx c s evs))).
Proof.
  induction evs as [|e r IH]; intros s ND NK D; [exact ND|].
  change (run_from fx c s (e :: r)) with (run_from fx c (fst (step fx c s e)) r).
  rewrite insert_keys_cons_eq in NK, D.
  assert (Hk : forall k, e = ESetIns k -> ~ In k (forks (s_workers s))).
  { intros k ->. apply D. cbn. left. reflexivity. }
  destruct (forks_step fx c s e ND Hk) as [ND' SUB].
  apply IH; [exact ND'| |].
  - destruct e; cbn in NK; try exact NK. inversion NK; auto.
  - intros k Hin Hf. destruct (SUB _ Hf) as [Hold | ->].
    + apply (D k); [apply in_or_app; right; exact Hin|exact Hold].
    + cbn in NK. inversion NK; subst. contradiction.
Qed.

Lemma fork_tracked_once_lemma : forall fx c evs,
  NoDup (insert_keys evs) -> NoDup (forks_of (run fx c evs)).
Proof.
  intros fx c evs NK. unfold forks_of, run.
  apply (fork_tracked_once_from fx c evs init_st); [constructor|exact NK|].
  intros k _ H. exact H.
Qed.

(* the worker connects before its fork completes (late seam): the re-keying
   finds nothing, ErrWorkerMissing is raised for an address nobody tracks, the
   completion then inserts a boot entry that stays as it is *)
Lemma connect_before_completion_lemma : forall c s b a,
  wfind b (s_workers s) = None -> wfind a (s_workers s) = None ->
  let s' := run_from no_fixes c s [ERekey b a; EErr a true; ESetIns b] in
  tracked s' = (tracked s + 1)%N /\
  wfind b (s_workers s') = Some (fresh_info_of b) /\
  wfind a (s_workers s') = (if Nat.eqb a b then Some (fresh_info_of b) else None) /\
  ready s' = ready s /\
  s_inflight s' = rem b (s_inflight s).
Proof.
  intros c s b a Wb Wa s'. subst s'. unfold run_from. cbn [fold_left].
  rewrite (rekey_missing_noop_lemma no_fixes c s b a Wb). cbn [fst].
  assert (E1 : fst (step no_fixes c s (EErr a true)) = set_errworker s true).
  { unfold step. cbn. rewrite Wa. reflexivity. }
  rewrite E1. unfold step. cbn.
  assert (L : forall l, wfind b l = None -> wfind b (wset b (fresh_info_of b) l) = Some (fresh_info_of b)).
  { induction l as [|[k j] r IH]; cbn; intros H; [rewrite Nat.eqb_refl; reflexivity|].
    destruct (Nat.eqb b k) eqn:E; [discriminate|]. cbn. rewrite E. auto. }
  repeat split.
  - unfold tracked. cbn. rewrite wset_len_none by exact Wb. lia.
  - apply L. exact Wb.
  - destruct (Nat.eqb a b) eqn:E.
    + apply Nat.eqb_eq in E. subst. apply L. exact Wb.
    + rewrite wfind_wset_other; [exact Wa|]. intro; subst. rewrite Nat.eqb_refl in E. discriminate.
  - unfold ready. cbn. f_equal. clear - Wb.
    induction (s_workers s) as [|[k j] r IH]; cbn in *; [reflexivity|].
    destruct (Nat.eqb b k); [discriminate|]. cbn. destruct (is_ready j); cbn; rewrite IH; auto.
Qed.

Lemma late_seam_nonvacuous_lemma :
  let c := {| c_min := 1; c_max := 1; c_errkill := 3; c_warm := 0 |} in
  let late := [ENormalize; EForkReq; EForking 1; ERekey 1 11; EErr 11 true; EErrClear; ESetIns 1] in
  let prompt := [ENormalize; EForkReq; EForking 1; ESetIns 1; ERekey 1 11] in
  (* prompt seam: one tracked worker under its local address, ready *)
  tracked (run no_fixes c prompt) = 1%N /\ ready (run no_fixes c prompt) = 1%N /\
  forks_of (run no_fixes c prompt) = [1] /\
  (* late seam: the boot entry, never connected; the pool cannot get ready; a
     further fork is refused *)
  tracked (run no_fixes c late) = 1%N /\ ready (run no_fixes c late) = 0%N /\
  forks_of (run no_fixes c late) = [1] /\
  wfind 11 (s_workers (run no_fixes c late)) = None /\
  step no_fixes c (run no_fixes c late) ETryReady = (run no_fixes c late, false) /\
  step no_fixes c (run no_fixes c late) EForkReq = (run no_fixes c late, false) /\
  bound_ok c (tracked (run no_fixes c late)) = true /\
  (* were the missing entry registered by the re-keying, the completion would
     track the fork a second time *)
  bound_partial_obs c 2 (run no_fixes c late) = false /\
  rekey_ok 0 1 = false.
Proof. vm_compute. repeat split. Qed.

(* ------------------------------------------------------------ state groups *)

Definition groups_exclusive_lemma := C19Proofs.group_exclusive_reachable_lemma.

(* ------------------------------------------------------------ non-vacuity *)

Lemma poolready_nonvacuous_lemma :
  let c := {| c_min := 2; c_max := 3; c_errkill := 1; c_warm := 0 |} in
  let up := [EForkReq; EForking 1; ESetIns 1; ERekey 1 11; EForkReq; EForking 2; ESetIns 2] in
  (* one ready worker of two tracked: the gate refuses *)
  step no_fixes c (run no_fixes c up) ETryReady = (run no_fixes c up, false) /\
  (* two ready: PoolReady activates *)
  s_poolready (run no_fixes c (up ++ [ERekey 2 12; ETryReady])) = true /\
  ready (run no_fixes c (up ++ [ERekey 2 12; ETryReady])) = 2%N /\
  (* still two ready: the withdrawal is vetoed *)
  s_poolready (run no_fixes c (up ++ [ERekey 2 12; ETryReady; ETryUnready])) = true /\
  (* an error makes one of them unready: the re-check withdraws PoolReady *)
  s_poolready (run no_fixes c (up ++ [ERekey 2 12; ETryReady; EErr 12 true; ETryUnready])) = false /\
  (* the second error takes it over the limit of 1: kill requested *)
  s_killlog (run no_fixes c (up ++ [ERekey 2 12; EErr 12 true; EErrClear; EErr 12 true])) = [12] /\
  s_killlog (run no_fixes c (up ++ [ERekey 2 12; EErr 12 true; EErrClear; EErr 12 false])) = [] /\
  (* ... unless it arrives while ErrWorker is still active *)
  s_killlog (run no_fixes c (up ++ [ERekey 2 12; EErr 12 true; EErr 12 true])) = [] /\
  s_killlog (run err_multi_fix c (up ++ [ERekey 2 12; EErr 12 true; EErr 12 true])) = [12].
Proof. vm_compute. repeat split. Qed.
