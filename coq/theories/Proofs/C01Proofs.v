(* C01 — proofs about the clocks of the machine model (Model/Machine.v)
   against the C01 predicates (Spec/C01.v). Lemmas only; the property
   theorems are restated in Props/C01.v and closed by [exact]. *)

From Coq Require Import List Bool Arith NArith Lia Permutation.
From AMV Require Import Base.ListSet Model.Schema Model.Resolver Model.Machine Spec.C01.
Import ListNotations.

(* ------------------------------------------------------------------ *)
(* A. lists                                                            *)
(* ------------------------------------------------------------------ *)

Lemma mem_In : forall x l, mem x l = true <-> In x l.
Proof.
  intros x l. unfold mem. rewrite existsb_exists. split.
  - intros [y [Hy Heq]]. apply Nat.eqb_eq in Heq. subst. exact Hy.
  - intros Hin. exists x. split; [exact Hin | apply Nat.eqb_refl].
Qed.

Lemma mem_false : forall x l, mem x l = false <-> ~ In x l.
Proof.
  intros x l. split.
  - intros Hf Hin. apply mem_In in Hin. congruence.
  - intros Hn. destruct (mem x l) eqn:E; [|reflexivity].
    apply mem_In in E. contradiction.
Qed.

Lemma mem_cons : forall x y l, mem x (y :: l) = Nat.eqb x y || mem x l.
Proof. reflexivity. Qed.

Lemma mem_filter : forall f l x, mem x (filter f l) = mem x l && f x.
Proof.
  intros f l x. destruct (mem x (filter f l)) eqn:E.
  - apply mem_In in E. apply filter_In in E. destruct E as [Hin Hf].
    apply mem_In in Hin. rewrite Hin, Hf. reflexivity.
  - destruct (mem x l) eqn:E1; [|reflexivity]. destruct (f x) eqn:E2; [|reflexivity].
    apply mem_false in E. exfalso. apply E. apply filter_In. split; [|exact E2].
    apply mem_In. exact E1.
Qed.

Lemma mem_diff : forall a b x, mem x (diff a b) = mem x a && negb (mem x b).
Proof. intros a b x. unfold diff. apply mem_filter. Qed.

(* in-range lists *)
Definition inr (n : nat) (l : list nat) : Prop := forall x, In x l -> x < n.

Lemma inr_nil : forall n, inr n [].
Proof. intros n x []. Qed.

Lemma inr_incl : forall n l1 l2, (forall x, In x l1 -> In x l2) -> inr n l2 -> inr n l1.
Proof. intros n l1 l2 Hincl H2 x Hx. apply H2. apply Hincl. exact Hx. Qed.

Lemma inr_app : forall n l1 l2, inr n l1 -> inr n l2 -> inr n (l1 ++ l2).
Proof.
  intros n l1 l2 H1 H2 x Hx. apply in_app_or in Hx. destruct Hx as [Hx|Hx]; auto.
Qed.

Lemma inr_filter : forall n f l, inr n l -> inr n (filter f l).
Proof. intros n f l H. eapply inr_incl; [|exact H]. intros x Hx. apply filter_In in Hx. tauto. Qed.

Lemma inr_forallb : forall n l, forallb (fun x => x <? n) l = true <-> inr n l.
Proof.
  intros n l. rewrite forallb_forall. unfold inr. split.
  - intros H x Hx. apply Nat.ltb_lt. apply H. exact Hx.
  - intros H x Hx. apply Nat.ltb_lt. apply H. exact Hx.
Qed.

Lemma uniq_acc_In : forall l seen x,
  In x (uniq_acc seen l) <-> In x l /\ ~ In x seen.
Proof.
  induction l as [|y r IH]; intros seen x; simpl.
  - tauto.
  - destruct (mem y seen) eqn:E.
    + rewrite IH. apply mem_In in E. split.
      * intros [H1 H2]. tauto.
      * intros [[H1|H1] H2]; [subst; contradiction | tauto].
    + apply mem_false in E. simpl. rewrite IH. simpl. split.
      * intros [H|[H1 H2]]; [subst; tauto | tauto].
      * intros [[H1|H1] H2]; [tauto|].
        destruct (Nat.eq_dec y x) as [Heq|Hne]; [tauto|]. right. tauto.
Qed.

Lemma uniq_In : forall l x, In x (uniq l) <-> In x l.
Proof. intros l x. unfold uniq. rewrite uniq_acc_In. simpl. tauto. Qed.

Lemma uniq_acc_NoDup : forall l seen, NoDup (uniq_acc seen l).
Proof.
  induction l as [|y r IH]; intros seen; simpl.
  - constructor.
  - destruct (mem y seen) eqn:E.
    + apply IH.
    + constructor; [|apply IH].
      rewrite uniq_acc_In. simpl. tauto.
Qed.

Lemma uniq_NoDup : forall l, NoDup (uniq l).
Proof. intros l. apply uniq_acc_NoDup. Qed.

Lemma inr_uniq : forall n l, inr n l -> inr n (uniq l).
Proof. intros n l H. eapply inr_incl; [|exact H]. intros x. apply uniq_In. Qed.

(* Go's insertion sort is a permutation *)
Lemma ins_perm : forall (A : Type) (less : A -> A -> bool) x rp,
  Permutation (ins less x rp) (x :: rp).
Proof.
  intros A less x rp. induction rp as [|p r IH]; simpl.
  - apply Permutation_refl.
  - destruct (less x p).
    + apply Permutation_trans with (p :: x :: r).
      * apply perm_skip. exact IH.
      * apply perm_swap.
    + apply Permutation_refl.
Qed.

Lemma fold_ins_perm : forall (A : Type) (less : A -> A -> bool) l acc,
  Permutation (fold_left (fun a x => ins less x a) l acc) (l ++ acc).
Proof.
  intros A less l. induction l as [|x r IH]; intros acc; simpl.
  - apply Permutation_refl.
  - apply Permutation_trans with (r ++ ins less x acc); [apply IH|].
    apply Permutation_trans with (r ++ x :: acc).
    + apply Permutation_app_head. apply ins_perm.
    + apply Permutation_sym. apply Permutation_middle.
Qed.

Lemma go_insertion_sort_perm : forall (A : Type) (less : A -> A -> bool) l,
  Permutation (go_insertion_sort less l) l.
Proof.
  intros A less l. unfold go_insertion_sort.
  apply Permutation_trans with (fold_left (fun a x => ins less x a) l []).
  - apply Permutation_sym. apply Permutation_rev.
  - pose proof (fold_ins_perm A less l []) as H. rewrite app_nil_r in H. exact H.
Qed.

Lemma sort_states_perm : forall sc topo l, Permutation (sort_states sc topo l) l.
Proof.
  intros sc topo l. unfold sort_states.
  eapply Permutation_trans; apply go_insertion_sort_perm.
Qed.

Lemma sort_states_In : forall sc topo l x, In x (sort_states sc topo l) <-> In x l.
Proof.
  intros sc topo l x. split; apply Permutation_in.
  - apply sort_states_perm.
  - apply Permutation_sym. apply sort_states_perm.
Qed.

Lemma sort_states_NoDup : forall sc topo l, NoDup l -> NoDup (sort_states sc topo l).
Proof.
  intros sc topo l Hnd. eapply Permutation_NoDup; [|exact Hnd].
  apply Permutation_sym. apply sort_states_perm.
Qed.

Lemma inr_sort_states : forall n sc topo l, inr n l -> inr n (sort_states sc topo l).
Proof. intros n sc topo l H. eapply inr_incl; [|exact H]. intros x. apply sort_states_In. Qed.

Lemma parse_require_fuel_incl : forall fuel sc states x,
  In x (parse_require_fuel fuel sc states) -> In x states.
Proof.
  induction fuel as [|f IH]; intros sc states x; simpl; [tauto|].
  destruct (Nat.eqb _ _); [tauto|].
  intros Hin. apply IH in Hin. apply filter_In in Hin. tauto.
Qed.

Lemma parse_require_incl : forall sc states x,
  In x (parse_require sc states) -> In x states.
Proof. intros sc states x. apply parse_require_fuel_incl. Qed.

Lemma parse_require_fuel_NoDup : forall fuel sc states,
  NoDup states -> NoDup (parse_require_fuel fuel sc states).
Proof.
  induction fuel as [|f IH]; intros sc states Hnd; simpl; [exact Hnd|].
  destruct (Nat.eqb _ _); [exact Hnd|].
  apply IH. apply NoDup_filter. exact Hnd.
Qed.

Lemma parse_require_NoDup : forall sc states,
  NoDup states -> NoDup (parse_require sc states).
Proof. intros sc states. apply parse_require_fuel_NoDup. Qed.

(* the target of a transition is duplicate-free *)
Lemma target_states_NoDup_lemma : forall (c : rctx) (to_set : list nat),
  NoDup (target_states c to_set).
Proof.
  intros c to_set. unfold target_states. apply sort_states_NoDup.
  unfold target_unsorted. apply parse_require_NoDup. apply NoDup_rev. apply uniq_NoDup.
Qed.

(* references of a well-formed schema are in range *)
Lemma refs_ok_add : forall sc a x, refs_ok sc = true ->
  In x (s_add (sget sc a)) -> x < length sc.
Proof.
  intros sc a x Hr Hin. unfold sget in Hin.
  destruct (Nat.lt_ge_cases a (length sc)) as [Hlt|Hge].
  - unfold refs_ok in Hr. rewrite forallb_forall in Hr.
    specialize (Hr (nth a sc empty_sdef) (nth_In _ _ Hlt)).
    rewrite forallb_forall in Hr. apply Nat.ltb_lt. apply Hr.
    apply in_or_app. right. apply in_or_app. left. exact Hin.
  - rewrite nth_overflow in Hin by exact Hge. simpl in Hin. contradiction.
Qed.

Lemma parse_add_loop_inr : forall c l visited,
  refs_ok (rc_schema c) = true ->
  inr (length (rc_schema c)) (parse_add_loop c visited l).
Proof.
  intros c l. induction l as [|name r IH]; intros visited Hr; simpl.
  - apply inr_nil.
  - destruct (mem name (rc_before c) && negb (s_multi (sget (rc_schema c) name))); [apply IH; exact Hr|].
    destruct (mem name visited); [apply IH; exact Hr|].
    destruct (add_of c name) as [|n adds] eqn:E; [apply IH; exact Hr|].
    change (inr (length (rc_schema c)) ((n :: adds) ++ parse_add_loop c (name :: visited) r)).
    apply inr_app; [|apply IH; exact Hr].
    rewrite <- E. unfold add_of. apply inr_filter.
    intros x Hx. eapply refs_ok_add; eassumption.
Qed.

Lemma parse_add_inr : forall c l, refs_ok (rc_schema c) = true ->
  inr (length (rc_schema c)) l -> inr (length (rc_schema c)) (parse_add c l).
Proof.
  intros c l Hr Hl. unfold parse_add. apply inr_app; [exact Hl|].
  apply parse_add_loop_inr. exact Hr.
Qed.

Lemma scan_fold_incl : forall sc all l kept ab x,
  In x (fst (fold_left (scan_step sc all) l (kept, ab))) -> In x kept \/ In x l.
Proof.
  intros sc all l. induction l as [|name r IH]; intros kept ab x Hin.
  - left. exact Hin.
  - change (fold_left (scan_step sc all) (name :: r) (kept, ab))
      with (fold_left (scan_step sc all) r (scan_step sc all (kept, ab) name)) in Hin.
    unfold scan_step in Hin.
    destruct (filter (fun b => negb (mem b ab)) (blocked_by sc all name)).
    + apply IH in Hin. destruct Hin as [Hin|Hin]; [|right; right; exact Hin].
      apply in_app_or in Hin. destruct Hin as [Hin|[Hin|[]]]; [left; exact Hin|].
      right. left. exact Hin.
    + apply IH in Hin. destruct Hin as [Hin|Hin]; [left; exact Hin|right; right; exact Hin].
Qed.

Lemma blocked_scan_incl : forall sc all x, In x (blocked_scan sc all) -> In x all.
Proof.
  intros sc all x Hin. unfold blocked_scan in Hin. apply scan_fold_incl in Hin.
  destruct Hin as [[]|Hin]. apply in_rev. exact Hin.
Qed.

(* the target of a transition is in range *)
Lemma target_states_inr_lemma : forall (c : rctx) (to_set : list nat),
  refs_ok (rc_schema c) = true ->
  inr (length (rc_schema c)) to_set ->
  inr (length (rc_schema c)) (target_states c to_set).
Proof.
  intros c to_set Hr Hts. unfold target_states. apply inr_sort_states.
  unfold target_unsorted.
  eapply inr_incl; [intros x; apply parse_require_incl|].
  eapply inr_incl; [intros x Hx; apply in_rev in Hx; exact Hx|].
  apply inr_uniq. apply inr_filter. apply parse_add_inr; [exact Hr|].
  eapply inr_incl; [intros x; apply blocked_scan_incl|].
  eapply inr_incl; [intros x; apply parse_require_incl|].
  apply inr_uniq. apply parse_add_inr; [exact Hr|]. apply inr_uniq. exact Hts.
Qed.

Lemma states_to_set_inr : forall n mt called active,
  inr n called -> inr n active -> inr n (states_to_set mt called active).
Proof.
  intros n mt called active Hc Ha. destruct mt; simpl.
  - apply inr_app; assumption.
  - apply inr_filter. exact Ha.
  - exact Hc.
Qed.

Lemma without_incl : forall l x y, In y (without l x) -> In y l.
Proof.
  induction l as [|z r IH]; intros x y Hin; simpl in *; [contradiction|].
  destruct (Nat.eqb x z); [right; exact Hin|].
  destruct Hin as [Hin|Hin]; [left; exact Hin|right; eapply IH; exact Hin].
Qed.

Lemma without_NoDup : forall l x, NoDup l -> NoDup (without l x).
Proof.
  induction l as [|z r IH]; intros x Hnd; simpl; [constructor|].
  inversion Hnd as [|? ? Hnotin Hnd']; subst.
  destruct (Nat.eqb x z); [exact Hnd'|].
  constructor; [|apply IH; exact Hnd'].
  intros Hin. apply Hnotin. eapply without_incl. exact Hin.
Qed.

Lemma inr_without : forall n l x, inr n l -> inr n (without l x).
Proof. intros n l x H. eapply inr_incl; [|exact H]. intros y. apply without_incl. Qed.

(* recoverFinalPhase's list *)
Lemma recover_walk_NoDup_lemma : forall finals to enters found act,
  NoDup act -> NoDup (recover_walk to enters found finals act).
Proof.
  induction finals as [|x r IH]; intros to enters found act Hnd; simpl; [exact Hnd|].
  destruct (found || match to with Some y => Nat.eqb x y | None => false end).
  - apply IH. destruct (mem x enters); [apply without_NoDup; exact Hnd|].
    destruct (mem x act) eqn:E; [exact Hnd|].
    apply mem_false in E.
    apply NoDup_rev in Hnd. rewrite <- (rev_involutive (act ++ [x])).
    apply NoDup_rev. rewrite rev_app_distr. simpl. constructor; [|exact Hnd].
    intros Hin. apply E. apply in_rev. exact Hin.
  - apply IH. exact Hnd.
Qed.

Lemma recover_walk_inr_lemma : forall n finals to enters found act,
  inr n finals -> inr n act -> inr n (recover_walk to enters found finals act).
Proof.
  intros n. induction finals as [|x r IH]; intros to enters found act Hf Ha; simpl; [exact Ha|].
  assert (Hr : inr n r) by (intros y Hy; apply Hf; right; exact Hy).
  destruct (found || match to with Some y => Nat.eqb x y | None => false end).
  - apply IH; [exact Hr|]. destruct (mem x enters); [apply inr_without; exact Ha|].
    destruct (mem x act); [exact Ha|].
    apply inr_app; [exact Ha|]. intros y [Hy|[]]. subst. apply Hf. left. reflexivity.
  - apply IH; assumption.
Qed.

(* ------------------------------------------------------------------ *)
(* B. clocks                                                           *)
(* ------------------------------------------------------------------ *)

Open Scope N_scope.

(* add f(index) to every tick, indexes counted from k *)
Fixpoint addf (k : nat) (f : nat -> N) (cl : list N) : list N :=
  match cl with
  | [] => []
  | x :: r => (x + f k) :: addf (S k) f r
  end.

Lemma addf_length : forall cl k f, length (addf k f cl) = length cl.
Proof. induction cl as [|x r IH]; intros k f; simpl; [reflexivity|]. rewrite IH. reflexivity. Qed.

Lemma addf_ext : forall cl k f g, (forall j, f j = g j) -> addf k f cl = addf k g cl.
Proof.
  induction cl as [|x r IH]; intros k f g H; simpl; [reflexivity|].
  rewrite H. f_equal. apply IH. exact H.
Qed.

Lemma addf_zero : forall cl k, addf k (fun _ => 0) cl = cl.
Proof.
  induction cl as [|x r IH]; intros k; simpl; [reflexivity|].
  rewrite N.add_0_r. f_equal. apply IH.
Qed.

Lemma addf_addf : forall cl k f g,
  addf k g (addf k f cl) = addf k (fun j => f j + g j) cl.
Proof.
  induction cl as [|x r IH]; intros k f g; simpl; [reflexivity|].
  rewrite N.add_assoc. f_equal. apply IH.
Qed.

Lemma tick_at_gen : forall cl k i d,
  map (fun p : nat * N => if Nat.eqb (fst p) i then snd p + d else snd p)
      (combine (seq k (length cl)) cl)
  = addf k (fun j => if Nat.eqb j i then d else 0) cl.
Proof.
  induction cl as [|x r IH]; intros k i d; simpl; [reflexivity|].
  f_equal; [|apply IH].
  destruct (Nat.eqb k i); [reflexivity|]. rewrite N.add_0_r. reflexivity.
Qed.

Lemma tick_at_addf : forall cl i d,
  tick_at cl i d = addf 0 (fun j => if Nat.eqb j i then d else 0) cl.
Proof. intros cl i d. unfold tick_at. apply tick_at_gen. Qed.

Lemma tick_at_zero : forall cl i, tick_at cl i 0 = cl.
Proof.
  intros cl i. rewrite tick_at_addf. rewrite <- (addf_zero cl 0) at 2.
  apply addf_ext. intros j. destruct (Nat.eqb j i); reflexivity.
Qed.

(* the sum of the weights of the occurrences of j *)
Fixpoint cnt (w : nat -> N) (l : list nat) (j : nat) : N :=
  match l with
  | [] => 0
  | x :: r => (if Nat.eqb j x then w x else 0) + cnt w r j
  end.

Lemma fold_tick : forall (w : nat -> N) l f cl,
  fold_left (fun c name => tick_at c name (w name)) l (addf 0 f cl)
  = addf 0 (fun j => f j + cnt w l j) cl.
Proof.
  intros w l. induction l as [|a r IH]; intros f cl; simpl.
  - apply addf_ext. intros j. rewrite N.add_0_r. reflexivity.
  - rewrite tick_at_addf, addf_addf, IH. apply addf_ext. intros j.
    rewrite N.add_assoc. reflexivity.
Qed.

Lemma fold_left_ext : forall (A B : Type) (f g : A -> B -> A) l a,
  (forall a b, f a b = g a b) -> fold_left f l a = fold_left g l a.
Proof.
  intros A B f g l. induction l as [|b r IH]; intros a H; simpl; [reflexivity|].
  rewrite H. apply IH. exact H.
Qed.

Definition w_target (sc : schema) (prev called : list nat) (name : nat) : N :=
  if negb (mem name prev) then 1
  else if mem name called && s_multi (sget sc name) then 2 else 0.

Lemma set_active_clock_cnt : forall sc cl prev called tg,
  set_active_clock sc cl prev called tg
  = addf 0 (fun j => cnt (w_target sc prev called) tg j
                     + cnt (fun _ => 1) (diff prev tg) j) cl.
Proof.
  intros sc cl prev called tg. unfold set_active_clock.
  match goal with
  | |- fold_left _ _ (fold_left ?f tg cl) = _ =>
    rewrite (fold_left_ext _ _ f (fun c name => tick_at c name (w_target sc prev called name)))
  end.
  - rewrite <- (addf_zero cl 0) at 1. rewrite fold_tick.
    pose proof (fold_tick (fun _ => 1%N)) as H1. cbv beta in H1. rewrite H1.
    apply addf_ext. intros j. reflexivity.
  - intros c name. unfold w_target.
    destruct (negb (mem name prev)); [reflexivity|].
    destruct (mem name called && s_multi (sget sc name)); [reflexivity|].
    symmetry. apply tick_at_zero.
Qed.

Lemma cnt_NoDup : forall w l j, NoDup l -> cnt w l j = if mem j l then w j else 0.
Proof.
  intros w l j. induction l as [|x r IH]; intros Hnd; simpl; [reflexivity|].
  inversion Hnd as [|? ? Hnotin Hnd']; subst. rewrite (IH Hnd').
  destruct (Nat.eqb j x) eqn:E; simpl.
  - apply Nat.eqb_eq in E. subst x.
    apply mem_false in Hnotin. rewrite Hnotin. apply N.add_0_r.
  - reflexivity.
Qed.

(* the documented move of tick j *)
Definition delta (sc : schema) (prev called tg : list nat) (j : nat) : N :=
  if mem j tg then
    (if negb (mem j prev) then 1
     else if mem j called && s_multi (sget sc j) then 2 else 0)
  else if mem j prev then 1 else 0.

Lemma set_active_clock_delta : forall sc cl prev called tg,
  NoDup tg -> NoDup prev ->
  set_active_clock sc cl prev called tg = addf 0 (delta sc prev called tg) cl.
Proof.
  intros sc cl prev called tg Htg Hprev. rewrite set_active_clock_cnt.
  apply addf_ext. intros j.
  rewrite (cnt_NoDup _ tg j Htg).
  rewrite (cnt_NoDup _ (diff prev tg) j) by (apply NoDup_filter; exact Hprev).
  rewrite mem_diff. unfold delta, w_target.
  destruct (mem j tg); destruct (mem j prev); simpl;
    try reflexivity.
  destruct (mem j called && s_multi (sget sc j)); reflexivity.
Qed.

Lemma set_active_clock_length : forall sc cl prev called tg,
  length (set_active_clock sc cl prev called tg) = length cl.
Proof. intros sc cl prev called tg. rewrite set_active_clock_cnt. apply addf_length. Qed.

Lemma clock_le_refl : forall a, clock_le a a = true.
Proof. induction a as [|x r IH]; simpl; [reflexivity|]. rewrite N.leb_refl. exact IH. Qed.

Lemma clock_le_trans : forall a b c,
  clock_le a b = true -> clock_le b c = true -> clock_le a c = true.
Proof.
  induction a as [|x r IH]; intros [|y s] [|z u] H1 H2; simpl in *; try discriminate; try reflexivity.
  apply andb_true_iff in H1. destruct H1 as [H1 H1']. apply andb_true_iff in H2. destruct H2 as [H2 H2'].
  apply andb_true_iff. split; [|eapply IH; eassumption].
  apply N.leb_le in H1. apply N.leb_le in H2. apply N.leb_le. lia.
Qed.

Lemma clock_le_length : forall a b, clock_le a b = true -> length a = length b.
Proof.
  induction a as [|x r IH]; intros [|y s] H; simpl in *; try discriminate; [reflexivity|].
  apply andb_true_iff in H. destruct H as [_ H]. f_equal. apply IH. exact H.
Qed.

Lemma clock_eqb_refl : forall a, clock_eqb a a = true.
Proof. induction a as [|x r IH]; simpl; [reflexivity|]. rewrite N.eqb_refl. exact IH. Qed.

Lemma clock_le_addf : forall cl k f, clock_le cl (addf k f cl) = true.
Proof.
  induction cl as [|x r IH]; intros k f; simpl; [reflexivity|].
  rewrite IH. rewrite andb_true_r. apply N.leb_le. lia.
Qed.

(* (1b) setActiveStates never decreases a tick *)
Lemma set_active_monotone_lemma : forall sc cl prev called tg,
  clock_le cl (set_active_clock sc cl prev called tg) = true.
Proof. intros sc cl prev called tg. rewrite set_active_clock_cnt. apply clock_le_addf. Qed.

Definition par_at (act : list nat) (p : nat * N) : bool :=
  Bool.eqb (N.odd (snd p)) (mem (fst p) act).

Lemma parity_addf : forall cl k f prev tg,
  (forall j x, Bool.eqb (N.odd x) (mem j prev) = true ->
               Bool.eqb (N.odd (x + f j)) (mem j tg) = true) ->
  forallb (par_at prev) (combine (seq k (length cl)) cl) = true ->
  forallb (par_at tg) (combine (seq k (length (addf k f cl))) (addf k f cl)) = true.
Proof.
  induction cl as [|x r IH]; intros k f prev tg Hf Hp; simpl in *; [reflexivity|].
  apply andb_true_iff in Hp. destruct Hp as [Hx Hr].
  apply andb_true_iff. split.
  - unfold par_at in *. simpl in *. apply Hf. exact Hx.
  - eapply IH; eassumption.
Qed.

Lemma parity_ok_split : forall cl act,
  parity_ok cl act = true <->
  forallb (par_at act) (combine (seq 0 (length cl)) cl) = true /\ inr (length cl) act.
Proof.
  intros cl act. unfold parity_ok. rewrite andb_true_iff. rewrite inr_forallb.
  unfold par_at. tauto.
Qed.

Lemma delta_parity : forall sc prev called tg j x,
  Bool.eqb (N.odd x) (mem j prev) = true ->
  Bool.eqb (N.odd (x + delta sc prev called tg j)) (mem j tg) = true.
Proof.
  intros sc prev called tg j x H. apply eqb_prop in H.
  rewrite N.odd_add, H. unfold delta.
  destruct (mem j tg); destruct (mem j prev); simpl; try reflexivity.
  destruct (mem j called && s_multi (sget sc j)); reflexivity.
Qed.

(* (1) the core lemma: setActiveStates re-establishes parity = activity *)
Lemma set_active_parity_lemma : forall sc cl prev called tg,
  NoDup tg -> inr (length cl) tg ->
  parity_ok cl prev = true -> NoDup prev ->
  parity_ok (set_active_clock sc cl prev called tg) tg = true.
Proof.
  intros sc cl prev called tg Htg Hin Hp Hprev.
  apply parity_ok_split in Hp. destruct Hp as [Hp _].
  rewrite set_active_clock_delta by assumption.
  apply parity_ok_split. split.
  - eapply parity_addf; [|exact Hp]. intros j x. apply delta_parity.
  - rewrite addf_length. exact Hin.
Qed.

Lemma steps_addf : forall sc t cl k f,
  (forall j x, step_ok sc t j x (x + f j) = true) ->
  steps_ok sc t k cl (addf k f cl) = true.
Proof.
  intros sc t. induction cl as [|x r IH]; intros k f H; simpl; [reflexivity|].
  rewrite H. simpl. apply IH. exact H.
Qed.

Lemma delta_step : forall sc (t : txrec) prev called tg j x,
  tx_called t = called -> tx_active_before t = prev -> tx_target t = tg ->
  step_ok sc t j x (x + delta sc prev called tg j) = true.
Proof.
  intros sc t prev called tg j x Hc Hp Ht. unfold step_ok. rewrite Hc, Hp, Ht.
  replace (x + delta sc prev called tg j - x) with (delta sc prev called tg j) by lia.
  replace (x <=? x + delta sc prev called tg j) with true by (symmetry; apply N.leb_le; lia).
  unfold delta.
  destruct (mem j tg); destruct (mem j prev); destruct (s_multi (sget sc j));
    destruct (mem j called); reflexivity.
Qed.

(* the documented step sizes of setActiveStates *)
Lemma set_active_steps_lemma : forall sc (t : txrec) cl prev called tg,
  NoDup tg -> NoDup prev ->
  tx_called t = called -> tx_active_before t = prev -> tx_target t = tg ->
  steps_ok sc t 0 cl (set_active_clock sc cl prev called tg) = true.
Proof.
  intros sc t cl prev called tg Htg Hprev Hc Hp Ht.
  rewrite set_active_clock_delta by assumption.
  apply steps_addf. intros j x. apply delta_step; assumption.
Qed.

Close Scope N_scope.

(* ------------------------------------------------------------------ *)
(* C. well-formed machine states, frames                               *)
(* ------------------------------------------------------------------ *)

(* every state named by a list of API calls is defined *)
Definition calls_in_range (n : nat) (cs : list api_call) : bool :=
  forallb (fun c => forallb (fun x => x <? n) (ac_states c)) cs.

(* ... and by the nested calls of the scripted handlers *)
Definition actions_in_range (n : nat) (acts : list haction) : bool :=
  forallb (fun a => calls_in_range n (ha_calls a)) acts.

Definition fault_free (acts : list haction) : Prop :=
  forallb (fun a => match ha_fault a with FNone => true | _ => false end) acts = true.

Lemma fault_free_tl : forall l, fault_free l -> fault_free (tl l).
Proof.
  intros [|a r] H; simpl; [exact H|]. unfold fault_free in *. simpl in H.
  apply andb_true_iff in H. tauto.
Qed.

Lemma fault_free_hd : forall l, fault_free l -> ha_fault (hd default_action l) = FNone.
Proof.
  intros [|a r] H; simpl; [reflexivity|]. unfold fault_free in H. simpl in H.
  apply andb_true_iff in H. destruct H as [H _]. destruct (ha_fault a); [reflexivity|discriminate|discriminate].
Qed.

Definition mu_inr (n : nat) (mu : mutation) : Prop := inr n (mu_called mu).

(* the well-formedness invariant of machine states *)
Record Inv (s : st) : Prop := {
  inv_refs : refs_ok (sc s) = true;
  inv_exc : exc s < length (sc s);
  inv_len : length (clock s) = length (sc s);
  inv_par : parity_ok (clock s) (active s) = true;
  inv_nd : NoDup (active s);
  inv_q : Forall (mu_inr (length (sc s))) (queue s);
  inv_acts : actions_in_range (length (sc s)) (actions s) = true
}.

Definition hl_par (h : hlentry) : bool := parity_ok (hl_clock h) (hl_active h).
Definition tx_par (t : txrec) : bool := parity_ok (tx_before t) (tx_active_before t).
Definition co_par (c : callobs) : bool := parity_ok (co_time c) (co_active c).

(* Sections C-G are relative to a base handler log: [HL s] says that the log
   of [s] is the base log plus new entries, all of which satisfy parity *)
Section BaseLog.
Variable base : list hlentry.

Definition HL (s : st) : Prop :=
  exists newh, hlog s = newh ++ base /\ forallb hl_par newh = true.

Lemma Inv_active_inr : forall s, Inv s -> inr (length (sc s)) (active s).
Proof.
  intros s HI. destruct HI as [_ _ Hlen Hpar _ _ _].
  apply parity_ok_split in Hpar. rewrite <- Hlen. tauto.
Qed.

Lemma parity_zero : forall (A : Type) (l : list A) k,
  forallb (par_at []) (combine (seq k (length l)) (map (fun _ => 0%N) l)) = true.
Proof.
  intros A l. induction l as [|d r IH]; intros k; simpl; [reflexivity|]. apply IH.
Qed.

Lemma init_Inv : forall sch tp hl ex bs ql acts,
  refs_ok sch = true -> ex < length sch -> actions_in_range (length sch) acts = true ->
  Inv (init_st sch tp hl ex bs ql acts).
Proof.
  intros sch tp hl ex bs ql acts Hr Hex Ha. constructor; simpl; try assumption.
  - apply map_length.
  - apply parity_ok_split. split; [|apply inr_nil].
    rewrite map_length. apply parity_zero.
  - constructor.
  - constructor.
Qed.

(* everything but the queue, the queue ticks, the tracer events, the error
   code and the hung flag *)
Record same_core (s s' : st) : Prop := {
  sc_sc : sc s' = sc s;
  sc_exc : exc s' = exc s;
  sc_clock : clock s' = clock s;
  sc_active : active s' = active s;
  sc_actions : actions s' = actions s;
  sc_hlog : hlog s' = hlog s;
  sc_txs : txs s' = txs s;
  sc_ld : loop_dead s' = loop_dead s;
  sc_bind : bindings s' = bindings s
}.

Definition qstep (s s' : st) : Prop :=
  same_core s s' /\
  (Forall (mu_inr (length (sc s))) (queue s) -> Forall (mu_inr (length (sc s))) (queue s')).

Lemma same_core_refl : forall s, same_core s s.
Proof. intros s. constructor; reflexivity. Qed.

Lemma same_core_trans : forall s1 s2 s3, same_core s1 s2 -> same_core s2 s3 -> same_core s1 s3.
Proof.
  intros s1 s2 s3 [A1 A2 A3 A4 A5 A6 A7 A8 A9] [B1 B2 B3 B4 B5 B6 B7 B8 B9].
  constructor; congruence.
Qed.

Lemma qstep_refl : forall s, qstep s s.
Proof. intros s. split; [apply same_core_refl | tauto]. Qed.

Lemma qstep_trans : forall s1 s2 s3, qstep s1 s2 -> qstep s2 s3 -> qstep s1 s3.
Proof.
  intros s1 s2 s3 [C1 Q1] [C2 Q2]. split; [eapply same_core_trans; eassumption|].
  intros H. rewrite (sc_sc _ _ C1) in Q2. auto.
Qed.

Lemma qstep_Inv : forall s s', qstep s s' -> Inv s -> Inv s'.
Proof.
  intros s s' [[A1 A2 A3 A4 A5 A6 A7 A8 A9] Q] [I1 I2 I3 I4 I5 I6 I7].
  constructor; rewrite ?A1, ?A2, ?A3, ?A4, ?A5; auto.
Qed.

Lemma qstep_HL : forall s s', qstep s s' -> HL s -> HL s'.
Proof. intros s s' [C _] H. unfold HL. rewrite (sc_hlog _ _ C). exact H. Qed.

Lemma sff_qstep : forall s d hg ec, d = loop_dead s -> qstep s (set_fault_flags s d hg ec).
Proof.
  intros s d hg ec Hd. split; [constructor; simpl; auto | simpl; tauto].
Qed.

Lemma prepend_mut_qstep : forall s mu, mu_inr (length (sc s)) mu -> qstep s (prepend_mut s mu).
Proof.
  intros s mu Hmu. split; [constructor; reflexivity|]. simpl. intros H. constructor; assumption.
Qed.

Lemma add_ev_qstep : forall s e, qstep s (add_ev s e).
Proof. intros s e. split; [constructor; reflexivity | simpl; tauto]. Qed.

Lemma queue_mutation_qstep : forall s mt states args,
  inr (length (sc s)) states -> qstep s (fst (queue_mutation s mt states args)).
Proof.
  intros s mt states args Hs. unfold queue_mutation.
  destruct (negb (existsb (fun x => s_multi (sget (sc s) x)) (uniq states)) && negb args
            && is_dup (queue s) mt (uniq states)); simpl.
  - apply qstep_refl.
  - split; [constructor; reflexivity|]. simpl. intros H.
    apply Forall_app. split; [exact H|]. constructor; [|constructor].
    unfold mu_inr. simpl. apply inr_uniq. exact Hs.
Qed.

Lemma nested_add_qstep : forall s states args,
  inr (length (sc s)) states -> qstep s (fst (nested_add s states args)).
Proof.
  intros s states args Hs. unfold nested_add.
  destruct (limit_hit s && (negb (mem (exc s) states) || is_active s (exc s))); [apply qstep_refl|].
  pose proof (queue_mutation_qstep s MAdd states args Hs) as Hq.
  destruct (queue_mutation s MAdd states args) as [s1 tick]. simpl in Hq.
  destruct (N.eqb tick 0); exact Hq.
Qed.

Lemma nested_remove_qstep : forall s states args,
  inr (length (sc s)) states -> qstep s (fst (nested_remove s states args)).
Proof.
  intros s states args Hs. unfold nested_remove.
  destruct (limit_hit s && (negb (mem (exc s) states) || negb (is_active s (exc s)))); [apply qstep_refl|].
  destruct (Nat.eqb (length (queue s)) 0 && negb (existsb (is_active s) states)); [apply qstep_refl|].
  pose proof (queue_mutation_qstep s MRemove states args Hs) as Hq.
  destruct (queue_mutation s MRemove states args) as [s1 tick]. simpl in Hq.
  destruct (N.eqb tick 0); exact Hq.
Qed.

Lemma nested_set_qstep : forall s states args,
  inr (length (sc s)) states -> qstep s (fst (nested_set s states args)).
Proof.
  intros s states args Hs. unfold nested_set.
  destruct (limit_hit s); [apply qstep_refl|].
  pose proof (queue_mutation_qstep s MSet states args Hs) as Hq.
  destruct (queue_mutation s MSet states args) as [s1 tick]. simpl in Hq.
  destruct (N.eqb tick 0); exact Hq.
Qed.

Lemma nested_api_qstep : forall s c,
  exc s < length (sc s) -> inr (length (sc s)) (ac_states c) -> qstep s (fst (nested_api s c)).
Proof.
  intros s c Hex Hs. unfold nested_api. destruct (ac_kind c).
  - apply nested_add_qstep. exact Hs.
  - apply nested_remove_qstep. exact Hs.
  - apply nested_set_qstep. exact Hs.
  - destruct (mach_is s (ac_states c)); [apply nested_remove_qstep | apply nested_add_qstep]; exact Hs.
  - destruct (limit_hit s); [apply qstep_refl|].
    eapply qstep_trans; [apply (sff_qstep s (loop_dead s) (hung s) 1%N); reflexivity|].
    apply nested_add_qstep. simpl. intros x [Hx|[Hx|[]]]; subst; exact Hex.
  - simpl. apply prepend_mut_qstep. exact Hs.
  - simpl. apply prepend_mut_qstep. exact Hs.
Qed.

Lemma run_calls_qstep : forall cs s,
  exc s < length (sc s) -> calls_in_range (length (sc s)) cs = true ->
  qstep s (fst (run_calls s cs)).
Proof.
  induction cs as [|c r IH]; intros s Hex Hcs; simpl.
  - apply qstep_refl.
  - simpl in Hcs. apply andb_true_iff in Hcs. destruct Hcs as [Hc Hr].
    apply inr_forallb in Hc.
    pose proof (nested_api_qstep s c Hex Hc) as H1.
    destruct (nested_api s c) as [s1 res]. simpl in H1.
    assert (H2 : qstep s1 (fst (run_calls s1 r))).
    { destruct H1 as [C1 _]. apply IH; rewrite (sc_sc _ _ C1); [rewrite (sc_exc _ _ C1)|]; assumption. }
    destruct (run_calls s1 r) as [s2 rs]. simpl in *.
    eapply qstep_trans; eassumption.
Qed.

(* ------------------------------------------------------------------ *)
(* D. handlers (faults included)                                       *)
(* ------------------------------------------------------------------ *)

(* what the handler phase keeps of a state; [fin = false]: negotiation
   handlers never touch the clock or the active set *)
Record hstep (fin : bool) (s s' : st) : Prop := {
  hs_inv : Inv s';
  hs_hl : HL s';
  hs_sc : sc s' = sc s;
  hs_exc : exc s' = exc s;
  hs_txs : txs s' = txs s;
  hs_ld : loop_dead s' = loop_dead s;
  hs_bind : bindings s' = bindings s;
  hs_le : clock_le (clock s) (clock s') = true;
  hs_same : fin = false -> clock s' = clock s /\ active s' = active s;
  hs_ff : fault_free (actions s) -> fault_free (actions s')
}.

Lemma hstep_refl : forall fin s, Inv s -> HL s -> hstep fin s s.
Proof. intros fin s HI HH. constructor; auto. apply clock_le_refl. Qed.

Lemma hstep_trans : forall fin s1 s2 s3, hstep fin s1 s2 -> hstep fin s2 s3 -> hstep fin s1 s3.
Proof.
  intros fin s1 s2 s3 [A1 A2 A3 A4 A5 A6 A7 A8 A9 A10] [B1 B2 B3 B4 B5 B6 B7 B8 B9 B10].
  constructor; try congruence.
  - eapply clock_le_trans; eassumption.
  - intros Hf. destruct (A9 Hf) as [X1 X2]. destruct (B9 Hf) as [Y1 Y2]. split; congruence.
  - auto.
Qed.

Lemma hstep_weaken : forall fin s s', hstep false s s' -> hstep fin s s'.
Proof.
  intros fin s s' [A1 A2 A3 A4 A5 A6 A7 A8 A9 A10]. constructor; auto.
Qed.

Lemma qstep_hstep : forall fin s s', Inv s -> HL s -> qstep s s' -> hstep fin s s'.
Proof.
  intros fin s s' HI HH Hq. pose proof (qstep_Inv _ _ Hq HI) as HI'.
  pose proof (qstep_HL _ _ Hq HH) as HH'. destruct Hq as [[A1 A2 A3 A4 A5 A6 A7 A8 A9] _].
  constructor; auto; [rewrite A3; apply clock_le_refl | rewrite A5; tauto].
Qed.

(* the in-flight transition: duplicate-free target, everything in range *)
Record TI (n : nat) (t : tstate) : Prop := {
  ti_nd : NoDup (t_target t);
  ti_tg : inr n (t_target t);
  ti_en : inr n (t_enters t);
  ti_ex : inr n (t_exits t)
}.

(* what the handler phase keeps of the in-flight transition *)
Record tstep (t t' : tstate) : Prop := {
  ts_mut : t_mut t' = t_mut t;
  ts_before : t_before t' = t_before t;
  ts_cb : t_clock_before t' = t_clock_before t;
  ts_en : t_enters t' = t_enters t;
  ts_ex : t_exits t' = t_exits t
}.

Lemma tstep_refl : forall t, tstep t t.
Proof. intros t. constructor; reflexivity. Qed.

Lemma tstep_trans : forall t1 t2 t3, tstep t1 t2 -> tstep t2 t3 -> tstep t1 t3.
Proof. intros t1 t2 t3 [A1 A2 A3 A4 A5] [B1 B2 B3 B4 B5]. constructor; congruence. Qed.

Lemma TI_delete : forall n t x, TI n t -> TI n (with_target t (delete_state (t_target t) x)).
Proof.
  intros n t x [H1 H2 H3 H4]. constructor; simpl; auto.
  - apply without_NoDup. exact H1.
  - apply inr_without. exact H2.
Qed.

Lemma tstep_delete : forall t l, tstep t (with_target t l).
Proof. intros t l. constructor; reflexivity. Qed.

Lemma recover_final_phase_hstep : forall s t k,
  Inv s -> HL s -> TI (length (sc s)) t -> hstep true s (recover_final_phase s t k).
Proof.
  intros s t k HI HH HT. pose proof (Inv_active_inr s HI) as Hact.
  destruct HI as [I1 I2 I3 I4 I5 I6 I7]. destruct HT as [T1 T2 T3 T4].
  unfold recover_final_phase.
  constructor; simpl; auto.
  - constructor; simpl; auto.
    + rewrite set_active_clock_length. exact I3.
    + apply set_active_parity_lemma; auto.
      * apply recover_walk_NoDup_lemma. exact I5.
      * rewrite I3. apply recover_walk_inr_lemma; [apply inr_app; assumption | exact Hact].
    + apply recover_walk_NoDup_lemma. exact I5.
  - apply set_active_monotone_lemma.
  - discriminate.
Qed.

Lemma recover_to_err_hstep : forall s t k,
  Inv s -> HL s -> TI (length (sc s)) t -> hstep (is_final_key k) s (recover_to_err s t k).
Proof.
  intros s t k HI HH HT. unfold recover_to_err.
  destruct (mem (exc s) (mu_called (t_mut t))); [apply hstep_refl; assumption|].
  assert (H1 : hstep (is_final_key k) s (set_fault_flags s (loop_dead s) (hung s) 2%N)).
  { apply qstep_hstep; try assumption. apply sff_qstep. reflexivity. }
  set (s1 := set_fault_flags s (loop_dead s) (hung s) 2%N) in *.
  assert (H2 : hstep (is_final_key k) s
                 (if is_final_key k then recover_final_phase s1 t k else s1)).
  { destruct (is_final_key k); [|exact H1].
    eapply hstep_trans; [exact H1|].
    apply recover_final_phase_hstep; [apply (hs_inv _ _ _ H1) | apply (hs_hl _ _ _ H1) | exact HT]. }
  eapply hstep_trans; [exact H2|].
  apply qstep_hstep; [apply (hs_inv _ _ _ H2) | apply (hs_hl _ _ _ H2) |].
  apply prepend_mut_qstep. unfold mu_inr. simpl. intros x [Hx|[]]. subst x.
  rewrite (hs_sc _ _ _ H2). apply (inv_exc _ HI).
Qed.

Lemma handler_body_hstep : forall s s1 rs k bi ret,
  Inv s -> HL s ->
  run_calls (set_actions s (tl (actions s))) (ha_calls (hd default_action (actions s))) = (s1, rs) ->
  hstep false s (set_hlog s1 ({| hl_key := k; hl_binding := bi; hl_active := active s;
                                 hl_clock := clock s; hl_results := rs; hl_ret := ret |} :: hlog s1)).
Proof.
  intros s s1 rs k bi ret HI HH Hrc.
  assert (Hhd : calls_in_range (length (sc s)) (ha_calls (hd default_action (actions s))) = true
                /\ actions_in_range (length (sc s)) (tl (actions s)) = true).
  { pose proof (inv_acts _ HI) as Ha. destruct (actions s) as [|a r]; simpl in *.
    - split; reflexivity.
    - apply andb_true_iff in Ha. exact Ha. }
  destruct Hhd as [Hhd Htl].
  set (s0 := set_actions s (tl (actions s))) in *.
  assert (HI0 : Inv s0).
  { destruct HI as [I1 I2 I3 I4 I5 I6 I7]. constructor; simpl; auto. }
  pose proof (run_calls_qstep (ha_calls (hd default_action (actions s))) s0 (inv_exc _ HI0) Hhd) as Hq.
  rewrite Hrc in Hq. simpl in Hq.
  pose proof (qstep_Inv _ _ Hq HI0) as HI1.
  destruct Hq as [[A1 A2 A3 A4 A5 A6 A7 A8 A9] _]. simpl in *.
  constructor; simpl; auto.
  - destruct HI1 as [I1 I2 I3 I4 I5 I6 I7]. constructor; simpl; auto.
  - destruct HH as [newh [Hn Hp]]. eexists. split.
    + simpl. rewrite A6, Hn. rewrite app_comm_cons. reflexivity.
    + simpl. rewrite Hp. unfold hl_par at 1. simpl. rewrite (inv_par _ HI). reflexivity.
  - rewrite A3. apply clock_le_refl.
  - rewrite A5. apply fault_free_tl.
Qed.

Lemma call_bindings_gen : forall t k bs s bi caught inv s' r,
  Inv s -> HL s -> TI (length (sc s)) t ->
  call_bindings s t k bs bi caught inv = (s', r) ->
  hstep (is_final_key k) s s'.
Proof.
  intros t k bs. induction bs as [|b rest IH]; intros s bi caught inv s' r HI HH HT H.
  - cbn [call_bindings] in H. inversion H; subst. apply hstep_refl; assumption.
  - cbn [call_bindings] in H.
    destruct (existsb (hkey_eqb k) b); [|eapply IH; eassumption].
    destruct (loop_dead s) eqn:Eld.
    { inversion H; subst. apply qstep_hstep; try assumption. apply sff_qstep. symmetry; exact Eld. }
    destruct inv.
    { destruct (is_final_key k); [eapply IH; eassumption|].
      inversion H; subst. apply hstep_refl; assumption. }
    destruct (run_calls (set_actions s (tl (actions s)))
                (ha_calls (hd default_action (actions s)))) as [s1 rs] eqn:Erc.
    pose proof (handler_body_hstep s s1 rs k bi (ha_ret (hd default_action (actions s))) HI HH Erc) as Hb.
    match type of Hb with hstep _ _ ?x => set (s2 := x) in * end.
    change (set_hlog s1 _) with s2 in H.
    assert (HT2 : TI (length (sc s2)) t) by (rewrite (hs_sc _ _ _ Hb); exact HT).
    destruct (ha_fault (hd default_action (actions s))).
    + (* FNone *)
      destruct (negb (is_final_key k) && negb (ha_ret (hd default_action (actions s)))).
      * inversion H; subst. apply hstep_weaken. exact Hb.
      * eapply hstep_trans; [apply hstep_weaken; exact Hb|].
        eapply IH; [apply (hs_inv _ _ _ Hb) | apply (hs_hl _ _ _ Hb) | exact HT2 | exact H].
    + (* FPanic *)
      pose proof (recover_to_err_hstep s2 t k (hs_inv _ _ _ Hb) (hs_hl _ _ _ Hb) HT2) as Hr.
      assert (Hs3 : hstep (is_final_key k) s (recover_to_err s2 t k)).
      { eapply hstep_trans; [apply hstep_weaken; exact Hb | exact Hr]. }
      destruct (is_final_key k).
      * eapply hstep_trans; [exact Hs3|].
        eapply IH; [apply (hs_inv _ _ _ Hr) | apply (hs_hl _ _ _ Hr) | | exact H].
        rewrite (hs_sc _ _ _ Hr). exact HT2.
      * inversion H; subst. exact Hs3.
    + (* FStall *)
      inversion H; subst. apply hstep_weaken. exact Hb.
Qed.

Lemma with_panicked_TI : forall n t, TI n t -> TI n (with_panicked t).
Proof. intros n t [H1 H2 H3 H4]. constructor; assumption. Qed.

Lemma handle_gen : forall s t k s' t' ok,
  Inv s -> HL s -> TI (length (sc s)) t ->
  handle s t k = (s', t', ok) ->
  hstep (is_final_key k) s s' /\ tstep t t' /\ TI (length (sc s)) t' /\ t_target t' = t_target t.
Proof.
  intros s t k s' t' ok HI HH HT H. unfold handle in H.
  destruct (call_bindings s t k (bindings s) 0 false (t_invalid t)) as [s1 r] eqn:E.
  inversion H; subst. split; [eapply call_bindings_gen; eassumption|].
  destruct (hr_invalidated r).
  - split; [constructor; reflexivity|]. split; [apply with_panicked_TI; exact HT | reflexivity].
  - split; [apply tstep_refl|]. split; [exact HT | reflexivity].
Qed.

(* ------------------------------------------------------------------ *)
(* E. the event emitters (faults included)                             *)
(* ------------------------------------------------------------------ *)

Definition estep (fin : bool) (s : st) (t : tstate) (s' : st) (t' : tstate) : Prop :=
  hstep fin s s' /\ tstep t t' /\ TI (length (sc s)) t'.

Lemma estep_refl : forall fin s t, Inv s -> HL s -> TI (length (sc s)) t -> estep fin s t s t.
Proof. intros fin s t HI HH HT. split; [apply hstep_refl; assumption|]. split; [apply tstep_refl | exact HT]. Qed.

Lemma estep_then : forall fin s t s1 t1 s' t',
  estep fin s t s1 t1 ->
  (Inv s1 -> HL s1 -> TI (length (sc s1)) t1 -> estep fin s1 t1 s' t') ->
  estep fin s t s' t'.
Proof.
  intros fin s t s1 t1 s' t' [H1 [H2 H3]] K.
  destruct K as [K1 [K2 K3]];
    [apply (hs_inv _ _ _ H1) | apply (hs_hl _ _ _ H1) | rewrite (hs_sc _ _ _ H1); exact H3 |].
  split; [eapply hstep_trans; eassumption|]. split; [eapply tstep_trans; eassumption|].
  rewrite <- (hs_sc _ _ _ H1). exact K3.
Qed.

Lemma estep_delete : forall fin s t s1 t1 x,
  estep fin s t s1 t1 -> estep fin s t s1 (with_target t1 (delete_state (t_target t1) x)).
Proof.
  intros fin s t s1 t1 x [H1 [H2 H3]]. split; [exact H1|]. split.
  - eapply tstep_trans; [exact H2 | apply tstep_delete].
  - apply TI_delete. exact H3.
Qed.

Lemma estep_weaken : forall fin s t s' t', estep false s t s' t' -> estep fin s t s' t'.
Proof. intros fin s t s' t' [H1 H2]. split; [apply hstep_weaken; exact H1 | exact H2]. Qed.

Lemma handle_estep : forall s t k s' t' ok,
  Inv s -> HL s -> TI (length (sc s)) t ->
  handle s t k = (s', t', ok) -> estep (is_final_key k) s t s' t'.
Proof.
  intros s t k s' t' ok HI HH HT H.
  destruct (handle_gen _ _ _ _ _ _ HI HH HT H) as [H1 [H2 [H3 _]]]. split; [exact H1|]. tauto.
Qed.

Ltac estep_ret H E1 := inversion H; subst; exact E1.

Lemma emit_exits_gen : forall l s t s' t' nr,
  Inv s -> HL s -> TI (length (sc s)) t ->
  emit_exits s t l = (s', t', nr) -> estep false s t s' t'.
Proof.
  induction l as [|x r IH]; intros s t s' t' nr HI HH HT H; cbn [emit_exits] in H.
  - inversion H; subst. apply estep_refl; assumption.
  - destruct (handle s t (HExit x)) as [[s1 t1] ok] eqn:Eh.
    pose proof (handle_estep _ _ _ _ _ _ HI HH HT Eh) as E1. simpl in E1.
    destruct (hung s1); [estep_ret H E1|].
    destruct ok.
    { eapply estep_then; [exact E1|]. intros HIn HHn HTn; eapply IH; eassumption. }
    destruct (mu_auto (t_mut t1) && is_auto_state s x); [|estep_ret H E1].
    destruct (mem x (t_target t1)); [|estep_ret H E1].
    eapply estep_then; [apply estep_delete; exact E1|]. intros HIn HHn HTn; eapply IH; eassumption.
Qed.

Lemma emit_enters_gen : forall l s t s' t' nr,
  Inv s -> HL s -> TI (length (sc s)) t ->
  emit_enters s t l = (s', t', nr) -> estep false s t s' t'.
Proof.
  induction l as [|x r IH]; intros s t s' t' nr HI HH HT H; cbn [emit_enters] in H.
  - inversion H; subst. apply estep_refl; assumption.
  - destruct (handle s t (HEnter x)) as [[s1 t1] ok] eqn:Eh.
    pose proof (handle_estep _ _ _ _ _ _ HI HH HT Eh) as E1. simpl in E1.
    destruct (hung s1); [estep_ret H E1|].
    destruct ok.
    { eapply estep_then; [exact E1|]. intros HIn HHn HTn; eapply IH; eassumption. }
    destruct (mu_auto (t_mut t1) && is_auto_state s x); [|estep_ret H E1].
    destruct (mem x (t_target t1)); [|estep_ret H E1].
    eapply estep_then; [apply estep_delete; exact E1|]. intros HIn HHn HTn; eapply IH; eassumption.
Qed.

Lemma emit_selfs_gen : forall fuel s t arr i last s' t' nr,
  Inv s -> HL s -> TI (length (sc s)) t ->
  emit_selfs fuel s t arr i last = (s', t', nr) -> estep false s t s' t'.
Proof.
  induction fuel as [|f IH]; intros s t arr i last s' t' nr HI HH HT H; cbn [emit_selfs] in H.
  - inversion H; subst. apply estep_refl; assumption.
  - destruct (nth_error arr i) as [[x|]|].
    2:{ eapply IH; eassumption. }
    2:{ inversion H; subst. apply estep_refl; assumption. }
    destruct (negb (is_active s x)); [eapply IH; eassumption|].
    destruct (handle s t (HSelf x)) as [[s1 t1] ok] eqn:Eh.
    pose proof (handle_estep _ _ _ _ _ _ HI HH HT Eh) as E1. simpl in E1.
    destruct (hung s1); [estep_ret H E1|].
    destruct ok.
    { eapply estep_then; [exact E1|]. intros HIn HHn HTn; eapply IH; eassumption. }
    destruct (mu_auto (t_mut t1) && is_auto_state s x); [|estep_ret H E1].
    destruct (mem x (t_target t1)); [|estep_ret H E1].
    eapply estep_then; [apply estep_delete; exact E1|]. intros HIn HHn HTn; eapply IH; eassumption.
Qed.

Lemma emit_trans_inner_gen : forall after s t b s' t' nr,
  Inv s -> HL s -> TI (length (sc s)) t ->
  emit_trans_inner s t b after = (s', t', nr) -> estep false s t s' t'.
Proof.
  induction after as [|a r IH]; intros s t b s' t' nr HI HH HT H; cbn [emit_trans_inner] in H.
  - inversion H; subst. apply estep_refl; assumption.
  - destruct (Nat.eqb b a); [eapply IH; eassumption|].
    destruct (handle s t (HTrans b a)) as [[s1 t1] ok] eqn:Eh.
    pose proof (handle_estep _ _ _ _ _ _ HI HH HT Eh) as E1. simpl in E1.
    destruct (hung s1); [estep_ret H E1|].
    destruct ok.
    { eapply estep_then; [exact E1|]. intros HIn HHn HTn; eapply IH; eassumption. }
    destruct (mu_auto (t_mut t1) && is_auto_state s a); [|estep_ret H E1].
    eapply estep_then; [apply estep_delete; exact E1|]. intros HIn HHn HTn; eapply IH; eassumption.
Qed.

Lemma emit_trans_gen : forall before after s t s' t' nr,
  Inv s -> HL s -> TI (length (sc s)) t ->
  emit_trans s t before after = (s', t', nr) -> estep false s t s' t'.
Proof.
  induction before as [|b r IH]; intros after s t s' t' nr HI HH HT H; cbn [emit_trans] in H.
  - inversion H; subst. apply estep_refl; assumption.
  - destruct (emit_trans_inner s t b after) as [[s1 t1] nr1] eqn:Ei.
    pose proof (emit_trans_inner_gen _ _ _ _ _ _ _ HI HH HT Ei) as E1.
    destruct nr1; [|estep_ret H E1|estep_ret H E1].
    eapply estep_then; [exact E1|]. intros HIn HHn HTn; eapply IH; eassumption.
Qed.

Lemma emit_finals_gen : forall l s t s' t' fk,
  Inv s -> HL s -> TI (length (sc s)) t ->
  emit_finals s t l = (s', t', fk) -> estep true s t s' t'.
Proof.
  induction l as [|x r IH]; intros s t s' t' fk HI HH HT H; cbn [emit_finals] in H.
  - inversion H; subst. apply estep_refl; assumption.
  - destruct (handle s t (if mem x (t_enters t) then HState x else HEnd x)) as [[s1 t1] ok] eqn:Eh.
    pose proof (handle_estep _ _ _ _ _ _ HI HH HT Eh) as E1.
    replace (is_final_key (if mem x (t_enters t) then HState x else HEnd x)) with true in E1
      by (destruct (mem x (t_enters t)); reflexivity).
    destruct ok; [|estep_ret H E1].
    eapply estep_then; [exact E1|]. intros HIn HHn HTn; eapply IH; eassumption.
Qed.

Lemma negotiate_gen : forall s t s' t' nr,
  Inv s -> HL s -> TI (length (sc s)) t ->
  negotiate s t = (s', t', nr) -> estep false s t s' t'.
Proof.
  intros s t s' t' nr HI HH HT H. unfold negotiate in H.
  destruct (emit_exits s t (t_exits t)) as [[s1 t1] nr1] eqn:E1.
  pose proof (emit_exits_gen _ _ _ _ _ _ HI HH HT E1) as S1.
  destruct nr1; [|estep_ret H S1|estep_ret H S1].
  eapply estep_then; [exact S1|]. intros HI1 HH1 HT1.
  destruct (emit_enters s1 t1 (t_enters t1)) as [[s2 t2] nr2] eqn:E2.
  pose proof (emit_enters_gen _ _ _ _ _ _ HI1 HH1 HT1 E2) as S2.
  destruct nr2; [|estep_ret H S2|estep_ret H S2].
  eapply estep_then; [exact S2|]. intros HI2 HH2 HT2.
  assert (S3 : forall s3 t3 nr3,
    match mu_type (t_mut t2) with
    | MRemove => (s2, t2, NOk)
    | _ => emit_selfs (S (length (t_target t2))) s2 t2 (map Some (t_target t2)) 0 true
    end = (s3, t3, nr3) -> estep false s2 t2 s3 t3).
  { intros s3 t3 nr3 E3. destruct (mu_type (t_mut t2)).
    - eapply emit_selfs_gen; eassumption.
    - inversion E3; subst. apply estep_refl; assumption.
    - eapply emit_selfs_gen; eassumption. }
  destruct (match mu_type (t_mut t2) with
            | MRemove => (s2, t2, NOk)
            | _ => emit_selfs (S (length (t_target t2))) s2 t2 (map Some (t_target t2)) 0 true
            end) as [[s3 t3] nr3] eqn:E3.
  specialize (S3 _ _ _ eq_refl).
  destruct nr3; [|estep_ret H S3|estep_ret H S3].
  eapply estep_then; [exact S3|]. intros HI3 HH3 HT3.
  eapply emit_trans_gen; eassumption.
Qed.

(* ------------------------------------------------------------------ *)
(* F. fault-free scripts: handlers leave the machine alone             *)
(* ------------------------------------------------------------------ *)

Lemma call_bindings_ff : forall t k bs s bi caught s' r,
  Inv s -> HL s -> TI (length (sc s)) t ->
  fault_free (actions s) -> loop_dead s = false ->
  call_bindings s t k bs bi caught false = (s', r) ->
  clock s' = clock s /\ active s' = active s /\ hr_invalidated r = false /\
  (is_final_key k = true -> hr_ok r = negb caught).
Proof.
  intros t k bs. induction bs as [|b rest IH]; intros s bi caught s' r HI HH HT Hff Hld H.
  - cbn [call_bindings] in H. inversion H; subst. simpl. auto.
  - cbn [call_bindings] in H.
    destruct (existsb (hkey_eqb k) b); [|eapply IH; eassumption].
    rewrite Hld in H.
    destruct (run_calls (set_actions s (tl (actions s)))
                (ha_calls (hd default_action (actions s)))) as [s1 rs] eqn:Erc.
    pose proof (handler_body_hstep s s1 rs k bi (ha_ret (hd default_action (actions s))) HI HH Erc) as Hb.
    match type of Hb with hstep _ _ ?x => set (s2 := x) in * end.
    change (set_hlog s1 _) with s2 in H.
    rewrite (fault_free_hd _ Hff) in H.
    destruct (hs_same _ _ _ Hb eq_refl) as [Hc Ha].
    destruct (negb (is_final_key k) && negb (ha_ret (hd default_action (actions s)))) eqn:En.
    + inversion H; subst. simpl. repeat split; auto.
      intros Hf. rewrite Hf in En. discriminate.
    + assert (HT2 : TI (length (sc s2)) t) by (rewrite (hs_sc _ _ _ Hb); exact HT).
      assert (Hld2 : loop_dead s2 = false) by (rewrite (hs_ld _ _ _ Hb); exact Hld).
      destruct (IH s2 _ _ _ _ (hs_inv _ _ _ Hb) (hs_hl _ _ _ Hb) HT2 (hs_ff _ _ _ Hb Hff) Hld2 H)
        as [K1 [K2 [K3 K4]]].
      repeat split; try congruence. exact K4.
Qed.

(* the context in which fault-free handlers run *)
Definition FFC (s : st) (t : tstate) : Prop :=
  Inv s /\ HL s /\ TI (length (sc s)) t /\ fault_free (actions s) /\ loop_dead s = false
  /\ t_invalid t = false.

Lemma FFC_intro : forall s t, Inv s -> HL s -> TI (length (sc s)) t ->
  fault_free (actions s) -> loop_dead s = false -> t_invalid t = false -> FFC s t.
Proof. intros s t HI HH HT Hff Hld Hinv. unfold FFC. tauto. Qed.

Lemma handle_ffc : forall s t k s' t' ok,
  FFC s t -> handle s t k = (s', t', ok) ->
  FFC s' t' /\ t' = t /\ clock s' = clock s /\ active s' = active s /\
  (is_final_key k = true -> ok = true).
Proof.
  intros s t k s' t' ok [HI [HH [HT [Hff [Hld Hinv]]]]] H.
  destruct (handle_gen _ _ _ _ _ _ HI HH HT H) as [H1 _].
  unfold handle in H. rewrite Hinv in H.
  destruct (call_bindings s t k (bindings s) 0 false false) as [s1 r] eqn:E.
  destruct (call_bindings_ff _ _ _ _ _ _ _ _ HI HH HT Hff Hld E) as [K1 [K2 [K3 K4]]].
  rewrite K3 in H. inversion H; subst.
  split; [|auto].
  apply FFC_intro; try assumption.
  - apply (hs_inv _ _ _ H1).
  - apply (hs_hl _ _ _ H1).
  - rewrite (hs_sc _ _ _ H1). exact HT.
  - apply (hs_ff _ _ _ H1 Hff).
  - rewrite (hs_ld _ _ _ H1). exact Hld.
Qed.

Lemma FFC_delete : forall s t x, FFC s t -> FFC s (with_target t (delete_state (t_target t) x)).
Proof.
  intros s t x [HI [HH [HT [Hff [Hld Hinv]]]]]. apply FFC_intro; try assumption.
  apply TI_delete. exact HT.
Qed.

Ltac ffc_ret H F1 := inversion H; subst; split; [exact F1 | reflexivity].

Lemma emit_exits_ff : forall l s t s' t' nr,
  FFC s t -> emit_exits s t l = (s', t', nr) -> FFC s' t' /\ t_accepted t' = t_accepted t.
Proof.
  induction l as [|x r IH]; intros s t s' t' nr HF H; cbn [emit_exits] in H.
  - ffc_ret H HF.
  - destruct (handle s t (HExit x)) as [[s1 t1] ok] eqn:Eh.
    destruct (handle_ffc _ _ _ _ _ _ HF Eh) as [F1 [Et _]]. subst t1.
    destruct (hung s1); [ffc_ret H F1|].
    destruct ok; [eapply IH; eassumption|].
    destruct (mu_auto (t_mut t) && is_auto_state s x); [|ffc_ret H F1].
    destruct (mem x (t_target t)); [|ffc_ret H F1].
    eapply (IH _ _ _ _ _ (FFC_delete _ _ x F1)) in H. exact H.
Qed.

Lemma emit_enters_ff : forall l s t s' t' nr,
  FFC s t -> emit_enters s t l = (s', t', nr) -> FFC s' t' /\ t_accepted t' = t_accepted t.
Proof.
  induction l as [|x r IH]; intros s t s' t' nr HF H; cbn [emit_enters] in H.
  - ffc_ret H HF.
  - destruct (handle s t (HEnter x)) as [[s1 t1] ok] eqn:Eh.
    destruct (handle_ffc _ _ _ _ _ _ HF Eh) as [F1 [Et _]]. subst t1.
    destruct (hung s1); [ffc_ret H F1|].
    destruct ok; [eapply IH; eassumption|].
    destruct (mu_auto (t_mut t) && is_auto_state s x); [|ffc_ret H F1].
    destruct (mem x (t_target t)); [|ffc_ret H F1].
    eapply (IH _ _ _ _ _ (FFC_delete _ _ x F1)) in H. exact H.
Qed.

Lemma emit_selfs_ff : forall fuel s t arr i last s' t' nr,
  FFC s t -> emit_selfs fuel s t arr i last = (s', t', nr) ->
  FFC s' t' /\ t_accepted t' = t_accepted t.
Proof.
  induction fuel as [|f IH]; intros s t arr i last s' t' nr HF H; cbn [emit_selfs] in H.
  - ffc_ret H HF.
  - destruct (nth_error arr i) as [[x|]|].
    2:{ eapply IH; eassumption. }
    2:{ ffc_ret H HF. }
    destruct (negb (is_active s x)); [eapply IH; eassumption|].
    destruct (handle s t (HSelf x)) as [[s1 t1] ok] eqn:Eh.
    destruct (handle_ffc _ _ _ _ _ _ HF Eh) as [F1 [Et _]]. subst t1.
    destruct (hung s1); [ffc_ret H F1|].
    destruct ok; [eapply IH; eassumption|].
    destruct (mu_auto (t_mut t) && is_auto_state s x); [|ffc_ret H F1].
    destruct (mem x (t_target t)); [|ffc_ret H F1].
    eapply (IH _ _ _ _ _ _ _ _ (FFC_delete _ _ x F1)) in H. exact H.
Qed.

Lemma emit_trans_inner_ff : forall after s t b s' t' nr,
  FFC s t -> emit_trans_inner s t b after = (s', t', nr) ->
  FFC s' t' /\ t_accepted t' = t_accepted t.
Proof.
  induction after as [|a r IH]; intros s t b s' t' nr HF H; cbn [emit_trans_inner] in H.
  - ffc_ret H HF.
  - destruct (Nat.eqb b a); [eapply IH; eassumption|].
    destruct (handle s t (HTrans b a)) as [[s1 t1] ok] eqn:Eh.
    destruct (handle_ffc _ _ _ _ _ _ HF Eh) as [F1 [Et _]]. subst t1.
    destruct (hung s1); [ffc_ret H F1|].
    destruct ok; [eapply IH; eassumption|].
    destruct (mu_auto (t_mut t) && is_auto_state s a); [|ffc_ret H F1].
    eapply (IH _ _ _ _ _ _ (FFC_delete _ _ a F1)) in H. exact H.
Qed.

Lemma emit_trans_ff : forall before after s t s' t' nr,
  FFC s t -> emit_trans s t before after = (s', t', nr) ->
  FFC s' t' /\ t_accepted t' = t_accepted t.
Proof.
  induction before as [|b r IH]; intros after s t s' t' nr HF H; cbn [emit_trans] in H.
  - ffc_ret H HF.
  - destruct (emit_trans_inner s t b after) as [[s1 t1] nr1] eqn:Ei.
    destruct (emit_trans_inner_ff _ _ _ _ _ _ _ HF Ei) as [F1 A1].
    destruct nr1; [|inversion H; subst; split; assumption|inversion H; subst; split; assumption].
    destruct (IH _ _ _ _ _ _ F1 H) as [F2 A2]. split; [exact F2 | congruence].
Qed.

Lemma emit_finals_ff : forall l s t s' t' fk,
  FFC s t -> emit_finals s t l = (s', t', fk) ->
  FFC s' t' /\ t' = t /\ clock s' = clock s /\ active s' = active s /\ fk = None.
Proof.
  induction l as [|x r IH]; intros s t s' t' fk HF H; cbn [emit_finals] in H.
  - inversion H; subst. auto.
  - destruct (handle s t (if mem x (t_enters t) then HState x else HEnd x)) as [[s1 t1] ok] eqn:Eh.
    destruct (handle_ffc _ _ _ _ _ _ HF Eh) as [F1 [Et [Hc [Ha Hok]]]]. subst t1.
    rewrite Hok in H by (destruct (mem x (t_enters t)); reflexivity).
    destruct (IH _ _ _ _ _ F1 H) as [F2 [Et [Hc2 [Ha2 Hfk]]]].
    split; [exact F2|]. split; [exact Et|]. split; [congruence|]. split; [congruence|exact Hfk].
Qed.

Lemma negotiate_ff : forall s t s' t' nr,
  FFC s t -> negotiate s t = (s', t', nr) -> FFC s' t' /\ t_accepted t' = t_accepted t.
Proof.
  intros s t s' t' nr HF H. unfold negotiate in H.
  destruct (emit_exits s t (t_exits t)) as [[s1 t1] nr1] eqn:E1.
  destruct (emit_exits_ff _ _ _ _ _ _ HF E1) as [F1 A1].
  destruct nr1; [|inversion H; subst; split; assumption|inversion H; subst; split; assumption].
  destruct (emit_enters s1 t1 (t_enters t1)) as [[s2 t2] nr2] eqn:E2.
  destruct (emit_enters_ff _ _ _ _ _ _ F1 E2) as [F2 A2].
  destruct nr2; [|inversion H; subst; split; congruence|inversion H; subst; split; congruence].
  assert (S3 : forall s3 t3 nr3,
    match mu_type (t_mut t2) with
    | MRemove => (s2, t2, NOk)
    | _ => emit_selfs (S (length (t_target t2))) s2 t2 (map Some (t_target t2)) 0 true
    end = (s3, t3, nr3) -> FFC s3 t3 /\ t_accepted t3 = t_accepted t2).
  { intros s3 t3 nr3 E3. destruct (mu_type (t_mut t2)).
    - eapply emit_selfs_ff; eassumption.
    - inversion E3; subst. split; [exact F2 | reflexivity].
    - eapply emit_selfs_ff; eassumption. }
  destruct (match mu_type (t_mut t2) with
            | MRemove => (s2, t2, NOk)
            | _ => emit_selfs (S (length (t_target t2))) s2 t2 (map Some (t_target t2)) 0 true
            end) as [[s3 t3] nr3] eqn:E3.
  destruct (S3 _ _ _ eq_refl) as [F3 A3].
  destruct nr3; [|inversion H; subst; split; congruence|inversion H; subst; split; congruence].
  destruct (emit_trans_ff _ _ _ _ _ _ _ F3 H) as [F4 A4]. split; [exact F4 | congruence].
Qed.

(* ------------------------------------------------------------------ *)
(* G. one transition                                                   *)
(* ------------------------------------------------------------------ *)

(* run_tx cut into named pieces (definitionally equal, see run_tx_eq) *)
Definition tx_t2 (mu : mutation) (s2 : st) (t1 : tstate) : tstate :=
  if mu_auto mu then
    let called := mu_called mu in
    let rejected := diff called (t_target t1) in
    let clean := diff called rejected in
    let tg := target_states (rctx_of s2 t1) (states_to_set MAdd clean (active s2)) in
    with_exit_enter (sc s2) (topo s2) (active s2) (with_target t1 tg)
  else t1.

Definition tx_apply (hfrom : nat) (mu : mutation) (s2 : st) (t2 : tstate) : st * result :=
  let cl := set_active_clock (sc s2) (clock s2) (active s2) (mu_called mu) (t_target t2) in
  let s3 := add_ev (set_mach s2 cl (t_target t2)) EvFinals in
  let '(s4, t3, fcancel) :=
    if has_handlers s3 then
      match emit_finals s3 t2 (t_exits t2 ++ t_enters t2) with
      | (sx, tx, Some k) => (if hung sx then sx else recover_final_phase sx tx k, tx, true)
      | (sx, tx, None) => (sx, tx, false)
      end
    else (s3, t2, false) in
  if hung s4 then (s4, Canceled) else
  let changed := negb (nclock_eqb (clock s4) (t_clock_before t3)) in
  let '(s5, t4, fcancel2) :=
    if has_handlers s4 && negb fcancel then
      let '(sx, tx, ok) := handle s4 t3 HAnyState in (sx, tx, negb ok)
    else (s4, t3, fcancel) in
  if hung s5 then (s5, Canceled) else
  let s6 := if negb fcancel2 && changed && negb (mu_auto mu) && negb (is_health s5 mu)
            then prepend_auto s5 else s5 in
  let res :=
    if fcancel2 then Canceled else
    match mu_type mu with
    | MRemove => if mach_not s6 (mu_called mu) then Executed else Canceled
    | _ => if mu_auto mu then
             (if length (t_before t4) <? length (t_target t4) then Executed else Canceled)
           else (if mach_is s6 (t_target t4) then Executed else Canceled)
    end in
  let rec := {| tx_type := mu_type mu; tx_called := mu_called mu; tx_auto := mu_auto mu;
                tx_check := false; tx_qtick := mu_qtick mu;
                tx_before := t_clock_before t4; tx_after := cl;
                tx_active_before := t_before t4; tx_target := t_target t4;
                tx_accepted := t_accepted t4 && negb fcancel2; tx_mach_after := clock s6;
                tx_hfrom := hfrom; tx_hto := length (hlog s6) |} in
  (add_ev (add_tx s6 rec) EvEnd, res).

Definition tx_rest (hh : bool) (hfrom : nat) (mu : mutation) (s1 : st) (t1 : tstate)
  (canceled1 : bool) : st * result :=
  if hung s1 then (s1, Canceled) else
  let canceled2 :=
    if hh then canceled1 || (mu_auto mu && Nat.eqb (length (t_target t1)) 0)
    else canceled1 in
  let '(s2, t1, canceled3) :=
    if hh && negb canceled2 then
      let '(sx, tx, ok) := handle s1 t1 HAnyEnter in (sx, tx, negb ok)
    else (s1, t1, canceled2) in
  if hung s2 then (s2, Canceled) else
  if mu_check mu then
    let acc := t_accepted t1 && negb canceled3 in
    let rec := {| tx_type := mu_type mu; tx_called := mu_called mu; tx_auto := mu_auto mu;
                  tx_check := true; tx_qtick := mu_qtick mu;
                  tx_before := t_clock_before t1; tx_after := t_clock_before t1;
                  tx_active_before := t_before t1; tx_target := t_target t1;
                  tx_accepted := acc; tx_mach_after := clock s2;
                  tx_hfrom := hfrom; tx_hto := length (hlog s2) |} in
    (add_ev (add_tx s2 rec) EvEnd, if canceled3 then Canceled else Executed)
  else
    let t2 := tx_t2 mu s2 t1 in
    if negb canceled3 then tx_apply hfrom mu s2 t2
    else
      let rec := {| tx_type := mu_type mu; tx_called := mu_called mu; tx_auto := mu_auto mu;
                    tx_check := false; tx_qtick := mu_qtick mu;
                    tx_before := t_clock_before t2; tx_after := clock s2;
                    tx_active_before := t_before t2; tx_target := t_target t2;
                    tx_accepted := false; tx_mach_after := clock s2;
                    tx_hfrom := hfrom; tx_hto := length (hlog s2) |} in
      (add_ev (add_tx s2 rec) EvEnd, Canceled).

Lemma run_tx_eq : forall s mu,
  run_tx s mu =
  let hfrom := length (hlog s) in
  let t0 := new_transition s mu in
  let sa := add_ev (add_ev s EvInit) EvStart in
  let '(s1, t1, nr) :=
    if has_handlers sa && negb (negb (t_accepted t0)) then negotiate sa t0 else (sa, t0, NOk) in
  match nr with
  | NCrash => (set_crashed s1, Canceled)
  | _ => tx_rest (has_handlers sa) hfrom mu s1 t1
           (negb (t_accepted t0) || match nr with NCancel => true | _ => false end)
  end.
Proof. intros s mu. reflexivity. Qed.

(* what one transition does to a state: at most one record is appended,
   stamped with the clock and the active set of the start *)
Record tx_sum (cb : list N) (ab : list nat) (s s' : st) : Prop := {
  xs_inv : Inv s';
  xs_hl : HL s';
  xs_sc : sc s' = sc s;
  xs_exc : exc s' = exc s;
  xs_ld : loop_dead s' = loop_dead s;
  xs_bind : bindings s' = bindings s;
  xs_le : clock_le (clock s) (clock s') = true;
  xs_ff : fault_free (actions s) -> fault_free (actions s');
  xs_txs : txs s' = txs s \/
           exists rec, txs s' = rec :: txs s /\ tx_before rec = cb /\ tx_active_before rec = ab /\
                       clock_le cb (tx_after rec) = true /\
                       clock_le (tx_after rec) (clock s') = true
}.

Lemma tx_sum_left : forall cb ab fin s s', hstep fin s s' -> tx_sum cb ab s s'.
Proof.
  intros cb ab fin s s' [A1 A2 A3 A4 A5 A6 A7 A8 A9 A10]. constructor; auto.
Qed.

Lemma tx_sum_pre : forall cb ab fin s s1 s',
  hstep fin s s1 -> tx_sum cb ab s1 s' -> tx_sum cb ab s s'.
Proof.
  intros cb ab fin s s1 s' [A1 A2 A3 A4 A5 A6 A7 A8 A9 A10] [B1 B2 B3 B4 B5 B6 B7 B8 B9].
  constructor; try congruence; auto.
  - eapply clock_le_trans; eassumption.
  - rewrite A5 in B9. exact B9.
Qed.

Lemma Inv_frame : forall s s',
  sc s' = sc s -> exc s' = exc s -> clock s' = clock s -> active s' = active s ->
  queue s' = queue s -> actions s' = actions s -> Inv s -> Inv s'.
Proof.
  intros s s' E1 E2 E3 E4 E5 E6 [I1 I2 I3 I4 I5 I6 I7].
  constructor; rewrite ?E1, ?E2, ?E3, ?E4, ?E5, ?E6; assumption.
Qed.

Lemma tx_sum_add : forall cb ab fin s s6 rec e,
  hstep fin s s6 -> tx_before rec = cb -> tx_active_before rec = ab ->
  clock_le cb (tx_after rec) = true -> clock_le (tx_after rec) (clock s6) = true ->
  tx_sum cb ab s (add_ev (add_tx s6 rec) e).
Proof.
  intros cb ab fin s s6 rec e [A1 A2 A3 A4 A5 A6 A7 A8 A9 A10] R1 R2 R3 R4.
  constructor; simpl; auto.
  - eapply Inv_frame; [| | | | | |exact A1]; reflexivity.
  - right. exists rec. rewrite A5. auto.
Qed.

Lemma auto_candidates_inr : forall sc act, inr (length sc) (auto_candidates sc act).
Proof.
  intros sc act x Hx. unfold auto_candidates in Hx. apply filter_In in Hx.
  destruct Hx as [Hx _]. unfold all_states in Hx. apply in_seq in Hx. lia.
Qed.

Lemma prepend_auto_qstep : forall s, qstep s (prepend_auto s).
Proof.
  intros s. unfold prepend_auto.
  pose proof (auto_candidates_inr (sc s) (active s)) as Hc.
  destruct (auto_candidates (sc s) (active s)) as [|c r]; [apply qstep_refl|].
  apply prepend_mut_qstep. exact Hc.
Qed.

Lemma set_crashed_qstep : forall s, qstep s (set_crashed s).
Proof. intros s. split; [constructor; reflexivity | simpl; tauto]. Qed.

Lemma set_mach_hstep : forall s2 called tg e,
  Inv s2 -> HL s2 -> NoDup tg -> inr (length (sc s2)) tg ->
  hstep true s2 (add_ev (set_mach s2 (set_active_clock (sc s2) (clock s2) (active s2) called tg) tg) e).
Proof.
  intros s2 called tg e HI HH Hnd Hin. destruct HI as [I1 I2 I3 I4 I5 I6 I7].
  constructor; simpl; auto.
  - constructor; simpl; auto.
    + rewrite set_active_clock_length. exact I3.
    + apply set_active_parity_lemma; auto. rewrite I3. exact Hin.
  - apply set_active_monotone_lemma.
  - discriminate.
Qed.

Lemma with_exit_enter_TI : forall n sc topo act t,
  NoDup (t_target t) -> inr n (t_target t) -> inr n act -> TI n (with_exit_enter sc topo act t).
Proof.
  intros n sc topo act t Hnd Htg Hact. constructor; simpl; auto.
  - apply inr_filter. exact Htg.
  - apply inr_sort_states. unfold diff. apply inr_filter. exact Hact.
Qed.

Lemma new_transition_facts : forall s mu, Inv s -> mu_inr (length (sc s)) mu ->
  TI (length (sc s)) (new_transition s mu) /\
  t_mut (new_transition s mu) = mu /\ t_before (new_transition s mu) = active s /\
  t_clock_before (new_transition s mu) = clock s /\ t_invalid (new_transition s mu) = false.
Proof.
  intros s mu HI Hmu. pose proof (Inv_active_inr s HI) as Hact. unfold new_transition.
  set (c := {| rc_schema := sc s; rc_before := active s; rc_mtype := mu_type mu;
               rc_called := mu_called mu; rc_topology := topo s |}).
  set (tg := target_states c (states_to_set (mu_type mu) (mu_called mu) (active s))).
  assert (Hnd : NoDup tg) by apply target_states_NoDup_lemma.
  assert (Hin : inr (length (sc s)) tg).
  { apply (target_states_inr_lemma c); [apply (inv_refs _ HI)|].
    apply states_to_set_inr; assumption. }
  destruct (setup_accepted s mu tg).
  - split; [apply with_exit_enter_TI; assumption|]. simpl. auto.
  - split; [constructor; simpl; auto using inr_nil|]. simpl. auto.
Qed.

Lemma tx_t2_facts : forall mu s2 t1, Inv s2 -> TI (length (sc s2)) t1 -> mu_inr (length (sc s2)) mu ->
  TI (length (sc s2)) (tx_t2 mu s2 t1) /\
  t_clock_before (tx_t2 mu s2 t1) = t_clock_before t1 /\
  t_before (tx_t2 mu s2 t1) = t_before t1 /\
  t_accepted (tx_t2 mu s2 t1) = t_accepted t1 /\
  t_invalid (tx_t2 mu s2 t1) = t_invalid t1.
Proof.
  intros mu s2 t1 HI HT Hmu. pose proof (Inv_active_inr s2 HI) as Hact. unfold tx_t2.
  destruct (mu_auto mu); [|auto].
  split; [|simpl; auto].
  apply with_exit_enter_TI; simpl; [apply target_states_NoDup_lemma | | exact Hact].
  apply (target_states_inr_lemma (rctx_of s2 t1)); [apply (inv_refs _ HI)|].
  simpl. apply inr_app; [|exact Hact]. unfold diff. apply inr_filter. exact Hmu.
Qed.

Ltac sum_ret H S := inversion H; subst; eapply tx_sum_left; exact S.

Lemma tx_apply_gen : forall hfrom mu s2 t2 s' r cb ab,
  Inv s2 -> HL s2 -> TI (length (sc s2)) t2 ->
  t_clock_before t2 = cb -> t_before t2 = ab -> clock_le cb (clock s2) = true ->
  tx_apply hfrom mu s2 t2 = (s', r) -> tx_sum cb ab s2 s'.
Proof.
  intros hfrom mu s2 t2 s' r cb ab HI HH HT Hcb Hab Hle H.
  unfold tx_apply in H. cbv zeta in H.
  set (cl := set_active_clock (sc s2) (clock s2) (active s2) (mu_called mu) (t_target t2)) in *.
  set (s3 := add_ev (set_mach s2 cl (t_target t2)) EvFinals) in *.
  assert (H23 : hstep true s2 s3).
  { apply set_mach_hstep; [exact HI | exact HH | apply (ti_nd _ _ HT) | apply (ti_tg _ _ HT)]. }
  assert (HT3 : TI (length (sc s3)) t2) by exact HT.
  match type of H with (match ?X with _ => _ end) = _ =>
    destruct X as [[s4 t3] fcancel] eqn:E4 end.
  assert (A4 : estep true s3 t2 s4 t3).
  { destruct (has_handlers s3).
    - destruct (emit_finals s3 t2 (t_exits t2 ++ t_enters t2)) as [[sx tx] fk] eqn:Ef.
      pose proof (emit_finals_gen _ _ _ _ _ _ (hs_inv _ _ _ H23) (hs_hl _ _ _ H23) HT3 Ef) as Sf.
      destruct fk as [k|]; [|inversion E4; subst; exact Sf].
      destruct (hung sx); inversion E4; subst; [exact Sf|].
      eapply estep_then; [exact Sf|]. intros HIx HHx HTx.
      split; [apply recover_final_phase_hstep; assumption|].
      split; [apply tstep_refl | exact HTx].
    - inversion E4; subst. apply estep_refl; [apply (hs_inv _ _ _ H23) | apply (hs_hl _ _ _ H23) | exact HT3]. }
  destruct A4 as [H34 [T23 HT4]].
  assert (H24 : hstep true s2 s4) by (eapply hstep_trans; eassumption).
  destruct (hung s4); [sum_ret H H24|].
  match type of H with (match ?X with _ => _ end) = _ =>
    destruct X as [[s5 t4] fcancel2] eqn:E5 end.
  assert (A5 : estep true s4 t3 s5 t4).
  { assert (HT4' : TI (length (sc s4)) t3) by (rewrite (hs_sc _ _ _ H34); exact HT4).
    destruct (has_handlers s4 && negb fcancel).
    - destruct (handle s4 t3 HAnyState) as [[sx tx] ok] eqn:Eh. inversion E5; subst.
      apply (handle_estep _ _ _ _ _ _ (hs_inv _ _ _ H34) (hs_hl _ _ _ H34) HT4' Eh).
    - inversion E5; subst. apply estep_refl; [apply (hs_inv _ _ _ H34) | apply (hs_hl _ _ _ H34) | exact HT4']. }
  destruct A5 as [H45 [T34 HT5]].
  assert (H25 : hstep true s2 s5) by (eapply hstep_trans; eassumption).
  destruct (hung s5); [sum_ret H H25|].
  match type of H with context [add_tx ?X _] => set (s6 := X) in * end.
  assert (H56 : hstep true s5 s6).
  { apply qstep_hstep; [apply (hs_inv _ _ _ H45) | apply (hs_hl _ _ _ H45) |].
    subst s6. match goal with |- qstep _ (if ?c then _ else _) => destruct c end;
      [apply prepend_auto_qstep | apply qstep_refl]. }
  assert (H26 : hstep true s2 s6) by (eapply hstep_trans; eassumption).
  inversion H; subst s' r.
  eapply tx_sum_add; [exact H26 | | | |]; simpl.
  - rewrite (ts_cb _ _ T34), (ts_cb _ _ T23). exact Hcb.
  - rewrite (ts_before _ _ T34), (ts_before _ _ T23). exact Hab.
  - eapply clock_le_trans; [exact Hle | apply set_active_monotone_lemma].
  - change cl with (clock s3).
    eapply clock_le_trans; [apply (hs_le _ _ _ H34)|].
    eapply clock_le_trans; [apply (hs_le _ _ _ H45) | apply (hs_le _ _ _ H56)].
Qed.

Lemma tx_rest_gen : forall hh hfrom mu s1 t1 c1 s' r,
  Inv s1 -> HL s1 -> TI (length (sc s1)) t1 -> mu_inr (length (sc s1)) mu ->
  clock s1 = t_clock_before t1 ->
  tx_rest hh hfrom mu s1 t1 c1 = (s', r) ->
  tx_sum (t_clock_before t1) (t_before t1) s1 s'.
Proof.
  intros hh hfrom mu s1 t1 c1 s' r HI HH HT Hmu Hc H.
  unfold tx_rest in H. cbv zeta in H.
  pose proof (hstep_refl true s1 HI HH) as H11.
  destruct (hung s1). { sum_ret H H11. }
  match type of H with (match ?X with _ => _ end) = _ =>
    destruct X as [[s2 t1'] c3] eqn:E2 end.
  assert (A2 : estep false s1 t1 s2 t1').
  { match type of E2 with (if ?c then _ else _) = _ => destruct c end.
    - destruct (handle s1 t1 HAnyEnter) as [[sx tx] ok] eqn:Eh. inversion E2; subst.
      apply (handle_estep _ _ _ _ _ _ HI HH HT Eh).
    - inversion E2; subst. apply estep_refl; assumption. }
  destruct A2 as [H12 [T12 HT2]].
  destruct (hs_same _ _ _ H12 eq_refl) as [Hc2 Ha2].
  destruct (hung s2); [sum_ret H H12|].
  destruct (mu_check mu).
  - inversion H; subst s' r. eapply tx_sum_add; [exact H12 | | | |]; simpl.
    + apply (ts_cb _ _ T12).
    + apply (ts_before _ _ T12).
    + rewrite (ts_cb _ _ T12). apply clock_le_refl.
    + rewrite (ts_cb _ _ T12), <- Hc, <- Hc2. apply clock_le_refl.
  - assert (HT2' : TI (length (sc s2)) t1') by (rewrite (hs_sc _ _ _ H12); exact HT2).
    assert (Hmu2 : mu_inr (length (sc s2)) mu) by (rewrite (hs_sc _ _ _ H12); exact Hmu).
    destruct (tx_t2_facts mu s2 t1' (hs_inv _ _ _ H12) HT2' Hmu2) as [HTt [Q1 [Q2 _]]].
    set (t2 := tx_t2 mu s2 t1') in *.
    destruct (negb c3).
    + eapply tx_sum_pre; [exact H12|].
      eapply tx_apply_gen; [apply (hs_inv _ _ _ H12) | apply (hs_hl _ _ _ H12) | exact HTt | | | | exact H].
      * rewrite Q1. apply (ts_cb _ _ T12).
      * rewrite Q2. apply (ts_before _ _ T12).
      * rewrite Hc2, Hc. apply clock_le_refl.
    + inversion H; subst s' r. eapply tx_sum_add; [exact H12 | | | |]; simpl.
      * rewrite Q1. apply (ts_cb _ _ T12).
      * rewrite Q2. apply (ts_before _ _ T12).
      * rewrite Hc2, Hc. apply clock_le_refl.
      * apply clock_le_refl.
Qed.

(* one transition, any script *)
Lemma run_tx_gen : forall s mu s' r,
  Inv s -> HL s -> mu_inr (length (sc s)) mu ->
  run_tx s mu = (s', r) -> tx_sum (clock s) (active s) s s'.
Proof.
  intros s mu s' r HI HH Hmu H. rewrite run_tx_eq in H. cbv zeta in H.
  destruct (new_transition_facts s mu HI Hmu) as [HT0 [Hm0 [Hb0 [Hc0 Hi0]]]].
  set (t0 := new_transition s mu) in *.
  set (sa := add_ev (add_ev s EvInit) EvStart) in *.
  assert (Hsa : hstep false s sa).
  { apply qstep_hstep; try assumption. eapply qstep_trans; apply add_ev_qstep. }
  match type of H with (match ?X with _ => _ end) = _ =>
    destruct X as [[s1 t1] nr] eqn:E1 end.
  assert (A1 : estep false sa t0 s1 t1).
  { destruct (has_handlers sa && negb (negb (t_accepted t0))).
    - eapply negotiate_gen; [apply (hs_inv _ _ _ Hsa) | apply (hs_hl _ _ _ Hsa) | exact HT0 | exact E1].
    - injection E1 as Es Et En. subst s1 t1 nr.
      apply estep_refl; [apply (hs_inv _ _ _ Hsa) | apply (hs_hl _ _ _ Hsa) | exact HT0]. }
  destruct A1 as [Ha1 [T01 HT1]].
  assert (H1 : hstep false s s1) by (eapply hstep_trans; eassumption).
  destruct (hs_same _ _ _ H1 eq_refl) as [Hc1 Hac1].
  assert (R : forall c1, tx_rest (has_handlers sa) (length (hlog s)) mu s1 t1 c1 = (s', r) ->
                         tx_sum (clock s) (active s) s s').
  { intros c1 Hr. eapply tx_sum_pre; [exact H1|].
    rewrite <- Hc0, <- Hb0, <- (ts_cb _ _ T01), <- (ts_before _ _ T01).
    eapply tx_rest_gen; [apply (hs_inv _ _ _ H1) | apply (hs_hl _ _ _ H1) | | | | exact Hr].
    - rewrite (hs_sc _ _ _ H1). exact HT1.
    - rewrite (hs_sc _ _ _ H1). exact Hmu.
    - rewrite (ts_cb _ _ T01), Hc0. exact Hc1. }
  destruct nr; [eapply R; exact H | eapply R; exact H |].
  inversion H; subst s' r. eapply tx_sum_left. eapply hstep_trans; [exact H1|].
  apply qstep_hstep; [apply (hs_inv _ _ _ H1) | apply (hs_hl _ _ _ H1) | apply set_crashed_qstep].
Qed.

(* ---- fault-free: the appended record passes the per-transition clause ---- *)

Lemma applied_code : forall sc rec,
  tx_check rec = false -> tx_accepted rec = true ->
  parity_ok (tx_before rec) (tx_active_before rec) = true ->
  NoDup (tx_active_before rec) -> NoDup (tx_target rec) ->
  inr (length (tx_before rec)) (tx_target rec) ->
  tx_after rec = set_active_clock sc (tx_before rec) (tx_active_before rec) (tx_called rec) (tx_target rec) ->
  tx_mach_after rec = tx_after rec ->
  tx_clock_code sc rec = [].
Proof.
  intros sc rec Hch Hacc Hpar Hnda Hndt Hin Haft Hmach. unfold tx_clock_code.
  rewrite Hpar, Hch, Hacc. cbn [negb orb].
  rewrite Hmach, Haft, clock_eqb_refl.
  rewrite set_active_monotone_lemma.
  rewrite (set_active_steps_lemma sc rec (tx_before rec) (tx_active_before rec) (tx_called rec)
             (tx_target rec) Hndt Hnda eq_refl eq_refl eq_refl).
  rewrite (set_active_parity_lemma sc (tx_before rec) (tx_active_before rec) (tx_called rec)
             (tx_target rec) Hndt Hin Hpar Hnda).
  reflexivity.
Qed.

Lemma still_code : forall sc rec,
  tx_check rec || negb (tx_accepted rec) = true ->
  parity_ok (tx_before rec) (tx_active_before rec) = true ->
  tx_after rec = tx_before rec ->
  tx_clock_code sc rec = [].
Proof.
  intros sc rec Hc Hpar Haft. unfold tx_clock_code, tx_moves_nothing.
  rewrite Hpar, Hc, Haft, clock_le_refl, clock_eqb_refl. reflexivity.
Qed.

Definition ff_txs (s s' : st) : Prop :=
  txs s' = txs s \/ exists rec, txs s' = rec :: txs s /\ tx_clock_code (sc s) rec = [].

Lemma tx_apply_ff : forall hfrom mu s2 t2 s' r,
  FFC s2 t2 -> t_accepted t2 = true ->
  t_clock_before t2 = clock s2 -> t_before t2 = active s2 ->
  tx_apply hfrom mu s2 t2 = (s', r) -> ff_txs s2 s'.
Proof.
  intros hfrom mu s2 t2 s' r HF Hacc Hcb Hab H.
  destruct HF as [HI [HH [HT [Hff [Hld Hinv]]]]].
  unfold tx_apply in H. cbv zeta in H.
  set (cl := set_active_clock (sc s2) (clock s2) (active s2) (mu_called mu) (t_target t2)) in *.
  set (s3 := add_ev (set_mach s2 cl (t_target t2)) EvFinals) in *.
  assert (H23 : hstep true s2 s3).
  { apply set_mach_hstep; [exact HI | exact HH | apply (ti_nd _ _ HT) | apply (ti_tg _ _ HT)]. }
  assert (F3 : FFC s3 t2).
  { apply FFC_intro; [apply (hs_inv _ _ _ H23) | apply (hs_hl _ _ _ H23) | exact HT | exact Hff | exact Hld | exact Hinv]. }
  match type of H with (match ?X with _ => _ end) = _ =>
    destruct X as [[s4 t3] fcancel] eqn:E4 end.
  assert (A4 : FFC s4 t3 /\ t3 = t2 /\ clock s4 = cl /\ fcancel = false /\ txs s4 = txs s2).
  { destruct (has_handlers s3).
    - destruct (emit_finals s3 t2 (t_exits t2 ++ t_enters t2)) as [[sx tx] fk] eqn:Ef.
      destruct (emit_finals_ff _ _ _ _ _ _ F3 Ef) as [Fx [Et [Hcx [Hax Hfk]]]].
      destruct (emit_finals_gen _ _ _ _ _ _ (hs_inv _ _ _ H23) (hs_hl _ _ _ H23) HT Ef) as [Sx _].
      rewrite Hfk in E4. injection E4 as E41 E42 E43. subst s4 t3 fcancel.
      split; [exact Fx|]. split; [exact Et|]. split; [exact Hcx|]. split; [reflexivity|].
      apply (hs_txs _ _ _ Sx).
    - injection E4 as E41 E42 E43. subst s4 t3 fcancel. auto. }
  destruct A4 as [F4 [Et3 [Hc4 [Efc Htx4]]]]. subst t3 fcancel.
  destruct (hung s4). { inversion H; subst s' r. left. exact Htx4. }
  match type of H with (match ?X with _ => _ end) = _ =>
    destruct X as [[s5 t4] fcancel2] eqn:E5 end.
  assert (A5 : t4 = t2 /\ clock s5 = cl /\ fcancel2 = false /\ txs s5 = txs s2).
  { destruct (has_handlers s4 && negb false).
    - destruct (handle s4 t2 HAnyState) as [[sx tx] ok] eqn:Eh.
      destruct (handle_ffc _ _ _ _ _ _ F4 Eh) as [Fx [Et [Hcx [Hax Hok]]]].
      destruct F4 as [HI4 [HH4 [HT4 _]]].
      destruct (handle_gen _ _ _ _ _ _ HI4 HH4 HT4 Eh) as [Sx _].
      rewrite (Hok eq_refl) in E5. injection E5 as E51 E52 E53. subst s5 t4 fcancel2.
      split; [exact Et|]. split; [congruence|]. split; [reflexivity|].
      rewrite (hs_txs _ _ _ Sx). exact Htx4.
    - injection E5 as E51 E52 E53. subst s5 t4 fcancel2. auto. }
  destruct A5 as [Et4 [Hc5 [Efc2 Htx5]]]. subst t4 fcancel2.
  destruct (hung s5). { inversion H; subst s' r. left. exact Htx5. }
  match type of H with context [add_tx ?X _] => set (s6 := X) in * end.
  assert (H56 : same_core s5 s6).
  { subst s6. match goal with |- same_core _ (if ?c then _ else _) => destruct c end;
      [apply prepend_auto_qstep | apply same_core_refl]. }
  inversion H; subst s' r. right. eexists. split.
  - simpl. rewrite (sc_txs _ _ H56), Htx5. reflexivity.
  - apply applied_code; simpl.
    + reflexivity.
    + rewrite Hacc. reflexivity.
    + rewrite Hcb, Hab. apply (inv_par _ HI).
    + rewrite Hab. apply (inv_nd _ HI).
    + apply (ti_nd _ _ HT).
    + rewrite Hcb, (inv_len _ HI). apply (ti_tg _ _ HT).
    + rewrite Hcb, Hab. reflexivity.
    + rewrite (sc_clock _ _ H56). exact Hc5.
Qed.

Lemma tx_rest_ff : forall hh hfrom mu s1 t1 c1 s' r,
  FFC s1 t1 -> mu_inr (length (sc s1)) mu ->
  t_clock_before t1 = clock s1 -> t_before t1 = active s1 ->
  (c1 = false -> t_accepted t1 = true) ->
  tx_rest hh hfrom mu s1 t1 c1 = (s', r) -> ff_txs s1 s'.
Proof.
  intros hh hfrom mu s1 t1 c1 s' r HF Hmu Hcb Hab Hacc H.
  unfold tx_rest in H. cbv zeta in H.
  destruct (hung s1). { inversion H; subst s' r. left. reflexivity. }
  match type of H with (match ?X with _ => _ end) = _ =>
    destruct X as [[s2 t1'] c3] eqn:E2 end.
  assert (Hc3 : c3 = false -> c1 = false).
  { intros Hf. destruct c1; [|reflexivity]. exfalso.
    destruct hh; simpl in E2; injection E2 as E21 E22 E23; congruence. }
  assert (A2 : FFC s2 t1' /\ t1' = t1 /\ clock s2 = clock s1 /\ active s2 = active s1 /\
               txs s2 = txs s1 /\ sc s2 = sc s1).
  { match type of E2 with (if ?c then _ else _) = _ => destruct c end.
    - destruct (handle s1 t1 HAnyEnter) as [[sx tx] ok] eqn:Eh.
      destruct (handle_ffc _ _ _ _ _ _ HF Eh) as [Fx [Et [Hcx [Hax _]]]].
      destruct HF as [HI1 [HH1 [HT1 _]]].
      destruct (handle_gen _ _ _ _ _ _ HI1 HH1 HT1 Eh) as [Sx _].
      injection E2 as E21 E22 E23. subst s2 t1' c3.
      split; [exact Fx|]. split; [exact Et|]. split; [exact Hcx|]. split; [exact Hax|].
      split; [apply (hs_txs _ _ _ Sx) | apply (hs_sc _ _ _ Sx)].
    - injection E2 as E21 E22 E23. subst s2 t1' c3. auto 10. }
  destruct A2 as [F2 [Et [Hc2 [Ha2 [Htx2 Hsc2]]]]]. subst t1'.
  destruct (hung s2). { inversion H; subst s' r. left. exact Htx2. }
  destruct F2 as [HI2 [HH2 [HT2 [Hff2 [Hld2 Hinv2]]]]].
  assert (Hpar : parity_ok (t_clock_before t1) (t_before t1) = true).
  { rewrite Hcb, Hab, <- Hc2, <- Ha2. apply (inv_par _ HI2). }
  destruct (mu_check mu).
  - inversion H; subst s' r. right. eexists. split; [simpl; rewrite Htx2; reflexivity|].
    rewrite <- Hsc2. apply still_code; simpl; [reflexivity | exact Hpar | reflexivity].
  - assert (Hmu2 : mu_inr (length (sc s2)) mu) by (rewrite Hsc2; exact Hmu).
    destruct (tx_t2_facts mu s2 t1 HI2 HT2 Hmu2) as [HTt [Q1 [Q2 [Q3 Q4]]]].
    set (t2 := tx_t2 mu s2 t1) in *.
    destruct c3; cbn [negb] in H; cbv iota in H.
    + inversion H; subst s' r. right. eexists. split; [simpl; rewrite Htx2; reflexivity|].
      rewrite <- Hsc2. apply still_code; simpl.
      * reflexivity.
      * rewrite Q1, Q2. exact Hpar.
      * rewrite Q1, Hcb, Hc2. reflexivity.
    + assert (Hr : ff_txs s2 s').
      { eapply tx_apply_ff; [| | | | exact H].
        - apply FFC_intro; try assumption. rewrite Q4. exact Hinv2.
        - rewrite Q3. apply Hacc. apply Hc3. reflexivity.
        - rewrite Q1, Hcb, Hc2. reflexivity.
        - rewrite Q2, Hab, Ha2. reflexivity. }
      unfold ff_txs in *. rewrite Htx2, Hsc2 in Hr. exact Hr.
Qed.

(* one transition of a fault-free script *)
Lemma run_tx_ff : forall s mu s' r,
  Inv s -> HL s -> mu_inr (length (sc s)) mu ->
  fault_free (actions s) -> loop_dead s = false ->
  run_tx s mu = (s', r) -> ff_txs s s'.
Proof.
  intros s mu s' r HI HH Hmu Hff Hld H. rewrite run_tx_eq in H. cbv zeta in H.
  destruct (new_transition_facts s mu HI Hmu) as [HT0 [Hm0 [Hb0 [Hc0 Hi0]]]].
  set (t0 := new_transition s mu) in *.
  set (sa := add_ev (add_ev s EvInit) EvStart) in *.
  assert (Hsa : hstep false s sa).
  { apply qstep_hstep; try assumption. eapply qstep_trans; apply add_ev_qstep. }
  assert (Fa : FFC sa t0).
  { apply FFC_intro; [apply (hs_inv _ _ _ Hsa) | apply (hs_hl _ _ _ Hsa) | exact HT0 | exact Hff | exact Hld | exact Hi0]. }
  match type of H with (match ?X with _ => _ end) = _ =>
    destruct X as [[s1 t1] nr] eqn:E1 end.
  assert (A1 : estep false sa t0 s1 t1 /\ FFC s1 t1 /\ t_accepted t1 = t_accepted t0).
  { destruct (has_handlers sa && negb (negb (t_accepted t0))).
    - split; [eapply negotiate_gen; [apply (hs_inv _ _ _ Hsa) | apply (hs_hl _ _ _ Hsa) | exact HT0 | exact E1]|].
      eapply negotiate_ff; eassumption.
    - injection E1 as Es Et En. subst s1 t1 nr.
      split; [apply estep_refl; [apply (hs_inv _ _ _ Hsa) | apply (hs_hl _ _ _ Hsa) | exact HT0]|].
      split; [exact Fa | reflexivity]. }
  destruct A1 as [[Ha1 [T01 HT1]] [F1 Hacc1]].
  assert (H1 : hstep false s s1) by (eapply hstep_trans; eassumption).
  destruct (hs_same _ _ _ H1 eq_refl) as [Hc1 Hac1].
  assert (R : forall c1, (c1 = false -> t_accepted t0 = true) ->
                         tx_rest (has_handlers sa) (length (hlog s)) mu s1 t1 c1 = (s', r) ->
                         ff_txs s s').
  { intros c1 Hc1f Hr.
    assert (Hr' : ff_txs s1 s').
    { eapply tx_rest_ff; [exact F1 | | | | | exact Hr].
      - rewrite (hs_sc _ _ _ H1). exact Hmu.
      - rewrite (ts_cb _ _ T01), Hc0, Hc1. reflexivity.
      - rewrite (ts_before _ _ T01), Hb0, Hac1. reflexivity.
      - intros Hf. rewrite Hacc1. apply Hc1f. exact Hf. }
    unfold ff_txs in *. rewrite (hs_txs _ _ _ H1), (hs_sc _ _ _ H1) in Hr'. exact Hr'. }
  destruct nr.
  - eapply R; [|exact H]. intros Hf. apply orb_false_iff in Hf. destruct Hf as [Hf _].
    apply negb_false_iff in Hf. exact Hf.
  - eapply R; [|exact H]. intros Hf. apply orb_false_iff in Hf. destruct Hf as [_ Hf]. discriminate.
  - inversion H; subst s' r. left. simpl. apply (hs_txs _ _ _ H1).
Qed.

End BaseLog.

Lemma HL_nil_iff : forall s, HL [] s <-> forallb hl_par (hlog s) = true.
Proof.
  intros s. unfold HL. split.
  - intros [newh [Hn Hp]]. rewrite Hn, app_nil_r. exact Hp.
  - intros H. exists (hlog s). rewrite app_nil_r. auto.
Qed.

Lemma HL_base : forall s, HL (hlog s) s.
Proof. intros s. exists []. auto. Qed.

(* ------------------------------------------------------------------ *)
(* H. the queue, the top-level calls, the run                          *)
(* ------------------------------------------------------------------ *)

(* newest-first chain of clocks below [cur] *)
Fixpoint desc_chain (cur : list N) (l : list (list N)) : Prop :=
  match l with
  | [] => True
  | c :: r => clock_le c cur = true /\ desc_chain c r
  end.

Lemma desc_chain_mono : forall l cur cur',
  desc_chain cur l -> clock_le cur cur' = true -> desc_chain cur' l.
Proof.
  intros [|c r] cur cur' H Hle; simpl in *; [exact I|].
  destruct H as [H1 H2]. split; [eapply clock_le_trans; eassumption | exact H2].
Qed.

Lemma last_nonempty : forall (A : Type) (l : list A) x d1 d2, last (x :: l) d1 = last (x :: l) d2.
Proof.
  intros A l. induction l as [|y r IH]; intros x d1 d2; [reflexivity|].
  change (last (y :: r) d1 = last (y :: r) d2). apply IH.
Qed.

Lemma last_cons_default : forall (A : Type) (l : list A) x d, last (x :: l) d = last l x.
Proof.
  intros A l. induction l as [|y r IH]; intros x d; [reflexivity|].
  change (last (y :: r) d = last (y :: r) x). apply last_nonempty.
Qed.

Lemma chain_le_snoc : forall r p x,
  chain_le p (r ++ [x]) = chain_le p r && clock_le (last r p) x.
Proof.
  induction r as [|y r IH]; intros p x.
  - simpl. rewrite andb_true_r. reflexivity.
  - change (chain_le p ((y :: r) ++ [x])) with (clock_le p y && chain_le y (r ++ [x])).
    rewrite IH. rewrite last_cons_default. simpl. rewrite andb_assoc. reflexivity.
Qed.

Lemma last_snoc : forall (A : Type) (l : list A) x d, last (l ++ [x]) d = x.
Proof.
  intros A l. induction l as [|y r IH]; intros x d; [reflexivity|].
  change (last (y :: (r ++ [x])) d = x). rewrite last_cons_default. apply IH.
Qed.

(* a newest-first chain, read oldest first *)
Lemma desc_chain_asc : forall l cur c r,
  desc_chain cur l -> rev l = c :: r ->
  chain_le c r = true /\ clock_le (last r c) cur = true.
Proof.
  induction l as [|x l IH]; intros cur c r H Hr; [discriminate|].
  simpl in H. destruct H as [Hx Hd]. simpl in Hr.
  destruct (rev l) as [|c' r'] eqn:El.
  - simpl in Hr. inversion Hr; subst. simpl. auto.
  - simpl in Hr. inversion Hr; subst.
    destruct (IH x c r' Hd eq_refl) as [K1 K2].
    rewrite chain_le_snoc, K1, K2, last_snoc. auto.
Qed.

Definition tx_clocks (l : list txrec) : list (list N) :=
  flat_map (fun t => [tx_after t; tx_before t]) l.

Lemma tx_clocks_rev : forall l,
  flat_map (fun t => [tx_before t; tx_after t]) (rev l) = rev (tx_clocks l).
Proof.
  induction l as [|x l IH]; [reflexivity|].
  change (tx_clocks (x :: l)) with ([tx_after x; tx_before x] ++ tx_clocks l).
  rewrite rev_app_distr. change (rev (x :: l)) with (rev l ++ [x]).
  rewrite flat_map_app, IH. reflexivity.
Qed.

(* the invariant of a whole run *)
Record G (s : st) : Prop := {
  g_inv : Inv s;
  g_hl : HL [] s;
  g_txpar : forallb tx_par (txs s) = true;
  g_chain : desc_chain (clock s) (tx_clocks (txs s))
}.

Definition FFG (s : st) : Prop :=
  fault_free (actions s) /\ loop_dead s = false /\
  Forall (fun t => tx_clock_code (sc s) t = []) (txs s).

Record gstep (s s' : st) : Prop := {
  gs_g : G s';
  gs_sc : sc s' = sc s;
  gs_le : clock_le (clock s) (clock s') = true;
  gs_ff : FFG s -> FFG s'
}.

Lemma gstep_refl : forall s, G s -> gstep s s.
Proof. intros s HG. constructor; auto. apply clock_le_refl. Qed.

Lemma gstep_trans : forall s1 s2 s3, gstep s1 s2 -> gstep s2 s3 -> gstep s1 s3.
Proof.
  intros s1 s2 s3 [A1 A2 A3 A4] [B1 B2 B3 B4]. constructor; auto; try congruence.
  eapply clock_le_trans; eassumption.
Qed.

Lemma qstep_gstep : forall s s', G s -> qstep s s' -> gstep s s'.
Proof.
  intros s s' [G1 G2 G3 G4] Hq.
  pose proof (qstep_Inv _ _ Hq G1) as HI. pose proof (qstep_HL _ _ _ Hq G2) as HH.
  destruct Hq as [[A1 A2 A3 A4 A5 A6 A7 A8 A9] _].
  constructor.
  - constructor; auto; rewrite ?A7, ?A3; assumption.
  - exact A1.
  - rewrite A3. apply clock_le_refl.
  - intros [F1 [F2 F3]]. unfold FFG. rewrite A5, A8, A7, A1. auto.
Qed.

Lemma run_tx_gstep : forall s mu s' r,
  G s -> mu_inr (length (sc s)) mu -> run_tx s mu = (s', r) -> gstep s s'.
Proof.
  intros s mu s' r [G1 G2 G3 G4] Hmu H.
  pose proof (run_tx_gen _ _ _ _ _ G1 G2 Hmu H) as [X1 X2 X3 X4 X5 X6 X7 X8 X9].
  constructor; auto.
  - constructor; auto.
    + destruct X9 as [E|[rec [E [R1 [R2 _]]]]]; rewrite E; [exact G3|].
      simpl. rewrite G3. unfold tx_par. rewrite R1, R2, (inv_par _ G1). reflexivity.
    + destruct X9 as [E|[rec [E [R1 [R2 [R3 R4]]]]]]; rewrite E.
      * eapply desc_chain_mono; eassumption.
      * simpl. rewrite R1. auto.
  - intros [F1 [F2 F3]]. unfold FFG. split; [auto|]. split; [congruence|].
    rewrite X3. destruct (run_tx_ff _ _ _ _ _ G1 G2 Hmu F1 F2 H) as [E|[rec [E Hc]]]; rewrite E.
    + exact F3.
    + constructor; assumption.
Qed.

Lemma drain_gstep : forall fuel s first s' fr ok,
  G s -> drain fuel s first = (s', fr, ok) -> gstep s s'.
Proof.
  induction fuel as [|f IH]; intros s first s' fr ok HG H; cbn [drain] in H.
  - inversion H; subst. apply gstep_refl. exact HG.
  - destruct (crashed s || hung s); [inversion H; subst; apply gstep_refl; exact HG|].
    destruct (queue s) as [|mu rest] eqn:Eq.
    + inversion H; subst. apply qstep_gstep; [exact HG | apply add_ev_qstep].
    + set (s0 := set_queue s rest) in *.
      set (s1 := if (0 <? mu_qtick mu)%N then set_ticks s0 (qtick s0 + 1)%N (qpending s0 - 1)%N else s0) in *.
      assert (Hmu : mu_inr (length (sc s)) mu).
      { pose proof (inv_q _ (g_inv _ HG)) as Hq. rewrite Eq in Hq. inversion Hq; assumption. }
      assert (Hq1 : qstep s s1).
      { split.
        - subst s1 s0. destruct (0 <? mu_qtick mu)%N; constructor; reflexivity.
        - intros Hq. rewrite Eq in Hq. inversion Hq; subst.
          subst s1 s0. destruct (0 <? mu_qtick mu)%N; simpl; assumption. }
      pose proof (qstep_gstep _ _ HG Hq1) as Hg1.
      destruct (run_tx s1 mu) as [s2 r] eqn:Er.
      assert (Hg2 : gstep s1 s2).
      { eapply run_tx_gstep; [apply (gs_g _ _ Hg1) | | exact Er].
        rewrite (gs_sc _ _ Hg1). exact Hmu. }
      eapply gstep_trans; [exact Hg1|]. eapply gstep_trans; [exact Hg2|].
      eapply IH; [apply (gs_g _ _ Hg2) | exact H].
Qed.

Lemma process_queue_gstep : forall fuel s s' res ok,
  G s -> process_queue fuel s = (s', res, ok) -> gstep s s'.
Proof.
  intros fuel s s' res ok HG H. unfold process_queue in H.
  destruct (queue s); [inversion H; subst; apply gstep_refl; exact HG|].
  destruct (drain fuel s None) as [[s1 first] ok1] eqn:Ed. inversion H; subst.
  eapply drain_gstep; eassumption.
Qed.

Lemma top_mutation_gstep : forall fuel s mt states args s' res ok,
  G s -> inr (length (sc s)) states ->
  top_mutation fuel s mt states args = (s', res, ok) -> gstep s s'.
Proof.
  intros fuel s mt states args s' res ok HG Hs H. unfold top_mutation in H.
  pose proof (queue_mutation_qstep s mt states args Hs) as Hq.
  destruct (queue_mutation s mt states args) as [s1 tick]. simpl in Hq.
  pose proof (qstep_gstep _ _ HG Hq) as Hg1.
  destruct (N.eqb tick 0); [inversion H; subst; exact Hg1|].
  destruct (process_queue fuel s1) as [[s2 r] ok2] eqn:Ep. inversion H; subst.
  eapply gstep_trans; [exact Hg1|]. eapply process_queue_gstep; [apply (gs_g _ _ Hg1) | exact Ep].
Qed.

Lemma top_add_gstep : forall fuel s states args s' res ok,
  G s -> inr (length (sc s)) states ->
  top_add fuel s states args = (s', res, ok) -> gstep s s'.
Proof.
  intros fuel s states args s' res ok HG Hs H. unfold top_add in H.
  destruct (limit_hit s && (negb (mem (exc s) states) || is_active s (exc s))).
  - inversion H; subst. apply gstep_refl. exact HG.
  - eapply top_mutation_gstep; eassumption.
Qed.

Lemma top_remove_gstep : forall fuel s states args s' res ok,
  G s -> inr (length (sc s)) states ->
  top_remove fuel s states args = (s', res, ok) -> gstep s s'.
Proof.
  intros fuel s states args s' res ok HG Hs H. unfold top_remove in H.
  destruct (limit_hit s && (negb (mem (exc s) states) || negb (is_active s (exc s)))).
  - inversion H; subst. apply gstep_refl. exact HG.
  - eapply top_mutation_gstep; eassumption.
Qed.

Lemma top_api_gstep : forall fuel s c s' res ok,
  G s -> inr (length (sc s)) (ac_states c) ->
  top_api fuel s c = (s', res, ok) -> gstep s s'.
Proof.
  intros fuel s c s' res ok HG Hs H. unfold top_api in H. destruct (ac_kind c).
  - eapply top_add_gstep; eassumption.
  - eapply top_remove_gstep; eassumption.
  - destruct (limit_hit s); [inversion H; subst; apply gstep_refl; exact HG|].
    eapply top_mutation_gstep; eassumption.
  - destruct (mach_is s (ac_states c)); [eapply top_remove_gstep | eapply top_add_gstep]; eassumption.
  - destruct (limit_hit s); [inversion H; subst; apply gstep_refl; exact HG|].
    pose proof (qstep_gstep _ _ HG (sff_qstep s (loop_dead s) (hung s) 1%N eq_refl)) as Hg1.
    eapply gstep_trans; [exact Hg1|].
    eapply top_add_gstep; [apply (gs_g _ _ Hg1) | | exact H].
    simpl. intros x [Hx|[Hx|[]]]; subst; apply (inv_exc _ (g_inv _ HG)).
  - pose proof (qstep_gstep _ _ HG (prepend_mut_qstep s (check_mut MAdd (ac_states c) (ac_args c)) Hs)) as Hg1.
    eapply gstep_trans; [exact Hg1|].
    eapply process_queue_gstep; [apply (gs_g _ _ Hg1) | exact H].
  - pose proof (qstep_gstep _ _ HG (prepend_mut_qstep s (check_mut MRemove (ac_states c) false) Hs)) as Hg1.
    eapply gstep_trans; [exact Hg1|].
    eapply process_queue_gstep; [apply (gs_g _ _ Hg1) | exact H].
Qed.

(* the observations of the top-level calls, newest first *)
Definition obs_ok (cur : list N) (acc : list callobs) : Prop :=
  forallb co_par acc = true /\ desc_chain cur (map co_time acc).

Lemma run_calls_top_gstep : forall fuel cs s acc s' obs ok,
  G s -> calls_in_range (length (sc s)) cs = true -> obs_ok (clock s) acc ->
  run_calls_top fuel s cs acc = (s', obs, ok) ->
  gstep s s' /\ exists acc', obs = rev acc' /\ obs_ok (clock s') acc'.
Proof.
  intros fuel cs. induction cs as [|c r IH]; intros s acc s' obs ok HG Hcs Hacc H;
    cbn [run_calls_top] in H.
  - inversion H; subst. split; [apply gstep_refl; exact HG|]. exists acc. auto.
  - destruct (crashed s || hung s).
    { inversion H; subst. split; [apply gstep_refl; exact HG|]. exists acc. auto. }
    simpl in Hcs. apply andb_true_iff in Hcs. destruct Hcs as [Hc Hr]. apply inr_forallb in Hc.
    destruct (top_api fuel s c) as [[s1 res] ok1] eqn:Et.
    pose proof (top_api_gstep _ _ _ _ _ _ HG Hc Et) as Hg1.
    destruct Hacc as [Hp Hd].
    assert (Hd1 : desc_chain (clock s1) (map co_time acc)).
    { eapply desc_chain_mono; [exact Hd | apply (gs_le _ _ Hg1)]. }
    destruct (crashed s1 || hung s1).
    { inversion H; subst. split; [exact Hg1|]. exists acc. split; [reflexivity|]. split; assumption. }
    match type of H with context [rev (?oo :: acc)] => set (o := oo) in * end.
    assert (Hacc1 : obs_ok (clock s1) (o :: acc)).
    { split.
      - simpl. rewrite Hp. unfold co_par at 1. simpl.
        rewrite (inv_par _ (g_inv _ (gs_g _ _ Hg1))). reflexivity.
      - simpl. split; [apply clock_le_refl | exact Hd1]. }
    destruct ok1.
    + rewrite <- (gs_sc _ _ Hg1) in Hr.
      destruct (IH _ _ _ _ _ (gs_g _ _ Hg1) Hr Hacc1 H) as [Hg2 Hex].
      split; [eapply gstep_trans; eassumption | exact Hex].
    + inversion H; subst. split; [exact Hg1|]. exists (o :: acc). split; [reflexivity | exact Hacc1].
Qed.

Lemma forallb_rev : forall (A : Type) (f : A -> bool) l, forallb f (rev l) = forallb f l.
Proof.
  intros A f l. induction l as [|x r IH]; [reflexivity|].
  simpl. rewrite forallb_app, IH. simpl. rewrite andb_true_r. apply andb_comm.
Qed.

Lemma init_G : forall sch tp hl ex bs ql acts,
  refs_ok sch = true -> ex < length sch -> actions_in_range (length sch) acts = true ->
  G (init_st sch tp hl ex bs ql acts).
Proof.
  intros sch tp hl ex bs ql acts Hr Hex Ha. constructor.
  - apply init_Inv; assumption.
  - apply HL_nil_iff. reflexivity.
  - reflexivity.
  - exact I.
Qed.

(* everything about a run, in one statement *)
Lemma run_main : forall fuel sch tp hl ex bs ql acts cs,
  refs_ok sch = true -> ex < length sch ->
  actions_in_range (length sch) acts = true -> calls_in_range (length sch) cs = true ->
  let tr := run fuel (init_st sch tp hl ex bs ql acts) cs in
  forallb co_par (tr_calls tr) = true /\
  forallb hl_par (tr_hlog tr) = true /\
  forallb tx_par (tr_txs tr) = true /\
  match tr_txs tr with
  | [] => True
  | t :: _ => chain_le (tx_before t)
                (flat_map (fun t => [tx_before t; tx_after t]) (tr_txs tr)) = true
  end /\
  match tr_calls tr with
  | [] => True
  | c :: r => chain_le (co_time c) (map co_time r) = true
  end /\
  (fault_free acts -> forall t, In t (tr_txs tr) -> tx_clock_code sch t = []).
Proof.
  intros fuel sch tp hl ex bs ql acts cs Hr Hex Ha Hcs tr. subst tr. unfold run.
  pose proof (init_G sch tp hl ex bs ql acts Hr Hex Ha) as HG0.
  set (s0 := init_st sch tp hl ex bs ql acts) in *.
  destruct (run_calls_top fuel s0 cs []) as [[s1 obs] ok] eqn:E.
  assert (Hobs0 : obs_ok (clock s0) []) by (split; [reflexivity | exact I]).
  destruct (run_calls_top_gstep _ _ _ _ _ _ _ HG0 Hcs Hobs0 E) as [Hg [acc' [Eobs [Hp Hd]]]].
  destruct (gs_g _ _ Hg) as [G1 G2 G3 G4]. simpl.
  split; [rewrite Eobs, forallb_rev; exact Hp|].
  split; [rewrite forallb_rev; apply HL_nil_iff; exact G2|].
  split; [rewrite forallb_rev; exact G3|].
  split; [|split].
  - destruct (rev (txs s1)) as [|t rest] eqn:Et; [exact I|].
    rewrite <- Et, tx_clocks_rev.
    assert (Erev : rev (tx_clocks (txs s1)) = tx_before t :: tx_after t :: flat_map (fun t => [tx_before t; tx_after t]) rest).
    { rewrite <- tx_clocks_rev, Et. reflexivity. }
    destruct (desc_chain_asc _ _ _ _ G4 Erev) as [K _].
    rewrite Erev. simpl. rewrite clock_le_refl. exact K.
  - subst obs. destruct (rev acc') as [|c r] eqn:Ec; [exact I|].
    assert (Erev : rev (map co_time acc') = co_time c :: map co_time r).
    { rewrite <- map_rev, Ec. reflexivity. }
    destruct (desc_chain_asc _ _ _ _ Hd Erev) as [K _]. exact K.
  - intros Hff t Hin.
    assert (F0 : FFG s0) by (split; [exact Hff|]; split; [reflexivity | constructor]).
    destruct (gs_ff _ _ Hg F0) as [_ [_ F3]]. rewrite (gs_sc _ _ Hg) in F3.
    rewrite Forall_forall in F3. apply F3. apply in_rev. exact Hin.
Qed.

(* ------------------------------------------------------------------ *)
(* I. the property theorems                                            *)
(* ------------------------------------------------------------------ *)

Lemma Inv_def_lemma : forall s,
  Inv s <->
  (refs_ok (sc s) = true /\ exc s < length (sc s) /\ length (clock s) = length (sc s) /\
   parity_ok (clock s) (active s) = true /\ NoDup (active s) /\
   Forall (fun mu => forall x, In x (mu_called mu) -> x < length (sc s)) (queue s) /\
   actions_in_range (length (sc s)) (actions s) = true).
Proof.
  intros s. split.
  - intros [I1 I2 I3 I4 I5 I6 I7]. auto 10.
  - intros [I1 [I2 [I3 [I4 [I5 [I6 I7]]]]]]. constructor; assumption.
Qed.

Lemma init_Inv_lemma : forall sch tp hl ex bs ql acts,
  refs_ok sch = true -> ex < length sch -> actions_in_range (length sch) acts = true ->
  Inv (init_st sch tp hl ex bs ql acts).
Proof. exact init_Inv. Qed.

(* what [tx_clock_code sc t = []] says *)
Lemma tx_clock_code_spec_lemma : forall sc t,
  tx_clock_code sc t = [] <->
  (parity_ok (tx_before t) (tx_active_before t) = true /\
   clock_le (tx_before t) (tx_after t) = true /\
   if tx_check t || negb (tx_accepted t) then clock_eqb (tx_before t) (tx_after t) = true
   else (steps_ok sc t 0 (tx_before t) (tx_after t) = true /\
         parity_ok (tx_after t) (tx_target t) = true /\
         clock_eqb (tx_after t) (tx_mach_after t) = true)).
Proof.
  intros sc t. unfold tx_clock_code, tx_moves_nothing.
  destruct (parity_ok (tx_before t) (tx_active_before t)); simpl;
    [|split; [discriminate | intros [H _]; discriminate]].
  destruct (clock_le (tx_before t) (tx_after t)); simpl;
    [|split; [discriminate | intros [_ [H _]]; discriminate]].
  destruct (tx_check t || negb (tx_accepted t)).
  - destruct (clock_eqb (tx_before t) (tx_after t)); split; auto; try discriminate.
    intros [_ [_ H]]. discriminate.
  - destruct (steps_ok sc t 0 (tx_before t) (tx_after t)); simpl;
      [|split; [discriminate | intros [_ [_ [H _]]]; discriminate]].
    destruct (parity_ok (tx_after t) (tx_target t)); simpl;
      [|split; [discriminate | intros [_ [_ [_ [H _]]]]; discriminate]].
    destruct (clock_eqb (tx_after t) (tx_mach_after t)); simpl; split; auto; try discriminate.
    intros [_ [_ [_ [_ H]]]]. discriminate.
Qed.

Lemma target_states_in_range_lemma : forall (c : rctx) (to_set : list nat),
  refs_ok (rc_schema c) = true ->
  (forall x, In x to_set -> x < length (rc_schema c)) ->
  forall x, In x (target_states c to_set) -> x < length (rc_schema c).
Proof. exact target_states_inr_lemma. Qed.

Lemma recover_walk_in_range_lemma : forall n finals to enters found act,
  (forall x, In x finals -> x < n) -> (forall x, In x act -> x < n) ->
  forall x, In x (recover_walk to enters found finals act) -> x < n.
Proof. exact recover_walk_inr_lemma. Qed.

Lemma set_active_parity_thm : forall sc cl prev called tg,
  NoDup tg -> (forall x, In x tg -> x < length cl) ->
  parity_ok cl prev = true -> NoDup prev ->
  parity_ok (set_active_clock sc cl prev called tg) tg = true.
Proof. exact set_active_parity_lemma. Qed.

(* (2) per step: the invariant is kept, the handler log only grows, by
   entries that satisfy parity, and so does the appended record *)
Lemma parity_invariant_step_lemma : forall s mu,
  Inv s -> (forall x, In x (mu_called mu) -> x < length (sc s)) ->
  let s' := fst (run_tx s mu) in
  Inv s' /\
  (exists newh, hlog s' = newh ++ hlog s /\
     forallb (fun h => parity_ok (hl_clock h) (hl_active h)) newh = true) /\
  (txs s' = txs s \/
   exists rec, txs s' = rec :: txs s /\ tx_before rec = clock s /\ tx_active_before rec = active s /\
               parity_ok (tx_before rec) (tx_active_before rec) = true).
Proof.
  intros s mu HI Hmu s'. subst s'. destruct (run_tx s mu) as [s' r] eqn:E. simpl.
  destruct (run_tx_gen _ _ _ _ _ HI (HL_base s) Hmu E) as [X1 X2 X3 X4 X5 X6 X7 X8 X9].
  split; [exact X1|]. split; [exact X2|].
  destruct X9 as [E9|[rec [E9 [R1 [R2 _]]]]]; [left; exact E9|].
  right. exists rec. rewrite R1, R2. repeat split; try assumption. apply (inv_par _ HI).
Qed.

(* (3) per step *)
Lemma ticks_monotone_step_lemma : forall s mu,
  Inv s -> (forall x, In x (mu_called mu) -> x < length (sc s)) ->
  let s' := fst (run_tx s mu) in
  clock_le (clock s) (clock s') = true /\
  (txs s' = txs s \/
   exists rec, txs s' = rec :: txs s /\ tx_before rec = clock s /\
               clock_le (tx_before rec) (tx_after rec) = true /\
               clock_le (tx_after rec) (clock s') = true).
Proof.
  intros s mu HI Hmu s'. subst s'. destruct (run_tx s mu) as [s' r] eqn:E. simpl.
  destruct (run_tx_gen _ _ _ _ _ HI (HL_base s) Hmu E) as [X1 X2 X3 X4 X5 X6 X7 X8 X9].
  split; [exact X7|].
  destruct X9 as [E9|[rec [E9 [R1 [R2 [R3 R4]]]]]]; [left; exact E9|].
  right. exists rec. rewrite R1. auto.
Qed.

(* (4) per step *)
Lemma step_sizes_step_lemma : forall s mu,
  Inv s -> (forall x, In x (mu_called mu) -> x < length (sc s)) ->
  fault_free (actions s) -> loop_dead s = false ->
  let s' := fst (run_tx s mu) in
  fault_free (actions s') /\ loop_dead s' = false /\
  (txs s' = txs s \/ exists rec, txs s' = rec :: txs s /\ tx_clock_code (sc s) rec = []).
Proof.
  intros s mu HI Hmu Hff Hld s'. subst s'. destruct (run_tx s mu) as [s' r] eqn:E. simpl.
  destruct (run_tx_gen _ _ _ _ _ HI (HL_base s) Hmu E) as [X1 X2 X3 X4 X5 X6 X7 X8 X9].
  split; [auto|]. split; [congruence|].
  apply (run_tx_ff _ _ _ _ _ HI (HL_base s) Hmu Hff Hld E).
Qed.

(* (2) *)
Lemma parity_invariant_lemma : forall fuel sch tp hl ex bs ql acts cs,
  refs_ok sch = true -> ex < length sch ->
  actions_in_range (length sch) acts = true -> calls_in_range (length sch) cs = true ->
  let tr := run fuel (init_st sch tp hl ex bs ql acts) cs in
  forallb (fun c => parity_ok (co_time c) (co_active c)) (tr_calls tr) = true /\
  forallb (fun h => parity_ok (hl_clock h) (hl_active h)) (tr_hlog tr) = true /\
  forallb (fun t => parity_ok (tx_before t) (tx_active_before t)) (tr_txs tr) = true.
Proof.
  intros fuel sch tp hl ex bs ql acts cs Hr Hex Ha Hcs tr.
  destruct (run_main fuel sch tp hl ex bs ql acts cs Hr Hex Ha Hcs) as [P1 [P2 [P3 _]]].
  auto.
Qed.

(* (3) *)
Lemma ticks_monotone_lemma : forall fuel sch tp hl ex bs ql acts cs,
  refs_ok sch = true -> ex < length sch ->
  actions_in_range (length sch) acts = true -> calls_in_range (length sch) cs = true ->
  let tr := run fuel (init_st sch tp hl ex bs ql acts) cs in
  match tr_txs tr with
  | [] => True
  | t :: _ => chain_le (tx_before t)
                (flat_map (fun t => [tx_before t; tx_after t]) (tr_txs tr)) = true
  end /\
  match tr_calls tr with
  | [] => True
  | c :: r => chain_le (co_time c) (map co_time r) = true
  end.
Proof.
  intros fuel sch tp hl ex bs ql acts cs Hr Hex Ha Hcs tr.
  destruct (run_main fuel sch tp hl ex bs ql acts cs Hr Hex Ha Hcs) as [_ [_ [_ [P4 [P5 _]]]]].
  auto.
Qed.

(* (4) *)
Lemma step_sizes_lemma : forall fuel sch tp hl ex bs ql acts cs,
  refs_ok sch = true -> ex < length sch ->
  actions_in_range (length sch) acts = true -> calls_in_range (length sch) cs = true ->
  fault_free acts ->
  let tr := run fuel (init_st sch tp hl ex bs ql acts) cs in
  forall t, In t (tr_txs tr) -> tx_clock_code sch t = [].
Proof.
  intros fuel sch tp hl ex bs ql acts cs Hr Hex Ha Hcs Hff tr.
  destruct (run_main fuel sch tp hl ex bs ql acts cs Hr Hex Ha Hcs) as [_ [_ [_ [_ [_ P6]]]]].
  apply P6. exact Hff.
Qed.

Lemma flat_map_nil : forall (A B : Type) (f : A -> list B) l,
  (forall x, In x l -> f x = []) -> flat_map f l = [].
Proof.
  intros A B f l. induction l as [|x r IH]; intros H; [reflexivity|].
  simpl. rewrite (H x (or_introl eq_refl)). apply IH. intros y Hy. apply H. right. exact Hy.
Qed.

(* (5) C01 holds of every fault-free run of the model *)
Lemma c01_holds_lemma : forall fuel sch tp hl ex bs ql acts cs,
  refs_ok sch = true -> ex < length sch ->
  actions_in_range (length sch) acts = true -> calls_in_range (length sch) cs = true ->
  fault_free acts ->
  c01_ok sch (run fuel (init_st sch tp hl ex bs ql acts) cs) = true.
Proof.
  intros fuel sch tp hl ex bs ql acts cs Hr Hex Ha Hcs Hff.
  destruct (run_main fuel sch tp hl ex bs ql acts cs Hr Hex Ha Hcs) as [P1 [P2 [P3 [P4 [P5 P6]]]]].
  set (tr := run fuel (init_st sch tp hl ex bs ql acts) cs) in *.
  unfold co_par, hl_par, tx_par in *.
  unfold c01_ok, c01_codes. rewrite P1, P2, (flat_map_nil _ _ _ _ (P6 Hff)).
  destruct (tr_txs tr); destruct (tr_calls tr); try rewrite P4; try rewrite P5; reflexivity.
Qed.

(* ---- concrete instances ---- *)

Definition ex_mk (au mu : bool) (rq ad rm : list nat) : sdef :=
  {| s_auto := au; s_multi := mu; s_require := rq; s_add := ad; s_remove := rm; s_after := [] |}.
(* 0: A adds B; 1: B Multi; 2: C Auto, requires B, removes A; 3: Exception, Multi *)
Definition ex_sch : schema :=
  [ ex_mk false false [] [1] []; ex_mk false true [] [] []; ex_mk true false [1] [] [0];
    ex_mk false true [] [] [] ].
Definition ex_bs : list (list hkey) :=
  [[HEnter 0; HState 0; HExit 0; HEnd 0; HState 1; HAnyState; HAnyEnter; HSelf 1; HState 2; HEnter 2]].
Definition ex_act (cs : list api_call) (f : fault) : haction :=
  {| ha_ret := true; ha_calls := cs; ha_fault := f |}.
Definition ex_call (k : api_kind) (l : list nat) : api_call :=
  {| ac_kind := k; ac_states := l; ac_args := false |}.
Definition ex_cs : list api_call :=
  [ ex_call KAdd [0]; ex_call KAdd [1]; ex_call KRemove [2]; ex_call KCanRemove [1];
    ex_call KSet [1; 0]; ex_call KToggle [1]; ex_call KAddErr [] ].
(* fault-free script: nested Add and CanAdd from handlers *)
Definition ex_acts : list haction :=
  [ ex_act [ex_call KAdd [1]] FNone; ex_act [] FNone; ex_act [ex_call KCanAdd [2]] FNone ].
(* the third handler call (AState, a final handler) panics *)
Definition ex_acts_panic : list haction :=
  [ ex_act [] FNone; ex_act [] FNone; ex_act [] FPanic ].
Definition ex_init (acts : list haction) : st :=
  init_st ex_sch (topo_sort ex_sch [0; 1; 2; 3]) [] 3 ex_bs 1000 acts.

Lemma set_active_parity_nonvacuous_lemma :
  let cl := [1; 0; 3; 0]%N in
  NoDup [2; 1] /\ (forall x, In x [2; 1] -> x < length cl) /\
  parity_ok cl [0; 2] = true /\ NoDup [0; 2] /\
  set_active_clock ex_sch cl [0; 2] [1; 2] [2; 1] = [2; 1; 3; 0]%N /\
  set_active_clock ex_sch [1; 1; 0; 0]%N [0; 1] [1] [0; 1] = [1; 3; 0; 0]%N.
Proof.
  simpl. repeat split.
  - repeat constructor; simpl; intuition discriminate.
  - intros x [H|[H|[]]]; subst; repeat constructor.
  - repeat constructor; simpl; intuition discriminate.
Qed.

Lemma target_states_in_range_nonvacuous_lemma :
  let c := {| rc_schema := ex_sch; rc_before := [1]; rc_mtype := MAdd; rc_called := [0; 2];
              rc_topology := topo_sort ex_sch [0; 1; 2; 3] |} in
  refs_ok ex_sch = true /\ (forall x, In x [0; 2; 1] -> x < length ex_sch) /\
  target_states c [0; 2; 1] = [1; 2].
Proof.
  simpl. split; [reflexivity|]. split; [|reflexivity].
  intros x [H|[H|[H|[]]]]; subst; repeat constructor.
Qed.

Lemma ex_init_Inv : forall acts, actions_in_range 4 acts = true -> Inv (ex_init acts).
Proof.
  intros acts H. apply init_Inv; [reflexivity | repeat constructor | exact H].
Qed.

Lemma parity_invariant_step_nonvacuous_lemma :
  let s := ex_init ex_acts_panic in
  let mu := {| mu_type := MAdd; mu_called := [0]; mu_auto := false; mu_check := false;
               mu_args := false; mu_qtick := 2 |} in
  Inv s /\ (forall x, In x (mu_called mu) -> x < length (sc s)) /\
  length (txs (fst (run_tx s mu))) = 1 /\ length (hlog (fst (run_tx s mu))) = 3 /\
  clock (fst (run_tx s mu)) = [2; 2; 0; 0]%N /\ active (fst (run_tx s mu)) = [].
Proof.
  split; [apply ex_init_Inv; reflexivity|].
  split; [intros x [H|[]]; subst; repeat constructor|].
  vm_compute. repeat split.
Qed.

Lemma step_sizes_step_nonvacuous_lemma :
  let s := ex_init ex_acts in
  let mu := {| mu_type := MAdd; mu_called := [0]; mu_auto := false; mu_check := false;
               mu_args := false; mu_qtick := 2 |} in
  Inv s /\ (forall x, In x (mu_called mu) -> x < length (sc s)) /\
  fault_free (actions s) /\ loop_dead s = false /\
  length (txs (fst (run_tx s mu))) = 1 /\
  clock (fst (run_tx s mu)) = [1; 1; 0; 0]%N /\ active (fst (run_tx s mu)) = [0; 1].
Proof.
  split; [apply ex_init_Inv; reflexivity|].
  split; [intros x [H|[]]; subst; repeat constructor|].
  split; [reflexivity|]. vm_compute. repeat split.
Qed.

(* a run with a recovered panic in a final handler: parity and monotonicity
   hold, the trace is not trivial *)
Lemma parity_invariant_nonvacuous_lemma :
  let tr := run 200 (ex_init ex_acts_panic) ex_cs in
  refs_ok ex_sch = true /\ 3 < length ex_sch /\
  actions_in_range (length ex_sch) ex_acts_panic = true /\
  calls_in_range (length ex_sch) ex_cs = true /\
  length (tr_calls tr) = 7 /\ length (tr_txs tr) = 14 /\ length (tr_hlog tr) = 38 /\
  map co_err (tr_calls tr) = [2; 2; 2; 2; 2; 2; 1]%N /\
  map co_time (tr_calls tr)
  = [[2; 2; 0; 1]; [2; 3; 1; 1]; [2; 3; 3; 1]; [2; 3; 3; 1]; [4; 5; 5; 2]; [4; 6; 6; 2]; [4; 6; 6; 3]]%N /\
  map co_active (tr_calls tr) = [[3]; [3; 1; 2]; [3; 1; 2]; [3; 1; 2]; [1; 2]; []; [3]].
Proof.
  split; [reflexivity|]. split; [repeat constructor|]. vm_compute. repeat split.
Qed.

(* a fault-free run: 14 transitions, among them auto and check transitions,
   a canceled one and +2 steps of the Multi state B *)
Lemma c01_holds_nonvacuous_lemma :
  let tr := run 200 (ex_init ex_acts) ex_cs in
  refs_ok ex_sch = true /\ 3 < length ex_sch /\
  actions_in_range (length ex_sch) ex_acts = true /\
  calls_in_range (length ex_sch) ex_cs = true /\ fault_free ex_acts /\
  length (tr_txs tr) = 14 /\ length (tr_hlog tr) = 47 /\
  map co_time (tr_calls tr)
  = [[2; 3; 1; 0]; [2; 5; 1; 0]; [2; 5; 3; 0]; [2; 5; 3; 0]; [4; 7; 5; 0]; [4; 8; 6; 0]; [4; 8; 6; 1]]%N /\
  map co_active (tr_calls tr) = [[1; 2]; [1; 2]; [1; 2]; [1; 2]; [1; 2]; []; [3]] /\
  existsb (fun t => tx_check t) (tr_txs tr) = true /\
  existsb (fun t => tx_auto t) (tr_txs tr) = true /\
  existsb (fun t => negb (tx_accepted t)) (tr_txs tr) = true.
Proof.
  split; [reflexivity|]. split; [repeat constructor|]. vm_compute. repeat split.
Qed.

(* (4)/(5) need the fault-free hypothesis: after a recovered panic in a final
   handler the transition is recorded as not accepted although its ticks
   moved (and recoverFinalPhase ticked again) *)
Lemma c01_holds_faulty_refuted_lemma :
  exists fuel sch tp hl ex bs ql acts cs,
    refs_ok sch = true /\ ex < length sch /\
    actions_in_range (length sch) acts = true /\ calls_in_range (length sch) cs = true /\
    c01_codes sch (run fuel (init_st sch tp hl ex bs ql acts) cs) = [6%N] /\
    c01_ok sch (run fuel (init_st sch tp hl ex bs ql acts) cs) = false.
Proof.
  exists 200, ex_sch, (topo_sort ex_sch [0; 1; 2; 3]), [], 3, ex_bs, 1000%N, ex_acts_panic,
    [ex_call KAdd [0]].
  split; [reflexivity|]. split; [repeat constructor|]. vm_compute. repeat split.
Qed.

(* the side conditions, unfolded *)
Lemma calls_in_range_def_lemma : forall n cs,
  calls_in_range n cs = forallb (fun c => forallb (fun x => x <? n) (ac_states c)) cs.
Proof. reflexivity. Qed.

Lemma actions_in_range_def_lemma : forall n acts,
  actions_in_range n acts = forallb (fun a => calls_in_range n (ha_calls a)) acts.
Proof. reflexivity. Qed.

Lemma fault_free_def_lemma : forall acts,
  fault_free acts <->
  forallb (fun a => match ha_fault a with FNone => true | _ => false end) acts = true.
Proof. intros acts. unfold fault_free. tauto. Qed.
