(* C06 - "a binding leaves its index only by being closed": for the queue
   subscriptions (WhenQueue, WhenQueueEnds) and the state contexts this holds
   of every function of the manager model without any side condition, which
   gives their no-lost-wake-up theorems over ALL event lists (ended contexts,
   SetSchema and Dispose included). It does NOT hold of the When index (the
   double gc of Proofs/C06Proofs.when1_lost_refuted). Lemmas only. *)

From Coq Require Import List Bool Arith NArith ZArith Lia.
From AMV Require Import Base.ListSet Model.Subs Spec.C06.
From AMV Require Import Proofs.C06When.
Import ListNotations.

Definition keeps (s s' : sst) : Prop :=
  ss_crashed s' = ss_crashed s /\ ss_rets s' = ss_rets s /\
  (forall i, is_closed s i = true -> is_closed s' i = true) /\
  (forall p, In p (ss_wq s) -> In p (ss_wq s') \/ is_closed s' (fst p) = true) /\
  (forall i, In i (ss_qe s) -> In i (ss_qe s') \/ is_closed s' i = true) /\
  (forall x p, sctx_get (ss_sctx s) x = Some p ->
               sctx_get (ss_sctx s') x = Some p \/ is_closed s' (fst p) = true) /\
  ss_frozen s' = ss_frozen s /\
  (forall q, In q (ss_qb s) -> In q (ss_qb s') \/ is_closed s' (qb_id q) = true).

Lemma keeps_refl : forall s, keeps s s.
Proof. intros s. unfold keeps. repeat split; auto. Qed.

Lemma keeps_trans : forall s1 s2 s3, keeps s1 s2 -> keeps s2 s3 -> keeps s1 s3.
Proof.
  intros s1 s2 s3 [Z1 [A1 [B1 [C1 [D1 [E1 [F1 G1]]]]]]] [Z2 [A2 [B2 [C2 [D2 [E2 [F2 G2]]]]]]].
  split; [congruence|]. split; [congruence|]. split; [auto|]. split; [|split; [|split; [|split]]].
  - intros p Hp. destruct (C1 p Hp) as [H|H]; [apply C2; exact H | right; apply B2; exact H].
  - intros i Hi. destruct (D1 i Hi) as [H|H]; [apply D2; exact H | right; apply B2; exact H].
  - intros x p Hp. destruct (E1 x p Hp) as [H|H]; [apply E2; exact H | right; apply B2; exact H].
  - congruence.
  - intros q Hq. destruct (G1 q Hq) as [H|H]; [apply G2; exact H | right; apply B2; exact H].
Qed.

Lemma keeps_fold : forall (A : Type) (f : sst -> A -> sst),
  (forall s x, keeps s (f s x)) -> forall l s, keeps s (fold_left f l s).
Proof.
  intros A f Hf. induction l as [|x r IH]; intros s; simpl; [apply keeps_refl|].
  eapply keeps_trans; [apply Hf | apply IH].
Qed.

(* the setters *)

Lemma keeps_set_when : forall s wb wctx cl,
  (forall i, mem i (ss_closed s) = true -> mem i cl = true) -> keeps s (set_when s wb wctx cl).
Proof. intros s wb wctx cl H. unfold keeps, is_closed. psimpl. repeat split; auto. Qed.

Lemma keeps_set_time : forall s tb tctx cl,
  (forall i, mem i (ss_closed s) = true -> mem i cl = true) -> keeps s (set_time s tb tctx cl).
Proof. intros s tb tctx cl H. unfold keeps, is_closed. psimpl. repeat split; auto. Qed.

Lemma keeps_set_env : forall s fz dn dp, fz = ss_frozen s -> keeps s (set_env s fz dn dp).
Proof. intros. unfold keeps, is_closed. psimpl. repeat split; auto. Qed.

Lemma keeps_set_alloc : forall s n ac, keeps s (set_alloc s n ac).
Proof. intros. unfold keeps, is_closed. psimpl. repeat split; auto. Qed.

Lemma keeps_set_misc : forall s qb wq qe sctx cl cr,
  cr = ss_crashed s ->
  (forall i, mem i (ss_closed s) = true -> mem i cl = true) ->
  (forall p, In p (ss_wq s) -> In p wq \/ mem (fst p) cl = true) ->
  (forall i, In i (ss_qe s) -> In i qe \/ mem i cl = true) ->
  (forall x p, sctx_get (ss_sctx s) x = Some p -> sctx_get sctx x = Some p \/ mem (fst p) cl = true) ->
  (forall q, In q (ss_qb s) -> In q qb \/ mem (qb_id q) cl = true) ->
  keeps s (set_misc s qb wq qe sctx cl cr).
Proof. intros. unfold keeps, is_closed. psimpl. repeat split; auto. Qed.

(* ---- When structures *)

Lemma process_when_ctx_keeps : forall s, keeps s (process_when_ctx s).
Proof.
  intros s. unfold process_when_ctx. apply keeps_fold. intros st [c ids]. cbv beta iota.
  destruct (negb (mem c (ss_done st))); [apply keeps_refl|].
  apply (keeps_trans _ (set_when st (ss_wb st) (cdel (ss_wctx st) c) (ss_closed st))); [apply keeps_set_when; auto|].
  apply keeps_fold. intros st' id. cbv beta. destruct (find_wb (ss_wb st') id) as [b|]; [|apply keeps_refl].
  destruct (gc_when (ss_wb st') (ss_wctx st') b false) as [h wc].
  apply keeps_set_when. intros i Hi. apply close_mono. exact Hi.
Qed.

Lemma touch_wb_keeps : forall s id x act, keeps s (touch_wb s id x act).
Proof.
  intros s id x act. unfold touch_wb. destruct (find_wb (ss_wb s) id) as [b|]; [|apply keeps_refl].
  apply keeps_set_when. auto.
Qed.

Lemma complete_wb_keeps : forall s id, keeps s (complete_wb s id).
Proof.
  intros s id. unfold complete_wb. destruct (find_wb (ss_wb s) id) as [b|]; [|apply keeps_refl].
  match goal with |- context [if ?c then _ else _] => destruct c end; [apply keeps_refl|].
  match goal with |- context [gc_when ?h ?w ?bb ?g] => destruct (gc_when h w bb g) as [h2 wc] end.
  apply keeps_set_when. intros i Hi. apply close_mono. exact Hi.
Qed.

Lemma process_when_keeps : forall s act deact, keeps s (process_when s act deact).
Proof.
  intros s act deact. unfold process_when. cbv zeta.
  eapply keeps_trans; [apply process_when_ctx_keeps|].
  eapply keeps_trans; [|apply keeps_fold; apply complete_wb_keeps].
  apply keeps_fold. intros st x. unfold touch_state. apply keeps_fold. intros st' id. apply touch_wb_keeps.
Qed.

(* ---- WhenTime structures *)

Lemma process_time_ctx_keeps : forall s, keeps s (process_time_ctx s).
Proof.
  intros s. unfold process_time_ctx. apply keeps_fold. intros st [c ids]. cbv beta iota.
  destruct (negb (mem c (ss_done st))); [apply keeps_refl|].
  apply (keeps_trans _ (set_time st (ss_tb st) (cdel (ss_tctx st) c) (ss_closed st))); [apply keeps_set_time; auto|].
  apply keeps_fold. intros st' id. cbv beta. destruct (find_tb (ss_tb st') id) as [b|]; [|apply keeps_refl].
  destruct (gc_time (ss_tb st') (ss_tctx st') b false) as [h tc].
  apply keeps_set_time. intros i Hi. apply close_mono. exact Hi.
Qed.

Lemma visit_tb_keeps : forall s cl id x, keeps s (visit_tb s cl id x).
Proof.
  intros s cl id x. unfold visit_tb. destruct (find_tb (ss_tb s) id) as [b|]; [|apply keeps_refl].
  match goal with |- context [if ?c then _ else _] => destruct c end.
  - apply keeps_set_time. auto.
  - match goal with |- context [gc_time ?h ?w ?bb ?g] => destruct (gc_time h w bb g) as [h2 tc] end.
    apply keeps_set_time. intros i Hi. apply close_mono. exact Hi.
Qed.

Lemma process_when_time_keeps : forall s before live, keeps s (process_when_time s before live).
Proof.
  intros s before live. unfold process_when_time.
  eapply keeps_trans; [apply process_time_ctx_keeps|].
  apply keeps_fold. intros st x. apply keeps_fold. intros st' id. apply visit_tb_keeps.
Qed.

(* ---- the rest *)

Lemma process_when_queue_keeps : forall s qt, keeps s (process_when_queue s qt).
Proof.
  intros s qt. unfold process_when_queue. apply keeps_set_misc; auto.
  - intros i Hi. apply fold_close_hits_mono. exact Hi.
  - intros p Hp. destruct (snd p <=? qt)%N eqn:E.
    + right. clear -Hp E. revert Hp. generalize (ss_closed s) as cl. generalize (ss_wq s) as l.
      induction l as [|q r IH]; intros cl Hp; simpl in *; [contradiction|].
      destruct Hp as [Hp|Hp].
      * subst q. rewrite E. apply fold_close_hits_mono. apply close_self.
      * apply IH. exact Hp.
    + left. apply filter_In. split; [exact Hp|]. rewrite E. reflexivity.
Qed.

(* ProcessWhenQueue closes every binding whose tick has been reached *)
Lemma process_when_queue_closes : forall s qt id t,
  In (id, t) (ss_wq s) -> (t <=? qt)%N = true -> is_closed (process_when_queue s qt) id = true.
Proof.
  intros s qt id t Hin Ht. unfold process_when_queue, is_closed. psimpl.
  revert Hin. generalize (ss_closed s) as cl. generalize (ss_wq s) as l.
  induction l as [|q r IH]; intros cl Hin; simpl in *; [contradiction|].
  destruct Hin as [Hin|Hin].
  - subst q. cbn [snd fst]. rewrite Ht. apply fold_close_hits_mono. apply close_self.
  - apply IH. exact Hin.
Qed.

Lemma process_when_query_keeps : forall s live, keeps s (process_when_query s live).
Proof.
  intros s live. change (process_when_query s live)
    with (fold_left (pwq_step (sclock s live)) (ss_qb s) s).
  apply keeps_fold. intros st b. unfold pwq_step.
  destruct (ss_crashed st) eqn:Ec; [apply keeps_refl|].
  destruct (negb (qfn_eval (qb_fn b) (sclock s live)) && negb (ctx_done st (qb_ctx b))); [apply keeps_refl|].
  apply keeps_set_misc; auto.
  - intros i Hi. apply close_mono. exact Hi.
  - intros q Hq. destruct (Nat.eq_dec (qb_id q) (qb_id b)) as [Heq|Hne].
    + right. rewrite Heq. apply close_self.
    + left. apply filter_In. split; [exact Hq|]. apply negb_true_iff. apply Nat.eqb_neq. exact Hne.
Qed.

Lemma process_queue_ends_keeps : forall s, keeps s (process_queue_ends s).
Proof.
  intros s. unfold process_queue_ends. apply keeps_set_misc; auto.
  - intros i Hi. apply fold_close_mem. tauto.
  - intros i Hi. right. apply fold_close_mem. tauto.
Qed.

Lemma process_queue_ends_closes : forall s id,
  In id (ss_qe s) -> is_closed (process_queue_ends s) id = true.
Proof.
  intros s id Hin. unfold process_queue_ends, is_closed. psimpl. apply fold_close_mem. tauto.
Qed.

Lemma sctx_get_filter_ne : forall l x y, x <> y ->
  sctx_get (filter (fun p : nat * (nat * N) => negb (Nat.eqb (fst p) y)) l) x = sctx_get l x.
Proof.
  induction l as [|[k v] r IH]; intros x y Hne; simpl; [reflexivity|].
  destruct (Nat.eqb k y) eqn:E1; simpl.
  - apply Nat.eqb_eq in E1. subst k. destruct (Nat.eqb y x) eqn:E2.
    + apply Nat.eqb_eq in E2. congruence.
    + apply IH. exact Hne.
  - destruct (Nat.eqb k x); [reflexivity | apply IH; exact Hne].
Qed.

Definition psc_step (st : sst) (x : nat) : sst :=
  match sctx_get (ss_sctx st) x with
  | None => st
  | Some (id, _) =>
    set_misc st (ss_qb st) (ss_wq st) (ss_qe st)
             (filter (fun p => negb (Nat.eqb (fst p) x)) (ss_sctx st))
             (close (ss_closed st) id) (ss_crashed st)
  end.

Lemma psc_step_keeps : forall st x, keeps st (psc_step st x).
Proof.
  intros st x. unfold psc_step. destruct (sctx_get (ss_sctx st) x) as [[id t]|] eqn:E; [|apply keeps_refl].
  apply keeps_set_misc; auto.
  - intros i Hi. apply close_mono. exact Hi.
  - intros y p Hp. destruct (Nat.eq_dec y x) as [Heq|Hne].
    + subst y. rewrite E in Hp. inversion Hp. subst p. right. cbn [fst]. apply close_self.
    + left. rewrite sctx_get_filter_ne by exact Hne. exact Hp.
Qed.

Lemma process_state_ctx_keeps : forall s act deact, keeps s (process_state_ctx s act deact).
Proof.
  intros s act deact. change (process_state_ctx s act deact) with (fold_left psc_step (act ++ deact) s).
  apply keeps_fold. apply psc_step_keeps.
Qed.

(* ProcessStateCtx cancels the context of every activated / deactivated state *)
Lemma process_state_ctx_closes : forall l s x id t,
  sctx_get (ss_sctx s) x = Some (id, t) -> In x l ->
  is_closed (fold_left psc_step l s) id = true.
Proof.
  induction l as [|y r IH]; intros s x id t Hg Hin; simpl in *; [contradiction|].
  destruct (Nat.eq_dec y x) as [Heq|Hne].
  - subst y. assert (Hc : is_closed (psc_step s x) id = true).
    { unfold psc_step. rewrite Hg. unfold is_closed. psimpl. apply close_self. }
    destruct (keeps_fold _ psc_step psc_step_keeps r (psc_step s x)) as [_ [_ [Hm _]]]. apply Hm. exact Hc.
  - destruct Hin as [Hin|Hin]; [congruence|].
    destruct (psc_step_keeps s y) as [_ [_ [_ [_ [_ [Hk _]]]]]].
    destruct (Hk x (id, t) Hg) as [H|H].
    + eapply IH; eassumption.
    + destruct (keeps_fold _ psc_step psc_step_keeps r (psc_step s y)) as [_ [_ [Hm _]]]. apply Hm. exact H.
Qed.

Lemma dispose_keeps : forall s, keeps s (dispose s).
Proof.
  intros s. unfold dispose.
  eapply keeps_trans; [|apply keeps_set_env; reflexivity].
  match goal with |- keeps s (set_misc s _ _ _ _ ?cl _) => set (cl5 := cl) end.
  assert (Hmono : forall (A : Type) (f : list nat -> A -> list nat),
            (forall cl x i, mem i cl = true -> mem i (f cl x) = true) ->
            forall l cl i, mem i cl = true -> mem i (fold_left f l cl) = true).
  { intros A f Hf. induction l as [|x r IH]; intros cl i Hi; simpl; [exact Hi|]. apply IH. apply Hf. exact Hi. }
  assert (H5 : forall i, mem i (ss_closed s) = true -> mem i cl5 = true).
  { intros i Hi. unfold cl5.
    apply Hmono; [intros cl b j Hj; apply close_mono; exact Hj|].
    apply fold_close_mem. left.
    apply fold_close_mem. left.
    apply Hmono; [intros cl p j Hj; apply close_mono; exact Hj|].
    apply Hmono; [intros cl b j Hj; destruct (tb_idx b); [exact Hj | apply close_mono; exact Hj]|].
    apply Hmono; [intros cl b j Hj; destruct (wb_idx b); [exact Hj | apply close_mono; exact Hj]|].
    exact Hi. }
  apply keeps_set_misc; auto.
Qed.

Lemma sctx_get_app : forall l x p l', sctx_get l x = Some p -> sctx_get (l ++ l') x = Some p.
Proof.
  induction l as [|[k v] r IH]; intros x p l' H; simpl in *; [discriminate|].
  destruct (Nat.eqb k x); [exact H | apply IH; exact H].
Qed.

Lemma sub_when_keeps : forall s v neg sts ctx, keeps s (fst (sub_when s v neg sts ctx)).
Proof.
  intros s v neg sts ctx. unfold sub_when. cbv zeta.
  match goal with |- context [if ?c then _ else _] => destruct c end; [apply keeps_refl|].
  destruct (reuse_when s neg sts ctx); [apply keeps_refl|]. cbn [fst].
  eapply keeps_trans; [|apply keeps_set_alloc]. apply keeps_set_when. auto.
Qed.

Lemma sub_time_keeps : forall s cl sts times ctx, keeps s (fst (sub_time s cl sts times ctx)).
Proof.
  intros s cl sts times ctx. unfold sub_time.
  destruct (reuse_time s sts times ctx); [apply keeps_refl|].
  match goal with |- context [if ?c then _ else _] => destruct c end; [apply keeps_refl|]. cbn [fst].
  eapply keeps_trans; [|apply keeps_set_alloc]. apply keeps_set_time. auto.
Qed.

Lemma do_op_keeps : forall s v o, keeps s (fst (do_op s v o)).
Proof.
  intros s v o. destruct o; unfold do_op.
  - destruct (ss_disposed s); [apply keeps_refl|]. destruct (negb (known v sts)); [apply keeps_refl|].
    apply sub_when_keeps.
  - destruct (ss_disposed s); [apply keeps_refl|]. destruct (negb (known v sts)); [apply keeps_refl|].
    apply sub_when_keeps.
  - destruct (ss_disposed s); [apply keeps_refl | apply sub_time_keeps].
  - destruct (ss_disposed s); [apply keeps_refl | apply sub_time_keeps].
  - destruct (ss_disposed s); [apply keeps_refl | apply sub_time_keeps].
  - destruct (ss_disposed s || ctx_done s ctx); [apply keeps_refl|].
    assert (K : keeps s (set_alloc (set_misc s (ss_qb s ++ [{| qb_id := ss_next s; qb_fn := f; qb_ctx := ctx |}])
                                   (ss_wq s) (ss_qe s) (ss_sctx s) (ss_closed s) (ss_crashed s))
                                   (S (ss_next s)) (ss_allctx s))).
    { eapply keeps_trans; [|apply keeps_set_alloc]. apply keeps_set_misc; auto.
      intros q Hq. left. apply in_or_app. left. exact Hq. }
    exact K.
  - destruct (ss_disposed s || (tick <=? v_qtick v)%N); [apply keeps_refl|]. cbn [fst].
    eapply keeps_trans; [|apply keeps_set_alloc]. apply keeps_set_misc; auto.
    intros p Hp. left. apply in_or_app. left. exact Hp.
  - destruct (ss_disposed s || negb (v_running v)); [apply keeps_refl|]. cbn [fst].
    eapply keeps_trans; [|apply keeps_set_alloc]. apply keeps_set_misc; auto.
    intros i Hi. left. apply in_or_app. left. exact Hi.
  - destruct (negb (known v [s0])); [apply keeps_refl|].
    destruct (sctx_get (ss_sctx s) s0) as [[id t0]|] eqn:E; [apply keeps_refl|]. cbn [fst].
    eapply keeps_trans; [|apply keeps_set_alloc]. apply keeps_set_misc; auto.
    intros x p Hp. left. apply sctx_get_app. exact Hp.
  - cbn [fst]. apply keeps_set_env. reflexivity.
  - cbn [fst]. apply keeps_refl.
  - cbn [fst]. apply dispose_keeps.
  - apply keeps_refl.
Qed.

(* every step but the return-value bookkeeping of an API call *)
Definition keeps' (s s' : sst) : Prop :=
  ss_crashed s' = ss_crashed s /\
  (forall i, is_closed s i = true -> is_closed s' i = true) /\
  (forall p, In p (ss_wq s) -> In p (ss_wq s') \/ is_closed s' (fst p) = true) /\
  (forall i, In i (ss_qe s) -> In i (ss_qe s') \/ is_closed s' i = true) /\
  (forall x p, sctx_get (ss_sctx s) x = Some p ->
               sctx_get (ss_sctx s') x = Some p \/ is_closed s' (fst p) = true) /\
  ss_frozen s' = ss_frozen s /\
  (forall q, In q (ss_qb s) -> In q (ss_qb s') \/ is_closed s' (qb_id q) = true).

Lemma keeps_keeps' : forall s s', keeps s s' -> keeps' s s'.
Proof. intros s s' [Z [_ H]]. split; [exact Z | exact H]. Qed.

Lemma keeps'_trans : forall s1 s2 s3, keeps' s1 s2 -> keeps' s2 s3 -> keeps' s1 s3.
Proof.
  intros s1 s2 s3 [Z1 [B1 [C1 [D1 [E1 [F1 G1]]]]]] [Z2 [B2 [C2 [D2 [E2 [F2 G2]]]]]].
  split; [congruence|]. split; [auto|]. split; [|split; [|split; [|split]]].
  - intros p Hp. destruct (C1 p Hp) as [H|H]; [apply C2; exact H | right; apply B2; exact H].
  - intros i Hi. destruct (D1 i Hi) as [H|H]; [apply D2; exact H | right; apply B2; exact H].
  - intros x p Hp. destruct (E1 x p Hp) as [H|H]; [apply E2; exact H | right; apply B2; exact H].
  - congruence.
  - intros q Hq. destruct (G1 q Hq) as [H|H]; [apply G2; exact H | right; apply B2; exact H].
Qed.

Lemma process_subs_keeps : forall s act deact before live qt,
  keeps s (process_subs s act deact before live qt).
Proof.
  intros. unfold process_subs.
  eapply keeps_trans; [apply process_when_keeps|].
  eapply keeps_trans; [apply process_when_time_keeps|].
  eapply keeps_trans; [apply process_when_queue_keeps|].
  apply process_when_query_keeps.
Qed.

Lemma step_keeps' : forall s e, keeps' s (step s e).
Proof.
  intros s e. unfold step. destruct (ss_crashed s); [apply keeps_keeps'; apply keeps_refl|].
  destruct e as [k v o|act deact|act deact before live qt| |v p| |qt0].
  - pose proof (do_op_keeps s v o) as K. destruct (do_op s v o) as [s1 r]. cbn [fst] in K.
    apply keeps_keeps' in K. exact K.
  - apply keeps_keeps'. apply process_state_ctx_keeps.
  - apply keeps_keeps'. apply process_subs_keeps.
  - apply keeps_keeps'. apply process_queue_ends_keeps.
  - apply keeps_keeps'. apply keeps_refl.
  - apply keeps_keeps'. apply keeps_refl.
  - apply keeps_keeps'. apply process_when_queue_keeps.
Qed.

Lemma run_keeps' : forall es s, keeps' s (run s es).
Proof.
  induction es as [|e r IH]; intros s; [apply keeps_keeps'; apply keeps_refl|].
  rewrite run_cons. eapply keeps'_trans; [apply step_keeps' | apply IH].
Qed.

(* return values: only API calls add entries *)
Lemma step_rets : forall s e,
  match e with
  | EOp k v o => ss_crashed s = false -> ss_rets (step s e) = (k, snd (do_op s v o)) :: ss_rets s
  | _ => ss_rets (step s e) = ss_rets s
  end.
Proof.
  intros s e. destruct e as [k v o|act deact|act deact before live qt| |v p| |qt0]; unfold step.
  - intros Hc. rewrite Hc. pose proof (do_op_keeps s v o) as [_ [K _]]. destruct (do_op s v o) as [s1 r].
    cbn [fst snd] in *. psimpl. rewrite K. reflexivity.
  - destruct (ss_crashed s); [reflexivity|]. apply process_state_ctx_keeps.
  - destruct (ss_crashed s); [reflexivity|]. apply process_subs_keeps.
  - destruct (ss_crashed s); [reflexivity|]. apply process_queue_ends_keeps.
  - destruct (ss_crashed s); reflexivity.
  - destruct (ss_crashed s); reflexivity.
  - destruct (ss_crashed s); [reflexivity|]. apply process_when_queue_keeps.
Qed.

Lemma run_crashed : forall es s, ss_crashed s = true -> run s es = s.
Proof.
  induction es as [|e r IH]; intros s H; [reflexivity|]. rewrite run_cons.
  assert (step s e = s) by (unfold step; rewrite H; reflexivity). rewrite H0. apply IH. exact H.
Qed.

Lemma ret_stable_all : forall post s k, fresh_k k post ->
  ret_of (ss_rets (run s post)) k = ret_of (ss_rets s) k.
Proof.
  induction post as [|e r IH]; intros s k Hf; [reflexivity|]. rewrite run_cons.
  rewrite IH by (intros e' He'; apply Hf; right; exact He').
  pose proof (step_rets s e) as H. destruct e as [k' v o| | | | | |]; try (rewrite H; reflexivity).
  destruct (ss_crashed s) eqn:Ec.
  - unfold step. rewrite Ec. reflexivity.
  - rewrite (H eq_refl). cbn [ret_of].
    assert (k <> k'). { intros E. subst. apply (Hf (EOp k' v o)); [left; reflexivity | reflexivity]. }
    apply Nat.eqb_neq in H0. rewrite H0. reflexivity.
Qed.

Lemma closed_zero : forall es, is_closed (run init_sst es) 0 = true.
Proof. intros es. destruct (run_keeps' es init_sst) as [_ [H _]]. apply H. reflexivity. Qed.

(* ------------------------------------------------------------ the theorems *)

Lemma not_crashed_prefix : forall l1 l2 s,
  ss_crashed (run s (l1 ++ l2)) = false -> ss_crashed (run s l1) = false.
Proof.
  intros l1 l2 s H. destruct (ss_crashed (run s l1)) eqn:E; [|reflexivity].
  rewrite run_app, (run_crashed l2 _ E) in H. congruence.
Qed.

(* a WhenQueue binding in the index is closed by the first processSubscriptions
   whose queue tick reaches it *)
Lemma wq_track : forall post s id t,
  In (id, t) (ss_wq s) \/ is_closed s id = true ->
  ss_crashed (run s post) = false ->
  processed_with (fun qt => (t <=? qt)%N) post = true ->
  is_closed (run s post) id = true.
Proof.
  induction post as [|e r IH]; intros s id t Hin Hnc Hp; [discriminate|].
  rewrite run_cons in *.
  assert (Hc : ss_crashed s = false).
  { destruct (ss_crashed s) eqn:E; [|reflexivity].
    assert (step s e = s) by (unfold step; rewrite E; reflexivity).
    rewrite H, (run_crashed r s E) in Hnc. congruence. }
  destruct Hin as [Hin|Hin].
  2: { destruct (run_keeps' r (step s e)) as [_ [Hm _]]. apply Hm.
       destruct (step_keeps' s e) as [_ [Hm' _]]. apply Hm'. exact Hin. }
  destruct (step_keeps' s e) as [_ [_ [Hk _]]]. destruct (Hk (id, t) Hin) as [Hk1|Hk1].
  2: { destruct (run_keeps' r (step s e)) as [_ [Hm _]]. apply Hm. exact Hk1. }
  destruct e as [k v o|act deact|act deact before live qt| |v p| |qt0]; cbn [processed_with] in Hp;
    try (apply (IH _ id t); [left; exact Hk1 | exact Hnc | exact Hp]).
  - destruct (t <=? qt)%N eqn:Et; cbn [orb] in Hp;
      [|apply (IH _ id t); [left; exact Hk1 | exact Hnc | exact Hp]].
    (* the tick is reached by this processSubscriptions *)
    destruct (run_keeps' r (step s (EProcess act deact before live qt))) as [_ [Hm _]]. apply Hm.
    unfold step. rewrite Hc. unfold process_subs.
    destruct (process_when_query_keeps
                (process_when_queue (process_when_time (process_when s act deact) before live) qt) live)
      as [_ [_ [Hm2 _]]]. apply Hm2.
    destruct (keeps_trans _ _ _ (process_when_keeps s act deact)
                (process_when_time_keeps (process_when s act deact) before live)) as [_ [_ [_ [Hk2 _]]]].
    destruct (Hk2 (id, t) Hin) as [H|H].
    + eapply process_when_queue_closes; eassumption.
    + destruct (process_when_queue_keeps (process_when_time (process_when s act deact) before live) qt)
        as [_ [_ [Hm3 _]]]. apply Hm3. exact H.
  - (* the ProcessWhenQueue of a canceled transition *)
    destruct (t <=? qt0)%N eqn:Et; cbn [orb] in Hp;
      [|apply (IH _ id t); [left; exact Hk1 | exact Hnc | exact Hp]].
    destruct (run_keeps' r (step s (EQueueTick qt0))) as [_ [Hm _]]. apply Hm.
    unfold step. rewrite Hc. eapply process_when_queue_closes; eassumption.
Qed.

Lemma crashed_step : forall s e r, ss_crashed (run s (e :: r)) = false -> ss_crashed s = false.
Proof.
  intros s e r H. destruct (ss_crashed s) eqn:E; [|reflexivity].
  rewrite (run_crashed (e :: r) s E) in H. congruence.
Qed.

Lemma qe_track : forall post s id,
  In id (ss_qe s) \/ is_closed s id = true ->
  ss_crashed (run s post) = false -> In EQueueEnd post ->
  is_closed (run s post) id = true.
Proof.
  induction post as [|e r IH]; intros s id Hin Hnc Hp; [contradiction|].
  pose proof (crashed_step _ _ _ Hnc) as Hc. rewrite run_cons in *.
  destruct Hin as [Hin|Hin].
  2: { destruct (run_keeps' r (step s e)) as [_ [Hm _]]. apply Hm.
       destruct (step_keeps' s e) as [_ [Hm' _]]. apply Hm'. exact Hin. }
  destruct Hp as [Hp|Hp].
  - subst e. destruct (run_keeps' r (step s EQueueEnd)) as [_ [Hm _]]. apply Hm.
    unfold step. rewrite Hc. apply process_queue_ends_closes. exact Hin.
  - destruct (step_keeps' s e) as [_ [_ [_ [Hk _]]]]. destruct (Hk id Hin) as [Hk1|Hk1].
    + apply IH; [left; exact Hk1 | exact Hnc | exact Hp].
    + apply IH; [right; exact Hk1 | exact Hnc | exact Hp].
Qed.

Lemma sc_track : forall post s x id t,
  sctx_get (ss_sctx s) x = Some (id, t) \/ is_closed s id = true ->
  ss_crashed (run s post) = false -> ctx_touched x post = true ->
  is_closed (run s post) id = true.
Proof.
  induction post as [|e r IH]; intros s x id t Hin Hnc Hp; [discriminate|].
  pose proof (crashed_step _ _ _ Hnc) as Hc. rewrite run_cons in *.
  destruct Hin as [Hin|Hin].
  2: { destruct (run_keeps' r (step s e)) as [_ [Hm _]]. apply Hm.
       destruct (step_keeps' s e) as [_ [Hm' _]]. apply Hm'. exact Hin. }
  destruct (step_keeps' s e) as [_ [_ [_ [_ [Hk _]]]]]. destruct (Hk x (id, t) Hin) as [Hk1|Hk1].
  2: { destruct (run_keeps' r (step s e)) as [_ [Hm _]]. apply Hm. exact Hk1. }
  destruct e as [k v o|act deact|act deact before live qt| |v p| |qt0]; cbn [ctx_touched] in Hp;
    try (apply (IH _ x id t); [left; exact Hk1 | exact Hnc | exact Hp]).
  destruct (mem x (act ++ deact)) eqn:Em; cbn [orb] in Hp;
    [|apply (IH _ x id t); [left; exact Hk1 | exact Hnc | exact Hp]].
  destruct (run_keeps' r (step s (EStateCtx act deact))) as [_ [Hm _]]. apply Hm.
  unfold step. rewrite Hc.
  change (process_state_ctx s act deact) with (fold_left psc_step (act ++ deact) s).
  eapply process_state_ctx_closes; [exact Hin | apply mem_In; exact Em].
Qed.

(* ---- statements *)

Lemma split_run : forall pre e post,
  run init_sst (pre ++ e :: post) = run (step (run init_sst pre) e) post.
Proof. intros. rewrite run_app, run_cons. reflexivity. Qed.

Lemma closed_of_after : forall pre k v o post,
  fresh_k k post -> ss_crashed (run init_sst (pre ++ EOp k v o :: post)) = false ->
  let s1 := run init_sst pre in
  ss_crashed s1 = false /\
  closed_of (run init_sst (pre ++ EOp k v o :: post)) k
  = match snd (do_op s1 v o) with
    | RChan id | RCtx id _ => is_closed (run (step s1 (EOp k v o)) post) id
    | _ => false
    end.
Proof.
  intros pre k v o post Hf Hnc s1.
  assert (Hc1 : ss_crashed s1 = false) by (eapply not_crashed_prefix; exact Hnc).
  split; [exact Hc1|]. rewrite split_run. fold s1. unfold closed_of.
  rewrite (ret_stable_all post _ k Hf).
  pose proof (step_rets s1 (EOp k v o)) as Hr. cbv beta iota in Hr. rewrite (Hr Hc1).
  cbn [ret_of]. rewrite Nat.eqb_refl. reflexivity.
Qed.

(* WhenQueue: no lost wake-up *)
Theorem whenqueue_no_lost_lemma : forall pre k v t post,
  let es := pre ++ EOp k v (OWhenQueue t) :: post in
  fresh_k k post -> ss_crashed (run init_sst es) = false ->
  (t <=? v_qtick v)%N || processed_with (fun qt => (t <=? qt)%N) post = true ->
  closed_of (run init_sst es) k = true.
Proof.
  intros pre k v t post es Hf Hnc Hcond. subst es.
  destruct (closed_of_after pre k v (OWhenQueue t) post Hf Hnc) as [Hc1 Hcl]. rewrite Hcl. clear Hcl.
  pose proof (closed_zero (pre ++ EOp k v (OWhenQueue t) :: post)) as Hz.
  rewrite split_run in Hnc, Hz. set (s1 := run init_sst pre) in *.
  assert (Hstep : step s1 (EOp k v (OWhenQueue t))
                  = add_ret (fst (do_op s1 v (OWhenQueue t))) k (snd (do_op s1 v (OWhenQueue t))))
    by (apply step_op; exact Hc1).
  unfold do_op in *. destruct (ss_disposed s1 || (t <=? v_qtick v)%N) eqn:E; cbn [fst snd] in *; [exact Hz|].
  apply orb_false_iff in E. destruct E as [_ E]. rewrite E in Hcond. cbn [orb] in Hcond.
  eapply wq_track; [|exact Hnc|exact Hcond]. left.
  rewrite Hstep. psimpl. apply in_or_app. right. left. reflexivity.
Qed.

(* WhenQueueEnds: closed at once on an idle machine, else by the next queue end *)
Theorem whenqueueends_lemma : forall pre k v post,
  let es := pre ++ EOp k v OWhenQueueEnds :: post in
  fresh_k k post -> ss_crashed (run init_sst es) = false ->
  v_running v = false \/ In EQueueEnd post ->
  closed_of (run init_sst es) k = true.
Proof.
  intros pre k v post es Hf Hnc Hcond. subst es.
  destruct (closed_of_after pre k v OWhenQueueEnds post Hf Hnc) as [Hc1 Hcl]. rewrite Hcl. clear Hcl.
  pose proof (closed_zero (pre ++ EOp k v OWhenQueueEnds :: post)) as Hz.
  rewrite split_run in Hnc, Hz. set (s1 := run init_sst pre) in *.
  assert (Hstep : step s1 (EOp k v OWhenQueueEnds)
                  = add_ret (fst (do_op s1 v OWhenQueueEnds)) k (snd (do_op s1 v OWhenQueueEnds)))
    by (apply step_op; exact Hc1).
  unfold do_op in *. destruct (ss_disposed s1 || negb (v_running v)) eqn:E; cbn [fst snd] in *; [exact Hz|].
  apply orb_false_iff in E. destruct E as [_ E]. apply negb_false_iff in E.
  destruct Hcond as [Hcond|Hcond]; [congruence|].
  eapply qe_track; [|exact Hnc|exact Hcond]. left.
  rewrite Hstep. psimpl. apply in_or_app. right. left. reflexivity.
Qed.

(* state contexts: canceled by the next ProcessStateCtx that lists the state *)
Theorem statectx_no_lost_lemma : forall pre k v x post,
  let es := pre ++ EOp k v (ONewStateCtx x) :: post in
  fresh_k k post -> ss_crashed (run init_sst es) = false -> known v [x] = true ->
  ctx_touched x post = true ->
  closed_of (run init_sst es) k = true.
Proof.
  intros pre k v x post es Hf Hnc Hk Hcond. subst es.
  destruct (closed_of_after pre k v (ONewStateCtx x) post Hf Hnc) as [Hc1 Hcl]. rewrite Hcl. clear Hcl.
  rewrite split_run in Hnc. set (s1 := run init_sst pre) in *.
  assert (Hstep : step s1 (EOp k v (ONewStateCtx x))
                  = add_ret (fst (do_op s1 v (ONewStateCtx x))) k (snd (do_op s1 v (ONewStateCtx x))))
    by (apply step_op; exact Hc1).
  unfold do_op in *. rewrite Hk in *. cbn [negb] in *.
  destruct (sctx_get (ss_sctx s1) x) as [[id t0]|] eqn:E; cbn [fst snd] in *.
  - eapply sc_track; [|exact Hnc|exact Hcond]. left. rewrite Hstep. psimpl. exact E.
  - eapply sc_track; [|exact Hnc|exact Hcond]. left. rewrite Hstep. psimpl.
    assert (G : forall l, sctx_get l x = None ->
              sctx_get (l ++ [(x, (ss_next s1, tick_of (sclock s1 (v_clock v)) x))]) x
              = Some (ss_next s1, tick_of (sclock s1 (v_clock v)) x)).
    { induction l as [|[k0 v0] r IH]; intros H; simpl in *; [rewrite Nat.eqb_refl; reflexivity|].
      destruct (Nat.eqb k0 x); [discriminate | apply IH; exact H]. }
    apply G. exact E.
Qed.

(* the other direction, function level: ProcessStateCtx cancels nothing but
   contexts of listed states *)
Lemma process_state_ctx_only : forall l s i,
  is_closed (fold_left psc_step l s) i = true ->
  is_closed s i = true \/
  exists x t, In x l /\ In (x, (i, t)) (ss_sctx s).
Proof.
  induction l as [|y r IH]; intros s i H; simpl in H; [tauto|].
  destruct (IH _ _ H) as [H1|[x [t [Hx Hi]]]].
  - unfold psc_step in H1. destruct (sctx_get (ss_sctx s) y) as [[id t]|] eqn:E; [|tauto].
    unfold is_closed in H1. psimpl. apply close_mem in H1. destruct H1 as [H1|H1]; [|tauto].
    subst i. right. exists y, t. split; [left; reflexivity | apply sctx_get_In; exact E].
  - right. exists x, t. split; [right; exact Hx|].
    unfold psc_step in Hi. destruct (sctx_get (ss_sctx s) y) as [[id t']|]; [|exact Hi].
    psimpl. apply filter_In in Hi. tauto.
Qed.

(* ------------------------------------------------------------ no crash, live clock *)

Lemma run_not_crashed : forall es, ss_crashed (run init_sst es) = false.
Proof. intros es. destruct (run_keeps' es init_sst) as [H _]. rewrite H. reflexivity. Qed.

Lemma run_frozen : forall es s, ss_frozen (run s es) = ss_frozen s.
Proof. intros es s. destruct (run_keeps' es s) as [_ [_ [_ [_ [_ [H _]]]]]]. exact H. Qed.

(* ------------------------------------------------------------ WhenQuery *)

Lemma pwq_fold_closes : forall cl l st q,
  ss_crashed st = false -> qfn_eval (qb_fn q) cl = true ->
  In q l -> is_closed (fold_left (pwq_step cl) l st) (qb_id q) = true.
Proof.
  intros cl. induction l as [|b r IH]; intros st q Hc Hf Hin; simpl in *; [contradiction|].
  assert (Hk : forall st b, keeps st (pwq_step cl st b)).
  { intros st0 b0. unfold pwq_step. destruct (ss_crashed st0) eqn:Ec; [apply keeps_refl|].
    destruct (negb (qfn_eval (qb_fn b0) cl) && negb (ctx_done st0 (qb_ctx b0))); [apply keeps_refl|].
    apply keeps_set_misc; auto.
    - intros i Hi. apply close_mono. exact Hi.
    - intros q0 Hq0. destruct (Nat.eq_dec (qb_id q0) (qb_id b0)) as [Heq|Hne].
      + right. rewrite Heq. apply close_self.
      + left. apply filter_In. split; [exact Hq0|]. apply negb_true_iff. apply Nat.eqb_neq. exact Hne. }
  destruct Hin as [Hin|Hin].
  - subst b. destruct (keeps_fold _ (pwq_step cl) Hk r (pwq_step cl st q)) as [_ [_ [Hm _]]]. apply Hm.
    unfold pwq_step. rewrite Hc, Hf. cbn [negb andb]. unfold is_closed. psimpl. apply close_self.
  - apply IH; [|exact Hf|exact Hin]. destruct (Hk st b) as [Z _]. congruence.
Qed.

(* ProcessWhenQuery closes every binding whose predicate holds on sm.clock *)
Lemma process_when_query_closes : forall s live q,
  ss_crashed s = false -> In q (ss_qb s) -> qfn_eval (qb_fn q) (sclock s live) = true ->
  is_closed (process_when_query s live) (qb_id q) = true.
Proof.
  intros s live q Hc Hin Hf. change (process_when_query s live)
    with (fold_left (pwq_step (sclock s live)) (ss_qb s) s).
  apply pwq_fold_closes; assumption.
Qed.

Lemma sclock_live : forall s live, ss_frozen s = None -> sclock s live = live.
Proof. intros s live H. unfold sclock. rewrite H. reflexivity. Qed.

Lemma qb_track : forall post s q,
  In q (ss_qb s) \/ is_closed s (qb_id q) = true ->
  ss_crashed s = false -> ss_frozen s = None ->
  query_held (qb_fn q) post = true ->
  is_closed (run s post) (qb_id q) = true.
Proof.
  induction post as [|e r IH]; intros s q Hin Hc Hfz Hp; [discriminate|].
  rewrite run_cons.
  destruct (step_keeps' s e) as [Hc' [Hm' [_ [_ [_ [Hfz' Hk]]]]]].
  assert (Hc2 : ss_crashed (step s e) = false) by congruence.
  assert (Hfz2 : ss_frozen (step s e) = None) by congruence.
  destruct Hin as [Hin|Hin].
  2: { destruct (run_keeps' r (step s e)) as [_ [Hm _]]. apply Hm. apply Hm'. exact Hin. }
  destruct (Hk q Hin) as [Hk1|Hk1].
  2: { destruct (run_keeps' r (step s e)) as [_ [Hm _]]. apply Hm. exact Hk1. }
  destruct e as [k v o|act deact|act deact before live qt| |v p| |qt0]; cbn [query_held] in Hp;
    try (apply IH; [left; exact Hk1 | exact Hc2 | exact Hfz2 | exact Hp]).
  destruct (qfn_eval (qb_fn q) live) eqn:Ef; cbn [orb] in Hp;
    [|apply IH; [left; exact Hk1 | exact Hc2 | exact Hfz2 | exact Hp]].
  destruct (run_keeps' r (step s (EProcess act deact before live qt))) as [_ [Hm _]]. apply Hm.
  unfold step. rewrite Hc. unfold process_subs.
  set (s3 := process_when_queue (process_when_time (process_when s act deact) before live) qt).
  assert (K3 : keeps s s3).
  { eapply keeps_trans; [apply process_when_keeps|].
    eapply keeps_trans; [apply process_when_time_keeps | apply process_when_queue_keeps]. }
  destruct K3 as [Z3 [_ [_ [_ [_ [_ [F3 Q3]]]]]]].
  destruct (Q3 q Hin) as [H|H].
  - apply process_when_query_closes; [congruence | exact H |].
    rewrite sclock_live by congruence. exact Ef.
  - destruct (process_when_query_keeps s3 live) as [_ [_ [Hm3 _]]]. apply Hm3. exact H.
Qed.

(* WhenQuery, with or without a context: closed once a later
   processSubscriptions finds the predicate true *)
Theorem whenquery_no_lost_lemma : forall pre k v f ctx post,
  let es := pre ++ EOp k v (OWhenQuery f ctx) :: post in
  fresh_k k post -> query_held f post = true ->
  closed_of (run init_sst es) k = true.
Proof.
  intros pre k v f ctx post es Hf Hcond. subst es.
  pose proof (run_not_crashed (pre ++ EOp k v (OWhenQuery f ctx) :: post)) as Hnc.
  destruct (closed_of_after pre k v (OWhenQuery f ctx) post Hf Hnc) as [Hc1 Hcl]. rewrite Hcl. clear Hcl.
  pose proof (closed_zero (pre ++ EOp k v (OWhenQuery f ctx) :: post)) as Hz.
  rewrite split_run in Hz.
  pose proof (run_frozen pre init_sst) as Hfz. cbn [ss_frozen init_sst] in Hfz.
  set (s1 := run init_sst pre) in *.
  assert (Hstep : step s1 (EOp k v (OWhenQuery f ctx))
                  = add_ret (fst (do_op s1 v (OWhenQuery f ctx))) k (snd (do_op s1 v (OWhenQuery f ctx))))
    by (apply step_op; exact Hc1).
  unfold do_op in *. destruct (ss_disposed s1 || ctx_done s1 ctx) eqn:E; cbn [fst snd] in *; [exact Hz|].
  set (q := {| qb_id := ss_next s1; qb_fn := f; qb_ctx := ctx |}).
  apply (qb_track post _ q).
  - left. rewrite Hstep. psimpl. apply in_or_app. right. left. reflexivity.
  - rewrite Hstep. psimpl. exact Hc1.
  - rewrite Hstep. psimpl. exact Hfz.
  - exact Hcond.
Qed.

(* ---- the queue / context theorems without the no-crash hypothesis *)

Theorem whenqueue_no_lost_lemma' : forall pre k v t post,
  let es := pre ++ EOp k v (OWhenQueue t) :: post in
  fresh_k k post ->
  (t <=? v_qtick v)%N || processed_with (fun qt => (t <=? qt)%N) post = true ->
  closed_of (run init_sst es) k = true.
Proof. intros. apply whenqueue_no_lost_lemma; try assumption. apply run_not_crashed. Qed.

Theorem whenqueueends_lemma' : forall pre k v post,
  let es := pre ++ EOp k v OWhenQueueEnds :: post in
  fresh_k k post -> v_running v = false \/ In EQueueEnd post ->
  closed_of (run init_sst es) k = true.
Proof. intros. apply whenqueueends_lemma; try assumption. apply run_not_crashed. Qed.

Theorem statectx_no_lost_lemma' : forall pre k v x post,
  let es := pre ++ EOp k v (ONewStateCtx x) :: post in
  fresh_k k post -> known v [x] = true -> ctx_touched x post = true ->
  closed_of (run init_sst es) k = true.
Proof. intros. apply statectx_no_lost_lemma; try assumption. apply run_not_crashed. Qed.
