(* C10 — proofs about the RPC clock-diff codec model (Model/RpcCodec.v)
   against the predicates of Spec/C10.v. *)

From Coq Require Import List NArith ZArith Bool Arith Lia ZifyN ZifyNat ZifyBool.
From AMV Require Import Model.RpcCodec Spec.C10.
Import ListNotations.
Open Scope N_scope.

Ltac Zify.zify_post_hook ::= Z.div_mod_to_equations.

(* ------------------------------------------------------------------ *)
(* word arithmetic                                                     *)

Lemma w16_val : w16 = 65536. Proof. reflexivity. Qed.

Lemma add64_sub64 : forall a b, a <= b -> b < w64 -> b - a < w32 ->
  add64 a ((sub64 b a) mod w32) = b.
Proof.
  intros a b Hab Hb Hd. unfold add64, sub64, w32, w64 in *. lia.
Qed.

Lemma sub64_small : forall a b, a <= b -> b < w64 -> b - a < w32 ->
  (sub64 b a) mod w32 = b - a.
Proof.
  intros a b Hab Hb Hd. unfold sub64, w32, w64 in *. lia.
Qed.

Lemma sub64_same : forall a, a < w64 -> (sub64 a a) mod w32 = 0.
Proof. intros a Ha. unfold sub64, w32, w64 in *. lia. Qed.

Lemma q_roundtrip : forall q1 q2, q1 <= q2 -> q2 - q1 < w16 -> q2 < w64 ->
  add64 q1 ((sub64 q2 q1) mod w16) = q2.
Proof.
  intros q1 q2 H1 H2 H3. unfold add64, sub64, w16, w64 in *. lia.
Qed.

Lemma q_delta : forall q1 q2, q1 <= q2 -> q2 - q1 < w16 -> q2 < w64 ->
  (sub64 q2 q1) mod w16 = q2 - q1.
Proof.
  intros q1 q2 H1 H2 H3. unfold sub64, w16, w64 in *. lia.
Qed.

Lemma m_delta : forall m1 m2, m1 <= m2 -> m2 - m1 < w8 -> m2 < w32 ->
  ((m2 + w32 - m1 mod w32) mod w32) mod w8 = m2 - m1.
Proof.
  intros m1 m2 H1 H2 H3. unfold w8, w32 in *. lia.
Qed.

Lemma m_roundtrip : forall m1 m2, m1 <= m2 -> m2 - m1 < w8 -> m2 < w32 ->
  (m1 + ((m2 + w32 - m1 mod w32) mod w32) mod w8) mod w32 = m2.
Proof.
  intros m1 m2 H1 H2 H3. unfold w8, w32 in *. lia.
Qed.

Local Opaque w8 w16 w32 w64.

(* ------------------------------------------------------------------ *)
(* plain sums and sum64                                                *)

Definition nsum (l : list N) : N := fold_right N.add 0 l.

Lemma fold_add64_nsum : forall l a,
  fold_left add64 l a mod w64 = (a + nsum l) mod w64.
Proof.
  induction l as [|x l IH]; intros a; cbn [fold_left nsum fold_right].
  - now rewrite N.add_0_r.
  - rewrite IH. fold (nsum l). unfold add64.
    Local Transparent w64. unfold w64. Local Opaque w64. lia.
Qed.

Lemma fold_add64_lt : forall l a, a < w64 -> fold_left add64 l a < w64.
Proof.
  induction l as [|x l IH]; intros a Ha; cbn [fold_left]; [exact Ha|].
  apply IH. unfold add64. apply N.mod_lt. discriminate.
Qed.

Lemma sum64_nsum : forall l, sum64 l = nsum l mod w64.
Proof.
  intros l. unfold sum64.
  rewrite <- (N.mod_small (fold_left add64 l 0) w64).
  - rewrite fold_add64_nsum. now rewrite N.add_0_l.
  - apply fold_add64_lt. reflexivity.
Qed.

Lemma nsum_app : forall a b, nsum (a ++ b) = nsum a + nsum b.
Proof.
  induction a as [|x a IH]; intros b; cbn [app nsum fold_right].
  - reflexivity.
  - fold (nsum (a ++ b)). fold (nsum a). rewrite IH. lia.
Qed.

Lemma nsum_cons : forall x l, nsum (x :: l) = x + nsum l.
Proof. reflexivity. Qed.

Lemma nsum_map_add : forall (A : Type) (f g : A -> N) l,
  nsum (map (fun i => f i + g i) l) = nsum (map f l) + nsum (map g l).
Proof.
  induction l as [|x l IH]; cbn [map]; [reflexivity|].
  rewrite !nsum_cons, IH. lia.
Qed.

Lemma nsum_single : forall a v L s,
  nsum (map (fun i => if (i =? a)%nat then v else 0) (seq s L))
  = if ((s <=? a)%nat && (a <? s + L)%nat)%bool then v else 0.
Proof.
  intros a v. induction L as [|L IH]; intros s; cbn [seq map].
  - cbn [nsum fold_right].
    destruct (s <=? a)%nat eqn:E1, (a <? s + 0)%nat eqn:E2; cbn [andb]; try reflexivity.
    lia.
  - rewrite nsum_cons, IH.
    destruct (s =? a)%nat eqn:E0, (S s <=? a)%nat eqn:E1, (a <? S s + L)%nat eqn:E2,
      (s <=? a)%nat eqn:E3, (a <? s + S L)%nat eqn:E4; cbn [andb]; lia.
Qed.

(* ------------------------------------------------------------------ *)
(* list helpers                                                        *)

Definition memb (i : nat) (l : list nat) : bool := existsb (Nat.eqb i) l.

Lemma memb_In : forall i l, memb i l = true <-> In i l.
Proof.
  intros i l. unfold memb. rewrite existsb_exists. split.
  - intros [x [Hx He]]. apply Nat.eqb_eq in He. now subst.
  - intros H. exists i. split; [exact H|apply Nat.eqb_refl].
Qed.

Lemma memb_false : forall i l, memb i l = false <-> ~ In i l.
Proof.
  intros i l. rewrite <- memb_In. destruct (memb i l); split; congruence.
Qed.

Lemma nodupb_NoDup : forall l, nodupb l = true -> NoDup l.
Proof.
  induction l as [|x l IH]; intros H; [constructor|].
  cbn [nodupb] in H. apply andb_true_iff in H. destruct H as [H1 H2].
  constructor; [|now apply IH].
  apply negb_true_iff in H1. now apply memb_false in H1.
Qed.

Lemma all_lt_In : forall n l, all_lt n l = true -> forall i, In i l -> (i < n)%nat.
Proof.
  intros n l H i Hi. unfold all_lt in H. rewrite forallb_forall in H.
  apply H in Hi. now apply Nat.ltb_lt in Hi.
Qed.

Lemma NoDup_bounded_length : forall n l, NoDup l ->
  (forall i, In i l -> (i < n)%nat) -> (length l <= n)%nat.
Proof.
  intros n l Hnd Hb.
  rewrite <- (seq_length n 0).
  apply NoDup_incl_length; [exact Hnd|].
  intros i Hi. apply in_seq. specialize (Hb i Hi). lia.
Qed.

Lemma nth_map_seq : forall (f : nat -> N) L j d, (j < L)%nat ->
  nth j (map f (seq 0 L)) d = f j.
Proof.
  intros f L j d Hj.
  rewrite (nth_indep _ d (f 0%nat)) by (now rewrite map_length, seq_length).
  rewrite map_nth, seq_nth by exact Hj. reflexivity.
Qed.

Lemma nth_map0 : forall (f : nat -> N) l j, (j < length l)%nat ->
  nth j (map f l) 0 = f (nth j l 0%nat).
Proof.
  intros f l j Hj.
  rewrite (nth_indep _ 0 (f 0%nat)) by (now rewrite map_length).
  apply map_nth.
Qed.

Lemma map_nth_seq_id : forall (l : list N),
  map (fun i => nth i l 0) (seq 0 (length l)) = l.
Proof.
  intros l. apply (nth_ext _ _ 0 0).
  - now rewrite map_length, seq_length.
  - intros j Hj. rewrite map_length, seq_length in Hj.
    now rewrite nth_map_seq.
Qed.

Lemma map_fst_combine : forall (A B : Type) (l : list A) (l' : list B),
  length l = length l' -> map fst (combine l l') = l.
Proof.
  induction l as [|x l IH]; intros [|y l'] H; cbn in *; try congruence.
  f_equal. apply IH. congruence.
Qed.

Lemma map_snd_combine : forall (A B : Type) (l : list A) (l' : list B),
  length l = length l' -> map snd (combine l l') = l'.
Proof.
  induction l as [|x l IH]; intros [|y l'] H; cbn in *; try congruence.
  f_equal. apply IH. congruence.
Qed.

Lemma map_combine_seq : forall (f : nat * N -> N) (t : list N) s,
  map f (combine (seq s (length t)) t)
  = map (fun i => f (i, nth (i - s) t 0)) (seq s (length t)).
Proof.
  intros f. induction t as [|x t IH]; intros s; [reflexivity|].
  cbn [length seq combine map]. rewrite Nat.sub_diag. cbn [nth]. f_equal.
  rewrite IH. apply map_ext_in. intros i Hi. apply in_seq in Hi.
  replace (i - s)%nat with (S (i - S s)) by lia. reflexivity.
Qed.

Lemma zero_untracked_map : forall t tr,
  zero_untracked t tr
  = map (fun i => if memb i tr then nth i t 0 else 0) (seq 0 (length t)).
Proof.
  intros t tr. unfold zero_untracked.
  rewrite (map_combine_seq (fun p => if existsb (Nat.eqb (fst p)) tr then snd p else 0)).
  apply map_ext. intros i. cbn [fst snd]. now rewrite Nat.sub_0_r.
Qed.

Lemma zero_untracked_length : forall t tr, length (zero_untracked t tr) = length t.
Proof. intros. now rewrite zero_untracked_map, map_length, seq_length. Qed.

Lemma zero_untracked_nth : forall t tr j, (j < length t)%nat ->
  nth j (zero_untracked t tr) 0 = if memb j tr then nth j t 0 else 0.
Proof. intros t tr j Hj. rewrite zero_untracked_map. now rewrite nth_map_seq. Qed.

Lemma nsum_tracked : forall (g : nat -> N) L tr, NoDup tr ->
  (forall i, In i tr -> (i < L)%nat) ->
  nsum (map (fun i => if memb i tr then g i else 0) (seq 0 L)) = nsum (map g tr).
Proof.
  intros g L. induction tr as [|a r IH]; intros Hnd Hb.
  - cbn [memb existsb map]. induction (seq 0 L) as [|x l IHl]; [reflexivity|].
    cbn [map]. now rewrite nsum_cons, IHl.
  - inversion Hnd as [|a' r' Hna Hnd']; subst.
    cbn [map]. rewrite nsum_cons.
    assert (Ha : (a < L)%nat) by (apply Hb; now left).
    transitivity (nsum (map (fun i => (if (i =? a)%nat then g a else 0)
                                      + (if memb i r then g i else 0)) (seq 0 L))).
    + f_equal. apply map_ext_in. intros i Hi.
      unfold memb at 1. cbn [existsb]. fold (memb i r).
      destruct (i =? a)%nat eqn:E; cbn [orb].
      * apply Nat.eqb_eq in E. subst i.
        apply memb_false in Hna. rewrite Hna. lia.
      * lia.
    + rewrite nsum_map_add, nsum_single.
      rewrite IH; [|exact Hnd'|intros i Hi; apply Hb; now right].
      replace ((0 <=? a)%nat && (a <? 0 + L)%nat)%bool with true; [reflexivity|].
      symmetry. apply andb_true_iff. split; [apply Nat.leb_le|apply Nat.ltb_lt]; lia.
Qed.

Lemma nsum_zero_untracked : forall t tr, NoDup tr ->
  (forall i, In i tr -> (i < length t)%nat) ->
  nsum (zero_untracked t tr) = nsum (filter_time t tr).
Proof.
  intros t tr Hnd Hb. rewrite zero_untracked_map. unfold filter_time.
  now apply nsum_tracked.
Qed.

Lemma list_N_eqb_refl : forall l, list_N_eqb l l = true.
Proof.
  induction l as [|x l IH]; [reflexivity|]. cbn [list_N_eqb].
  now rewrite N.eqb_refl, IH.
Qed.

Lemma list_bool_eqb_refl : forall l, list_bool_eqb l l = true.
Proof.
  induction l as [|x l IH]; [reflexivity|]. cbn [list_bool_eqb].
  now rewrite eqb_reflx, IH.
Qed.

Lemma deltas_ok_length : forall bd a b, deltas_ok bd a b = true -> length a = length b.
Proof.
  intros bd. induction a as [|x a IH]; intros [|y b] H; cbn [deltas_ok] in H;
    try discriminate; [reflexivity|].
  rewrite !andb_true_iff in H. cbn [length]. f_equal. apply IH. tauto.
Qed.

Lemma deltas_ok_nth : forall bd a b, deltas_ok bd a b = true ->
  forall i, (i < length a)%nat ->
    nth i a 0 <= nth i b 0 /\ nth i b 0 - nth i a 0 < bd /\ nth i b 0 < w64.
Proof.
  intros bd. induction a as [|x a IH]; intros [|y b] H i Hi; cbn [deltas_ok] in H;
    try discriminate; cbn [length] in Hi; [lia|].
  rewrite !andb_true_iff in H. destruct H as [[[H1 H2] H3] H4].
  destruct i as [|i]; cbn [nth].
  - lia.
  - apply IH; [exact H4|lia].
Qed.

(* ------------------------------------------------------------------ *)
(* upd_nth / bump : the client side as pointwise addition              *)

Lemma upd_nth_length : forall l i f, length (upd_nth l i f) = length l.
Proof.
  induction l as [|x l IH]; intros [|i] f; cbn [upd_nth length]; try reflexivity.
  now rewrite IH.
Qed.

Lemma upd_nth_same : forall l i f, (i < length l)%nat ->
  nth i (upd_nth l i f) 0 = f (nth i l 0).
Proof.
  induction l as [|x l IH]; intros [|i] f H; cbn [length] in H; try lia;
    cbn [upd_nth nth]; [reflexivity|]. apply IH. lia.
Qed.

Lemma upd_nth_other : forall l i j f, i <> j ->
  nth j (upd_nth l i f) 0 = nth j l 0.
Proof.
  induction l as [|x l IH]; intros [|i] [|j] f H; cbn [upd_nth nth]; try reflexivity;
    try congruence. apply IH. congruence.
Qed.

Lemma nsum_upd_nth : forall l i v, (i < length l)%nat ->
  nsum (upd_nth l i (fun x => add64 x v)) mod w64 = (nsum l + v) mod w64.
Proof.
  induction l as [|x l IH]; intros [|i] v H; cbn [length] in H; try lia;
    cbn [upd_nth]; rewrite !nsum_cons.
  - unfold add64. Local Transparent w64. unfold w64. Local Opaque w64. lia.
  - assert (IH' := IH i v ltac:(lia)). revert IH'.
    generalize (nsum (upd_nth l i (fun x0 => add64 x0 v))). generalize (nsum l).
    intros a b. Local Transparent w64. unfold w64. Local Opaque w64. lia.
Qed.

Fixpoint bump (T : list N) (prs : list (nat * N)) : list N :=
  match prs with
  | [] => T
  | x :: r => bump (upd_nth T (fst x) (fun y => add64 y (snd x))) r
  end.

Lemma bump_length : forall prs T, length (bump T prs) = length T.
Proof.
  induction prs as [|x r IH]; intros T; cbn [bump]; [reflexivity|].
  now rewrite IH, upd_nth_length.
Qed.

Lemma bump_nsum : forall prs T,
  (forall x, In x prs -> (fst x < length T)%nat) ->
  nsum (bump T prs) mod w64 = (nsum T + nsum (map snd prs)) mod w64.
Proof.
  induction prs as [|x r IH]; intros T Hb; cbn [bump map].
  - cbn [nsum fold_right]. now rewrite N.add_0_r.
  - rewrite nsum_cons. rewrite IH.
    + assert (H := nsum_upd_nth T (fst x) (snd x) (Hb x (or_introl eq_refl))).
      revert H. generalize (nsum (upd_nth T (fst x) (fun y => add64 y (snd x)))).
      generalize (nsum T) (nsum (map snd r)) (snd x). intros a b d e.
      Local Transparent w64. unfold w64. Local Opaque w64. lia.
    + intros y Hy. rewrite upd_nth_length. apply Hb. now right.
Qed.

Lemma bump_nth_notin : forall prs T j, ~ In j (map fst prs) ->
  nth j (bump T prs) 0 = nth j T 0.
Proof.
  induction prs as [|x r IH]; intros T j Hn; cbn [bump]; [reflexivity|].
  cbn [map In] in Hn. rewrite IH by tauto. apply upd_nth_other. tauto.
Qed.

Lemma bump_nth_in : forall prs T j v, NoDup (map fst prs) -> In (j, v) prs ->
  (j < length T)%nat -> nth j (bump T prs) 0 = add64 (nth j T 0) v.
Proof.
  induction prs as [|x r IH]; intros T j v Hnd Hin Hj; [destruct Hin|].
  cbn [map] in Hnd. inversion Hnd as [|a l Hna Hnd']; subst.
  cbn [bump]. destruct Hin as [He|Hin].
  - subst x. cbn [fst snd] in *. rewrite bump_nth_notin by exact Hna.
    now apply upd_nth_same.
  - rewrite (IH _ j v Hnd' Hin) by (now rewrite upd_nth_length).
    f_equal. apply upd_nth_other. intros He. apply Hna. rewrite He.
    change j with (fst (j, v)). now apply in_map.
Qed.

Definition idx_of (prs : list (nat * N)) : list N := map (fun x => N.of_nat (fst x)) prs.

Lemma apply_ticks_bump : forall prs T,
  (forall x, In x prs -> (fst x < length T)%nat) ->
  apply_ticks T (N.of_nat (length T)) (idx_of prs) (map snd prs) = Some (bump T prs).
Proof.
  induction prs as [|x r IH]; intros T Hb; [reflexivity|].
  unfold idx_of. cbn [map apply_ticks bump]. fold (idx_of r).
  assert (Hx : (fst x < length T)%nat) by (apply Hb; now left).
  replace (N.of_nat (length T) <=? N.of_nat (fst x)) with false
    by (symmetry; apply N.leb_gt; lia).
  rewrite Nat2N.id.
  rewrite <- (upd_nth_length T (fst x) (fun y => add64 y (snd x))).
  apply IH. intros y Hy. rewrite upd_nth_length. apply Hb. now right.
Qed.

(* ------------------------------------------------------------------ *)
(* server side, deep: the fold as a list of (position, tick) pairs     *)

Definition ppos (sync : bool) (p : nat * nat) : nat := if sync then snd p else fst p.

Fixpoint deep_pairs (A B : list N) (pos : list nat) : list (nat * N) :=
  match pos with
  | [] => []
  | p :: r =>
    if nth p A 0 =? nth p B 0 then deep_pairs A B r
    else (p, (sub64 (nth p B 0) (nth p A 0)) mod w32) :: deep_pairs A B r
  end.

Lemma u16_small : forall n, N.of_nat n < w16 -> u16 n = N.of_nat n.
Proof. intros n H. unfold u16. now apply N.mod_small. Qed.

Lemma pushed_eq : forall sync p L, (ppos sync p < L)%nat -> N.of_nat L < w16 ->
  (if sync then u16 (snd p) else u16 (fst p)) = N.of_nat (ppos sync p).
Proof.
  intros sync p L H HL. unfold ppos in *. destruct sync; apply u16_small; lia.
Qed.

Lemma deep_fold : forall sync A B L ps is_ ts,
  length A = L -> length B = L -> N.of_nat L < w16 ->
  (forall p, In p ps -> (fst p < L)%nat /\ (ppos sync p < L)%nat) ->
  fold_left (deep_step sync (Some A) B) ps (Some (is_, ts))
  = Some (is_ ++ idx_of (deep_pairs A B (map (ppos sync) ps)),
          ts ++ map snd (deep_pairs A B (map (ppos sync) ps))).
Proof.
  intros sync A B L ps. induction ps as [|p r IH]; intros is_ ts HA HB HL Hb.
  - cbn. now rewrite !app_nil_r.
  - cbn [fold_left map deep_pairs].
    destruct (Hb p (or_introl eq_refl)) as [Hf Hp].
    assert (Hr : forall p0, In p0 r -> (fst p0 < L)%nat /\ (ppos sync p0 < L)%nat)
      by (intros p0 H0; apply Hb; now right).
    unfold deep_step at 2. cbv zeta.
    rewrite (pushed_eq sync p L Hp HL). rewrite Nat2N.id.
    replace (length A <=? fst p)%nat with false by (symmetry; apply Nat.leb_gt; lia).
    rewrite (nth_error_nth' A 0) by lia. rewrite (nth_error_nth' B 0) by lia.
    destruct (nth (ppos sync p) A 0 =? nth (ppos sync p) B 0).
    + now apply IH.
    + rewrite IH by assumption. unfold idx_of. cbn [map fst snd].
      now rewrite <- !app_assoc.
Qed.

Lemma ppos_combine : forall sync (tr : list nat),
  map (ppos sync) (combine (seq 0 (length tr)) tr)
  = if sync then tr else seq 0 (length tr).
Proof.
  intros sync tr. destruct sync; unfold ppos.
  - apply map_snd_combine. now rewrite seq_length.
  - apply map_fst_combine. now rewrite seq_length.
Qed.

Lemma deep_pairs_fst : forall A B pos x, In x (deep_pairs A B pos) -> In (fst x) pos.
Proof.
  intros A B. induction pos as [|p r IH]; intros x H; cbn [deep_pairs] in H; [destruct H|].
  destruct (nth p A 0 =? nth p B 0).
  - right. now apply IH.
  - destruct H as [H|H]; [subst x; now left|right; now apply IH].
Qed.

Lemma deep_pairs_fst' : forall A B pos j, In j (map fst (deep_pairs A B pos)) -> In j pos.
Proof.
  intros A B pos j H. apply in_map_iff in H. destruct H as [x [Hx Hin]]. subst j.
  eapply deep_pairs_fst; eauto.
Qed.

Lemma deep_pairs_NoDup : forall A B pos, NoDup pos -> NoDup (map fst (deep_pairs A B pos)).
Proof.
  intros A B. induction pos as [|p r IH]; intros H; cbn [deep_pairs]; [constructor|].
  inversion H as [|a l Hna Hnd]; subst.
  destruct (nth p A 0 =? nth p B 0); [now apply IH|].
  cbn [map fst]. constructor; [|now apply IH].
  intros Hin. apply Hna. eapply deep_pairs_fst'; eauto.
Qed.

Lemma deep_pairs_in : forall A B pos p, In p pos -> nth p A 0 <> nth p B 0 ->
  In (p, (sub64 (nth p B 0) (nth p A 0)) mod w32) (deep_pairs A B pos).
Proof.
  intros A B. induction pos as [|a r IH]; intros p Hin Hne; [destruct Hin|].
  cbn [deep_pairs]. destruct Hin as [He|Hin].
  - subst a. apply N.eqb_neq in Hne. rewrite Hne. now left.
  - destruct (nth a A 0 =? nth a B 0); [|right]; now apply IH.
Qed.

Lemma deep_pairs_notin : forall A B pos p, nth p A 0 = nth p B 0 ->
  ~ In p (map fst (deep_pairs A B pos)).
Proof.
  intros A B. induction pos as [|a r IH]; intros p He; cbn [deep_pairs]; [intros []|].
  destruct (nth a A 0 =? nth a B 0) eqn:E; [now apply IH|].
  cbn [map fst]. intros [H|H]; [|now apply (IH p He)].
  subst a. apply N.eqb_neq in E. congruence.
Qed.

Lemma deep_pairs_ext : forall A A' B pos,
  (forall p, In p pos -> nth p A 0 = nth p A' 0) ->
  deep_pairs A B pos = deep_pairs A' B pos.
Proof.
  intros A A' B. induction pos as [|a r IH]; intros H; [reflexivity|].
  cbn [deep_pairs]. rewrite (H a (or_introl eq_refl)).
  rewrite IH by (intros p Hp; apply H; now right). reflexivity.
Qed.

Definition in_range (a b : N) : Prop := a <= b /\ b - a < w32 /\ b < w64.

Lemma deep_pairs_nsum : forall A B pos,
  (forall p, In p pos -> in_range (nth p A 0) (nth p B 0)) ->
  nsum (map (fun p => nth p A 0) pos) + nsum (map snd (deep_pairs A B pos))
  = nsum (map (fun p => nth p B 0) pos).
Proof.
  intros A B. induction pos as [|a r IH]; intros H; [reflexivity|].
  cbn [deep_pairs map]. rewrite !nsum_cons.
  assert (IH' := IH (fun p Hp => H p (or_intror Hp))).
  destruct (H a (or_introl eq_refl)) as [H1 [H2 H3]].
  destruct (nth a A 0 =? nth a B 0) eqn:E.
  - apply N.eqb_eq in E. lia.
  - cbn [map snd]. rewrite nsum_cons. rewrite sub64_small by assumption. lia.
Qed.

Lemma deep_bump_nth : forall A B T pos,
  NoDup pos -> (forall p, In p pos -> (p < length T)%nat) ->
  (forall p, In p pos -> in_range (nth p A 0) (nth p B 0) /\ nth p T 0 = nth p A 0) ->
  forall j, nth j (bump T (deep_pairs A B pos)) 0
            = if memb j pos then nth j B 0 else nth j T 0.
Proof.
  intros A B T pos Hnd Hb Hr j.
  destruct (memb j pos) eqn:Hm.
  - apply memb_In in Hm. destruct (Hr j Hm) as [[H1 [H2 H3]] HT].
    destruct (N.eq_dec (nth j A 0) (nth j B 0)) as [He|Hne].
    + rewrite bump_nth_notin by (now apply deep_pairs_notin). congruence.
    + rewrite (bump_nth_in _ T j _ (deep_pairs_NoDup A B pos Hnd)
                 (deep_pairs_in A B pos j Hm Hne) (Hb j Hm)).
      rewrite HT. now apply add64_sub64.
  - apply memb_false in Hm. apply bump_nth_notin. intros H. apply Hm.
    eapply deep_pairs_fst'; eauto.
Qed.

(* ------------------------------------------------------------------ *)
(* configuration-level facts                                           *)

(* the server's deep mTime *)
Definition srv_time (c : cfg) (s : snap) : list N :=
  if sync_schema c then s_time s else filter_time (s_time s) (tracked c).

(* machine index read at client position p *)
Definition sigma (c : cfg) (p : nat) : nat :=
  if sync_schema c then p else nth p (tracked c) 0%nat.

Definition clen (c : cfg) (n : nat) : nat :=
  if sync_schema c then n else length (tracked c).

Lemma filter_time_length : forall t tr, length (filter_time t tr) = length tr.
Proof. intros. unfold filter_time. apply map_length. Qed.

Lemma filter_time_nth : forall t tr p, (p < length tr)%nat ->
  nth p (filter_time t tr) 0 = nth (nth p tr 0%nat) t 0.
Proof. intros t tr p H. unfold filter_time. now rewrite nth_map0. Qed.

Section Cfg.
  Variable c : cfg.
  Variable n : nat.
  Hypothesis Hwf : cfg_wf c n = true.

  Lemma wf_all_lt : forall i, In i (tracked c) -> (i < n)%nat.
  Proof.
    unfold cfg_wf in Hwf. rewrite !andb_true_iff in Hwf.
    destruct Hwf as [[H1 _] _]. now apply all_lt_In.
  Qed.

  Lemma wf_NoDup : NoDup (tracked c).
  Proof.
    unfold cfg_wf in Hwf. rewrite !andb_true_iff in Hwf.
    destruct Hwf as [[_ H2] _]. now apply nodupb_NoDup.
  Qed.

  Lemma wf_n16 : N.of_nat n < w16.
  Proof.
    unfold cfg_wf in Hwf. rewrite !andb_true_iff in Hwf.
    destruct Hwf as [_ H3]. now apply N.ltb_lt in H3.
  Qed.

  Lemma wf_tracked_len : (length (tracked c) <= n)%nat.
  Proof. apply NoDup_bounded_length; [apply wf_NoDup|apply wf_all_lt]. Qed.

  Lemma wf_clen16 : N.of_nat (clen c n) < w16.
  Proof.
    pose proof wf_n16. pose proof wf_tracked_len. unfold clen.
    destruct (sync_schema c); lia.
  Qed.

  Lemma wf_pos_lt : forall p, In p (client_tracked c) -> (p < clen c n)%nat.
  Proof.
    intros p Hp. unfold client_tracked, clen in *. destruct (sync_schema c).
    - now apply wf_all_lt.
    - apply in_seq in Hp. lia.
  Qed.

  Lemma wf_pos_NoDup : NoDup (client_tracked c).
  Proof.
    unfold client_tracked. destruct (sync_schema c); [apply wf_NoDup|apply seq_NoDup].
  Qed.

  Lemma wf_sigma_lt : forall p, In p (client_tracked c) -> (sigma c p < n)%nat.
  Proof.
    intros p Hp. unfold client_tracked, sigma in *. destruct (sync_schema c).
    - now apply wf_all_lt.
    - apply in_seq in Hp. apply wf_all_lt. apply nth_In. lia.
  Qed.

  Lemma wf_fold_pairs : forall p,
    In p (combine (seq 0 (length (tracked c))) (tracked c)) ->
    (fst p < clen c n)%nat /\ (ppos (sync_schema c) p < clen c n)%nat.
  Proof.
    intros [a b] Hp. pose proof wf_tracked_len as Hl.
    assert (Ha : (a < length (tracked c))%nat).
    { apply in_combine_l in Hp. apply in_seq in Hp. lia. }
    assert (Hb : (b < n)%nat) by (apply in_combine_r in Hp; now apply wf_all_lt).
    unfold ppos, clen. cbn [fst snd]. destruct (sync_schema c); lia.
  Qed.

  Section Snap.
    Variable s : snap.
    Hypothesis Hlen : length (s_time s) = n.

    Lemma srv_time_length : length (srv_time c s) = clen c n.
    Proof.
      unfold srv_time, clen. destruct (sync_schema c);
        [exact Hlen|apply filter_time_length].
    Qed.

    Lemma mirror_length : length (mirror c s) = clen c n.
    Proof.
      unfold mirror, hello_time, clen. destruct (sync_schema c).
      - now rewrite zero_untracked_length.
      - apply filter_time_length.
    Qed.

    Lemma srv_time_nth : forall p, In p (client_tracked c) ->
      nth p (srv_time c s) 0 = nth (sigma c p) (s_time s) 0.
    Proof.
      intros p Hp. unfold srv_time, sigma, client_tracked in *.
      destruct (sync_schema c); [reflexivity|].
      apply in_seq in Hp. apply filter_time_nth. lia.
    Qed.

    Lemma mirror_nth : forall p, In p (client_tracked c) ->
      nth p (mirror c s) 0 = nth (sigma c p) (s_time s) 0.
    Proof.
      intros p Hp. unfold mirror, hello_time, sigma, client_tracked in *.
      destruct (sync_schema c).
      - rewrite zero_untracked_nth by (rewrite Hlen; now apply wf_all_lt).
        apply memb_In in Hp. now rewrite Hp.
      - apply in_seq in Hp. apply filter_time_nth. lia.
    Qed.

    Lemma mirror_nth_out : forall j, (j < clen c n)%nat ->
      memb j (client_tracked c) = false -> nth j (mirror c s) 0 = 0.
    Proof.
      intros j Hj Hm. unfold mirror, hello_time, client_tracked, clen in *.
      destruct (sync_schema c).
      - rewrite zero_untracked_nth by lia. now rewrite Hm.
      - apply memb_false in Hm. exfalso. apply Hm. apply in_seq. lia.
    Qed.

    Lemma nsum_srv_pos :
      nsum (map (fun p => nth p (srv_time c s) 0) (client_tracked c))
      = nsum (filter_time (s_time s) (tracked c)).
    Proof.
      unfold srv_time, client_tracked. destruct (sync_schema c); [reflexivity|].
      rewrite <- (filter_time_length (s_time s) (tracked c)).
      now rewrite map_nth_seq_id.
    Qed.

    Lemma nsum_mirror : nsum (mirror c s) = nsum (filter_time (s_time s) (tracked c)).
    Proof.
      unfold mirror, hello_time. destruct (sync_schema c); [|reflexivity].
      apply nsum_zero_untracked; [apply wf_NoDup|].
      intros i Hi. rewrite Hlen. now apply wf_all_lt.
    Qed.
  End Snap.
End Cfg.

(* ------------------------------------------------------------------ *)
(* checksum arithmetic                                                 *)

Lemma checksum_sum64 : forall X q m,
  checksum (sum64 X) q m = (nsum X + q + m) mod w8.
Proof.
  intros X q m. unfold checksum, add64. rewrite sum64_nsum.
  generalize (nsum X). intros a.
  Local Transparent w8 w64. unfold w8, w64. Local Opaque w8 w64. lia.
Qed.

Lemma checksum_sum64_upd : forall X q dq m dm,
  checksum (sum64 X) (add64 q dq) ((m + dm) mod w32)
  = (nsum X + q + dq + m + dm) mod w8.
Proof.
  intros X q dq m dm. rewrite checksum_sum64. unfold add64.
  generalize (nsum X). intros a.
  Local Transparent w8 w32 w64. unfold w8, w32, w64. Local Opaque w8 w32 w64. lia.
Qed.

(* ------------------------------------------------------------------ *)
(* deep mode: the core statement                                       *)

Lemma snaps_in_range_inv : forall s1 s2, snaps_in_range s1 s2 = true ->
  deltas_ok w32 (s_time s1) (s_time s2) = true /\
  s_q s1 <= s_q s2 /\ s_q s2 - s_q s1 < w16 /\ s_q s2 < w64 /\
  s_m s1 <= s_m s2 /\ s_m s2 - s_m s1 < w8 /\ s_m s2 < w32.
Proof.
  intros s1 s2 H. unfold snaps_in_range in H. rewrite !andb_true_iff in H.
  destruct H as [[[[[[H1 H2] H3] H4] H5] H6] H7].
  apply N.leb_le in H2, H5. apply N.ltb_lt in H3, H4, H6, H7. tauto.
Qed.

Definition deep_prs (c : cfg) (s1 s2 : snap) : list (nat * N) :=
  deep_pairs (mirror c s1) (srv_time c s2) (client_tracked c).

Definition last_data (c : cfg) (hello : bool) (s : snap) : tdata :=
  if hello then hello_data c s else mk_data c s.

Lemma mk_data_deep : forall c s, shallow c = false ->
  mk_data c s =
  {| d_mtime := Some (srv_time c s);
     d_sum := sum64 (filter_time (s_time s) (tracked c));
     d_q := s_q s; d_m := s_m s;
     d_check := checksum (sum64 (filter_time (s_time s) (tracked c))) (s_q s) (s_m s) |}.
Proof. intros c s H. unfold mk_data, srv_time. rewrite H. reflexivity. Qed.

Definition mk_upd (prs : list (nat * N)) (dq dm ck : N) : upd :=
  {| u_idx := idx_of prs; u_ticks := map snd prs; u_q := dq; u_m := dm; u_check := ck |}.

Lemma client_apply_deep : forall c prs dq dm ck t q m,
  shallow c = false -> N.of_nat (length t) < w16 ->
  (forall x, In x prs -> (fst x < length t)%nat) ->
  client_apply c (mk_upd prs dq dm ck) t q m
  = Some (bump t prs, add64 q dq, (m + dm) mod w32,
          checksum (sum64 (bump t prs)) (add64 q dq) ((m + dm) mod w32) =? ck).
Proof.
  intros c prs dq dm ck t q m Hsh Hl Hb.
  unfold client_apply, clock_from_update, mk_upd.
  cbn [u_idx u_ticks u_q u_m u_check].
  rewrite (N.mod_small _ _ Hl). rewrite (apply_ticks_bump prs t Hb). now rewrite Hsh.
Qed.

Section PairFacts.
  Variable c : cfg.
  Variables s1 s2 : snap.
  Hypothesis Hlen : length (s_time s1) = length (s_time s2).
  Hypothesis Hwf : cfg_wf c (length (s_time s1)) = true.
  Hypothesis Hdl : deltas_ok w32 (s_time s1) (s_time s2) = true.

  Let n := length (s_time s1).

  Lemma pos_in_range : forall p, In p (client_tracked c) ->
    in_range (nth p (mirror c s1) 0) (nth p (srv_time c s2) 0).
  Proof.
    intros p Hp.
    rewrite (mirror_nth c n Hwf s1 eq_refl p Hp).
    rewrite (srv_time_nth c n s2 (eq_sym Hlen) p Hp).
    unfold in_range. apply (deltas_ok_nth _ _ _ Hdl).
    now apply (wf_sigma_lt c n Hwf).
  Qed.

  Lemma deep_prs_bound : forall (t : list N) x, length t = length (mirror c s1) ->
    In x (deep_prs c s1 s2) -> (fst x < length t)%nat.
  Proof.
    intros t x Ht Hx. rewrite Ht, (mirror_length c n s1 eq_refl).
    apply (wf_pos_lt c n Hwf). eapply deep_pairs_fst. exact Hx.
  Qed.

  Lemma gen_deep_ok : forall A,
    length A = clen c n ->
    (forall p, In p (client_tracked c) -> nth p A 0 = nth p (mirror c s1) 0) ->
    gen_deep c (Some A) (srv_time c s2)
    = Some (idx_of (deep_prs c s1 s2), map snd (deep_prs c s1 s2)).
  Proof.
    intros A HA Hext. unfold gen_deep.
    rewrite (deep_fold (sync_schema c) A (srv_time c s2) (clen c n)).
    - rewrite ppos_combine. fold (client_tracked c).
      rewrite (deep_pairs_ext A (mirror c s1)) by exact Hext. reflexivity.
    - exact HA.
    - apply (srv_time_length c n s2 (eq_sym Hlen)).
    - apply (wf_clen16 c n Hwf).
    - apply (wf_fold_pairs c n Hwf).
  Qed.

  Lemma deep_prs_nsum :
    nsum (filter_time (s_time s1) (tracked c)) + nsum (map snd (deep_prs c s1 s2))
    = nsum (filter_time (s_time s2) (tracked c)).
  Proof.
    rewrite <- (nsum_srv_pos c s2).
    rewrite <- (deep_pairs_nsum (mirror c s1) (srv_time c s2) (client_tracked c) pos_in_range).
    fold (deep_prs c s1 s2). f_equal.
    rewrite <- (nsum_srv_pos c s1). f_equal. apply map_ext_in. intros p Hp.
    rewrite (mirror_nth c n Hwf s1 eq_refl p Hp).
    now rewrite (srv_time_nth c n s1 eq_refl p Hp).
  Qed.

  Lemma deep_bump_mirror : bump (mirror c s1) (deep_prs c s1 s2) = mirror c s2.
  Proof.
    apply (nth_ext _ _ 0 0).
    - rewrite bump_length. rewrite (mirror_length c n s1 eq_refl).
      now rewrite (mirror_length c n s2 (eq_sym Hlen)).
    - intros j Hj. rewrite bump_length, (mirror_length c n s1 eq_refl) in Hj.
      unfold deep_prs. rewrite deep_bump_nth.
      + destruct (memb j (client_tracked c)) eqn:Hm.
        * apply memb_In in Hm.
          rewrite (mirror_nth c n Hwf s2 (eq_sym Hlen) j Hm).
          now rewrite (srv_time_nth c n s2 (eq_sym Hlen) j Hm).
        * rewrite (mirror_nth_out c n s1 eq_refl j Hj Hm).
          now rewrite (mirror_nth_out c n s2 (eq_sym Hlen) j Hj Hm).
      + apply (wf_pos_NoDup c n Hwf).
      + intros p Hp. rewrite (mirror_length c n s1 eq_refl).
        now apply (wf_pos_lt c n Hwf).
      + intros p Hp. split; [now apply pos_in_range|reflexivity].
  Qed.
End PairFacts.

Lemma deep_core : forall c s1 s2 hello t q m,
  shallow c = false ->
  length (s_time s1) = length (s_time s2) ->
  cfg_wf c (length (s_time s1)) = true ->
  snaps_in_range s1 s2 = true ->
  length t = length (mirror c s1) ->
  exists u,
    calc_update c false (mk_data c s2) (last_data c hello s1) = Some u /\
    client_apply c u t q m
    = Some (bump t (deep_prs c s1 s2),
            add64 q (s_q s2 - s_q s1), (m + (s_m s2 - s_m s1)) mod w32,
            checksum (sum64 (bump t (deep_prs c s1 s2)))
                     (add64 q (s_q s2 - s_q s1)) ((m + (s_m s2 - s_m s1)) mod w32)
            =? checksum (sum64 (filter_time (s_time s2) (tracked c))) (s_q s2) (s_m s2)).
Proof.
  intros c s1 s2 hello t q m Hsh Hlen Hwf Hrng Ht.
  destruct (snaps_in_range_inv s1 s2 Hrng) as [Hdl [Hq1 [Hq2 [Hq3 [Hm1 [Hm2 Hm3]]]]]].
  set (n := length (s_time s1)) in *.
  exists (mk_upd (deep_prs c s1 s2) (s_q s2 - s_q s1) (s_m s2 - s_m s1)
            (checksum (sum64 (filter_time (s_time s2) (tracked c))) (s_q s2) (s_m s2))).
  split.
  - unfold calc_update. rewrite (mk_data_deep c s2 Hsh).
    cbn [d_mtime d_q d_m d_check].
    assert (HA : exists A, d_mtime (last_data c hello s1) = Some A /\
               length A = clen c n /\
               (forall p, In p (client_tracked c) -> nth p A 0 = nth p (mirror c s1) 0) /\
               d_q (last_data c hello s1) = s_q s1 /\
               d_m (last_data c hello s1) = s_m s1).
    { unfold last_data. destruct hello.
      - exists (mirror c s1). cbn [hello_data d_mtime d_q d_m].
        repeat split; try reflexivity.
        + apply (mirror_length c n s1 eq_refl).
      - exists (srv_time c s1). rewrite (mk_data_deep c s1 Hsh).
        cbn [d_mtime d_q d_m]. repeat split; try reflexivity.
        + apply (srv_time_length c n s1 eq_refl).
        + intros p Hp. rewrite (mirror_nth c n Hwf s1 eq_refl p Hp).
          now rewrite (srv_time_nth c n s1 eq_refl p Hp). }
    destruct HA as [A [HA1 [HA2 [HA3 [HA4 HA5]]]]].
    rewrite HA1, HA4, HA5.
    rewrite (gen_deep_ok c s1 s2 Hlen Hwf A HA2 HA3).
    rewrite (q_delta _ _ Hq1 Hq2 Hq3). rewrite (m_delta _ _ Hm1 Hm2 Hm3).
    reflexivity.
  - apply client_apply_deep.
    + exact Hsh.
    + rewrite Ht, (mirror_length c n s1 eq_refl). apply (wf_clen16 c n Hwf).
    + intros x Hx. now apply (deep_prs_bound c s1 s2 Hwf t x Ht).
Qed.

(* ------------------------------------------------------------------ *)
(* (1) roundtrip_deep and (2) checksum_detects                         *)

Lemma add64_delta : forall a b, a <= b -> b < w64 -> add64 a (b - a) = b.
Proof.
  intros a b H1 H2. unfold add64. replace (a + (b - a)) with b by lia.
  now apply N.mod_small.
Qed.

Lemma add32_delta : forall a b, a <= b -> b < w32 -> (a + (b - a)) mod w32 = b.
Proof.
  intros a b H1 H2. replace (a + (b - a)) with b by lia. now apply N.mod_small.
Qed.

Lemma mod64_mod8 : forall a b, a mod w64 = b mod w64 -> a mod w8 = b mod w8.
Proof.
  intros a b H.
  Local Transparent w8 w64. unfold w8, w64 in *. Local Opaque w8 w64. lia.
Qed.

(* Prop-level form of (1), reused by the mutation chain *)
Lemma roundtrip_deep_eq : forall (c : cfg) (s1 s2 : snap) (hello : bool),
  shallow c = false ->
  length (s_time s1) = length (s_time s2) ->
  cfg_wf c (length (s_time s1)) = true ->
  snaps_in_range s1 s2 = true ->
  exists u, calc_update c false (mk_data c s2) (last_data c hello s1) = Some u /\
    client_apply c u (mirror c s1) (s_q s1) (s_m s1)
    = Some (mirror c s2, s_q s2, s_m s2, true).
Proof.
  intros c s1 s2 hello Hsh Hlen Hwf Hrng.
  destruct (deep_core c s1 s2 hello (mirror c s1) (s_q s1) (s_m s1)
              Hsh Hlen Hwf Hrng eq_refl) as [u [Hu Ha]].
  destruct (snaps_in_range_inv s1 s2 Hrng) as [Hdl [Hq1 [Hq2 [Hq3 [Hm1 [Hm2 Hm3]]]]]].
  exists u. split; [exact Hu|]. rewrite Ha.
  rewrite (deep_bump_mirror c s1 s2 Hlen Hwf Hdl).
  rewrite (add64_delta _ _ Hq1 Hq3), (add32_delta _ _ Hm1 Hm3).
  rewrite !checksum_sum64.
  rewrite (nsum_mirror c _ Hwf s2 (eq_sym Hlen)).
  now rewrite N.eqb_refl.
Qed.

Theorem roundtrip_deep_lemma :
  forall (c : cfg) (s1 s2 : snap) (hello : bool),
    shallow c = false ->
    length (s_time s1) = length (s_time s2) ->
    cfg_wf c (length (s_time s1)) = true ->
    snaps_in_range s1 s2 = true ->
      let last := if hello then hello_data c s1 else mk_data c s1 in
    exists u, calc_update c false (mk_data c s2) last = Some u /\
      roundtrip_deep_ok c s2 (client_apply c u (mirror c s1) (s_q s1) (s_m s1)) = true.
Proof.
  intros c s1 s2 hello Hsh Hlen Hwf Hrng last.
  destruct (roundtrip_deep_eq c s1 s2 hello Hsh Hlen Hwf Hrng) as [u [Hu Ha]].
  exists u. split; [exact Hu|]. rewrite Ha. unfold roundtrip_deep_ok.
  now rewrite list_N_eqb_refl, !N.eqb_refl.
Qed.

Theorem checksum_detects_lemma :
  forall (c : cfg) (s1 s2 : snap) (hello : bool) (t : list N) (q m : N),
    shallow c = false ->
    length (s_time s1) = length (s_time s2) ->
    cfg_wf c (length (s_time s1)) = true ->
    snaps_in_range s1 s2 = true ->
      length t = length (mirror c s1) ->
    Forall (fun x => x < w64) t -> q < w64 -> m < w32 ->
    drifted c s1 t q m = true ->
    let last := if hello then hello_data c s1 else mk_data c s1 in
    exists u, calc_update c false (mk_data c s2) last = Some u /\
      rejected (client_apply c u t q m) = true.
Proof.
  intros c s1 s2 hello t q m Hsh Hlen Hwf Hrng Ht _ _ _ Hdr last.
  destruct (deep_core c s1 s2 hello t q m Hsh Hlen Hwf Hrng Ht) as [u [Hu Ha]].
  destruct (snaps_in_range_inv s1 s2 Hrng) as [Hdl [Hq1 [Hq2 [Hq3 [Hm1 [Hm2 Hm3]]]]]].
  exists u. split; [exact Hu|]. rewrite Ha. unfold rejected.
  apply negb_true_iff, N.eqb_neq.
  rewrite checksum_sum64_upd, checksum_sum64.
  unfold drifted in Hdr. apply negb_true_iff, N.eqb_neq in Hdr.
  rewrite !checksum_sum64 in Hdr.
  rewrite (nsum_mirror c _ Hwf s1 eq_refl) in Hdr.
  assert (Hb := bump_nsum (deep_prs c s1 s2) t
                  (fun x Hx => deep_prs_bound c s1 s2 Hwf t x Ht Hx)).
  assert (Hs := deep_prs_nsum c s1 s2 Hlen Hwf Hdl).
  revert Hdr Hb Hs.
  generalize (nsum (bump t (deep_prs c s1 s2))) (nsum t)
             (nsum (map snd (deep_prs c s1 s2)))
             (nsum (filter_time (s_time s1) (tracked c)))
             (nsum (filter_time (s_time s2) (tracked c))).
  intros nb nt nd f1 f2 Hdr Hb Hs.
  apply mod64_mod8 in Hb. clear - Hdr Hb Hs Hq1 Hm1.
  Local Transparent w8. unfold w8 in *. Local Opaque w8. lia.
Qed.

(* ------------------------------------------------------------------ *)
(* shallow mode                                                        *)

Fixpoint shallow_pairs (A B : list N) (pos : list nat) : list (nat * N) :=
  match pos with
  | [] => []
  | p :: r =>
    if Bool.eqb (N.odd (nth p A 0)) (N.odd (nth p B 0)) then shallow_pairs A B r
    else (p, 1) :: shallow_pairs A B r
  end.

Lemma shallow_fold : forall sync A B L ps is_ ts,
  length A = L -> length B = L -> N.of_nat L < w16 ->
  (forall p, In p ps -> (ppos sync p < L)%nat) ->
  fold_left (shallow_step sync (Some A) B) ps (Some (is_, ts))
  = Some (is_ ++ idx_of (shallow_pairs A B (map (ppos sync) ps)),
          ts ++ map snd (shallow_pairs A B (map (ppos sync) ps))).
Proof.
  intros sync A B L ps. induction ps as [|p r IH]; intros is_ ts HA HB HL Hb.
  - cbn. now rewrite !app_nil_r.
  - cbn [fold_left map shallow_pairs].
    assert (Hp := Hb p (or_introl eq_refl)).
    assert (Hr : forall p0, In p0 r -> (ppos sync p0 < L)%nat)
      by (intros p0 H0; apply Hb; now right).
    unfold shallow_step at 2. cbv zeta.
    rewrite (pushed_eq sync p L Hp HL). rewrite Nat2N.id.
    replace (length A <=? ppos sync p)%nat with false by (symmetry; apply Nat.leb_gt; lia).
    rewrite (nth_error_nth' A 0) by lia. rewrite (nth_error_nth' B 0) by lia.
    destruct (Bool.eqb (N.odd (nth (ppos sync p) A 0)) (N.odd (nth (ppos sync p) B 0))).
    + now apply IH.
    + rewrite IH by assumption. unfold idx_of. cbn [map fst snd].
      now rewrite <- !app_assoc.
Qed.

Lemma shallow_pairs_fst : forall A B pos x, In x (shallow_pairs A B pos) -> In (fst x) pos.
Proof.
  intros A B. induction pos as [|p r IH]; intros x H; cbn [shallow_pairs] in H; [destruct H|].
  destruct (Bool.eqb _ _).
  - right. now apply IH.
  - destruct H as [H|H]; [subst x; now left|right; now apply IH].
Qed.

Lemma shallow_pairs_fst' : forall A B pos j,
  In j (map fst (shallow_pairs A B pos)) -> In j pos.
Proof.
  intros A B pos j H. apply in_map_iff in H. destruct H as [x [Hx Hin]]. subst j.
  eapply shallow_pairs_fst; eauto.
Qed.

Lemma shallow_pairs_NoDup : forall A B pos, NoDup pos ->
  NoDup (map fst (shallow_pairs A B pos)).
Proof.
  intros A B. induction pos as [|p r IH]; intros H; cbn [shallow_pairs]; [constructor|].
  inversion H as [|a l Hna Hnd]; subst.
  destruct (Bool.eqb _ _); [now apply IH|].
  cbn [map fst]. constructor; [|now apply IH].
  intros Hin. apply Hna. eapply shallow_pairs_fst'; eauto.
Qed.

Lemma shallow_pairs_in : forall A B pos p, In p pos ->
  N.odd (nth p A 0) <> N.odd (nth p B 0) -> In (p, 1) (shallow_pairs A B pos).
Proof.
  intros A B. induction pos as [|a r IH]; intros p Hin Hne; [destruct Hin|].
  cbn [shallow_pairs]. destruct Hin as [He|Hin].
  - subst a. apply eqb_false_iff in Hne. rewrite Hne. now left.
  - destruct (Bool.eqb _ _); [|right]; now apply IH.
Qed.

Lemma shallow_pairs_notin : forall A B pos p,
  N.odd (nth p A 0) = N.odd (nth p B 0) ->
  ~ In p (map fst (shallow_pairs A B pos)).
Proof.
  intros A B. induction pos as [|a r IH]; intros p He; cbn [shallow_pairs]; [intros []|].
  destruct (Bool.eqb (N.odd (nth a A 0)) (N.odd (nth a B 0))) eqn:E; [now apply IH|].
  cbn [map fst]. intros [H|H]; [|now apply (IH p He)].
  subst a. apply eqb_false_iff in E. congruence.
Qed.

Lemma shallow_pairs_ext : forall A A' B B' pos,
  (forall p, In p pos -> N.odd (nth p A 0) = N.odd (nth p A' 0)) ->
  (forall p, In p pos -> N.odd (nth p B 0) = N.odd (nth p B' 0)) ->
  shallow_pairs A B pos = shallow_pairs A' B' pos.
Proof.
  intros A A' B B'. induction pos as [|a r IH]; intros HA HB; [reflexivity|].
  cbn [shallow_pairs]. rewrite (HA a (or_introl eq_refl)), (HB a (or_introl eq_refl)).
  rewrite IH; [reflexivity| |]; intros p Hp; [apply HA|apply HB]; now right.
Qed.

Lemma w64_pow : w64 = 2 ^ 64.
Proof. Local Transparent w64. reflexivity. Qed.
Local Opaque w64.

Lemma odd_add64_1 : forall x, N.odd (add64 x 1) = negb (N.odd x).
Proof.
  intros x. unfold add64. rewrite w64_pow.
  rewrite <- N.bit0_odd. rewrite N.mod_pow2_bits_low by lia.
  rewrite N.bit0_odd, N.odd_add. cbn [N.odd N.even negb]. apply xorb_true_r.
Qed.

Lemma shallow_bump_odd : forall A B T pos,
  NoDup pos -> (forall p, In p pos -> (p < length T)%nat) ->
  (forall p, In p pos -> N.odd (nth p T 0) = N.odd (nth p A 0)) ->
  forall j, N.odd (nth j (bump T (shallow_pairs A B pos)) 0)
            = if memb j pos then N.odd (nth j B 0) else N.odd (nth j T 0).
Proof.
  intros A B T pos Hnd Hb HT j.
  destruct (memb j pos) eqn:Hm.
  - apply memb_In in Hm.
    destruct (bool_dec (N.odd (nth j A 0)) (N.odd (nth j B 0))) as [He|Hne].
    + rewrite bump_nth_notin by (now apply shallow_pairs_notin).
      rewrite (HT j Hm). exact He.
    + rewrite (bump_nth_in _ T j 1 (shallow_pairs_NoDup A B pos Hnd)
                 (shallow_pairs_in A B pos j Hm Hne) (Hb j Hm)).
      rewrite odd_add64_1, (HT j Hm).
      destruct (N.odd (nth j A 0)), (N.odd (nth j B 0)); cbn; congruence.
  - apply memb_false in Hm. f_equal. apply bump_nth_notin. intros H. apply Hm.
    eapply shallow_pairs_fst'; eauto.
Qed.

Lemma active01_length : forall l, length (active01 l) = length l.
Proof. intros. unfold active01. apply map_length. Qed.

Lemma active01_odd : forall l j, N.odd (nth j (active01 l) 0) = N.odd (nth j l 0).
Proof.
  intros l j. unfold active01.
  pose proof (map_nth (fun v => if N.odd v then 1 else 0) l 0 j) as H.
  cbn beta in H. change (if N.odd 0 then 1 else 0) with 0 in H. rewrite H.
  now destruct (N.odd (nth j l 0)).
Qed.

Lemma nth_parities : forall l j, nth j (parities l) false = N.odd (nth j l 0).
Proof. intros l j. unfold parities. exact (map_nth N.odd l 0 j). Qed.

Lemma parities_length : forall l, length (parities l) = length l.
Proof. intros. unfold parities. apply map_length. Qed.

Lemma new_time_ok : forall len idxs, (forall i, In i idxs -> (i < len)%nat) ->
  new_time len idxs
  = Some (map (fun i => if existsb (Nat.eqb i) idxs then 1 else 0) (seq 0 len)).
Proof.
  intros len idxs H. unfold new_time.
  replace (forallb (fun i => (i <? len)%nat) idxs) with true; [reflexivity|].
  symmetry. apply forallb_forall. intros i Hi. apply Nat.ltb_lt. now apply H.
Qed.

Definition shallow_prs (c : cfg) (s1 s2 : snap) : list (nat * N) :=
  shallow_pairs (mirror c s1) (srv_time c s2) (client_tracked c).

Lemma mk_data_shallow : forall c s, shallow c = true ->
  mk_data c s =
  {| d_mtime := Some (active01 (srv_time c s));
     d_sum := sum64 (active01 (srv_time c s));
     d_q := s_q s; d_m := s_m s;
     d_check := checksum (sum64 (active01 (srv_time c s))) (s_q s) (s_m s) |}.
Proof. intros c s H. unfold mk_data, srv_time. rewrite H. reflexivity. Qed.

Lemma client_apply_shallow : forall c prs dq dm ck t q m,
  shallow c = true -> N.of_nat (length t) < w16 ->
  (forall x, In x prs -> (fst x < length t)%nat) ->
  (forall i, In i (client_tracked c) -> (i < length t)%nat) ->
  exists acc,
    client_apply c (mk_upd prs dq dm ck) t q m
    = Some (bump t prs, add64 q dq, (m + dm) mod w32, acc).
Proof.
  intros c prs dq dm ck t q m Hsh Hl Hb Hc.
  unfold client_apply, clock_from_update, mk_upd.
  cbn [u_idx u_ticks u_q u_m u_check].
  rewrite (N.mod_small _ _ Hl). rewrite (apply_ticks_bump prs t Hb). rewrite Hsh.
  rewrite new_time_ok by (now rewrite bump_length).
  eexists. reflexivity.
Qed.

Lemma gen_shallow_ok : forall c s1 s2 A,
  length (s_time s1) = length (s_time s2) ->
  cfg_wf c (length (s_time s1)) = true ->
  length A = clen c (length (s_time s1)) ->
  (forall p, In p (client_tracked c) ->
     N.odd (nth p A 0) = N.odd (nth p (mirror c s1) 0)) ->
  gen_shallow c (Some A) (active01 (srv_time c s2))
  = Some (idx_of (shallow_prs c s1 s2), map snd (shallow_prs c s1 s2)).
Proof.
  intros c s1 s2 A Hlen Hwf HA Hext. unfold gen_shallow.
  rewrite (shallow_fold (sync_schema c) A (active01 (srv_time c s2))
             (clen c (length (s_time s1)))).
  - rewrite ppos_combine. fold (client_tracked c).
    rewrite (shallow_pairs_ext A (mirror c s1) _ (srv_time c s2)).
    + reflexivity.
    + exact Hext.
    + intros p _. apply active01_odd.
  - exact HA.
  - rewrite active01_length. apply (srv_time_length c _ s2 (eq_sym Hlen)).
  - apply (wf_clen16 c _ Hwf).
  - intros p Hp. apply (wf_fold_pairs c _ Hwf p Hp).
Qed.

Theorem roundtrip_shallow_values_lemma :
  forall (c : cfg) (s1 s2 : snap) (hello : bool) (t : list N),
    shallow c = true ->
    length (s_time s1) = length (s_time s2) ->
    cfg_wf c (length (s_time s1)) = true ->
    Forall (fun x => x < w64) (s_time s1) -> Forall (fun x => x < w64) (s_time s2) ->
    s_q s1 <= s_q s2 -> s_q s2 - s_q s1 < w16 -> s_q s2 < w64 ->
    s_m s1 <= s_m s2 -> s_m s2 - s_m s1 < w8 -> s_m s2 < w32 ->
      length t = length (mirror c s1) -> parities t = parities (mirror c s1) ->
    Forall (fun x => x < w64) t ->
    let last := if hello then hello_data c s1 else mk_data c s1 in
    exists u, calc_update c true (mk_data c s2) last = Some u /\
      values_shallow_ok c s2 (client_apply c u t (s_q s1) (s_m s1)) = true.
Proof.
  intros c s1 s2 hello t Hsh Hlen Hwf _ _ Hq1 Hq2 Hq3 Hm1 Hm2 Hm3 Ht Hpar _ last.
  set (n := length (s_time s1)) in *.
  assert (Htl : length t = clen c n) by (now rewrite Ht, (mirror_length c n s1 eq_refl)).
  assert (Hbound : forall x, In x (shallow_prs c s1 s2) -> (fst x < length t)%nat).
  { intros x Hx. rewrite Htl. apply (wf_pos_lt c n Hwf).
    eapply shallow_pairs_fst. exact Hx. }
  assert (Hposb : forall i, In i (client_tracked c) -> (i < length t)%nat).
  { intros i Hi. rewrite Htl. now apply (wf_pos_lt c n Hwf). }
  assert (Hpj : forall j, N.odd (nth j t 0) = N.odd (nth j (mirror c s1) 0)).
  { intros j. rewrite <- !nth_parities. now rewrite Hpar. }
  exists (mk_upd (shallow_prs c s1 s2) (s_q s2 - s_q s1) (s_m s2 - s_m s1)
            (checksum (sum64 (active01 (srv_time c s2))) (s_q s2) (s_m s2))).
  split.
  - unfold calc_update. rewrite (mk_data_shallow c s2 Hsh).
    cbn [d_mtime d_q d_m d_check].
    assert (HA : exists A, d_mtime last = Some A /\
               length A = clen c n /\
               (forall p, In p (client_tracked c) ->
                  N.odd (nth p A 0) = N.odd (nth p (mirror c s1) 0)) /\
               d_q last = s_q s1 /\ d_m last = s_m s1).
    { unfold last. destruct hello.
      - exists (mirror c s1). cbn [hello_data d_mtime d_q d_m].
        repeat split; try reflexivity.
        + apply (mirror_length c n s1 eq_refl).
      - exists (active01 (srv_time c s1)). rewrite (mk_data_shallow c s1 Hsh).
        cbn [d_mtime d_q d_m]. repeat split; try reflexivity.
        + rewrite active01_length. apply (srv_time_length c n s1 eq_refl).
        + intros p Hp. rewrite active01_odd.
          rewrite (mirror_nth c n Hwf s1 eq_refl p Hp).
          now rewrite (srv_time_nth c n s1 eq_refl p Hp). }
    destruct HA as [A [HA1 [HA2 [HA3 [HA4 HA5]]]]].
    rewrite HA1, HA4, HA5.
    rewrite (gen_shallow_ok c s1 s2 A Hlen Hwf HA2 HA3).
    rewrite (q_delta _ _ Hq1 Hq2 Hq3). rewrite (m_delta _ _ Hm1 Hm2 Hm3).
    reflexivity.
  - destruct (client_apply_shallow c (shallow_prs c s1 s2) (s_q s2 - s_q s1)
                (s_m s2 - s_m s1)
                (checksum (sum64 (active01 (srv_time c s2))) (s_q s2) (s_m s2))
                t (s_q s1) (s_m s1) Hsh) as [acc Hacc].
    + rewrite Htl. apply (wf_clen16 c n Hwf).
    + exact Hbound.
    + exact Hposb.
    + rewrite Hacc. unfold values_shallow_ok.
      rewrite (add64_delta _ _ Hq1 Hq3), (add32_delta _ _ Hm1 Hm3), !N.eqb_refl.
      replace (parities (bump t (shallow_prs c s1 s2))) with (parities (mirror c s2)).
      * now rewrite list_bool_eqb_refl.
      * apply (nth_ext _ _ false false).
        -- rewrite !parities_length, bump_length, Htl.
           apply (mirror_length c n s2 (eq_sym Hlen)).
        -- intros j Hj.
           rewrite parities_length, (mirror_length c n s2 (eq_sym Hlen)) in Hj.
           rewrite !nth_parities. unfold shallow_prs.
           rewrite (shallow_bump_odd (mirror c s1) (srv_time c s2) t (client_tracked c)
                      (wf_pos_NoDup c n Hwf) Hposb (fun p _ => Hpj p)).
           destruct (memb j (client_tracked c)) eqn:Hm.
           ++ apply memb_In in Hm.
              rewrite (mirror_nth c n Hwf s2 (eq_sym Hlen) j Hm).
              now rewrite (srv_time_nth c n s2 (eq_sym Hlen) j Hm).
           ++ rewrite Hpj.
              rewrite (mirror_nth_out c n s1 eq_refl j Hj Hm).
              now rewrite (mirror_nth_out c n s2 (eq_sym Hlen) j Hj Hm).
Qed.

(* ------------------------------------------------------------------ *)
(* (5) chains of mutations (calcUpdateMutations), deep mode            *)

Fixpoint apply_chain (c : cfg) (us : list upd) (t : list N) (q m : N)
  : option (list N * N * N) :=
  match us with
  | [] => Some (t, q, m)
  | u :: r =>
    match client_apply c u t q m with
    | Some (t', q', m', true) => apply_chain c r t' q' m'
    | _ => None                      (* panic, or rejected by the checksum *)
    end
  end.

(* every consecutive pair of snapshots satisfies the hypotheses of (1) *)
Fixpoint chain_ok (s0 : snap) (ss : list snap) : Prop :=
  match ss with
  | [] => True
  | s1 :: r =>
    length (s_time s0) = length (s_time s1) /\ snaps_in_range s0 s1 = true /\
    chain_ok s1 r
  end.

Lemma last_cons : forall (A : Type) (r : list A) (a d : A), last (a :: r) d = last r a.
Proof.
  induction r as [|b r IH]; intros a d; [reflexivity|].
  change (last (a :: b :: r) d) with (last (b :: r) d). now rewrite !IH.
Qed.

Theorem mutation_chain_lemma :
  forall (c : cfg) (ss : list snap) (s0 : snap),
    shallow c = false ->
    cfg_wf c (length (s_time s0)) = true ->
    chain_ok s0 ss ->
    exists us,
      calc_update_muts c (map (mk_data c) ss) (mk_data c s0) = Some us /\
      length us = length ss /\
      apply_chain c us (mirror c s0) (s_q s0) (s_m s0)
      = Some (mirror c (last ss s0), s_q (last ss s0), s_m (last ss s0)).
Proof.
  intros c. induction ss as [|s1 r IH]; intros s0 Hsh Hwf Hch.
  - exists []. repeat split.
  - destruct Hch as [Hlen [Hrng Hch]].
    destruct (roundtrip_deep_eq c s0 s1 false Hsh Hlen Hwf Hrng)
      as [u [Hu Ha]].
    change (last_data c false s0) with (mk_data c s0) in Hu.
    assert (Hwf1 : cfg_wf c (length (s_time s1)) = true) by (now rewrite <- Hlen).
    destruct (IH s1 Hsh Hwf1 Hch) as [us [Hus [Hl Hap]]].
    exists (u :: us). cbn [map calc_update_muts apply_chain length].
    rewrite Hu, Hus, Ha, last_cons. repeat split; [now f_equal|exact Hap].
Qed.

(* ------------------------------------------------------------------ *)
(* (4) refutations: defects of the modelled code, by concrete witness  *)

Ltac conc := vm_compute; first [reflexivity | discriminate | (intros; discriminate)].
Ltac splits := repeat match goal with |- _ /\ _ => split end.
(* no vm_compute on a [Forall (fun x => x < w64) _] goal: normalising the
   comparison against an open variable blows up *)
Ltac conc1 :=
  match goal with
  | |- Forall _ _ => repeat (constructor; [conc|]); constructor
  | _ => conc
  end.

(* uint16 truncation of the queue-tick delta: a delta of exactly 2^16 is
   decoded as 0, and the mod-256 checksum cannot see it *)
Definition qb_c : cfg := {| sync_schema := true; shallow := false; tracked := [0%nat; 2%nat] |}.
Definition qb_s1 : snap := {| s_time := [1; 4; 2]; s_q := 7; s_m := 3 |}.
Definition qb_s2 : snap := {| s_time := [3; 9; 2]; s_q := 7 + 65536; s_m := 4 |}.

Theorem roundtrip_queue_boundary_refuted_lemma :
  exists (c : cfg) (s1 s2 : snap),
    shallow c = false /\
    length (s_time s1) = length (s_time s2) /\
    cfg_wf c (length (s_time s1)) = true /\
    deltas_ok w32 (s_time s1) (s_time s2) = true /\
    s_q s1 <= s_q s2 /\ s_q s2 - s_q s1 = 65536 /\ s_q s2 < w64 /\
    s_m s1 <= s_m s2 /\ s_m s2 - s_m s1 < w8 /\ s_m s2 < w32 /\
    exists u t' q' m',
      calc_update c false (mk_data c s2) (mk_data c s1) = Some u /\
      client_apply c u (mirror c s1) (s_q s1) (s_m s1) = Some (t', q', m', true) /\
      q' <> s_q s2 /\
      roundtrip_deep_ok c s2 (client_apply c u (mirror c s1) (s_q s1) (s_m s1)) = false.
Proof.
  exists qb_c, qb_s1, qb_s2.
  splits; try conc.
  do 4 eexists. splits; conc.
Qed.

(* uint32 truncation of a per-state tick delta: a delta of exactly 2^32 is
   pushed as tick 0, and the mod-256 checksum cannot see it *)
Definition tb_s2 : snap := {| s_time := [1 + 4294967296; 9; 2]; s_q := 9; s_m := 4 |}.

Theorem roundtrip_tick_boundary_refuted_lemma :
  exists (c : cfg) (s1 s2 : snap),
    shallow c = false /\
    length (s_time s1) = length (s_time s2) /\
    cfg_wf c (length (s_time s1)) = true /\
    deltas_ok (w32 + 1) (s_time s1) (s_time s2) = true /\   (* every delta <= 2^32 *)
    nth 0 (s_time s2) 0 - nth 0 (s_time s1) 0 = 4294967296 /\
    s_q s1 <= s_q s2 /\ s_q s2 - s_q s1 < w16 /\ s_q s2 < w64 /\
    s_m s1 <= s_m s2 /\ s_m s2 - s_m s1 < w8 /\ s_m s2 < w32 /\
    exists u t' q' m',
      calc_update c false (mk_data c s2) (mk_data c s1) = Some u /\
      client_apply c u (mirror c s1) (s_q s1) (s_m s1) = Some (t', q', m', true) /\
      nth 0 t' 0 <> nth 0 (mirror c s2) 0 /\
      roundtrip_deep_ok c s2 (client_apply c u (mirror c s1) (s_q s1) (s_m s1)) = false.
Proof.
  exists qb_c, qb_s1, tb_s2.
  splits; try conc.
  do 4 eexists. splits; conc.
Qed.

(* shallow clocks: the server checksums the activity bits of its mTime, the
   client checksums NewTime(tracked indexes); a faithful mirror is rejected *)
Definition sh_c : cfg := {| sync_schema := true; shallow := true; tracked := [0%nat; 2%nat] |}.
Definition sh_s2 : snap := {| s_time := [2; 5; 2]; s_q := 9; s_m := 4 |}.

Theorem shallow_accept_refuted_lemma :
  exists (c : cfg) (s1 s2 : snap),
    shallow c = true /\
    length (s_time s1) = length (s_time s2) /\
    cfg_wf c (length (s_time s1)) = true /\
    snaps_in_range s1 s2 = true /\
    exists u t' q' m',
      calc_update c true (mk_data c s2) (mk_data c s1) = Some u /\
      client_apply c u (mirror c s1) (s_q s1) (s_m s1) = Some (t', q', m', false) /\
      values_shallow_ok c s2 (client_apply c u (mirror c s1) (s_q s1) (s_m s1)) = true.
Proof.
  exists sh_c, qb_s1, sh_s2.
  splits; try conc.
  do 4 eexists. splits; conc.
Qed.

(* the same without schema sync and without any change between snapshots *)
Definition sh_c' : cfg := {| sync_schema := false; shallow := true; tracked := [0%nat; 2%nat] |}.

Theorem shallow_accept_refuted_nosync_lemma :
  exists (c : cfg) (s1 : snap),
    shallow c = true /\ sync_schema c = false /\
    cfg_wf c (length (s_time s1)) = true /\
    snaps_in_range s1 s1 = true /\
    exists u t' q' m',
      calc_update c true (mk_data c s1) (mk_data c s1) = Some u /\
      client_apply c u (mirror c s1) (s_q s1) (s_m s1) = Some (t', q', m', false) /\
      values_shallow_ok c s1 (client_apply c u (mirror c s1) (s_q s1) (s_m s1)) = true.
Proof.
  exists sh_c', qb_s1.
  splits; try conc.
  do 4 eexists. splits; conc.
Qed.

(* RemoteHello used to memorise machTick 0 (former hello_machtick_refuted);
   it now memorises the machine tick, and the former witness round-trips *)
Definition hm_s1 : snap := {| s_time := [1; 4; 2]; s_q := 7; s_m := 1 |}.
Definition hm_s2 : snap := {| s_time := [3; 9; 2]; s_q := 9; s_m := 1 |}.

Theorem hello_machtick_roundtrip_lemma :
  exists (c : cfg) (s1 s2 : snap),
    shallow c = false /\
    length (s_time s1) = length (s_time s2) /\
    cfg_wf c (length (s_time s1)) = true /\
    snaps_in_range s1 s2 = true /\
    s_m s1 = 1 /\ s_m s2 = 1 /\
    exists u,
      calc_update c false (mk_data c s2) (hello_data c s1) = Some u /\
      client_apply c u (mirror c s1) (s_q s1) (s_m s1)
      = Some (mirror c s2, s_q s2, s_m s2, true) /\
      roundtrip_deep_ok c s2 (client_apply c u (mirror c s1) (s_q s1) (s_m s1)) = true.
Proof.
  exists qb_c, hm_s1, hm_s2.
  splits; try conc.
  eexists. splits; conc.
Qed.

(* ------------------------------------------------------------------ *)
(* non-vacuity of the implication theorems                             *)

Definition nv_s2 : snap := {| s_time := [3; 9; 2]; s_q := 9; s_m := 4 |}.
Definition nv_s0 : snap := {| s_time := [1; 4; 2]; s_q := 7; s_m := 0 |}.

Example roundtrip_deep_nonvacuous :
  exists (c : cfg) (s1 s2 : snap),
    shallow c = false /\
    length (s_time s1) = length (s_time s2) /\
    cfg_wf c (length (s_time s1)) = true /\
    snaps_in_range s1 s2 = true /\
    mirror c s1 <> mirror c s2.
Proof.
  exists qb_c, qb_s1, nv_s2. splits; conc.
Qed.

Example checksum_detects_nonvacuous :
  exists (c : cfg) (s1 s2 : snap) (t : list N) (q m : N),
    shallow c = false /\
    length (s_time s1) = length (s_time s2) /\
    cfg_wf c (length (s_time s1)) = true /\
    snaps_in_range s1 s2 = true /\
    length t = length (mirror c s1) /\
    Forall (fun x => x < w64) t /\ q < w64 /\ m < w32 /\
    drifted c s1 t q m = true.
Proof.
  exists qb_c, qb_s1, nv_s2, [2; 0; 2], 7, 3.
  splits; conc1.
Qed.

Example roundtrip_shallow_values_nonvacuous :
  exists (c : cfg) (s1 s2 : snap) (t : list N),
    shallow c = true /\
    length (s_time s1) = length (s_time s2) /\
    cfg_wf c (length (s_time s1)) = true /\
    Forall (fun x => x < w64) (s_time s1) /\ Forall (fun x => x < w64) (s_time s2) /\
    s_q s1 <= s_q s2 /\ s_q s2 - s_q s1 < w16 /\ s_q s2 < w64 /\
    s_m s1 <= s_m s2 /\ s_m s2 - s_m s1 < w8 /\ s_m s2 < w32 /\
    length t = length (mirror c s1) /\ parities t = parities (mirror c s1) /\
    Forall (fun x => x < w64) t /\
    t <> mirror c s1 /\ parities (mirror c s1) <> parities (mirror c s2).
Proof.
  exists sh_c, qb_s1, sh_s2, [11; 0; 6].
  splits; conc1.
Qed.

Example mutation_chain_nonvacuous :
  exists (c : cfg) (s0 : snap) (ss : list snap),
    shallow c = false /\
    cfg_wf c (length (s_time s0)) = true /\
    chain_ok s0 ss /\ (2 <= length ss)%nat.
Proof.
  exists qb_c, nv_s0, [qb_s1; nv_s2].
  split; [conc|]. split; [conc|]. split; [|cbn; lia].
  cbn [chain_ok]. splits; first [conc | exact I].
Qed.
