(* C19 — proofs: exclusive (pairwise Removing) state groups hold after every
   resolution, hence in every reachable state. Builds on C02Proofs. *)

From Coq Require Import List Bool Arith Lia.
From AMV Require Import Base.ListSet Model.Schema Model.Resolver Spec.C02 Spec.C19.
From AMV Require Import Proofs.C02Proofs.
Import ListNotations.

(* ------------------------------------------------------------------ *)
(* counting                                                            *)
(* ------------------------------------------------------------------ *)

Lemma count_in_le1 : forall g l, NoDup l ->
  (forall x y, In x l -> In y l -> In x g -> In y g -> x = y) ->
  count_in g l <= 1.
Proof.
  intros g l Hnd Huniq. unfold count_in.
  pose proof (NoDup_filter (fun x => mem x g) Hnd) as Hndf.
  destruct (filter (fun x => mem x g) l) as [|x [|y r]] eqn:E; simpl; try lia.
  exfalso.
  assert (Hx : In x (filter (fun x => mem x g) l)) by (rewrite E; left; reflexivity).
  assert (Hy : In y (filter (fun x => mem x g) l)) by (rewrite E; right; left; reflexivity).
  apply filter_In in Hx. apply filter_In in Hy.
  destruct Hx as [Hxl Hxg]. destruct Hy as [Hyl Hyg].
  apply mem_In in Hxg. apply mem_In in Hyg.
  assert (Heq : x = y) by (apply Huniq; assumption).
  subst y. inversion Hndf as [|? ? Hnotin _]; subst. apply Hnotin. left. reflexivity.
Qed.

(* ------------------------------------------------------------------ *)
(* group_safe, unfolded                                                *)
(* ------------------------------------------------------------------ *)

Lemma pairwise_removing_spec : forall sc g a b,
  pairwise_removing sc g = true -> In a g -> In b g -> a <> b ->
  mem b (s_remove (sget sc a)) = true.
Proof.
  intros sc g a b Hpw Ha Hb Hne. unfold pairwise_removing in Hpw.
  rewrite forallb_forall in Hpw. specialize (Hpw a Ha).
  rewrite forallb_forall in Hpw. specialize (Hpw b Hb).
  apply orb_true_iff in Hpw. destruct Hpw as [Heq|Hrem]; [|exact Hrem].
  apply Nat.eqb_eq in Heq. contradiction.
Qed.

Lemma add_target_intro : forall sc g a z,
  In z g -> In z (s_add (sget sc a)) -> In z (add_targets sc g).
Proof.
  intros sc g a z Hz Hadd. unfold add_targets. apply filter_In. split.
  - apply uniq_In. exact Hz.
  - apply existsb_exists. exists a. split.
    + unfold all_states. apply in_seq. pose proof (sget_add_lt sc a z Hadd). lia.
    + apply mem_In. exact Hadd.
Qed.

Lemma short_list_unique : forall (l : list nat) x y,
  length l <= 1 -> In x l -> In y l -> x = y.
Proof.
  intros l x y Hlen Hx Hy. destruct l as [|a [|b r]]; simpl in *.
  - contradiction.
  - destruct Hx as [Hx|[]]. destruct Hy as [Hy|[]]. congruence.
  - lia.
Qed.

Lemma group_safe_spec : forall sc g, group_safe sc g = true ->
  pairwise_removing sc g = true /\ length (add_targets sc g) <= 1.
Proof.
  intros sc g H. unfold group_safe in H. apply andb_true_iff in H.
  destruct H as [H1 H2]. apply Nat.leb_le in H2. tauto.
Qed.

(* ------------------------------------------------------------------ *)
(* (1) one resolution leaves at most one member of a safe group        *)
(* ------------------------------------------------------------------ *)

(* a target state either left the scan, or is an Add target; in both cases no
   state that left the scan Removes it *)
Lemma target_member_cases : forall c to_set x,
  In x (target_states c to_set) ->
  (In x (resolved_list c to_set) \/ exists a, In x (s_add (sget (rc_schema c) a))) /\
  (forall a, In a (resolved_list c to_set) ->
     mem x (s_remove (sget (rc_schema c) a)) = true -> False).
Proof.
  intros c to_set x Hin. destruct (target_In c to_set x Hin) as [Hpa Hno].
  split; [|exact Hno].
  apply parse_add_In in Hpa. destruct Hpa as [Hres|[a [_ Hx]]]; [left; exact Hres|].
  right. exists a. apply add_of_In in Hx. apply Hx.
Qed.

Lemma group_exclusive_target_lemma : forall c to_set g,
  group_safe (rc_schema c) g = true -> count_in g (target_states c to_set) <= 1.
Proof.
  intros c to_set g Hsafe. apply group_safe_spec in Hsafe. destruct Hsafe as [Hpw Hadd].
  apply count_in_le1.
  - unfold target_states. apply sort_states_NoDup. rewrite target_unsorted_eq.
    apply parse_require_NoDup. apply NoDup_rev. apply uniq_NoDup.
  - intros x y Hx Hy Hgx Hgy.
    destruct (Nat.eq_dec x y) as [Heq|Hne]; [exact Heq|]. exfalso.
    destruct (target_member_cases c to_set x Hx) as [Hcx Hnox].
    destruct (target_member_cases c to_set y Hy) as [Hcy Hnoy].
    destruct Hcx as [Hxres|[a Hxa]].
    + (* x left the scan and Removes y: y is filtered out *)
      apply (Hnoy x Hxres). apply pairwise_removing_spec with (g := g); assumption.
    + destruct Hcy as [Hyres|[b Hyb]].
      * apply (Hnox y Hyres). apply pairwise_removing_spec with (g := g); auto.
      * (* both are Add targets: at most one group member is *)
        apply Hne. apply short_list_unique with (l := add_targets (rc_schema c) g).
        -- exact Hadd.
        -- eapply add_target_intro; eassumption.
        -- eapply add_target_intro; eassumption.
Qed.

Lemma group_exclusive_step_lemma : forall sc topo active mt called g,
  group_safe sc g = true -> count_in g (resolve sc topo active mt called) <= 1.
Proof.
  intros sc topo active mt called g Hsafe. unfold resolve.
  apply (group_exclusive_target_lemma
    {| rc_schema := sc; rc_before := active; rc_mtype := mt;
       rc_called := called; rc_topology := topo |}). exact Hsafe.
Qed.

(* ------------------------------------------------------------------ *)
(* (2), (3) reachable states                                           *)
(* ------------------------------------------------------------------ *)

Lemma group_exclusive_from_lemma : forall sc topo g start (ops : list (mut_type * list nat)),
  group_safe sc g = true -> exclusive_ok g start = true ->
  exclusive_ok g (fold_left (fun act op => resolve sc topo act (fst op) (snd op)) ops start) = true.
Proof.
  intros sc topo g start ops Hsafe Hstart.
  apply (fold_resolve_inv (fun l => exclusive_ok g l = true)); [|exact Hstart].
  intros active mt called. unfold exclusive_ok. apply Nat.leb_le.
  apply group_exclusive_step_lemma. exact Hsafe.
Qed.

(* after at least one mutation nothing at all is needed about the start *)
Lemma group_exclusive_after_step_lemma :
  forall sc topo g start op (ops : list (mut_type * list nat)),
  group_safe sc g = true ->
  exclusive_ok g
    (fold_left (fun act op => resolve sc topo act (fst op) (snd op)) (op :: ops) start) = true.
Proof.
  intros sc topo g start op ops Hsafe. simpl.
  apply group_exclusive_from_lemma; [exact Hsafe|].
  unfold exclusive_ok. apply Nat.leb_le. apply group_exclusive_step_lemma. exact Hsafe.
Qed.

Lemma group_exclusive_reachable_lemma : forall sc topo g ops,
  group_safe sc g = true -> exclusive_ok g (reach sc topo ops) = true.
Proof.
  intros sc topo g ops Hsafe. unfold reach.
  apply group_exclusive_from_lemma; [exact Hsafe | reflexivity].
Qed.

Lemma require_closed_reachable_lemma : forall sc topo ops,
  r1_ok sc (reach sc topo ops) = true.
Proof. intros sc topo ops. unfold reach. apply inv_reachable_lemma. Qed.

Lemma nodup_reachable_lemma : forall sc topo ops, NoDup (reach sc topo ops).
Proof. intros sc topo ops. unfold reach. apply inv_reachable_NoDup_lemma. Qed.

(* ------------------------------------------------------------------ *)
(* (4) why the Add-target side condition is there                      *)
(* ------------------------------------------------------------------ *)

Definition mk_sd2 (auto multi : bool) (req add rem : list nat) : sdef :=
  {| s_auto := auto; s_multi := multi; s_require := req; s_add := add;
     s_remove := rem; s_after := [] |}.

(* 0 Adds 1; 1 Adds the mutually Removing pair 2, 3. Add [0]: 1 enters in the
   first parseAdd pass, 2 and 3 only in the second one, after the scan, and
   no state that left the scan Removes them *)
Definition unsafe_schema : schema :=
  [mk_sd2 false false [] [1] []; mk_sd2 false false [] [2; 3] [];
   mk_sd2 false false [] [] [3]; mk_sd2 false false [] [] [2]].

Lemma group_safe_necessary_refuted_lemma :
  exists sc topo active mt called g,
    pairwise_removing sc g = true /\ group_safe sc g = false /\
    resolve sc topo active mt called = [3; 2; 0; 1] /\
    count_in g (resolve sc topo active mt called) >= 2.
Proof.
  exists unsafe_schema, [], [], MAdd, [0], [2; 3]. vm_compute.
  repeat split; reflexivity.
Qed.

(* a state that directly Adds both members is handled by the resolver (the
   scan keeps one, whose Remove filters the other): group_safe is sufficient,
   not necessary *)
Lemma group_safe_not_necessary_lemma :
  let sc := [mk_sd2 false false [] [1; 2] []; mk_sd2 false false [] [] [2];
             mk_sd2 false false [] [] [1]] in
  group_safe sc [1; 2] = false /\ resolve sc [] [] MAdd [0] = [0; 1] /\
  count_in [1; 2] (resolve sc [] [] MAdd [0]) = 1.
Proof. vm_compute. repeat split; reflexivity. Qed.

(* ------------------------------------------------------------------ *)
(* (5) non-vacuity: a connection-style schema                          *)
(* ------------------------------------------------------------------ *)

(* 0 Start (Adds Connecting); 1 Connecting, 2 Connected (Require Start);
   3 Disconnecting; 4 Disconnected (Auto); 1..4 mutually Removing; 5 Exception *)
Definition conn_schema : schema :=
  [mk_sd2 false false [] [1] [];
   mk_sd2 false false [0] [] [2; 3; 4];
   mk_sd2 false false [0] [] [1; 3; 4];
   mk_sd2 false false [] [] [1; 2; 4];
   mk_sd2 true false [] [] [1; 2; 3];
   mk_sd2 false true [] [] []].

Lemma group_exclusive_nonvacuous_lemma :
  group_safe conn_schema [1; 2; 3; 4] = true /\
  add_targets conn_schema [1; 2; 3; 4] = [1] /\
  require_acyclic conn_schema = true /\
  reach conn_schema [] [(MAdd, [0])] = [0; 1] /\
  reach conn_schema [] [(MAdd, [0]); (MAdd, [2])] = [2; 0] /\
  reach conn_schema [] [(MAdd, [0]); (MAdd, [2]); (MAdd, [3])] = [3; 0] /\
  reach conn_schema [] [(MAdd, [0]); (MAdd, [2]); (MAdd, [4; 1])] = [4; 0] /\
  reach conn_schema [] [(MAdd, [0]); (MAdd, [2]); (MAdd, [3]); (MRemove, [0])] = [3] /\
  count_in [1; 2; 3; 4] (reach conn_schema [] [(MAdd, [0]); (MAdd, [2]); (MAdd, [3])]) = 1.
Proof. vm_compute. repeat split; reflexivity. Qed.
