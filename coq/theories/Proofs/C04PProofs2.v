(* C04p (part 2) — proofs over the generalised interleaving model
   Conc/QueueLockP.v: none lost / none twice, truthful results, and
   "all done => all executed", for any number of threads (check or not),
   any schedule. Same invariants as C04Proofs.v; the prepend of a check thread
   makes [enqueued] grow in the middle, hence permutations instead of
   equalities. *)
From Coq Require Import List Bool Arith Lia Permutation.
From AMV Require Import Conc.QueueLockP Proofs.C04PProofs.
From AMV Require Spec.C04 Proofs.C04Proofs.
Import ListNotations.

(* all mutation ids, own and nested, of all threads *)
Definition ids_of (muts : list (nat * list nat * bool)) : list nat :=
  flat_map (fun p => fst (fst p) :: snd (fst p)) muts.

Definition ids_of2 (pm : list (nat * list nat)) : list nat :=
  flat_map (fun p => fst p :: snd p) pm.

Lemma ids_of_ids_of2 : forall muts, ids_of muts = ids_of2 (map fst muts).
Proof.
  induction muts as [|[[a b] k] r IH]; simpl; [reflexivity|].
  f_equal. f_equal. exact IH.
Qed.

Lemma NoDup_app_inv : forall A (a b : list A),
  NoDup (a ++ b) -> NoDup a /\ NoDup b /\ (forall x, In x a -> ~ In x b).
Proof.
  induction a as [|h a IH]; simpl; intros b H.
  - repeat split; auto. constructor.
  - inversion H as [|y l' Hn Hd]; subst. destruct (IH _ Hd) as (Ha & Hb & Hdis).
    repeat split; auto.
    + constructor; auto. intro Hin. apply Hn. apply in_or_app. auto.
    + intros x [Hx|Hx].
      * subst. intro Hin. apply Hn. apply in_or_app. auto.
      * auto.
Qed.

Lemma NoDup_app_intro : forall A (a b : list A),
  NoDup a -> NoDup b -> (forall x, In x a -> ~ In x b) -> NoDup (a ++ b).
Proof.
  induction a as [|h a IH]; simpl; intros b Ha Hb Hdis; auto.
  inversion Ha as [|y l' Hn Hd]; subst. constructor.
  - intro Hin. apply in_app_or in Hin. destruct Hin as [Hin|Hin]; auto.
    apply (Hdis h); auto.
  - apply IH; auto.
Qed.

(* ================================================================== *)
(* (b) results are truthful                                           *)
(* ================================================================== *)

Definition resI (t : thread) : Prop :=
  (forall k, t_res t = RQueued k -> k = t_tick t /\ t_pc t = PDone) /\
  (t_res t = RExecuted -> t_first t = true).

Lemma resI_step_thread : forall mode s i t,
  resI t -> resI (snd (step_thread mode s i t)).
Proof.
  intros mode s i t (HQ & HE). unfold step_thread, resI.
  assert (HnQ : t_pc t <> PDone -> forall k, t_res t <> RQueued k).
  { intros Hn k Hk. destruct (HQ k Hk) as [_ Hd]. contradiction. }
  destruct (t_pc t) eqn:Epc.
  - destruct (t_chk t) eqn:Echk; simpl; split; intros; discriminate.
  - assert (Hn : forall k, t_res t <> RQueued k) by (apply HnQ; discriminate).
    destruct (Nat.eqb (qlen s) 0); simpl.
    + destruct (t_res t) eqn:Er; split; intros; try discriminate; auto.
      exfalso. eapply Hn. reflexivity.
    + split; [intros k Hk; exfalso; eapply Hn; eauto | auto].
  - assert (Hn : forall k, t_res t <> RQueued k) by (apply HnQ; discriminate).
    destruct (processing s); simpl.
    + destruct (t_res t) eqn:Er; split; intros; try discriminate; auto.
      * match goal with H : RQueued _ = RQueued _ |- _ => inversion H; subst end. auto.
      * exfalso. eapply Hn. reflexivity.
    + split; [intros k Hk; exfalso; eapply Hn; eauto | auto].
  - assert (Hn : forall k, t_res t <> RQueued k) by (apply HnQ; discriminate).
    destruct (Nat.eqb (qlen s) 0); simpl;
      (split; [intros k Hk; exfalso; eapply Hn; eauto | auto]).
  - assert (Hn : forall k, t_res t <> RQueued k) by (apply HnQ; discriminate).
    destruct (queue s) as [|[m tick] rest]; simpl.
    + split; intros; discriminate.
    + split; [intros k Hk; exfalso; eapply Hn; eauto | auto].
  - assert (Hn : forall k, t_res t <> RQueued k) by (apply HnQ; discriminate).
    simpl. destruct (t_res t) eqn:Er.
    + destruct (t_first t) eqn:Ef; split; intros; try discriminate; auto.
    + split; intros; try discriminate; auto.
    + split; intros; try discriminate; auto.
    + exfalso. eapply Hn. reflexivity.
  - assert (Hn : forall k, t_res t <> RQueued k) by (apply HnQ; discriminate).
    destruct (recheck_again mode s); simpl;
      (split; [intros k Hk; exfalso; eapply Hn; eauto | auto]).
  - simpl. rewrite Epc. split; auto.
Qed.

Definition invR (c : cfg) : Prop := Forall resI (ths c).

Lemma invR_init : forall muts, invR (init_cfg muts).
Proof.
  intros muts. unfold invR, init_cfg. simpl. apply Forall_forall. intros t Hin.
  apply in_map_iff in Hin. destruct Hin as (p & Hp & _). subst t.
  unfold resI. simpl. split; intros; discriminate.
Qed.

Lemma invR_step : forall mode c i, invR c -> invR (step mode c i).
Proof.
  intros mode c i H.
  destruct (step_cases mode c i) as [[_ E]|(l1 & t & l2 & _ & Eths & _ & E)];
    rewrite E; [assumption|].
  unfold invR in *. simpl. rewrite Eths in H. apply Forall_split3 in H.
  destruct H as (H1 & Ht & H2). apply Forall_split3. split; [|split]; auto.
  apply resI_step_thread. exact Ht.
Qed.

Lemma results_truthful_p_lemma :
  forall (mode : rmode) (muts : list (nat * list nat * bool)) (sched : list nat) (t : thread),
    In t (ths (exec_sched mode (init_cfg muts) sched)) ->
    (forall k, t_res t = RQueued k -> k = t_tick t /\ t_pc t = PDone) /\
    (t_res t = RExecuted -> t_first t = true).
Proof.
  intros mode muts sched t Hin.
  assert (H : invR (exec_sched mode (init_cfg muts) sched)).
  { apply exec_sched_inv; [intros; apply invR_step; assumption | apply invR_init]. }
  unfold invR in H. rewrite Forall_forall in H. apply (H t Hin).
Qed.

(* a check thread carries no tick: its Queued result is the bare Queued *)
Definition chkI (t : thread) : Prop :=
  t_chk t = true -> t_tick t = 0.

Lemma chkI_step_thread : forall mode s i t,
  chkI t -> chkI (snd (step_thread mode s i t)) /\
  t_chk (snd (step_thread mode s i t)) = t_chk t.
Proof.
  intros mode s i t H. unfold step_thread, chkI in *.
  destruct (t_pc t) eqn:Epc.
  - destruct (t_chk t) eqn:Echk; simpl; split; auto. intros; discriminate.
  - destruct (Nat.eqb (qlen s) 0); simpl; auto.
  - destruct (processing s); simpl; auto.
  - destruct (Nat.eqb (qlen s) 0); simpl; auto.
  - destruct (queue s) as [|[m tick] rest]; simpl; auto.
  - simpl; auto.
  - destruct (recheck_again mode s); simpl; auto.
  - simpl; auto.
Qed.

Definition invC (c : cfg) : Prop := Forall chkI (ths c).

Lemma invC_reach : forall mode muts sched, invC (exec_sched mode (init_cfg muts) sched).
Proof.
  intros mode muts sched. apply exec_sched_inv.
  - intros c i H.
    destruct (step_cases mode c i) as [[_ E]|(l1 & t & l2 & _ & Eths & _ & E)];
      rewrite E; [assumption|].
    unfold invC in *. simpl. rewrite Eths in H. apply Forall_split3 in H.
    destruct H as (H1 & Ht & H2). apply Forall_split3. split; [|split]; auto.
    apply chkI_step_thread. exact Ht.
  - unfold invC, init_cfg. simpl. apply Forall_forall. intros t Hin.
    apply in_map_iff in Hin. destruct Hin as (p & Hp & _). subst t.
    unfold chkI. simpl. reflexivity.
Qed.

Lemma check_queued_bare_lemma :
  forall (mode : rmode) (muts : list (nat * list nat * bool)) (sched : list nat) (t : thread),
    In t (ths (exec_sched mode (init_cfg muts) sched)) ->
    t_chk t = true -> forall k, t_res t = RQueued k -> k = 0.
Proof.
  intros mode muts sched t Hin Hc k Hk.
  destruct (results_truthful_p_lemma mode muts sched t Hin) as [HQ _].
  destruct (HQ k Hk) as [-> _].
  pose proof (invC_reach mode muts sched) as H. unfold invC in H.
  rewrite Forall_forall in H. apply (H t Hin Hc).
Qed.

(* ================================================================== *)
(* (a) none lost, none twice                                          *)
(* ================================================================== *)

Definition enq_s (s : shared) : list nat :=
  map fst (rev (executed s)) ++ map fst (queue s).

Lemma enqueued_enq_s : forall c, enqueued c = enq_s (sh c).
Proof. reflexivity. Qed.

Lemma nested_for_cases : forall s m,
  nested_for s m = [] \/
  exists p, In p (nested_of s) /\ fst p = m /\ nested_for s m = snd p.
Proof.
  intros s m. unfold nested_for.
  destruct (find (fun p => Nat.eqb (fst p) m) (nested_of s)) as [p|] eqn:E; auto.
  right. apply find_some in E. destruct E as [Hin He]. apply Nat.eqb_eq in He.
  exists p. auto.
Qed.

Lemma perm_of_eq : forall (a b : list nat), a = b -> Permutation a b.
Proof. intros a b ->. apply Permutation_refl. Qed.

Lemma enq_effect : forall mode s i t,
  let s' := fst (step_thread mode s i t) in
  let t' := snd (step_thread mode s i t) in
  nested_of s' = nested_of s /\ t_mut t' = t_mut t /\ t_nested t' = t_nested t /\
  t_pc t' <> PEnq /\
  ( (t_pc t = PEnq /\ executed s' = executed s /\
     Permutation (enq_s s ++ [t_mut t]) (enq_s s'))
    \/ (t_pc t <> PEnq /\ exists m rest, map fst (queue s) = m :: rest /\
          executed s' = (m, i) :: executed s /\
          Permutation (enq_s s ++ nested_for s m) (enq_s s'))
    \/ (t_pc t <> PEnq /\ executed s' = executed s /\
        Permutation (enq_s s) (enq_s s'))).
Proof.
  intros mode s i t. unfold step_thread.
  destruct (t_pc t) eqn:Epc.
  - (* PEnq *)
    destruct (t_chk t) eqn:Echk.
    + simpl. repeat split; try congruence. left. repeat split; auto.
      unfold enq_s. simpl. rewrite <- app_assoc. apply Permutation_app_head.
      apply Permutation_sym. apply Permutation_cons_append.
    + simpl. repeat split; try congruence. left. repeat split; auto.
      apply perm_of_eq. unfold enq_s. simpl. rewrite map_app, app_assoc. reflexivity.
  - (* PEntry *)
    destruct (Nat.eqb (qlen s) 0); simpl; repeat split; try congruence;
      right; right; repeat split; try congruence; apply Permutation_refl.
  - (* PCas *)
    destruct (processing s); simpl; repeat split; try congruence;
      right; right; repeat split; try congruence; apply Permutation_refl.
  - (* PLoop *)
    destruct (Nat.eqb (qlen s) 0); simpl; repeat split; try congruence;
      right; right; repeat split; try congruence; apply Permutation_refl.
  - (* PPop *)
    destruct (queue s) as [|[m tick] rest] eqn:Eq.
    + simpl. repeat split; try congruence. right; right.
      repeat split; try congruence. apply Permutation_refl.
    + match goal with |- context [enqueue_all ?a ?b] =>
        destruct (enqueue_all_effect b a) as (H1 & H2 & H3 & H4 & H5 & ext & H6 & H7)
      end.
      simpl in *. repeat split; try congruence.
      right; left. split; [congruence|]. exists m, (map fst rest).
      repeat split; auto.
      apply perm_of_eq. unfold enq_s. rewrite Eq, H6, H3. simpl.
      rewrite !map_app, H7. simpl. rewrite <- !app_assoc. reflexivity.
  - (* PRelease *)
    simpl. repeat split; try congruence. right; right.
    repeat split; try congruence. apply Permutation_refl.
  - (* PRecheck *)
    destruct (recheck_again mode s); simpl; repeat split; try congruence;
      right; right; repeat split; try congruence; apply Permutation_refl.
  - (* PDone *)
    simpl. repeat split; try congruence. right; right.
    repeat split; try congruence. apply Permutation_refl.
Qed.

(* static part: who issues what never changes *)
Definition invStat (pm : list (nat * list nat)) (c : cfg) : Prop :=
  nested_of (sh c) = pm /\ map (fun t => (t_mut t, t_nested t)) (ths c) = pm.

Lemma invStat_init : forall muts, invStat (map fst muts) (init_cfg muts).
Proof.
  intros muts. unfold invStat, init_cfg. simpl. split; auto.
  rewrite map_map. apply map_ext. intros [[a b] k]. reflexivity.
Qed.

Lemma invStat_step : forall pm mode c i,
  invStat pm c -> invStat pm (step mode c i).
Proof.
  intros pm mode c i [H1 H2].
  destruct (step_cases mode c i) as [[_ E]|(l1 & t & l2 & _ & Eths & _ & E)];
    rewrite E; [split; assumption|].
  destruct (enq_effect mode (sh c) i t) as (Hn & Hm & Hne & _).
  unfold invStat. simpl. split; [congruence|].
  rewrite Eths in H2. rewrite map_app in *. simpl in *. rewrite Hm, Hne. exact H2.
Qed.

Lemma invStat_thread : forall pm c t,
  invStat pm c -> In t (ths c) -> In (t_mut t, t_nested t) pm.
Proof.
  intros pm c t [_ H] Hin. rewrite <- H.
  apply (in_map (fun t => (t_mut t, t_nested t))). exact Hin.
Qed.

(* unconditional part: whoever passed the enqueue is in; nested of executed are in *)
Definition invS (c : cfg) : Prop :=
  (forall t, In t (ths c) -> t_pc t <> PEnq -> In (t_mut t) (enq_s (sh c))) /\
  (forall m, In m (map fst (executed (sh c))) ->
     forall n, In n (nested_for (sh c) m) -> In n (enq_s (sh c))).

Lemma invS_init : forall muts, invS (init_cfg muts).
Proof.
  intros muts. split.
  - intros t Hin Hn. simpl in Hin. apply in_map_iff in Hin. destruct Hin as (p & Hp & _).
    subst t. simpl in Hn. congruence.
  - simpl. intros m [].
Qed.

Lemma nested_for_same : forall s s' m, nested_of s' = nested_of s -> nested_for s' m = nested_for s m.
Proof. intros s s' m H. unfold nested_for. rewrite H. reflexivity. Qed.

Lemma invS_step : forall mode c i, invS c -> invS (step mode c i).
Proof.
  intros mode c i [HT HN].
  destruct (step_cases mode c i) as [[_ E]|(l1 & t & l2 & _ & Eths & _ & E)];
    rewrite E; [split; assumption|].
  clear E.
  destruct (enq_effect mode (sh c) i t) as (Hno & Hm & _ & Hpc' & Hcase).
  assert (Hmono : incl (enq_s (sh c)) (enq_s (fst (step_thread mode (sh c) i t)))).
  { intros x Hx.
    destruct Hcase as [(_ & _ & He)|[(_ & m & rest & _ & _ & He)|(_ & _ & He)]];
      apply (Permutation_in _ He); auto; apply in_or_app; left; exact Hx. }
  unfold invS. simpl. rewrite Eths in HT. split.
  - intros tj Hin Hn. apply in_app_or in Hin. destruct Hin as [Hin|[Hin|Hin]].
    + apply Hmono. apply HT; auto. apply in_or_app. auto.
    + subst tj. rewrite Hm.
      destruct Hcase as [(_ & _ & He)|[(Hp & _)|(Hp & _)]].
      * apply (Permutation_in _ He). apply in_or_app. right. left. reflexivity.
      * apply Hmono. apply HT; auto. apply in_elt.
      * apply Hmono. apply HT; auto. apply in_elt.
    + apply Hmono. apply HT; auto. apply in_or_app. right. right. exact Hin.
  - intros m Hin n Hn. rewrite (nested_for_same _ _ m Hno) in Hn.
    destruct Hcase as [(_ & Hx & He)|[(_ & m0 & rest & _ & Hx & He)|(_ & Hx & He)]];
      rewrite Hx in Hin.
    + apply Hmono. eapply HN; eauto.
    + simpl in Hin. destruct Hin as [Hin|Hin].
      * subst m0. apply (Permutation_in _ He). apply in_or_app. right. exact Hn.
      * apply Hmono. eapply HN; eauto.
    + apply Hmono. eapply HN; eauto.
Qed.

(* distinct ids *)
Lemma flat_map_nodup_elem : forall (f : nat * list nat -> list nat) l p,
  NoDup (flat_map f l) -> In p l -> NoDup (f p).
Proof.
  induction l as [|a l IH]; simpl; intros p Hnd Hin; [contradiction|].
  apply NoDup_app_inv in Hnd. destruct Hnd as (Ha & Hl & _).
  destruct Hin as [->|Hin]; auto.
Qed.

Lemma flat_map_nodup_inj : forall (f : nat * list nat -> list nat) l p q x,
  NoDup (flat_map f l) -> In p l -> In q l -> In x (f p) -> In x (f q) -> p = q.
Proof.
  induction l as [|a l IH]; simpl; intros p q x Hnd Hp Hq Hxp Hxq; [contradiction|].
  apply NoDup_app_inv in Hnd. destruct Hnd as (Ha & Hl & Hdis).
  destruct Hp as [Hp|Hp]; destruct Hq as [Hq|Hq].
  - congruence.
  - subst a. exfalso. apply (Hdis x Hxp). apply in_flat_map. exists q. auto.
  - subst a. exfalso. apply (Hdis x Hxq). apply in_flat_map. exists p. auto.
  - eapply IH; eauto.
Qed.

Section Distinct.
  Variable muts : list (nat * list nat).
  Hypothesis Hnd : NoDup (ids_of2 muts).

  Lemma ids_snd_nodup : forall p, In p muts -> NoDup (snd p) /\ ~ In (fst p) (snd p).
  Proof.
    intros p Hp. pose proof (flat_map_nodup_elem _ _ _ Hnd Hp) as H. simpl in H.
    inversion H; subst. auto.
  Qed.

  Lemma ids_snd_snd : forall p q n,
    In p muts -> In q muts -> In n (snd p) -> In n (snd q) -> p = q.
  Proof.
    intros p q n Hp Hq Hnp Hnq.
    apply (flat_map_nodup_inj _ _ p q n Hnd Hp Hq); right; assumption.
  Qed.

  Lemma ids_snd_fst : forall p q n,
    In p muts -> In q muts -> In n (snd p) -> n <> fst q.
  Proof.
    intros p q n Hp Hq Hnp Heq.
    assert (Hpq : p = q).
    { apply (flat_map_nodup_inj _ _ p q n Hnd Hp Hq); [right; assumption | left; auto]. }
    subst q. destruct (ids_snd_nodup p Hp) as [_ Hx]. apply Hx. rewrite <- Heq. exact Hnp.
  Qed.

  Lemma ids_fst_nodup : NoDup (map fst muts).
  Proof.
    clear -Hnd. unfold ids_of2 in Hnd. induction muts as [|a l IH]; simpl in *; [constructor|].
    inversion Hnd as [|x r Hn Hd]; subst.
    apply NoDup_app_inv in Hd. destruct Hd as (_ & Hl & _).
    constructor; auto. intro Hin. apply Hn. apply in_or_app. right.
    apply in_map_iff in Hin. destruct Hin as (q & Hq1 & Hq2).
    apply in_flat_map. exists q. split; auto. left. exact Hq1.
  Qed.

  Lemma own_distinct : forall c l1 t l2 tj,
    invStat muts c -> ths c = l1 ++ t :: l2 -> In tj l1 \/ In tj l2 -> t_mut tj <> t_mut t.
  Proof.
    intros c l1 t l2 tj [_ HS] Eths Hin Heq.
    pose proof ids_fst_nodup as H. rewrite <- HS, map_map, Eths, map_app in H. simpl in H.
    apply NoDup_remove_2 in H. apply H. rewrite <- Heq. apply in_or_app.
    destruct Hin as [Hin|Hin]; [left|right]; apply (in_map (fun x => t_mut x)); exact Hin.
  Qed.

  (* the invariant over an explicit list of enqueued ids: closed under permutation *)
  Definition invE_on (E : list nat) (c : cfg) : Prop :=
    NoDup E /\
    (forall t, In t (ths c) -> t_pc t = PEnq -> ~ In (t_mut t) E) /\
    (forall p, In p muts -> ~ In (fst p) (map fst (executed (sh c))) ->
       forall n, In n (snd p) -> ~ In n E).

  Definition invE (c : cfg) : Prop := invE_on (enq_s (sh c)) c.

  Lemma invE_on_perm : forall E E' c, Permutation E E' -> invE_on E c -> invE_on E' c.
  Proof.
    intros E E' c HP (H1 & H2 & H3). split; [|split].
    - eapply Permutation_NoDup; eauto.
    - intros t Hin Hpc Hx. apply (H2 t Hin Hpc).
      apply (Permutation_in _ (Permutation_sym HP)). exact Hx.
    - intros p Hp Hne n Hn Hx. apply (H3 p Hp Hne n Hn).
      apply (Permutation_in _ (Permutation_sym HP)). exact Hx.
  Qed.

  Lemma invE_init : forall m3, invE (init_cfg m3).
  Proof.
    intros m3. unfold invE, invE_on, enq_s. simpl. repeat split; auto. constructor.
  Qed.

  Lemma invE_step : forall mode c i,
    invStat muts c -> invE c -> invE (step mode c i).
  Proof.
    intros mode c i HSt (HN & HT & HP).
    destruct (step_cases mode c i) as [[_ E]|(l1 & t & l2 & _ & Eths & _ & E)];
      rewrite E; [repeat split; assumption|].
    clear E.
    destruct (enq_effect mode (sh c) i t) as (Hno & Hm & _ & Hpc' & Hcase).
    assert (Hth : forall tj, In tj (ths c) -> In (t_mut tj, t_nested tj) muts).
    { intros tj Hin. eapply invStat_thread; eauto. }
    assert (Hold : forall tj, In tj (l1 ++ snd (step_thread mode (sh c) i t) :: l2) ->
              t_pc tj = PEnq -> (In tj l1 \/ In tj l2) /\ In tj (ths c)).
    { intros tj Hin Hpc. rewrite Eths. apply in_app_or in Hin. destruct Hin as [Hin|[Hin|Hin]].
      - split; auto. apply in_or_app. auto.
      - subst tj. contradiction.
      - split; auto. apply in_or_app. right. right. exact Hin. }
    assert (Htin : In t (ths c)) by (rewrite Eths; apply in_elt).
    unfold invE. cbn [sh ths].
    destruct Hcase as [(Hp & Hx & He)|[(Hp & m & rest & Hq & Hx & He)|(Hp & Hx & He)]];
      apply (invE_on_perm _ _ _ He); unfold invE_on; cbn [sh ths]; rewrite Hx.
    - (* enqueue / prepend of the own mutation *)
      split; [|split].
      + apply NoDup_app_intro; auto.
        * constructor; [intros []|constructor].
        * intros x Hx1 [Hx2|[]]. subst x. apply (HT t Htin Hp Hx1).
      + intros tj Hin Hpc Hin2. destruct (Hold tj Hin Hpc) as [Hl Hc].
        apply in_app_or in Hin2. destruct Hin2 as [Hin2|[Hin2|[]]].
        * apply (HT tj Hc Hpc Hin2).
        * apply (own_distinct c l1 t l2 tj HSt Eths Hl). auto.
      + intros p Hpin Hne n Hn Hin2. apply in_app_or in Hin2. destruct Hin2 as [Hin2|[Hin2|[]]].
        * apply (HP p Hpin Hne n Hn Hin2).
        * apply (ids_snd_fst p (t_mut t, t_nested t) n Hpin (Hth t Htin) Hn). auto.
    - (* pop of m: its nested mutations are enqueued *)
      assert (Hmne : ~ In m (map fst (executed (sh c)))).
      { intro Hin. unfold enq_s in HN. rewrite Hq in HN. apply NoDup_remove_2 in HN.
        apply HN. apply in_or_app. left. rewrite map_rev. apply in_rev in Hin. exact Hin. }
      destruct (nested_for_cases (sh c) m) as [Hnil|(p0 & Hp0 & Hf0 & Hnf)].
      + rewrite Hnil, app_nil_r. split; [|split]; auto.
        * intros tj Hin Hpc. destruct (Hold tj Hin Hpc) as [_ Hc]. apply HT; auto.
        * intros p Hpin Hne. apply HP; auto. intro Hin. apply Hne. right. exact Hin.
      + rewrite Hnf. destruct HSt as [HSt1 HSt2]. rewrite HSt1 in Hp0.
        destruct (ids_snd_nodup p0 Hp0) as [Hnd0 _].
        split; [|split].
        * apply NoDup_app_intro; auto.
          intros x Hx1 Hx2. apply (HP p0 Hp0 (eq_ind_r (fun z => ~ In z _) Hmne Hf0) x Hx2 Hx1).
        * intros tj Hin Hpc Hin2. destruct (Hold tj Hin Hpc) as [_ Hc].
          apply in_app_or in Hin2. destruct Hin2 as [Hin2|Hin2].
          -- apply (HT tj Hc Hpc Hin2).
          -- apply (ids_snd_fst p0 (t_mut tj, t_nested tj) (t_mut tj) Hp0 (Hth tj Hc) Hin2). auto.
        * intros q Hqin Hne n Hn Hin2. apply in_app_or in Hin2. destruct Hin2 as [Hin2|Hin2].
          -- apply (HP q Hqin) in Hin2; auto. intro Hin3. apply Hne. right. exact Hin3.
          -- assert (q = p0) by (eapply ids_snd_snd; eauto). subst q.
             apply Hne. left. simpl. auto.
    - (* queue and executed unchanged *)
      split; [|split]; auto.
      intros tj Hin Hpc. destruct (Hold tj Hin Hpc) as [_ Hc]. apply HT; auto.
  Qed.

  Lemma nested_for_of_muts : forall s m ns,
    nested_of s = muts -> In (m, ns) muts -> nested_for s m = ns.
  Proof.
    intros s m ns Hs Hin. unfold nested_for. rewrite Hs.
    destruct (find (fun p => Nat.eqb (fst p) m) muts) as [p|] eqn:E.
    - apply find_some in E. destruct E as [Hp He]. apply Nat.eqb_eq in He.
      assert (Hpe : p = (m, ns)).
      { apply (flat_map_nodup_inj _ _ p (m, ns) m Hnd Hp Hin); left; auto. }
      subst p. reflexivity.
    - apply (find_none _ _ E) in Hin. simpl in Hin.
      rewrite Nat.eqb_refl in Hin. discriminate.
  Qed.
End Distinct.

Lemma invSE_reach : forall muts3, NoDup (ids_of2 (map fst muts3)) ->
  forall mode sched,
  let c := exec_sched mode (init_cfg muts3) sched in
  invStat (map fst muts3) c /\ invE (map fst muts3) c.
Proof.
  intros muts3 Hnd mode sched.
  apply (exec_sched_inv (fun c => invStat (map fst muts3) c /\ invE (map fst muts3) c)).
  - intros c i [H1 H2]. split; [apply invStat_step | apply invE_step]; assumption.
  - split; [apply invStat_init | apply invE_init].
Qed.

Lemma invStatS_reach : forall mode muts sched,
  let c := exec_sched mode (init_cfg muts) sched in invStat (map fst muts) c /\ invS c.
Proof.
  intros mode muts sched.
  apply (exec_sched_inv (fun c => invStat (map fst muts) c /\ invS c)).
  - intros c i [H1 H2]. split; [apply invStat_step | apply invS_step]; assumption.
  - split; [apply invStat_init | apply invS_init].
Qed.

Lemma none_lost_none_twice_p_lemma :
  forall (mode : rmode) (muts : list (nat * list nat * bool)) (sched : list nat),
    let c := exec_sched mode (init_cfg muts) sched in
    (* every caller (check or not) that passed the enqueue has its mutation queued or executed *)
    (forall t, In t (ths c) -> t_pc t <> PEnq -> In (t_mut t) (enqueued c)) /\
    (* the handlers' mutations of an executed mutation are queued or executed *)
    (forall m, In m (map fst (executed (sh c))) ->
       forall n, In n (nested_for (sh c) m) -> In n (enqueued c)) /\
    (* with pairwise distinct ids: nothing twice, and nested per the table *)
    (Spec.C04.nodupb (ids_of muts) = true ->
       Spec.C04.nodupb (enqueued c) = true /\
       (forall m ns b, In (m, ns, b) muts -> In m (map fst (executed (sh c))) ->
          forall n, In n ns -> In n (enqueued c))).
Proof.
  intros mode muts sched c.
  destruct (invStatS_reach mode muts sched) as [HSt [HT HN]]. fold c in HSt, HT, HN.
  split; [exact HT|]. split; [exact HN|].
  intros Hnd. apply C04Proofs.nodupb_NoDup in Hnd. rewrite ids_of_ids_of2 in Hnd.
  destruct (invSE_reach muts Hnd mode sched) as [_ (HND & _)]. fold c in HND.
  split.
  - apply C04Proofs.nodupb_NoDup. exact HND.
  - intros m ns b Hin Hex n Hn. apply (HN m Hex).
    rewrite (nested_for_of_muts (map fst muts) Hnd (sh c) m ns); auto.
    + apply HSt.
    + apply (in_map fst) in Hin. exact Hin.
Qed.

(* ================================================================== *)
(* (c) at quiescence (mode RmLen) everything was processed            *)
(* ================================================================== *)

Lemma all_done_all_executed_p_lemma :
  forall (muts : list (nat * list nat * bool)) (sched : list nat),
    let c := exec_sched RmLen (init_cfg muts) sched in
    all_done c = true ->
    (* every thread's own mutation was executed, check threads included *)
    (forall t, In t (ths c) -> In (t_mut t) (map fst (executed (sh c)))) /\
    (forall m ns b, In (m, ns, b) muts -> In m (map fst (executed (sh c)))) /\
    (* with pairwise distinct ids: exactly once, and the nested ones too *)
    (Spec.C04.nodupb (ids_of muts) = true ->
       Spec.C04.nodupb (map fst (executed (sh c))) = true /\
       (forall m ns b, In (m, ns, b) muts ->
          forall n, In n ns -> In n (map fst (executed (sh c))))).
Proof.
  intros muts sched c Hd.
  pose proof (quiescent_queue_empty muts sched Hd) as Hq. fold c in Hq.
  destruct (none_lost_none_twice_p_lemma RmLen muts sched) as (HT & HN & HD).
  fold c in HT, HN, HD.
  assert (Henq : forall x, In x (enqueued c) -> In x (map fst (executed (sh c)))).
  { intros x Hx. unfold enqueued in Hx. rewrite Hq in Hx. simpl in Hx.
    rewrite app_nil_r, map_rev in Hx. apply in_rev in Hx. exact Hx. }
  destruct (invStatS_reach RmLen muts sched) as [[_ HSt] _]. fold c in HSt.
  pose proof (all_done_Forall c Hd) as Hall. rewrite Forall_forall in Hall.
  assert (Hthr : forall t, In t (ths c) -> In (t_mut t) (map fst (executed (sh c)))).
  { intros t Hin. apply Henq. apply HT; auto. rewrite (Hall t Hin). discriminate. }
  assert (Hown : forall m ns b, In (m, ns, b) muts -> In m (map fst (executed (sh c)))).
  { intros m ns b Hin. apply (in_map fst) in Hin. simpl in Hin. rewrite <- HSt in Hin.
    apply in_map_iff in Hin.
    destruct Hin as (t & Ht & Hin). injection Ht as Hm Hns. rewrite <- Hm. apply Hthr. exact Hin. }
  split; [exact Hthr|]. split; [exact Hown|].
  intros Hnd. destruct (HD Hnd) as [HND HNS]. split.
  - apply C04Proofs.nodupb_NoDup in HND. apply C04Proofs.nodupb_NoDup.
    unfold enqueued in HND. rewrite Hq in HND. simpl in HND. rewrite app_nil_r, map_rev in HND.
    apply NoDup_rev in HND. rewrite rev_involutive in HND. exact HND.
  - intros m ns b Hin n Hn. apply Henq. eapply HNS; eauto.
Qed.
