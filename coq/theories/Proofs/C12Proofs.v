(* C12 - proofs about the lock-discipline model Conc/Locks.v.

   Main invariant, over every reachable configuration of every program and
   every schedule: any two different threads t, u satisfy
     - lock_compat: a lock one of them holds exclusively is not held by the
       other (the RW-lock exclusion, derived from the admission rule can_acq);
     - prot f: every remaining access of t and every remaining access of u are
       pairwise protected on f (suffix-closed, so preserved by steps).
   A race on f would put two conflicting accesses at the heads of the two
   summaries: protected => a common lock, one side exclusive => contradiction
   with lock_compat. *)
From Coq Require Import List Bool Arith Lia String.
From AMV Require Import Conc.Locks Spec.C12.
Import ListNotations.

(* ------------------------------------------------------------ lists *)

Lemma nth_error_split_fs : forall (A : Type) (c : list A) i t,
  nth_error c i = Some t -> c = firstn i c ++ t :: skipn (S i) c.
Proof.
  induction c as [|a c IH]; destruct i; simpl; intros t H; try discriminate.
  - inversion H; reflexivity.
  - f_equal. apply IH; assumption.
Qed.

Lemma fop_replace : forall (A : Type) (R : A -> A -> Prop),
  (forall x y, R x y -> R y x) ->
  forall pre t t' post,
    ForallOrdPairs R (pre ++ t :: post) ->
    (forall u, In u (pre ++ post) -> R t u -> R t' u) ->
    ForallOrdPairs R (pre ++ t' :: post).
Proof.
  intros A R Rsym. induction pre as [|a pre IH]; simpl; intros t t' post H Hstep.
  - inversion H as [|a0 l0 Hall Hrest]; subst. constructor; auto.
    rewrite Forall_forall in *. intros u Hu. apply Hstep; auto.
  - inversion H as [|a0 l0 Hall Hrest]; subst. constructor.
    + rewrite Forall_forall in *. intros u Hu.
      apply in_app_or in Hu. destruct Hu as [Hu|[Hu|Hu]].
      * apply Hall. apply in_or_app; left; exact Hu.
      * subst u. apply Rsym. apply Hstep.
        -- left; reflexivity.
        -- apply Rsym. apply Hall. apply in_or_app. right. left. reflexivity.
      * apply Hall. apply in_or_app; right; right; exact Hu.
    + apply IH with (t := t); [exact Hrest | intros u Hu; apply Hstep; right; exact Hu].
Qed.

(* ------------------------------------------------------------ holdings *)

Lemma holds_any_cons : forall a h l,
  holds_any (a :: h) l = Nat.eqb (fst a) l || holds_any h l.
Proof. reflexivity. Qed.

Lemma holds_ex_cons : forall a h l,
  holds_ex (a :: h) l = (Nat.eqb (fst a) l && is_ex (snd a)) || holds_ex h l.
Proof. reflexivity. Qed.

Lemma holds_ex_any : forall h l, holds_ex h l = true -> holds_any h l = true.
Proof.
  unfold holds_ex, holds_any. intros h l H.
  apply existsb_exists in H. destruct H as [x [Hin Hx]].
  apply andb_true_iff in Hx. apply existsb_exists. exists x. tauto.
Qed.

Lemma holds_any_remove : forall x h l,
  holds_any (remove_one x h) l = true -> holds_any h l = true.
Proof.
  induction h as [|a h IH]; intros l H.
  - exact H.
  - rewrite holds_any_cons. cbn [remove_one] in H.
    destruct (Nat.eqb (fst x) (fst a) && mode_eqb (snd x) (snd a)).
    + rewrite H. apply orb_true_r.
    + rewrite holds_any_cons in H. apply orb_true_iff in H. destruct H as [H|H].
      * rewrite H; reflexivity.
      * rewrite (IH _ H). apply orb_true_r.
Qed.

Lemma holds_ex_remove : forall x h l,
  holds_ex (remove_one x h) l = true -> holds_ex h l = true.
Proof.
  induction h as [|a h IH]; intros l H.
  - exact H.
  - rewrite holds_ex_cons. cbn [remove_one] in H.
    destruct (Nat.eqb (fst x) (fst a) && mode_eqb (snd x) (snd a)).
    + rewrite H. apply orb_true_r.
    + rewrite holds_ex_cons in H. apply orb_true_iff in H. destruct H as [H|H].
      * rewrite H; reflexivity.
      * rewrite (IH _ H). apply orb_true_r.
Qed.

Lemma holds_any_false_remove : forall x h l,
  holds_any h l = false -> holds_any (remove_one x h) l = false.
Proof.
  intros x h l H. destruct (holds_any (remove_one x h) l) eqn:E; auto.
  apply holds_any_remove in E. congruence.
Qed.

(* ------------------------------------------------------------ the relation *)

Definition lock_compat (t u : thread) : Prop :=
  forall l,
    (holds_ex (th_held t) l = true -> holds_any (th_held u) l = false) /\
    (holds_ex (th_held u) l = true -> holds_any (th_held t) l = false).

Definition prot (f : field) (t u : thread) : Prop :=
  forall a b,
    In a (summ (th_held t) (th_rest t)) ->
    In b (summ (th_held u) (th_rest u)) ->
    acc_ok f a b = true /\ acc_ok f b a = true.

Definition R (f : field) (t u : thread) : Prop := lock_compat t u /\ prot f t u.

Lemma R_sym : forall f t u, R f t u -> R f u t.
Proof.
  intros f t u [HL HP]. split.
  - intro l. destruct (HL l) as [A B]. split; assumption.
  - intros a b Ha Hb. destruct (HP b a Hb Ha) as [A B]. split; assumption.
Qed.

Lemma common_excl_compat : forall t u,
  lock_compat t u -> common_excl (th_held t) (th_held u) = true -> False.
Proof.
  intros t u HL H. unfold common_excl in H.
  apply existsb_exists in H. destruct H as [x [Hx H]].
  apply existsb_exists in H. destruct H as [y [Hy H]].
  apply andb_true_iff in H. destruct H as [Heq Hex].
  apply Nat.eqb_eq in Heq.
  destruct (HL (fst x)) as [A B].
  apply orb_true_iff in Hex. destruct Hex as [Hex|Hex].
  - assert (E : holds_ex (th_held t) (fst x) = true).
    { apply existsb_exists. exists x. split; auto.
      rewrite Nat.eqb_refl. exact Hex. }
    specialize (A E).
    assert (E2 : holds_any (th_held u) (fst x) = true).
    { apply existsb_exists. exists y. split; auto. rewrite Heq. apply Nat.eqb_refl. }
    congruence.
  - assert (E : holds_ex (th_held u) (fst x) = true).
    { apply existsb_exists. exists y. split; auto.
      rewrite <- Heq. rewrite Nat.eqb_refl. exact Hex. }
    specialize (B E).
    assert (E2 : holds_any (th_held t) (fst x) = true).
    { apply existsb_exists. exists x. split; auto. apply Nat.eqb_refl. }
    congruence.
Qed.

Lemma next_access_summ : forall t g w,
  next_access t = Some (g, w) ->
  exists tl, summ (th_held t) (th_rest t) =
             {| a_field := g; a_write := w; a_held := th_held t |} :: tl.
Proof.
  intros t g w H. unfold next_access in H.
  destruct (th_rest t) as [|a r]; try discriminate.
  destruct a; try discriminate; inversion H; subst; simpl; eexists; reflexivity.
Qed.

Lemma R_no_conflict : forall f t u,
  R f t u -> conflict_next f t u = true -> False.
Proof.
  intros f t u [HL HP] H. unfold conflict_next in H.
  destruct (next_access t) as [[g w]|] eqn:Et; try discriminate.
  destruct (next_access u) as [[g' w']|] eqn:Eu; try discriminate.
  apply andb_true_iff in H. destruct H as [H Hw].
  apply andb_true_iff in H. destruct H as [Hg Hg'].
  destruct (next_access_summ _ _ _ Et) as [tl Ht].
  destruct (next_access_summ _ _ _ Eu) as [tl' Hu].
  destruct (HP {| a_field := g; a_write := w; a_held := th_held t |}
               {| a_field := g'; a_write := w'; a_held := th_held u |}) as [A _].
  - rewrite Ht. left; reflexivity.
  - rewrite Hu. left; reflexivity.
  - unfold acc_ok in A. simpl in A. rewrite Hg, Hg', Hw in A. simpl in A.
    exact (common_excl_compat t u HL A).
Qed.

(* ------------------------------------------------------------ steps *)

Lemma step_thread_R : forall f others t t',
  step_thread others t = Some t' ->
  forall u, In u others -> R f t u -> R f t' u.
Proof.
  intros f others t t' Hs u Hu [HL HP]. unfold step_thread in Hs.
  destruct (th_rest t) as [|a r] eqn:E; try discriminate.
  destruct a as [l m|l m|g|g|g].
  - (* Acq *)
    destruct (can_acq others l m) eqn:C; try discriminate.
    inversion Hs; subst t'; clear Hs.
    unfold can_acq in C. rewrite forallb_forall in C. specialize (C u Hu).
    split.
    + intro l'. destruct (HL l') as [A B]. cbn [th_held]. split.
      * intro H. rewrite holds_ex_cons in H. cbn [fst snd] in H.
        apply orb_true_iff in H. destruct H as [H|H]; auto.
        apply andb_true_iff in H. destruct H as [H1 H2].
        apply Nat.eqb_eq in H1. subst l'. destruct m; try discriminate.
        unfold compat in C. apply negb_true_iff in C. exact C.
      * intro H. rewrite holds_any_cons. cbn [fst snd].
        rewrite (B H). rewrite orb_false_r.
        destruct (Nat.eqb l l') eqn:El; auto. exfalso.
        apply Nat.eqb_eq in El. subst l'.
        unfold compat in C. destruct m.
        -- apply negb_true_iff in C. congruence.
        -- apply negb_true_iff in C. apply holds_ex_any in H. congruence.
    + intros a b Ha Hb. apply HP; auto. rewrite E. simpl. exact Ha.
  - (* Rel *)
    inversion Hs; subst t'; clear Hs. split.
    + intro l'. destruct (HL l') as [A B]. cbn [th_held]. split.
      * intro H. apply A. eapply holds_ex_remove; eauto.
      * intro H. apply holds_any_false_remove. apply B. exact H.
    + intros a b Ha Hb. apply HP; auto. rewrite E. simpl. exact Ha.
  - inversion Hs; subst t'; clear Hs. split.
    + exact HL.
    + intros a b Ha Hb. apply HP; auto. rewrite E. simpl. right. exact Ha.
  - inversion Hs; subst t'; clear Hs. split.
    + exact HL.
    + intros a b Ha Hb. apply HP; auto. rewrite E. simpl. right. exact Ha.
  - inversion Hs; subst t'; clear Hs. split.
    + exact HL.
    + intros a b Ha Hb. apply HP; auto. rewrite E. simpl. exact Ha.
Qed.

Lemma step_fop : forall f c i,
  ForallOrdPairs (R f) c -> ForallOrdPairs (R f) (step c i).
Proof.
  intros f c i H. unfold step.
  destruct (nth_error c i) as [t|] eqn:E; auto.
  destruct (step_thread (firstn i c ++ skipn (S i) c) t) as [t'|] eqn:S; auto.
  pose proof (nth_error_split_fs _ c i t E) as Hc.
  assert (H' : ForallOrdPairs (R f) (firstn i c ++ t :: skipn (Datatypes.S i) c))
    by (rewrite <- Hc; exact H).
  apply fop_replace with (t := t); auto.
  - intros x y. apply R_sym.
  - intros u Hu. eapply step_thread_R; eauto.
Qed.

Lemma exec_fop : forall f sched c,
  ForallOrdPairs (R f) c -> ForallOrdPairs (R f) (exec c sched).
Proof.
  induction sched as [|i sched IH]; intros c H; simpl.
  - exact H.
  - unfold exec in *. simpl. apply IH. apply step_fop. exact H.
Qed.

(* ------------------------------------------------------------ init *)

Lemma init_R : forall f p q,
  pair_protected f p q = true ->
  R f {| th_held := []; th_rest := p |} {| th_held := []; th_rest := q |}.
Proof.
  intros f p q H. split.
  - intro l. simpl. split; intro X; discriminate X.
  - intros a b Ha Hb. simpl in *.
    unfold pair_protected, accs_protected in H.
    rewrite forallb_forall in H. specialize (H a Ha).
    rewrite forallb_forall in H. specialize (H b Hb).
    apply andb_true_iff in H. exact H.
Qed.

Lemma init_fop : forall f ps,
  all_protected f ps = true -> ForallOrdPairs (R f) (init ps).
Proof.
  induction ps as [|p ps IH]; simpl; intro H.
  - constructor.
  - apply andb_true_iff in H. destruct H as [H1 H2]. constructor.
    + rewrite Forall_forall. intros u Hu. unfold init in Hu.
      apply in_map_iff in Hu. destruct Hu as [q [Eq Hq]]. subst u.
      rewrite forallb_forall in H1. apply init_R. apply H1. exact Hq.
    + apply IH. exact H2.
Qed.

(* ------------------------------------------------------------ no race *)

Lemma fop_no_race : forall f c,
  ForallOrdPairs (R f) c -> race_on f c = false.
Proof.
  induction c as [|t c IH]; simpl; intro H; auto.
  inversion H as [|a0 l0 Hall Hrest]; subst.
  rewrite (IH Hrest). rewrite orb_false_r.
  destruct (existsb (conflict_next f t) c) eqn:E; auto. exfalso.
  apply existsb_exists in E. destruct E as [u [Hu Hc]].
  rewrite Forall_forall in Hall.
  exact (R_no_conflict f t u (Hall u Hu) Hc).
Qed.

Lemma protected_race_free_lemma : forall (f : field) (ps : list prog),
  all_protected f ps = true ->
  forall sched : list nat, race_on f (exec (init ps) sched) = false.
Proof.
  intros f ps H sched. apply fop_no_race. apply exec_fop. apply init_fop. exact H.
Qed.

(* ------------------------------------------------------------ race_on vs race_spec *)

Lemma conflict_next_sym : forall f t u, conflict_next f t u = conflict_next f u t.
Proof.
  intros f t u. unfold conflict_next.
  destruct (next_access t) as [[g w]|]; destruct (next_access u) as [[g' w']|]; auto.
  rewrite (orb_comm w w'). rewrite (andb_comm (Nat.eqb g f) (Nat.eqb g' f)). reflexivity.
Qed.

Lemma race_on_spec_lemma : forall f c, race_on f c = true <-> race_spec f c.
Proof.
  intros f c. split.
  - induction c as [|t c IH]; simpl; intro H; try discriminate.
    apply orb_true_iff in H. destruct H as [H|H].
    + apply existsb_exists in H. destruct H as [u [Hu Hc]].
      apply In_nth_error in Hu. destruct Hu as [j Hj].
      exists 0, (S j), t, u. repeat split; auto.
    + destruct (IH H) as [i [j [ti [tj [Hij [Hi [Hj Hc]]]]]]].
      exists (S i), (S j), ti, tj. repeat split; auto.
  - intros [i [j [ti [tj [Hij [Hi [Hj Hc]]]]]]].
    revert i j Hij Hi Hj. induction c as [|t c IH]; intros i j Hij Hi Hj.
    + destruct i; discriminate.
    + simpl. apply orb_true_iff. destruct i as [|i]; destruct j as [|j].
      * exfalso; apply Hij; reflexivity.
      * left. simpl in Hi. inversion Hi; subst. simpl in Hj.
        apply existsb_exists. exists tj. split; auto. eapply nth_error_In; eauto.
      * left. simpl in Hj. inversion Hj; subst. simpl in Hi.
        apply existsb_exists. exists ti. split.
        -- eapply nth_error_In; eauto.
        -- rewrite conflict_next_sym. exact Hc.
      * right. simpl in Hi, Hj. apply (IH i j); auto.
Qed.

(* ------------------------------------------------------------ guard maps *)

Lemma ex_any_common : forall h1 h2 g,
  holds_ex h1 g = true -> holds_any h2 g = true ->
  common_excl h1 h2 = true /\ common_excl h2 h1 = true.
Proof.
  intros h1 h2 g H1 H2.
  apply existsb_exists in H1. destruct H1 as [x [Hx H1]].
  apply andb_true_iff in H1. destruct H1 as [E1 X1]. apply Nat.eqb_eq in E1.
  apply existsb_exists in H2. destruct H2 as [y [Hy E2]]. apply Nat.eqb_eq in E2.
  split.
  - apply existsb_exists. exists x. split; auto.
    apply existsb_exists. exists y. split; auto.
    rewrite E1, E2, Nat.eqb_refl, X1. reflexivity.
  - apply existsb_exists. exists y. split; auto.
    apply existsb_exists. exists x. split; auto.
    rewrite E1, E2, Nat.eqb_refl, X1. simpl. apply orb_true_r.
Qed.

Lemma guarded_acc_ok : forall G f a b,
  acc_guarded G f a = true -> acc_guarded G f b = true -> acc_ok f a b = true.
Proof.
  intros G f a b Ha Hb. unfold acc_ok. unfold acc_guarded in *.
  destruct (Nat.eqb (a_field a) f); simpl; auto.
  destruct (Nat.eqb (a_field b) f); simpl; auto.
  unfold write_ok, read_ok in *.
  destruct (a_write a) eqn:Wa; destruct (a_write b) eqn:Wb; simpl; auto.
  - destruct (G f) as [|g gs]; try discriminate.
    simpl in Ha, Hb. apply andb_true_iff in Ha. apply andb_true_iff in Hb.
    destruct Ha as [Ha _]. destruct Hb as [Hb _].
    apply (ex_any_common _ _ g Ha (holds_ex_any _ _ Hb)).
  - apply existsb_exists in Hb. destruct Hb as [g [Hg Hb]].
    destruct (G f) as [|g0 gs] eqn:EG; try discriminate.
    rewrite forallb_forall in Ha. specialize (Ha g Hg).
    apply (ex_any_common _ _ g Ha Hb).
  - apply existsb_exists in Ha. destruct Ha as [g [Hg Ha]].
    destruct (G f) as [|g0 gs] eqn:EG; try discriminate.
    rewrite forallb_forall in Hb. specialize (Hb g Hg).
    apply (ex_any_common _ _ g Hb Ha).
Qed.

Lemma well_locked_pair : forall G f p q,
  well_locked G f p = true -> well_locked G f q = true ->
  pair_protected f p q = true.
Proof.
  intros G f p q Hp Hq. unfold pair_protected, accs_protected.
  unfold well_locked in *. rewrite forallb_forall in *.
  intros a Ha. rewrite forallb_forall. intros b Hb.
  rewrite (guarded_acc_ok G f a b (Hp a Ha) (Hq b Hb)).
  rewrite (guarded_acc_ok G f b a (Hq b Hb) (Hp a Ha)). reflexivity.
Qed.

Lemma well_locked_all_protected : forall G f ps,
  (forall p, In p ps -> well_locked G f p = true) -> all_protected f ps = true.
Proof.
  induction ps as [|p ps IH]; simpl; intro H; auto.
  apply andb_true_iff. split.
  - rewrite forallb_forall. intros q Hq. apply well_locked_pair with (G := G); auto.
  - apply IH. intros q Hq. apply H. right; exact Hq.
Qed.

Lemma well_locked_race_free_lemma : forall (G : guard_map) (ps : list prog),
  (forall p f, In p ps -> well_locked G f p = true) ->
  forall (f : field) (sched : list nat), race_on f (exec (init ps) sched) = false.
Proof.
  intros G ps H f sched. apply protected_race_free_lemma.
  apply well_locked_all_protected with (G := G). intros p Hp. apply H. exact Hp.
Qed.

(* ------------------------------------------------------------ sets of methods *)

Lemma acc_ok_any_f : forall a b f,
  acc_ok_any a b = true -> acc_ok f a b = true /\ acc_ok f b a = true.
Proof.
  intros a b f H. unfold acc_ok_any in H. unfold acc_ok.
  destruct (Nat.eqb (a_field a) f) eqn:Ea; destruct (Nat.eqb (a_field b) f) eqn:Eb;
    simpl; auto.
  apply Nat.eqb_eq in Ea. apply Nat.eqb_eq in Eb.
  assert (E : Nat.eqb (a_field a) (a_field b) = true)
    by (rewrite Ea, Eb; apply Nat.eqb_refl).
  rewrite E in H. simpl in H. rewrite (orb_comm (a_write b) (a_write a)).
  destruct (a_write a || a_write b); auto.
  apply andb_true_iff in H. exact H.
Qed.

Lemma pair_any_f : forall p q,
  pair_protected_any p q = true -> forall f, pair_protected f p q = true.
Proof.
  intros p q H f. unfold pair_protected, accs_protected.
  unfold pair_protected_any in H. rewrite forallb_forall in *.
  intros a Ha. specialize (H a Ha). rewrite forallb_forall in *.
  intros b Hb. specialize (H b Hb).
  destruct (acc_ok_any_f a b f H) as [A B]. rewrite A, B. reflexivity.
Qed.

Definition set_protected (S : list prog) : bool :=
  forallb (fun p => forallb (fun q => pair_protected_any p q) S) S.

Lemma set_protected_sound : forall S,
  set_protected S = true ->
  forall ms, (forall m, In m ms -> In m S) ->
  forall f, all_protected f ms = true.
Proof.
  intros S HS. unfold set_protected in HS. rewrite forallb_forall in HS.
  induction ms as [|p ms IH]; simpl; intros H f; auto.
  apply andb_true_iff. split.
  - rewrite forallb_forall. intros q Hq. apply pair_any_f.
    pose proof (HS p (H p (or_introl eq_refl))) as Hp.
    rewrite forallb_forall in Hp. apply Hp. apply H. right; exact Hq.
  - apply IH. intros m Hm. apply H. right; exact Hm.
Qed.

Lemma set_race_free : forall S,
  set_protected S = true ->
  forall ms, (forall m, In m ms -> In m S) ->
  forall f sched, race_on f (exec (init ms) sched) = false.
Proof.
  intros S HS ms H f sched. apply protected_race_free_lemma.
  apply (set_protected_sound S HS ms H).
Qed.

(* ------------------------------------------------------------ compressed checks are sound *)

Lemma mode_eqb_eq : forall a b, mode_eqb a b = true -> a = b.
Proof. destruct a, b; simpl; intro H; congruence. Qed.

Lemma held_eqb_eq : forall a b, held_eqb a b = true -> a = b.
Proof.
  induction a as [|x a IH]; destruct b as [|y b]; simpl; intro H; try discriminate; auto.
  apply andb_true_iff in H. destruct H as [H H3].
  apply andb_true_iff in H. destruct H as [H1 H2].
  apply Nat.eqb_eq in H1. apply mode_eqb_eq in H2.
  destruct x, y; simpl in *; subst. f_equal. apply IH; exact H3.
Qed.

Lemma acc_eqb_eq : forall a b, acc_eqb a b = true -> a = b.
Proof.
  intros [fa wa ha] [fb wb hb] H. unfold acc_eqb in H. simpl in H.
  apply andb_true_iff in H. destruct H as [H H3].
  apply andb_true_iff in H. destruct H as [H1 H2].
  apply Nat.eqb_eq in H1. apply Bool.eqb_prop in H2. apply held_eqb_eq in H3.
  subst. reflexivity.
Qed.

Lemma action_eqb_eq : forall a b, action_eqb a b = true -> a = b.
Proof.
  destruct a, b; simpl; intro H; try discriminate;
    try (apply andb_true_iff in H; destruct H as [H1 H2];
         apply Nat.eqb_eq in H1; apply mode_eqb_eq in H2; subst; reflexivity);
    apply Nat.eqb_eq in H; subst; reflexivity.
Qed.

Lemma prog_eqb_eq : forall p q, prog_eqb p q = true -> p = q.
Proof.
  induction p as [|a p IH]; destruct q as [|b q]; simpl; intro H; try discriminate; auto.
  apply andb_true_iff in H. destruct H as [H1 H2].
  apply action_eqb_eq in H1. subst. f_equal. apply IH; exact H2.
Qed.

Lemma dedupb_complete : forall (A : Type) (eqb : A -> A -> bool),
  (forall x y, eqb x y = true -> x = y) ->
  forall l x, In x l -> In x (dedupb eqb l).
Proof.
  intros A eqb Heq. induction l as [|y l IH]; simpl; intros x H; auto.
  destruct (existsb (eqb y) l) eqn:E.
  - destruct H as [H|H]; auto. subst y.
    apply existsb_exists in E. destruct E as [z [Hz Ez]].
    apply Heq in Ez. subst z. apply IH; exact Hz.
  - destruct H as [H|H]; [left; exact H | right; apply IH; exact H].
Qed.

Lemma set_protected_c_sound : forall S, set_protected_c S = true -> set_protected S = true.
Proof.
  intros S H. unfold set_protected_c in H. unfold set_protected.
  rewrite forallb_forall in *. intros p Hp. rewrite forallb_forall. intros q Hq.
  assert (Ip : In (csumm p) (map csumm (dedupb prog_eqb S))).
  { apply in_map. apply dedupb_complete; auto. apply prog_eqb_eq. }
  assert (Iq : In (csumm q) (map csumm (dedupb prog_eqb S))).
  { apply in_map. apply dedupb_complete; auto. apply prog_eqb_eq. }
  specialize (H _ Ip). rewrite forallb_forall in H. specialize (H _ Iq).
  unfold accs_ok_any in H. unfold pair_protected_any.
  rewrite forallb_forall in *. intros a Ha.
  assert (Ia : In a (csumm p)) by (apply dedupb_complete; auto; apply acc_eqb_eq).
  specialize (H a Ia). rewrite forallb_forall in *. intros b Hb.
  apply H. apply dedupb_complete; auto. apply acc_eqb_eq.
Qed.

(* ------------------------------------------------------------ the API table *)

Lemma safe_cur_protected : set_protected (safe_progs Cur) = true.
Proof. apply set_protected_c_sound. vm_compute. reflexivity. Qed.

Lemma safe_fixed_protected : set_protected (safe_progs Fixed) = true.
Proof. apply set_protected_c_sound. vm_compute. reflexivity. Qed.

Lemma find_name : forall (l : list entry) n e,
  find (fun e => String.eqb (e_name e) n) l = Some e -> In e l /\ e_name e = n.
Proof.
  intros l n e H. apply find_some in H. destruct H as [H1 H2].
  split; auto. apply String.eqb_eq. exact H2.
Qed.

Lemma empty_prog_safe : forall v, In [] (safe_progs v).
Proof.
  intro v.
  assert (H : existsb (fun p => match p with [] => true | _ => false end) (safe_progs v) = true)
    by (destruct v; vm_compute; reflexivity).
  apply existsb_exists in H. destruct H as [p [Hp E]].
  destruct p; [exact Hp | discriminate].
Qed.

Lemma prog_of_safe : forall v n, is_culprit_v v n = false -> In (prog_of v n) (safe_progs v).
Proof.
  intros v n Hn. unfold prog_of, lookup.
  destruct (find (fun e => String.eqb (e_name e) n) (api_table v)) as [e|] eqn:F.
  - apply find_name in F. destruct F as [Hin Hname].
    unfold safe_progs, safe_entries. apply in_map. apply filter_In. split; auto.
    rewrite Hname, Hn. reflexivity.
  - apply empty_prog_safe.
Qed.

Lemma api_race_free_gen : forall v,
  set_protected (safe_progs v) = true ->
  forall (names : list string) (f : field) (sched : list nat),
    (forall n, In n names -> is_culprit_v v n = false) ->
    race_on f (exec (init (map (prog_of v) names)) sched) = false.
Proof.
  intros v HS names f sched H.
  apply (set_race_free (safe_progs v) HS).
  intros m Hm. apply in_map_iff in Hm. destruct Hm as [n [En Hn]]. subst m.
  apply prog_of_safe. apply H. exact Hn.
Qed.

Lemma api_race_free_lemma :
  forall (names : list string) (f : field) (sched : list nat),
    (forall n, In n names -> is_culprit n = false) ->
    race_on f (exec (init (map (prog_of Cur) names)) sched) = false.
Proof. exact (api_race_free_gen Cur safe_cur_protected). Qed.

Lemma api_fixed_race_free_lemma :
  forall (names : list string) (f : field) (sched : list nat),
    (forall n, In n names -> String.eqb n "SetSchema" = false) ->
    race_on f (exec (init (map (prog_of Fixed) names)) sched) = false.
Proof.
  intros names f sched H. apply (api_race_free_gen Fixed safe_fixed_protected).
  intros n Hn. unfold is_culprit_v. simpl. rewrite (H n Hn). reflexivity.
Qed.

(* ------------------------------------------------------------ guard discipline on the table *)

Lemma well_locked_other_field : forall G f p,
  ~ In f (fields_of p) -> well_locked G f p = true.
Proof.
  intros G f p H. unfold well_locked. rewrite forallb_forall. intros a Ha.
  unfold acc_guarded. destruct (Nat.eqb (a_field a) f) eqn:E; auto.
  exfalso. apply H. apply Nat.eqb_eq in E. subst f.
  unfold fields_of. apply in_map. exact Ha.
Qed.

Lemma well_locked_all_f : forall G p,
  well_locked_all G p = true -> forall f, well_locked G f p = true.
Proof.
  intros G p H f. unfold well_locked_all in H. rewrite forallb_forall in H.
  destruct (in_dec Nat.eq_dec f (fields_of p)) as [I|I].
  - apply H; exact I.
  - apply well_locked_other_field; exact I.
Qed.

Lemma guard_discipline_lemma : forall v, v <> Legacy ->
  forallb (fun e => breaks_discipline (e_name e) || well_locked_all guards (e_prog e))
          (api_table v) = true.
Proof. destruct v; intro H; [exfalso; apply H; reflexivity | |]; vm_compute; reflexivity. Qed.

Lemma api_guarded_race_free_lemma :
  forall (v : variant) (es : list entry) (f : field) (sched : list nat),
    v <> Legacy ->
    (forall e, In e es -> In e (api_table v) /\ breaks_discipline (e_name e) = false) ->
    race_on f (exec (init (map e_prog es)) sched) = false.
Proof.
  intros v es f sched Hv H. apply well_locked_race_free_lemma with (G := guards).
  intros p f' Hp. apply in_map_iff in Hp. destruct Hp as [e [Ee He]]. subst p.
  destruct (H e He) as [Hin Hb].
  pose proof (guard_discipline_lemma v Hv) as G. rewrite forallb_forall in G.
  specialize (G e Hin). rewrite Hb in G. simpl in G.
  apply well_locked_all_f. exact G.
Qed.

(* ------------------------------------------------------------ refutations *)

Local Open Scope string_scope.

Definition two (v : variant) (a b : string) : config := init [prog_of v a; prog_of v b].

(* any number of StateNames() calls, first-time or not: the copy is published
   through an atomic pointer *)
Lemma statenames_race_free_lemma :
  forall (n : nat) (f : field) (sched : list nat),
    race_on f (exec (init (repeat (prog_of Cur "StateNames") n)) sched) = false.
Proof.
  intros n f sched.
  replace (repeat (prog_of Cur "StateNames") n)
    with (map (prog_of Cur) (repeat "StateNames" n)).
  - apply api_race_free_lemma. intros m Hm.
    apply repeat_spec in Hm. subst m. reflexivity.
  - induction n as [|n IH]; simpl; [reflexivity | rewrite IH; reflexivity].
Qed.

(* the NetworkMachine entries are all in the safe set now *)
Lemma netmach_race_free_lemma :
  forall (names : list string) (f : field) (sched : list nat),
    (forall n, In n names -> String.prefix "NM." n = true) ->
    race_on f (exec (init (map (prog_of Cur) names)) sched) = false.
Proof.
  intros names f sched H. apply api_race_free_lemma. intros n Hn.
  specialize (H n Hn). unfold is_culprit, is_culprit_v. simpl.
  destruct n as [|c n]; [reflexivity|].
  destruct (String.eqb (String c n) "VerifyStates") eqn:E1.
  { apply String.eqb_eq in E1. rewrite E1 in H. discriminate H. }
  destruct (String.eqb (String c n) "SetSchema") eqn:E2.
  { apply String.eqb_eq in E2. rewrite E2 in H. discriminate H. }
  destruct (String.eqb (String c n) "Import") eqn:E3.
  { apply String.eqb_eq in E3. rewrite E3 in H. discriminate H. }
  reflexivity.
Qed.

Lemma verifystates_refuted_lemma :
  (exists sched, race_on stateNames (exec (two Cur "VerifyStates" "Is") sched) = true) /\
  (exists sched, race_on stateNames (exec (two Cur "VerifyStates" "StateNames") sched) = true).
Proof.
  split.
  - exists [0; 0; 0; 0; 1; 1; 1; 1]. vm_compute. reflexivity.
  - exists [0; 0; 0; 0; 1; 1]. vm_compute. reflexivity.
Qed.

Lemma import_refuted_lemma :
  (exists sched, race_on activeStates (exec (two Cur "Import" "Is") sched) = true) /\
  (exists sched, race_on clock (exec (two Cur "Import" "Tick") sched) = true).
Proof.
  split.
  - exists [0; 0; 0; 0; 1; 1; 1]. vm_compute. reflexivity.
  - exists [0; 0; 0; 0; 0; 0; 0; 1; 1]. vm_compute. reflexivity.
Qed.

Lemma setschema_refuted_lemma :
  (exists sched, race_on stateNames (exec (two Cur "SetSchema" "Has") sched) = true) /\
  (exists sched, race_on stateNames (exec (two Cur "SetSchema" "Is") sched) = true).
Proof.
  split.
  - exists [0; 0; 0; 0; 0; 0; 0; 1]. vm_compute. reflexivity.
  - exists [0; 0; 0; 0; 0; 0; 0; 1; 1; 1; 1]. vm_compute. reflexivity.
Qed.

(* what the three repairs removed: the same pairs on the table of the code
   before f998d9b / f656cf0 / 031458c *)
Lemma legacy_races_lemma :
  (exists sched, race_on stateNamesExport
     (exec (two Legacy "StateNames" "StateNames") sched) = true) /\
  (exists sched, race_on nmTracers
     (exec (two Legacy "NM.TracerBind" "NM.Tracers") sched) = true) /\
  (exists sched, race_on nmLogEntries
     (exec (two Legacy "NM.UpdateClock" "NM.Log") sched) = true).
Proof.
  split; [|split].
  - exists [0; 0; 0; 1; 1; 1]. vm_compute. reflexivity.
  - exists [0; 0; 1]. vm_compute. reflexivity.
  - exists [0; 0; 0; 0; 0; 0; 0; 0; 0; 0; 0; 0; 1; 1; 1; 1; 1]. vm_compute. reflexivity.
Qed.

(* the model does block: two exclusive sections never overlap *)
Example exclusion_nonvacuous :
  let p := [Acq 0 Ex; Write 0; Rel 0 Ex] in
  let c := exec (init [p; p]) [0; 1; 1; 1] in
  map (fun t => List.length (th_rest t)) c = [2; 3].
Proof. vm_compute. reflexivity. Qed.

Example race_nonvacuous :
  race_on 0 (exec (init [[Acq 0 Sh; Write 0; Rel 0 Sh]; [Acq 0 Sh; Read 0; Rel 0 Sh]]) [0; 1]) = true.
Proof. vm_compute. reflexivity. Qed.

Local Close Scope string_scope.
