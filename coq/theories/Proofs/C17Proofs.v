(* C17 - proofs about Model/History.v against Spec/C17.v. *)

From Coq Require Import List NArith ZArith Bool Arith Lia ZifyN ZifyNat ZifyBool.
From AMV Require Import Base.ListSet Model.History Spec.C17.
Import ListNotations.

(* ================================================================ matching *)

Lemma scan_list_spec : forall l hit excl m,
  scan_list l hit excl m = if existsb hit l then negb excl else m.
Proof.
  induction l as [|s r IH]; intros; cbn [scan_list existsb]; [reflexivity|].
  destruct (hit s); cbn [orb]; [reflexivity|apply IH].
Qed.

Lemma matches_closed_form_lemma : forall c tx, matches c tx = matches_spec c tx.
Proof.
  intros. unfold matches, matches_spec, trackable, called_hit, changed_hit.
  rewrite !scan_list_spec.
  destruct (x_accepted tx), (c_rejected c), (x_check tx); cbn; try reflexivity.
Qed.

Lemma existsb_nil_false : forall {A} (f : A -> bool) l, is_nil l = true -> existsb f l = false.
Proof. intros A f [|x r] H; [reflexivity|discriminate]. Qed.

Lemma matches_doc_partial_lemma : forall c tx,
  doc_gap_class c tx = 0%N -> matches c tx = matches_doc c tx.
Proof.
  intros c tx H. rewrite matches_closed_form_lemma.
  unfold matches_spec, matches_doc, list_cond, doc_gap_class in *.
  pose proof (existsb_nil_false (was_called tx) (c_called c)) as Hc.
  pose proof (existsb_nil_false (was_changed tx) (c_changed c)) as Hh.
  unfold called_hit, changed_hit.
  destruct (trackable c tx); [|reflexivity]. cbn [andb].
  destruct (is_nil (c_called c)) eqn:E1; destruct (is_nil (c_changed c)) eqn:E2;
    try rewrite (Hc eq_refl); try rewrite (Hh eq_refl);
    destruct (c_called_excl c), (c_changed_excl c);
    destruct (existsb (was_called tx) (c_called c));
    destruct (existsb (was_changed tx) (c_changed c));
    cbn in *; try reflexivity; try discriminate.
Qed.

Definition doc_witness_cfg : hcfg :=
  {| c_called := [0]; c_called_excl := true; c_changed := [1]; c_changed_excl := false;
     c_rejected := false; c_store_tx := false; c_tracked := [1]; c_max := 10 |}.
Definition doc_witness_tx : htx :=
  {| x_type := 0; x_called := [0; 1]; x_auto := false; x_check := false; x_accepted := true;
     x_before := [0; 0; 0; 0]%N; x_after := [1; 1; 0; 0]%N; x_mach_after := [1; 1; 0; 0]%N;
     x_qtick := 1; x_mach_qtick := 1; x_mtick := 0; x_htime := 1 |}.

Lemma matches_doc_refuted_lemma :
  exists c tx, matches c tx = true /\ matches_doc c tx = false.
Proof. exists doc_witness_cfg, doc_witness_tx. vm_compute. split; reflexivity. Qed.

(* ================================================================ lists *)

Lemma last_opt_snoc : forall {A} (l : list A) x, last_opt (l ++ [x]) = Some x.
Proof.
  induction l as [|a r IH]; intros; [reflexivity|].
  cbn [app last_opt]. destruct (r ++ [x]) eqn:E.
  - destruct r; discriminate.
  - rewrite <- E. apply IH.
Qed.

Lemma last_opt_some : forall {A} (l : list A) a, exists x, last_opt (a :: l) = Some x.
Proof.
  induction l as [|b r IH]; intros a; [exists a; reflexivity|].
  destruct (IH b) as [x Hx]. exists x. cbn [last_opt] in *. exact Hx.
Qed.

Lemma last_opt_cons : forall {A} (a : A) l,
  last_opt (a :: l) = match last_opt l with Some x => Some x | None => Some a end.
Proof.
  intros. destruct l as [|b r]; [reflexivity|].
  destruct (last_opt_some r b) as [x Hx]. rewrite Hx.
  cbn [last_opt] in *. exact Hx.
Qed.

Lemma lastn_all : forall {A} n (l : list A), length l <= n -> lastn n l = l.
Proof. intros. unfold lastn. replace (length l - n) with 0 by lia. reflexivity. Qed.

Lemma lastn_snoc : forall {A} k (l : list A) x, lastn (S k) (l ++ [x]) = lastn k l ++ [x].
Proof.
  intros. unfold lastn. rewrite app_length. cbn [length].
  replace (length l + 1 - S k) with (length l - k) by lia.
  rewrite skipn_app. replace (length l - k - length l) with 0 by lia. reflexivity.
Qed.

Lemma length_lastn : forall {A} n (l : list A), length (lastn n l) = Nat.min n (length l).
Proof. intros. unfold lastn. rewrite skipn_length. lia. Qed.

Lemma tl_skipn : forall {A} j (l : list A), tl (skipn j l) = skipn (S j) l.
Proof.
  induction j as [|j IH]; intros; destruct l as [|a r]; try reflexivity.
  cbn [skipn]. rewrite IH. reflexivity.
Qed.

Lemma last_opt_lastn : forall {A} k (l : list A), last_opt (lastn (S k) l) = last_opt l.
Proof.
  intros. destruct l as [|a r] using rev_ind; [reflexivity|].
  rewrite lastn_snoc, !last_opt_snoc. reflexivity.
Qed.

Lemma In_lastn : forall {A} n (l : list A) x, In x (lastn n l) -> In x l.
Proof.
  intros. unfold lastn in H. rewrite <- (firstn_skipn (length l - n) l).
  apply in_or_app. right. exact H.
Qed.

Lemma filter_snoc : forall {A} (f : A -> bool) l x,
  filter f (l ++ [x]) = filter f l ++ (if f x then [x] else []).
Proof. intros. rewrite filter_app. cbn. destruct (f x); reflexivity. Qed.

(* ================================================================ the log *)

Lemma recs_snoc : forall c l prev tx,
  recs c prev (l ++ [tx]) =
  recs c prev l ++
  [mk_record c (match last_opt (recs c prev l) with Some r => Some r | None => prev end) tx].
Proof.
  induction l as [|a r IH]; intros; [reflexivity|].
  cbn [app recs]. rewrite IH. cbn [app]. f_equal. f_equal. f_equal.
  rewrite last_opt_cons. destruct (last_opt (recs c (Some (mk_record c prev a)) r)); reflexivity.
Qed.

Lemma recs_length : forall c l prev, length (recs c prev l) = length l.
Proof. induction l; intros; cbn; [reflexivity|]. f_equal. apply IHl. Qed.

Lemma recs_in : forall c l prev r,
  In r (recs c prev l) -> exists p tx, In tx l /\ r = mk_record c p tx.
Proof.
  induction l as [|a l IH]; intros prev r H; cbn in H; [contradiction|].
  destruct H as [H|H].
  - exists prev, a. split; [left; reflexivity|symmetry; exact H].
  - destruct (IH _ _ H) as (p & tx & Hi & He). exists p, tx. split; [right; exact Hi|exact He].
Qed.

Lemma rotate_lastn : forall c (L : list hrec) k,
  c_max c = S k -> rotate c (lastn (S k) L) = lastn k L.
Proof.
  intros c L k Hm. unfold rotate. rewrite Hm, length_lastn.
  destruct (S k <=? Nat.min (S k) (length L)) eqn:E.
  - apply Nat.leb_le in E. unfold lastn. rewrite tl_skipn. f_equal. lia.
  - apply Nat.leb_gt in E. rewrite !lastn_all by lia. reflexivity.
Qed.

Lemma run_log_snoc : forall c txs tx, run_log c (txs ++ [tx]) = track c (run_log c txs) tx.
Proof. intros. unfold run_log. rewrite fold_left_app. reflexivity. Qed.

(* one record per matching transition, in order; rotation drops the oldest *)
Lemma run_log_is_reference : forall c txs,
  1 <= c_max c ->
  run_log c txs = lastn (c_max c) (recs c None (filter (matches c) txs)).
Proof.
  intros c txs Hm. destruct (c_max c) as [|k] eqn:Ek; [lia|]. clear Hm.
  induction txs as [|tx txs IH] using rev_ind; [reflexivity|].
  rewrite run_log_snoc, filter_snoc, IH. unfold track.
  destruct (matches c tx) eqn:Em.
  - rewrite recs_snoc, lastn_snoc, rotate_lastn by exact Ek.
    rewrite last_opt_lastn.
    destruct (last_opt (recs c None (filter (matches c) txs))); reflexivity.
  - rewrite app_nil_r. reflexivity.
Qed.

Lemma filter_matches_spec : forall c txs, filter (matches c) txs = filter (matches_spec c) txs.
Proof. intros. apply filter_ext. intros. apply matches_closed_form_lemma. Qed.

Lemma one_record_per_match_in_order_lemma : forall c txs,
  1 <= c_max c ->
  run_log c txs = reference_log c matches_spec txs.
Proof.
  intros. unfold reference_log. rewrite <- filter_matches_spec. apply run_log_is_reference; assumption.
Qed.

Lemma bounded_lemma : forall c txs,
  1 <= c_max c ->
  length (run_log c txs) = Nat.min (c_max c) (length (filter (matches_spec c) txs))
  /\ length (run_log c txs) <= c_max c.
Proof.
  intros c txs H. rewrite run_log_is_reference by exact H.
  rewrite length_lastn, recs_length, filter_matches_spec. split; lia.
Qed.

Lemma next_id_lemma : forall c txs,
  next_id c txs = N.of_nat (S (length (filter (matches_spec c) txs))).
Proof. intros. unfold next_id. rewrite filter_matches_spec. reflexivity. Qed.

Lemma record_times_lemma : forall c txs r,
  1 <= c_max c -> In r (run_log c txs) ->
  exists tx, In tx txs /\ matches_spec c tx = true /\
    r_tracked r = time_filter (x_after tx) (c_tracked c) /\
    r_sum r = time_sum (x_after tx) /\
    r_tsum r = time_sum (time_filter (x_after tx) (c_tracked c)) /\
    r_mtick r = x_mtick tx /\ r_htime r = x_htime tx /\ r_type r = x_type tx.
Proof.
  intros c txs r Hm Hin. rewrite run_log_is_reference in Hin by exact Hm.
  apply In_lastn in Hin. apply recs_in in Hin. destruct Hin as (p & tx & Hi & He).
  apply filter_In in Hi. destruct Hi as [Hi Hma]. rewrite matches_closed_form_lemma in Hma.
  exists tx. subst r. cbn. repeat split; assumption.
Qed.

(* ---- the boolean spec predicates hold of the model's log *)

Lemma list_N_eqb_refl : forall l, list_N_eqb l l = true.
Proof. induction l; cbn; [reflexivity|]. rewrite N.eqb_refl. exact IHl. Qed.

Lemma list_Z_eqb_refl : forall l, list_Z_eqb l l = true.
Proof. induction l; cbn; [reflexivity|]. rewrite Z.eqb_refl. exact IHl. Qed.

Lemma hrec_eqb_refl : forall r, hrec_eqb r r = true.
Proof.
  intros. unfold hrec_eqb. rewrite !N.eqb_refl, !list_N_eqb_refl. cbn.
  destruct (r_tx r) as [x|]; [|reflexivity].
  unfold txrec_eqb. rewrite list_Z_eqb_refl, !N.eqb_refl, !eqb_reflx. reflexivity.
Qed.

Lemma list_eqb_by_refl : forall {A} (e : A -> A -> bool) l,
  (forall x, e x x = true) -> list_eqb_by e l l = true.
Proof. induction l; intros; cbn; [reflexivity|]. rewrite H. apply IHl. exact H. Qed.

Lemma log_ok_model_lemma : forall c txs, 1 <= c_max c -> log_ok c txs (run_log c txs) = true.
Proof.
  intros. unfold log_ok, log_ok_by. rewrite <- one_record_per_match_in_order_lemma by assumption.
  apply list_eqb_by_refl. apply hrec_eqb_refl.
Qed.

Lemma all2_recs : forall c l prev,
  (forall tx, In tx l -> x_after tx = x_mach_after tx) ->
  all2 (rec_times_of c) (recs c prev l) l = true.
Proof.
  induction l as [|a l IH]; intros prev H; [reflexivity|].
  cbn [recs all2]. rewrite IH by (intros; apply H; right; assumption).
  unfold rec_times_of. cbn. rewrite <- (H a) by (left; reflexivity).
  rewrite list_N_eqb_refl, N.eqb_refl. reflexivity.
Qed.

Lemma all2_skipn : forall {A B} (f : A -> B -> bool) k a b,
  all2 f a b = true -> all2 f (skipn k a) (skipn k b) = true.
Proof.
  induction k as [|k IH]; intros a b H; [exact H|].
  destruct a, b; cbn in *; try reflexivity; try discriminate.
  apply andb_true_iff in H. apply IH. apply H.
Qed.

Lemma times_ok_model_lemma : forall c txs,
  1 <= c_max c ->
  (forall tx, In tx txs -> x_after tx = x_mach_after tx) ->
  times_ok c txs (run_log c txs) = true.
Proof.
  intros c txs Hm H. unfold times_ok, times_ok_by. rewrite run_log_is_reference by exact Hm.
  rewrite <- filter_matches_spec. unfold lastn. rewrite recs_length.
  apply all2_skipn. apply all2_recs. intros tx Hi. apply H. apply filter_In in Hi. apply Hi.
Qed.

(* ================================================================ queries *)

(* what TransitionEnd writes: one MTimeTracked and one MTimeTrackedDiff entry
   per tracked state *)
Definition wfr (c : hcfg) (r : hrec) : Prop :=
  length (r_tracked r) = length (c_tracked c) /\
  length (r_tracked_diff r) = length (c_tracked c).
Definition db_wf (c : hcfg) (db : list hrec) : Prop := Forall (wfr c) db.

Lemma zip_sub_length : forall a b, length a = length b -> length (zip_sub a b) = length a.
Proof.
  induction a as [|x a IH]; intros [|y b] H; try discriminate; [reflexivity|].
  cbn [zip_sub length]. f_equal. apply IH. cbn in H. lia.
Qed.

Lemma diff_since_length : forall a b, length (diff_since a b) = length a.
Proof.
  intros. unfold diff_since. destruct (Nat.eqb_spec (length a) (length b)).
  - apply zip_sub_length. assumption.
  - apply repeat_length.
Qed.

Lemma mk_record_wf : forall c p tx, wfr c (mk_record c p tx).
Proof.
  intros. unfold wfr. cbn [mk_record r_tracked r_tracked_diff].
  rewrite diff_since_length. unfold time_filter. rewrite map_length. split; reflexivity.
Qed.

Lemma run_log_wf : forall c txs, 1 <= c_max c -> db_wf c (run_log c txs).
Proof.
  intros c txs H. apply Forall_forall. intros r Hr.
  rewrite run_log_is_reference in Hr by exact H. apply In_lastn in Hr. apply recs_in in Hr.
  destruct Hr as (p & tx & _ & ->). apply mk_record_wf.
Qed.

Lemma pos_in_from_spec : forall l k x,
  mem x l = true -> exists i, pos_in_from k l x = S (k + i) /\ i < length l.
Proof.
  induction l as [|a l IH]; intros k x H; [discriminate|].
  unfold mem in H. cbn [existsb] in H. cbn [pos_in_from length].
  destruct (Nat.eqb x a) eqn:E.
  - exists 0. split; [f_equal; lia|lia].
  - cbn [orb] in H. destruct (IH (S k) x H) as (i & Hi & Hl).
    exists (S i). split; [rewrite Hi; f_equal; lia|lia].
Qed.

Lemma tracked_index_spec : forall c s,
  is_tracked c s = true ->
  exists i, pos_in (c_tracked c) s = S i /\ tracked_index c s = Z.of_nat i
            /\ i < length (c_tracked c).
Proof.
  intros c s H. unfold is_tracked in H.
  destruct (pos_in_from_spec _ 0 _ H) as (i & Hi & Hl).
  exists i. unfold tracked_index, pos_in. rewrite Hi. cbn [Nat.add]. repeat split; assumption.
Qed.

Lemma at_tracked_nat : forall r i, at_tracked r (Z.of_nat i) = nth_error (r_tracked r) i.
Proof.
  intros. unfold at_tracked. destruct (Z.ltb_spec (Z.of_nat i) 0); [lia|].
  rewrite Nat2Z.id. reflexivity.
Qed.

Lemma at_tracked_diff_nat : forall r i,
  at_tracked_diff r (Z.of_nat i) = nth_error (r_tracked_diff r) i.
Proof.
  intros. unfold at_tracked_diff. destruct (Z.ltb_spec (Z.of_nat i) 0); [lia|].
  rewrite Nat2Z.id. reflexivity.
Qed.

(* r.Time.MTimeTracked[m.Index1(s)] / r.Time.MTimeTrackedDiff[m.Index1(s)] for
   a tracked state: no index error on a well-formed record *)
Lemma at_tracked_tick : forall c r s,
  wfr c r -> is_tracked c s = true ->
  at_tracked r (tracked_index c s) = Some (tracked_tick c r s).
Proof.
  intros c r s [Hw _] Hs. destruct (tracked_index_spec _ _ Hs) as (i & Hp & Hi & Hlt).
  rewrite Hi, at_tracked_nat. unfold tracked_tick. rewrite Hp.
  apply nth_error_nth'. lia.
Qed.

Lemma at_tracked_delta : forall c r s,
  wfr c r -> is_tracked c s = true ->
  at_tracked_diff r (tracked_index c s) = Some (tracked_delta c r s).
Proof.
  intros c r s [_ Hw] Hs. destruct (tracked_index_spec _ _ Hs) as (i & Hp & Hi & Hlt).
  rewrite Hi, at_tracked_diff_nat. unfold tracked_delta. rewrite Hp.
  apply nth_error_nth'. lia.
Qed.

Definition pass_if (b : bool) : cl_res := if b then CPass else CReject.

Lemma clause_active_spec : forall c r l,
  wfr c r -> forallb (is_tracked c) l = true ->
  clause_active c r l = pass_if (forallb (st_active c r) l).
Proof.
  induction l as [|s l IH]; intros Hw H; [reflexivity|].
  cbn [forallb] in H. apply andb_true_iff in H. destruct H as [Hs Hl].
  cbn [clause_active forallb]. rewrite at_tracked_tick by assumption.
  unfold st_active at 1, active_tick.
  destruct (N.odd (tracked_tick c r s)); cbn [negb andb]; [apply IH; assumption|reflexivity].
Qed.

Lemma clause_inactive_spec : forall c r l,
  wfr c r -> forallb (is_tracked c) l = true ->
  clause_inactive c r l = pass_if (forallb (st_inactive c r) l).
Proof.
  induction l as [|s l IH]; intros Hw H; [reflexivity|].
  cbn [forallb] in H. apply andb_true_iff in H. destruct H as [Hs Hl].
  cbn [clause_inactive forallb]. rewrite at_tracked_tick by assumption.
  unfold st_inactive at 1, active_tick.
  destruct (N.odd (tracked_tick c r s)); cbn [negb andb]; [reflexivity|apply IH; assumption].
Qed.

Lemma clause_activated_spec : forall c r l,
  wfr c r -> forallb (is_tracked c) l = true ->
  clause_activated c r l = pass_if (forallb (st_activated c r) l).
Proof.
  induction l as [|s l IH]; intros Hw H; [reflexivity|].
  cbn [forallb] in H. apply andb_true_iff in H. destruct H as [Hs Hl].
  cbn [clause_activated forallb]. rewrite at_tracked_tick by assumption.
  unfold st_activated at 1, active_tick.
  destruct (N.odd (tracked_tick c r s)); cbn [negb andb]; [|reflexivity].
  rewrite at_tracked_delta by assumption. rewrite <- N.negb_odd.
  destruct (N.odd (tracked_delta c r s)); cbn [negb]; [apply IH; assumption|reflexivity].
Qed.

Lemma clause_deactivated_spec : forall c r l,
  wfr c r -> forallb (is_tracked c) l = true ->
  clause_deactivated c r l = pass_if (forallb (st_deactivated c r) l).
Proof.
  induction l as [|s l IH]; intros Hw H; [reflexivity|].
  cbn [forallb] in H. apply andb_true_iff in H. destruct H as [Hs Hl].
  cbn [clause_deactivated forallb]. rewrite at_tracked_tick by assumption.
  unfold st_deactivated at 1, active_tick.
  destruct (N.odd (tracked_tick c r s)); cbn [negb andb]; [reflexivity|].
  rewrite at_tracked_delta by assumption. rewrite <- N.negb_odd.
  destruct (N.odd (tracked_delta c r s)); cbn [negb]; [apply IH; assumption|reflexivity].
Qed.

Definition keep (c : hcfg) (q : query) (r : hrec) : bool :=
  negb (mtime_skip c q r) && negb (scalar_skip q r).

(* what one round of the records loop decides *)
Definition sel (c : hcfg) (q : query) (r : hrec) : bool := state_sat c q r && keep c q r.

Lemma validate_parts : forall c q,
  validate c q = true ->
  forallb (is_tracked c) (q_active q) = true /\
  forallb (is_tracked c) (q_activated q) = true /\
  forallb (is_tracked c) (q_inactive q) = true /\
  forallb (is_tracked c) (q_deactivated q) = true /\
  forallb (is_tracked c) (t_mstates (q_start q)) = true /\
  forallb (is_tracked c) (t_mstates (q_end q)) = true /\
  length (t_mstates (q_start q)) = length (t_mtime (q_start q)) /\
  length (t_mstates (q_end q)) = length (t_mtime (q_end q)).
Proof.
  intros c q H. unfold validate in H. rewrite !forallb_app in H.
  repeat (apply andb_true_iff in H; destruct H as [H ?]).
  repeat match goal with h : Nat.eqb _ _ = true |- _ => apply Nat.eqb_eq in h end.
  repeat match goal with h : _ && _ = true |- _ => apply andb_true_iff in h; destruct h end.
  repeat split; assumption.
Qed.

Lemma rec_step_spec : forall c q r,
  wfr c r -> validate c q = true ->
  rec_step c q r = if sel c q r then STake else SSkip.
Proof.
  intros c q r Hw Hv. destruct (validate_parts _ _ Hv) as (H1 & H2 & H3 & H4 & _).
  unfold rec_step, sel, state_sat, keep.
  rewrite clause_active_spec, clause_activated_spec, clause_inactive_spec,
          clause_deactivated_spec by assumption.
  destruct (forallb (st_active c r) (q_active q)); cbn [pass_if andb]; [|reflexivity].
  destruct (forallb (st_activated c r) (q_activated q)); cbn [pass_if andb]; [|reflexivity].
  destruct (forallb (st_inactive c r) (q_inactive q)); cbn [pass_if andb]; [|reflexivity].
  destruct (forallb (st_deactivated c r) (q_deactivated q)); cbn [pass_if andb]; [|reflexivity].
  destruct (mtime_skip c q r); [reflexivity|]. destruct (scalar_skip q r); reflexivity.
Qed.

Lemma with_pos_wf : forall c db k,
  db_wf c db -> Forall (fun t => wfr c (snd t)) (with_pos k db).
Proof.
  induction db as [|r db IH]; intros k Hd; [constructor|].
  inversion Hd; subst. cbn [with_pos]. constructor; [assumption|apply IH; assumption].
Qed.

Lemma newest_first_wf : forall c db,
  db_wf c db -> Forall (fun t => wfr c (snd t)) (newest_first db).
Proof.
  intros c db H. unfold newest_first. apply Forall_forall. intros t Ht. apply in_rev in Ht.
  pose proof (with_pos_wf c db 0 H) as F. rewrite Forall_forall in F. apply (F t Ht).
Qed.

Lemma take_limit_done : forall (limit : Z) (ret : list nat) x rest,
  limit_hit limit (length ret) = false ->
  limit_hit limit (length (ret ++ [x])) = true ->
  take_limit limit (ret ++ x :: rest) = ret ++ [x].
Proof.
  intros limit ret x rest H0 H1. unfold limit_hit, take_limit in *.
  rewrite app_length in H1. cbn [length] in H1.
  destruct (Z.ltb_spec 0 limit); cbn [andb] in *; [|discriminate].
  apply Z.leb_le in H1. apply Z.leb_gt in H0.
  assert (Z.to_nat limit = length (ret ++ [x])) as E by (rewrite app_length; cbn [length]; lia).
  replace (ret ++ x :: rest) with ((ret ++ [x]) ++ rest) by (rewrite <- app_assoc; reflexivity).
  rewrite firstn_app, E, firstn_all, Nat.sub_diag. cbn [firstn]. apply app_nil_r.
Qed.

Lemma take_limit_all : forall (limit : Z) (ret : list nat),
  limit_hit limit (length ret) = false -> take_limit limit ret = ret.
Proof.
  intros limit ret H. unfold limit_hit, take_limit in *.
  destruct (Z.ltb_spec 0 limit); cbn [andb] in *; [|reflexivity].
  apply Z.leb_gt in H. apply firstn_all2. lia.
Qed.

Lemma fl_loop_closed : forall c q limit l ret,
  validate c q = true -> Forall (fun t => wfr c (snd t)) l ->
  limit_hit limit (length ret) = false ->
  fl_loop c q limit l ret =
  FlOk (take_limit limit (ret ++ map fst (filter (fun t => sel c q (snd t)) l))).
Proof.
  intros c q limit l. induction l as [|t l IH]; intros ret Hv Hw Hl.
  - cbn. rewrite app_nil_r, take_limit_all by assumption. reflexivity.
  - inversion Hw as [|? ? Hr Hw']; subst. destruct t as [pos r].
    cbn [fl_loop filter fst snd] in *.
    rewrite rec_step_spec by assumption.
    destruct (sel c q r) eqn:Ek.
    + cbn [map fst]. destruct (limit_hit limit (length (ret ++ [pos]))) eqn:Eh.
      * rewrite take_limit_done by assumption. reflexivity.
      * rewrite IH by assumption. rewrite <- app_assoc. reflexivity.
    + apply IH; assumption.
Qed.

Lemma limit_hit_0 : forall limit, limit_hit limit (@length nat []) = false.
Proof.
  intros. unfold limit_hit. cbn [length]. destruct (Z.ltb_spec 0 limit); [|reflexivity].
  cbn [andb]. apply Z.leb_gt. lia.
Qed.

Lemma find_latest_closed_pairs : forall c db limit q,
  db_wf c db -> validate c q = true ->
  find_latest c db limit q =
  FlOk (take_limit limit (map fst (filter (fun t => sel c q (snd t)) (newest_first db)))).
Proof.
  intros c db limit q Hd Hv. unfold find_latest. rewrite Hv. cbn [negb].
  rewrite fl_loop_closed; try assumption; [reflexivity|apply newest_first_wf; assumption|apply limit_hit_0].
Qed.

(* ---- positions *)

Lemma filter_rev' : forall {A} (f : A -> bool) l, filter f (rev l) = rev (filter f l).
Proof.
  induction l as [|a l IH]; [reflexivity|]. cbn [rev filter]. rewrite filter_app, IH. cbn [filter].
  destruct (f a); cbn [rev]; [reflexivity|apply app_nil_r].
Qed.

Lemma with_pos_positions : forall (P : hrec -> bool) db k,
  map fst (filter (fun t => P (snd t)) (with_pos k db)) =
  filter (fun i => match nth_error db (i - k) with Some r => P r | None => false end)
         (seq k (length db)).
Proof.
  induction db as [|r db IH]; intros k; [reflexivity|].
  cbn [with_pos filter length seq fst snd]. rewrite Nat.sub_diag. cbn [nth_error].
  assert (filter (fun i => match nth_error (r :: db) (i - k) with Some r0 => P r0 | None => false end)
                 (seq (S k) (length db)) =
          filter (fun i => match nth_error db (i - S k) with Some r0 => P r0 | None => false end)
                 (seq (S k) (length db))) as E.
  { apply filter_ext_in. intros i Hi. apply in_seq in Hi.
    replace (i - k) with (S (i - S k)) by lia. reflexivity. }
  destruct (P r); cbn [map fst]; rewrite IH, E; reflexivity.
Qed.

Lemma newest_first_positions : forall (P : hrec -> bool) db limit,
  take_limit limit (map fst (filter (fun t => P (snd t)) (newest_first db))) =
  filter_latest P db limit.
Proof.
  intros. unfold filter_latest, newest_first, positions_desc. f_equal.
  rewrite !filter_rev', map_rev. f_equal.
  rewrite with_pos_positions. apply filter_ext. intros i. rewrite Nat.sub_0_r. reflexivity.
Qed.

Lemma filter_latest_ext : forall (P Q : hrec -> bool) db limit,
  (forall r, P r = Q r) -> filter_latest P db limit = filter_latest Q db limit.
Proof.
  intros P Q db limit H. unfold filter_latest. f_equal. apply filter_ext. intros i.
  destruct (nth_error db i); [apply H|reflexivity].
Qed.

Lemma find_latest_closed : forall c db limit q,
  db_wf c db -> validate c q = true ->
  find_latest c db limit q = FlOk (filter_latest (sel c q) db limit).
Proof.
  intros. rewrite find_latest_closed_pairs by assumption. f_equal. apply newest_first_positions.
Qed.

(* ---- scalar / single-state ranges mean what they say *)

Lemma range_skip_spec : forall s e v, range_skip s e v = negb (in_range s e v).
Proof.
  intros. unfold range_skip, in_range.
  destruct (N.eqb_spec s 0), (N.eqb_spec e 0); cbn; try reflexivity.
  destruct (N.leb_spec s v), (N.leb_spec v e), (N.ltb_spec v s), (N.ltb_spec e v);
    cbn; try reflexivity; lia.
Qed.

Lemma scalar_skip_spec : forall q r, negb (scalar_skip q r) = scalar_sat q r.
Proof.
  intros. unfold scalar_skip, scalar_sat. rewrite !range_skip_spec.
  repeat match goal with |- context [in_range ?a ?b ?c] => destruct (in_range a b c) end; reflexivity.
Qed.

Lemma keep_is_time_cond : forall c q r, keep c q r = time_cond_impl c q r.
Proof. intros. unfold keep, time_cond_impl. rewrite scalar_skip_spec. reflexivity. Qed.

(* FindLatest = the records satisfying the four state conditions and the time
   conditions, newest first, limited; an error exactly for an invalid query;
   never a panic *)
Lemma find_latest_state_conditions_lemma : forall c db limit q,
  db_wf c db ->
  find_latest c db limit q =
    if negb (validate c q) then FlErr
    else FlOk (filter_latest (fun r => state_sat c q r && time_cond_impl c q r) db limit).
Proof.
  intros c db limit q Hd. destruct (validate c q) eqn:Hv; cbn [negb].
  - rewrite find_latest_closed by assumption. f_equal. apply filter_latest_ext.
    intros. unfold sel. rewrite keep_is_time_cond. reflexivity.
  - unfold find_latest. rewrite Hv. reflexivity.
Qed.

Lemma find_latest_never_panics_lemma : forall c db limit q,
  db_wf c db -> find_latest c db limit q <> FlPanic.
Proof.
  intros c db limit q Hd. rewrite find_latest_state_conditions_lemma by assumption.
  destruct (negb (validate c q)); discriminate.
Qed.

Lemma in_take_limit : forall {A} limit (l : list A) x, In x (take_limit limit l) -> In x l.
Proof.
  intros A limit l x H. unfold take_limit in H. destruct (0 <? limit)%Z; [|exact H].
  rewrite <- (firstn_skipn (Z.to_nat limit) l). apply in_or_app. left. exact H.
Qed.

(* soundness, spelled out *)
Lemma find_latest_sound_lemma : forall c db limit q idxs i,
  db_wf c db -> find_latest c db limit q = FlOk idxs -> In i idxs ->
  exists r, nth_error db i = Some r /\
    forallb (st_active c r) (q_active q) = true /\
    forallb (st_activated c r) (q_activated q) = true /\
    forallb (st_inactive c r) (q_inactive q) = true /\
    forallb (st_deactivated c r) (q_deactivated q) = true /\
    time_cond_impl c q r = true.
Proof.
  intros c db limit q idxs i Hd H Hi. rewrite find_latest_state_conditions_lemma in H by assumption.
  destruct (negb (validate c q)); [discriminate|]. inversion H; subst; clear H.
  unfold filter_latest in Hi. apply in_take_limit in Hi. apply filter_In in Hi. destruct Hi as [_ Hi].
  destruct (nth_error db i) as [r|]; [|discriminate]. exists r. split; [reflexivity|].
  unfold state_sat in Hi. repeat (apply andb_true_iff in Hi; destruct Hi as [Hi ?]).
  repeat split; assumption.
Qed.

(* completeness, spelled out *)
Lemma firstn_filter_desc_complete : forall (g : nat -> bool) n k i,
  i < n -> g i = true ->
  In i (firstn k (filter g (rev (seq 0 n)))) \/
  (length (firstn k (filter g (rev (seq 0 n)))) = k /\
   forall j, In j (firstn k (filter g (rev (seq 0 n)))) -> i < j).
Proof.
  intros g n. induction n as [|n IH]; intros k i Hi Hg; [lia|].
  rewrite seq_S, rev_app_distr. cbn [rev app filter Nat.add].
  destruct (Nat.eq_dec i n) as [->|Hne].
  - rewrite Hg. destruct k; [right; split; [reflexivity|intros j []]|]. left. left. reflexivity.
  - assert (i < n) as Hi' by lia.
    destruct (g n).
    + destruct k; [right; split; [reflexivity|intros j []]|].
      cbn [firstn]. destruct (IH k i Hi' Hg) as [H|[Hl Hj]].
      * left. right. exact H.
      * right. split; [cbn [length]; rewrite Hl; reflexivity|].
        intros j [<-|Hj']; [lia|apply Hj; exact Hj'].
    + apply IH; assumption.
Qed.

Lemma find_latest_complete_lemma : forall c db limit q idxs i r,
  db_wf c db -> find_latest c db limit q = FlOk idxs ->
  nth_error db i = Some r ->
  state_sat c q r = true -> time_cond_impl c q r = true ->
  In i idxs \/
  ((0 < limit)%Z /\ Z.of_nat (length idxs) = limit /\ forall j, In j idxs -> i < j).
Proof.
  intros c db limit q idxs i r Hd H Hn Hs Ht.
  rewrite find_latest_state_conditions_lemma in H by assumption.
  destruct (negb (validate c q)); [discriminate|]. inversion H; subst; clear H.
  unfold filter_latest, positions_desc, take_limit.
  set (g := fun i0 => match nth_error db i0 with
                      | Some r0 => state_sat c q r0 && time_cond_impl c q r0
                      | None => false end).
  assert (g i = true) as Hg by (unfold g; rewrite Hn, Hs, Ht; reflexivity).
  assert (i < length db) as Hi by (apply nth_error_Some; congruence).
  destruct (Z.ltb_spec 0 limit) as [Hl|Hl].
  - destruct (firstn_filter_desc_complete g (length db) (Z.to_nat limit) i Hi Hg) as [H|[H1 H2]].
    + left. exact H.
    + right. split; [exact Hl|]. split; [rewrite H1; lia|exact H2].
  - left. apply filter_In. split; [|exact Hg]. apply in_rev. rewrite rev_involutive.
    apply in_seq. lia.
Qed.

(* ---- the exact specification when the machine-time range names <= 1 state *)

Lemma mtime_skip_spec : forall c q r,
  validate c q = true -> mtime_wf q = true -> length (t_mstates (q_start q)) <= 1 ->
  negb (mtime_skip c q r) = mtime_sat c q r.
Proof.
  intros c q r Hv Hw Hl. destruct (validate_parts _ _ Hv) as (_ & _ & _ & _ & H5 & _ & H7 & H8).
  unfold mtime_skip, mtime_sat, mtime_wf in *.
  destruct (t_mstates (q_start q)) as [|s [|s2 l]] eqn:Es; cbn [length] in Hl; [reflexivity| |lia].
  destruct (t_mstates (q_end q)) as [|s' [|? ?]] eqn:Ee; cbn in Hw; try discriminate.
  2:{ rewrite andb_false_r in Hw. discriminate. }
  destruct (t_mtime (q_start q)) as [|lo [|? ?]]; cbn in H7; try discriminate.
  destruct (t_mtime (q_end q)) as [|hi [|? ?]]; cbn in H8; try discriminate.
  cbn [forallb] in H5. rewrite andb_true_r in H5.
  destruct (tracked_index_spec _ _ H5) as (i & Hp & Hi & _).
  cbn [is_nil map time_filter vec_in_range]. unfold tracked_tick. rewrite Hp, Hi, Nat2Z.id.
  unfold tick. cbn [time_before time_after negb andb].
  set (v := nth i (r_tracked r) 0%N).
  destruct (N.ltb_spec lo v), (N.eqb_spec v lo), (N.ltb_spec v hi), (N.eqb_spec v hi),
           (N.leb_spec lo v), (N.leb_spec v hi); cbn; try reflexivity; lia.
Qed.

Lemma sel_is_rec_sat : forall c q r,
  validate c q = true -> mtime_wf q = true -> length (t_mstates (q_start q)) <= 1 ->
  sel c q r = rec_sat c q r.
Proof.
  intros c q r Hv Hw Hl. unfold sel, keep, rec_sat.
  rewrite mtime_skip_spec, scalar_skip_spec by assumption. apply andb_assoc.
Qed.

Lemma find_latest_full_spec_lemma : forall c db limit q,
  db_wf c db -> validate c q = true -> mtime_wf q = true ->
  length (t_mstates (q_start q)) <= 1 ->
  find_latest c db limit q = FlOk (find_latest_spec c db limit q).
Proof.
  intros c db limit q Hd Hv Hw Hl. rewrite find_latest_closed by assumption.
  unfold find_latest_spec. f_equal. apply filter_latest_ext. intros.
  apply sel_is_rec_sat; assumption.
Qed.

(* ---- newest first, limited *)

Lemma desc_filter_seq : forall (g : nat -> bool) n,
  strictly_desc (filter g (rev (seq 0 n))) = true /\
  Forall (fun i => i < n) (filter g (rev (seq 0 n))).
Proof.
  induction n as [|n [IH1 IH2]]; [split; [reflexivity|constructor]|].
  rewrite seq_S, rev_app_distr. cbn [rev app filter Nat.add].
  assert (Forall (fun i => i < S n) (filter g (rev (seq 0 n)))) as F.
  { eapply Forall_impl; [|exact IH2]. cbn. intros. lia. }
  destruct (g n); [|split; assumption].
  split; [|constructor; [lia|assumption]].
  destruct (filter g (rev (seq 0 n))) as [|b r] eqn:E; [reflexivity|].
  cbn [strictly_desc]. inversion IH2; subst.
  destruct (Nat.ltb_spec b n); [|lia]. cbn [andb]. exact IH1.
Qed.

Lemma strictly_desc_firstn : forall k l, strictly_desc l = true -> strictly_desc (firstn k l) = true.
Proof.
  induction k as [|k IH]; intros l H; [reflexivity|].
  destruct l as [|a [|b r]]; [reflexivity|destruct k; reflexivity|].
  cbn [strictly_desc] in H. apply andb_true_iff in H. destruct H as [H1 H2].
  specialize (IH (b :: r) H2). cbn [firstn] in *.
  destruct k; [reflexivity|]. cbn [firstn strictly_desc] in *. rewrite H1. exact IH.
Qed.

Lemma newest_first_lemma : forall c db limit q idxs,
  db_wf c db -> find_latest c db limit q = FlOk idxs ->
  newest_first_ok db limit idxs = true.
Proof.
  intros c db limit q idxs Hd H. rewrite find_latest_state_conditions_lemma in H by assumption.
  destruct (negb (validate c q)); [discriminate|].
  inversion H as [E]. clear H. unfold filter_latest, positions_desc.
  set (g := fun i => match nth_error db i with
                     | Some r => state_sat c q r && time_cond_impl c q r
                     | None => false end).
  destruct (desc_filter_seq g (length db)) as [D F].
  unfold newest_first_ok, take_limit.
  destruct (Z.ltb_spec 0 limit) as [Hl|Hl]; cbn [negb orb].
  - rewrite strictly_desc_firstn by exact D. cbn [andb].
    rewrite firstn_length.
    replace (Z.of_nat (Nat.min (Z.to_nat limit) (length (filter g (rev (seq 0 (length db)))))) <=? limit)%Z
      with true by (symmetry; apply Z.leb_le; lia).
    rewrite andb_true_r. apply forallb_forall. intros i Hi.
    assert (In i (filter g (rev (seq 0 (length db))))) as Hi'.
    { rewrite <- (firstn_skipn (Z.to_nat limit)). apply in_or_app. left. exact Hi. }
    eapply Forall_forall in F; [|exact Hi']. apply Nat.ltb_lt. exact F.
  - rewrite D. cbn [andb]. rewrite andb_true_r. apply forallb_forall. intros i Hi.
    eapply Forall_forall in F; [|exact Hi]. apply Nat.ltb_lt. exact F.
Qed.

(* ---- witnesses *)

Definition w_tx (ty : N) (called : list nat) (b a : list N) (h : N) : htx :=
  {| x_type := ty; x_called := called; x_auto := false; x_check := false; x_accepted := true;
     x_before := b; x_after := a; x_mach_after := a; x_qtick := h; x_mach_qtick := h;
     x_mtick := 0; x_htime := h |}.

(* Add Sa; Add Sb; Add Sc; Remove Sa; Remove Sb on {Sa,Sb,Sc,Exception} *)
Definition w_txs : list htx :=
  [ w_tx 0 [0] [0;0;0;0]%N [1;0;0;0]%N 1;
    w_tx 0 [1] [1;0;0;0]%N [1;1;0;0]%N 2;
    w_tx 0 [2] [1;1;0;0]%N [1;1;1;0]%N 3;
    w_tx 1 [0] [1;1;1;0]%N [2;1;1;0]%N 4;
    w_tx 1 [1] [2;1;1;0]%N [2;2;1;0]%N 5 ].

Definition w_cfg (tracked : list nat) : hcfg :=
  {| c_called := []; c_called_excl := false; c_changed := []; c_changed_excl := false;
     c_rejected := false; c_store_tx := false; c_tracked := tracked; c_max := 10 |}.

Definition ctime0 : ctime := ctime_h 0.
Definition w_query (a av i d : list nat) : query :=
  {| q_active := a; q_activated := av; q_inactive := i; q_deactivated := d;
     q_start := ctime0; q_end := ctime0 |}.

(* Changed allow-list [Sb]: Add Sb (recorded), Add Sa (not recorded),
   Remove Sb (recorded), Add Sb (recorded), Remove Sa (not recorded),
   Remove Sb (recorded) *)
Definition w_cfg_changed : hcfg :=
  {| c_called := []; c_called_excl := false; c_changed := [1]; c_changed_excl := false;
     c_rejected := false; c_store_tx := false; c_tracked := [0; 1]; c_max := 10 |}.
Definition w_txs_unrec : list htx :=
  [ w_tx 0 [1] [0;0;0;0]%N [0;1;0;0]%N 1;
    w_tx 0 [0] [0;1;0;0]%N [1;1;0;0]%N 0;
    w_tx 1 [1] [1;1;0;0]%N [1;2;0;0]%N 2;
    w_tx 0 [1] [1;2;0;0]%N [1;3;0;0]%N 3;
    w_tx 1 [0] [1;3;0;0]%N [2;3;0;0]%N 0;
    w_tx 1 [1] [2;3;0;0]%N [2;4;0;0]%N 4 ].

(* Add Sd (Multi); Add Sd again (re-entered: tick 1 -> 3); Remove Sd *)
Definition w_txs_multi : list htx :=
  [ w_tx 0 [0] [0;0]%N [1;0]%N 1;
    w_tx 0 [0] [1;0]%N [3;0]%N 2;
    w_tx 1 [0] [3;0]%N [4;0]%N 3 ].

Definition w_mquery : query :=
  {| q_active := []; q_activated := []; q_inactive := []; q_deactivated := [];
     q_start := {| t_mstates := [0; 1]; t_mtime := [1; 1]%N; t_htime := 0; t_sum := 0; t_tsum := 0;
                   t_diff := 0; t_tdiff := 0; t_rdiff := 0; t_mtick := 0 |};
     q_end := {| t_mstates := [0; 1]; t_mtime := [2; 1]%N; t_htime := 0; t_sum := 0; t_tsum := 0;
                 t_diff := 0; t_tdiff := 0; t_rdiff := 0; t_mtick := 0 |} |}.

Lemma find_latest_mtime_refuted_lemma :
  exists c txs q,
    validate c q = true /\ states_free q = true /\ mtime_wf q = true /\
    find_latest c (run_log c txs) 0 q = FlOk [2; 1; 0] /\
    find_latest_spec c (run_log c txs) 0 q = [2; 1].
Proof.
  exists (w_cfg [0; 1]), (firstn 2 w_txs ++ [w_tx 1 [0] [1;1;0;0]%N [2;1;0;0]%N 3]), w_mquery.
  vm_compute. repeat split; reflexivity.
Qed.

(* a store holding a record whose MTimeTrackedDiff is shorter than the tracked
   list (no history of this backend produces one: run_log_wf) makes an
   Activated query panic: the hypothesis of the query theorems is needed *)
Definition w_short_rec : hrec :=
  {| r_type := 0; r_sum := 1; r_tsum := 1; r_diff := 1; r_tdiff := 1; r_rdiff := 0; r_htime := 1;
     r_tracked := [1]%N; r_tracked_diff := []; r_mtick := 0; r_tx := None |}.

Lemma short_diff_panics_lemma :
  exists c db q,
    validate c q = true /\
    Forall (fun r => length (r_tracked r) = length (c_tracked c)) db /\
    find_latest c db 0 q = FlPanic.
Proof.
  exists (w_cfg [0]), [w_short_rec], (w_query [] [0] [] []).
  split; [reflexivity|]. split; [repeat constructor|reflexivity].
Qed.

(* ================================================================ *Between *)

Lemma is_nil_map_filter : forall {A B} (f : A -> B) (p : A -> bool) l,
  is_nil (map f (filter p l)) = negb (existsb p l).
Proof.
  induction l as [|a l IH]; [reflexivity|]. cbn [filter existsb].
  destruct (p a); [reflexivity|]. exact IH.
Qed.

Lemma existsb_rev' : forall {A} (p : A -> bool) l, existsb p (rev l) = existsb p l.
Proof.
  induction l as [|a l IH]; [reflexivity|]. cbn [rev existsb].
  rewrite existsb_app, IH. cbn [existsb]. rewrite orb_false_r. apply orb_comm.
Qed.

Lemma existsb_with_pos : forall (P : hrec -> bool) db k,
  existsb (fun t => P (snd t)) (with_pos k db) = existsb P db.
Proof.
  induction db as [|r db IH]; intros; [reflexivity|].
  cbn [with_pos existsb snd]. rewrite IH. reflexivity.
Qed.

Lemma existsb_ext' : forall {A} (f g : A -> bool) l,
  (forall x, f x = g x) -> existsb f l = existsb g l.
Proof. induction l; intros; cbn; [reflexivity|]. rewrite H, IHl by exact H. reflexivity. Qed.

Lemma kind_cases : forall kind : N, (kind < 4)%N -> (kind = 0 \/ kind = 1 \/ kind = 2 \/ kind = 3)%N.
Proof. intros. lia. Qed.

Lemma between_validate : forall c kind s hs he,
  (kind < 4)%N -> validate c (between_query kind s hs he) = is_tracked c s.
Proof.
  intros c kind s hs he Hk. unfold validate, between_query.
  destruct (kind_cases kind Hk) as [K|[K|[K|K]]]; subst kind; cbn; rewrite ?andb_true_r; reflexivity.
Qed.

Lemma between_sel : forall c kind s hs he r,
  (kind < 4)%N ->
  sel c (between_query kind s hs he) r =
  between_cond c kind s r && in_range hs he (r_htime r).
Proof.
  intros c kind s hs he r Hk. unfold sel, keep, state_sat, mtime_skip, scalar_skip, between_query.
  destruct (kind_cases kind Hk) as [K|[K|[K|K]]]; subst kind; cbn;
    rewrite ?orb_false_r, ?andb_true_r, range_skip_spec, negb_involutive; reflexivity.
Qed.

(* the helpers answer "the state is tracked and some stored record within
   [hs,he] satisfies the state condition" - never a panic *)
Lemma between_exact_lemma : forall c db kind s hs he,
  db_wf c db -> (kind < 4)%N ->
  between c db kind s hs he = Some (between_spec c db kind s hs he).
Proof.
  intros c db kind s hs he Hd Hk. unfold between, between_spec.
  pose proof (between_validate c kind s hs he Hk) as Hv.
  destruct (is_tracked c s) eqn:Et; cbn [andb].
  2:{ unfold find_latest. rewrite Hv. reflexivity. }
  rewrite find_latest_closed_pairs by assumption.
  set (q := between_query kind s hs he).
  set (X := map fst (filter (fun t => sel c q (snd t)) (newest_first db))).
  assert (is_nil X = negb (existsb
            (fun r => between_cond c kind s r && in_range hs he (r_htime r)) db)) as Hx.
  { unfold X. rewrite is_nil_map_filter. unfold newest_first.
    rewrite existsb_rev', (existsb_with_pos (sel c q)). f_equal.
    apply existsb_ext'. intros. apply between_sel. exact Hk. }
  unfold take_limit. cbn. destruct X as [|x X']; cbn in *.
  - f_equal. destruct (existsb _ db); [discriminate|reflexivity].
  - f_equal. destruct (existsb _ db); [reflexivity|discriminate].
Qed.

Lemma activated_between_lemma : forall c db s hs he,
  db_wf c db ->
  between c db 0 s hs he =
    Some (is_tracked c s && existsb (fun r => st_activated c r s && in_range hs he (r_htime r)) db).
Proof. intros. apply (between_exact_lemma c db 0%N); [assumption|reflexivity]. Qed.

Lemma active_between_lemma : forall c db s hs he,
  db_wf c db ->
  between c db 1 s hs he =
    Some (is_tracked c s && existsb (fun r => st_active c r s && in_range hs he (r_htime r)) db).
Proof. intros. apply (between_exact_lemma c db 1%N); [assumption|reflexivity]. Qed.

Lemma deactivated_between_lemma : forall c db s hs he,
  db_wf c db ->
  between c db 2 s hs he =
    Some (is_tracked c s && existsb (fun r => st_deactivated c r s && in_range hs he (r_htime r)) db).
Proof. intros. apply (between_exact_lemma c db 2%N); [assumption|reflexivity]. Qed.

Lemma inactive_between_lemma : forall c db s hs he,
  db_wf c db ->
  between c db 3 s hs he =
    Some (is_tracked c s && existsb (fun r => st_inactive c r s && in_range hs he (r_htime r)) db).
Proof. intros. apply (between_exact_lemma c db 3%N); [assumption|reflexivity]. Qed.

(* ================================================================ Export / Import *)

Lemma length_set_nth : forall l i v, length (set_nth l i v) = length l.
Proof.
  induction l as [|x l IH]; intros; [reflexivity|]. destruct i; cbn; [reflexivity|].
  f_equal. apply IH.
Qed.

Lemma tick_set_nth : forall l i v j,
  tick (set_nth l i v) j = if Nat.eqb i j && (i <? length l) then v else tick l j.
Proof.
  unfold tick. induction l as [|x l IH]; intros i v j.
  - cbn. rewrite andb_false_r. reflexivity.
  - destruct i, j; cbn [set_nth nth Nat.eqb length]; try reflexivity.
    rewrite IH. reflexivity.
Qed.

Definition imp_clock (csrc : list N) (suf : list nat) (clock : list N) : list N :=
  fold_left (fun cl s => set_nth cl s (tick csrc s)) suf clock.
Definition imp_active (csrc : list N) (suf : list nat) (active : list nat) : list nat :=
  active ++ filter (fun s => active_tick (tick csrc s)) suf.

Lemma import_loop_spec : forall m csrc suf pre clock active,
  (forall s, In s suf -> mem s (e_names m) = true) ->
  import_loop m (pre ++ suf) (length pre) (map (tick csrc) suf) clock active
  = Some (Some (imp_clock csrc suf clock, imp_active csrc suf active)).
Proof.
  induction suf as [|s suf IH]; intros pre clock active H.
  - cbn. unfold imp_active. rewrite app_nil_r. reflexivity.
  - cbn [map import_loop].
    rewrite nth_error_app2, Nat.sub_diag by lia. cbn [nth_error].
    rewrite (H s) by (left; reflexivity). cbn [negb].
    replace (pre ++ s :: suf) with ((pre ++ [s]) ++ suf) by (rewrite <- app_assoc; reflexivity).
    replace (S (length pre)) with (length (pre ++ [s])) by (rewrite app_length; cbn; lia).
    rewrite IH by (intros; apply H; right; assumption).
    unfold imp_clock, imp_active. cbn [fold_left filter].
    destruct (active_tick (tick csrc s)); [rewrite <- app_assoc|]; reflexivity.
Qed.

Lemma imp_clock_length : forall csrc suf clock, length (imp_clock csrc suf clock) = length clock.
Proof.
  induction suf as [|a suf IH]; intros; [reflexivity|].
  unfold imp_clock in *. cbn [fold_left]. rewrite IH. apply length_set_nth.
Qed.

Lemma imp_clock_keeps : forall csrc suf clock s,
  tick clock s = tick csrc s -> tick (imp_clock csrc suf clock) s = tick csrc s.
Proof.
  induction suf as [|a suf IH]; intros clock s H; [exact H|].
  unfold imp_clock in *. cbn [fold_left]. apply IH. rewrite tick_set_nth.
  destruct (Nat.eqb_spec a s); cbn [andb]; [|exact H].
  subst. destruct (s <? length clock); [reflexivity|exact H].
Qed.

Lemma imp_clock_sets : forall csrc suf clock s,
  In s suf -> s < length clock -> tick (imp_clock csrc suf clock) s = tick csrc s.
Proof.
  induction suf as [|a suf IH]; intros clock s Hi Hl; [contradiction|].
  unfold imp_clock in *. cbn [fold_left]. destruct Hi as [Hi|Hi].
  - subst. apply (imp_clock_keeps csrc suf). rewrite tick_set_nth, Nat.eqb_refl.
    destruct (Nat.ltb_spec s (length clock)); [reflexivity|lia].
  - apply IH; [exact Hi|]. rewrite length_set_nth. exact Hl.
Qed.

Lemma mem_In : forall x l, mem x l = true <-> In x l.
Proof.
  intros. unfold mem. rewrite existsb_exists. split.
  - intros (y & Hy & E). apply Nat.eqb_eq in E. subst. exact Hy.
  - intros H. exists x. split; [exact H|apply Nat.eqb_refl].
Qed.

Lemma export_import_lemma : forall src dst,
  length (e_names dst) = length (e_names src) ->
  (forall s, In s (e_names src) -> In s (e_names dst)) ->
  (forall s, In s (e_names src) -> s < length (e_clock dst)) ->
  e_has_restored dst = false ->
  (forall s, In s (e_active src) <->
             In s (e_names src) /\ active_tick (tick (e_clock src) s) = true) ->
  exists m', import dst (export src) = IOk m' /\
    mach_time m' = mach_time src /\ e_names m' = e_names src /\
    (forall s, In s (e_names src) -> tick (e_clock m') s = tick (e_clock src) s) /\
    (forall s, In s (e_active m') <-> In s (e_active src)) /\
    e_mtick m' = (e_mtick src + 1)%N /\ e_qtick m' = e_qtick dst /\
    export_import_ok src (IOk m') = true.
Proof.
  intros src dst Hlen Hin Hcl Hres Hact. unfold import, export. cbn [z_names z_time z_mtick].
  rewrite Hlen, Nat.eqb_refl. cbn [negb]. unfold mach_time at 1.
  pose proof (import_loop_spec dst (e_clock src) (e_names src) [] (e_clock dst) []) as L.
  cbn [app length] in L. rewrite L by (intros; apply mem_In; apply Hin; assumption). clear L.
  rewrite Hres. eexists. split; [reflexivity|].
  assert (forall s, In s (e_names src) ->
            tick (imp_clock (e_clock src) (e_names src) (e_clock dst)) s = tick (e_clock src) s) as Hc.
  { intros s Hs. apply imp_clock_sets; [exact Hs|apply Hcl; exact Hs]. }
  assert (forall s, In s (imp_active (e_clock src) (e_names src) []) <-> In s (e_active src)) as Ha.
  { intros s. unfold imp_active. cbn [app]. rewrite filter_In. symmetry. apply Hact. }
  assert (map (tick (imp_clock (e_clock src) (e_names src) (e_clock dst))) (e_names src)
          = mach_time src) as Ht.
  { unfold mach_time. apply map_ext_in. exact Hc. }
  unfold mach_time at 1. cbn [e_clock e_names e_active e_mtick e_qtick].
  repeat split; try assumption; try apply Ha.
  unfold export_import_ok, mach_time at 1, export. cbn [e_clock e_names e_active e_mtick z_time].
  rewrite Ht, list_N_eqb_refl, N.eqb_refl, !andb_true_r.
  apply andb_true_iff. split.
  - apply forallb_forall. intros s Hs. apply N.eqb_eq. apply Hc. exact Hs.
  - unfold same_set, every. apply andb_true_iff.
    split; apply forallb_forall; intros s Hs; apply mem_In; apply Ha; exact Hs.
Qed.

Lemma import_restored_hangs_lemma : forall src dst,
  length (e_names dst) = length (e_names src) ->
  (forall s, In s (e_names src) -> In s (e_names dst)) ->
  e_has_restored dst = true ->
  import dst (export src) = IHang.
Proof.
  intros src dst Hlen Hin Hres. unfold import, export. cbn [z_names z_time z_mtick].
  rewrite Hlen, Nat.eqb_refl. cbn [negb]. unfold mach_time.
  pose proof (import_loop_spec dst (e_clock src) (e_names src) [] (e_clock dst) []) as L.
  cbn [app length] in L. rewrite L by (intros; apply mem_In; apply Hin; assumption).
  rewrite Hres. reflexivity.
Qed.

Lemma log_predicates_lemma : forall c txs,
  1 <= c_max c ->
  log_ok c txs (run_log c txs) = true /\
  ((forall tx, In tx txs -> x_after tx = x_mach_after tx) ->
   times_ok c txs (run_log c txs) = true).
Proof.
  intros c txs H. split; [apply log_ok_model_lemma; exact H|apply times_ok_model_lemma; exact H].
Qed.

(* ================================================================ NewMemory *)

Lemma every_forall : forall a b, every a b = true -> forall x, In x b -> In x a.
Proof.
  intros a b H x Hx. unfold every in H. rewrite forallb_forall in H.
  apply mem_In. apply H. exact Hx.
Qed.

Lemma parse_states_known : forall n order l,
  Forall (fun s => s < n) (parse_states n order l).
Proof.
  intros n order l. unfold parse_states.
  set (known := filter (fun s => s <? n) l).
  assert (Forall (fun s => s < n) known) as Hk.
  { apply Forall_forall. intros x Hx. apply filter_In in Hx. apply Nat.ltb_lt. apply Hx. }
  destruct (has_dup known).
  - apply Forall_forall. intros x Hx. apply filter_In in Hx. apply Nat.ltb_lt. apply Hx.
  - destruct (perm_eqb order known) eqn:E; [|exact Hk].
    unfold perm_eqb in E. apply andb_true_iff in E. destruct E as [E E2].
    apply andb_true_iff in E. destruct E as [_ E1].
    apply Forall_forall. intros x Hx.
    eapply Forall_forall in Hk; [exact Hk|]. eapply every_forall; [exact E2|exact Hx].
Qed.

(* NewMemory never installs a tracked state the machine does not know, keeps
   at least one, and MaxRecords >= 1 *)
Lemma new_memory_wf_lemma : forall n order w c,
  new_memory n order w = Some c ->
  Forall (fun s => s < n) (c_tracked c) /\ c_tracked c <> [] /\ 1 <= c_max c.
Proof.
  intros n order w c H. unfold new_memory in H.
  pose proof (parse_states_known n order (requested_tracked w)) as Hp.
  destruct (parse_states n order (requested_tracked w)) as [|a r] eqn:E; [discriminate|].
  inversion H; subst; clear H. cbn [c_tracked c_max].
  split; [exact Hp|]. split; [discriminate|].
  destruct (Z.leb_spec (w_max w) 0); lia.
Qed.

(* ================================================================ the record's own transition *)

Lemma w64_even : w64 = (2 * 9223372036854775808)%N.
Proof. reflexivity. Qed.

Lemma odd_mod_w64 : forall x, N.odd (x mod w64) = N.odd x.
Proof.
  intros x. pose proof (N.div_mod x w64 ltac:(unfold w64; discriminate)) as E.
  symmetry. etransitivity;
    [|apply (N.odd_add_mul_2 (x mod w64) (9223372036854775808 * (x / w64)))].
  f_equal. rewrite N.mul_assoc. change (2 * 9223372036854775808)%N with w64.
  rewrite N.add_comm. exact E.
Qed.

Lemma odd_sub64 : forall a b, N.odd (sub64 a b) = xorb (N.odd a) (N.odd b).
Proof.
  intros a b. unfold sub64. rewrite odd_mod_w64.
  assert (b mod w64 < w64)%N as Hb by (apply N.mod_lt; unfold w64; discriminate).
  set (b' := (b mod w64)%N) in *.
  assert (N.odd (a + w64 - b' + b') = xorb (N.odd a) false) as H.
  { replace (a + w64 - b' + b')%N with (a + w64)%N by lia.
    rewrite N.odd_add. f_equal. }
  rewrite N.odd_add in H. unfold b' in H. rewrite odd_mod_w64 in H. fold b' in H.
  destruct (N.odd (a + w64 - b')), (N.odd a), (N.odd b); cbn in *; congruence.
Qed.

Lemma pos_in_from_nth : forall l k x i,
  pos_in_from k l x = S (k + i) -> nth_error l i = Some x.
Proof.
  induction l as [|a l IH]; intros k x i H; cbn [pos_in_from] in H; [discriminate|].
  destruct (Nat.eqb_spec x a).
  - assert (i = 0) by lia. subst. reflexivity.
  - destruct i.
    + exfalso. assert (forall l k, S k <= pos_in_from k l x \/ pos_in_from k l x = 0) as G.
      { clear. induction l as [|b l IH]; intros k; cbn [pos_in_from]; [right; reflexivity|].
        destruct (Nat.eqb x b); [left; lia|]. destruct (IH (S k)); [left; lia|right; assumption]. }
      destruct (G l (S k)); lia.
    + cbn [nth_error]. apply (IH (S k)). rewrite H. lia.
Qed.

Lemma nth_zip_sub : forall a b i,
  length a = length b -> i < length a ->
  nth i (zip_sub a b) 0%N = sub64 (nth i a 0%N) (nth i b 0%N).
Proof.
  induction a as [|x a IH]; intros b i Hl Hi; [cbn in Hi; lia|].
  destruct b as [|y b]; [discriminate|]. destruct i; [reflexivity|].
  cbn [zip_sub nth]. apply IH; cbn in *; lia.
Qed.

(* the tick and the own-transition delta of a tracked state in the record of tx *)
Lemma mk_record_tick : forall c p tx s,
  is_tracked c s = true ->
  tracked_tick c (mk_record c p tx) s = tick (x_after tx) s /\
  tracked_delta c (mk_record c p tx) s = sub64 (tick (x_after tx) s) (tick (x_before tx) s).
Proof.
  intros c p tx s Hs. destruct (tracked_index_spec _ _ Hs) as (i & Hp & _ & Hlt).
  assert (nth_error (c_tracked c) i = Some s) as Hn.
  { unfold pos_in in Hp. apply (pos_in_from_nth _ 0). exact Hp. }
  assert (forall t, nth i (time_filter t (c_tracked c)) 0%N = tick t s) as Hf.
  { intros t. unfold time_filter.
    rewrite (nth_indep _ 0%N (tick t 0)) by (rewrite map_length; exact Hlt).
    rewrite map_nth. f_equal. apply nth_error_nth. exact Hn. }
  unfold tracked_tick, tracked_delta. rewrite Hp. cbn [mk_record r_tracked r_tracked_diff].
  split; [apply Hf|].
  unfold diff_since, time_filter. rewrite !map_length, Nat.eqb_refl.
  rewrite nth_zip_sub; [|rewrite !map_length; reflexivity|rewrite map_length; exact Hlt].
  fold (time_filter (x_after tx) (c_tracked c)). fold (time_filter (x_before tx) (c_tracked c)).
  rewrite !Hf. reflexivity.
Qed.

(* what the four state conditions say about the record of a transition, in
   terms of that transition alone (whatever else is or is not stored) *)
Lemma conditions_on_transition : forall c p tx s,
  is_tracked c s = true ->
  let b := N.odd (tick (x_before tx) s) in
  let a := N.odd (tick (x_after tx) s) in
  let r := mk_record c p tx in
  st_active c r s = a /\ st_inactive c r s = negb a /\
  st_activated c r s = negb b && a /\
  st_deactivated c r s = b && negb a.
Proof.
  intros c p tx s Hs b a r. destruct (mk_record_tick c p tx s Hs) as [Ht Hd].
  unfold st_active, st_inactive, st_activated, st_deactivated, r. rewrite Ht, Hd, odd_sub64.
  fold a b. destruct a, b; repeat split; reflexivity.
Qed.

Lemma conditions_on_transition_lemma : forall c txs r,
  1 <= c_max c -> In r (run_log c txs) ->
  exists tx, In tx txs /\ matches_spec c tx = true /\
    forall s, is_tracked c s = true ->
      let b := N.odd (tick (x_before tx) s) in
      let a := N.odd (tick (x_after tx) s) in
      st_active c r s = a /\ st_inactive c r s = negb a /\
      st_activated c r s = negb b && a /\
      st_deactivated c r s = b && negb a /\
      (* a Multi state re-entered in the transition: tick + 2, active before
         and after - neither activated nor deactivated *)
      (tick (x_after tx) s = tick (x_before tx) s + 2 ->
       st_activated c r s = false /\ st_deactivated c r s = false)%N.
Proof.
  intros c txs r Hm Hin. rewrite run_log_is_reference in Hin by exact Hm.
  apply In_lastn in Hin. apply recs_in in Hin. destruct Hin as (p & tx & Hi & ->).
  apply filter_In in Hi. destruct Hi as [Hi Hma]. rewrite matches_closed_form_lemma in Hma.
  exists tx. split; [exact Hi|]. split; [exact Hma|]. intros s Hs.
  destruct (conditions_on_transition c p tx s Hs) as (H1 & H2 & H3 & H4). cbn zeta.
  repeat split; try assumption.
  - rewrite H3, H. rewrite N.odd_add. destruct (N.odd (tick (x_before tx) s)); reflexivity.
  - rewrite H4, H. rewrite N.odd_add. destruct (N.odd (tick (x_before tx) s)); reflexivity.
Qed.
