(* C06 - proofs about the subscription manager model (Model/Subs.v) driven by
   traces of the sequential machine model (Model/SubsTrace.v).
   Part 1: refutation witnesses (real histories of the machine model).
   Part 2: invariants and the positive theorems. *)

From Coq Require Import List Bool Arith NArith ZArith Lia.
From Coq Require Import ZifyN ZifyNat ZifyBool.
From AMV Require Import Base.ListSet Model.Schema Model.Resolver Model.Machine Model.Subs
  Model.SubsTrace Spec.C06.
Import ListNotations.

(* ------------------------------------------------------------------------ *)
(* Part 1: witnesses                                                        *)

Definition plain_sdef : sdef :=
  {| s_auto := false; s_multi := false; s_require := []; s_add := []; s_remove := []; s_after := [] |}.
Definition exc_sdef : sdef :=
  {| s_auto := false; s_multi := true; s_require := []; s_add := []; s_remove := []; s_after := [] |}.

(* n independent states + Exception (index n, alphabetically first) *)
Definition flat_schema (n : nat) : schema := repeat plain_sdef n ++ [exc_sdef].

Definition call (k : api_kind) (sts : list nat) : api_call :=
  {| ac_kind := k; ac_states := sts; ac_args := false |}.

(* the history of the machine model for a schema, handler bindings, a script
   and top-level calls, turned into manager events with the scheduled ops *)
Definition hist_trace (sc : schema) (bs : list (list hkey)) (acts : list haction)
  (calls : list api_call) : trace :=
  let n := length sc in
  let sorted := (n - 1) :: seq 0 (n - 1) in
  Machine.run 5000 (init_st sc (topo_sort sc sorted) [] (n - 1) bs 1000 acts) calls.

Definition hist_events (sc : schema) (bs : list (list hkey)) (acts : list haction)
  (calls : list api_call) (ops : list sched_op) : list sevent :=
  let n := length sc in
  let sorted := (n - 1) :: seq 0 (n - 1) in
  events_of sc (topo_sort sc sorted) [] (hist_trace sc bs acts calls) ops.

Definition polls_of (ops : list sched_op) (es : list sevent) : list (list bool) :=
  snd (run_events (length ops) init_sst es).

Definition at_call (c : nat) (o : sop) : sched_op := {| so_pos := PCall c; so_op := o |}.

Ltac in_list := simpl; repeat (first [left; reflexivity | right]).

(* the machine view before call c / the told activity: read off the events *)
Fixpoint tx_end_views (es : list sevent) : list (view * bool) :=
  match es with
  | [] => []
  | ETxEnd v p :: r => (v, p) :: tx_end_views r
  | _ :: r => tx_end_views r
  end.

(* ---- defects that have been repaired in /repo: the same histories, now
   served (regression witnesses; the corpus replays them on the implementation) *)

Definition w3_ops := [at_call 1 OSetSchema; at_call 1 (OWhenTicks 0 1 None)].
Definition req_schema : schema :=
  [{| s_auto := false; s_multi := false; s_require := [1]; s_add := []; s_remove := []; s_after := [] |};
   plain_sdef; exc_sdef].
Definition w5_ops :=
  [at_call 0 (OWhen [0; 1] (Some 1)); at_call 0 (OWhen [0] None); at_call 0 (OCancel 1)].

Lemma repaired_examples_lemma :
  (* WhenTicks registered after SetSchema is served (the manager reads the live clock) *)
  last (polls_of w3_ops (hist_events (flat_schema 1) [] []
          [call KAdd [0]; call KRemove [0]; call KAdd [0]] w3_ops)) [] = [false; true] /\
  (* WhenQueue(tick) of a canceled mutation is closed by that transition *)
  polls_of [at_call 0 (OWhenQueue 2)]
           (hist_events req_schema [] [] [call KAdd [0]] [at_call 0 (OWhenQueue 2)]) = [[true]; [true]] /\
  (* the ended context of a multi-state When no longer orphans the When [0] binding *)
  nth 1 (last (polls_of w5_ops (hist_events (flat_schema 3) [] []
                 [call KAdd [2]; call KAdd [0]] w5_ops)) []) false = true /\
  (* WhenQuery with a context returns a channel *)
  (forall (s : sst) (v : view) (f : qfn) (c : nat),
      ss_disposed s = false -> mem c (ss_done s) = false ->
      snd (do_op s v (OWhenQuery f (Some c))) = RChan (ss_next s)) /\
  (* When [A;B] with A active stays open across Set [B] (two-pass ProcessWhen) *)
  last (polls_of [at_call 1 (OWhen [0; 1] None)]
          (hist_events (flat_schema 2) [] [] [call KAdd [0]; call KSet [1]]
             [at_call 1 (OWhen [0; 1] None)])) [] = [false] /\
  (* a state context made at tx:applied of the transition that activates its
     state survives that transition (ProcessStateCtx runs before the point) *)
  last (polls_of [{| so_pos := PApplied 0; so_op := ONewStateCtx 0 |}]
          (hist_events (flat_schema 1) [] [] [call KAdd [0]]
             [{| so_pos := PApplied 0; so_op := ONewStateCtx 0 |}])) [] = [false].
Proof.
  split; [vm_compute; reflexivity|]. split; [vm_compute; reflexivity|].
  split; [vm_compute; reflexivity|].
  split; [|split; vm_compute; reflexivity].
  intros s v f c Hd Hc. unfold do_op. rewrite Hd. cbn [ctx_done]. rewrite Hc. reflexivity.
Qed.

(* ------------------------------------------------------------------------ *)
(* Part 2: the positive theorems (proved in C06When.v / C06Keep.v)          *)

From AMV Require Proofs.C06When Proofs.C06Keep.

Definition when_iff_lemma := C06When.when_iff_lemma.
Definition when_single_state_iff_lemma := C06When.when_single_state_iff_lemma.
Definition whenqueue_no_lost_lemma := C06Keep.whenqueue_no_lost_lemma'.
Definition whenqueueends_lemma := C06Keep.whenqueueends_lemma'.
Definition statectx_partial_lemma := C06Keep.statectx_no_lost_lemma'.
Definition whenquery_no_lost_lemma := C06Keep.whenquery_no_lost_lemma.
Definition never_crashed_lemma := C06Keep.run_not_crashed.

(* the two directions of when_iff *)
Lemma when_no_lost_wakeup_lemma : forall a0 pre k v neg sts ctx post,
  let es := pre ++ EOp k v (when_op neg sts ctx) :: post in
  forallb plain_ev es = true -> coherent a0 es -> fresh_k k post -> known v sts = true ->
  let a1 := acts a0 pre in
  told_cond neg sts a1 || held_later (told_cond neg sts) a1 post = true ->
  closed_of (run init_sst es) k = true.
Proof.
  intros a0 pre k v neg sts ctx post es Hp Hc Hf Hk a1 H.
  pose proof (C06When.when_iff_lemma a0 pre k v neg sts ctx post Hp Hc Hf Hk) as E.
  cbv zeta in E. fold es a1 in E. rewrite E. exact H.
Qed.

Lemma when_no_spurious_wakeup_lemma : forall a0 pre k v neg sts ctx post,
  let es := pre ++ EOp k v (when_op neg sts ctx) :: post in
  forallb plain_ev es = true -> coherent a0 es -> fresh_k k post -> known v sts = true ->
  let a1 := acts a0 pre in
  closed_of (run init_sst es) k = true ->
  told_cond neg sts a1 || held_later (told_cond neg sts) a1 post = true.
Proof.
  intros a0 pre k v neg sts ctx post es Hp Hc Hf Hk a1 H.
  pose proof (C06When.when_iff_lemma a0 pre k v neg sts ctx post Hp Hc Hf Hk) as E.
  cbv zeta in E. fold es a1 in E. rewrite <- E. exact H.
Qed.

(* ProcessStateCtx cancels nothing but the contexts of the listed states *)
Lemma statectx_only_lemma : forall s act deact i,
  is_closed (process_state_ctx s act deact) i = true ->
  is_closed s i = true \/ exists x t, In x (act ++ deact) /\ In (x, (i, t)) (ss_sctx s).
Proof. intros s act deact i H. apply (C06Keep.process_state_ctx_only (act ++ deact) s i). exact H. Qed.

(* ---- non-vacuity *)

Definition ex_view (act : list nat) (cl : list N) (qt : N) (running : bool) : view :=
  {| v_active := act; v_clock := cl; v_qtick := qt; v_running := running; v_window := false;
     v_applied := false |}.

Definition ex_a0 : nat -> bool := fun _ => false.
Definition ex_pre : list sevent := [EProcess [0] [] [0; 0; 0]%N [1; 0; 0]%N 2%N].
(* Set [1] from {0}: 1 activated, 0 deactivated *)
Definition ex_post : list sevent := [EProcess [1] [0] [1; 0; 0]%N [2; 1; 0]%N 3%N].

Lemma ex_coherent : forall sts ctx,
  coherent ex_a0 (ex_pre ++ EOp 0 (ex_view [0] [1; 0; 0]%N 2 false) (OWhen sts ctx) :: ex_post).
Proof.
  intros sts ctx. cbn. repeat split. intros x. destruct (Nat.eqb x 0); reflexivity.
Qed.

(* the hypotheses of when_iff hold of a history in which the multi-state quirk
   shows: the told condition never holds, the walk completes the binding *)
Lemma when_iff_nonvacuous_lemma :
  let v := ex_view [0] [1; 0; 0]%N 2 false in
  let es := ex_pre ++ EOp 0 v (when_op false [0; 1] None) :: ex_post in
  forallb plain_ev es = true /\ coherent ex_a0 es /\ fresh_k 0 ex_post /\ known v [0; 1] = true /\
  told_cond false [0; 1] (acts ex_a0 ex_pre) = false /\
  held_later (told_cond false [0; 1]) (acts ex_a0 ex_pre) ex_post = false /\
  closed_of (run init_sst es) 0 = false.
Proof.
  cbv zeta. split; [reflexivity|]. split; [apply ex_coherent|]. split.
  { intros e [He|[]]. subst e. discriminate. }
  repeat split; vm_compute; reflexivity.
Qed.

(* a single-state When served by a later activation *)
Lemma when_single_nonvacuous_lemma :
  let v := ex_view [0] [1; 0; 0]%N 2 false in
  let es := ex_pre ++ EOp 0 v (when_op false [1] None) :: ex_post in
  forallb plain_ev es = true /\ coherent ex_a0 es /\ fresh_k 0 ex_post /\ known v [1] = true /\
  Bool.eqb (acts ex_a0 ex_pre 1) true = false /\
  held_later (fun a' => Bool.eqb (a' 1) true) (acts ex_a0 ex_pre) ex_post = true /\
  closed_of (run init_sst es) 0 = true.
Proof.
  cbv zeta. split; [reflexivity|]. split; [apply ex_coherent|]. split.
  { intros e [He|[]]. subst e. discriminate. }
  repeat split; vm_compute; reflexivity.
Qed.

Lemma queue_ctx_nonvacuous_lemma :
  let v := ex_view [0] [1; 0; 0]%N 2 true in
  (let es := ex_pre ++ EOp 0 v (OWhenQueue 3) :: ex_post in
   ss_crashed (run init_sst es) = false /\
   (3 <=? v_qtick v)%N || processed_with (fun qt => (3 <=? qt)%N) ex_post = true /\
   closed_of (run init_sst (ex_pre ++ [EOp 0 v (OWhenQueue 3)])) 0 = false) /\
  (let es := ex_pre ++ EOp 0 v OWhenQueueEnds :: [EQueueEnd] in
   ss_crashed (run init_sst es) = false /\
   closed_of (run init_sst (ex_pre ++ [EOp 0 v OWhenQueueEnds])) 0 = false) /\
  (let post := [EStateCtx [1] [0]] in
   let es := ex_pre ++ EOp 0 v (ONewStateCtx 0) :: post in
   ss_crashed (run init_sst es) = false /\ known v [0] = true /\ ctx_touched 0 post = true /\
   closed_of (run init_sst (ex_pre ++ [EOp 0 v (ONewStateCtx 0)])) 0 = false) /\
  (* a canceled transition with queue tick 3, then a WhenQuery with a context *)
  (processed_with (fun qt => (3 <=? qt)%N) [EQueueTick 3] = true /\
   query_held (QActive 1) ex_post = true /\
   closed_of (run init_sst (ex_pre ++ [EOp 0 v (OWhenQuery (QActive 1) (Some 1))])) 0 = false).
Proof. cbv zeta. repeat split; vm_compute; reflexivity. Qed.
