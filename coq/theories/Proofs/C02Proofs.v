(* C02 — proofs about the relation resolver model (Model/Resolver.v) against
   the C02 predicates (Spec/C02.v). Lemmas only; the property theorems are
   restated in Props/C02.v and closed by [exact]. *)

From Coq Require Import List Bool Arith Lia Permutation.
From AMV Require Import Base.ListSet Model.Schema Model.Resolver Spec.C02.
Import ListNotations.

(* ------------------------------------------------------------------ *)
(* membership                                                          *)
(* ------------------------------------------------------------------ *)

Lemma mem_In : forall x l, mem x l = true <-> In x l.
Proof.
  intros x l. unfold mem. rewrite existsb_exists. split.
  - intros [y [Hy Heq]]. apply Nat.eqb_eq in Heq. subst. exact Hy.
  - intros Hin. exists x. split; [exact Hin | apply Nat.eqb_refl].
Qed.

Lemma mem_false : forall x l, mem x l = false <-> ~ In x l.
Proof.
  intros x l. split.
  - intros Hf Hin. apply mem_In in Hin. congruence.
  - intros Hn. destruct (mem x l) eqn:E; [|reflexivity].
    apply mem_In in E. contradiction.
Qed.

Lemma mem_ext : forall l1 l2, (forall x, In x l1 <-> In x l2) ->
  forall x, mem x l1 = mem x l2.
Proof.
  intros l1 l2 Hext x. destruct (mem x l2) eqn:E.
  - apply mem_In. apply Hext. apply mem_In. exact E.
  - apply mem_false. intros Hin. apply Hext in Hin. apply mem_In in Hin. congruence.
Qed.

Lemma uniq_acc_In : forall l seen x,
  In x (uniq_acc seen l) <-> In x l /\ ~ In x seen.
Proof.
  induction l as [|y r IH]; intros seen x; simpl.
  - tauto.
  - destruct (mem y seen) eqn:E.
    + rewrite IH. apply mem_In in E. split.
      * intros [H1 H2]. tauto.
      * intros [[H1|H1] H2]; [subst; contradiction | tauto].
    + apply mem_false in E. simpl. rewrite IH. simpl. split.
      * intros [H|[H1 H2]]; [subst; tauto | tauto].
      * intros [[H1|H1] H2]; [tauto|].
        destruct (Nat.eq_dec y x) as [Heq|Hne]; [tauto|]. right. tauto.
Qed.

Lemma uniq_In : forall l x, In x (uniq l) <-> In x l.
Proof. intros l x. unfold uniq. rewrite uniq_acc_In. simpl. tauto. Qed.

Lemma uniq_acc_NoDup : forall l seen, NoDup (uniq_acc seen l).
Proof.
  induction l as [|y r IH]; intros seen; simpl.
  - constructor.
  - destruct (mem y seen) eqn:E.
    + apply IH.
    + constructor; [|apply IH].
      rewrite uniq_acc_In. simpl. tauto.
Qed.

Lemma uniq_NoDup : forall l, NoDup (uniq l).
Proof. intros l. apply uniq_acc_NoDup. Qed.

Lemma filter_length_le' : forall (A : Type) (f : A -> bool) l,
  length (filter f l) <= length l.
Proof.
  intros A f l. induction l as [|x r IH]; simpl; [lia|].
  destruct (f x); simpl; lia.
Qed.

(* a filter of equal length is the identity *)
Lemma filter_length_eq_all : forall (A : Type) (f : A -> bool) l,
  length (filter f l) = length l -> forall x, In x l -> f x = true.
Proof.
  intros A f l. induction l as [|y r IH]; simpl; intros Hlen x Hin; [contradiction|].
  destruct (f y) eqn:E.
  - simpl in Hlen. destruct Hin as [Heq|Hin]; [subst; exact E|].
    apply IH; [lia | exact Hin].
  - pose proof (filter_length_le' A f r). lia.
Qed.

Lemma filter_nil_all : forall (A : Type) (f : A -> bool) l,
  filter f l = [] -> forall x, In x l -> f x = false.
Proof.
  intros A f l Hnil x Hin. destruct (f x) eqn:E; [|reflexivity].
  assert (Hx : In x (filter f l)) by (apply filter_In; tauto).
  rewrite Hnil in Hx. contradiction.
Qed.

(* ------------------------------------------------------------------ *)
(* (2) Go's insertion sort is a permutation                            *)
(* ------------------------------------------------------------------ *)

Lemma ins_perm : forall (A : Type) (less : A -> A -> bool) x rp,
  Permutation (ins less x rp) (x :: rp).
Proof.
  intros A less x rp. induction rp as [|p r IH]; simpl.
  - apply Permutation_refl.
  - destruct (less x p).
    + apply Permutation_trans with (p :: x :: r).
      * apply perm_skip. exact IH.
      * apply perm_swap.
    + apply Permutation_refl.
Qed.

Lemma fold_ins_perm : forall (A : Type) (less : A -> A -> bool) l acc,
  Permutation (fold_left (fun a x => ins less x a) l acc) (l ++ acc).
Proof.
  intros A less l. induction l as [|x r IH]; intros acc; simpl.
  - apply Permutation_refl.
  - apply Permutation_trans with (r ++ ins less x acc); [apply IH|].
    apply Permutation_trans with (r ++ x :: acc).
    + apply Permutation_app_head. apply ins_perm.
    + apply Permutation_sym. apply Permutation_middle.
Qed.

Lemma go_insertion_sort_perm : forall (A : Type) (less : A -> A -> bool) l,
  Permutation (go_insertion_sort less l) l.
Proof.
  intros A less l. unfold go_insertion_sort.
  apply Permutation_trans with (fold_left (fun a x => ins less x a) l []).
  - apply Permutation_sym. apply Permutation_rev.
  - pose proof (fold_ins_perm A less l []) as H. rewrite app_nil_r in H. exact H.
Qed.

Lemma go_insertion_sort_In : forall (A : Type) (less : A -> A -> bool) l x,
  In x (go_insertion_sort less l) <-> In x l.
Proof.
  intros A less l x. split; apply Permutation_in.
  - apply go_insertion_sort_perm.
  - apply Permutation_sym. apply go_insertion_sort_perm.
Qed.

Lemma sort_states_perm_lemma : forall sc topo l, Permutation (sort_states sc topo l) l.
Proof.
  intros sc topo l. unfold sort_states.
  eapply Permutation_trans; apply go_insertion_sort_perm.
Qed.

Lemma sort_states_In : forall sc topo l x, In x (sort_states sc topo l) <-> In x l.
Proof.
  intros sc topo l x. split; apply Permutation_in.
  - apply sort_states_perm_lemma.
  - apply Permutation_sym. apply sort_states_perm_lemma.
Qed.

Lemma sort_states_mem_lemma : forall sc topo l x,
  mem x (sort_states sc topo l) = mem x l.
Proof. intros sc topo l. apply mem_ext. intros x. apply sort_states_In. Qed.

Lemma sort_states_NoDup : forall sc topo l, NoDup l -> NoDup (sort_states sc topo l).
Proof.
  intros sc topo l Hnd. eapply Permutation_NoDup; [|exact Hnd].
  apply Permutation_sym. apply sort_states_perm_lemma.
Qed.

(* ------------------------------------------------------------------ *)
(* (1) parse_require ends in a genuine fixpoint                        *)
(* ------------------------------------------------------------------ *)

Lemma parse_require_fuel_fix : forall fuel sc states,
  length states < fuel ->
  forall x, In x (parse_require_fuel fuel sc states) ->
    req_ok sc (parse_require_fuel fuel sc states) x = true.
Proof.
  induction fuel as [|f IH]; intros sc states Hlt; [lia|].
  simpl. destruct (Nat.eqb (length (filter (req_ok sc states) states)) (length states)) eqn:E.
  - apply Nat.eqb_eq in E. intros x Hin.
    eapply filter_length_eq_all; eassumption.
  - apply Nat.eqb_neq in E. apply IH.
    pose proof (filter_length_le' _ (req_ok sc states) states). lia.
Qed.

Lemma parse_require_fix : forall sc states x,
  In x (parse_require sc states) -> req_ok sc (parse_require sc states) x = true.
Proof. intros sc states. unfold parse_require. apply parse_require_fuel_fix. lia. Qed.

Lemma parse_require_fuel_incl : forall fuel sc states x,
  In x (parse_require_fuel fuel sc states) -> In x states.
Proof.
  induction fuel as [|f IH]; intros sc states x; simpl; [tauto|].
  destruct (Nat.eqb _ _); [tauto|].
  intros Hin. apply IH in Hin. apply filter_In in Hin. tauto.
Qed.

Lemma parse_require_incl : forall sc states x,
  In x (parse_require sc states) -> In x states.
Proof. intros sc states x. apply parse_require_fuel_incl. Qed.

Lemma parse_require_fuel_NoDup : forall fuel sc states,
  NoDup states -> NoDup (parse_require_fuel fuel sc states).
Proof.
  induction fuel as [|f IH]; intros sc states Hnd; simpl; [exact Hnd|].
  destruct (Nat.eqb _ _); [exact Hnd|].
  apply IH. apply NoDup_filter. exact Hnd.
Qed.

Lemma parse_require_NoDup : forall sc states,
  NoDup states -> NoDup (parse_require sc states).
Proof. intros sc states. apply parse_require_fuel_NoDup. Qed.

Lemma r1_ok_iff : forall sc s,
  r1_ok sc s = true <->
  (forall a, In a s -> forall r, In r (s_require (sget sc a)) -> In r s).
Proof.
  intros sc s. unfold r1_ok. rewrite forallb_forall. split.
  - intros H a Ha r Hr. specialize (H a Ha). rewrite forallb_forall in H.
    apply mem_In. apply H. exact Hr.
  - intros H a Ha. rewrite forallb_forall. intros r Hr. apply mem_In. eapply H; eassumption.
Qed.

Lemma req_ok_In : forall sc s a,
  req_ok sc s a = true -> forall r, In r (s_require (sget sc a)) -> In r s.
Proof.
  intros sc s a H r Hr. unfold req_ok in H. rewrite forallb_forall in H.
  apply mem_In. apply H. exact Hr.
Qed.

Lemma r1_parse_require : forall sc states, r1_ok sc (parse_require sc states) = true.
Proof.
  intros sc states. apply r1_ok_iff. intros a Ha r Hr.
  eapply req_ok_In; [apply parse_require_fix; exact Ha | exact Hr].
Qed.

Lemma r1_ok_ext : forall sc s1 s2, (forall x, In x s1 <-> In x s2) ->
  r1_ok sc s1 = true -> r1_ok sc s2 = true.
Proof.
  intros sc s1 s2 Hext H. rewrite r1_ok_iff in *. intros a Ha r Hr.
  apply Hext. eapply H; [apply Hext; exact Ha | exact Hr].
Qed.

Lemma target_require_closed_lemma : forall (c : rctx) (to_set : list nat),
  r1_ok (rc_schema c) (target_states c to_set) = true.
Proof.
  intros c to_set. unfold target_states.
  eapply r1_ok_ext.
  - intros x. symmetry. apply sort_states_In.
  - unfold target_unsorted. apply r1_parse_require.
Qed.

Lemma resolve_require_closed_lemma : forall sc topo active mt called,
  r1_ok sc (resolve sc topo active mt called) = true.
Proof.
  intros sc topo active mt called. unfold resolve.
  apply (target_require_closed_lemma
    {| rc_schema := sc; rc_before := active; rc_mtype := mt;
       rc_called := called; rc_topology := topo |}).
Qed.

(* ------------------------------------------------------------------ *)
(* (3) the reverse blocked-by scan leaves a conflict-free list         *)
(* ------------------------------------------------------------------ *)

Lemma scan_step_cases : forall sc all kept ab name,
  (filter (fun b => negb (mem b ab)) (blocked_by sc all name) = [] /\
   scan_step sc all (kept, ab) name = (kept ++ [name], ab)) \/
  (filter (fun b => negb (mem b ab)) (blocked_by sc all name) <> [] /\
   scan_step sc all (kept, ab) name = (kept, name :: ab)).
Proof.
  intros sc all kept ab name. unfold scan_step.
  destruct (filter (fun b => negb (mem b ab)) (blocked_by sc all name)).
  - left. split; reflexivity.
  - right. split; [discriminate | reflexivity].
Qed.

Lemma scan_fold_inv : forall sc all l kept ab,
  NoDup l ->
  (forall x, In x l -> ~ In x kept /\ ~ In x ab) ->
  (forall x, In x kept -> ~ In x ab) ->
  (forall x b, In x kept -> In b all ->
     mem x (s_remove (sget sc b)) = true -> In b ab) ->
  forall k' ab', fold_left (scan_step sc all) l (kept, ab) = (k', ab') ->
  (forall x, In x k' -> ~ In x ab') /\
  (forall x b, In x k' -> In b all ->
     mem x (s_remove (sget sc b)) = true -> In b ab') /\
  (forall x, In x k' -> In x kept \/ In x l).
Proof.
  intros sc all l. induction l as [|name r IH]; intros kept ab Hnd Hfresh Hdisj Hblk k' ab' Hfold.
  - simpl in Hfold. inversion Hfold; subst. repeat split; auto.
  - inversion Hnd as [|? ? Hnotin Hnd']; subst.
    change (fold_left (scan_step sc all) (name :: r) (kept, ab))
      with (fold_left (scan_step sc all) r (scan_step sc all (kept, ab) name)) in Hfold.
    destruct (Hfresh name (or_introl eq_refl)) as [Hnk Hnab].
    destruct (scan_step_cases sc all kept ab name) as [[Hnil Heq]|[Hnn Heq]];
      rewrite Heq in Hfold.
    + (* kept *)
      assert (Hres := IH (kept ++ [name]) ab Hnd').
      destruct (Hres) with (k' := k') (ab' := ab') as [H1 [H2 H3]]; try assumption.
      * intros x Hx. destruct (Hfresh x (or_intror Hx)) as [Hxk Hxab].
        split; [|exact Hxab].
        intros Hin. apply in_app_or in Hin. destruct Hin as [Hin|[Hin|[]]]; [tauto|].
        subst. contradiction.
      * intros x Hin. apply in_app_or in Hin. destruct Hin as [Hin|[Hin|[]]].
        -- apply Hdisj. exact Hin.
        -- subst. exact Hnab.
      * intros x b Hin Hb Hrem. apply in_app_or in Hin. destruct Hin as [Hin|[Hin|[]]].
        -- eapply Hblk; eassumption.
        -- subst x.
           assert (Hbb : In b (blocked_by sc all name)).
           { unfold blocked_by. apply filter_In. split; assumption. }
           pose proof (filter_nil_all _ _ _ Hnil b Hbb) as Hf.
           apply negb_false_iff in Hf. apply mem_In. exact Hf.
      * repeat split; try assumption.
        intros x Hx. apply H3 in Hx. destruct Hx as [Hx|Hx]; [|right; right; exact Hx].
        apply in_app_or in Hx. destruct Hx as [Hx|[Hx|[]]]; [left; exact Hx|].
        right. left. exact Hx.
    + (* dropped *)
      assert (Hres := IH kept (name :: ab) Hnd').
      destruct (Hres) with (k' := k') (ab' := ab') as [H1 [H2 H3]]; try assumption.
      * intros x Hx. destruct (Hfresh x (or_intror Hx)) as [Hxk Hxab].
        split; [exact Hxk|].
        intros [Hin|Hin]; [subst; contradiction | contradiction].
      * intros x Hin [Heq'|Hin'].
        -- subst. contradiction.
        -- eapply Hdisj; eassumption.
      * intros x b Hin Hb Hrem. right. eapply Hblk; eassumption.
      * repeat split; try assumption.
        intros x Hx. apply H3 in Hx. destruct Hx as [Hx|Hx]; [left; exact Hx|].
        right. right. exact Hx.
Qed.

Lemma blocked_scan_spec : forall sc all, NoDup all ->
  exists ab,
    (forall x, In x (blocked_scan sc all) -> ~ In x ab) /\
    (forall x b, In x (blocked_scan sc all) -> In b all ->
       mem x (s_remove (sget sc b)) = true -> In b ab) /\
    (forall x, In x (blocked_scan sc all) -> In x all).
Proof.
  intros sc all Hnd. unfold blocked_scan.
  destruct (fold_left (scan_step sc all) (rev all) ([], [])) as [k' ab'] eqn:E.
  exists ab'. simpl.
  destruct (scan_fold_inv sc all (rev all) [] [] (NoDup_rev Hnd)) with (k' := k') (ab' := ab')
    as [H1 [H2 H3]]; try assumption.
  - intros x _. simpl. tauto.
  - intros x [].
  - intros x b [].
  - repeat split; try assumption.
    intros x Hx. apply H3 in Hx. destruct Hx as [[]|Hx]. apply in_rev. exact Hx.
Qed.

Lemma blocked_scan_incl : forall sc all x, NoDup all ->
  In x (blocked_scan sc all) -> In x all.
Proof.
  intros sc all x Hnd. destruct (blocked_scan_spec sc all Hnd) as [ab [_ [_ H3]]]. apply H3.
Qed.

Lemma resolved_conflict_free_lemma : forall sc all, NoDup all ->
  let res := blocked_scan sc all in
  forall a b, In a res -> In b res -> mem b (s_remove (sget sc a)) = true -> False.
Proof.
  intros sc all Hnd res a b Ha Hb Hrem. unfold res in *.
  destruct (blocked_scan_spec sc all Hnd) as [ab [H1 [H2 H3]]].
  apply (H1 a Ha). eapply H2; [exact Hb | apply H3; exact Ha | exact Hrem].
Qed.

(* boolean corollary: the list that leaves the scan satisfies R2 *)
Lemma r2_pairs_In : forall sc s a b,
  In (a, b) (r2_pairs sc s) <->
  In a s /\ In b s /\ a <> b /\ mem b (s_remove (sget sc a)) = true.
Proof.
  intros sc s a b. unfold r2_pairs. rewrite in_flat_map. split.
  - intros [a' [Ha' Hin]]. apply in_map_iff in Hin. destruct Hin as [b' [Heq Hin]].
    inversion Heq; subst. apply filter_In in Hin. destruct Hin as [Hb Hc].
    apply andb_true_iff in Hc. destruct Hc as [Hne Hrem].
    apply negb_true_iff in Hne. apply Nat.eqb_neq in Hne. tauto.
  - intros [Ha [Hb [Hne Hrem]]]. exists a. split; [exact Ha|].
    apply in_map_iff. exists b. split; [reflexivity|].
    apply filter_In. split; [exact Hb|].
    apply andb_true_iff. split; [|exact Hrem].
    apply negb_true_iff. apply Nat.eqb_neq. exact Hne.
Qed.

Lemma r2_ok_intro : forall sc s,
  (forall a b, In (a, b) (r2_pairs sc s) -> False) -> r2_ok sc s = true.
Proof.
  intros sc s H. unfold r2_ok. destruct (r2_pairs sc s) as [|[a b] r]; [reflexivity|].
  exfalso. apply (H a b). left. reflexivity.
Qed.

Lemma scan_r2_ok_lemma : forall sc all, NoDup all -> r2_ok sc (blocked_scan sc all) = true.
Proof.
  intros sc all Hnd. apply r2_ok_intro. intros a b Hin.
  apply r2_pairs_In in Hin. destruct Hin as [Ha [Hb [_ Hrem]]].
  exact (resolved_conflict_free_lemma sc all Hnd a b Ha Hb Hrem).
Qed.

(* without NoDup the simple statement is false: a state dropped at its first
   examination can be kept at a later one *)
Definition mk_sd (multi : bool) (req add rem : list nat) : sdef :=
  {| s_auto := false; s_multi := multi; s_require := req; s_add := add;
     s_remove := rem; s_after := [] |}.

Definition dup_schema : schema :=
  [mk_sd false [] [] []; mk_sd false [] [] [0]; mk_sd false [] [] [1]; mk_sd false [] [] [2]].

Lemma resolved_conflict_free_refuted_lemma :
  exists sc all a b,
    In a (blocked_scan sc all) /\ In b (blocked_scan sc all) /\ a <> b /\
    mem b (s_remove (sget sc a)) = true.
Proof.
  exists dup_schema, [3; 1; 0; 2; 1], 1, 0. vm_compute.
  repeat split; auto. discriminate.
Qed.

Lemma resolved_conflict_free_nonvacuous_lemma :
  NoDup [3; 1; 0; 2] /\ blocked_scan dup_schema [3; 1; 0; 2] = [1; 3].
Proof.
  split; [|vm_compute; reflexivity].
  repeat constructor; simpl; intuition discriminate.
Qed.

(* ------------------------------------------------------------------ *)
(* (4), (5) concrete refutations of R2 and R3 for the as-is resolver   *)
(* ------------------------------------------------------------------ *)

(* A(0): Add [1]; B(1): Add [2]; Z(2): Remove [0]; Exception(3) multi *)
Definition r2_schema : schema :=
  [mk_sd false [] [1] []; mk_sd false [] [2] []; mk_sd false [] [] [0]; mk_sd true [] [] []].

Lemma r2_refuted_lemma :
  exists sc topo active mt called,
    r2_ok sc (resolve sc topo active mt called) = false /\
    resolve sc topo active mt called = [2; 0; 1].
Proof. exists r2_schema, [], [], MAdd, [0]. vm_compute. split; reflexivity. Qed.

(* blocked in the scan, then re-added by the second parseAdd pass *)
Definition r2_readded_schema : schema :=
  [mk_sd false [] [] [2; 3; 1]; mk_sd false [] [] [3; 2; 0]; mk_sd false [] [] [3; 1; 0];
   mk_sd false [] [0; 1] [2]; mk_sd true [] [] []].

Definition r2_readded_ctx : rctx :=
  {| rc_schema := r2_readded_schema; rc_before := [2]; rc_mtype := MAdd;
     rc_called := [3]; rc_topology := [] |}.

Lemma r2_readded_refuted_lemma :
  pass1_list r2_readded_ctx [3; 2] = [3; 2; 0; 1] /\
  resolved_list r2_readded_ctx [3; 2] = [3] /\
  resolve r2_readded_schema [] [2] MAdd [3] = [1; 0; 3] /\
  r2_pairs r2_readded_schema (resolve r2_readded_schema [] [2] MAdd [3])
    = [(1, 0); (1, 3); (0, 1); (0, 3)] /\
  r2_ok r2_readded_schema (resolve r2_readded_schema [] [2] MAdd [3]) = false.
Proof. vm_compute. repeat split; reflexivity. Qed.

(* Add chain deeper than the two parseAdd passes *)
Definition r3_schema : schema :=
  [mk_sd false [] [1] []; mk_sd false [] [2] []; mk_sd false [] [3] []; mk_sd false [] [] [];
   mk_sd true [] [] []].

Lemma r3_refuted_lemma :
  exists sc topo active mt called,
    r3_ok sc mt called active (resolve sc topo active mt called) = false /\
    resolve sc topo active mt called = [2; 0; 1] /\
    r3_missing sc mt called active (resolve sc topo active mt called) = [(2, 3)].
Proof. exists r3_schema, [], [], MAdd, [0]. vm_compute. repeat split; reflexivity. Qed.

(* ------------------------------------------------------------------ *)
(* (6), (7) a surviving Remove conflict needs the second parseAdd pass *)
(* ------------------------------------------------------------------ *)

Lemma pass1_NoDup : forall c to_set, NoDup (pass1_list c to_set).
Proof. intros c to_set. unfold pass1_list. apply parse_require_NoDup. apply uniq_NoDup. Qed.

Lemma target_unsorted_eq : forall c to_set,
  target_unsorted c to_set =
  parse_require (rc_schema c)
    (rev (uniq (filter
      (fun n => negb (mem n (flat_map (fun m => s_remove (sget (rc_schema c) m))
                                      (resolved_list c to_set))))
      (parse_add c (resolved_list c to_set))))).
Proof. reflexivity. Qed.

(* what membership in the final target implies about the second pass *)
Lemma target_In : forall c to_set x,
  In x (target_states c to_set) ->
  In x (parse_add c (resolved_list c to_set)) /\
  (forall a, In a (resolved_list c to_set) ->
     mem x (s_remove (sget (rc_schema c) a)) = true -> False).
Proof.
  intros c to_set x Hin. unfold target_states in Hin.
  apply sort_states_In in Hin. rewrite target_unsorted_eq in Hin.
  apply parse_require_incl in Hin. apply in_rev in Hin. apply (proj1 (uniq_In _ _)) in Hin.
  apply filter_In in Hin. destruct Hin as [Hpa Hnr]. split; [exact Hpa|].
  intros a Ha Hrem. apply negb_true_iff in Hnr. apply mem_false in Hnr. apply Hnr.
  apply in_flat_map. exists a. split; [exact Ha|]. apply mem_In. exact Hrem.
Qed.

(* the removing side of a surviving conflict never left the scan *)
Lemma r2_conflict_remover_from_second_pass_lemma : forall (c : rctx) (to_set : list nat) a b,
  In (a, b) (r2_pairs (rc_schema c) (target_states c to_set)) ->
  mem a (resolved_list c to_set) = false.
Proof.
  intros c to_set a b Hin. apply r2_pairs_In in Hin.
  destruct Hin as [Ha [Hb [Hne Hrem]]].
  apply mem_false. intros Hares.
  destruct (target_In c to_set b Hb) as [_ Hno]. exact (Hno a Hares Hrem).
Qed.

Lemma r2_conflict_needs_second_pass_lemma : forall (c : rctx) (to_set : list nat) a b,
  In (a, b) (r2_pairs (rc_schema c) (target_states c to_set)) ->
  ~ (mem a (resolved_list c to_set) = true /\ mem b (resolved_list c to_set) = true).
Proof.
  intros c to_set a b Hin [Ha Hb].
  apply r2_pairs_In in Hin. destruct Hin as [_ [_ [_ Hrem]]].
  apply mem_In in Ha. apply mem_In in Hb. unfold resolved_list in Ha, Hb.
  exact (resolved_conflict_free_lemma (rc_schema c) (pass1_list c to_set)
           (pass1_NoDup c to_set) a b Ha Hb Hrem).
Qed.

Lemma resolved_list_r2_ok_lemma : forall c to_set,
  r2_ok (rc_schema c) (resolved_list c to_set) = true.
Proof. intros c to_set. unfold resolved_list. apply scan_r2_ok_lemma. apply pass1_NoDup. Qed.

Lemma r2_holds_without_second_pass_additions_lemma : forall (c : rctx) (to_set : list nat),
  every (resolved_list c to_set) (parse_add c (resolved_list c to_set)) = true ->
  r2_ok (rc_schema c) (target_states c to_set) = true.
Proof.
  intros c to_set Hev. apply r2_ok_intro. intros a b Hin.
  pose proof (r2_conflict_remover_from_second_pass_lemma c to_set a b Hin) as Hnot.
  apply r2_pairs_In in Hin. destruct Hin as [Ha _].
  destruct (target_In c to_set a Ha) as [Hpa _].
  unfold every in Hev. rewrite forallb_forall in Hev.
  rewrite (Hev a Hpa) in Hnot. discriminate.
Qed.

(* non-vacuity instances *)
Lemma r2_conflict_needs_second_pass_nonvacuous_lemma :
  In (1, 0) (r2_pairs (rc_schema r2_readded_ctx) (target_states r2_readded_ctx [3; 2])) /\
  mem 1 (resolved_list r2_readded_ctx [3; 2]) = false /\
  mem 0 (resolved_list r2_readded_ctx [3; 2]) = false.
Proof. vm_compute. repeat split; auto. Qed.

(* 0 Removes 1, both requested: the scan drops 1, the second pass adds nothing *)
Definition r2_plain_ctx : rctx :=
  {| rc_schema := [mk_sd false [] [] [1]; mk_sd false [] [] []; mk_sd true [] [] []];
     rc_before := []; rc_mtype := MAdd; rc_called := [0; 1]; rc_topology := [] |}.

Lemma r2_holds_without_second_pass_additions_nonvacuous_lemma :
  pass1_list r2_plain_ctx [0; 1] = [0; 1] /\
  resolved_list r2_plain_ctx [0; 1] = [0] /\
  every (resolved_list r2_plain_ctx [0; 1])
        (parse_add r2_plain_ctx (resolved_list r2_plain_ctx [0; 1])) = true /\
  target_states r2_plain_ctx [0; 1] = [0].
Proof. vm_compute. repeat split; reflexivity. Qed.

(* ------------------------------------------------------------------ *)
(* (8) R4, gained states                                               *)
(* ------------------------------------------------------------------ *)

Lemma add_closure_incl : forall fuel sc l x, In x l -> In x (add_closure fuel sc l).
Proof.
  induction fuel as [|f IH]; intros sc l x Hin; simpl; [exact Hin|].
  apply IH. apply uniq_In. apply in_or_app. left. exact Hin.
Qed.

(* membership in the resolver's target: an explicit Add chain of depth <= 2 *)
Lemma parse_add_loop_In : forall c l visited x,
  In x (parse_add_loop c visited l) ->
  exists a, In a l /\
    mem a (rc_before c) && negb (s_multi (sget (rc_schema c) a)) = false /\
    In x (add_of c a).
Proof.
  intros c l. induction l as [|name r IH]; intros visited x Hin; simpl in Hin; [contradiction|].
  destruct (mem name (rc_before c) && negb (s_multi (sget (rc_schema c) name))) eqn:E1.
  - destruct (IH _ _ Hin) as [a [Ha Hr]]. exists a. split; [right; exact Ha | exact Hr].
  - destruct (mem name visited).
    + destruct (IH _ _ Hin) as [a [Ha Hr]]. exists a. split; [right; exact Ha | exact Hr].
    + destruct (add_of c name) as [|n adds] eqn:E2.
      * destruct (IH _ _ Hin) as [a [Ha Hr]]. exists a. split; [right; exact Ha | exact Hr].
      * change (In x ((n :: adds) ++ parse_add_loop c (name :: visited) r)) in Hin.
        apply in_app_or in Hin. destruct Hin as [Hin|Hin].
        -- exists name. split; [left; reflexivity|]. split; [exact E1|].
           rewrite E2. exact Hin.
        -- destruct (IH _ _ Hin) as [a [Ha Hr]]. exists a. split; [right; exact Ha | exact Hr].
Qed.

Lemma add_of_In : forall c a x, In x (add_of c a) ->
  In x (s_add (sget (rc_schema c) a)) /\
  (rc_mtype c = MRemove -> ~ In x (rc_called c)).
Proof.
  intros c a x Hin. unfold add_of in Hin. apply filter_In in Hin.
  destruct Hin as [Hadd Hf]. split; [exact Hadd|].
  intros Hmt Hc. rewrite Hmt in Hf. simpl in Hf.
  apply mem_In in Hc. rewrite Hc in Hf. discriminate.
Qed.

Lemma parse_add_In : forall c l x,
  In x (parse_add c l) ->
  In x l \/ exists a, In a l /\ In x (add_of c a).
Proof.
  intros c l x Hin. unfold parse_add in Hin. apply in_app_or in Hin.
  destruct Hin as [Hin|Hin]; [left; exact Hin|]. right.
  destruct (parse_add_loop_In _ _ _ _ Hin) as [a [Ha [_ Hx]]]. exists a. tauto.
Qed.

Lemma resolved_list_In : forall c to_set x,
  In x (resolved_list c to_set) ->
  In x to_set \/ exists a, In a to_set /\ In x (add_of c a).
Proof.
  intros c to_set x Hin. unfold resolved_list in Hin.
  apply blocked_scan_incl in Hin; [|apply pass1_NoDup].
  unfold pass1_list in Hin. apply parse_require_incl in Hin. apply (proj1 (uniq_In _ _)) in Hin.
  apply parse_add_In in Hin. destruct Hin as [Hin|[a [Ha Hx]]].
  - left. apply uniq_In. exact Hin.
  - right. exists a. split; [apply uniq_In; exact Ha | exact Hx].
Qed.

Lemma target_chain_lemma : forall (c : rctx) (to_set : list nat) x,
  In x (target_states c to_set) ->
  In x to_set \/
  (exists a, In a to_set /\ In x (add_of c a)) \/
  (exists a b, In a to_set /\ In b (add_of c a) /\ In x (add_of c b)).
Proof.
  intros c to_set x Hin. destruct (target_In c to_set x Hin) as [Hpa _].
  apply parse_add_In in Hpa. destruct Hpa as [Hres|[b [Hb Hx]]].
  - apply resolved_list_In in Hres. tauto.
  - apply resolved_list_In in Hb. destruct Hb as [Hb|[a [Ha Hb]]].
    + right. left. exists b. tauto.
    + right. right. exists a, b. tauto.
Qed.

Lemma states_to_set_gain : forall mt called active g,
  In g (states_to_set mt called active) -> ~ In g active ->
  In g called /\ mt <> MRemove.
Proof.
  intros mt called active g Hin Hna. destruct mt; simpl in Hin.
  - apply in_app_or in Hin. destruct Hin as [Hin|Hin]; [|contradiction].
    split; [exact Hin | discriminate].
  - apply filter_In in Hin. tauto.
  - split; [exact Hin | discriminate].
Qed.

Lemma r4_gain_partial_lemma : forall sc topo active mt called g,
  In g (resolve sc topo active mt called) -> ~ In g active ->
  let ts := states_to_set mt called active in
  (In g called /\ mt <> MRemove) \/
  (exists a, In a ts /\ In g (s_add (sget sc a))) \/
  (exists a b, In a ts /\ In b (s_add (sget sc a)) /\ In g (s_add (sget sc b))).
Proof.
  intros sc topo active mt called g Hin Hna ts. unfold resolve in Hin.
  apply target_chain_lemma in Hin. destruct Hin as [Hin|[[a [Ha Hx]]|[a [b [Ha [Hb Hx]]]]]].
  - left. apply states_to_set_gain with (active := active); assumption.
  - right. left. exists a. split; [exact Ha|]. apply add_of_In in Hx. apply Hx.
  - right. right. exists a, b. split; [exact Ha|].
    apply add_of_In in Hb. apply add_of_In in Hx. split; [apply Hb | apply Hx].
Qed.

(* a Remove mutation never gains a state it was called to remove *)
Lemma remove_called_not_gained_lemma : forall sc topo active called g,
  In g (resolve sc topo active MRemove called) -> In g called -> False.
Proof.
  intros sc topo active called g Hin Hc. unfold resolve in Hin.
  apply target_chain_lemma in Hin. destruct Hin as [Hin|[[a [Ha Hx]]|[a [b [Ha [Hb Hx]]]]]].
  - simpl in Hin. apply filter_In in Hin. destruct Hin as [_ Hn].
    apply negb_true_iff in Hn. apply mem_false in Hn. contradiction.
  - apply add_of_In in Hx. destruct Hx as [_ Hx]. apply (Hx eq_refl). exact Hc.
  - apply add_of_In in Hx. destruct Hx as [_ Hx]. apply (Hx eq_refl). exact Hc.
Qed.

Lemma r4_gain_partial_nonvacuous_lemma :
  In 2 (resolve r3_schema [] [] MAdd [0]) /\ ~ In 2 [] /\
  In 0 (states_to_set MAdd [0] []) /\ In 1 (s_add (sget r3_schema 0)) /\
  In 2 (s_add (sget r3_schema 1)).
Proof. vm_compute. intuition. Qed.

(* ------------------------------------------------------------------ *)
(* (8) R4 gain against [candidates] = Add-closure of called ++ active  *)
(* ------------------------------------------------------------------ *)

Lemma sget_add_lt : forall sc a x, In x (s_add (sget sc a)) -> a < length sc.
Proof.
  intros sc a x Hin. destruct (lt_dec a (length sc)) as [Hlt|Hge]; [exact Hlt|].
  unfold sget in Hin. rewrite nth_overflow in Hin by lia. simpl in Hin. contradiction.
Qed.

Lemma add_closure_S_step : forall f sc l a x,
  In a l -> In x (s_add (sget sc a)) -> In x (add_closure (S f) sc l).
Proof.
  intros f sc l a x Ha Hx. simpl. apply add_closure_incl. apply uniq_In.
  apply in_or_app. right. apply in_flat_map. exists a. split; assumption.
Qed.

Lemma closure_depth1 : forall sc l a x,
  In a l -> In x (s_add (sget sc a)) -> In x (add_closure (length sc) sc l).
Proof.
  intros sc l a x Ha Hx. pose proof (sget_add_lt sc a x Hx) as Hlt.
  remember (length sc) as n eqn:En. destruct n as [|n]; [lia|].
  eapply add_closure_S_step; eassumption.
Qed.

Lemma closure_depth2 : forall sc l a b x,
  In a l -> In b (s_add (sget sc a)) -> In x (s_add (sget sc b)) ->
  In x (add_closure (length sc) sc l).
Proof.
  intros sc l a b x Ha Hb Hx.
  destruct (Nat.eq_dec a b) as [Heq|Hne].
  - subst b. eapply closure_depth1; eassumption.
  - pose proof (sget_add_lt sc a b Hb) as Hlta.
    pose proof (sget_add_lt sc b x Hx) as Hltb.
    remember (length sc) as n eqn:En. destruct n as [|[|n]]; [lia|lia|].
    change (In x (add_closure (S n) sc
      (uniq (l ++ flat_map (fun a0 => s_add (sget sc a0)) l)))).
    apply add_closure_S_step with (a := b); [|exact Hx].
    apply uniq_In. apply in_or_app. right. apply in_flat_map. exists a. split; assumption.
Qed.

Lemma ts_in_seed : forall mt called active a,
  In a (states_to_set mt called active) ->
  In a (uniq ((match mt with MRemove => [] | _ => called end) ++ active)).
Proof.
  intros mt called active a Hin. apply uniq_In. destruct mt; simpl in *.
  - exact Hin.
  - apply filter_In in Hin. tauto.
  - apply in_or_app. left. exact Hin.
Qed.

Lemma r4_gain_lemma : forall sc topo active mt called,
  r4_gain_ok sc mt called active (resolve sc topo active mt called) = true.
Proof.
  intros sc topo active mt called. unfold r4_gain_ok. rewrite forallb_forall.
  intros g Hg. unfold diff in Hg. apply filter_In in Hg. destruct Hg as [Hg Hna].
  apply negb_true_iff in Hna. apply mem_false in Hna.
  unfold gain_justified, candidates. apply mem_In.
  destruct (r4_gain_partial_lemma sc topo active mt called g Hg Hna)
    as [[Hc Hmt]|[[a [Ha Hx]]|[a [b [Ha [Hb Hx]]]]]].
  - apply add_closure_incl. apply uniq_In. apply in_or_app. left.
    destruct mt; [exact Hc | congruence | exact Hc].
  - apply ts_in_seed in Ha. eapply closure_depth1; eassumption.
  - apply ts_in_seed in Ha. eapply closure_depth2; eassumption.
Qed.

Lemma r4_gain_nonvacuous_lemma :
  diff (resolve r3_schema [] [] MAdd [0]) [] = [2; 0; 1] /\
  candidates r3_schema MAdd [0] [] = [0; 1; 2; 3] /\
  diff (resolve [mk_sd false [] [1] []; mk_sd false [] [7] []] [] [] MAdd [0]) [] = [7; 0; 1] /\
  candidates [mk_sd false [] [1] []; mk_sd false [] [7] []] MAdd [0] [] = [0; 1; 7].
Proof. vm_compute. repeat split; reflexivity. Qed.

(* ------------------------------------------------------------------ *)
(* R4 loss                                                             *)
(* ------------------------------------------------------------------ *)

Lemma forallb_false_ex : forall (A : Type) (f : A -> bool) l,
  forallb f l = false -> exists x, In x l /\ f x = false.
Proof.
  intros A f l. induction l as [|y r IH]; simpl; intros H; [discriminate|].
  destruct (f y) eqn:E.
  - simpl in H. destruct (IH H) as [x [Hx Hf]]. exists x. tauto.
  - exists y. tauto.
Qed.

Lemma negb_forallb_intro : forall (A : Type) (f : A -> bool) l r,
  In r l -> f r = false -> negb (forallb f l) = true.
Proof.
  intros A f l r Hin Hf. destruct (forallb f l) eqn:E; [|reflexivity].
  rewrite forallb_forall in E. rewrite (E r Hin) in Hf. discriminate.
Qed.

(* a state dropped by parseRequire misses a Require in the result *)
Lemma parse_require_fuel_dropped : forall fuel sc states x,
  In x states -> ~ In x (parse_require_fuel fuel sc states) ->
  exists r, In r (s_require (sget sc x)) /\ ~ In r (parse_require_fuel fuel sc states).
Proof.
  induction fuel as [|f IH]; intros sc states x Hin Hout; simpl in *; [contradiction|].
  destruct (Nat.eqb (length (filter (req_ok sc states) states)) (length states)); [contradiction|].
  destruct (req_ok sc states x) eqn:E.
  - apply IH; [|exact Hout]. apply filter_In. tauto.
  - unfold req_ok in E. apply forallb_false_ex in E. destruct E as [r [Hr Hm]].
    exists r. split; [exact Hr|]. apply mem_false in Hm. intros Hin'.
    apply parse_require_fuel_incl in Hin'. apply filter_In in Hin'. tauto.
Qed.

Lemma parse_require_dropped : forall sc states x,
  In x states -> ~ In x (parse_require sc states) ->
  exists r, In r (s_require (sget sc x)) /\ ~ In r (parse_require sc states).
Proof. intros sc states x. apply parse_require_fuel_dropped. Qed.

(* a state dropped by the scan has a blocker in the scanned list *)
Lemma scan_fold_complete : forall sc all l kept ab k' ab',
  fold_left (scan_step sc all) l (kept, ab) = (k', ab') ->
  (forall x, In x kept -> In x k') /\
  (forall x, In x l -> In x k' \/
     exists b, In b all /\ mem x (s_remove (sget sc b)) = true).
Proof.
  intros sc all l. induction l as [|name r IH]; intros kept ab k' ab' Hfold.
  - simpl in Hfold. inversion Hfold; subst. split; [auto | intros x []].
  - change (fold_left (scan_step sc all) (name :: r) (kept, ab))
      with (fold_left (scan_step sc all) r (scan_step sc all (kept, ab) name)) in Hfold.
    destruct (scan_step_cases sc all kept ab name) as [[Hnil Heq]|[Hnn Heq]];
      rewrite Heq in Hfold; destruct (IH _ _ _ _ Hfold) as [H1 H2].
    + split.
      * intros x Hx. apply H1. apply in_or_app. left. exact Hx.
      * intros x [Hx|Hx]; [|apply H2; exact Hx].
        subst. left. apply H1. apply in_or_app. right. left. reflexivity.
    + split; [exact H1|].
      intros x [Hx|Hx]; [|apply H2; exact Hx].
      subst. right.
      destruct (filter (fun b => negb (mem b ab)) (blocked_by sc all x)) as [|b bs] eqn:E;
        [congruence|].
      assert (Hb : In b (filter (fun b => negb (mem b ab)) (blocked_by sc all x)))
        by (rewrite E; left; reflexivity).
      apply filter_In in Hb. destruct Hb as [Hb _]. unfold blocked_by in Hb.
      apply filter_In in Hb. exists b. exact Hb.
Qed.

Lemma blocked_scan_dropped : forall sc all x,
  In x all -> ~ In x (blocked_scan sc all) ->
  exists b, In b all /\ mem x (s_remove (sget sc b)) = true.
Proof.
  intros sc all x Hin Hout. unfold blocked_scan in Hout.
  destruct (fold_left (scan_step sc all) (rev all) ([], [])) as [k' ab'] eqn:E.
  destruct (scan_fold_complete _ _ _ _ _ _ _ E) as [_ H2]. simpl in Hout.
  destruct (H2 x (proj1 (in_rev all x) Hin)) as [Hk|Hb]; [contradiction | exact Hb].
Qed.

(* why a requested state can be missing from the target *)
Lemma target_lost_cases : forall c to_set l,
  In l to_set -> ~ In l (target_states c to_set) ->
  (exists r, In r (s_require (sget (rc_schema c) l)) /\ ~ In r (pass1_list c to_set)) \/
  (exists b, In b (pass1_list c to_set) /\ mem l (s_remove (sget (rc_schema c) b)) = true) \/
  (exists r, In r (s_require (sget (rc_schema c) l)) /\ ~ In r (target_states c to_set)).
Proof.
  intros c to_set l Hin Hout.
  assert (Hs2 : In l (uniq (parse_add c (uniq to_set)))).
  { apply uniq_In. unfold parse_add. apply in_or_app. left. apply uniq_In. exact Hin. }
  destruct (in_dec Nat.eq_dec l (pass1_list c to_set)) as [Hp1|Hp1].
  2:{ left. unfold pass1_list in *. apply parse_require_dropped; assumption. }
  right.
  destruct (in_dec Nat.eq_dec l (resolved_list c to_set)) as [Hres|Hres].
  2:{ left. unfold resolved_list in Hres. apply blocked_scan_dropped; assumption. }
  destruct (mem l (flat_map (fun m => s_remove (sget (rc_schema c) m)) (resolved_list c to_set)))
    eqn:Erem.
  - left. apply mem_In in Erem. apply in_flat_map in Erem. destruct Erem as [b [Hb Hl]].
    exists b. split.
    + unfold resolved_list in Hb. apply blocked_scan_incl in Hb; [exact Hb | apply pass1_NoDup].
    + apply mem_In. exact Hl.
  - right.
    assert (Hun : ~ In l (target_unsorted c to_set)).
    { intros H. apply Hout. unfold target_states. apply sort_states_In. exact H. }
    rewrite target_unsorted_eq in Hun. apply parse_require_dropped in Hun.
    + destruct Hun as [r [Hr Hnr]]. exists r. split; [exact Hr|].
      intros H. apply Hnr. unfold target_states in H. apply sort_states_In in H.
      rewrite target_unsorted_eq in H. exact H.
    + apply -> in_rev. apply uniq_In. apply filter_In. split.
      * unfold parse_add. apply in_or_app. left. exact Hres.
      * rewrite Erem. reflexivity.
Qed.

Lemma pass1_in_candidates : forall sc topo active mt called x,
  In x (pass1_list {| rc_schema := sc; rc_before := active; rc_mtype := mt;
                      rc_called := called; rc_topology := topo |}
                   (states_to_set mt called active)) ->
  In x (candidates sc mt called active).
Proof.
  intros sc topo active mt called x Hin. unfold pass1_list in Hin.
  apply parse_require_incl in Hin. apply (proj1 (uniq_In _ _)) in Hin.
  apply parse_add_In in Hin. unfold candidates. destruct Hin as [Hin|[a [Ha Hx]]].
  - apply (proj1 (uniq_In _ _)) in Hin. apply add_closure_incl. apply ts_in_seed. exact Hin.
  - apply (proj1 (uniq_In _ _)) in Ha. apply add_of_In in Hx. destruct Hx as [Hx _].
    simpl in Hx. eapply closure_depth1; [apply ts_in_seed; exact Ha | exact Hx].
Qed.

Lemma not_in_ts_justified : forall mt called active l,
  In l active -> ~ In l (states_to_set mt called active) ->
  match mt with
  | MRemove => mem l called
  | MSet => negb (mem l called)
  | MAdd => false
  end = true.
Proof.
  intros mt called active l Hact Hnot. destruct mt; simpl in *.
  - exfalso. apply Hnot. apply in_or_app. right. exact Hact.
  - destruct (mem l called) eqn:E; [reflexivity|].
    exfalso. apply Hnot. apply filter_In. rewrite E. tauto.
  - apply negb_true_iff. apply mem_false. exact Hnot.
Qed.

(* every lost state is justified as specified, or missed a Require already
   in the first pass (the list entering the scan) *)
Lemma r4_loss_partial_lemma : forall sc topo active mt called,
  let c := {| rc_schema := sc; rc_before := active; rc_mtype := mt;
              rc_called := called; rc_topology := topo |} in
  let s' := resolve sc topo active mt called in
  forallb (fun l =>
      loss_justified sc mt called active s' l
      || negb (forallb (fun r => mem r (pass1_list c (states_to_set mt called active)))
                       (s_require (sget sc l))))
    (diff active s') = true.
Proof.
  intros sc topo active mt called c s'. rewrite forallb_forall. intros l Hl.
  unfold diff in Hl. apply filter_In in Hl. destruct Hl as [Hact Hns].
  apply negb_true_iff in Hns. apply mem_false in Hns.
  unfold loss_justified.
  destruct (in_dec Nat.eq_dec l (states_to_set mt called active)) as [Hts|Hts].
  2:{ rewrite (not_in_ts_justified mt called active l Hact Hts). reflexivity. }
  destruct (target_lost_cases c (states_to_set mt called active) l Hts Hns)
    as [[r [Hr Hnr]]|[[b [Hb Hrem]]|[r [Hr Hnr]]]].
  - apply orb_true_iff. right.
    apply negb_forallb_intro with (r := r); [exact Hr | apply mem_false; exact Hnr].
  - apply orb_true_iff. left. apply orb_true_iff. left. apply orb_true_iff. right.
    apply existsb_exists. exists b. split; [|exact Hrem].
    apply in_or_app. left. apply pass1_in_candidates with (topo := topo). exact Hb.
  - apply orb_true_iff. left. apply orb_true_iff. right.
    apply negb_forallb_intro with (r := r); [exact Hr | apply mem_false; exact Hnr].
Qed.

(* R4 loss as specified is violated from an INCONSISTENT start state:
   0 (active) Requires 3 which is not active (the start violates R1, hence is
   unreachable by resolve_require_closed); 1 Adds 2; 2 Adds 3.
   Add [1]: 3 is not yet present in the first pass, so 0 is dropped; the
   second parseAdd pass then brings 3 in, and 0 ends up lost although all
   its Requires are active and nothing Removes it *)
Definition r4_loss_schema : schema :=
  [mk_sd false [3] [] []; mk_sd false [] [2] []; mk_sd false [] [3] []; mk_sd false [] [] [];
   mk_sd true [] [] []].

Lemma r4_loss_inconsistent_start_refuted_lemma :
  exists sc topo active mt called,
    r4_loss_ok sc mt called active (resolve sc topo active mt called) = false /\
    r1_ok sc active = false /\
    active = [0] /\ resolve sc topo active mt called = [3; 1; 2] /\
    s_require (sget sc 0) = [3].
Proof. exists r4_loss_schema, [], [0], MAdd, [1]. vm_compute. repeat split; reflexivity. Qed.

(* R4 loss holds whenever the second parseAdd pass adds nothing new *)
Lemma r4_loss_holds_without_second_pass_additions_lemma : forall sc topo active mt called,
  let c := {| rc_schema := sc; rc_before := active; rc_mtype := mt;
              rc_called := called; rc_topology := topo |} in
  let ts := states_to_set mt called active in
  every (resolved_list c ts) (parse_add c (resolved_list c ts)) = true ->
  r4_loss_ok sc mt called active (resolve sc topo active mt called) = true.
Proof.
  intros sc topo active mt called c ts Hev.
  pose proof (r4_loss_partial_lemma sc topo active mt called) as Hp. simpl in Hp.
  unfold r4_loss_ok. rewrite forallb_forall in *. intros l Hl.
  specialize (Hp l Hl). apply orb_true_iff in Hp. destruct Hp as [Hp|Hp]; [exact Hp|].
  apply negb_true_iff in Hp. apply forallb_false_ex in Hp. destruct Hp as [r [Hr Hm]].
  unfold loss_justified. apply orb_true_iff. right.
  apply negb_forallb_intro with (r := r); [exact Hr|].
  apply mem_false. intros Hin. apply mem_false in Hm. apply Hm.
  unfold resolve in Hin. destruct (target_In _ _ _ Hin) as [Hpa _].
  unfold every in Hev. rewrite forallb_forall in Hev. specialize (Hev r Hpa).
  apply mem_In in Hev. unfold resolved_list in Hev.
  apply blocked_scan_incl in Hev; [exact Hev | apply pass1_NoDup].
Qed.

Lemma r4_loss_nonvacuous_lemma :
  (* partial: the refuting run is covered by the extra first-pass disjunct *)
  pass1_list {| rc_schema := r4_loss_schema; rc_before := [0]; rc_mtype := MAdd;
                rc_called := [1]; rc_topology := [] |} [1; 0] = [1; 2] /\
  diff [0] (resolve r4_loss_schema [] [0] MAdd [1]) = [0] /\
  (* conditional: 0 Removes 1, 1 active, Add [0]: 1 is lost, justified *)
  (let sc := [mk_sd false [] [] [1]; mk_sd false [] [] []; mk_sd true [] [] []] in
   let c := {| rc_schema := sc; rc_before := [1]; rc_mtype := MAdd;
               rc_called := [0]; rc_topology := [] |} in
   every (resolved_list c [0; 1]) (parse_add c (resolved_list c [0; 1])) = true /\
   diff [1] (resolve sc [] [1] MAdd [0]) = [1] /\
   r4_loss_ok sc MAdd [0] [1] (resolve sc [] [1] MAdd [0]) = true).
Proof. vm_compute. repeat split; reflexivity. Qed.

(* ------------------------------------------------------------------ *)
(* R4 loss from consistent (Require-closed) start states               *)
(* ------------------------------------------------------------------ *)

(* a Require-closed subset of the input survives parseRequire *)
Lemma parse_require_fuel_keeps_closed : forall (P : nat -> Prop) fuel sc states,
  (forall x, P x -> In x states) ->
  (forall x r, P x -> In r (s_require (sget sc x)) -> P r) ->
  forall x, P x -> In x (parse_require_fuel fuel sc states).
Proof.
  intros P fuel. induction fuel as [|f IH]; intros sc states Hsub Hcl x Hx; simpl.
  - apply Hsub. exact Hx.
  - destruct (Nat.eqb _ _); [apply Hsub; exact Hx|].
    apply IH; [|exact Hcl|exact Hx].
    intros y Hy. apply filter_In. split; [apply Hsub; exact Hy|].
    unfold req_ok. rewrite forallb_forall. intros r Hr. apply mem_In. apply Hsub.
    eapply Hcl; eassumption.
Qed.

Lemma parse_require_keeps_closed : forall (P : nat -> Prop) sc states,
  (forall x, P x -> In x states) ->
  (forall x r, P x -> In r (s_require (sget sc x)) -> P r) ->
  forall x, P x -> In x (parse_require sc states).
Proof. intros P sc states. apply parse_require_fuel_keeps_closed. Qed.

(* Add / Remove mutations from a Require-closed state: every loss is justified *)
Lemma r4_loss_consistent_partial_lemma : forall sc topo active mt called,
  mt <> MSet -> r1_ok sc active = true ->
  r4_loss_ok sc mt called active (resolve sc topo active mt called) = true.
Proof.
  intros sc topo active mt called Hmt Hr1.
  pose proof (r4_loss_partial_lemma sc topo active mt called) as Hp. simpl in Hp.
  unfold r4_loss_ok. rewrite forallb_forall in *. intros l Hl.
  specialize (Hp l Hl). apply orb_true_iff in Hp. destruct Hp as [Hp|Hp]; [exact Hp|].
  apply negb_true_iff in Hp. apply forallb_false_ex in Hp. destruct Hp as [r [Hr Hm]].
  unfold diff in Hl. apply filter_In in Hl. destruct Hl as [Hact _].
  unfold loss_justified. apply orb_true_iff. right.
  apply negb_forallb_intro with (r := r); [exact Hr|].
  destruct (mem r (resolve sc topo active mt called)) eqn:Ers; [|reflexivity].
  exfalso. apply mem_false in Hm. apply Hm. clear Hm.
  pose proof (proj1 (r1_ok_iff sc active) Hr1) as Hcl_act.
  pose proof (proj1 (r1_ok_iff sc _) (resolve_require_closed_lemma sc topo active mt called))
    as Hcl_res.
  unfold pass1_list.
  apply parse_require_keeps_closed
    with (P := fun x => In x active /\ In x (resolve sc topo active mt called)).
  - intros x [Hxa Hxs]. apply uniq_In. unfold parse_add. apply in_or_app. left.
    apply uniq_In. destruct mt; simpl.
    + apply in_or_app. right. exact Hxa.
    + apply filter_In. split; [exact Hxa|]. apply negb_true_iff. apply mem_false.
      intros Hc. exact (remove_called_not_gained_lemma sc topo active called x Hxs Hc).
    + congruence.
  - intros x q [Hxa Hxs] Hq. simpl in Hq. split.
    + eapply Hcl_act; eassumption.
    + eapply Hcl_res; eassumption.
  - split; [eapply Hcl_act; eassumption | apply mem_In; exact Ers].
Qed.

(* ... but a Set mutation can lose a state without justification even from a
   reachable, R1- and R2-consistent start. 0 Requires 1; 2 Adds 3; 3 Adds 1.
     [] --Add [0;1]--> [0;1] --Set [0;2]--> [1;2;3]
   Set [0;2] omits 1, so 0 is dropped by the first parseRequire; the second
   parseAdd pass (3 Adds 1) then re-activates 1. 0 is lost although it was
   called, its Require 1 is active afterwards and nothing Removes it *)
Definition r4_loss_set_schema : schema :=
  [mk_sd false [1] [] []; mk_sd false [] [] []; mk_sd false [] [3] []; mk_sd false [] [1] [];
   mk_sd true [] [] []].

Lemma r4_loss_consistent_refuted_lemma :
  exists sc topo (ops : list (mut_type * list nat)) mt called,
    let active := fold_left (fun act op => resolve sc topo act (fst op) (snd op)) ops [] in
    r1_ok sc active = true /\ r2_ok sc active = true /\ NoDup active /\
    active = [0; 1] /\ resolve sc topo active mt called = [1; 2; 3] /\
    r4_loss_ok sc mt called active (resolve sc topo active mt called) = false.
Proof.
  exists r4_loss_set_schema, [], [(MAdd, [0; 1])], MSet, [0; 2]. vm_compute.
  split; [reflexivity|]. split; [reflexivity|]. split.
  - repeat constructor; simpl; intuition discriminate.
  - repeat split; reflexivity.
Qed.

Lemma r4_loss_consistent_partial_nonvacuous_lemma :
  (* 1 Requires 0; Remove [0] from [0;1] loses both, each justified *)
  let sc := [mk_sd false [] [] []; mk_sd false [0] [] []; mk_sd true [] [] []] in
  r1_ok sc [0; 1] = true /\ MRemove <> MSet /\
  resolve sc [] [0; 1] MRemove [0] = [] /\
  diff [0; 1] (resolve sc [] [0; 1] MRemove [0]) = [0; 1].
Proof. vm_compute. repeat split; try reflexivity. discriminate. Qed.

(* ------------------------------------------------------------------ *)
(* invariants of every reachable active list                           *)
(* ------------------------------------------------------------------ *)

Lemma resolve_NoDup_lemma : forall sc topo active mt called,
  NoDup (resolve sc topo active mt called).
Proof.
  intros sc topo active mt called. unfold resolve, target_states.
  apply sort_states_NoDup. rewrite target_unsorted_eq.
  apply parse_require_NoDup. apply NoDup_rev. apply uniq_NoDup.
Qed.

Lemma fold_resolve_inv : forall (Q : list nat -> Prop) sc topo,
  (forall active mt called, Q (resolve sc topo active mt called)) ->
  forall (ops : list (mut_type * list nat)) start, Q start ->
  Q (fold_left (fun act op => resolve sc topo act (fst op) (snd op)) ops start).
Proof.
  intros Q sc topo Hstep ops. induction ops as [|op r IH]; intros start Hs; simpl.
  - exact Hs.
  - apply IH. apply Hstep.
Qed.

Lemma inv_reachable_lemma : forall sc topo (ops : list (mut_type * list nat)),
  r1_ok sc (fold_left (fun act op => resolve sc topo act (fst op) (snd op)) ops []) = true.
Proof.
  intros sc topo ops.
  apply (fold_resolve_inv (fun l => r1_ok sc l = true)).
  - intros active mt called. apply resolve_require_closed_lemma.
  - reflexivity.
Qed.

Lemma inv_reachable_NoDup_lemma : forall sc topo (ops : list (mut_type * list nat)),
  NoDup (fold_left (fun act op => resolve sc topo act (fst op) (snd op)) ops []).
Proof.
  intros sc topo ops. apply (fold_resolve_inv (@NoDup nat)).
  - intros active mt called. apply resolve_NoDup_lemma.
  - constructor.
Qed.

Lemma r4_loss_reachable_lemma : forall sc topo (ops : list (mut_type * list nat)) mt called,
  mt <> MSet ->
  let active := fold_left (fun act op => resolve sc topo act (fst op) (snd op)) ops [] in
  r4_loss_ok sc mt called active (resolve sc topo active mt called) = true.
Proof.
  intros sc topo ops mt called Hmt active.
  apply r4_loss_consistent_partial_lemma; [exact Hmt | apply inv_reachable_lemma].
Qed.
