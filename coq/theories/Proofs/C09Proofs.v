(* C09 — proofs about the RPC synchronisation protocol model (Conc/RpcSync.v)
   against the predicates of Spec/C09.v. The codec facts come from
   Proofs/C10Proofs.v (roundtrip_deep_eq, deep_core, checksum_detects). *)

From Coq Require Import List NArith ZArith Bool Arith Lia ZifyN ZifyNat ZifyBool.
From AMV Require Import Model.RpcCodec Spec.C10 Conc.RpcSync Spec.C09.
From AMV Require Proofs.C10Proofs.
Import ListNotations.
Open Scope N_scope.

(* ------------------------------------------------------------------ *)
(* generic facts about exec                                            *)

Lemma exec_app : forall p s a b, exec p s (a ++ b) = exec p (exec p s a) b.
Proof. intros. unfold exec. apply fold_left_app. Qed.

Lemma exec_cons : forall p s e r, exec p s (e :: r) = exec p (step p s e) r.
Proof. reflexivity. Qed.

Lemma exec_nil : forall p s, exec p s [] = s.
Proof. reflexivity. Qed.

(* ------------------------------------------------------------------ *)
(* a stuck client stays as it is, whatever happens                     *)

Lemma settle_stuck_cl : forall p f s, cl_stuck (st_cl s) = true ->
  st_cl (settle p f s) = st_cl s.
Proof.
  intros p f. induction f as [|f IH]; intros s H; [reflexivity|].
  cbn [settle]. unfold do_sync_serve. rewrite H, andb_false_r.
  destruct (st_wire s); [reflexivity|]. now rewrite H.
Qed.

Lemma step_stuck : forall p s e, cl_stuck (st_cl s) = true ->
  st_cl (step p s e) = st_cl s.
Proof.
  intros p s e H. unfold step. destruct (st_err s); [reflexivity|].
  destruct e.
  - reflexivity.
  - unfold do_push. destruct (negb (st_conn s)); [reflexivity|].
    destruct (sv_latest (st_sv s)) as [d|]; [|reflexivity].
    destruct ((d_sum (sv_last (st_sv s)) =? d_sum d) && (d_q (sv_last (st_sv s)) =? d_q d));
      [reflexivity|].
    destruct (p_mut p).
    + destruct (calc_update_muts _ _ _) as [[|u us]|]; destruct (d_mtime d); reflexivity.
    + destruct (calc_upd _ _ _) as [u|]; [|destruct (d_mtime d); reflexivity].
      destruct (u_idx u); destruct (d_mtime d); reflexivity.
  - unfold do_reply. destruct (p_mut p).
    + destruct (calc_update_muts _ _ _); [|reflexivity].
      destruct (sv_latest (st_sv s)); reflexivity.
    + destruct (sv_latest (st_sv s)); [|reflexivity].
      destruct (calc_upd _ _ _); reflexivity.
  - unfold do_write. destruct (st_pend s); reflexivity.
  - unfold do_deliver. now rewrite H.
  - unfold do_sync_req. now rewrite H.
  - unfold do_sync_serve. now rewrite H, andb_false_r.
  - unfold do_hello. now rewrite H.
  - now apply settle_stuck_cl.
Qed.

Lemma stuck_forever_lemma : forall p es s, cl_stuck (st_cl s) = true ->
  st_cl (exec p s es) = st_cl s.
Proof.
  intros p es. induction es as [|e r IH]; intros s H; [reflexivity|].
  rewrite exec_cons. rewrite IH; [now apply step_stuck|].
  now rewrite step_stuck.
Qed.

(* ------------------------------------------------------------------ *)
(* a full Sync restores the mirror                                     *)

Lemma cl_sync_ok : forall c t q, t <> [] -> length t = length (cl_t c) ->
  cl_sync c t q = mk_client t q 0 (cl_stuck c) false (cl_errs c).
Proof.
  intros c t q Ht Hl. unfold cl_sync. destruct t as [|a r]; [congruence|].
  now rewrite (proj2 (Nat.eqb_eq _ _) Hl).
Qed.

Local Opaque cl_sync.

Lemma full_sync_restores_lemma : forall p s,
  st_err s = false -> cl_stuck (st_cl s) = false -> st_wire s = [] ->
  s_time (st_cur s) <> [] ->
  length (s_time (st_cur s)) = length (cl_t (st_cl s)) ->
  let s' := exec p s [SyncReq; Settle] in
  client_view s' = (s_time (st_cur s), s_q (st_cur s), 0) /\
  st_wire s' = [] /\ cl_need (st_cl s') = false /\ cl_stuck (st_cl s') = false /\
  st_err s' = false /\ st_sv s' = st_sv s.
Proof.
  intros p s He Hs Hw Ht Hl s'. subst s'.
  destruct s as [sv cl wire pend cur err sil rej syn np conn ip].
  destruct cl as [t q m stuck need errs].
  simpl in He, Hs, Hw, Ht, Hl. subst err stuck wire.
  unfold exec, step, do_sync_req, do_sync_serve, do_deliver. simpl.
  rewrite cl_sync_ok by assumption. simpl.
  unfold client_view. simpl. repeat split; reflexivity.
Qed.

Local Transparent cl_sync.

(* with a schema the synchronised entries of a fully synced mirror are the
   source's, for every tracked set *)
Lemma full_sync_mirror_ok : forall c src,
  sync_schema c = true -> mirror_ok c src src = true.
Proof.
  intros c src H. unfold mirror_ok, activity_ok, ticks_ok, mir_tracked, src_tracked, client_tracked.
  rewrite H. destruct (shallow c).
  - apply C10Proofs.list_bool_eqb_refl.
  - apply C10Proofs.list_N_eqb_refl.
Qed.
